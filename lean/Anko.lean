-- Root of the `Anko` library: model and regenerated facts. The proof and property modules (Anko.Proofs.*, Anko.Props.Cxx) are
-- built as separate targets (setup.sh, ./check): several of them unfold the same model functions, and the auxiliary
-- matcher lemmas Lean generates for that clash when two such modules are imported into one file.
import Anko.Model.WalkTypes
import Anko.Model.Walk
import Anko.Model.Sexp
import Anko.Model.Val
import Anko.Model.Num
import Anko.Model.Ops
import Anko.Model.Equal
import Anko.Model.BinOp
import Anko.Model.Codec
import Anko.Model.FloatImpl
import Anko.Model.Cli
import Anko.Model.Builtins
import Anko.Model.Syntax
import Anko.Model.State
import Anko.Model.Eval
import Anko.Gen.AstSchema
import Anko.Gen.Walker
import Anko.Gen.Cache
import Anko.Gen.Cli
import Anko.Gen.Packages
import Anko.Gen.AstWrites
