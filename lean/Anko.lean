-- Root of the `Anko` library: model, regenerated facts, proofs and property theorems.
import Anko.Model.WalkTypes
import Anko.Model.Walk
import Anko.Gen.AstSchema
import Anko.Gen.Walker
import Anko.Proofs.Walk
import Anko.Props.C17
