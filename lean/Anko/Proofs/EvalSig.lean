/-
Expressions never produce the control sentinels: whatever an expression-level model function
returns, its `err` is none, the interrupt, or a real error - never ErrBreak / ErrContinue /
ErrReturn (those are created only by statement lists and consumed by loops / functions).
Induction on fuel over the expression-level functions, given that they start without a
pending control sentinel.
-/
import Anko.Proofs.EvalCur

set_option linter.unusedSectionVars false
set_option linter.unusedVariables false

namespace Anko
variable [FOps] [Prov]

/-- `err` is not one of the three control sentinels -/
def NoSig (s : St) : Prop := s.err ≠ some .brk ∧ s.err ≠ some .cont ∧ s.err ≠ some .ret

@[simp] theorem noSig_fail (s : St) (m : String) : NoSig (s.fail m) := by simp [NoSig, St.fail]
@[simp] theorem noSig_markUnsup (s : St) (m : String) : NoSig (s.markUnsup m) := by simp [NoSig, St.markUnsup]
@[simp] theorem noSig_outOfFuel (s : St) : NoSig (outOfFuel s) := by simp [outOfFuel]
theorem noSig_of_none (s : St) (h : s.err = none) : NoSig s := by simp [NoSig, h]
theorem noSig_of_error (s : St) (m : String) (h : s.err = some (.error m)) : NoSig s := by simp [NoSig, h]
theorem noSig_of_interrupt (s : St) (h : s.err = some .interrupt) : NoSig s := by simp [NoSig, h]
theorem noSig_congr (s s' : St) (h : s'.err = s.err) (hs : NoSig s) : NoSig s' := by simpa [NoSig, h] using hs
theorem fail_err (s : St) (m : String) : (s.fail m).err = some (.error m) := rfl
theorem markUnsup_err (s : St) (m : String) : (s.markUnsup m).err = some (.error ("unsupported: " ++ m)) := rfl
theorem noSig_opRes (s : St) (r : OpRes) (h : NoSig s) : NoSig (opRes s r) := by
  cases r <;> simp_all [opRes, NoSig, St.fail, St.markUnsup]
theorem define_err (s : St) (i : Nat) (n : String) (v : RV) : (s.define i n v).err = s.err := by
  unfold St.define; split <;> rfl
theorem defineAll_err (l : List (String × RV)) : ∀ (s : St) (i : Nat), (s.defineAll i l).err = s.err := by
  induction l with
  | nil => intro s i; rfl
  | cons x xs ih => intro s i; obtain ⟨n, v⟩ := x; simp [St.defineAll, ih, define_err]
theorem setValue_err (s s' : St) (i : Nat) (n : String) (v : RV) (h : s.setValue i n v = some s') : s'.err = s.err := by
  unfold St.setValue at h
  split at h
  · injection h with h; subst h; exact define_err _ _ _ _
  · cases h
theorem assign_err (s : St) (n : String) (v : RV) : (s.assign n v).err = s.err := by
  unfold St.assign
  cases h : s.setValue s.cur n v with
  | some s' => exact setValue_err _ _ _ _ _ h
  | none => exact define_err _ _ _ _
theorem noSig_assignIn (s : St) (i : Nat) (n : String) (v : RV) (h : NoSig s) : NoSig (s.assignIn i n v) := by
  unfold St.assignIn
  cases h' : s.setValue i n v with
  | some s' => simp only [NoSig, setValue_err _ _ _ _ _ h']; exact h
  | none => simp [NoSig]
theorem newScope_err (s : St) (p : Nat) : (s.newScope p).2.err = s.err := rfl
theorem addClosure_err (s : St) (c : Closure) : (s.addClosure c).2.err = s.err := rfl
theorem poll_err (s : St) : s.poll.2.err = s.err := rfl

theorem noSig_convertArgs (cal : Callee) : ∀ (xs : List Val) (i : Nat) (s : St), NoSig s →
    NoSig (convertArgs cal xs i s).2 := by
  intro xs
  induction xs with
  | nil => intro i s h; exact h
  | cons x xs ih =>
    intro i s h
    simp only [convertArgs]
    split
    · have := ih (i + 1) s h
      split <;> simp_all
    · split
      · simp
      · split <;> simp
      · have := ih (i + 1) { s with rv := ‹RV› } h
        split <;> simp_all

theorem noSig_spreadFixed (cal : Callee) (nLead numExprs : Nat) (lead : List RV) (s2 : St) (h : NoSig s2) :
    NoSig (spreadFixed cal nLead numExprs lead s2).2 := by
  unfold spreadFixed
  split
  · split
    · simp
    · have := noSig_convertArgs cal (List.take (cal.numIn - nLead) ‹List Val›) nLead s2 h
      split <;> simp_all
  · split <;> simp

theorem noSig_spreadVariadic (lead : List RV) (s2 : St) (h : NoSig s2) : NoSig (spreadVariadic lead s2).2 := by
  unfold spreadVariadic
  repeat' split
  all_goals (first | exact h | simp)

theorem noSig_sliceResult (item : Val) (len : Nat) (bi ei : Int) (hc : Bool) (s : St) (h : NoSig s) :
    NoSig (sliceResult item len bi ei hc s) := by
  unfold sliceResult
  repeat' split
  all_goals (first | simp | exact h)

/-- induction hypothesis: expression-level functions at fuel `n` never yield a control sentinel -/
structure SigIH (n : Nat) : Prop where
  evalExpr : ∀ e s, NoSig s → NoSig (evalExpr n e s)
  evalList : ∀ es s, NoSig s → NoSig (evalList n es s).2
  evalIndexOpt : ∀ oe d s, NoSig s → NoSig (evalIndexOpt n oe d s).2
  evalCond : ∀ oe s, NoSig s → NoSig (evalCond n oe s).2
  sliceBegin : ∀ it len b e hc s, NoSig s → NoSig (sliceBegin n it len b e hc s)
  sliceEnd : ∀ it len bi e hc s, NoSig s → NoSig (sliceEnd n it len bi e hc s)
  evalMapLit : ∀ ks vs acc s, NoSig s → NoSig (evalMapLit n ks vs acc s)
  evalLetsx : ∀ l r i s, NoSig s → NoSig (evalLetsx n l r i s)
  letExpr : ∀ e s, NoSig s → NoSig (letExpr n e s)
  callValue : ∀ f a va s, NoSig s → NoSig (callValue n f a va s)
  makeCallArgs : ∀ c a va s, NoSig s → NoSig (makeCallArgs n c a va s).2
  argsTail : ∀ c r nl va ne lead s, NoSig s → NoSig (argsTail n c r nl va ne lead s).2
  evalArgs : ∀ c es i s, NoSig s → NoSig (evalArgs n c es i s).2
  evalVarArgs : ∀ c es s, NoSig s → NoSig (evalVarArgs n c es s).2
  callFn : ∀ f a cs s, NoSig s → NoSig (callFn n f a cs s)

/-- close a NoSig goal -/
macro "sig_grind" ih:ident : tactic => `(tactic| (
  have h1 := ($ih).evalExpr; have h2 := ($ih).evalList; have h3 := ($ih).evalIndexOpt; have h3c := ($ih).evalCond; have h3a := ($ih).sliceBegin
  have h3b := ($ih).sliceEnd; have h5 := ($ih).evalMapLit; have h6 := ($ih).evalLetsx; have h7 := ($ih).letExpr
  have h8 := ($ih).callValue; have h9 := ($ih).makeCallArgs; have h10 := ($ih).argsTail; have h11 := ($ih).evalArgs
  have h12 := ($ih).evalVarArgs; have h13 := ($ih).callFn
  grind (splits := 40) [noSig_of_none, noSig_of_error, noSig_of_interrupt, noSig_congr, fail_err, markUnsup_err, noSig_fail,
    noSig_markUnsup, noSig_outOfFuel, noSig_opRes, define_err, defineAll_err, assign_err, noSig_assignIn,
    newScope_err, addClosure_err, poll_err, noSig_convertArgs, noSig_spreadFixed, noSig_spreadVariadic, noSig_sliceResult]))

theorem sig_evalExpr (n : Nat) (ih : SigIH n) : ∀ e s, NoSig s → NoSig (evalExpr (n + 1) e s) := by
  intro e s hs; cases e <;> simp only [evalExpr] <;> sig_grind ih

theorem sig_evalList (n : Nat) (ih : SigIH n) : ∀ es s, NoSig s → NoSig (evalList (n + 1) es s).2 := by
  intro es s hs; rw [evalList.eq_def]; sig_grind ih

theorem sig_evalIndexOpt (n : Nat) (ih : SigIH n) : ∀ oe d s, NoSig s → NoSig (evalIndexOpt (n + 1) oe d s).2 := by
  intro oe d s hs; rw [evalIndexOpt.eq_def]; sig_grind ih

theorem sig_evalCond (n : Nat) (ih : SigIH n) : ∀ oe s, NoSig s → NoSig (evalCond (n + 1) oe s).2 := by
  intro oe s hs; rw [evalCond.eq_def]; sig_grind ih

theorem sig_sliceBegin (n : Nat) (ih : SigIH n) : ∀ it len b e hc s, NoSig s → NoSig (sliceBegin (n + 1) it len b e hc s) := by
  intro it len b e hc s hs; rw [sliceBegin.eq_def]; sig_grind ih

theorem sig_sliceEnd (n : Nat) (ih : SigIH n) : ∀ it len bi e hc s, NoSig s → NoSig (sliceEnd (n + 1) it len bi e hc s) := by
  intro it len bi e hc s hs; rw [sliceEnd.eq_def]; sig_grind ih

theorem sig_evalMapLit (n : Nat) (ih : SigIH n) : ∀ ks vs acc s, NoSig s → NoSig (evalMapLit (n + 1) ks vs acc s) := by
  intro ks vs acc s hs; rw [evalMapLit.eq_def]; sig_grind ih

theorem sig_evalLetsx (n : Nat) (ih : SigIH n) : ∀ l r i s, NoSig s → NoSig (evalLetsx (n + 1) l r i s) := by
  intro l r i s hs; rw [evalLetsx.eq_def]; sig_grind ih

theorem sig_letExpr (n : Nat) (ih : SigIH n) : ∀ e s, NoSig s → NoSig (letExpr (n + 1) e s) := by
  intro e s hs; rw [letExpr.eq_def]; sig_grind ih

theorem sig_callValue (n : Nat) (ih : SigIH n) : ∀ f a va s, NoSig s → NoSig (callValue (n + 1) f a va s) := by
  intro f a va s hs; rw [callValue.eq_def]; sig_grind ih

theorem sig_makeCallArgs (n : Nat) (ih : SigIH n) : ∀ c a va s, NoSig s → NoSig (makeCallArgs (n + 1) c a va s).2 := by
  intro c a va s hs; rw [makeCallArgs.eq_def]; sig_grind ih

theorem sig_argsTail (n : Nat) (ih : SigIH n) : ∀ c r nl va ne lead s, NoSig s → NoSig (argsTail (n + 1) c r nl va ne lead s).2 := by
  intro c r nl va ne lead s hs; rw [argsTail.eq_def]; sig_grind ih

theorem sig_evalArgs (n : Nat) (ih : SigIH n) : ∀ c es i s, NoSig s → NoSig (evalArgs (n + 1) c es i s).2 := by
  intro c es i s hs; rw [evalArgs.eq_def]; sig_grind ih

theorem sig_evalVarArgs (n : Nat) (ih : SigIH n) : ∀ c es s, NoSig s → NoSig (evalVarArgs (n + 1) c es s).2 := by
  intro c es s hs; rw [evalVarArgs.eq_def]; sig_grind ih

theorem sig_callFn (n : Nat) (ih : SigIH n) : ∀ f a cs s, NoSig s → NoSig (callFn (n + 1) f a cs s) := by
  intro f a cs s hs; rw [callFn.eq_def]; sig_grind ih

/-- Expression-level functions never yield ErrBreak / ErrContinue / ErrReturn. -/
theorem sig_all : ∀ n : Nat, SigIH n := by
  intro n
  induction n with
  | zero => exact {
    evalExpr := by intros; simp [evalExpr]
    evalList := by intros; simp [evalList]
    evalIndexOpt := by intros; simp [evalIndexOpt]
    evalCond := by intros; simp [evalCond]
    sliceBegin := by intros; simp [sliceBegin]
    sliceEnd := by intros; simp [sliceEnd]
    evalMapLit := by intros; simp [evalMapLit]
    evalLetsx := by intros; simp [evalLetsx]
    letExpr := by intros; simp [letExpr]
    callValue := by intros; simp [callValue]
    makeCallArgs := by intros; simp [makeCallArgs]
    argsTail := by intros; simp [argsTail]
    evalArgs := by intros; simp [evalArgs]
    evalVarArgs := by intros; simp [evalVarArgs]
    callFn := by intros; simp [callFn] }
  | succ n ih => exact {
    evalExpr := sig_evalExpr n ih
    evalList := sig_evalList n ih
    evalIndexOpt := sig_evalIndexOpt n ih
    evalCond := sig_evalCond n ih
    sliceBegin := sig_sliceBegin n ih
    sliceEnd := sig_sliceEnd n ih
    evalMapLit := sig_evalMapLit n ih
    evalLetsx := sig_evalLetsx n ih
    letExpr := sig_letExpr n ih
    callValue := sig_callValue n ih
    makeCallArgs := sig_makeCallArgs n ih
    argsTail := sig_argsTail n ih
    evalArgs := sig_evalArgs n ih
    evalVarArgs := sig_evalVarArgs n ih
    callFn := sig_callFn n ih }

/-! ### loops consume `break` and `continue` -/

/-- `err` is neither ErrBreak nor ErrContinue -/
def NoLoopSig (s : St) : Prop := s.err ≠ some .brk ∧ s.err ≠ some .cont

theorem noLoopSig_of_noSig (s : St) (h : NoSig s) : NoLoopSig s := ⟨h.1, h.2.1⟩

theorem loopIter_consumes (c : Option Expr) (b : Stmt) : ∀ (n : Nat) (s : St), s.err = none →
    NoLoopSig (loopIter n c b s) := by
  intro n
  induction n with
  | zero => intro s _; simp [loopIter, NoLoopSig, outOfFuel, St.markUnsup]
  | succ n ih =>
    intro s hs
    have hc := (sig_all n).evalCond c s.poll.2 (noSig_of_none _ (by simpa [poll_err] using hs))
    rw [loopIter.eq_def]
    simp only []
    split
    · simp [NoLoopSig]
    · split
      · exact noLoopSig_of_noSig _ hc
      · next hnone =>
        have hnone' : (evalCond n c s.poll.2).2.err = none := by
          cases h : (evalCond n c s.poll.2).2.err <;> simp_all
        split
        · simp [NoLoopSig, St.markUnsup]
        · simp [NoLoopSig, hnone']
        · split
          · next h2 => exact ih _ h2
          · exact ih _ rfl
          · next h2 => simp [NoLoopSig, h2]
          · simp [NoLoopSig]
          · next e h1 h2 h3 h4 =>
            refine ⟨?_, ?_⟩ <;> intro h <;> simp_all

theorem cforIter_consumes (c p : Option Expr) (b : Stmt) : ∀ (n : Nat) (s : St), s.err = none →
    NoLoopSig (cforIter n c p b s) := by
  intro n
  induction n with
  | zero => intro s _; simp [cforIter, NoLoopSig, outOfFuel, St.markUnsup]
  | succ n ih =>
    intro s hs
    have hc := (sig_all n).evalCond c s.poll.2 (noSig_of_none _ (by simpa [poll_err] using hs))
    have hp : ∀ pe st, st.err = none → NoSig (evalExpr n pe st) :=
      fun pe st h => (sig_all n).evalExpr pe st (noSig_of_none _ h)
    rw [cforIter.eq_def]
    simp only []
    split
    · simp [NoLoopSig]
    · split
      · exact noLoopSig_of_noSig _ hc
      · next hnone =>
        have hnone' : (evalCond n c s.poll.2).2.err = none := by
          cases h : (evalCond n c s.poll.2).2.err <;> simp_all
        split
        · simp [NoLoopSig, St.markUnsup]
        · simp [NoLoopSig, hnone']
        · -- body executed
          generalize hb : execStmt n b (evalCond n c s.poll.2).2 = s2
          cases he : s2.err with
          | none =>
            simp only [he]
            cases p with
            | none => simp only [he]; exact ih _ he
            | some pe =>
              simp only []
              have := hp pe s2 he
              split
              · exact noLoopSig_of_noSig _ this
              · next h3 =>
                apply ih
                cases h : (evalExpr n pe s2).err <;> simp_all
          | some e =>
            cases e with
            | cont =>
              simp only [he]
              cases p with
              | none => exact ih _ rfl
              | some pe =>
                simp only []
                have := hp pe { s2 with err := none } rfl
                split
                · exact noLoopSig_of_noSig _ this
                · next h3 =>
                  apply ih
                  cases h : (evalExpr n pe { s2 with err := none }).err <;> simp_all
            | ret => simp [he, NoLoopSig]
            | brk => simp [he, NoLoopSig]
            | interrupt => simp [he, NoLoopSig]
            | error m => simp [he, NoLoopSig]

theorem forSlice_consumes (v : String) (b : Stmt) : ∀ (n : Nat) (xs : List Val) (s : St), s.err = none →
    NoLoopSig (forSlice n v b xs s) := by
  intro n
  induction n with
  | zero => intro xs s _; simp [forSlice, NoLoopSig, outOfFuel, St.markUnsup]
  | succ n ih =>
    intro xs s hs
    cases xs with
    | nil => simp [forSlice, NoLoopSig, hs]
    | cons x xs =>
      rw [forSlice.eq_def]
      simp only []
      split
      · simp [NoLoopSig]
      · generalize hb : execStmt n b (s.poll.2.define s.poll.2.cur v ⟨false, x⟩) = s2
        cases he : s2.err with
        | none => simp only [he]; exact ih _ _ he
        | some e =>
          cases e with
          | cont => simp only [he]; exact ih _ _ rfl
          | ret => simp [he, NoLoopSig]
          | brk => simp [he, NoLoopSig]
          | interrupt => simp [he, NoLoopSig]
          | error m => simp [he, NoLoopSig]

theorem forMap_consumes (vars : List String) (b : Stmt) : ∀ (n : Nat) (m : List (Val × Val)) (s : St), s.err = none →
    NoLoopSig (forMap n vars b m s) := by
  intro n
  induction n with
  | zero => intro m s _; simp [forMap, NoLoopSig, outOfFuel, St.markUnsup]
  | succ n ih =>
    intro m s hs
    cases m with
    | nil => simp [forMap, NoLoopSig, hs]
    | cons kv rest =>
      obtain ⟨k, v⟩ := kv
      rw [forMap.eq_def]
      simp only []
      split
      · simp [NoLoopSig]
      · generalize hb : execStmt n b _ = s2
        cases he : s2.err with
        | none => simp only [he]; exact ih _ _ he
        | some e =>
          cases e with
          | cont => simp only [he]; exact ih _ _ rfl
          | ret => simp [he, NoLoopSig]
          | brk => simp [he, NoLoopSig]
          | interrupt => simp [he, NoLoopSig]
          | error m => simp [he, NoLoopSig]

theorem noSig_assignAll : ∀ (n : Nat) (ls : List Expr) (vs : List RV) (s : St), NoSig s → NoSig (assignAll n ls vs s) := by
  intro n
  induction n with
  | zero => intro ls vs s _; simp [assignAll]
  | succ n ih =>
    intro ls vs s hs
    cases ls with
    | nil => simpa [assignAll] using hs
    | cons l ls =>
      cases vs with
      | nil => simpa [assignAll] using hs
      | cons v vs =>
        simp only [assignAll]
        have h1 := (sig_all n).letExpr l { s with rv := v } (by simpa [NoSig] using hs)
        split
        · exact h1
        · exact ih _ _ _ h1

end Anko
