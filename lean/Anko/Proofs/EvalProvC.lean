/-
C20, whole evaluator: the simulation for `evalExpr`, constructor by constructor.
-/
import Anko.Proofs.EvalProvB

set_option linter.unusedSectionVars false
set_option linter.unusedVariables false
set_option linter.unusedSimpArgs false
set_option maxHeartbeats 1600000

namespace Anko
variable [F : FOps] (P Q : Prov)

theorem prov_evalExpr_item (n : Nat) (ih : ProvIH P Q n) (x i) : ∀ s t, Sim s t → Sim (@evalExpr F P (n + 1) (.item x i) s) (@evalExpr F Q (n + 1) (.item x i) t) := by
  intro s t h0
  simp only [evalExpr]
  have h1 := ih.evalExpr x s t h0
  have h2 := ih.evalExpr i _ _ h1
  have r1 := h1.rv
  have r2 := h2.rv
  generalize @evalExpr F P n x s = s1 at *
  generalize @evalExpr F Q n x t = t1 at *
  generalize @evalExpr F P n i s1 = s2 at *
  generalize @evalExpr F Q n i t1 = t2 at *
  refine sim_ite_err h1 h1 (fun _ => ?_)
  refine sim_ite_err h2 h2 (fun _ => ?_)
  rw [← r1, ← tryToIntRV_sim r2, ← r2]
  split
  · split
    · exact sim_markUnsup h2 _
    · exact sim_fail h2 _
    · split
      · exact sim_fail h2 _
      · exact sim_with_rv h2 rfl
  · split
    · exact sim_markUnsup h2 _
    · exact sim_fail h2 _
    · split
      · exact sim_fail h2 _
      · exact sim_with_rv h2 rfl
  · exact sim_with_rv h2 rfl
  · exact sim_fail h2 _

theorem prov_evalExpr_op (n : Nat) (ih : ProvIH P Q n) (o l r) : ∀ s t, Sim s t → Sim (@evalExpr F P (n + 1) (.op o l r) s) (@evalExpr F Q (n + 1) (.op o l r) t) := by
  intro s t h0
  simp only [evalExpr]
  have h1 := ih.evalExpr l s t h0
  have h2 := ih.evalExpr r _ _ h1
  by_cases hb : (o == "&&" || o == "||") = true
  · simp only [hb, if_true]
    prov_grind ih
  · simp only [hb]
    prov_grind ih

theorem prov_evalExpr_lit (n : Nat) (ih : ProvIH P Q n) (v) : ∀ s t, Sim s t → Sim (@evalExpr F P (n + 1) (.lit v) s) (@evalExpr F Q (n + 1) (.lit v) t) := by
  intro s t h0
  simp only [evalExpr]
  prov_grind ih

theorem prov_evalExpr_ident (n : Nat) (ih : ProvIH P Q n) (nm) : ∀ s t, Sim s t → Sim (@evalExpr F P (n + 1) (.ident nm) s) (@evalExpr F Q (n + 1) (.ident nm) t) := by
  intro s t h0
  simp only [evalExpr]
  prov_grind ih

theorem prov_evalExpr_paren (n : Nat) (ih : ProvIH P Q n) (e) : ∀ s t, Sim s t → Sim (@evalExpr F P (n + 1) (.paren e) s) (@evalExpr F Q (n + 1) (.paren e) t) := by
  intro s t h0
  simp only [evalExpr]
  prov_grind ih

theorem prov_evalExpr_unary (n : Nat) (ih : ProvIH P Q n) (o e) : ∀ s t, Sim s t → Sim (@evalExpr F P (n + 1) (.unary o e) s) (@evalExpr F Q (n + 1) (.unary o e) t) := by
  intro s t h0
  simp only [evalExpr]
  prov_grind ih

theorem prov_evalExpr_ternary (n : Nat) (ih : ProvIH P Q n) (c a b) : ∀ s t, Sim s t → Sim (@evalExpr F P (n + 1) (.ternary c a b) s) (@evalExpr F Q (n + 1) (.ternary c a b) t) := by
  intro s t h0
  simp only [evalExpr]
  prov_grind ih

theorem prov_evalExpr_nilco (n : Nat) (ih : ProvIH P Q n) (l r) : ∀ s t, Sim s t → Sim (@evalExpr F P (n + 1) (.nilco l r) s) (@evalExpr F Q (n + 1) (.nilco l r) t) := by
  intro s t h0
  simp only [evalExpr]
  prov_grind ih

theorem prov_evalExpr_array (n : Nat) (ih : ProvIH P Q n) (es) : ∀ s t, Sim s t → Sim (@evalExpr F P (n + 1) (.array es) s) (@evalExpr F Q (n + 1) (.array es) t) := by
  intro s t h0
  simp only [evalExpr]
  prov_grind ih

theorem prov_evalExpr_mapLit (n : Nat) (ih : ProvIH P Q n) (ks vs) : ∀ s t, Sim s t → Sim (@evalExpr F P (n + 1) (.mapLit ks vs) s) (@evalExpr F Q (n + 1) (.mapLit ks vs) t) := by
  intro s t h0
  simp only [evalExpr]
  prov_grind ih

theorem prov_evalExpr_slice (n : Nat) (ih : ProvIH P Q n) (x b e c) : ∀ s t, Sim s t → Sim (@evalExpr F P (n + 1) (.slice x b e c) s) (@evalExpr F Q (n + 1) (.slice x b e c) t) := by
  intro s t h0
  simp only [evalExpr]
  prov_grind ih

theorem prov_evalExpr_len (n : Nat) (ih : ProvIH P Q n) (e) : ∀ s t, Sim s t → Sim (@evalExpr F P (n + 1) (.len e) s) (@evalExpr F Q (n + 1) (.len e) t) := by
  intro s t h0
  simp only [evalExpr]
  prov_grind ih

theorem prov_evalExpr_incl (n : Nat) (ih : ProvIH P Q n) (it l) : ∀ s t, Sim s t → Sim (@evalExpr F P (n + 1) (.incl it l) s) (@evalExpr F Q (n + 1) (.incl it l) t) := by
  intro s t h0
  simp only [evalExpr]
  prov_grind ih

theorem prov_evalExpr_letsx (n : Nat) (ih : ProvIH P Q n) (l r) : ∀ s t, Sim s t → Sim (@evalExpr F P (n + 1) (.letsx l r) s) (@evalExpr F Q (n + 1) (.letsx l r) t) := by
  intro s t h0
  simp only [evalExpr]
  prov_grind ih

theorem prov_evalExpr_func (n : Nat) (ih : ProvIH P Q n) (nm ps va body) : ∀ s t, Sim s t → Sim (@evalExpr F P (n + 1) (.func nm ps va body) s) (@evalExpr F Q (n + 1) (.func nm ps va body) t) := by
  intro s t h0
  simp only [evalExpr]
  prov_grind ih

theorem prov_evalExpr_call (n : Nat) (ih : ProvIH P Q n) (nm args va go) : ∀ s t, Sim s t → Sim (@evalExpr F P (n + 1) (.call nm args va go) s) (@evalExpr F Q (n + 1) (.call nm args va go) t) := by
  intro s t h0
  simp only [evalExpr]
  prov_grind ih

theorem prov_evalExpr_anonCall (n : Nat) (ih : ProvIH P Q n) (fe args va go) : ∀ s t, Sim s t → Sim (@evalExpr F P (n + 1) (.anonCall fe args va go) s) (@evalExpr F Q (n + 1) (.anonCall fe args va go) t) := by
  intro s t h0
  simp only [evalExpr]
  prov_grind ih

theorem prov_evalExpr_member (n : Nat) (ih : ProvIH P Q n) (e nm) : ∀ s t, Sim s t → Sim (@evalExpr F P (n + 1) (.member e nm) s) (@evalExpr F Q (n + 1) (.member e nm) t) := by
  intro s t h0
  simp only [evalExpr]
  prov_grind ih

theorem prov_evalExpr_unsupported (n : Nat) (ih : ProvIH P Q n) (k) : ∀ s t, Sim s t → Sim (@evalExpr F P (n + 1) (.unsupported k) s) (@evalExpr F Q (n + 1) (.unsupported k) t) := by
  intro s t h0
  simp only [evalExpr]
  prov_grind ih

theorem prov_evalExpr (n : Nat) (ih : ProvIH P Q n) : ∀ e s t, Sim s t → Sim (@evalExpr F P (n + 1) e s) (@evalExpr F Q (n + 1) e t) := by
  intro e
  cases e
  case lit v => exact prov_evalExpr_lit P Q n ih v
  case ident nm => exact prov_evalExpr_ident P Q n ih nm
  case paren e => exact prov_evalExpr_paren P Q n ih e
  case op o l r => exact prov_evalExpr_op P Q n ih o l r
  case unary o e => exact prov_evalExpr_unary P Q n ih o e
  case ternary c a b => exact prov_evalExpr_ternary P Q n ih c a b
  case nilco l r => exact prov_evalExpr_nilco P Q n ih l r
  case array es => exact prov_evalExpr_array P Q n ih es
  case mapLit ks vs => exact prov_evalExpr_mapLit P Q n ih ks vs
  case item x i => exact prov_evalExpr_item P Q n ih x i
  case slice x b e c => exact prov_evalExpr_slice P Q n ih x b e c
  case len e => exact prov_evalExpr_len P Q n ih e
  case incl it l => exact prov_evalExpr_incl P Q n ih it l
  case letsx l r => exact prov_evalExpr_letsx P Q n ih l r
  case func nm ps va body => exact prov_evalExpr_func P Q n ih nm ps va body
  case call nm args va go => exact prov_evalExpr_call P Q n ih nm args va go
  case anonCall fe args va go => exact prov_evalExpr_anonCall P Q n ih fe args va go
  case member e nm => exact prov_evalExpr_member P Q n ih e nm
  case unsupported k => exact prov_evalExpr_unsupported P Q n ih k

end Anko
