/-
Well-formedness of the container heap: every slice header anywhere (variables, array elements,
map keys and values) points into an existing backing array with room for its capacity, every
map reference is valid; preserved by every statement.
-/
import Anko.Model.Cont

namespace Anko.Cont

def sliceOK (h : Heap) (s : Slice) : Prop :=
  ∃ a, h.arrays[s.arr]? = some a ∧ s.off + s.cap ≤ a.size ∧ s.len ≤ s.cap

def valOK (h : Heap) : V → Prop
  | .slice s => sliceOK h s
  | .map id => id < h.maps.size
  | _ => True

structure WF (h : Heap) : Prop where
  vars : ∀ x v, (x, v) ∈ h.vars → valOK h v
  elems : ∀ (i : Nat) (a : Array V), h.arrays[i]? = some a → ∀ v ∈ a.toList, valOK h v
  entries : ∀ (i : Nat) (m : List (V × V)), h.maps[i]? = some m → ∀ kv ∈ m, valOK h kv.1 ∧ valOK h kv.2

/-- `h'` extends `h`: same arrays at the same places with the same sizes (contents may change), more may follow; same for maps -/
structure Ext (h h' : Heap) : Prop where
  arrs : ∀ (i : Nat) (a : Array V), h.arrays[i]? = some a → ∃ a' : Array V, h'.arrays[i]? = some a' ∧ a'.size = a.size
  maps : h.maps.size ≤ h'.maps.size

theorem Ext.refl (h : Heap) : Ext h h := ⟨fun _ a ha => ⟨a, ha, rfl⟩, Nat.le_refl _⟩

theorem valOK_ext {h h' : Heap} (e : Ext h h') {v : V} (hv : valOK h v) : valOK h' v := by
  cases v with
  | slice s =>
    obtain ⟨a, ha, h1, h2⟩ := hv
    obtain ⟨a', ha', hs⟩ := e.arrs _ _ ha
    exact ⟨a', ha', by omega, h2⟩
  | map id => exact Nat.lt_of_lt_of_le hv e.maps
  | nil => trivial
  | int _ => trivial
  | bool _ => trivial
  | str _ => trivial

theorem wf_empty : WF Heap.empty :=
  ⟨fun _ _ h => by simp [Heap.empty] at h, fun i a h => by simp [Heap.empty] at h, fun i m h => by simp [Heap.empty] at h⟩

theorem mem_setAssoc {α β} [BEq α] [LawfulBEq α] (k : α) (v : β) : ∀ (l : List (α × β)) (p : α × β), p ∈ setAssoc k v l → p = (k, v) ∨ p ∈ l
  | [], p, h => by simp [setAssoc] at h; exact Or.inl h
  | (k', v') :: rest, p, h => by
    simp only [setAssoc] at h
    split at h
    · simp only [List.mem_cons] at h
      rcases h with h | h
      · exact Or.inl h
      · exact Or.inr (List.mem_cons_of_mem _ h)
    · simp only [List.mem_cons] at h
      rcases h with h | h
      · exact Or.inr (by simp [h])
      · rcases mem_setAssoc k v rest p h with h1 | h1
        · exact Or.inl h1
        · exact Or.inr (List.mem_cons_of_mem _ h1)

/-- binding a well-formed value keeps the heap well-formed -/
theorem wf_setVar {h : Heap} (w : WF h) (x : String) (v : V) (hv : valOK h v) : WF (h.setVar x v) := by
  refine ⟨?_, w.elems, w.entries⟩
  intro y u hy
  simp only [Heap.setVar] at hy
  rcases mem_setAssoc x v h.vars (y, u) hy with h1 | h1
  · cases h1; exact hv
  · exact w.vars y u h1

theorem wf_getVar {h : Heap} (w : WF h) {x : String} {v : V} (hx : h.getVar x = some v) : valOK h v := by
  unfold Heap.getVar at hx
  have key : ∀ (l : List (String × V)), l.lookup x = some v → (x, v) ∈ l := by
    intro l
    induction l with
    | nil => intro hh; simp [List.lookup] at hh
    | cons p rest ih =>
      obtain ⟨k, u⟩ := p
      intro hh
      rw [List.lookup_cons] at hh
      split at hh
      · next hk => cases hh; simp [beq_iff_eq.mp hk]
      · exact List.mem_cons_of_mem _ (ih hh)
  exact w.vars x v (key _ hx)

theorem wf_arg {h : Heap} (w : WF h) {a : Arg} {v : V} (ha : h.arg a = some v) (hl : ∀ u, a = .lit u → valOK h u) : valOK h v := by
  cases a with
  | var x => exact wf_getVar w ha
  | lit u => simp [Heap.arg] at ha; subst ha; exact hl u rfl

theorem Ext.trans {a b c : Heap} (h1 : Ext a b) (h2 : Ext b c) : Ext a c := by
  refine ⟨?_, Nat.le_trans h1.maps h2.maps⟩
  intro i x hx
  obtain ⟨y, hy, hs⟩ := h1.arrs i x hx
  obtain ⟨z, hz, hs2⟩ := h2.arrs i y hy
  exact ⟨z, hz, hs2.trans hs⟩

/-- storing a well-formed value into an existing slot -/
theorem wf_writeElem {h : Heap} (w : WF h) (s : Slice) (i : Nat) (v : V) (hv : valOK h v) :
    WF (h.writeElem s i v) ∧ Ext h (h.writeElem s i v) := by
  unfold Heap.writeElem
  cases ha : h.arrays[s.arr]? with
  | none => exact ⟨w, Ext.refl h⟩
  | some a =>
    simp only
    have hlt : s.arr < h.arrays.size := by
      rcases Nat.lt_or_ge s.arr h.arrays.size with hl | hl
      · exact hl
      · rw [Array.getElem?_eq_none hl] at ha; cases ha
    have ext : Ext h { h with arrays := h.arrays.set! s.arr (a.set! (s.off + i) v) } := by
      refine ⟨?_, Nat.le_refl _⟩
      intro j x hx
      simp only [Array.set!_eq_setIfInBounds]
      by_cases hj : j = s.arr
      · subst hj
        rw [ha] at hx; cases hx
        exact ⟨_, Array.getElem?_setIfInBounds_self_of_lt hlt, by simp⟩
      · rw [Array.getElem?_setIfInBounds_ne (Ne.symm hj)]
        exact ⟨x, hx, rfl⟩
    refine ⟨⟨?_, ?_, ?_⟩, ext⟩
    · intro x u hu; exact valOK_ext ext (w.vars x u hu)
    · intro j x hx u hu
      simp only [Array.set!_eq_setIfInBounds] at hx
      by_cases hj : j = s.arr
      · subst hj
        rw [Array.getElem?_setIfInBounds_self_of_lt hlt] at hx
        cases hx
        have := List.mem_or_eq_of_mem_set (by simpa [Array.toList_setIfInBounds] using hu : u ∈ a.toList.set (s.off + i) v)
        rcases this with h1 | h1
        · exact valOK_ext ext (w.elems _ a ha u h1)
        · subst h1; exact valOK_ext ext hv
      · rw [Array.getElem?_setIfInBounds_ne (Ne.symm hj)] at hx
        exact valOK_ext ext (w.elems j x hx u hu)
    · intro j m hm kv hkv
      exact ⟨valOK_ext ext (w.entries j m hm kv hkv).1, valOK_ext ext (w.entries j m hm kv hkv).2⟩

/-- a fresh backing array: the returned header is well-formed, nothing else moves -/
theorem wf_alloc {h : Heap} (w : WF h) (vs : List V) (cap : Nat) (hvs : ∀ v ∈ vs, valOK h v) :
    WF (h.alloc vs cap).1 ∧ Ext h (h.alloc vs cap).1 ∧ sliceOK (h.alloc vs cap).1 (h.alloc vs cap).2 := by
  have ext : Ext h (h.alloc vs cap).1 := by
    refine ⟨?_, Nat.le_refl _⟩
    intro j x hx
    have hj : j < h.arrays.size := by
      rcases Nat.lt_or_ge j h.arrays.size with hl | hl
      · exact hl
      · rw [Array.getElem?_eq_none hl] at hx; cases hx
    exact ⟨x, by simp [Heap.alloc, Array.getElem?_push, Nat.ne_of_lt hj, hx], rfl⟩
  refine ⟨⟨?_, ?_, ?_⟩, ext, ?_⟩
  · intro x u hu; exact valOK_ext ext (w.vars x u hu)
  · intro j x hx u hu
    simp only [Heap.alloc, Array.getElem?_push] at hx
    split at hx
    · cases hx
      simp only [List.mem_append, List.mem_replicate] at hu
      rcases hu with h1 | h1
      · exact valOK_ext ext (hvs u h1)
      · rw [h1.2]; trivial
    · exact valOK_ext ext (w.elems j x hx u hu)
  · intro j m hm kv hkv
    exact ⟨valOK_ext ext (w.entries j m hm kv hkv).1, valOK_ext ext (w.entries j m hm kv hkv).2⟩
  · refine ⟨(vs ++ List.replicate (cap - vs.length) V.nil).toArray, by simp [Heap.alloc], ?_, ?_⟩
    · simp [Heap.alloc]; omega
    · simp [Heap.alloc]; omega

theorem elem_ok {h : Heap} (w : WF h) (s : Slice) (i : Nat) : valOK h (h.elem s i) := by
  unfold Heap.elem
  cases ha : h.arrays[s.arr]? with
  | none => trivial
  | some a =>
    simp only
    cases he : a[s.off + i]? with
    | none => trivial
    | some v =>
      simp only [Option.getD_some]
      have : v ∈ a.toList := by
        have := Array.mem_of_getElem? he
        simpa using this
      exact w.elems _ a ha v this

theorem wf_foldWrite {s : Slice} {vs : List V} : ∀ (js : List Nat) (h0 h : Heap), WF h → Ext h0 h → (∀ v ∈ vs, valOK h0 v) →
    WF (js.foldl (fun (acc : Heap) j => acc.writeElem s (s.len + j) (vs.getD j .nil)) h) ∧
    Ext h0 (js.foldl (fun (acc : Heap) j => acc.writeElem s (s.len + j) (vs.getD j .nil)) h)
  | [], _, h, w, e, _ => ⟨w, e⟩
  | j :: js, h0, h, w, e, hv => by
    simp only [List.foldl_cons]
    have hvj : valOK h (vs.getD j .nil) := by
      rw [List.getD_eq_getElem?_getD]
      cases hj : vs[j]? with
      | none => trivial
      | some v => exact valOK_ext e (hv v (List.mem_of_getElem? hj))
    obtain ⟨w1, e1⟩ := wf_writeElem w s (s.len + j) _ hvj
    exact wf_foldWrite js h0 _ w1 (e.trans e1) hv

theorem wf_append {h : Heap} (w : WF h) (s : Slice) (vs : List V) (nc : Nat) (hs : sliceOK h s) (hvs : ∀ v ∈ vs, valOK h v) :
    WF (h.append s vs nc).1 ∧ Ext h (h.append s vs nc).1 ∧ sliceOK (h.append s vs nc).1 (h.append s vs nc).2 := by
  unfold Heap.append
  split
  · next hroom =>
    obtain ⟨w1, e1⟩ := wf_foldWrite (s := s) (vs := vs) (List.range vs.length) h h w (Ext.refl h) hvs
    refine ⟨w1, e1, ?_⟩
    obtain ⟨a, ha, h1, h2⟩ := hs
    obtain ⟨a', ha', hsz⟩ := e1.arrs _ _ ha
    exact ⟨a', ha', by simp; omega, by simp; omega⟩
  · have hall : ∀ v ∈ h.elems s ++ vs, valOK h v := by
      intro v hv
      simp only [List.mem_append, Heap.elems, List.mem_map] at hv
      rcases hv with ⟨i, _, rfl⟩ | hv
      · exact elem_ok w s i
      · exact hvs v hv
    exact wf_alloc w _ nc hall

/-- literal operands of a statement are scalars or valid references -/
def Arg.ok (h : Heap) : Arg → Prop
  | .var _ => True
  | .lit v => valOK h v

def Op.ok (h : Heap) : Op → Prop
  | .list _ as => ∀ a ∈ as, a.ok h
  | .mapLit _ kvs => ∀ kv ∈ kvs, kv.1.ok h ∧ kv.2.ok h
  | .copy _ a => a.ok h
  | .index a i => a.ok h ∧ i.ok h
  | .slice _ a _ _ _ => a.ok h
  | .setIndex _ i v _ => i.ok h ∧ v.ok h
  | .append _ a v _ => a.ok h ∧ v.ok h
  | .len a => a.ok h
  | .delete a k => a.ok h ∧ k.ok h
  | .load _ a i => a.ok h ∧ i.ok h
  | .swap _ i j => i.ok h ∧ j.ok h

theorem arg_ok {h : Heap} (w : WF h) {a : Arg} {v : V} (ha : h.arg a = some v) (hok : a.ok h) : valOK h v := by
  cases a with
  | var x => exact wf_getVar w ha
  | lit u => simp [Heap.arg] at ha; subst ha; exact hok

theorem args_ok {h : Heap} (w : WF h) : ∀ (as : List Arg) (vs : List V), as.mapM h.arg = some vs → (∀ a ∈ as, a.ok h) → ∀ v ∈ vs, valOK h v
  | [], vs, hm, _, v, hv => by simp at hm; subst hm; cases hv
  | a :: as, vs, hm, hok, v, hv => by
    simp only [List.mapM_cons, Option.bind_eq_bind] at hm
    cases ha : h.arg a with
    | none => simp [ha] at hm
    | some u =>
      cases hr : as.mapM h.arg with
      | none => simp [ha, hr] at hm
      | some us =>
        simp [ha, hr] at hm
        subst hm
        simp only [List.mem_cons] at hv
        rcases hv with rfl | hv
        · exact arg_ok w ha (hok a (by simp))
        · exact args_ok w as us hr (fun x hx => hok x (List.mem_cons_of_mem _ hx)) v hv

theorem mem_assocErase (k : V) : ∀ (l : List (V × V)) (p : V × V), p ∈ assocErase k l → p ∈ l
  | [], _, h => by simp [assocErase] at h
  | (k', v') :: rest, p, h => by
    simp only [assocErase] at h
    split at h
    · exact List.mem_cons_of_mem _ h
    · simp only [List.mem_cons] at h
      rcases h with h | h
      · simp [h]
      · exact List.mem_cons_of_mem _ (mem_assocErase k rest p h)

/-- replacing the entries of map `id` by well-formed ones -/
theorem wf_setMap {h : Heap} (w : WF h) (id : Nat) (m : List (V × V)) (hm : ∀ kv ∈ m, valOK h kv.1 ∧ valOK h kv.2) :
    WF { h with maps := h.maps.set! id m } := by
  have hv : ∀ v, valOK h v → valOK { h with maps := h.maps.set! id m } v := by
    intro v hv
    cases v <;> first | exact hv | (simpa [valOK, Array.set!_eq_setIfInBounds] using hv)
  refine ⟨fun x u hu => hv _ (w.vars x u hu), fun j a ha u hu => hv _ (w.elems j a ha u hu), ?_⟩
  intro j m' hm' kv hkv
  simp only [Array.set!_eq_setIfInBounds] at hm'
  by_cases hj : j = id
  · subst hj
    by_cases hlt : j < h.maps.size
    · rw [Array.getElem?_setIfInBounds_self_of_lt hlt] at hm'
      cases hm'
      exact ⟨hv _ (hm kv hkv).1, hv _ (hm kv hkv).2⟩
    · rw [Array.getElem?_eq_none (by simpa using hlt)] at hm'; cases hm'
  · rw [Array.getElem?_setIfInBounds_ne (Ne.symm hj)] at hm'
    exact ⟨hv _ (w.entries j m' hm' kv hkv).1, hv _ (w.entries j m' hm' kv hkv).2⟩

theorem foldl_setAssoc_mem : ∀ (es acc : List (V × V)) (p : V × V),
    p ∈ es.foldl (fun acc kv => setAssoc kv.1 kv.2 acc) acc → p ∈ acc ∨ p ∈ es
  | [], acc, p, h => Or.inl h
  | e :: es, acc, p, h => by
    simp only [List.foldl_cons] at h
    rcases foldl_setAssoc_mem es _ p h with h1 | h1
    · rcases mem_setAssoc e.1 e.2 acc p h1 with h2 | h2
      · exact Or.inr (by simp [h2])
      · exact Or.inl h2
    · exact Or.inr (List.mem_cons_of_mem _ h1)

theorem argPairs_cons (h : Heap) (kv : Arg × Arg) (kvs : List (Arg × Arg)) :
    h.argPairs (kv :: kvs) = (h.arg kv.1).bind (fun k => (h.arg kv.2).bind (fun v => (h.argPairs kvs).bind (fun rest => some ((k, v) :: rest)))) := by
  simp only [Heap.argPairs, List.mapM_cons]
  cases h.arg kv.1 <;> simp
  cases h.arg kv.2 <;> simp

theorem argPairs_ok {h : Heap} (w : WF h) : ∀ (kvs : List (Arg × Arg)) (es : List (V × V)), h.argPairs kvs = some es →
    (∀ kv ∈ kvs, kv.1.ok h ∧ kv.2.ok h) → ∀ e ∈ es, valOK h e.1 ∧ valOK h e.2
  | [], es, hm, _, e, he => by simp [Heap.argPairs] at hm; subst hm; cases he
  | kv :: kvs, es, hm, hok, e, he => by
    rw [argPairs_cons] at hm
    cases h1 : h.arg kv.1 with
    | none => simp [h1] at hm
    | some k =>
      cases h2 : h.arg kv.2 with
      | none => simp [h1, h2] at hm
      | some v =>
        cases hr : h.argPairs kvs with
        | none => simp [h1, h2, hr] at hm
        | some rest =>
          simp [h1, h2, hr] at hm
          subst hm
          simp only [List.mem_cons] at he
          rcases he with rfl | he
          · exact ⟨arg_ok w h1 (hok kv (by simp)).1, arg_ok w h2 (hok kv (by simp)).2⟩
          · exact argPairs_ok w kvs rest hr (fun x hx => hok x (List.mem_cons_of_mem _ hx)) e he

theorem wf_allocMap {h : Heap} (w : WF h) (m : List (V × V)) (hm : ∀ kv ∈ m, valOK h kv.1 ∧ valOK h kv.2) :
    WF (h.allocMap m).1 ∧ valOK (h.allocMap m).1 (h.allocMap m).2 := by
  have hv : ∀ v, valOK h v → valOK (h.allocMap m).1 v := by
    intro v hv
    cases v <;> first | exact hv | (simp only [valOK, Heap.allocMap, Array.size_push] at hv ⊢; omega)
  refine ⟨⟨fun x u hu => hv _ (w.vars x u hu), fun j a ha u hu => hv _ (w.elems j a ha u hu), ?_⟩, by simp [valOK, Heap.allocMap]⟩
  intro j m' hm' kv hkv
  simp only [Heap.allocMap, Array.getElem?_push] at hm'
  split at hm'
  · cases hm'; exact ⟨hv _ (hm kv hkv).1, hv _ (hm kv hkv).2⟩
  · exact ⟨hv _ (w.entries j m' hm' kv hkv).1, hv _ (w.entries j m' hm' kv hkv).2⟩

theorem sliceOf_ok {h : Heap} {item : V} {b e c : Option V} {v : V} (hi : valOK h item)
    (hs : Heap.sliceOf item b e c = .ok v) : valOK h v := by
  unfold Heap.sliceOf at hs
  cases item with
  | slice s =>
    simp only at hs
    cases hb : sliceBounds s.len s.cap false b e c with
    | err m => rw [hb] at hs; cases hs
    | ok bi ei ci =>
      rw [hb] at hs
      simp only [Out.ok.injEq] at hs
      subst hs
      obtain ⟨a, ha, h1, h2⟩ := hi
      -- bounds accepted by the interpreter: bi ≤ ei ≤ len, ei ≤ ci ≤ cap
      have key : bi ≤ ei ∧ ei ≤ s.len ∧ ei ≤ ci ∧ ci ≤ s.cap := by
        unfold sliceBounds at hb
        simp only at hb
        split at hb
        · cases hb
        · next bI hbI =>
          split at hb
          · cases hb
          · next eI heI =>
            have hb0 : 0 ≤ bI := by
              cases b with
              | none => simp at hbI; omega
              | some v =>
                simp only at hbI
                split at hbI
                · cases hbI
                · split at hbI
                  · cases hbI
                  · simp at hbI; omega
            have hel : eI ≤ s.len := by
              cases e with
              | none => simp at heI; omega
              | some v =>
                simp only at heI
                split at heI
                · cases heI
                · split at heI
                  · cases heI
                  · simp at heI; omega
            split at hb
            · cases hb
            · simp only [Bool.false_eq_true, if_false] at hb
              cases c with
              | none =>
                simp only [Bounds.ok.injEq] at hb
                obtain ⟨rfl, rfl, rfl⟩ := hb
                omega
              | some v =>
                simp only at hb
                split at hb
                · cases hb
                · split at hb
                  · cases hb
                  · simp only [Bounds.ok.injEq] at hb
                    obtain ⟨rfl, rfl, rfl⟩ := hb
                    omega
      exact ⟨a, ha, by simp; omega, by simp; omega⟩
  | str cs =>
    simp only at hs
    cases hb : sliceBounds cs.length cs.length true b e c with
    | err m => rw [hb] at hs; cases hs
    | ok bi ei ci => rw [hb] at hs; simp only [Out.ok.injEq] at hs; subst hs; trivial
  | nil => cases hs
  | int _ => cases hs
  | bool _ => cases hs
  | map _ => cases hs

/-- Every statement keeps the heap well-formed: no slice header ever points outside its backing
array, no map reference dangles - whatever the operands and however the statement ends. -/
theorem wf_step {h : Heap} (w : WF h) (op : Op) (hok : op.ok h) : WF (h.step op).1 := by
  cases op with
  | list x as =>
    simp only [Heap.step]
    cases hm : as.mapM h.arg with
    | none => exact w
    | some vs =>
      simp only
      obtain ⟨w1, e1, hs⟩ := wf_alloc w vs vs.length (args_ok w as vs hm hok)
      exact wf_setVar w1 x _ hs
  | mapLit x kvs =>
    simp only [Heap.step]
    cases hp : h.argPairs kvs with
    | none => exact w
    | some es =>
      simp only
      split
      · have hes := argPairs_ok w kvs es hp hok
        have hm : ∀ kv ∈ es.foldl (fun acc kv => setAssoc kv.1 kv.2 acc) [], valOK h kv.1 ∧ valOK h kv.2 := by
          intro kv hkv
          rcases foldl_setAssoc_mem es [] kv hkv with h1 | h1
          · cases h1
          · exact hes kv h1
        obtain ⟨w1, hv⟩ := wf_allocMap w _ hm
        exact wf_setVar w1 x _ hv
      · exact w
  | copy y a =>
    simp only [Heap.step]
    cases ha : h.arg a with
    | none => exact w
    | some v => exact wf_setVar w y v (arg_ok w ha hok)
  | index a i =>
    simp only [Heap.step]
    split <;> exact w
  | slice y a b e c =>
    simp only [Heap.step]
    cases ha : h.arg a with
    | none => exact w
    | some item =>
      simp only
      split
      · split
        · next v hv => exact wf_setVar w y v (sliceOf_ok (arg_ok w ha hok) hv)
        · exact w
      · exact w
  | setIndex x i v nc =>
    simp only [Heap.step]
    cases hx : h.getVar x with
    | none => exact w
    | some item =>
      cases hi : h.arg i with
      | none => exact w
      | some idx =>
        cases hv : h.arg v with
        | none => exact w
        | some val =>
          have hval := arg_ok w hv hok.2
          have hidx := arg_ok w hi hok.1
          have hitem := wf_getVar w hx
          simp only
          cases item with
          | slice s =>
            simp only
            split
            · exact w
            · split
              · obtain ⟨w1, e1, hs⟩ := wf_append w s [val] nc hitem (by intro u hu; simp at hu; subst hu; exact hval)
                exact wf_setVar w1 x _ hs
              · split
                · exact w
                · exact (wf_writeElem w s _ val hval).1
          | map id =>
            simp only
            split
            · exact w
            · cases hm : h.maps[id]? with
              | none => exact w
              | some kvs =>
                simp only
                apply wf_setMap w
                intro kv hkv
                rcases mem_setAssoc idx val kvs kv hkv with h1 | h1
                · subst h1; exact ⟨hidx, hval⟩
                · exact w.entries id kvs hm kv h1
          | str cs =>
            simp only
            split
            · exact w
            · split
              · split
                · exact wf_setVar w x _ trivial
                · split
                  · exact w
                  · exact wf_setVar w x _ trivial
              · exact w
          | nil => exact w
          | int _ => exact w
          | bool _ => exact w
  | append y a v nc =>
    simp only [Heap.step]
    cases ha : h.arg a with
    | none => simp; exact w
    | some av =>
      cases hv : h.arg v with
      | none => cases av <;> exact w
      | some vv =>
        have hav := arg_ok w ha hok.1
        have hvv := arg_ok w hv hok.2
        cases av with
        | slice s =>
          cases vv with
          | slice t =>
            simp only
            obtain ⟨w1, e1, hs⟩ := wf_append w s (h.elems t) nc hav (by
              intro u hu
              simp only [Heap.elems, List.mem_map] at hu
              obtain ⟨i, _, rfl⟩ := hu
              exact elem_ok w t i)
            exact wf_setVar w1 y _ hs
          | nil => obtain ⟨w1, e1, hs⟩ := wf_append w s [V.nil] nc hav (by simp [valOK]); exact wf_setVar w1 y _ hs
          | int n => obtain ⟨w1, e1, hs⟩ := wf_append w s [V.int n] nc hav (by simp [valOK]); exact wf_setVar w1 y _ hs
          | bool b => obtain ⟨w1, e1, hs⟩ := wf_append w s [V.bool b] nc hav (by simp [valOK]); exact wf_setVar w1 y _ hs
          | str cs => obtain ⟨w1, e1, hs⟩ := wf_append w s [V.str cs] nc hav (by simp [valOK]); exact wf_setVar w1 y _ hs
          | map id => obtain ⟨w1, e1, hs⟩ := wf_append w s [V.map id] nc hav (by intro u hu; simp at hu; subst hu; exact hvv); exact wf_setVar w1 y _ hs
        | nil => exact w
        | int _ => exact w
        | bool _ => exact w
        | str _ => exact w
        | map _ => exact w
  | len a =>
    simp only [Heap.step]
    split <;> exact w
  | delete a k =>
    simp only [Heap.step]
    cases ha : h.arg a with
    | none => simp; exact w
    | some av =>
      cases hk : h.arg k with
      | none => cases av <;> exact w
      | some key =>
        cases av with
        | map id =>
          simp only
          split
          · exact w
          · cases hm : h.maps[id]? with
            | none => exact w
            | some kvs =>
              simp only
              apply wf_setMap w
              intro kv hkv
              exact w.entries id kvs hm kv (mem_assocErase key kvs kv hkv)
        | nil => exact w
        | int _ => exact w
        | bool _ => exact w
        | str _ => exact w
        | slice _ => exact w
  | load y a i => simp only [Heap.step]; exact w
  | swap x i j => simp only [Heap.step]; exact w

/-- literal operands written in a program are scalars -/
def V.scalar : V → Bool
  | .slice _ => false
  | .map _ => false
  | _ => true

def Arg.scalarLit : Arg → Bool
  | .var _ => true
  | .lit v => v.scalar

def Op.scalarLits : Op → Bool
  | .list _ as => as.all Arg.scalarLit
  | .mapLit _ kvs => kvs.all (fun kv => kv.1.scalarLit && kv.2.scalarLit)
  | .copy _ a => a.scalarLit
  | .index a i => a.scalarLit && i.scalarLit
  | .slice _ a _ _ _ => a.scalarLit
  | .setIndex _ i v _ => i.scalarLit && v.scalarLit
  | .append _ a v _ => a.scalarLit && v.scalarLit
  | .len a => a.scalarLit
  | .delete a k => a.scalarLit && k.scalarLit
  | .load _ a i => a.scalarLit && i.scalarLit
  | .swap _ i j => i.scalarLit && j.scalarLit

theorem Arg.ok_of_scalar (h : Heap) (a : Arg) (hs : a.scalarLit = true) : a.ok h := by
  cases a with
  | var _ => trivial
  | lit v => cases v <;> simp_all [Arg.scalarLit, V.scalar, Arg.ok, valOK]

theorem Op.ok_of_scalar (h : Heap) (op : Op) (hs : op.scalarLits = true) : op.ok h := by
  cases op <;> simp only [Op.scalarLits, Bool.and_eq_true, List.all_eq_true] at hs <;> simp only [Op.ok]
  · exact fun a ha => Arg.ok_of_scalar h a (hs a ha)
  · exact fun kv hkv => ⟨Arg.ok_of_scalar h _ (hs kv hkv).1, Arg.ok_of_scalar h _ (hs kv hkv).2⟩
  · exact Arg.ok_of_scalar h _ hs
  · exact ⟨Arg.ok_of_scalar h _ hs.1, Arg.ok_of_scalar h _ hs.2⟩
  · exact Arg.ok_of_scalar h _ hs
  · exact ⟨Arg.ok_of_scalar h _ hs.1, Arg.ok_of_scalar h _ hs.2⟩
  · exact ⟨Arg.ok_of_scalar h _ hs.1, Arg.ok_of_scalar h _ hs.2⟩
  · exact Arg.ok_of_scalar h _ hs
  · exact ⟨Arg.ok_of_scalar h _ hs.1, Arg.ok_of_scalar h _ hs.2⟩
  · exact ⟨Arg.ok_of_scalar h _ hs.1, Arg.ok_of_scalar h _ hs.2⟩
  · exact ⟨Arg.ok_of_scalar h _ hs.1, Arg.ok_of_scalar h _ hs.2⟩

theorem index_ok {h : Heap} (w : WF h) {item idx v : V} (hi : valOK h item) (hx : h.index item idx = .ok v) : valOK h v := by
  unfold Heap.index at hx
  cases item with
  | slice s =>
    simp only at hx
    split at hx
    · cases hx
    · split at hx
      · cases hx
      · simp only [Out.ok.injEq] at hx; subst hx; exact elem_ok w s _
  | str cs =>
    simp only at hx
    split at hx
    · cases hx
    · split at hx
      · cases hx
      · simp only [Out.ok.injEq] at hx; subst hx; trivial
  | map id =>
    simp only at hx
    split at hx
    · cases hm : h.maps[id]? with
      | none => rw [hm] at hx; simp only [Out.ok.injEq] at hx; subst hx; trivial
      | some kvs =>
        rw [hm] at hx
        simp only [Out.ok.injEq] at hx
        subst hx
        cases hl : kvs.lookup idx with
        | none => trivial
        | some u =>
          have : (idx, u) ∈ kvs := by
            have key : ∀ (l : List (V × V)), l.lookup idx = some u → (idx, u) ∈ l := by
              intro l
              induction l with
              | nil => intro hh; simp [List.lookup] at hh
              | cons p rest ih =>
                obtain ⟨k, x⟩ := p
                intro hh
                rw [List.lookup_cons] at hh
                split at hh
                · next hk => cases hh; simp [beq_iff_eq.mp hk]
                · exact List.mem_cons_of_mem _ (ih hh)
            exact key _ hl
          exact (w.entries id kvs hm _ this).2
    · simp only [Out.ok.injEq] at hx; subst hx; trivial
  | nil => cases hx
  | int _ => cases hx
  | bool _ => cases hx

theorem wf_step2 {h : Heap} (w : WF h) (op : Op) (hok : op.ok h) : WF (h.step2 op).1 := by
  cases op with
  | load y a i =>
    simp only [Heap.step2]
    cases ha : h.arg a with
    | none => simp; exact w
    | some item =>
      cases hi : h.arg i with
      | none => exact w
      | some idx =>
        simp only
        cases hx : h.index item idx with
        | err m => exact w
        | ok v => exact wf_setVar w y v (index_ok w (arg_ok w ha hok.1) hx)
  | swap x i j =>
    simp only [Heap.step2]
    cases hx : h.getVar x with
    | none => exact w
    | some item =>
      cases hi : h.arg i with
      | none => cases item <;> exact w
      | some ii =>
        cases hj : h.arg j with
        | none => cases item <;> exact w
        | some jj =>
          cases item with
          | slice s =>
            simp only
            have hs := wf_getVar w hx
            cases h1 : h.index (.slice s) jj with
            | err m => exact w
            | ok vj =>
              cases h2 : h.index (.slice s) ii with
              | err m => exact w
              | ok vi =>
                simp only
                split
                · next ki kj _ _ =>
                  obtain ⟨w1, e1⟩ := wf_writeElem w s ki.toNat vj (index_ok w hs h1)
                  exact (wf_writeElem w1 s kj.toNat vi (valOK_ext e1 (index_ok w hs h2))).1
                · exact w
          | nil => exact w
          | int _ => exact w
          | bool _ => exact w
          | str _ => exact w
          | map _ => exact w
  | list x as => exact wf_step w _ hok
  | mapLit x kvs => exact wf_step w _ hok
  | copy y a => exact wf_step w _ hok
  | index a i => exact wf_step w _ hok
  | slice y a b e c => exact wf_step w _ hok
  | setIndex x i v nc => exact wf_step w _ hok
  | append y a v nc => exact wf_step w _ hok
  | len a => exact wf_step w _ hok
  | delete a k => exact wf_step w _ hok

/-- every reachable heap is well-formed -/
theorem wf_run : ∀ (ops : List Op) (h : Heap), WF h → (∀ op ∈ ops, op.scalarLits = true) → WF (h.run ops).1
  | [], _, w, _ => w
  | op :: ops, h, w, hs => by
    simp only [Heap.run]
    exact wf_run ops _ (wf_step2 w op (Op.ok_of_scalar h op (hs op (by simp)))) (fun o ho => hs o (List.mem_cons_of_mem _ ho))

end Anko.Cont
