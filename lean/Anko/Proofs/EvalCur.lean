/-
C04 core, part 2: successor-step lemmas for every model function and the induction on fuel.
-/
import Anko.Proofs.EvalCurBase

set_option linter.unusedSectionVars false
set_option linter.unusedSimpArgs false
set_option linter.unusedVariables false

namespace Anko
variable [FOps] [Prov]

/-- close a `cur` goal: all induction hypotheses as facts, then `grind` does the case analysis -/
macro "cur_grind" ih:ident : tactic => `(tactic| (
  have h1 := ($ih).evalExpr; have h2 := ($ih).evalList; have h3 := ($ih).evalIndexOpt; have h3a := ($ih).sliceBegin; have h3b := ($ih).sliceEnd; have h4 := ($ih).evalCond
  have h5 := ($ih).evalMapLit; have h6 := ($ih).evalLetsx; have h7 := ($ih).letExpr; have h8 := ($ih).callValue
  have h9 := ($ih).makeCallArgs; have h10 := ($ih).argsTail; have h11 := ($ih).evalArgs; have h12 := ($ih).evalVarArgs
  have h13 := ($ih).callFn; have h14 := ($ih).runDefers; have h15 := ($ih).execStmt; have h16 := ($ih).execStmts
  have h17 := ($ih).assignAll; have h18 := ($ih).execElifs; have h19 := ($ih).loopIter; have h20 := ($ih).cforIter
  have h21 := ($ih).forSlice; have h22 := ($ih).forMap; have h23 := ($ih).execReturn; have h24 := ($ih).execCases
  have h25 := ($ih).matchCase; have h26 := ($ih).registerDefer
  grind (splits := 40) [St.fail_cur, St.markUnsup_cur, outOfFuel_cur, St.poll_cur, St.newScope_cur, St.addClosure_cur, St.define_cur,
    St.assign_cur, St.assignIn_cur, opRes_cur, St.defineAll_cur, convertArgs_cur,
    spreadFixed_cur, spreadVariadic_cur, sliceResult_cur]))

theorem cur_evalExpr (n : Nat) (ih : CurIH n) : ∀ e s, (evalExpr (n + 1) e s).cur = s.cur := by
  intro e s; cases e <;> simp only [evalExpr] <;> cur_grind ih

theorem cur_evalList (n : Nat) (ih : CurIH n) : ∀ es s, (evalList (n + 1) es s).2.cur = s.cur := by
  intro es s; rw [evalList.eq_def]; cur_grind ih

theorem cur_evalIndexOpt (n : Nat) (ih : CurIH n) : ∀ oe d s, (evalIndexOpt (n + 1) oe d s).2.cur = s.cur := by
  intro oe d s; rw [evalIndexOpt.eq_def]; cur_grind ih

theorem cur_sliceBegin (n : Nat) (ih : CurIH n) : ∀ it len b e hc s, (sliceBegin (n + 1) it len b e hc s).cur = s.cur := by
  intro it len b e hc s; rw [sliceBegin.eq_def]; cur_grind ih

theorem cur_sliceEnd (n : Nat) (ih : CurIH n) : ∀ it len bi e hc s, (sliceEnd (n + 1) it len bi e hc s).cur = s.cur := by
  intro it len bi e hc s; rw [sliceEnd.eq_def]; cur_grind ih

theorem cur_evalCond (n : Nat) (ih : CurIH n) : ∀ oe s, (evalCond (n + 1) oe s).2.cur = s.cur := by
  intro oe s; rw [evalCond.eq_def]; cur_grind ih

theorem cur_evalMapLit (n : Nat) (ih : CurIH n) : ∀ ks vs acc s, (evalMapLit (n + 1) ks vs acc s).cur = s.cur := by
  intro ks vs acc s; rw [evalMapLit.eq_def]; cur_grind ih

theorem cur_evalLetsx (n : Nat) (ih : CurIH n) : ∀ l r i s, (evalLetsx (n + 1) l r i s).cur = s.cur := by
  intro l r i s; rw [evalLetsx.eq_def]; cur_grind ih

theorem cur_letExpr (n : Nat) (ih : CurIH n) : ∀ e s, (letExpr (n + 1) e s).cur = s.cur := by
  intro e s; rw [letExpr.eq_def]; cur_grind ih

theorem cur_callValue (n : Nat) (ih : CurIH n) : ∀ f a va s, (callValue (n + 1) f a va s).cur = s.cur := by
  intro f a va s; rw [callValue.eq_def]; cur_grind ih

theorem cur_makeCallArgs (n : Nat) (ih : CurIH n) : ∀ c a va s, (makeCallArgs (n + 1) c a va s).2.cur = s.cur := by
  intro c a va s; rw [makeCallArgs.eq_def]; cur_grind ih

theorem cur_argsTail (n : Nat) (ih : CurIH n) : ∀ c r nl va ne lead s, (argsTail (n + 1) c r nl va ne lead s).2.cur = s.cur := by
  intro c r nl va ne lead s; rw [argsTail.eq_def]; cur_grind ih

theorem cur_evalArgs (n : Nat) (ih : CurIH n) : ∀ c es i s, (evalArgs (n + 1) c es i s).2.cur = s.cur := by
  intro c es i s; rw [evalArgs.eq_def]; cur_grind ih

theorem cur_evalVarArgs (n : Nat) (ih : CurIH n) : ∀ c es s, (evalVarArgs (n + 1) c es s).2.cur = s.cur := by
  intro c es s; rw [evalVarArgs.eq_def]; cur_grind ih

theorem cur_callFn (n : Nat) (ih : CurIH n) : ∀ f a cs s, (callFn (n + 1) f a cs s).cur = s.cur := by
  intro f a cs s; rw [callFn.eq_def]; cur_grind ih

theorem cur_runDefers (n : Nat) (ih : CurIH n) : ∀ ds rv err s, (runDefers (n + 1) ds rv err s).cur = s.cur := by
  intro ds rv err s; rw [runDefers.eq_def]; cur_grind ih

theorem cur_execStmt (n : Nat) (ih : CurIH n) : ∀ st s, (execStmt (n + 1) st s).cur = s.cur := by
  intro st s; rw [execStmt.eq_def]; cur_grind ih

theorem cur_execStmts (n : Nat) (ih : CurIH n) : ∀ ss s, (execStmts (n + 1) ss s).cur = s.cur := by
  intro ss s; rw [execStmts.eq_def]; cur_grind ih

theorem cur_assignAll (n : Nat) (ih : CurIH n) : ∀ l v s, (assignAll (n + 1) l v s).cur = s.cur := by
  intro l v s; rw [assignAll.eq_def]; cur_grind ih

theorem cur_loopIter (n : Nat) (ih : CurIH n) : ∀ c b s, (loopIter (n + 1) c b s).cur = s.cur := by
  intro c b s; rw [loopIter.eq_def]; cur_grind ih

theorem cur_cforIter (n : Nat) (ih : CurIH n) : ∀ c p b s, (cforIter (n + 1) c p b s).cur = s.cur := by
  intro c p b s; rw [cforIter.eq_def]; cur_grind ih

theorem cur_forSlice (n : Nat) (ih : CurIH n) : ∀ v b xs s, (forSlice (n + 1) v b xs s).cur = s.cur := by
  intro v b xs s; rw [forSlice.eq_def]; cur_grind ih

theorem cur_forMap (n : Nat) (ih : CurIH n) : ∀ vs b m s, (forMap (n + 1) vs b m s).cur = s.cur := by
  intro vs b m s; rw [forMap.eq_def]; cur_grind ih

theorem cur_execReturn (n : Nat) (ih : CurIH n) : ∀ es s, (execReturn (n + 1) es s).cur = s.cur := by
  intro es s; rw [execReturn.eq_def]; cur_grind ih

theorem cur_execCases (n : Nat) (ih : CurIH n) : ∀ subj cs d s, (execCases (n + 1) subj cs d s).cur = s.cur := by
  intro subj cs d s; rw [execCases.eq_def]; cur_grind ih

theorem cur_matchCase (n : Nat) (ih : CurIH n) : ∀ subj es s, (matchCase (n + 1) subj es s).2.cur = s.cur := by
  intro subj es s; rw [matchCase.eq_def]; cur_grind ih

theorem cur_registerDefer (n : Nat) (ih : CurIH n) : ∀ f a va s, (registerDefer (n + 1) f a va s).cur = s.cur := by
  intro f a va s; rw [registerDefer.eq_def]; cur_grind ih

theorem cur_execElifs (n : Nat) (ih : CurIH n) : ∀ el els env s, (execElifs (n + 1) el els env s).cur = env := by
  intro el els env s; rw [execElifs.eq_def]; cur_grind ih

/-- Every model function, at every fuel, leaves the scope pointer where it found it. -/
theorem cur_all : ∀ n : Nat, CurIH n := by
  intro n
  induction n with
  | zero => exact {
    evalExpr := by intros; simp [evalExpr, outOfFuel_cur]
    evalList := by intros; simp [evalList, outOfFuel_cur]
    evalIndexOpt := by intros; simp [evalIndexOpt, outOfFuel_cur]
    evalCond := by intros; simp [evalCond, outOfFuel_cur]
    sliceBegin := by intros; simp [sliceBegin, outOfFuel_cur]
    sliceEnd := by intros; simp [sliceEnd, outOfFuel_cur]
    evalMapLit := by intros; simp [evalMapLit, outOfFuel_cur]
    evalLetsx := by intros; simp [evalLetsx, outOfFuel_cur]
    letExpr := by intros; simp [letExpr, outOfFuel_cur]
    callValue := by intros; simp [callValue, outOfFuel_cur]
    makeCallArgs := by intros; simp [makeCallArgs, outOfFuel_cur]
    argsTail := by intros; simp [argsTail, outOfFuel_cur]
    evalArgs := by intros; simp [evalArgs, outOfFuel_cur]
    evalVarArgs := by intros; simp [evalVarArgs, outOfFuel_cur]
    callFn := by intros; simp [callFn, outOfFuel_cur]
    runDefers := by intros; simp [runDefers, outOfFuel_cur]
    execStmt := by intros; simp [execStmt, outOfFuel_cur]
    execStmts := by intros; simp [execStmts, outOfFuel_cur]
    assignAll := by intros; simp [assignAll, outOfFuel_cur]
    execElifs := by intros; simp [execElifs]
    loopIter := by intros; simp [loopIter, outOfFuel_cur]
    cforIter := by intros; simp [cforIter, outOfFuel_cur]
    forSlice := by intros; simp [forSlice, outOfFuel_cur]
    forMap := by intros; simp [forMap, outOfFuel_cur]
    execReturn := by intros; simp [execReturn, outOfFuel_cur]
    execCases := by intros; simp [execCases, outOfFuel_cur]
    matchCase := by intros; simp [matchCase, outOfFuel_cur]
    registerDefer := by intros; simp [registerDefer, outOfFuel_cur] }
  | succ n ih => exact {
    evalExpr := cur_evalExpr n ih
    evalList := cur_evalList n ih
    evalIndexOpt := cur_evalIndexOpt n ih
    evalCond := cur_evalCond n ih
    sliceBegin := cur_sliceBegin n ih
    sliceEnd := cur_sliceEnd n ih
    evalMapLit := cur_evalMapLit n ih
    evalLetsx := cur_evalLetsx n ih
    letExpr := cur_letExpr n ih
    callValue := cur_callValue n ih
    makeCallArgs := cur_makeCallArgs n ih
    argsTail := cur_argsTail n ih
    evalArgs := cur_evalArgs n ih
    evalVarArgs := cur_evalVarArgs n ih
    callFn := cur_callFn n ih
    runDefers := cur_runDefers n ih
    execStmt := cur_execStmt n ih
    execStmts := cur_execStmts n ih
    assignAll := cur_assignAll n ih
    execElifs := cur_execElifs n ih
    loopIter := cur_loopIter n ih
    cforIter := cur_cforIter n ih
    forSlice := cur_forSlice n ih
    forMap := cur_forMap n ih
    execReturn := cur_execReturn n ih
    execCases := cur_execCases n ih
    matchCase := cur_matchCase n ih
    registerDefer := cur_registerDefer n ih }

end Anko
