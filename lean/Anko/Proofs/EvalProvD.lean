/-
C20, whole evaluator: the simulation for `execStmt`, constructor by constructor.
-/
import Anko.Proofs.EvalProvC

set_option linter.unusedSectionVars false
set_option linter.unusedVariables false
set_option linter.unusedSimpArgs false
set_option maxHeartbeats 1600000

namespace Anko
variable [F : FOps] (P Q : Prov)

/-- the common prologue of execStmt: the poll -/
theorem prov_execStmt_poll {s t : St} (h0 : Sim s t) {A B : St → St} (hAB : ∀ s' t', Sim s' t' → Sim (A s') (B t')) :
    Sim (if s.poll.1 = true then { s.poll.2 with rv := nilRV, err := some .interrupt } else A s.poll.2)
        (if t.poll.1 = true then { t.poll.2 with rv := nilRV, err := some .interrupt } else B t.poll.2) := by
  obtain ⟨hp1, hp2⟩ := sim_poll h0
  rw [← hp1]
  split
  · exact sim_with_rv_err hp2 rfl _
  · exact hAB _ _ hp2

theorem prov_execStmt_lets (n : Nat) (ih : ProvIH P Q n) (l r : List Expr) : ∀ s t, Sim s t →
    Sim (@execStmt F P (n + 1) (.lets l r) s) (@execStmt F Q (n + 1) (.lets l r) t) := by
  intro s t h0
  unfold execStmt
  simp +zeta only []
  obtain ⟨hp1, hp2⟩ := sim_poll h0
  rw [← hp1]
  split
  · exact sim_with_rv_err hp2 rfl _
  clear h0
  generalize s.poll.2 = s at hp2 ⊢
  generalize t.poll.2 = t at hp2 ⊢
  have h0 := hp2
  split
  · exact sim_fail h0 _
  · obtain ⟨g1, g2⟩ := ih.evalList r s t h0
    refine sim_ite_err g2 g2 (fun _ => ?_)
    have hun : SimL ((@evalList F P n r s).1.map RV.unwrap) ((@evalList F Q n r t).1.map RV.unwrap) := by
      unfold SimL at *
      simp only [List.map_map]
      have : RV.er ∘ RV.unwrap = RV.er := by funext x; rfl
      rw [this]; exact g1
    have hlast := getLastD_sim g1
    have fin : Sim (if (@assignAll F P n l ((@evalList F P n r s).1.map RV.unwrap) (@evalList F P n r s).2).err.isSome = true
          then @assignAll F P n l ((@evalList F P n r s).1.map RV.unwrap) (@evalList F P n r s).2
          else { @assignAll F P n l ((@evalList F P n r s).1.map RV.unwrap) (@evalList F P n r s).2 with rv := (@evalList F P n r s).1.getLastD nilRV })
        (if (@assignAll F Q n l ((@evalList F Q n r t).1.map RV.unwrap) (@evalList F Q n r t).2).err.isSome = true
          then @assignAll F Q n l ((@evalList F Q n r t).1.map RV.unwrap) (@evalList F Q n r t).2
          else { @assignAll F Q n l ((@evalList F Q n r t).1.map RV.unwrap) (@evalList F Q n r t).2 with rv := (@evalList F Q n r t).1.getLastD nilRV }) := by
      have h3 := ih.assignAll l _ _ _ _ hun g2
      exact sim_ite_err h3 h3 (fun _ => sim_with_rv h3 hlast)
    rw [← simL_length g1]
    split
    · rw [← headD_sim g1]
      split
      · next x xs _ =>
        have h3 := ih.assignAll l _ _ _ _ (simL_elems P Q (x :: xs)) g2
        exact sim_ite_err h3 h3 (fun _ => sim_with_rv h3 rfl)
      · exact fin
    · exact fin

theorem prov_cfor_tail (n : Nat) (ih : ProvIH P Q n) (c p : Option Expr) (b : Stmt) (env : Nat) {u w : St} (hu : Sim u w) :
    Sim (if u.err.isSome = true then { u with cur := env } else
          (match (@cforIter F P n c p b u).err with
           | some .ret => { @cforIter F P n c p b u with cur := env }
           | some .interrupt => { @cforIter F P n c p b u with cur := env }
           | _ => { @cforIter F P n c p b u with rv := nilRV, cur := env }))
        (if w.err.isSome = true then { w with cur := env } else
          (match (@cforIter F Q n c p b w).err with
           | some .ret => { @cforIter F Q n c p b w with cur := env }
           | some .interrupt => { @cforIter F Q n c p b w with cur := env }
           | _ => { @cforIter F Q n c p b w with rv := nilRV, cur := env })) := by
  refine sim_ite_err hu (sim_with_cur hu _) (fun _ => ?_)
  have h3 := ih.cforIter c p b _ _ hu
  rw [← h3.err]
  split
  · exact sim_with_cur h3 _
  · exact sim_with_cur h3 _
  · exact sim_with_rv_cur h3 rfl _

theorem prov_execStmt_cfor (n : Nat) (ih : ProvIH P Q n) (i : Stmt) (c p : Option Expr) (b : Stmt) : ∀ s t, Sim s t →
    Sim (@execStmt F P (n + 1) (.cfor i c p b) s) (@execStmt F Q (n + 1) (.cfor i c p b) t) := by
  intro s t h0
  unfold execStmt
  simp +zeta only []
  obtain ⟨hp1, hp2⟩ := sim_poll h0
  rw [← hp1]
  split
  · exact sim_with_rv_err hp2 rfl _
  clear h0
  generalize s.poll.2 = s at hp2 ⊢
  generalize t.poll.2 = t at hp2 ⊢
  have h0 := hp2
  obtain ⟨k1, k2⟩ := sim_newScope h0 s.cur
  rw [← h0.cur, ← k1]
  cases i <;> simp only [] <;> first
    | exact prov_cfor_tail P Q n ih c p b s.cur (sim_with_cur k2 (s.newScope s.cur).1)
    | exact prov_cfor_tail P Q n ih c p b s.cur (ih.execStmt _ _ _ (sim_with_cur k2 (s.newScope s.cur).1))

theorem prov_execStmt_ret (n : Nat) (ih : ProvIH P Q n) (es : List Expr) : ∀ s t, Sim s t →
    Sim (@execStmt F P (n + 1) (.ret es) s) (@execStmt F Q (n + 1) (.ret es) t) := by
  intro s t h0
  unfold execStmt
  simp +zeta only []
  obtain ⟨hp1, hp2⟩ := sim_poll h0
  rw [← hp1]
  split
  · exact sim_with_rv_err hp2 rfl _
  · exact ih.execReturn es _ _ hp2

theorem prov_try_tail (n : Nat) (ih : ProvIH P Q n) (var : String) (c f : Stmt) (env : Nat) {u w : St} (hu : Sim u w) :
    Sim (match u.err, (match u.err with
            | none => u
            | some .interrupt => u
            | some e => @execStmt F P n c { (if var != "" then u.define u.cur var ⟨false, .err e.msg⟩ else u) with err := none }).err with
         | some .interrupt, _ => { (match u.err with
            | none => u
            | some .interrupt => u
            | some e => @execStmt F P n c { (if var != "" then u.define u.cur var ⟨false, .err e.msg⟩ else u) with err := none }) with cur := env }
         | some _, some _ => { (match u.err with
            | none => u
            | some .interrupt => u
            | some e => @execStmt F P n c { (if var != "" then u.define u.cur var ⟨false, .err e.msg⟩ else u) with err := none }) with cur := env }
         | _, _ => { (match f with
            | .nilS => (match u.err with
              | none => u
              | some .interrupt => u
              | some e => @execStmt F P n c { (if var != "" then u.define u.cur var ⟨false, .err e.msg⟩ else u) with err := none })
            | fin => @execStmt F P n fin (match u.err with
              | none => u
              | some .interrupt => u
              | some e => @execStmt F P n c { (if var != "" then u.define u.cur var ⟨false, .err e.msg⟩ else u) with err := none })) with cur := env })
        (match w.err, (match w.err with
            | none => w
            | some .interrupt => w
            | some e => @execStmt F Q n c { (if var != "" then w.define w.cur var ⟨false, .err e.msg⟩ else w) with err := none }).err with
         | some .interrupt, _ => { (match w.err with
            | none => w
            | some .interrupt => w
            | some e => @execStmt F Q n c { (if var != "" then w.define w.cur var ⟨false, .err e.msg⟩ else w) with err := none }) with cur := env }
         | some _, some _ => { (match w.err with
            | none => w
            | some .interrupt => w
            | some e => @execStmt F Q n c { (if var != "" then w.define w.cur var ⟨false, .err e.msg⟩ else w) with err := none }) with cur := env }
         | _, _ => { (match f with
            | .nilS => (match w.err with
              | none => w
              | some .interrupt => w
              | some e => @execStmt F Q n c { (if var != "" then w.define w.cur var ⟨false, .err e.msg⟩ else w) with err := none })
            | fin => @execStmt F Q n fin (match w.err with
              | none => w
              | some .interrupt => w
              | some e => @execStmt F Q n c { (if var != "" then w.define w.cur var ⟨false, .err e.msg⟩ else w) with err := none })) with cur := env }) := by
  have he := hu.err
  have fin : ∀ a b : St, Sim a b → Sim { (match f with | .nilS => a | fin => @execStmt F P n fin a) with cur := env }
      { (match f with | .nilS => b | fin => @execStmt F Q n fin b) with cur := env } := by
    intro a b hab
    cases f <;> simp only [] <;> first | exact sim_with_cur hab _ | exact sim_with_cur (ih.execStmt _ _ _ hab) _
  cases hE : u.err with
  | none =>
    have hE' : w.err = none := by rw [← he, hE]
    simp only [hE, hE']
    exact fin _ _ hu
  | some e =>
    have hE' : w.err = some e := by rw [← he, hE]
    have hcatch : ∀ e' : Err, Sim (@execStmt F P n c { (if var != "" then u.define u.cur var ⟨false, .err e'.msg⟩ else u) with err := none })
        (@execStmt F Q n c { (if var != "" then w.define w.cur var ⟨false, .err e'.msg⟩ else w) with err := none }) := by
      intro e'
      apply ih.execStmt
      apply sim_with_err
      split
      · rw [hu.cur]; exact sim_define hu _ _ rfl
      · exact hu
    cases e with
    | interrupt => simp only [hE, hE']; sim_rec hu
    | brk =>
      have h3 := hcatch .brk
      simp only [hE, hE'] at h3 ⊢
      rw [← h3.err]
      split <;> first | exact fin _ _ h3 | (sim_rec h3) | simp_all
    | cont =>
      have h3 := hcatch .cont
      simp only [hE, hE'] at h3 ⊢
      rw [← h3.err]
      split <;> first | exact fin _ _ h3 | (sim_rec h3) | simp_all
    | ret =>
      have h3 := hcatch .ret
      simp only [hE, hE'] at h3 ⊢
      rw [← h3.err]
      split <;> first | exact fin _ _ h3 | (sim_rec h3) | simp_all
    | error m =>
      have h3 := hcatch (.error m)
      simp only [hE, hE'] at h3 ⊢
      rw [← h3.err]
      split <;> first | exact fin _ _ h3 | (sim_rec h3) | simp_all

theorem prov_execStmt_try (n : Nat) (ih : ProvIH P Q n) (tr : Stmt) (var : String) (c f : Stmt) : ∀ s t, Sim s t →
    Sim (@execStmt F P (n + 1) (.tryS tr var c f) s) (@execStmt F Q (n + 1) (.tryS tr var c f) t) := by
  intro s t h0
  unfold execStmt
  simp +zeta only []
  obtain ⟨hp1, hp2⟩ := sim_poll h0
  rw [← hp1]
  split
  · exact sim_with_rv_err hp2 rfl _
  clear h0
  generalize s.poll.2 = s at hp2 ⊢
  generalize t.poll.2 = t at hp2 ⊢
  have h0 := hp2
  obtain ⟨k1, k2⟩ := sim_newScope h0 s.cur
  rw [← h0.cur, ← k1]
  exact prov_try_tail P Q n ih var c f s.cur (ih.execStmt tr _ _ (sim_with_cur k2 (s.newScope s.cur).1))

theorem prov_execStmt_nilS (n : Nat) (ih : ProvIH P Q n)  : ∀ s t, Sim s t → Sim (@execStmt F P (n + 1) (.nilS) s) (@execStmt F Q (n + 1) (.nilS) t) := by
  intro s t h0
  rw [@execStmt.eq_def F P, @execStmt.eq_def F Q]
  prov_grind ih

theorem prov_execStmt_stmts (n : Nat) (ih : ProvIH P Q n) (ss) : ∀ s t, Sim s t → Sim (@execStmt F P (n + 1) (.stmts ss) s) (@execStmt F Q (n + 1) (.stmts ss) t) := by
  intro s t h0
  rw [@execStmt.eq_def F P, @execStmt.eq_def F Q]
  prov_grind ih

theorem prov_execStmt_expr (n : Nat) (ih : ProvIH P Q n) (e) : ∀ s t, Sim s t → Sim (@execStmt F P (n + 1) (.expr e) s) (@execStmt F Q (n + 1) (.expr e) t) := by
  intro s t h0
  rw [@execStmt.eq_def F P, @execStmt.eq_def F Q]
  prov_grind ih

theorem prov_execStmt_varS (n : Nat) (ih : ProvIH P Q n) (ns es) : ∀ s t, Sim s t → Sim (@execStmt F P (n + 1) (.varS ns es) s) (@execStmt F Q (n + 1) (.varS ns es) t) := by
  intro s t h0
  rw [@execStmt.eq_def F P, @execStmt.eq_def F Q]
  prov_grind ih

theorem prov_execStmt_ifS (n : Nat) (ih : ProvIH P Q n) (c th el e) : ∀ s t, Sim s t → Sim (@execStmt F P (n + 1) (.ifS c th el e) s) (@execStmt F Q (n + 1) (.ifS c th el e) t) := by
  intro s t h0
  rw [@execStmt.eq_def F P, @execStmt.eq_def F Q]
  prov_grind ih

theorem prov_execStmt_loop (n : Nat) (ih : ProvIH P Q n) (c b) : ∀ s t, Sim s t → Sim (@execStmt F P (n + 1) (.loop c b) s) (@execStmt F Q (n + 1) (.loop c b) t) := by
  intro s t h0
  rw [@execStmt.eq_def F P, @execStmt.eq_def F Q]
  prov_grind ih

theorem prov_execStmt_forIn (n : Nat) (ih : ProvIH P Q n) (vs e b) : ∀ s t, Sim s t → Sim (@execStmt F P (n + 1) (.forIn vs e b) s) (@execStmt F Q (n + 1) (.forIn vs e b) t) := by
  intro s t h0
  rw [@execStmt.eq_def F P, @execStmt.eq_def F Q]
  prov_grind ih

theorem prov_execStmt_brk (n : Nat) (ih : ProvIH P Q n)  : ∀ s t, Sim s t → Sim (@execStmt F P (n + 1) (.brk) s) (@execStmt F Q (n + 1) (.brk) t) := by
  intro s t h0
  rw [@execStmt.eq_def F P, @execStmt.eq_def F Q]
  prov_grind ih

theorem prov_execStmt_cont (n : Nat) (ih : ProvIH P Q n)  : ∀ s t, Sim s t → Sim (@execStmt F P (n + 1) (.cont) s) (@execStmt F Q (n + 1) (.cont) t) := by
  intro s t h0
  rw [@execStmt.eq_def F P, @execStmt.eq_def F Q]
  prov_grind ih

theorem prov_execStmt_throw (n : Nat) (ih : ProvIH P Q n) (e) : ∀ s t, Sim s t → Sim (@execStmt F P (n + 1) (.throw e) s) (@execStmt F Q (n + 1) (.throw e) t) := by
  intro s t h0
  rw [@execStmt.eq_def F P, @execStmt.eq_def F Q]
  prov_grind ih

theorem prov_execStmt_module (n : Nat) (ih : ProvIH P Q n) (nm b) : ∀ s t, Sim s t → Sim (@execStmt F P (n + 1) (.module nm b) s) (@execStmt F Q (n + 1) (.module nm b) t) := by
  intro s t h0
  rw [@execStmt.eq_def F P, @execStmt.eq_def F Q]
  prov_grind ih

theorem prov_execStmt_switch (n : Nat) (ih : ProvIH P Q n) (e : Expr) (cs : List (List Expr × Stmt)) (d : Stmt) : ∀ s t, Sim s t →
    Sim (@execStmt F P (n + 1) (.switch e cs d) s) (@execStmt F Q (n + 1) (.switch e cs d) t) := by
  intro s t h0
  unfold execStmt
  simp +zeta only []
  obtain ⟨hp1, hp2⟩ := sim_poll h0
  rw [← hp1]
  split
  · exact sim_with_rv_err hp2 rfl _
  clear h0
  generalize s.poll.2 = s at hp2 ⊢
  generalize t.poll.2 = t at hp2 ⊢
  have h0 := hp2
  obtain ⟨k1, k2⟩ := sim_newScope h0 s.cur
  rw [← h0.cur, ← k1]
  have h2 := ih.evalExpr e _ _ (sim_with_cur k2 (s.newScope s.cur).1)
  refine sim_ite_err h2 (sim_with_cur h2 _) (fun _ => ?_)
  exact sim_with_cur (ih.execCases _ _ cs d _ _ h2.rv h2) _

theorem prov_execStmt_defer (n : Nat) (ih : ProvIH P Q n) (e) : ∀ s t, Sim s t → Sim (@execStmt F P (n + 1) (.defer e) s) (@execStmt F Q (n + 1) (.defer e) t) := by
  intro s t h0
  rw [@execStmt.eq_def F P, @execStmt.eq_def F Q]
  prov_grind ih

theorem prov_execStmt_unsupported (n : Nat) (ih : ProvIH P Q n) (k) : ∀ s t, Sim s t → Sim (@execStmt F P (n + 1) (.unsupported k) s) (@execStmt F Q (n + 1) (.unsupported k) t) := by
  intro s t h0
  rw [@execStmt.eq_def F P, @execStmt.eq_def F Q]
  prov_grind ih

theorem prov_execStmt (n : Nat) (ih : ProvIH P Q n) : ∀ st s t, Sim s t → Sim (@execStmt F P (n + 1) st s) (@execStmt F Q (n + 1) st t) := by
  intro st
  cases st
  case nilS => exact prov_execStmt_nilS P Q n ih
  case stmts ss => exact prov_execStmt_stmts P Q n ih ss
  case expr e => exact prov_execStmt_expr P Q n ih e
  case varS ns es => exact prov_execStmt_varS P Q n ih ns es
  case lets l r => exact prov_execStmt_lets P Q n ih l r
  case ifS c th el e => exact prov_execStmt_ifS P Q n ih c th el e
  case tryS tr v c f => exact prov_execStmt_try P Q n ih tr v c f
  case loop c b => exact prov_execStmt_loop P Q n ih c b
  case forIn vs e b => exact prov_execStmt_forIn P Q n ih vs e b
  case cfor i c p b => exact prov_execStmt_cfor P Q n ih i c p b
  case brk => exact prov_execStmt_brk P Q n ih
  case cont => exact prov_execStmt_cont P Q n ih
  case ret es => exact prov_execStmt_ret P Q n ih es
  case throw e => exact prov_execStmt_throw P Q n ih e
  case module nm b => exact prov_execStmt_module P Q n ih nm b
  case switch e cs d => exact prov_execStmt_switch P Q n ih e cs d
  case defer e => exact prov_execStmt_defer P Q n ih e
  case unsupported k => exact prov_execStmt_unsupported P Q n ih k

end Anko
