/-
Locality of the scanner: what Scan does inside a text does not depend on what surrounds the text,
as long as the text is followed by a newline or by nothing.  Basis of `lex_concat` (C15).
-/
import Anko.Proofs.Scanner

namespace Anko.Scan

/-- `t` looks at the text of `s` through a window: `t.src = a ++ s.src ++ b`, cursor and line start
shifted by `|a|`, line number shifted by `L` -/
structure Win (a b : Array Char) (L : Nat) (s t : S) : Prop where
  src : t.src = a ++ s.src ++ b
  off : t.offset = s.offset + a.size
  head : t.lineHead = s.lineHead + a.size
  line : t.line = s.line + L
  inb : s.offset ≤ s.src.size

/-- what follows the window stops every scanning loop the way the end of input does -/
def Stop (b : Array Char) : Prop := b[0]? = none ∨ b[0]? = some '\n'

theorem Win.peek_some {a b L s t} (w : Win a b L s t) {c : Char} (h : s.peek = some c) : t.peek = some c := by
  have hl := peek_some_lt h
  unfold S.peek at *
  rw [w.src, w.off]
  have h1 : s.offset + a.size < (a ++ s.src).size := by simp; omega
  rw [Array.getElem?_append_left (by simpa using h1)]
  rw [Array.getElem?_append_right (by omega)]
  simpa using h

theorem Win.peek_none {a b L s t} (w : Win a b L s t) (h : s.peek = none) : t.peek = b[0]? := by
  have hl := peek_none_ge h
  have he : s.offset = s.src.size := Nat.le_antisymm w.inb hl
  unfold S.peek
  rw [w.src, w.off, he]
  rw [Array.getElem?_append_right (by simp; omega)]
  simp
  congr 1
  omega

theorem Win.peek_stop {a b L s t} (w : Win a b L s t) (hb : Stop b) (h : s.peek = none) :
    t.peek = none ∨ t.peek = some '\n' := by
  rw [w.peek_none h]; exact hb

/-- a predicate that does not hold of a newline sees the same thing through the window -/
theorem Win.peekIs {a b L s t} (w : Win a b L s t) (hb : Stop b) (p : Char → Bool) (hp : p '\n' = false) :
    peekIs t p = peekIs s p := by
  unfold Scan.peekIs
  cases h : s.peek with
  | some c => rw [w.peek_some h]
  | none =>
    rcases w.peek_stop hb h with h1 | h1 <;> simp [h1, hp]

theorem Win.peekPlus {a b L s t} (w : Win a b L s t) (hb : Stop b) (i : Nat) (c : Char) (hc : c ≠ '\n')
    (hle : s.offset + i ≤ s.src.size) : (t.peekPlus i == some c) = (s.peekPlus i == some c) := by
  unfold S.peekPlus
  rw [w.src, w.off]
  rcases Nat.lt_or_ge (s.offset + i) s.src.size with hin | hin
  · have h1 : s.offset + a.size + i < (a ++ s.src).size := by simp; omega
    rw [Array.getElem?_append_left (by simpa using h1), Array.getElem?_append_right (by omega)]
    have : s.offset + a.size + i - a.size = s.offset + i := by omega
    rw [this]
  · rw [Array.getElem?_eq_none hin]
    rw [Array.getElem?_append_right (by simp; omega)]
    have : s.offset + a.size + i - (a ++ s.src).size = 0 := by simp; omega
    rw [this]
    rcases hb with h1 | h1 <;> rw [h1] <;> simp
    exact fun hh => hc hh.symm

theorem Win.next {a b L s t} (w : Win a b L s t) {c : Char} (h : s.peek = some c) : Win a b L s.next t.next := by
  have ht := w.peek_some h
  have hl := peek_some_lt h
  have htl := peek_some_lt ht
  unfold S.next S.reachEOF
  have e1 : decide (s.src.size ≤ s.offset) = false := by simpa using hl
  have e2 : decide (t.src.size ≤ t.offset) = false := by simpa using htl
  simp only [e1, e2, Bool.false_eq_true, if_false, h, ht]
  by_cases hc : c = '\n'
  · subst hc
    simp only [beq_self_eq_true, if_true]
    exact ⟨w.src, by simp [w.off]; omega, by simp [w.off]; omega, by simp [w.line]; omega, by simp; omega⟩
  · have : (some c == some '\n') = false := by simpa using hc
    simp only [this, Bool.false_eq_true, if_false]
    exact ⟨w.src, by simp [w.off]; omega, w.head, w.line, by simp; omega⟩

theorem Win.back_next {a b L s t} (w : Win a b L s t) {c : Char} (h : s.peek = some c) (hc : c ≠ '\n') :
    t.next.back = t := next_back (w.peek_some h) hc

theorem Win.pos {a b L s t} (w : Win a b L s t) (hh : s.lineHead ≤ s.offset) :
    t.pos = ⟨s.pos.line + L, s.pos.col⟩ := by
  simp only [S.pos, w.off, w.head, w.line, Pos.mk.injEq]
  omega

theorem rem_nonneg_fuel {s : S} {n : Nat} (h : rem s < n) : ∃ n', n = n' + 1 := ⟨n - 1, by omega⟩

theorem win_skipWhile {a b : Array Char} {L : Nat} (p : Char → Bool) (hp : p '\n' = false) (hb : Stop b) :
    ∀ (n m : Nat) (s t : S), Win a b L s t → rem s < n → rem s < m →
      Win a b L (skipWhile p n s) (skipWhile p m t)
  | 0, _, s, _, _, h, _ => absurd h (Nat.not_lt_zero _)
  | _, 0, s, _, _, _, h => absurd h (Nat.not_lt_zero _)
  | n + 1, m + 1, s, t, w, hn, hm => by
    unfold skipWhile
    rw [w.peekIs hb p hp]
    split
    · next hpk =>
      obtain ⟨c, hc, _⟩ := peekIs_some hpk
      have hr := rem_next hc
      exact win_skipWhile p hp hb n m s.next t.next (w.next hc) (by omega) (by omega)
    · exact w

theorem win_takeWhile {a b : Array Char} {L : Nat} (p : Char → Bool) (hp : p '\n' = false) (hb : Stop b) :
    ∀ (n m : Nat) (s t : S) (acc : List Char), Win a b L s t → rem s < n → rem s < m →
      (takeWhile p m t acc).1 = (takeWhile p n s acc).1 ∧ Win a b L (takeWhile p n s acc).2 (takeWhile p m t acc).2
  | 0, _, s, _, _, _, h, _ => absurd h (Nat.not_lt_zero _)
  | _, 0, s, _, _, _, _, h => absurd h (Nat.not_lt_zero _)
  | n + 1, m + 1, s, t, acc, w, hn, hm => by
    unfold takeWhile
    cases hs : s.peek with
    | some c =>
      rw [w.peek_some hs]
      simp only
      split
      · have hr := rem_next hs
        exact win_takeWhile p hp hb n m s.next t.next (c :: acc) (w.next hs) (by omega) (by omega)
      · exact ⟨rfl, w⟩
    | none =>
      rcases w.peek_stop hb hs with h1 | h1
      · rw [h1]; exact ⟨rfl, w⟩
      · rw [h1]; simp only [hp, Bool.false_eq_true, if_false]; exact ⟨trivial, w⟩

theorem win_scanNumberTail {a b : Array Char} {L : Nat} (hb : Stop b) :
    ∀ (n m : Nat) (s t : S) (acc : List Char) (found : Bool) (cs : List Char) (s' : S), Win a b L s t → n ≤ m →
      scanNumberTail n s acc found = .ok (cs, s') →
      ∃ t', scanNumberTail m t acc found = .ok (cs, t') ∧ Win a b L s' t'
  | 0, _, _, _, _, _, _, _, _, _, h => by simp [scanNumberTail] at h
  | n + 1, 0, _, _, _, _, _, _, _, h, _ => absurd h (by omega)
  | n + 1, m + 1, s, t, acc, found, cs, s', w, hnm, h => by
    have hnm' : n ≤ m := by omega
    unfold scanNumberTail at h ⊢
    cases hs : s.peek with
    | some c =>
      rw [hs] at h
      rw [w.peek_some hs]
      simp only at h ⊢
      have wn := w.next hs
      split
      · next hd => rw [if_pos hd] at h; exact win_scanNumberTail hb n m _ _ _ _ _ _ wn hnm' h
      · next hd =>
        rw [if_neg hd] at h
        split
        · next hdot => rw [if_pos hdot] at h; exact win_scanNumberTail hb n m _ _ _ _ _ _ wn hnm' h
        · next hdot =>
          rw [if_neg hdot] at h
          split
          · next he =>
            rw [if_pos he] at h
            split
            · next hf => rw [if_pos hf] at h; cases h
            · next hf =>
              rw [if_neg hf] at h
              cases hs1 : s.next.peek with
              | some d =>
                rw [hs1] at h
                rw [wn.peek_some hs1]
                simp only at h ⊢
                split
                · next hpm => rw [if_pos hpm] at h; exact win_scanNumberTail hb n m _ _ _ _ _ _ (wn.next hs1) hnm' h
                · next hpm => rw [if_neg hpm] at h; exact win_scanNumberTail hb n m _ _ _ _ _ _ wn hnm' h
              | none =>
                rw [hs1] at h
                simp only at h
                rcases wn.peek_stop hb hs1 with h1 | h1
                · rw [h1]; exact win_scanNumberTail hb n m _ _ _ _ _ _ wn hnm' h
                · rw [h1]
                  simp only [show (('\n' == '+') || ('\n' == '-')) = false by decide, Bool.false_eq_true, if_false]
                  exact win_scanNumberTail hb n m _ _ _ _ _ _ wn hnm' h
          · next he =>
            rw [if_neg he] at h
            simp only [Except.ok.injEq, Prod.mk.injEq] at h
            obtain ⟨rfl, rfl⟩ := h
            exact ⟨t, rfl, w⟩
    | none =>
      rw [hs] at h
      simp only [Except.ok.injEq, Prod.mk.injEq] at h
      obtain ⟨rfl, rfl⟩ := h
      rcases w.peek_stop hb hs with h1 | h1
      · rw [h1]; exact ⟨t, rfl, w⟩
      · rw [h1]
        simp only [show isDigit '\n' = false by decide, show ('\n' == '.') = false by decide,
          show (('\n' == 'e') || ('\n' == 'E')) = false by decide, Bool.false_eq_true, if_false]
        exact ⟨t, rfl, w⟩

theorem Win.size_le {a b : Array Char} {L : Nat} {s t : S} (w : Win a b L s t) : s.src.size ≤ t.src.size := by
  rw [w.src]; simp; omega

theorem Win.rem_lt {a b : Array Char} {L : Nat} {s t : S} (w : Win a b L s t) : rem s < t.src.size + 1 := by
  have := w.size_le; unfold rem; omega

theorem win_scanNumber {a b : Array Char} {L : Nat} (hb : Stop b) (s t : S) (w : Win a b L s t) (lit : String) (s' : S)
    (h : scanNumber s = .ok (lit, s')) : ∃ t', scanNumber t = .ok (lit, t') ∧ Win a b L s' t' := by
  unfold scanNumber at h ⊢
  cases hs : s.peek with
  | none => rw [hs] at h; cases h
  | some c0 =>
    rw [hs] at h
    rw [w.peek_some hs]
    simp only at h ⊢
    have wn := w.next hs
    have hrem := rem_next hs
    -- the prefix peeks (x / b) see the same thing: they compare with a letter
    have pk : ∀ (c : Char), c ≠ '\n' → (t.next.peek == some c) = (s.next.peek == some c) := by
      intro c hc
      cases hp : s.next.peek with
      | some d => rw [wn.peek_some hp]
      | none =>
        rcases wn.peek_stop hb hp with h1 | h1 <;> rw [h1] <;> simp
        exact fun hh => hc hh.symm
    rw [pk 'x' (by decide), pk 'X' (by decide), pk 'b' (by decide), pk 'B' (by decide)]
    -- common tail: the check for a letter right after the literal
    have tail : ∀ (cs : List Char) (s2 t2 : S), Win a b L s2 t2 →
        (if peekIs s2 isLetter then (.error (.msg "identifier starts immediately after numeric literal") : Except LexErr (String × S))
         else .ok (String.ofList cs, s2)) = .ok (lit, s') →
        ∃ t', (if peekIs t2 isLetter then (.error (.msg "identifier starts immediately after numeric literal") : Except LexErr (String × S))
         else .ok (String.ofList cs, t2)) = .ok (lit, t') ∧ Win a b L s' t' := by
      intro cs s2 t2 w2 h2
      rw [w2.peekIs hb isLetter (by decide)]
      split at h2
      · cases h2
      · next hl =>
        rw [if_neg hl]
        simp only [Except.ok.injEq, Prod.mk.injEq] at h2
        obtain ⟨rfl, rfl⟩ := h2
        exact ⟨t2, rfl, w2⟩
    by_cases hx : (c0 == '0' && (s.next.peek == some 'x' || s.next.peek == some 'X')) = true
    · simp only [hx, if_true] at h ⊢
      have hpk : ∃ d, s.next.peek = some d := by
        cases hp : s.next.peek with
        | some d => exact ⟨d, rfl⟩
        | none => simp [hp] at hx
      obtain ⟨d, hd⟩ := hpk
      have wnn := wn.next hd
      have hr2 := rem_next hd
      have tw := win_takeWhile isHex (by decide) hb (s.src.size + 1) (t.src.size + 1) s.next.next t.next.next [] wnn
        (by unfold rem at *; simp at *; omega) (by have := wnn.rem_lt; simpa using this)
      rw [tw.1]
      exact tail _ _ _ tw.2 h
    · simp only [hx, Bool.false_eq_true, if_false] at h ⊢
      by_cases hbb : (c0 == '0' && (s.next.peek == some 'b' || s.next.peek == some 'B')) = true
      · simp only [hbb, if_true] at h ⊢
        have hpk : ∃ d, s.next.peek = some d := by
          cases hp : s.next.peek with
          | some d => exact ⟨d, rfl⟩
          | none => simp [hp] at hbb
        obtain ⟨d, hd⟩ := hpk
        have wnn := wn.next hd
        have tw := win_takeWhile isBinary (by decide) hb (s.src.size + 1) (t.src.size + 1) s.next.next t.next.next [] wnn
          (by have := rem_next hd; unfold rem at *; simp at *; omega) (by have := wnn.rem_lt; simpa using this)
        rw [tw.1]
        exact tail _ _ _ tw.2 h
      · simp only [hbb, Bool.false_eq_true, if_false] at h ⊢
        cases hres : scanNumberTail (s.src.size + 1) s.next [] false with
        | error e => rw [hres] at h; cases h
        | ok r =>
          obtain ⟨ds, s2⟩ := r
          rw [hres] at h
          obtain ⟨t2, ht2, w2⟩ := win_scanNumberTail hb (s.src.size + 1) (t.src.size + 1) s.next t.next [] false ds s2 wn
            (by have := w.size_le; omega) hres
          rw [ht2]
          simp only at h ⊢
          exact tail _ _ _ w2 h

theorem peek_of_next_peek {s : S} {c : Char} (h : s.next.peek = some c) : ∃ c0, s.peek = some c0 := by
  cases hp : s.peek with
  | some c0 => exact ⟨c0, rfl⟩
  | none =>
    have hge := peek_none_ge hp
    have : s.next = s := by
      unfold S.next S.reachEOF
      simp [hge]
    rw [this, hp] at h; cases h

/-- scanRawString seen through the window: a successful scan in the text is the same scan outside;
the closing delimiter sits at corresponding places -/
theorem win_scanRaw {a b : Array Char} {L : Nat} (l : Char) :
    ∀ (n m : Nat) (s t : S) (acc cs : List Char) (s' : S), Win a b L s t → n ≤ m →
      scanRaw l n s acc = .ok (cs, s') →
      ∃ s0 t0, Win a b L s0 t0 ∧ s0.peek = some l ∧ s' = s0.next ∧ scanRaw l m t acc = .ok (cs, t0.next)
  | 0, _, _, _, _, _, _, _, _, h => by simp [scanRaw] at h
  | n + 1, 0, _, _, _, _, _, _, hnm, _ => absurd hnm (by omega)
  | n + 1, m + 1, s, t, acc, cs, s', w, hnm, h => by
    unfold scanRaw at h ⊢
    simp only at h ⊢
    cases hp : s.next.peek with
    | none => rw [hp] at h; cases h
    | some c =>
      rw [hp] at h
      obtain ⟨c0, hc0⟩ := peek_of_next_peek hp
      have wn := w.next hc0
      rw [wn.peek_some hp]
      simp only at h ⊢
      split
      · next hcl =>
        rw [if_pos hcl] at h
        simp only [Except.ok.injEq, Prod.mk.injEq] at h
        obtain ⟨rfl, rfl⟩ := h
        have : c = l := by simpa using hcl
        subst this
        exact ⟨s.next, t.next, wn, hp, rfl, rfl⟩
      · next hcl =>
        rw [if_neg hcl] at h
        exact win_scanRaw l n m s.next t.next _ cs s' wn (by omega) h

theorem win_scanRaw' {a b : Array Char} {L : Nat} (l : Char) (n m : Nat) (s t : S) (acc cs : List Char) (s' : S)
    (w : Win a b L s t) (hnm : n ≤ m) (h : scanRaw l n s acc = .ok (cs, s')) :
    ∃ t', scanRaw l m t acc = .ok (cs, t') ∧ Win a b L s' t' := by
  obtain ⟨s0, t0, w0, hp, rfl, ht⟩ := win_scanRaw l n m s t acc cs s' w hnm h
  exact ⟨t0.next, ht, w0.next hp⟩

theorem scanStr_at_eof (l : Char) (n : Nat) (s : S) (acc : List Char) (h : s.peek = none) :
    ∀ r, scanStr l n s acc ≠ .ok r := by
  intro r
  cases n with
  | zero => simp [scanStr]
  | succ n =>
    unfold scanStr
    have hge := peek_none_ge h
    have : s.next = s := by unfold S.next S.reachEOF; simp [hge]
    simp only [this, h]
    intro hh; cases hh

theorem win_scanStr {a b : Array Char} {L : Nat} (l : Char) :
    ∀ (n m : Nat) (s t : S) (acc cs : List Char) (s' : S), Win a b L s t → n ≤ m →
      scanStr l n s acc = .ok (cs, s') → ∃ t', scanStr l m t acc = .ok (cs, t') ∧ Win a b L s' t'
  | 0, _, _, _, _, _, _, _, _, h => by simp [scanStr] at h
  | n + 1, 0, _, _, _, _, _, _, hnm, _ => absurd hnm (by omega)
  | n + 1, m + 1, s, t, acc, cs, s', w, hnm, h => by
    have hnm' : n ≤ m := by omega
    unfold scanStr at h ⊢
    simp only at h ⊢
    cases hp : s.next.peek with
    | none => rw [hp] at h; cases h
    | some c =>
      rw [hp] at h
      obtain ⟨c0, hc0⟩ := peek_of_next_peek hp
      have wn := w.next hc0
      rw [wn.peek_some hp]
      simp only at h ⊢
      split
      · next h1 => rw [if_pos h1] at h; cases h
      · next h1 =>
        rw [if_neg h1] at h
        split
        · next h2 =>
          rw [if_pos h2] at h
          simp only [Except.ok.injEq, Prod.mk.injEq] at h
          obtain ⟨rfl, rfl⟩ := h
          exact ⟨t.next.next, rfl, wn.next hp⟩
        · next h2 =>
          rw [if_neg h2] at h
          split
          · next h3 =>
            rw [if_pos h3] at h
            have wnn := wn.next hp
            cases hp2 : s.next.next.peek with
            | none =>
              rw [hp2] at h
              simp only at h
              exact absurd h (scanStr_at_eof l n s.next.next acc hp2 _)
            | some d =>
              rw [hp2] at h
              rw [wnn.peek_some hp2]
              -- the same escape branch on both sides
              split at h <;> rename_i heq <;> simp only [heq] at * <;>
                first
                | exact win_scanStr l n m _ _ _ cs s' wnn hnm' h
                | (split <;> first | exact win_scanStr l n m _ _ _ cs s' wnn hnm' h | simp_all)
          · next h3 =>
            rw [if_neg h3] at h
            exact win_scanStr l n m _ _ _ cs s' wn hnm' h

theorem win_skipBlockComment {a b : Array Char} {L : Nat} (hb : Stop b) :
    ∀ (n m : Nat) (s t : S) (s' : S), Win a b L s t → n ≤ m →
      skipBlockComment n s = .ok s' → ∃ t', skipBlockComment m t = .ok t' ∧ Win a b L s' t'
  | 0, _, _, _, _, _, _, h => by simp [skipBlockComment] at h
  | n + 1, 0, _, _, _, _, hnm, _ => absurd hnm (by omega)
  | n + 1, m + 1, s, t, s', w, hnm, h => by
    unfold skipBlockComment at h ⊢
    cases hr : scanRaw '*' (s.src.size + 1) s [] with
    | error e => rw [hr] at h; cases h
    | ok r =>
      obtain ⟨cs, s1⟩ := r
      rw [hr] at h
      obtain ⟨s0, t0, w0, hp0, rfl, ht⟩ := win_scanRaw '*' (s.src.size + 1) (t.src.size + 1) s t [] cs s1 w
        (by have := w.size_le; omega) hr
      rw [ht]
      simp only at h ⊢
      have w1 := w0.next hp0
      cases hp1 : s0.next.peek with
      | some c =>
        rw [hp1] at h
        rw [w1.peek_some hp1]
        split
        · next hc =>
          rw [if_pos hc] at h
          simp only [Except.ok.injEq] at h
          subst h
          exact ⟨t0.next.next, rfl, w1.next hp1⟩
        · next hc =>
          rw [if_neg hc] at h
          rw [next_back hp0 (by decide)] at h
          rw [w0.back_next hp0 (by decide)]
          exact win_skipBlockComment hb n m s0 t0 s' w0 (by omega) h
      | none =>
        rw [hp1] at h
        simp only [show ((none : Option Char) == some '/') = false by rfl, Bool.false_eq_true, if_false] at h
        rw [next_back hp0 (by decide)] at h
        have hne : (t0.next.peek == some '/') = false := by
          rcases w1.peek_stop hb hp1 with h1 | h1 <;> rw [h1] <;> rfl
        simp only [hne, Bool.false_eq_true, if_false]
        rw [w0.back_next hp0 (by decide)]
        exact win_skipBlockComment hb n m s0 t0 s' w0 (by omega) h

theorem win_twoChar {a b : Array Char} {L : Nat} (hb : Stop b) (s t : S) (w : Win a b L s t) (c : Char)
    (alts : List (Char × String)) (hc : s.peek = some c) (hn : c ≠ '\n') (hal : alts.lookup '\n' = none) :
    (twoChar t c alts).1 = (twoChar s c alts).1 ∧ Win a b L (twoChar s c alts).2 (twoChar t c alts).2 := by
  have wn := w.next hc
  unfold twoChar
  simp only
  cases hp : s.next.peek with
  | some d =>
    rw [wn.peek_some hp]
    simp only
    cases hl : alts.lookup d with
    | some o => exact ⟨rfl, wn.next hp⟩
    | none =>
      simp only [next_back hc hn, w.back_next hc hn]
      exact ⟨trivial, wn⟩
  | none =>
    rcases wn.peek_stop hb hp with h1 | h1
    · rw [h1]; simp only [next_back hc hn, w.back_next hc hn]; exact ⟨trivial, wn⟩
    · rw [h1]; simp only [hal, next_back hc hn, w.back_next hc hn]; exact ⟨trivial, wn⟩

theorem twoChar_ne_eof (s : S) (c : Char) (alts : List (Char × String)) : (twoChar s c alts).1 ≠ .eof := by
  unfold twoChar
  simp only
  split
  · split <;> simp
  · simp

/-- the token as seen through the window: same kind and literal, line shifted -/
def shiftTok (L : Nat) (tok : Token) : Token := ⟨tok.tok, ⟨tok.pos.line + L, tok.pos.col⟩⟩

/-- what the scan outside the window returns where the scan inside returned `tok`: the same token
(line shifted), except that the end of the inner text is a newline token when a newline follows -/
def expectTok (L : Nat) (b0 : Option Char) (tok : Token) : Token :=
  if tok.tok = .eof ∧ b0 = some '\n' then ⟨.ch '\n', ⟨tok.pos.line + L, tok.pos.col⟩⟩ else shiftTok L tok

def expectState (b0 : Option Char) (tok : Token) (t' : S) : S :=
  if tok.tok = .eof ∧ b0 = some '\n' then t'.next else t'

theorem win_scan {a b : Array Char} {L : Nat} (hb : Stop b) :
    ∀ (n m : Nat) (s0 t0 : S), Win a b L s0 t0 → Inv s0 → rem s0 < n → n ≤ m → ∀ (tok : Token) (s' : S),
      scan n s0 = .ok (tok, s') →
      ∃ t', Win a b L s' t' ∧ (tok.tok = .eof → s'.peek = none ∧ tok.pos = s'.pos) ∧
        scan m t0 = .ok (expectTok L b[0]? tok, expectState b[0]? tok t')
  | 0, _, _, _, _, _, h, _, _, _, _ => absurd h (Nat.not_lt_zero _)
  | n + 1, 0, _, _, _, _, _, hnm, _, _, _ => absurd hnm (by omega)
  | n + 1, m + 1, s0, t0, w0, hi0, hr0, hnm, tok, s', h => by
    unfold scan at h ⊢
    dsimp only at h ⊢
    have hfs := skipWhile_fwd isBlank (s0.src.size + 1) s0 hi0
    have w := win_skipWhile (a := a) (b := b) (L := L) isBlank (by decide) hb (s0.src.size + 1) (t0.src.size + 1) s0 t0 w0
      (by unfold rem; omega) w0.rem_lt
    generalize skipWhile isBlank (s0.src.size + 1) s0 = s at hfs w h ⊢
    generalize skipWhile isBlank (t0.src.size + 1) t0 = t at w h ⊢
    have hi := hfs.inv
    have hsrc := hfs.src
    have hpos : t.pos = ⟨s.pos.line + L, s.pos.col⟩ := w.pos hi.head_le
    have hrs : rem s < n + 1 := by have := hfs.rem_le; omega
    have again : ∀ (s2 t2 : S), Win a b L s2 t2 → Fwd s s2 → s.offset < s2.offset →
        scan n s2 = .ok (tok, s') →
        ∃ t', Win a b L s' t' ∧ (tok.tok = .eof → s'.peek = none ∧ tok.pos = s'.pos) ∧
          scan m t2 = .ok (expectTok L b[0]? tok, expectState b[0]? tok t') := by
      intro s2 t2 w2 hf hlt h2
      have hrem : rem s2 < n := by
        have e := hf.src; have := hf.inv.le
        simp only [rem, e] at *; omega
      exact win_scan hb n m s2 t2 w2 hf.inv hrem (by omega) tok s' h2
    cases hch : s.peek with
    | none =>
      rw [hch] at h
      simp only [Except.ok.injEq, Prod.mk.injEq] at h
      obtain ⟨rfl, rfl⟩ := h
      refine ⟨t, w, fun _ => ⟨hch, rfl⟩, ?_⟩
      rw [w.peek_none hch]
      rcases hb with hb0 | hb0
      · rw [hb0]; simp [expectTok, expectState, shiftTok, hpos]
      · rw [hb0]; simp [expectTok, expectState, hpos, isLetter, isDigit]
    | some ch =>
      rw [hch] at h
      rw [w.peek_some hch]
      simp only at h ⊢
      have wn := w.next hch
      obtain ⟨hnf, hnlt⟩ := Fwd.next_lt hi hch
      by_cases hl : isLetter ch = true
      · rw [if_pos hl] at h ⊢
        have tw := win_takeWhile (fun c => isLetter c || isDigit c) (by decide) hb (s.src.size + 1) (t.src.size + 1) s t [] w
          (by unfold rem; omega) w.rem_lt
        simp only [Except.ok.injEq, Prod.mk.injEq] at h
        obtain ⟨rfl, rfl⟩ := h
        have hne : (if keywords.contains (String.ofList (takeWhile (fun c => isLetter c || isDigit c) (s.src.size + 1) s []).1) = true
            then Tok.kw (String.ofList (takeWhile (fun c => isLetter c || isDigit c) (s.src.size + 1) s []).1)
            else Tok.ident (String.ofList (takeWhile (fun c => isLetter c || isDigit c) (s.src.size + 1) s []).1)) ≠ Tok.eof := by
          split <;> simp
        exact ⟨_, tw.2, fun he => absurd he hne, by simp only [expectTok, expectState, hne, false_and, if_false, shiftTok, tw.1, hpos]⟩
      rw [if_neg hl] at h ⊢
      by_cases hd : isDigit ch = true
      · rw [if_pos hd] at h ⊢
        cases hr : scanNumber s with
        | error e => rw [hr] at h; cases h
        | ok r =>
          obtain ⟨lit, s1⟩ := r
          rw [hr] at h
          obtain ⟨t1, ht1, w1⟩ := win_scanNumber hb s t w lit s1 hr
          rw [ht1]
          simp only [Except.ok.injEq, Prod.mk.injEq] at h
          obtain ⟨rfl, rfl⟩ := h
          exact ⟨t1, w1, fun he => by simp at he, by simp [expectTok, expectState, shiftTok, hpos]⟩
      rw [if_neg hd] at h ⊢
      by_cases hq : (ch == '"' || ch == '\'') = true
      · rw [if_pos hq] at h ⊢
        cases hr : scanStr ch (s.src.size + 1) s [] with
        | error e => rw [hr] at h; cases h
        | ok r =>
          obtain ⟨cs, s1⟩ := r
          rw [hr] at h
          obtain ⟨t1, ht1, w1⟩ := win_scanStr ch (s.src.size + 1) (t.src.size + 1) s t [] cs s1 w (by have := w.size_le; omega) hr
          rw [ht1]
          simp only [Except.ok.injEq, Prod.mk.injEq] at h
          obtain ⟨rfl, rfl⟩ := h
          exact ⟨t1, w1, fun he => by simp at he, by simp [expectTok, expectState, shiftTok, hpos]⟩
      rw [if_neg hq] at h ⊢
      by_cases hbq : (ch == '`') = true
      · rw [if_pos hbq] at h ⊢
        cases hr : scanRaw '`' (s.src.size + 1) s [] with
        | error e => rw [hr] at h; cases h
        | ok r =>
          obtain ⟨cs, s1⟩ := r
          rw [hr] at h
          obtain ⟨t1, ht1, w1⟩ := win_scanRaw' '`' (s.src.size + 1) (t.src.size + 1) s t [] cs s1 w (by have := w.size_le; omega) hr
          rw [ht1]
          simp only [Except.ok.injEq, Prod.mk.injEq] at h
          obtain ⟨rfl, rfl⟩ := h
          exact ⟨t1, w1, fun he => by simp at he, by simp [expectTok, expectState, shiftTok, hpos]⟩
      rw [if_neg hbq] at h ⊢
      have hsw1 : ∀ (s1 t1 : S), Win a b L s1 t1 → Fwd s s1 →
          Win a b L (skipWhile (fun c => c != '\n') (s.src.size + 1) s1) (skipWhile (fun c => c != '\n') (t.src.size + 1) t1) := by
        intro s1 t1 w1 hf1
        have e1 : t1.src = t.src := by rw [w1.src, w.src, hf1.src]
        have := w1.rem_lt
        rw [e1] at this
        exact win_skipWhile (fun c => c != '\n') (by decide) hb (s.src.size + 1) (t.src.size + 1) s1 t1 w1
          (by have e := hf1.src; unfold rem; rw [e]; omega) this
      by_cases hh : (ch == '#') = true
      · rw [if_pos hh] at h ⊢
        have hfw := skipWhile_fwd (fun c => c != '\n') (s.src.size + 1) s hi
        have h2 : s.offset < (skipWhile (fun c => c != '\n') (s.src.size + 1) s).offset := by
          have hch' : ch = '#' := by simpa using hh
          unfold skipWhile
          have : peekIs s (fun c => c != '\n') = true := by simp [peekIs, hch, hch']
          simp only [this, if_true]
          have := (skipWhile_fwd (fun c => c != '\n') s.src.size s.next hi.next).le
          omega
        exact again _ _ (hsw1 s t w (Fwd.refl hi)) hfw h2 h
      rw [if_neg hh] at h ⊢
      by_cases hx : (ch == '!') = true
      · rw [if_pos hx] at h ⊢
        have hne : ch ≠ '\n' := by intro hh; rw [hh] at hx; exact absurd hx (by decide)
        have tw := win_twoChar hb s t w ch [('=', "!=")] hch hne (by decide)
        simp only [Except.ok.injEq, Prod.mk.injEq] at h
        obtain ⟨rfl, rfl⟩ := h
        exact ⟨_, tw.2, fun he => absurd he (twoChar_ne_eof _ _ _), by
          simp only [expectTok, expectState, twoChar_ne_eof, false_and, if_false, shiftTok, tw.1, hpos]⟩
      rw [if_neg hx] at h ⊢
      clear hx
      have pk : ∀ (c : Char), c ≠ '\n' → (t.next.peek == some c) = (s.next.peek == some c) := by
        intro c hc
        cases hp : s.next.peek with
        | some d => rw [wn.peek_some hp]
        | none =>
          rcases wn.peek_stop hb hp with h1 | h1 <;> rw [h1] <;> simp
          exact fun hh => hc hh.symm
      have single : ∀ (k : Tok), k ≠ .eof → ch ≠ '\n' → (.ok (⟨k, s.pos⟩, s.next.back.next) : Except (LexErr × Pos) (Token × S)) = .ok (tok, s') →
          ∃ t', Win a b L s' t' ∧ (tok.tok = .eof → s'.peek = none ∧ tok.pos = s'.pos) ∧
            (.ok (⟨k, t.pos⟩, t.next.back.next) : Except (LexErr × Pos) (Token × S)) = .ok (expectTok L b[0]? tok, expectState b[0]? tok t') := by
        intro k hk hne h2
        rw [next_back hch hne] at h2
        rw [w.back_next hch hne]
        simp only [Except.ok.injEq, Prod.mk.injEq] at h2
        obtain ⟨rfl, rfl⟩ := h2
        exact ⟨_, wn, fun he => absurd he hk, by simp [expectTok, expectState, shiftTok, hpos, hk]⟩
      by_cases hx : (ch == '=') = true
      · rw [if_pos hx] at h ⊢
        have hne : ch ≠ '\n' := by intro hh; rw [hh] at hx; exact absurd hx (by decide)
        rw [pk '=' (by decide), pk ' ' (by decide)]
        by_cases he : (s.next.peek == some '=') = true
        · rw [if_pos he] at h ⊢
          have hp : s.next.peek = some '=' := by simpa using he
          simp only [Except.ok.injEq, Prod.mk.injEq] at h
          obtain ⟨rfl, rfl⟩ := h
          exact ⟨_, wn.next hp, fun he => by simp at he, by simp [expectTok, expectState, shiftTok, hpos]⟩
        rw [if_neg he] at h ⊢
        by_cases hsp : (s.next.peek == some ' ') = true
        · have hp : s.next.peek = some ' ' := by simpa using hsp
          have hlt1 := peek_some_lt hp
          rw [wn.peekPlus hb 1 '<' (by decide) (by omega)]
          by_cases hl1 : (s.next.peekPlus 1 == some '<') = true
          · have hlt2 : s.next.offset + 1 < s.next.src.size := by
              have : s.next.peekPlus 1 = some '<' := by simpa using hl1
              unfold S.peekPlus at this
              rcases Nat.lt_or_ge (s.next.offset + 1) s.next.src.size with hh | hh
              · exact hh
              · rw [Array.getElem?_eq_none hh] at this; cases this
            rw [wn.peekPlus hb 2 '-' (by decide) (by omega)]
            by_cases hl2 : (s.next.peekPlus 2 == some '-') = true
            · simp only [hsp, hl1, hl2, Bool.and_self, if_true] at h ⊢
              have hp1 : s.next.next.peek = some '<' := by
                have e : s.next.next.peek = s.next.peekPlus 1 := by
                  have hlt1' : s.next.offset < s.src.size := by simpa using hlt1
                  unfold S.peek S.peekPlus
                  rw [next_offset s.next]; simp [hlt1']
                rw [e]; simpa using hl1
              have hp2 : s.next.next.next.peek = some '-' := by
                have e : s.next.next.next.peek = s.next.peekPlus 2 := by
                  have hlt1' : s.next.offset < s.src.size := by simpa using hlt1
                  have hlt2' : s.next.offset + 1 < s.src.size := by simpa using hlt2
                  unfold S.peek S.peekPlus
                  rw [next_offset s.next.next, next_offset s.next]
                  simp [hlt1', hlt2']
                rw [e]; simpa using hl2
              simp only [Except.ok.injEq, Prod.mk.injEq] at h
              obtain ⟨rfl, rfl⟩ := h
              exact ⟨_, ((wn.next hp).next hp1).next hp2, fun he => by simp at he, by simp [expectTok, expectState, shiftTok, hpos]⟩
            · simp only [hsp, hl1, hl2, Bool.and_false, Bool.false_eq_true, if_false] at h ⊢
              exact single _ (by simp) hne h
          · simp only [hsp, hl1, Bool.and_false, Bool.false_and, Bool.false_eq_true, if_false] at h ⊢
            exact single _ (by simp) hne h
        · simp only [hsp, Bool.false_and, Bool.false_eq_true, if_false] at h ⊢
          exact single _ (by simp) hne h
      rw [if_neg hx] at h ⊢
      clear hx
      by_cases hx : (ch == '?') = true
      · rw [if_pos hx] at h ⊢
        have hne : ch ≠ '\n' := by intro hh; rw [hh] at hx; exact absurd hx (by decide)
        have tw := win_twoChar hb s t w ch [('?', "??")] hch hne (by decide)
        simp only [Except.ok.injEq, Prod.mk.injEq] at h
        obtain ⟨rfl, rfl⟩ := h
        exact ⟨_, tw.2, fun he => absurd he (twoChar_ne_eof _ _ _), by
          simp only [expectTok, expectState, twoChar_ne_eof, false_and, if_false, shiftTok, tw.1, hpos]⟩
      rw [if_neg hx] at h ⊢
      clear hx
      by_cases hx : (ch == '+') = true
      · rw [if_pos hx] at h ⊢
        have hne : ch ≠ '\n' := by intro hh; rw [hh] at hx; exact absurd hx (by decide)
        have tw := win_twoChar hb s t w ch [('+', "++"), ('=', "+=")] hch hne (by decide)
        simp only [Except.ok.injEq, Prod.mk.injEq] at h
        obtain ⟨rfl, rfl⟩ := h
        exact ⟨_, tw.2, fun he => absurd he (twoChar_ne_eof _ _ _), by
          simp only [expectTok, expectState, twoChar_ne_eof, false_and, if_false, shiftTok, tw.1, hpos]⟩
      rw [if_neg hx] at h ⊢
      clear hx
      by_cases hx : (ch == '-') = true
      · rw [if_pos hx] at h ⊢
        have hne : ch ≠ '\n' := by intro hh; rw [hh] at hx; exact absurd hx (by decide)
        have tw := win_twoChar hb s t w ch [('-', "--"), ('=', "-=")] hch hne (by decide)
        simp only [Except.ok.injEq, Prod.mk.injEq] at h
        obtain ⟨rfl, rfl⟩ := h
        exact ⟨_, tw.2, fun he => absurd he (twoChar_ne_eof _ _ _), by
          simp only [expectTok, expectState, twoChar_ne_eof, false_and, if_false, shiftTok, tw.1, hpos]⟩
      rw [if_neg hx] at h ⊢
      clear hx
      by_cases hx : (ch == '*') = true
      · rw [if_pos hx] at h ⊢
        have hne : ch ≠ '\n' := by intro hh; rw [hh] at hx; exact absurd hx (by decide)
        have tw := win_twoChar hb s t w ch [('=', "*=")] hch hne (by decide)
        simp only [Except.ok.injEq, Prod.mk.injEq] at h
        obtain ⟨rfl, rfl⟩ := h
        exact ⟨_, tw.2, fun he => absurd he (twoChar_ne_eof _ _ _), by
          simp only [expectTok, expectState, twoChar_ne_eof, false_and, if_false, shiftTok, tw.1, hpos]⟩
      rw [if_neg hx] at h ⊢
      clear hx
      by_cases hx : (ch == '/') = true
      · rw [if_pos hx] at h ⊢
        have hne : ch ≠ '\n' := by intro hh; rw [hh] at hx; exact absurd hx (by decide)
        rw [pk '=' (by decide), pk '/' (by decide), pk '*' (by decide)]
        by_cases he : (s.next.peek == some '=') = true
        · rw [if_pos he] at h ⊢
          have hp : s.next.peek = some '=' := by simpa using he
          simp only [Except.ok.injEq, Prod.mk.injEq] at h
          obtain ⟨rfl, rfl⟩ := h
          exact ⟨_, wn.next hp, fun he => by simp at he, by simp [expectTok, expectState, shiftTok, hpos]⟩
        rw [if_neg he] at h ⊢
        by_cases hsl : (s.next.peek == some '/') = true
        · rw [if_pos hsl] at h ⊢
          have hfw := skipWhile_fwd (fun c => c != '\n') (s.src.size + 1) s.next hi.next
          exact again _ _ (hsw1 s.next t.next wn hnf) (hnf.trans hfw) (by have := hfw.le; omega) h
        rw [if_neg hsl] at h ⊢
        by_cases hst : (s.next.peek == some '*') = true
        · rw [if_pos hst] at h ⊢
          cases hr : skipBlockComment (s.src.size + 1) s.next with
          | error e => rw [hr] at h; cases h
          | ok s2 =>
            rw [hr] at h
            obtain ⟨t2, ht2, w2⟩ := win_skipBlockComment hb (s.src.size + 1) (t.src.size + 1) s.next t.next s2 wn (by have := w.size_le; omega) hr
            rw [ht2]
            simp only at h ⊢
            have g := skipBlockComment_post (s.src.size + 1) s.next hi.next (by have := rem_next_le s; unfold rem at *; omega)
            rw [hr] at g
            exact again _ _ w2 (hnf.trans g.1) (by have := g.2; omega) h
        rw [if_neg hst] at h ⊢
        exact single _ (by simp) hne h
      rw [if_neg hx] at h ⊢
      clear hx
      by_cases hx : (ch == '>') = true
      · rw [if_pos hx] at h ⊢
        have hne : ch ≠ '\n' := by intro hh; rw [hh] at hx; exact absurd hx (by decide)
        have tw := win_twoChar hb s t w ch [('=', ">="), ('>', ">>")] hch hne (by decide)
        simp only [Except.ok.injEq, Prod.mk.injEq] at h
        obtain ⟨rfl, rfl⟩ := h
        exact ⟨_, tw.2, fun he => absurd he (twoChar_ne_eof _ _ _), by
          simp only [expectTok, expectState, twoChar_ne_eof, false_and, if_false, shiftTok, tw.1, hpos]⟩
      rw [if_neg hx] at h ⊢
      clear hx
      by_cases hx : (ch == '<') = true
      · rw [if_pos hx] at h ⊢
        have hne : ch ≠ '\n' := by intro hh; rw [hh] at hx; exact absurd hx (by decide)
        have tw := win_twoChar hb s t w ch [('-', "<-"), ('=', "<="), ('<', "<<")] hch hne (by decide)
        simp only [Except.ok.injEq, Prod.mk.injEq] at h
        obtain ⟨rfl, rfl⟩ := h
        exact ⟨_, tw.2, fun he => absurd he (twoChar_ne_eof _ _ _), by
          simp only [expectTok, expectState, twoChar_ne_eof, false_and, if_false, shiftTok, tw.1, hpos]⟩
      rw [if_neg hx] at h ⊢
      clear hx
      by_cases hx : (ch == '|') = true
      · rw [if_pos hx] at h ⊢
        have hne : ch ≠ '\n' := by intro hh; rw [hh] at hx; exact absurd hx (by decide)
        have tw := win_twoChar hb s t w ch [('|', "||"), ('=', "|=")] hch hne (by decide)
        simp only [Except.ok.injEq, Prod.mk.injEq] at h
        obtain ⟨rfl, rfl⟩ := h
        exact ⟨_, tw.2, fun he => absurd he (twoChar_ne_eof _ _ _), by
          simp only [expectTok, expectState, twoChar_ne_eof, false_and, if_false, shiftTok, tw.1, hpos]⟩
      rw [if_neg hx] at h ⊢
      clear hx
      by_cases hx : (ch == '&') = true
      · rw [if_pos hx] at h ⊢
        have hne : ch ≠ '\n' := by intro hh; rw [hh] at hx; exact absurd hx (by decide)
        have tw := win_twoChar hb s t w ch [('&', "&&"), ('=', "&=")] hch hne (by decide)
        simp only [Except.ok.injEq, Prod.mk.injEq] at h
        obtain ⟨rfl, rfl⟩ := h
        exact ⟨_, tw.2, fun he => absurd he (twoChar_ne_eof _ _ _), by
          simp only [expectTok, expectState, twoChar_ne_eof, false_and, if_false, shiftTok, tw.1, hpos]⟩
      rw [if_neg hx] at h ⊢
      clear hx
      by_cases hx : (ch == '.') = true
      · rw [if_pos hx] at h ⊢
        have hne : ch ≠ '\n' := by intro hh; rw [hh] at hx; exact absurd hx (by decide)
        rw [pk '.' (by decide)]
        by_cases hd1 : (s.next.peek == some '.') = true
        · rw [if_pos hd1] at h ⊢
          have hp : s.next.peek = some '.' := by simpa using hd1
          have wnn := wn.next hp
          have pk2 : (t.next.next.peek == some '.') = (s.next.next.peek == some '.') := by
            cases hp2 : s.next.next.peek with
            | some d => rw [wnn.peek_some hp2]
            | none => rcases wnn.peek_stop hb hp2 with h1 | h1 <;> rw [h1] <;> simp
          rw [pk2]
          by_cases hd2 : (s.next.next.peek == some '.') = true
          · rw [if_pos hd2] at h ⊢
            have hp2 : s.next.next.peek = some '.' := by simpa using hd2
            simp only [Except.ok.injEq, Prod.mk.injEq] at h
            obtain ⟨rfl, rfl⟩ := h
            exact ⟨_, wnn.next hp2, fun he => by simp at he, by simp [expectTok, expectState, shiftTok, hpos]⟩
          · rw [if_neg hd2] at h; cases h
        rw [if_neg hd1] at h ⊢
        exact single _ (by simp) hne h
      rw [if_neg hx] at h ⊢
      clear hx
      by_cases hs : (['\n', '(', ')', ':', ';', '%', '{', '}', '[', ']', ',', '^'].contains ch) = true
      · rw [if_pos hs] at h ⊢
        simp only [Except.ok.injEq, Prod.mk.injEq] at h
        obtain ⟨rfl, rfl⟩ := h
        exact ⟨_, wn, fun he => by simp at he, by simp [expectTok, expectState, shiftTok, hpos]⟩
      · rw [if_neg hs] at h; cases h

/-! ### whole token streams -/

theorem lexAll_acc : ∀ (n : Nat) (s : S) (acc : List Token),
    lexAll n s acc = (acc.reverse ++ (lexAll n s []).1, (lexAll n s []).2)
  | 0, s, acc => by simp [lexAll]
  | n + 1, s, acc => by
    unfold lexAll
    cases hsc : scan (s.src.size + 2) s with
    | error e => simp
    | ok r =>
      obtain ⟨t, s1⟩ := r
      simp only
      split
      · simp
      · rw [lexAll_acc n s1 (t :: acc), lexAll_acc n s1 [t]]
        simp

theorem lexAll_mono : ∀ (n k : Nat) (s : S) (acc : List Token), (lexAll n s acc).2 = none → lexAll (n + k) s acc = lexAll n s acc
  | 0, _, s, acc, h => by simp [lexAll] at h
  | n + 1, k, s, acc, h => by
    have e : n + 1 + k = (n + k) + 1 := by omega
    rw [e]
    unfold lexAll at h ⊢
    cases hsc : scan (s.src.size + 2) s with
    | error e => first | (rw [hsc] at h; simp at h) | simp_all
    | ok r =>
      obtain ⟨t, s1⟩ := r
      rw [hsc] at h
      simp only at h ⊢
      split
      · rfl
      · next hne =>
        rw [if_neg hne] at h
        exact lexAll_mono n k s1 (t :: acc) h

/-- a successful token stream is no longer than the text allows: every token but the last consumes a rune -/
theorem lexAll_length : ∀ (n : Nat) (s : S), Inv s → (lexAll n s []).2 = none → (lexAll n s []).1.length ≤ rem s + 1
  | 0, s, _, h => by simp [lexAll] at h
  | n + 1, s, hi, h => by
    unfold lexAll at h ⊢
    have hp := scan_post (s.src.size + 2) s hi (by unfold rem; omega)
    cases hsc : scan (s.src.size + 2) s with
    | error e => first | (rw [hsc] at h; simp at h) | simp_all
    | ok r =>
      obtain ⟨t, s1⟩ := r
      rw [hsc] at h hp
      simp only at h ⊢
      split
      · simp
      · next hne =>
        rw [if_neg hne] at h
        rw [lexAll_acc n s1 [t]] at h ⊢
        obtain ⟨hf, hprog, _⟩ := hp
        have hlt := hprog (by simpa using hne)
        have ih := lexAll_length n s1 hf.inv (by simpa using h)
        have : rem s1 + 1 ≤ rem s := by
          have e := hf.src; have := hf.inv.le
          simp only [rem, e] at *; omega
        simp; omega

/-- the text embedded after a prefix (nothing follows): the same tokens, lines shifted -/
theorem win_lexAll_embedded {a : Array Char} {L : Nat} : ∀ (n : Nat) (s t : S), Win a #[] L s t → Inv s →
    (lexAll n s []).2 = none → lexAll n t [] = ((lexAll n s []).1.map (shiftTok L), none)
  | 0, s, _, _, _, h => by simp [lexAll] at h
  | n + 1, s, t, w, hi, h => by
    unfold lexAll at h ⊢
    cases hsc : scan (s.src.size + 2) s with
    | error e => first | (rw [hsc] at h; simp at h) | simp_all
    | ok r =>
      obtain ⟨tok, s1⟩ := r
      rw [hsc] at h
      obtain ⟨t1, w1, _, ht⟩ := win_scan (a := a) (b := #[]) (L := L) (Or.inl rfl) (s.src.size + 2) (t.src.size + 2) s t w hi
        (by unfold rem; omega) (by have := w.size_le; omega) tok s1 hsc
      have hp := scan_post (s.src.size + 2) s hi (by unfold rem; omega)
      rw [hsc] at hp
      simp only [expectTok, expectState, show (#[] : Array Char)[0]? = none from rfl, reduceCtorEq, and_false, if_false] at ht
      rw [ht]
      simp only at h ⊢
      have hk : (shiftTok L tok).tok = tok.tok := rfl
      rw [hk]
      split
      · simp
      · next hne =>
        rw [if_neg hne] at h
        rw [lexAll_acc n s1 [tok]] at h ⊢
        rw [lexAll_acc n t1 [shiftTok L tok]]
        have ih := win_lexAll_embedded n s1 t1 w1 hp.1.inv (by simpa using h)
        rw [ih]
        simp

theorem shiftTok_zero (tok : Token) : shiftTok 0 tok = tok := by
  cases tok; simp [shiftTok]

/-- the text followed by a newline and more: the same tokens up to the end of the text, then the
newline token where EOF was, then whatever the rest gives -/
theorem win_lexAll_prefix {b : Array Char} (hb0 : b[0]? = some '\n') : ∀ (n : Nat) (s t : S), Win #[] b 0 s t → Inv s →
    (lexAll n s []).2 = none →
    ∃ (front : List Token) (s' t' : S), (lexAll n s []).1 = front ++ [⟨.eof, s'.pos⟩] ∧ Win #[] b 0 s' t' ∧ s'.peek = none ∧ Inv s' ∧ s'.src = s.src ∧
      ∀ k, lexAll (n + k) t [] =
        (front ++ [⟨.ch '\n', s'.pos⟩] ++ (lexAll (n + k - (front.length + 1)) t'.next []).1,
         (lexAll (n + k - (front.length + 1)) t'.next []).2)
  | 0, s, _, _, _, h => by simp [lexAll] at h
  | n + 1, s, t, w, hi, h => by
    unfold lexAll at h
    cases hsc : scan (s.src.size + 2) s with
    | error e => first | (rw [hsc] at h; simp at h) | simp_all
    | ok r =>
      obtain ⟨tok, s1⟩ := r
      rw [hsc] at h
      obtain ⟨t1, w1, heof, ht⟩ := win_scan (a := #[]) (b := b) (L := 0) (Or.inr hb0) (s.src.size + 2) (t.src.size + 2) s t w hi
        (by unfold rem; omega) (by have := w.size_le; omega) tok s1 hsc
      have hp := scan_post (s.src.size + 2) s hi (by unfold rem; omega)
      rw [hsc] at hp
      simp only at h
      by_cases he : tok.tok = .eof
      · obtain ⟨hpk, hpp⟩ := heof he
        refine ⟨[], s1, t1, ?_, w1, hpk, hp.1.inv, hp.1.src, ?_⟩
        · unfold lexAll
          rw [hsc]
          have : (tok.tok == Tok.eof) = true := by simpa using he
          simp only [this, if_true]
          cases tok
          simp_all
        · intro k
          have e : n + 1 + k = (n + k) + 1 := by omega
          rw [e, lexAll]
          rw [ht]
          simp only [expectTok, expectState, he, hb0, and_self, if_true]
          have : ((Tok.ch '\n') == Tok.eof) = false := by decide
          simp only [this, Bool.false_eq_true, if_false]
          rw [lexAll_acc]
          simp [hpp]
      · have hne : (tok.tok == Tok.eof) = false := by simpa using he
        rw [hne] at h
        simp only [Bool.false_eq_true, if_false] at h
        rw [lexAll_acc n s1 [tok]] at h
        obtain ⟨front, s', t', hfront, w', hpk, hi', hsrc', hk⟩ := win_lexAll_prefix hb0 n s1 t1 w1 hp.1.inv (by simpa using h)
        refine ⟨tok :: front, s', t', ?_, w', hpk, hi', hsrc'.trans hp.1.src, ?_⟩
        · unfold lexAll
          rw [hsc]
          simp only [hne, Bool.false_eq_true, if_false]
          rw [lexAll_acc n s1 [tok], hfront]
          simp
        · intro k
          have e : n + 1 + k = (n + k) + 1 := by omega
          rw [e, lexAll]
          rw [ht]
          simp only [expectTok, expectState, he, false_and, if_false, shiftTok_zero, hne, Bool.false_eq_true]
          rw [lexAll_acc (n + k) t1 [tok], hk k]
          have : n + k + 1 - ((tok :: front).length + 1) = n + k - (front.length + 1) := by simp
          rw [this]
          simp

end Anko.Scan
