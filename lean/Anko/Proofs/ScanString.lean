/-
String literals: the scanner reads the escaped spelling of ANY character sequence back to exactly
that sequence (C03 / C15).  `escape` writes `"` `\` newline, tab, CR, BS and FF with a backslash and
everything else as itself - the spelling the lexer's scanString undoes.
-/
import Anko.Model.Scanner

namespace Anko.Scan

/-- the text from the cursor on -/
def S.rest (s : S) : List Char := s.src.toList.drop s.offset

theorem peek_eq_head (s : S) : s.peek = s.rest.head? := by
  unfold S.peek S.rest
  rw [List.head?_drop]
  simp

theorem next_rest (s : S) : s.next.rest = s.rest.tail := by
  unfold S.next S.reachEOF S.rest
  by_cases h : s.src.size ≤ s.offset
  · have : List.drop s.offset s.src.toList = [] := by
      apply List.drop_eq_nil_of_le; simpa using h
    simp [h, this]
  · simp only [h, decide_false, Bool.false_eq_true, if_false]
    split <;> simp [List.tail_drop]

theorem next_src (s : S) : s.next.src = s.src := by
  unfold S.next
  split
  · rfl
  · split <;> rfl

/-- how one character is written inside a quoted literal -/
def escChar (c : Char) : List Char :=
  if c = '"' then ['\\', '"']
  else if c = '\\' then ['\\', '\\']
  else if c = '\n' then ['\\', 'n']
  else if c = '\t' then ['\\', 't']
  else if c = '\r' then ['\\', 'r']
  else if c = '\x08' then ['\\', 'b']
  else if c = '\x0c' then ['\\', 'f']
  else [c]

def escape : List Char → List Char
  | [] => []
  | c :: cs => escChar c ++ escape cs

theorem scanStr_escape : ∀ (cs : List Char) (acc : List Char) (s : S) (c0 : Char) (post : List Char) (fuel : Nat),
    s.rest = c0 :: (escape cs ++ '"' :: post) → cs.length < fuel →
    ∃ s', scanStr '"' fuel s acc = .ok (acc.reverse ++ cs, s') ∧ s'.rest = post ∧ s'.src = s.src := by
  intro cs
  induction cs with
  | nil =>
    intro acc s c0 post fuel hr hf
    obtain ⟨n, rfl⟩ : ∃ n, fuel = n + 1 := ⟨fuel - 1, by omega⟩
    have h1 : s.next.rest = '"' :: post := by rw [next_rest, hr]; rfl
    have hp : s.next.peek = some '"' := by rw [peek_eq_head, h1]; rfl
    refine ⟨s.next.next, ?_, ?_, ?_⟩
    · simp [scanStr, hp]
    · rw [next_rest, h1]; rfl
    · rw [next_src, next_src]
  | cons x xs ih =>
    intro acc s c0 post fuel hr hf
    obtain ⟨n, rfl⟩ : ∃ n, fuel = n + 1 := ⟨fuel - 1, by omega⟩
    have hlen : xs.length < n := by simp at hf; omega
    have h1 : s.next.rest = escChar x ++ (escape xs ++ '"' :: post) := by
      rw [next_rest, hr]; simp [escape]
    -- an escaped character: backslash, then the letter
    have esc2 : ∀ (d r : Char), escChar x = ['\\', d] →
        (s.next.peek = some '\\' → s.next.next.peek = some d → scanStr '"' (n + 1) s acc = scanStr '"' n s.next.next (r :: acc)) →
        r = x →
        ∃ s', scanStr '"' (n + 1) s acc = .ok (acc.reverse ++ x :: xs, s') ∧ s'.rest = post ∧ s'.src = s.src := by
      intro d r hx hm hrx
      rw [hx] at h1
      have hp1 : s.next.peek = some '\\' := by rw [peek_eq_head, h1]; rfl
      have h2 : s.next.next.rest = d :: (escape xs ++ '"' :: post) := by rw [next_rest, h1]; rfl
      have hp2 : s.next.next.peek = some d := by rw [peek_eq_head, h2]; rfl
      obtain ⟨s', e1, e2, e3⟩ := ih (r :: acc) s.next.next d post n h2 hlen
      refine ⟨s', ?_, e2, by rw [e3, next_src, next_src]⟩
      rw [hm hp1 hp2, e1, ← hrx]
      simp
    unfold escChar at esc2 h1
    by_cases c1 : x = '"'
    · subst c1; exact esc2 '"' '"' (by simp) (by intro hp1 hp2; rw [scanStr]; simp [hp1, hp2]) rfl
    by_cases c2 : x = '\\'
    · subst c2; exact esc2 '\\' '\\' (by simp) (by intro hp1 hp2; rw [scanStr]; simp [hp1, hp2]) rfl
    by_cases c3 : x = '\n'
    · subst c3; exact esc2 'n' '\n' (by simp) (by intro hp1 hp2; rw [scanStr]; simp [hp1, hp2]) rfl
    by_cases c4 : x = '\t'
    · subst c4; exact esc2 't' '\t' (by simp) (by intro hp1 hp2; rw [scanStr]; simp [hp1, hp2]) rfl
    by_cases c5 : x = '\r'
    · subst c5; exact esc2 'r' '\r' (by simp) (by intro hp1 hp2; rw [scanStr]; simp [hp1, hp2]) rfl
    by_cases c6 : x = '\x08'
    · subst c6; exact esc2 'b' '\x08' (by simp) (by intro hp1 hp2; rw [scanStr]; simp [hp1, hp2]) rfl
    by_cases c7 : x = '\x0c'
    · subst c7; exact esc2 'f' '\x0c' (by simp) (by intro hp1 hp2; rw [scanStr]; simp [hp1, hp2]) rfl
    -- an ordinary character
    simp only [c1, c2, c3, c4, c5, c6, c7, if_false] at h1
    have hp1 : s.next.peek = some x := by rw [peek_eq_head, h1]; rfl
    have h1' : s.next.rest = x :: (escape xs ++ '"' :: post) := by simpa using h1
    obtain ⟨s', e1, e2, e3⟩ := ih (x :: acc) s.next x post n h1' hlen
    refine ⟨s', ?_, e2, by rw [e3, next_src]⟩
    rw [scanStr]
    simp only [hp1]
    have b1 : (x == '\n') = false := by simpa using c3
    have b2 : (x == '"') = false := by simpa using c1
    have b3 : (x == '\\') = false := by simpa using c2
    simp only [b1, b2, b3, Bool.false_eq_true, if_false]
    rw [e1]
    simp

theorem escChar_length (c : Char) : 1 ≤ (escChar c).length := by
  unfold escChar; repeat' split
  all_goals simp
theorem escape_length : ∀ cs : List Char, cs.length ≤ (escape cs).length
  | [] => by simp [escape]
  | c :: cs => by
    have := escChar_length c
    have := escape_length cs
    simp only [escape, List.length_append, List.length_cons]; omega

theorem skipBlank_at_quote (s : S) (n : Nat) (h : s.peek = some '"') : skipWhile isBlank n s = s := by
  cases n with
  | zero => rfl
  | succ n => simp [skipWhile, peekIs, h, isBlank]

/-- One call of Scan at an opening quote followed by the escaped spelling of `cs` and a closing quote:
the string token whose text is exactly `cs`, and the cursor stands right after the closing quote. -/
theorem scan_string_literal (cs post : List Char) (s : S) (n : Nat) (h : s.rest = '"' :: (escape cs ++ '"' :: post)) :
    ∃ s', scan (n + 1) s = .ok (⟨.str (String.ofList cs), s.pos⟩, s') ∧ s'.rest = post ∧ s'.src = s.src := by
  have hp : s.peek = some '"' := by rw [peek_eq_head, h]; rfl
  have hlen : cs.length < s.src.size + 1 := by
    have h1 : s.rest.length ≤ s.src.size := by unfold S.rest; simp
    have h2 : cs.length ≤ (escape cs).length := escape_length cs
    rw [h] at h1
    simp at h1
    omega
  obtain ⟨s', e1, e2, e3⟩ := scanStr_escape cs [] s '"' post (s.src.size + 1) h hlen
  refine ⟨s', ?_, e2, e3⟩
  rw [scan]
  simp only [skipBlank_at_quote s _ hp, hp]
  rw [show isLetter '"' = false from by decide, show isDigit '"' = false from by decide]
  simp [e1]

end Anko.Scan
