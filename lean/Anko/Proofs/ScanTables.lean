/-
The table-like parts of the scanner model are the ones parser/lexer.go declares: keyword table,
character classes and the operator switch are REGENERATED from the source on every run
(Gen/Lexer.lean, translated expression by expression) and proved equal to what the hand-written
model uses - for every character, not for samples.
-/
import Anko.Model.Scanner
import Anko.Gen.Lexer

namespace Anko.Scan
open Anko.Gen

theorem keywords_eq : keywords = Lexer.keywords := by decide

theorem char_le_iff (a b : Char) : a ≤ b ↔ a.toNat ≤ b.toNat := by
  rw [Char.le_def]
  exact UInt32.le_iff_toNat_le

theorem char_eq_iff (a b : Char) : a = b ↔ a.toNat = b.toNat := by
  constructor
  · intro h; rw [h]
  · intro h; exact Char.ext (UInt32.toNat_inj.mp h)

theorem char_beq_int (a b : Char) : (a == b) = ((a.toNat : Int) == (b.toNat : Int)) := by
  by_cases h : a = b
  · subst h; simp
  · have hn : a.toNat ≠ b.toNat := fun e => h ((char_eq_iff a b).mpr e)
    have h1 : (a == b) = false := by simpa using h
    have h2 : ((a.toNat : Int) == (b.toNat : Int)) = false := by
      simp only [beq_eq_false_iff_ne, ne_eq]; omega
    rw [h1, h2]

theorem isDigit_eq (c : Char) : isDigit c = Lexer.isDigit (c.toNat : Int) := by
  simp only [isDigit, Lexer.isDigit, char_le_iff]
  have h0 : ('0' : Char).toNat = 48 := by decide
  have h9 : ('9' : Char).toNat = 57 := by decide
  rw [h0, h9]
  congr 1 <;> simp <;> omega

theorem isHex_eq (c : Char) : isHex c = Lexer.isHex (c.toNat : Int) := by
  simp only [isHex, Lexer.isHex, isDigit, char_le_iff]
  have h0 : ('0' : Char).toNat = 48 := by decide
  have h9 : ('9' : Char).toNat = 57 := by decide
  have ha : ('a' : Char).toNat = 97 := by decide
  have hf : ('f' : Char).toNat = 102 := by decide
  have hA : ('A' : Char).toNat = 65 := by decide
  have hF : ('F' : Char).toNat = 70 := by decide
  rw [h0, h9, ha, hf, hA, hF]
  congr 1
  · congr 1
    · congr 1 <;> simp <;> omega
    · congr 1 <;> simp <;> omega
  · congr 1 <;> simp <;> omega

theorem isBinary_eq (c : Char) : isBinary c = Lexer.isBinary (c.toNat : Int) := by
  simp only [isBinary, Lexer.isBinary, char_beq_int]
  rfl

theorem isBlank_eq (c : Char) : isBlank c = Lexer.isBlank (c.toNat : Int) := by
  simp only [isBlank, Lexer.isBlank, char_beq_int]
  rfl

/-- end of line: the model's `none` is the lexer's EOF rune -1 -/
def runeOf : Option Char → Int
  | some c => c.toNat
  | none => -1

theorem isEOL_eq (c : Option Char) : isEOL c = Lexer.isEOL (runeOf c) := by
  cases c with
  | none => simp [isEOL, Lexer.isEOL, runeOf]
  | some c =>
    have hn : ('\n' : Char).toNat = 10 := by decide
    have hb := char_beq_int c '\n'
    rw [hn] at hb
    have hneg : (((c.toNat : Nat) : Int) == (-1 : Int)) = false := by
      simp only [beq_eq_false_iff_ne, ne_eq]; omega
    simp only [isEOL, Lexer.isEOL, runeOf]
    have e1 : (some c == some '\n') = (c == '\n') := by
      by_cases h : c = '\n'
      · subst h; simp
      · simp [h]
    rw [e1, hb, hneg]
    simp

/-- unicode.IsLetter on the ASCII range (the model is stated on ASCII sources) -/
def asciiLetter (n : Int) : Bool := (decide (65 ≤ n) && decide (n ≤ 90)) || (decide (97 ≤ n) && decide (n ≤ 122))

theorem val_ge_iff (c k : Char) : (c.val ≥ k.val) ↔ (k.toNat ≤ c.toNat) := UInt32.le_iff_toNat_le
theorem val_le_iff (c k : Char) : (c.val ≤ k.val) ↔ (c.toNat ≤ k.toNat) := UInt32.le_iff_toNat_le

theorem isLetter_eq (c : Char) : isLetter c = Lexer.isLetter asciiLetter (c.toNat : Int) := by
  have hu : ('_' : Char).toNat = 95 := by decide
  have hA : ('A' : Char).toNat = 65 := by decide
  have hZ : ('Z' : Char).toNat = 90 := by decide
  have ha : ('a' : Char).toNat = 97 := by decide
  have hz : ('z' : Char).toNat = 122 := by decide
  simp only [isLetter, Lexer.isLetter, char_beq_int, hu, Char.isAlpha, Char.isUpper, Char.isLower, asciiLetter, val_ge_iff, val_le_iff, hA, hZ, ha, hz]
  congr 1
  congr 1
  · by_cases h1 : 65 ≤ c.toNat <;> by_cases h2 : c.toNat ≤ 90 <;> simp [h1, h2] <;> omega
  · by_cases h1 : 97 ≤ c.toNat <;> by_cases h2 : c.toNat ≤ 122 <;> simp [h1, h2] <;> omega

/-! ### the operator switch -/

/-- the first characters the model hands to `twoChar`, with the alternatives it passes -/
def opTable : List (Char × List (Char × String)) := [
  ('!', [('=', "!=")]), ('?', [('?', "??")]), ('+', [('+', "++"), ('=', "+=")]), ('-', [('-', "--"), ('=', "-=")]),
  ('*', [('=', "*=")]), ('>', [('=', ">="), ('>', ">>")]), ('<', [('-', "<-"), ('=', "<="), ('<', "<<")]),
  ('|', [('|', "||"), ('=', "|=")]), ('&', [('&', "&&"), ('=', "&=")])]

/-- it is the lexer's switch without the special cases (`=` with `= <-`, `/` with the comments) ... -/
theorem opTable_eq : opTable = Lexer.twoCharOps.filter (fun e => !Lexer.specialFirstChars.contains e.1) := by decide

/-- ... whose plain alternatives, the special first characters and the single-character tokens are the model's as well -/
theorem special_cases_eq :
    Lexer.specialFirstChars = ['#', '=', '/', '.'] ∧
    Lexer.twoCharOps.lookup '=' = some [('=', "==")] ∧ Lexer.twoCharOps.lookup '/' = some [('=', "/=")] ∧
    Lexer.singleCharTokens = ['\n', '(', ')', ':', ';', '%', '{', '}', '[', ']', ',', '^'] := by decide

theorem skipWhile_stop (p : Char → Bool) (k : Nat) (s : S) (h : peekIs s p = false) : skipWhile p (k + 1) s = s := by
  simp [skipWhile, h]

/-- and the model's `scan` uses exactly that table: on a first character of the table it is `twoChar` with the table's
alternatives -/
theorem scan_uses_opTable (c : Char) (alts : List (Char × String)) (hm : (c, alts) ∈ opTable) (n : Nat) (s : S)
    (hp : s.peek = some c) :
    scan (n + 1) s = .ok (⟨(twoChar s c alts).1, s.pos⟩, (twoChar s c alts).2) := by
  have hb : peekIs s isBlank = false := by
    simp only [opTable, List.mem_cons, Prod.mk.injEq, List.mem_nil_iff, or_false] at hm
    rcases hm with ⟨rfl, _⟩ | ⟨rfl, _⟩ | ⟨rfl, _⟩ | ⟨rfl, _⟩ | ⟨rfl, _⟩ | ⟨rfl, _⟩ | ⟨rfl, _⟩ | ⟨rfl, _⟩ | ⟨rfl, _⟩ <;>
      simp [peekIs, hp, isBlank]
  simp only [opTable, List.mem_cons, Prod.mk.injEq, List.mem_nil_iff, or_false] at hm
  rcases hm with ⟨rfl, rfl⟩ | ⟨rfl, rfl⟩ | ⟨rfl, rfl⟩ | ⟨rfl, rfl⟩ | ⟨rfl, rfl⟩ | ⟨rfl, rfl⟩ | ⟨rfl, rfl⟩ | ⟨rfl, rfl⟩ | ⟨rfl, rfl⟩ <;>
    simp [scan, skipWhile_stop _ _ _ hb, hp, isLetter, isDigit, Char.isAlpha, Char.isUpper, Char.isLower]

end Anko.Scan
