/-
The run only ever extends its heap: scopes are appended and never change their parent, closures
are appended and never change, the probe trace is appended - for every model function (C04, C07).
-/
import Anko.Proofs.EvalCall

set_option linter.unusedSectionVars false
set_option linter.unusedVariables false

namespace Anko
variable [FOps] [Prov]

def St.parents (s : St) : List (Option Nat) := s.scopes.toList.map (·.parent)

/-- `r` extends `s`: scopes appended (parent links of existing scopes unchanged), closures appended
(existing closures unchanged), probe trace appended -/
def Mono (s r : St) : Prop :=
  s.parents <+: r.parents ∧ s.closures.toList <+: r.closures.toList ∧ s.trace.toList <+: r.trace.toList

theorem Mono.refl (s : St) : Mono s s := ⟨List.prefix_refl _, List.prefix_refl _, List.prefix_refl _⟩
theorem Mono.trans {a b c : St} (h1 : Mono a b) (h2 : Mono b c) : Mono a c :=
  ⟨h1.1.trans h2.1, h1.2.1.trans h2.2.1, h1.2.2.trans h2.2.2⟩

theorem mono_of_eq (s r : St) (h1 : r.scopes = s.scopes) (h2 : r.closures = s.closures) (h3 : r.trace = s.trace) : Mono s r := by
  unfold Mono St.parents; rw [h1, h2, h3]; exact ⟨List.prefix_refl _, List.prefix_refl _, List.prefix_refl _⟩

theorem mono_fail (s : St) (m : String) : Mono s (s.fail m) := mono_of_eq _ _ rfl rfl rfl
theorem mono_markUnsup (s : St) (m : String) : Mono s (s.markUnsup m) := mono_of_eq _ _ rfl rfl rfl
theorem mono_outOfFuel (s : St) : Mono s (outOfFuel s) := mono_of_eq _ _ rfl rfl rfl
theorem mono_pollst (s : St) : Mono s s.poll.2 := mono_of_eq _ _ rfl rfl rfl
theorem mono_traceVal (s : St) (v : Val) : Mono s (s.traceVal v) := by
  refine ⟨List.prefix_refl _, List.prefix_refl _, ?_⟩
  simp [St.traceVal]
theorem mono_traceAppend (s : St) (tr : List Val) : Mono s { s with trace := s.trace ++ tr.toArray } := by
  refine ⟨List.prefix_refl _, List.prefix_refl _, ?_⟩
  simp
theorem mono_traceAppend_fail (s : St) (tr : List Val) (m : String) : Mono s ({ s with trace := s.trace ++ tr.toArray }.fail m) :=
  (mono_traceAppend s tr).trans (mono_fail _ _)
theorem mono_traceAppend_rv (s : St) (tr : List Val) (rv : RV) : Mono s { s with trace := s.trace ++ tr.toArray, rv := rv } := by
  refine ⟨List.prefix_refl _, List.prefix_refl _, ?_⟩
  simp
theorem mono_newScope (s : St) (p : Nat) : Mono s (s.newScope p).2 := by
  refine ⟨?_, List.prefix_refl _, List.prefix_refl _⟩
  simp [St.newScope, St.parents]
theorem mono_addClosure (s : St) (c : Closure) : Mono s (s.addClosure c).2 := by
  refine ⟨List.prefix_refl _, ?_, List.prefix_refl _⟩
  simp [St.addClosure]
theorem mono_define (s : St) (i : Nat) (n : String) (v : RV) : Mono s (s.define i n v) := by
  unfold St.define
  split
  · refine ⟨?_, List.prefix_refl _, List.prefix_refl _⟩
    simp only [St.parents]
    have : (s.scopes.set i { s.scopes[i] with vars := St.assocSet n v s.scopes[i].vars }).toList.map (·.parent) = s.scopes.toList.map (·.parent) := by
      apply List.ext_getElem
      · simp
      · intro j h1 h2
        simp only [List.getElem_map, Array.toList_set, List.getElem_set]
        split
        · next h => subst h; simp
        · rfl
    rw [this]
    exact List.prefix_refl _
  · exact Mono.refl s
theorem mono_defineAll (l : List (String × RV)) : ∀ (s : St) (i : Nat), Mono s (s.defineAll i l) := by
  induction l with
  | nil => intro s i; exact Mono.refl s
  | cons x xs ih => intro s i; obtain ⟨n, v⟩ := x; exact (mono_define s i n v).trans (ih _ i)
theorem mono_setValue (s s' : St) (i : Nat) (n : String) (v : RV) (h : s.setValue i n v = some s') : Mono s s' := by
  unfold St.setValue at h
  split at h
  · injection h with h; subst h; exact mono_define _ _ _ _
  · cases h
theorem mono_assign (s : St) (n : String) (v : RV) : Mono s (s.assign n v) := by
  unfold St.assign
  cases h : s.setValue s.cur n v with
  | some s' => exact mono_setValue _ _ _ _ _ h
  | none => exact mono_define _ _ _ _
theorem mono_assignIn (s : St) (i : Nat) (n : String) (v : RV) : Mono s (s.assignIn i n v) := by
  unfold St.assignIn
  cases h : s.setValue i n v with
  | some s' => exact mono_setValue _ _ _ _ _ h
  | none => exact mono_of_eq _ _ rfl rfl rfl
theorem mono_opRes (s : St) (r : OpRes) : Mono s (opRes s r) := by
  cases r <;> exact mono_of_eq _ _ rfl rfl rfl
theorem mono_sliceResult (item : Val) (len : Nat) (bi ei : Int) (hc : Bool) (s : St) :
    Mono s (sliceResult item len bi ei hc s) := by
  unfold sliceResult
  repeat' split
  all_goals exact mono_of_eq _ _ rfl rfl rfl
theorem mono_convertArgs (cal : Callee) : ∀ (xs : List Val) (i : Nat) (s : St), Mono s (convertArgs cal xs i s).2 := by
  intro xs
  induction xs with
  | nil => intro i s; exact Mono.refl s
  | cons x xs ih =>
    intro i s
    simp only [convertArgs]
    split
    · have := ih (i + 1) s
      split <;> simp_all
    · split
      · exact mono_markUnsup _ _
      · split
        · exact mono_markUnsup _ _
        · exact mono_fail _ _
      · have := ih (i + 1) { s with rv := ‹RV› }
        have h0 : Mono s { s with rv := ‹RV› } := mono_of_eq _ _ rfl rfl rfl
        split <;> first | exact h0.trans (by simp_all) | simp_all
theorem mono_spreadFixed (cal : Callee) (nLead numExprs : Nat) (lead : List RV) (s2 : St) :
    Mono s2 (spreadFixed cal nLead numExprs lead s2).2 := by
  unfold spreadFixed
  split
  · split
    · exact mono_fail _ _
    · have := mono_convertArgs cal (List.take (cal.numIn - nLead) ‹List Val›) nLead s2
      split <;> simp_all
  · split
    · exact mono_markUnsup _ _
    · exact mono_fail _ _
theorem mono_spreadVariadic (lead : List RV) (s2 : St) : Mono s2 (spreadVariadic lead s2).2 := by
  unfold spreadVariadic
  repeat' split
  all_goals (first | exact Mono.refl _ | exact mono_markUnsup _ _ | exact mono_fail _ _)

structure MonoIH (n : Nat) : Prop where
  evalExpr : ∀ e s, Mono s (evalExpr n e s)
  evalList : ∀ es s, Mono s (evalList n es s).2
  evalIndexOpt : ∀ oe d s, Mono s (evalIndexOpt n oe d s).2
  evalCond : ∀ oe s, Mono s (evalCond n oe s).2
  sliceBegin : ∀ it len b e hc s, Mono s (sliceBegin n it len b e hc s)
  sliceEnd : ∀ it len bi e hc s, Mono s (sliceEnd n it len bi e hc s)
  evalMapLit : ∀ ks vs acc s, Mono s (evalMapLit n ks vs acc s)
  evalLetsx : ∀ l r i s, Mono s (evalLetsx n l r i s)
  letExpr : ∀ e s, Mono s (letExpr n e s)
  callValue : ∀ f a va s, Mono s (callValue n f a va s)
  makeCallArgs : ∀ c a va s, Mono s (makeCallArgs n c a va s).2
  argsTail : ∀ c r nl va ne lead s, Mono s (argsTail n c r nl va ne lead s).2
  evalArgs : ∀ c es i s, Mono s (evalArgs n c es i s).2
  evalVarArgs : ∀ c es s, Mono s (evalVarArgs n c es s).2
  callFn : ∀ f a cs s, Mono s (callFn n f a cs s)
  runDefers : ∀ ds rv err s, Mono s (runDefers n ds rv err s)
  execStmt : ∀ st s, Mono s (execStmt n st s)
  execStmts : ∀ ss s, Mono s (execStmts n ss s)
  assignAll : ∀ l v s, Mono s (assignAll n l v s)
  execElifs : ∀ el els env s, Mono s (execElifs n el els env s)
  loopIter : ∀ c b s, Mono s (loopIter n c b s)
  cforIter : ∀ c p b s, Mono s (cforIter n c p b s)
  forSlice : ∀ v b xs s, Mono s (forSlice n v b xs s)
  forMap : ∀ vs b m s, Mono s (forMap n vs b m s)
  execReturn : ∀ es s, Mono s (execReturn n es s)
  execCases : ∀ subj cs d s, Mono s (execCases n subj cs d s)
  matchCase : ∀ subj es s, Mono s (matchCase n subj es s).2
  registerDefer : ∀ f a va s, Mono s (registerDefer n f a va s)

/-- close a Mono goal -/
macro "mono_grind" ih:ident : tactic => `(tactic| (
  have hh0 := ($ih).evalExpr
  have hh1 := ($ih).evalList
  have hh2 := ($ih).evalIndexOpt
  have hh3 := ($ih).evalCond
  have hh4 := ($ih).sliceBegin
  have hh5 := ($ih).sliceEnd
  have hh6 := ($ih).evalMapLit
  have hh7 := ($ih).evalLetsx
  have hh8 := ($ih).letExpr
  have hh9 := ($ih).callValue
  have hh10 := ($ih).makeCallArgs
  have hh11 := ($ih).argsTail
  have hh12 := ($ih).evalArgs
  have hh13 := ($ih).evalVarArgs
  have hh14 := ($ih).callFn
  have hh15 := ($ih).runDefers
  have hh16 := ($ih).execStmt
  have hh17 := ($ih).execStmts
  have hh18 := ($ih).assignAll
  have hh19 := ($ih).execElifs
  have hh20 := ($ih).loopIter
  have hh21 := ($ih).cforIter
  have hh22 := ($ih).forSlice
  have hh23 := ($ih).forMap
  have hh24 := ($ih).execReturn
  have hh25 := ($ih).execCases
  have hh26 := ($ih).matchCase
  have hh27 := ($ih).registerDefer
  grind (splits := 40) [Mono, St.parents, Mono.refl, mono_fail, mono_markUnsup, mono_outOfFuel, mono_pollst, mono_newScope, mono_addClosure,
    mono_define, mono_defineAll, mono_assign, mono_assignIn, mono_opRes, mono_sliceResult, mono_convertArgs,
    mono_spreadFixed, mono_spreadVariadic, mono_traceVal, mono_traceAppend, mono_traceAppend_fail, mono_traceAppend_rv, List.prefix_refl, List.IsPrefix.trans, List.prefix_append, Array.toList_append]))

theorem mono_evalExpr (n : Nat) (ih : MonoIH n) : ∀ e s, Mono s (evalExpr (n + 1) e s) := by
  intro e s; cases e <;> simp only [evalExpr] <;> mono_grind ih

theorem mono_evalList (n : Nat) (ih : MonoIH n) : ∀ es s, Mono s (evalList (n + 1) es s).2 := by
  intro es s; rw [evalList.eq_def]; mono_grind ih

theorem mono_evalIndexOpt (n : Nat) (ih : MonoIH n) : ∀ oe d s, Mono s (evalIndexOpt (n + 1) oe d s).2 := by
  intro oe d s; rw [evalIndexOpt.eq_def]; mono_grind ih

theorem mono_evalCond (n : Nat) (ih : MonoIH n) : ∀ oe s, Mono s (evalCond (n + 1) oe s).2 := by
  intro oe s; rw [evalCond.eq_def]; mono_grind ih

theorem mono_sliceBegin (n : Nat) (ih : MonoIH n) : ∀ it len b e hc s, Mono s (sliceBegin (n + 1) it len b e hc s) := by
  intro it len b e hc s; rw [sliceBegin.eq_def]; mono_grind ih

theorem mono_sliceEnd (n : Nat) (ih : MonoIH n) : ∀ it len bi e hc s, Mono s (sliceEnd (n + 1) it len bi e hc s) := by
  intro it len bi e hc s; rw [sliceEnd.eq_def]; mono_grind ih

theorem mono_evalMapLit (n : Nat) (ih : MonoIH n) : ∀ ks vs acc s, Mono s (evalMapLit (n + 1) ks vs acc s) := by
  intro ks vs acc s; rw [evalMapLit.eq_def]; mono_grind ih

theorem mono_evalLetsx (n : Nat) (ih : MonoIH n) : ∀ l r i s, Mono s (evalLetsx (n + 1) l r i s) := by
  intro l r i s; rw [evalLetsx.eq_def]; mono_grind ih

theorem mono_letExpr (n : Nat) (ih : MonoIH n) : ∀ e s, Mono s (letExpr (n + 1) e s) := by
  intro e s; rw [letExpr.eq_def]; mono_grind ih

theorem mono_callValue (n : Nat) (ih : MonoIH n) : ∀ f a va s, Mono s (callValue (n + 1) f a va s) := by
  intro f a va s; rw [callValue.eq_def]; mono_grind ih

theorem mono_makeCallArgs (n : Nat) (ih : MonoIH n) : ∀ c a va s, Mono s (makeCallArgs (n + 1) c a va s).2 := by
  intro c a va s; rw [makeCallArgs.eq_def]; mono_grind ih

theorem mono_argsTail (n : Nat) (ih : MonoIH n) : ∀ c r nl va ne lead s, Mono s (argsTail (n + 1) c r nl va ne lead s).2 := by
  intro c r nl va ne lead s; rw [argsTail.eq_def]; mono_grind ih

theorem mono_evalArgs (n : Nat) (ih : MonoIH n) : ∀ c es i s, Mono s (evalArgs (n + 1) c es i s).2 := by
  intro c es i s; rw [evalArgs.eq_def]; mono_grind ih

theorem mono_evalVarArgs (n : Nat) (ih : MonoIH n) : ∀ c es s, Mono s (evalVarArgs (n + 1) c es s).2 := by
  intro c es s; rw [evalVarArgs.eq_def]; mono_grind ih

theorem mono_callFn (n : Nat) (ih : MonoIH n) : ∀ f a cs s, Mono s (callFn (n + 1) f a cs s) := by
  intro f a cs s; rw [callFn.eq_def]; mono_grind ih

theorem mono_runDefers (n : Nat) (ih : MonoIH n) : ∀ ds rv err s, Mono s (runDefers (n + 1) ds rv err s) := by
  intro ds rv err s; rw [runDefers.eq_def]; mono_grind ih

theorem mono_execStmt_try (n : Nat) (ih : MonoIH n) (t c f : Stmt) (var : String) (s : St) : Mono s (execStmt (n + 1) (.tryS t var c f) s) := by
  rw [execStmt]
  extract_lets env pr16 sc s1 s2 s3 s4
  have hE := ih.execStmt
  have hp : Mono s s.poll.2 := mono_pollst s
  have h1 : Mono s s1 := hp.trans (mono_newScope _ _)
  have h2 : Mono s s2 := (h1.trans (mono_of_eq s1 { s1 with cur := sc } rfl rfl rfl)).trans (hE t _)
  have h3 : Mono s s3 := by
    simp only [s3]
    split
    · exact h2
    · exact h2
    · next e _ _ =>
      generalize hd : (if (var != "") = true then s2.define s2.cur var ⟨false, .err e.msg⟩ else s2) = s2'
      have : Mono s2 s2' := by
        rw [← hd]
        split
        · exact mono_define _ _ _ _
        · exact Mono.refl _
      exact ((h2.trans this).trans (mono_of_eq s2' { s2' with err := none } rfl rfl rfl)).trans (hE c _)
  have h4 : Mono s s4 := by
    simp only [s4]
    split
    · exact h3
    · exact h3.trans (hE _ _)
  split
  · exact hp.trans (mono_of_eq _ _ rfl rfl rfl)
  · split
    · exact h3.trans (mono_of_eq _ _ rfl rfl rfl)
    · exact h3.trans (mono_of_eq _ _ rfl rfl rfl)
    · exact h4.trans (mono_of_eq _ _ rfl rfl rfl)

theorem mono_execStmt (n : Nat) (ih : MonoIH n) : ∀ st s, Mono s (execStmt (n + 1) st s) := by
  intro st s
  cases st
  case tryS t var c f => exact mono_execStmt_try n ih t c f var s
  all_goals rw [execStmt.eq_def]
  all_goals mono_grind ih

theorem mono_execStmts (n : Nat) (ih : MonoIH n) : ∀ ss s, Mono s (execStmts (n + 1) ss s) := by
  intro ss s; rw [execStmts.eq_def]; mono_grind ih

theorem mono_assignAll (n : Nat) (ih : MonoIH n) : ∀ l v s, Mono s (assignAll (n + 1) l v s) := by
  intro l v s; rw [assignAll.eq_def]; mono_grind ih

theorem mono_execElifs (n : Nat) (ih : MonoIH n) : ∀ el els env s, Mono s (execElifs (n + 1) el els env s) := by
  intro el els env s; rw [execElifs.eq_def]; mono_grind ih

theorem mono_loopIter (n : Nat) (ih : MonoIH n) : ∀ c b s, Mono s (loopIter (n + 1) c b s) := by
  intro c b s; rw [loopIter.eq_def]; mono_grind ih

theorem mono_cforIter (n : Nat) (ih : MonoIH n) : ∀ c p b s, Mono s (cforIter (n + 1) c p b s) := by
  intro c p b s; rw [cforIter.eq_def]; mono_grind ih

theorem mono_forSlice (n : Nat) (ih : MonoIH n) : ∀ v b xs s, Mono s (forSlice (n + 1) v b xs s) := by
  intro v b xs s; rw [forSlice.eq_def]; mono_grind ih

theorem mono_forMap (n : Nat) (ih : MonoIH n) : ∀ vs b m s, Mono s (forMap (n + 1) vs b m s) := by
  intro vs b m s; rw [forMap.eq_def]; mono_grind ih

theorem mono_execReturn (n : Nat) (ih : MonoIH n) : ∀ es s, Mono s (execReturn (n + 1) es s) := by
  intro es s; rw [execReturn.eq_def]; mono_grind ih

theorem mono_execCases (n : Nat) (ih : MonoIH n) : ∀ subj cs d s, Mono s (execCases (n + 1) subj cs d s) := by
  intro subj cs d s; rw [execCases.eq_def]; mono_grind ih

theorem mono_matchCase (n : Nat) (ih : MonoIH n) : ∀ subj es s, Mono s (matchCase (n + 1) subj es s).2 := by
  intro subj es s; rw [matchCase.eq_def]; mono_grind ih

theorem mono_registerDefer (n : Nat) (ih : MonoIH n) : ∀ f a va s, Mono s (registerDefer (n + 1) f a va s) := by
  intro f a va s; rw [registerDefer.eq_def]; mono_grind ih

/-- For every model function at every fuel: the cancellation point is untouched and the poll counter only grows. -/
theorem mono_all : ∀ n : Nat, MonoIH n := by
  intro n
  induction n with
  | zero => exact {
    evalExpr := by intros; simp [evalExpr, Mono, St.parents, outOfFuel, St.markUnsup]
    evalList := by intros; simp [evalList, Mono, St.parents, outOfFuel, St.markUnsup]
    evalIndexOpt := by intros; simp [evalIndexOpt, Mono, St.parents, outOfFuel, St.markUnsup]
    evalCond := by intros; simp [evalCond, Mono, St.parents, outOfFuel, St.markUnsup]
    sliceBegin := by intros; simp [sliceBegin, Mono, St.parents, outOfFuel, St.markUnsup]
    sliceEnd := by intros; simp [sliceEnd, Mono, St.parents, outOfFuel, St.markUnsup]
    evalMapLit := by intros; simp [evalMapLit, Mono, St.parents, outOfFuel, St.markUnsup]
    evalLetsx := by intros; simp [evalLetsx, Mono, St.parents, outOfFuel, St.markUnsup]
    letExpr := by intros; simp [letExpr, Mono, St.parents, outOfFuel, St.markUnsup]
    callValue := by intros; simp [callValue, Mono, St.parents, outOfFuel, St.markUnsup]
    makeCallArgs := by intros; simp [makeCallArgs, Mono, St.parents, outOfFuel, St.markUnsup]
    argsTail := by intros; simp [argsTail, Mono, St.parents, outOfFuel, St.markUnsup]
    evalArgs := by intros; simp [evalArgs, Mono, St.parents, outOfFuel, St.markUnsup]
    evalVarArgs := by intros; simp [evalVarArgs, Mono, St.parents, outOfFuel, St.markUnsup]
    callFn := by intros; simp [callFn, Mono, St.parents, outOfFuel, St.markUnsup]
    runDefers := by intros; simp [runDefers, Mono, St.parents, outOfFuel, St.markUnsup]
    execStmt := by intros; simp [execStmt, Mono, St.parents, outOfFuel, St.markUnsup]
    execStmts := by intros; simp [execStmts, Mono, St.parents, outOfFuel, St.markUnsup]
    assignAll := by intros; simp [assignAll, Mono, St.parents, outOfFuel, St.markUnsup]
    execElifs := by intros; simp [execElifs, Mono, St.parents, outOfFuel, St.markUnsup]
    loopIter := by intros; simp [loopIter, Mono, St.parents, outOfFuel, St.markUnsup]
    cforIter := by intros; simp [cforIter, Mono, St.parents, outOfFuel, St.markUnsup]
    forSlice := by intros; simp [forSlice, Mono, St.parents, outOfFuel, St.markUnsup]
    forMap := by intros; simp [forMap, Mono, St.parents, outOfFuel, St.markUnsup]
    execReturn := by intros; simp [execReturn, Mono, St.parents, outOfFuel, St.markUnsup]
    execCases := by intros; simp [execCases, Mono, St.parents, outOfFuel, St.markUnsup]
    matchCase := by intros; simp [matchCase, Mono, St.parents, outOfFuel, St.markUnsup]
    registerDefer := by intros; simp [registerDefer, Mono, St.parents, outOfFuel, St.markUnsup] }
  | succ n ih => exact {
    evalExpr := mono_evalExpr n ih
    evalList := mono_evalList n ih
    evalIndexOpt := mono_evalIndexOpt n ih
    evalCond := mono_evalCond n ih
    sliceBegin := mono_sliceBegin n ih
    sliceEnd := mono_sliceEnd n ih
    evalMapLit := mono_evalMapLit n ih
    evalLetsx := mono_evalLetsx n ih
    letExpr := mono_letExpr n ih
    callValue := mono_callValue n ih
    makeCallArgs := mono_makeCallArgs n ih
    argsTail := mono_argsTail n ih
    evalArgs := mono_evalArgs n ih
    evalVarArgs := mono_evalVarArgs n ih
    callFn := mono_callFn n ih
    runDefers := mono_runDefers n ih
    execStmt := mono_execStmt n ih
    execStmts := mono_execStmts n ih
    assignAll := mono_assignAll n ih
    execElifs := mono_execElifs n ih
    loopIter := mono_loopIter n ih
    cforIter := mono_cforIter n ih
    forSlice := mono_forSlice n ih
    forMap := mono_forMap n ih
    execReturn := mono_execReturn n ih
    execCases := mono_execCases n ih
    matchCase := mono_matchCase n ih
    registerDefer := mono_registerDefer n ih }


theorem mono_runProgram (fuel : Nat) (p : Stmt) (s : St) : Mono s (runProgram fuel p s) := by
  unfold runProgram
  have h1 := (mono_all fuel).execStmt p s
  have h2 := (mono_all fuel).runDefers
  extract_lets r1 r2
  have hr2 : Mono s r2 := by
    simp only [r2]
    split
    · exact h1
    · exact (h1.trans (mono_of_eq r1 { r1 with defers := [] } rfl rfl rfl)).trans (h2 _ _ _ _)
  split
  · exact hr2.trans (mono_of_eq _ _ rfl rfl rfl)
  · exact hr2

/-- what `Mono` gives for a single scope id / closure id / trace position -/
theorem Mono.parent_stable {s r : St} (h : Mono s r) (i : Nat) (hi : i < s.scopes.size) :
    (r.scopes[i]?).map (·.parent) = (s.scopes[i]?).map (·.parent) := by
  obtain ⟨t, ht⟩ := h.1
  have e1 : r.parents[i]? = (r.scopes[i]?).map (·.parent) := by simp [St.parents]
  have e2 : s.parents[i]? = (s.scopes[i]?).map (·.parent) := by simp [St.parents]
  have hl : i < s.parents.length := by simpa [St.parents] using hi
  rw [← e1, ← e2, ← ht, List.getElem?_append_left hl]

theorem Mono.closure_stable {s r : St} (h : Mono s r) (i : Nat) (hi : i < s.closures.size) :
    r.closures[i]? = s.closures[i]? := by
  obtain ⟨t, ht⟩ := h.2.1
  have hl : i < s.closures.toList.length := by simpa using hi
  have : r.closures.toList[i]? = s.closures.toList[i]? := by rw [← ht, List.getElem?_append_left hl]
  simpa using this

theorem Mono.trace_stable {s r : St} (h : Mono s r) (i : Nat) (hi : i < s.trace.size) :
    r.trace[i]? = s.trace[i]? := by
  obtain ⟨t, ht⟩ := h.2.2
  have hl : i < s.trace.toList.length := by simpa using hi
  have : r.trace.toList[i]? = s.trace.toList[i]? := by rw [← ht, List.getElem?_append_left hl]
  simpa using this

theorem Mono.sizes {s r : St} (h : Mono s r) :
    s.scopes.size ≤ r.scopes.size ∧ s.closures.size ≤ r.closures.size ∧ s.trace.size ≤ r.trace.size := by
  have a := h.1.length_le
  have b := h.2.1.length_le
  have c := h.2.2.length_le
  simp [St.parents] at a b c
  exact ⟨a, b, c⟩

end Anko
