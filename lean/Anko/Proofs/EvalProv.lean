/-
C20, whole evaluator: the interface flag is unobservable.  Two runs of the model under different
provenance policies (`Prov.wrap = true`: the real interpreter; `false`: no value is ever
interface-typed), started in states that agree up to flags, agree up to flags at the end - for
every function of the evaluator at every fuel.
-/
import Anko.Proofs.EvalProvBase

set_option linter.unusedSectionVars false
set_option linter.unusedVariables false
set_option maxHeartbeats 1600000

namespace Anko
variable [F : FOps]

/-! ### operations read the dynamic value only -/
theorem binop_sim (o : String) {a a' b b' : RV} (ha : a.v = a'.v) (hb : b.v = b'.v) : binop o a b = binop o a' b' := by
  simp only [binop, RV.unwrap, ha, hb]
theorem unop_sim (o : String) {a a' : RV} (ha : a.v = a'.v) : unop o a = unop o a' := by
  simp only [unop, RV.unwrap, ha]
theorem inOp_sim {a a' b b' : RV} (ha : a.v = a'.v) (hb : b.v = b'.v) : inOp a b = inOp a' b' := by
  simp only [inOp, RV.unwrap, ha, hb]
theorem sim_binopRes (o : String) {s t : St} (h : Sim s t) {a a' : RV} (ha : a.v = a'.v) :
    Sim (opRes s (binop o a s.rv)) (opRes t (binop o a' t.rv)) := by
  rw [binop_sim o ha h.rv]; exact sim_opRes h _
theorem sim_unopRes (o : String) {s t : St} (h : Sim s t) : Sim (opRes s (unop o s.rv)) (opRes t (unop o t.rv)) := by
  rw [unop_sim o h.rv]; exact sim_opRes h _
theorem sim_inOpRes {s t : St} (h : Sim s t) {a a' : RV} (ha : a.v = a'.v) :
    Sim (opRes s (inOp a s.rv)) (opRes t (inOp a' t.rv)) := by
  rw [inOp_sim ha h.rv]; exact sim_opRes h _
theorem toBoolRV_sim {a a' : RV} (ha : a.v = a'.v) : toBoolRV a = toBoolRV a' := by simp only [toBoolRV, ha]
theorem tryToIntRV_sim {a a' : RV} (ha : a.v = a'.v) : tryToIntRV a = tryToIntRV a' := by simp only [tryToIntRV, ha]
theorem isNilRV_sim {a a' : RV} (ha : a.v = a'.v) : isNilRV a = isNilRV a' := by simp only [isNilRV, ha]
theorem unwrap_sim {a a' : RV} (ha : a.v = a'.v) : a.unwrap.v = a'.unwrap.v := ha
theorem getLastD_sim {a b : List RV} (h : SimL a b) : (a.getLastD nilRV).v = (b.getLastD nilRV).v := by
  have := congrArg (fun l => (l.getLastD nilRV).v) h
  simp only [List.getLastD_eq_getLast?, List.getLast?_map] at this
  cases ha : a.getLast? <;> cases hb : b.getLast? <;> simp_all [List.getLastD_eq_getLast?]
theorem headD_sim {a b : List RV} (h : SimL a b) : (a.headD nilRV).v = (b.headD nilRV).v := by
  cases a <;> cases b <;> simp_all [SimL, RV.er]

theorem convertTo_cases {a b : RV} (hab : a.v = b.v) (ty : Ty) :
    (convertTo a ty = none ∧ convertTo b ty = none) ∨ (∃ m, convertTo a ty = some (.error m) ∧ convertTo b ty = some (.error m)) ∨
    (∃ x y, convertTo a ty = some (.ok x) ∧ convertTo b ty = some (.ok y) ∧ x.v = y.v) := by
  cases ty with
  | iface => right; right; exact ⟨a, b, rfl, rfl, hab⟩
  | int64 =>
    simp only [convertTo, ← hab]
    cases hv : a.v with
    | int i => right; right; exact ⟨_, _, rfl, rfl, rfl⟩
    | float f =>
      cases hf : FOps.toInt f with
      | none => left; simp [hf]
      | some i => right; right; exact ⟨⟨false, .int i⟩, ⟨false, .int i⟩, by simp [hf], by simp [hf], rfl⟩
    | nil => right; right; exact ⟨_, _, rfl, rfl, rfl⟩
    | bool _ => right; left; exact ⟨_, rfl, rfl⟩
    | str _ => right; left; exact ⟨_, rfl, rfl⟩
    | list _ => right; left; exact ⟨_, rfl, rfl⟩
    | map _ => right; left; exact ⟨_, rfl, rfl⟩
    | fn _ => right; left; exact ⟨_, rfl, rfl⟩
    | gofn _ => right; left; exact ⟨_, rfl, rfl⟩
    | err _ => right; left; exact ⟨_, rfl, rfl⟩
    | env _ => right; left; exact ⟨_, rfl, rfl⟩

variable (P Q : Prov)

theorem elemRV_sim (x : Val) : (@elemRV P x).v = (@elemRV Q x).v := rfl
theorem simL_elems (xs : List Val) : SimL (xs.map (@elemRV P)) (xs.map (@elemRV Q)) :=
  simL_of_vals xs _ _ (fun _ => rfl)

/-- a Go stub: same trace contribution, results equal up to the flag -/
theorem goRun_sim (name : String) {a b : List RV} (h : SimL a b) :
    (@goRun P name a).1 = (@goRun Q name b).1 ∧
    ((∃ m, (@goRun P name a).2 = .error m ∧ (@goRun Q name b).2 = .error m) ∨
     (∃ x y, (@goRun P name a).2 = .ok x ∧ (@goRun Q name b).2 = .ok y ∧ x.v = y.v)) := by
  have hv := simL_vals h
  unfold goRun
  simp only [hv]
  split <;> simp

/-- the argument list handed to a Go stub by CallSlice -/
theorem simL_flat {a b : List RV} (h : SimL a b) (cs : Bool) : SimL (@flatArgs P cs a) (@flatArgs Q cs b) := by
  unfold flatArgs
  cases cs with
  | false => simpa using h
  | true =>
    simp only [if_true]
    have hl : (a.getLast?).map RV.er = (b.getLast?).map RV.er := by
      have := congrArg List.getLast? h
      simpa [List.getLast?_map] using this
    have hd : SimL a.dropLast b.dropLast := by
      unfold SimL at *
      rw [List.map_dropLast, List.map_dropLast, h]
    cases ha : a.getLast? with
    | none =>
      cases hb : b.getLast? with
      | none => simpa using h
      | some y => simp [ha, hb] at hl
    | some x =>
      cases hb : b.getLast? with
      | none => simp [ha, hb] at hl
      | some y =>
        simp only [ha, hb, Option.map_some, Option.some.injEq] at hl
        have hxy := (rv_er_iff _ _).mp hl
        obtain ⟨xi, xv⟩ := x
        obtain ⟨yi, yv⟩ := y
        simp only at hxy
        subst hxy
        cases xv <;> simp only [] <;> first | exact h | exact simL_append hd (simL_elems P Q _)

theorem sim_sliceResult (item : Val) (len : Nat) (bi ei : Int) (hc : Bool) {s t : St} (h : Sim s t) :
    Sim (sliceResult item len bi ei hc s) (sliceResult item len bi ei hc t) := by
  unfold sliceResult
  repeat' split
  all_goals first | exact sim_fail h _ | exact sim_markUnsup h _ | exact sim_with_rv h rfl | exact h

theorem sim_convertArgs (cal : Callee) : ∀ (xs : List Val) (i : Nat) (s t : St), Sim s t →
    ((@convertArgs F P cal xs i s).1 = none ∧ (@convertArgs F Q cal xs i t).1 = none ∨
     ∃ x y, (@convertArgs F P cal xs i s).1 = some x ∧ (@convertArgs F Q cal xs i t).1 = some y ∧ SimL x y) ∧
    Sim (@convertArgs F P cal xs i s).2 (@convertArgs F Q cal xs i t).2 := by
  intro xs
  induction xs with
  | nil => intro i s t h; exact ⟨Or.inr ⟨[], [], rfl, rfl, simL_nil⟩, h⟩
  | cons x xs ih =>
    intro i s t h
    simp only [convertArgs]
    split
    · have := ih (i + 1) s t h
      rcases this with ⟨⟨h1, h2⟩ | ⟨a, b, h1, h2, h3⟩, h4⟩
      · rcases hp : @convertArgs F P cal xs (i + 1) s with ⟨p1, p2⟩
        rcases hq : @convertArgs F Q cal xs (i + 1) t with ⟨q1, q2⟩
        simp_all
      · rcases hp : @convertArgs F P cal xs (i + 1) s with ⟨p1, p2⟩
        rcases hq : @convertArgs F Q cal xs (i + 1) t with ⟨q1, q2⟩
        simp_all
        exact simL_cons rfl h3
    · rcases convertTo_cases (elemRV_sim P Q x) (cal.paramTy i) with ⟨h1, h2⟩ | ⟨m, h1, h2⟩ | ⟨a, b, h1, h2, h3⟩
      · simp only [h1, h2]; exact ⟨Or.inl (by simp), sim_markUnsup h _⟩
      · simp only [h1, h2]
        split
        · exact ⟨Or.inl (by simp), sim_markUnsup h _⟩
        · exact ⟨Or.inl (by simp), sim_fail h _⟩
      · simp only [h1, h2]
        have := ih (i + 1) { s with rv := a } { t with rv := b } (sim_with_rv h h3)
        rcases this with ⟨⟨g1, g2⟩ | ⟨a', b', g1, g2, g3⟩, g4⟩
        · rcases hp : @convertArgs F P cal xs (i + 1) { s with rv := a } with ⟨p1, p2⟩
          rcases hq : @convertArgs F Q cal xs (i + 1) { t with rv := b } with ⟨q1, q2⟩
          simp_all
        · rcases hp : @convertArgs F P cal xs (i + 1) { s with rv := a } with ⟨p1, p2⟩
          rcases hq : @convertArgs F Q cal xs (i + 1) { t with rv := b } with ⟨q1, q2⟩
          simp_all
          exact simL_cons h3 g3

theorem sim_spreadFixed (cal : Callee) (nLead numExprs : Nat) {lead lead' : List RV} (hl : SimL lead lead') {s t : St} (h : Sim s t) :
    SimL (@spreadFixed F P cal nLead numExprs lead s).1.1 (@spreadFixed F Q cal nLead numExprs lead' t).1.1 ∧
    (@spreadFixed F P cal nLead numExprs lead s).1.2 = (@spreadFixed F Q cal nLead numExprs lead' t).1.2 ∧
    Sim (@spreadFixed F P cal nLead numExprs lead s).2 (@spreadFixed F Q cal nLead numExprs lead' t).2 := by
  unfold spreadFixed
  rw [h.rv]
  split
  · next xs _ =>
    split
    · exact ⟨simL_nil, rfl, sim_fail h _⟩
    · have := sim_convertArgs P Q cal (List.take (cal.numIn - nLead) xs) nLead s t h
      rcases this with ⟨⟨g1, g2⟩ | ⟨a, b, g1, g2, g3⟩, g4⟩
      · rcases hp : @convertArgs F P cal (List.take (cal.numIn - nLead) xs) nLead s with ⟨p1, p2⟩
        rcases hq : @convertArgs F Q cal (List.take (cal.numIn - nLead) xs) nLead t with ⟨q1, q2⟩
        simp_all
        exact simL_nil
      · rcases hp : @convertArgs F P cal (List.take (cal.numIn - nLead) xs) nLead s with ⟨p1, p2⟩
        rcases hq : @convertArgs F Q cal (List.take (cal.numIn - nLead) xs) nLead t with ⟨q1, q2⟩
        simp_all
        exact simL_append hl g3
  · split
    · exact ⟨simL_nil, rfl, sim_markUnsup h _⟩
    · exact ⟨simL_nil, rfl, sim_fail h _⟩

theorem sim_spreadVariadic {lead lead' : List RV} (hl : SimL lead lead') {s t : St} (h : Sim s t) :
    SimL (spreadVariadic lead s).1.1 (spreadVariadic lead' t).1.1 ∧
    (spreadVariadic lead s).1.2 = (spreadVariadic lead' t).1.2 ∧
    Sim (spreadVariadic lead s).2 (spreadVariadic lead' t).2 := by
  unfold spreadVariadic
  rw [h.rv]
  split
  · exact ⟨simL_append hl (simL_refl _), rfl, h⟩
  · exact ⟨simL_append hl (simL_refl _), rfl, h⟩
  · split
    · exact ⟨simL_nil, rfl, sim_markUnsup h _⟩
    · exact ⟨simL_nil, rfl, sim_fail h _⟩

theorem defer_snoc_sim {d e : List Deferred} (h : d.map Deferred.er = e.map Deferred.er) (f : Val) {a b : List RV} (hab : SimL a b) (cs : Bool) :
    (d ++ [(⟨f, a, cs⟩ : Deferred)]).map Deferred.er = (e ++ [(⟨f, b, cs⟩ : Deferred)]).map Deferred.er := by
  unfold SimL at hab
  simp [h, Deferred.er, hab]

theorem defers_reverse_sim {d e : List Deferred} (h : d.map Deferred.er = e.map Deferred.er) :
    d.reverse.map Deferred.er = e.reverse.map Deferred.er := by
  rw [List.map_reverse, List.map_reverse, h]

theorem defers_isEmpty_sim {d e : List Deferred} (h : d.map Deferred.er = e.map Deferred.er) : d.isEmpty = e.isEmpty := by
  cases d <;> cases e <;> simp_all

theorem defers_cons_inv {d : Deferred} {ds : List Deferred} {e : List Deferred} (h : (d :: ds).map Deferred.er = e.map Deferred.er) :
    ∃ d' ds', e = d' :: ds' ∧ d.fn = d'.fn ∧ SimL d.args d'.args ∧ d.callSlice = d'.callSlice ∧ ds.map Deferred.er = ds'.map Deferred.er := by
  cases e with
  | nil => simp at h
  | cons d' ds' =>
    simp only [List.map_cons, List.cons.injEq] at h
    refine ⟨d', ds', rfl, ?_, ?_, ?_, h.2⟩
    · have := congrArg Deferred.fn h.1; exact this
    · have := congrArg Deferred.args h.1; exact this
    · have := congrArg Deferred.callSlice h.1; exact this

structure ProvIH (n : Nat) : Prop where
  evalExpr : ∀ e s t, Sim s t → Sim (@evalExpr F P n e s) (@evalExpr F Q n e t)
  evalList : ∀ es s t, Sim s t → SimL (@evalList F P n es s).1 (@evalList F Q n es t).1 ∧ Sim (@evalList F P n es s).2 (@evalList F Q n es t).2
  evalIndexOpt : ∀ oe d s t, Sim s t → (@evalIndexOpt F P n oe d s).1 = (@evalIndexOpt F Q n oe d t).1 ∧ Sim (@evalIndexOpt F P n oe d s).2 (@evalIndexOpt F Q n oe d t).2
  evalCond : ∀ oe s t, Sim s t → (@evalCond F P n oe s).1 = (@evalCond F Q n oe t).1 ∧ Sim (@evalCond F P n oe s).2 (@evalCond F Q n oe t).2
  sliceBegin : ∀ it len b e hc s t, Sim s t → Sim (@sliceBegin F P n it len b e hc s) (@sliceBegin F Q n it len b e hc t)
  sliceEnd : ∀ it len bi e hc s t, Sim s t → Sim (@sliceEnd F P n it len bi e hc s) (@sliceEnd F Q n it len bi e hc t)
  evalMapLit : ∀ ks vs acc s t, Sim s t → Sim (@evalMapLit F P n ks vs acc s) (@evalMapLit F Q n ks vs acc t)
  evalLetsx : ∀ l r i s t, Sim s t → Sim (@evalLetsx F P n l r i s) (@evalLetsx F Q n l r i t)
  letExpr : ∀ e s t, Sim s t → Sim (@letExpr F P n e s) (@letExpr F Q n e t)
  callValue : ∀ f a va s t, Sim s t → Sim (@callValue F P n f a va s) (@callValue F Q n f a va t)
  makeCallArgs : ∀ c a va s t, Sim s t → SimL (@makeCallArgs F P n c a va s).1.1 (@makeCallArgs F Q n c a va t).1.1 ∧ (@makeCallArgs F P n c a va s).1.2 = (@makeCallArgs F Q n c a va t).1.2 ∧ Sim (@makeCallArgs F P n c a va s).2 (@makeCallArgs F Q n c a va t).2
  argsTail : ∀ c r nl va ne lead lead' s t, SimL lead lead' → Sim s t → SimL (@argsTail F P n c r nl va ne lead s).1.1 (@argsTail F Q n c r nl va ne lead' t).1.1 ∧ (@argsTail F P n c r nl va ne lead s).1.2 = (@argsTail F Q n c r nl va ne lead' t).1.2 ∧ Sim (@argsTail F P n c r nl va ne lead s).2 (@argsTail F Q n c r nl va ne lead' t).2
  evalArgs : ∀ c es i s t, Sim s t → SimL (@evalArgs F P n c es i s).1 (@evalArgs F Q n c es i t).1 ∧ Sim (@evalArgs F P n c es i s).2 (@evalArgs F Q n c es i t).2
  evalVarArgs : ∀ c es s t, Sim s t → SimL (@evalVarArgs F P n c es s).1 (@evalVarArgs F Q n c es t).1 ∧ Sim (@evalVarArgs F P n c es s).2 (@evalVarArgs F Q n c es t).2
  callFn : ∀ f a a' cs s t, SimL a a' → Sim s t → Sim (@callFn F P n f a cs s) (@callFn F Q n f a' cs t)
  runDefers : ∀ ds ds' rv rv' err s t, ds.map Deferred.er = ds'.map Deferred.er → rv.v = rv'.v → Sim s t → Sim (@runDefers F P n ds rv err s) (@runDefers F Q n ds' rv' err t)
  execStmt : ∀ st s t, Sim s t → Sim (@execStmt F P n st s) (@execStmt F Q n st t)
  execStmts : ∀ ss s t, Sim s t → Sim (@execStmts F P n ss s) (@execStmts F Q n ss t)
  assignAll : ∀ l v v' s t, SimL v v' → Sim s t → Sim (@assignAll F P n l v s) (@assignAll F Q n l v' t)
  execElifs : ∀ el els env s t, Sim s t → Sim (@execElifs F P n el els env s) (@execElifs F Q n el els env t)
  loopIter : ∀ c b s t, Sim s t → Sim (@loopIter F P n c b s) (@loopIter F Q n c b t)
  cforIter : ∀ c p b s t, Sim s t → Sim (@cforIter F P n c p b s) (@cforIter F Q n c p b t)
  forSlice : ∀ v b xs s t, Sim s t → Sim (@forSlice F P n v b xs s) (@forSlice F Q n v b xs t)
  forMap : ∀ vs b m s t, Sim s t → Sim (@forMap F P n vs b m s) (@forMap F Q n vs b m t)
  execReturn : ∀ es s t, Sim s t → Sim (@execReturn F P n es s) (@execReturn F Q n es t)
  execCases : ∀ subj subj' cs d s t, subj.v = subj'.v → Sim s t → Sim (@execCases F P n subj cs d s) (@execCases F Q n subj' cs d t)
  matchCase : ∀ subj subj' es s t, subj.v = subj'.v → Sim s t → (@matchCase F P n subj es s).1 = (@matchCase F Q n subj' es t).1 ∧ Sim (@matchCase F P n subj es s).2 (@matchCase F Q n subj' es t).2
  registerDefer : ∀ f a va s t, Sim s t → Sim (@registerDefer F P n f a va s) (@registerDefer F Q n f a va t)

/-- close a simulation goal -/
macro "prov_grind" ih:ident : tactic => `(tactic| (
  have hh0 := ($ih).evalExpr
  have hh1 := ($ih).evalList
  have hh2 := ($ih).evalIndexOpt
  have hh3 := ($ih).evalCond
  have hh4 := ($ih).sliceBegin
  have hh5 := ($ih).sliceEnd
  have hh6 := ($ih).evalMapLit
  have hh7 := ($ih).evalLetsx
  have hh8 := ($ih).letExpr
  have hh9 := ($ih).callValue
  have hh10 := ($ih).makeCallArgs
  have hh11 := ($ih).argsTail
  have hh12 := ($ih).evalArgs
  have hh13 := ($ih).evalVarArgs
  have hh14 := ($ih).callFn
  have hh15 := ($ih).runDefers
  have hh16 := ($ih).execStmt
  have hh17 := ($ih).execStmts
  have hh18 := ($ih).assignAll
  have hh19 := ($ih).execElifs
  have hh20 := ($ih).loopIter
  have hh21 := ($ih).cforIter
  have hh22 := ($ih).forSlice
  have hh23 := ($ih).forMap
  have hh24 := ($ih).execReturn
  have hh25 := ($ih).execCases
  have hh26 := ($ih).matchCase
  have hh27 := ($ih).registerDefer
  grind (splits := 60) [→ Sim.err, → Sim.cur, → Sim.rv, → Sim.scopes, → Sim.closures, → Sim.trace, → Sim.polls, → Sim.cancelAt, → Sim.unsup, → Sim.defers, sim_mk, Sim.refl, sim_with_rv, sim_with_err, sim_with_cur, sim_with_rv_err, sim_with_rv_cur, sim_with_trace, sim_with_defers,
    sim_fail, sim_markUnsup, sim_outOfFuel, sim_poll, sim_newScope, sim_addClosure, sim_traceVal, sim_define, sim_defineAll, simB_zip, sim_getValue_cases,
    sim_assign, sim_assignIn, sim_opRes, sim_calleeOf, simL_nil, simL_cons, simL_append, simL_vals, simL_length, simL_take, simL_drop, simL_refl,
    binop_sim, unop_sim, inOp_sim, sim_binopRes, sim_unopRes, sim_inOpRes, toBoolRV_sim, tryToIntRV_sim, isNilRV_sim, elemRV_sim, simL_elems, convertTo_cases, goRun_sim, sim_convertArgs,
    sim_spreadFixed, sim_spreadVariadic, sim_sliceResult, simL_flat, unwrap_sim, getLastD_sim, headD_sim, defer_snoc_sim, defers_reverse_sim, defers_isEmpty_sim, defers_cons_inv]))


end Anko
