/-
Integer literals with a base prefix: the spelling of n in base 2 / 16 (any number of digits) is read
back to n, with and without a leading '-', up to the int64 boundaries.
-/
import Anko.Model.Literal

namespace Anko

/-- the digit character of d (< 16), lower case -/
def digitCharB (d : Nat) : UInt8 := if d < 10 then UInt8.ofNat (48 + d) else UInt8.ofNat (87 + d)

theorem digitOfBase_16 : ∀ d, d < 16 → digitOfBase 16 (digitCharB d) = some d := by decide

theorem digitOfBase_2 : ∀ d, d < 2 → digitOfBase 2 (digitCharB d) = some d := by decide

/-- the bases the literals use: every digit character is read back as its digit -/
def GoodBase (b : Nat) : Prop := 2 ≤ b ∧ b ≤ 16 ∧ ∀ d, d < b → digitOfBase b (digitCharB d) = some d
theorem goodBase_2 : GoodBase 2 := ⟨by omega, by omega, digitOfBase_2⟩
theorem goodBase_16 : GoodBase 16 := ⟨by omega, by omega, digitOfBase_16⟩

/-- spelling of n in base b, most significant digit first -/
def baseDigits (b : Nat) (hb : 2 ≤ b) (n : Nat) : List UInt8 :=
  if h : n < b then [digitCharB n] else baseDigits b hb (n / b) ++ [digitCharB (n % b)]
termination_by n
decreasing_by exact Nat.div_lt_self (by omega) (by omega)

theorem digitsValBase_append (b : Nat) (x y : List UInt8) (acc : Nat) :
    digitsValBase b (x ++ y) acc = (digitsValBase b x acc).bind (digitsValBase b y) := by
  induction x generalizing acc with
  | nil => rfl
  | cons c cs ih =>
    simp only [List.cons_append, digitsValBase]
    cases digitOfBase b c with
    | none => rfl
    | some d => exact ih _

theorem digitsValBase_baseDigits (b : Nat) (hb : 2 ≤ b) (hg : GoodBase b) (n : Nat) : ∀ acc,
    digitsValBase b (baseDigits b hb n) acc = some (acc * b ^ (baseDigits b hb n).length + n) := by
  induction n using Nat.strongRecOn with
  | _ n ih =>
    intro acc
    rw [baseDigits]
    split
    · next h => simp [digitsValBase, hg.2.2 n h]
    · next h =>
      have hlt : n / b < n := Nat.div_lt_self (by omega) (by omega)
      have hm : n % b < b := Nat.mod_lt _ (by omega)
      rw [digitsValBase_append, ih (n / b) hlt]
      simp only [Option.bind_some, digitsValBase, hg.2.2 (n % b) hm, List.length_append, List.length_singleton]
      rw [Nat.pow_succ]
      have := Nat.div_add_mod n b
      generalize b ^ (baseDigits b hb (n / b)).length = p
      rw [Nat.add_mul, Nat.mul_assoc]
      congr 1
      rw [Nat.mul_comm b (n / b)] at this
      omega

theorem baseDigits_ne_nil (b : Nat) (hb : 2 ≤ b) (n : Nat) : baseDigits b hb n ≠ [] := by
  rw [baseDigits]; split <;> simp

theorem digitCharB_not_sign (d : Nat) (h : d < 16) : digitCharB d ≠ 45 ∧ digitCharB d ≠ 43 := by
  unfold digitCharB
  split
  · next h10 =>
    have e : (48 + d) % 256 = 48 + d := Nat.mod_eq_of_lt (by omega)
    constructor <;> intro he <;> have := congrArg UInt8.toNat he <;> simp [UInt8.toNat_ofNat', e] at this <;> omega
  · next h10 =>
    have e : (87 + d) % 256 = 87 + d := Nat.mod_eq_of_lt (by omega)
    constructor <;> intro he <;> have := congrArg UInt8.toNat he <;> simp [UInt8.toNat_ofNat', e] at this <;> omega

theorem baseDigits_head (b : Nat) (hb : 2 ≤ b) (hb16 : b ≤ 16) (n : Nat) : ∃ d r, d < 16 ∧ baseDigits b hb n = digitCharB d :: r := by
  induction n using Nat.strongRecOn with
  | _ n ih =>
    rw [baseDigits]
    split
    · next h => exact ⟨n, [], by omega, rfl⟩
    · next h =>
      obtain ⟨d, r, hd, e⟩ := ih (n / b) (Nat.div_lt_self (by omega) (by omega))
      exact ⟨d, r ++ [digitCharB (n % b)], hd, by rw [e]; rfl⟩

theorem splitSign_baseDigits (b : Nat) (hb : 2 ≤ b) (hb16 : b ≤ 16) (n : Nat) : splitSign (baseDigits b hb n) = (false, baseDigits b hb n) := by
  obtain ⟨d, r, hd, e⟩ := baseDigits_head b hb hb16 n
  rw [e]
  have := digitCharB_not_sign d hd
  unfold splitSign
  split
  · next heq => injection heq with h1 _; exact absurd h1 this.1
  · next heq => injection heq with h1 _; exact absurd h1 this.2
  · rfl

/-- ParseInt on the base-b spelling of n: n itself when it fits, rejected otherwise -/
theorem parseIntBase_digits (b : Nat) (hb : 2 ≤ b) (hg : GoodBase b) (n : Nat) :
    parseIntBase b (baseDigits b hb n) = if n < 2 ^ 63 then some (BitVec.ofNat 64 n) else none := by
  have hv := digitsValBase_baseDigits b hb hg n 0
  simp only [Nat.zero_mul, Nat.zero_add] at hv
  have hne : (baseDigits b hb n).isEmpty = false := by
    cases hl : baseDigits b hb n with
    | nil => exact absurd hl (baseDigits_ne_nil b hb n)
    | cons => rfl
  unfold parseIntBase
  simp [splitSign_baseDigits b hb hg.2.1, hne, hv]

theorem parseIntBase_neg_digits (b : Nat) (hb : 2 ≤ b) (hg : GoodBase b) (n : Nat) :
    parseIntBase b (45 :: baseDigits b hb n) = if n ≤ 2 ^ 63 then some (BitVec.ofInt 64 (-(n : Int))) else none := by
  have hv := digitsValBase_baseDigits b hb hg n 0
  simp only [Nat.zero_mul, Nat.zero_add] at hv
  have hne : (baseDigits b hb n).isEmpty = false := by
    cases hl : baseDigits b hb n with
    | nil => exact absurd hl (baseDigits_ne_nil b hb n)
    | cons => rfl
  unfold parseIntBase
  simp [splitSign, hne, hv]

theorem toNumberInt_hex (r : Bytes) (h : r.isEmpty = false) : toNumberInt (48 :: 120 :: r) = parseIntBase 16 r := by
  have e : normPrefix (48 :: 120 :: r) = 48 :: 120 :: r := by
    unfold normPrefix; split <;> first | rfl | (rename_i heq; simp at heq)
  unfold toNumberInt
  simp only [e]
  split
  · next heq => rw [h] at heq; cases heq
  · rfl

theorem toNumberInt_bin (r : Bytes) (h : r.isEmpty = false) : toNumberInt (48 :: 98 :: r) = parseIntBase 2 r := by
  have e : normPrefix (48 :: 98 :: r) = 48 :: 98 :: r := by
    unfold normPrefix; split <;> first | rfl | (rename_i heq; simp at heq)
  unfold toNumberInt
  simp only [e]
  split
  · next heq => rw [h] at heq; cases heq
  · rfl

theorem toNumberInt_neghex (r : Bytes) (h : r.isEmpty = false) : toNumberInt (45 :: 48 :: 120 :: r) = parseIntBase 16 (45 :: r) := by
  have e : normPrefix (45 :: 48 :: 120 :: r) = 45 :: 48 :: 120 :: r := by
    unfold normPrefix; split <;> first | rfl | (rename_i heq; simp at heq)
  unfold toNumberInt
  simp only [e]
  split
  · next heq => rw [h] at heq; cases heq
  · rfl

theorem toNumberInt_negbin (r : Bytes) (h : r.isEmpty = false) : toNumberInt (45 :: 48 :: 98 :: r) = parseIntBase 2 (45 :: r) := by
  have e : normPrefix (45 :: 48 :: 98 :: r) = 45 :: 48 :: 98 :: r := by
    unfold normPrefix; split <;> first | rfl | (rename_i heq; simp at heq)
  unfold toNumberInt
  simp only [e]
  split
  · next heq => rw [h] at heq; cases heq
  · rfl

end Anko
