/-
C20, whole evaluator: the interface flag is unobservable - the bundle for every fuel and the
statements about whole programs.
-/
import Anko.Proofs.EvalProvD

set_option linter.unusedSectionVars false
set_option linter.unusedVariables false

namespace Anko
variable [F : FOps] (P Q : Prov)

/-- For every function of the evaluator at every fuel: runs under two provenance policies, from
states equal up to flags (and with arguments equal up to flags), end in states equal up to flags
and return values equal up to flags. -/
theorem prov_all : ∀ n : Nat, ProvIH P Q n := by
  intro n
  induction n with
  | zero => exact {
    evalExpr := by intros; simp_all [evalExpr, sim_outOfFuel, simL_nil, sim_with_cur]
    evalList := by intros; simp_all [evalList, sim_outOfFuel, simL_nil, sim_with_cur]
    evalIndexOpt := by intros; simp_all [evalIndexOpt, sim_outOfFuel, simL_nil, sim_with_cur]
    evalCond := by intros; simp_all [evalCond, sim_outOfFuel, simL_nil, sim_with_cur]
    sliceBegin := by intros; simp_all [sliceBegin, sim_outOfFuel, simL_nil, sim_with_cur]
    sliceEnd := by intros; simp_all [sliceEnd, sim_outOfFuel, simL_nil, sim_with_cur]
    evalMapLit := by intros; simp_all [evalMapLit, sim_outOfFuel, simL_nil, sim_with_cur]
    evalLetsx := by intros; simp_all [evalLetsx, sim_outOfFuel, simL_nil, sim_with_cur]
    letExpr := by intros; simp_all [letExpr, sim_outOfFuel, simL_nil, sim_with_cur]
    callValue := by intros; simp_all [callValue, sim_outOfFuel, simL_nil, sim_with_cur]
    makeCallArgs := by intros; simp_all [makeCallArgs, sim_outOfFuel, simL_nil, sim_with_cur]
    argsTail := by intros; simp_all [argsTail, sim_outOfFuel, simL_nil, sim_with_cur]
    evalArgs := by intros; simp_all [evalArgs, sim_outOfFuel, simL_nil, sim_with_cur]
    evalVarArgs := by intros; simp_all [evalVarArgs, sim_outOfFuel, simL_nil, sim_with_cur]
    callFn := by intros; simp_all [callFn, sim_outOfFuel, simL_nil, sim_with_cur]
    runDefers := by intros; simp_all [runDefers, sim_outOfFuel, simL_nil, sim_with_cur]
    execStmt := by intros; simp_all [execStmt, sim_outOfFuel, simL_nil, sim_with_cur]
    execStmts := by intros; simp_all [execStmts, sim_outOfFuel, simL_nil, sim_with_cur]
    assignAll := by intros; simp_all [assignAll, sim_outOfFuel, simL_nil, sim_with_cur]
    execElifs := by intros; simp_all [execElifs, sim_outOfFuel, simL_nil, sim_with_cur]
    loopIter := by intros; simp_all [loopIter, sim_outOfFuel, simL_nil, sim_with_cur]
    cforIter := by intros; simp_all [cforIter, sim_outOfFuel, simL_nil, sim_with_cur]
    forSlice := by intros; simp_all [forSlice, sim_outOfFuel, simL_nil, sim_with_cur]
    forMap := by intros; simp_all [forMap, sim_outOfFuel, simL_nil, sim_with_cur]
    execReturn := by intros; simp_all [execReturn, sim_outOfFuel, simL_nil, sim_with_cur]
    execCases := by intros; simp_all [execCases, sim_outOfFuel, simL_nil, sim_with_cur]
    matchCase := by intros; simp_all [matchCase, sim_outOfFuel, simL_nil, sim_with_cur]
    registerDefer := by intros; simp_all [registerDefer, sim_outOfFuel, simL_nil, sim_with_cur] }
  | succ n ih => exact {
    evalExpr := prov_evalExpr P Q n ih
    evalList := prov_evalList P Q n ih
    evalIndexOpt := prov_evalIndexOpt P Q n ih
    evalCond := prov_evalCond P Q n ih
    sliceBegin := prov_sliceBegin P Q n ih
    sliceEnd := prov_sliceEnd P Q n ih
    evalMapLit := prov_evalMapLit P Q n ih
    evalLetsx := prov_evalLetsx P Q n ih
    letExpr := prov_letExpr P Q n ih
    callValue := prov_callValue P Q n ih
    makeCallArgs := prov_makeCallArgs P Q n ih
    argsTail := prov_argsTail P Q n ih
    evalArgs := prov_evalArgs P Q n ih
    evalVarArgs := prov_evalVarArgs P Q n ih
    callFn := prov_callFn P Q n ih
    runDefers := prov_runDefers P Q n ih
    execStmt := prov_execStmt P Q n ih
    execStmts := prov_execStmts P Q n ih
    assignAll := prov_assignAll P Q n ih
    execElifs := prov_execElifs P Q n ih
    loopIter := prov_loopIter P Q n ih
    cforIter := prov_cforIter P Q n ih
    forSlice := prov_forSlice P Q n ih
    forMap := prov_forMap P Q n ih
    execReturn := prov_execReturn P Q n ih
    execCases := prov_execCases P Q n ih
    matchCase := prov_matchCase P Q n ih
    registerDefer := prov_registerDefer P Q n ih }

/-- whole programs (RunContext: the program, the top-level defers, ErrReturn mapped to success) -/
theorem prov_runProgram (fuel : Nat) (p : Stmt) {s t : St} (h : Sim s t) :
    Sim (@runProgram F P fuel p s) (@runProgram F Q fuel p t) := by
  unfold runProgram
  have r1 := (prov_all P Q fuel).execStmt p s t h
  generalize @execStmt F P fuel p s = e1 at r1 ⊢
  generalize @execStmt F Q fuel p t = e2 at r1 ⊢
  have r2 : Sim (if e1.defers.isEmpty then e1 else @runDefers F P fuel e1.defers.reverse e1.rv e1.err { e1 with defers := [] })
      (if e2.defers.isEmpty then e2 else @runDefers F Q fuel e2.defers.reverse e2.rv e2.err { e2 with defers := [] }) := by
    rw [← defers_isEmpty_sim r1.defers, ← r1.err]
    split
    · exact r1
    · exact (prov_all P Q fuel).runDefers _ _ _ _ _ _ _ (defers_reverse_sim r1.defers) r1.rv (by sim_rec r1)
  simp only []
  generalize (if e1.defers.isEmpty then e1 else @runDefers F P fuel e1.defers.reverse e1.rv e1.err { e1 with defers := [] }) = u at r2 ⊢
  generalize (if e2.defers.isEmpty then e2 else @runDefers F Q fuel e2.defers.reverse e2.rv e2.err { e2 with defers := [] }) = w at r2 ⊢
  rw [← r2.err]
  split
  · exact sim_with_err r2 _
  · exact r2

end Anko
