/-
C20, whole evaluator - base: states equal up to interface flags (`Sim`), and every primitive of the
state / of the call machinery respects it.
-/
import Anko.Model.Eval

set_option linter.unusedSectionVars false
set_option linter.unusedVariables false

namespace Anko
variable [F : FOps]

def RV.er (r : RV) : RV := ⟨false, r.v⟩
def erp (p : String × RV) : String × RV := (p.1, p.2.er)
def Scope.er (sc : Scope) : Scope := { sc with vars := sc.vars.map erp }
def Deferred.er (d : Deferred) : Deferred := { d with args := d.args.map RV.er }
/-- the state with every interface flag cleared -/
def St.er (s : St) : St :=
  { s with scopes := s.scopes.map Scope.er, rv := s.rv.er, defers := s.defers.map Deferred.er }

/-- equal up to interface flags -/
def Sim (s t : St) : Prop := s.er = t.er
/-- value lists equal up to flags -/
def SimL (a b : List RV) : Prop := a.map RV.er = b.map RV.er

theorem rv_er_iff (a b : RV) : a.er = b.er ↔ a.v = b.v := by
  cases a; cases b; simp [RV.er]
@[simp] theorem er_er (a : RV) : a.er.er = a.er := rfl
@[simp] theorem er_v (a : RV) : a.er.v = a.v := rfl
@[simp] theorem nilRV_er : nilRV.er = nilRV := rfl

theorem Sim.refl (s : St) : Sim s s := rfl
theorem Sim.symm {s t : St} (h : Sim s t) : Sim t s := Eq.symm h
theorem Sim.trans {s t u : St} (h1 : Sim s t) (h2 : Sim t u) : Sim s u := Eq.trans h1 h2

/-! ### projections -/
theorem Sim.err {s t : St} (h : Sim s t) : s.err = t.err := by
  have := congrArg St.err (show s.er = t.er from h); exact this
theorem Sim.cur {s t : St} (h : Sim s t) : s.cur = t.cur := by
  have := congrArg St.cur (show s.er = t.er from h); exact this
theorem Sim.polls {s t : St} (h : Sim s t) : s.polls = t.polls := by
  have := congrArg St.polls (show s.er = t.er from h); exact this
theorem Sim.cancelAt {s t : St} (h : Sim s t) : s.cancelAt = t.cancelAt := by
  have := congrArg St.cancelAt (show s.er = t.er from h); exact this
theorem Sim.unsup {s t : St} (h : Sim s t) : s.unsup = t.unsup := by
  have := congrArg St.unsup (show s.er = t.er from h); exact this
theorem Sim.trace {s t : St} (h : Sim s t) : s.trace = t.trace := by
  have := congrArg St.trace (show s.er = t.er from h); exact this
theorem Sim.closures {s t : St} (h : Sim s t) : s.closures = t.closures := by
  have := congrArg St.closures (show s.er = t.er from h); exact this
theorem Sim.rv {s t : St} (h : Sim s t) : s.rv.v = t.rv.v := by
  have := congrArg St.rv (show s.er = t.er from h); exact (rv_er_iff _ _).mp this
theorem Sim.rve {s t : St} (h : Sim s t) : s.rv.er = t.rv.er := by
  have := congrArg St.rv (show s.er = t.er from h); exact this
theorem Sim.scopes {s t : St} (h : Sim s t) : s.scopes.map Scope.er = t.scopes.map Scope.er := by
  have := congrArg St.scopes (show s.er = t.er from h); exact this
theorem Sim.defers {s t : St} (h : Sim s t) : s.defers.map Deferred.er = t.defers.map Deferred.er := by
  have := congrArg St.defers (show s.er = t.er from h); exact this
theorem Sim.size {s t : St} (h : Sim s t) : s.scopes.size = t.scopes.size := by
  have := congrArg Array.size h.scopes; simpa using this

/-! ### record updates -/
theorem sim_with_rv {s t : St} (h : Sim s t) {a b : RV} (hab : a.v = b.v) : Sim { s with rv := a } { t with rv := b } := by
  have := (rv_er_iff a b).mpr hab
  unfold Sim St.er at *; simp_all
theorem sim_with_err {s t : St} (h : Sim s t) (e : Option Err) : Sim { s with err := e } { t with err := e } := by
  unfold Sim St.er at *; simp_all
theorem sim_with_cur {s t : St} (h : Sim s t) (c : Nat) : Sim { s with cur := c } { t with cur := c } := by
  unfold Sim St.er at *; simp_all
theorem sim_with_rv_err {s t : St} (h : Sim s t) {a b : RV} (hab : a.v = b.v) (e : Option Err) :
    Sim { s with rv := a, err := e } { t with rv := b, err := e } := by
  have := (rv_er_iff a b).mpr hab
  unfold Sim St.er at *; simp_all
theorem sim_with_rv_cur {s t : St} (h : Sim s t) {a b : RV} (hab : a.v = b.v) (c : Nat) :
    Sim { s with rv := a, cur := c } { t with rv := b, cur := c } := by
  have := (rv_er_iff a b).mpr hab
  unfold Sim St.er at *; simp_all
theorem sim_with_trace {s t : St} (h : Sim s t) (tr : Array Val) : Sim { s with trace := s.trace ++ tr } { t with trace := t.trace ++ tr } := by
  unfold Sim St.er at *; simp_all
theorem sim_with_defers {s t : St} (h : Sim s t) {d e : List Deferred} (hd : d.map Deferred.er = e.map Deferred.er) :
    Sim { s with defers := d } { t with defers := e } := by
  unfold Sim St.er at *; simp_all

/-- componentwise: any record update of related states -/
theorem sim_mk {sc sc' : Array Scope} {cl cl' : Array Closure} {tr tr' : Array Val} {po po' : Nat} {ca ca' : Option Nat}
    {un un' : Option String} {cu cu' : Nat} {rv rv' : RV} {er er' : Option Err} {de de' : List Deferred}
    (h1 : sc.map Scope.er = sc'.map Scope.er) (h2 : cl = cl') (h3 : tr = tr') (h4 : po = po') (h5 : ca = ca') (h6 : un = un')
    (h7 : cu = cu') (h8 : rv.v = rv'.v) (h9 : er = er') (h10 : de.map Deferred.er = de'.map Deferred.er) :
    Sim ⟨sc, cl, tr, po, ca, un, cu, rv, er, de⟩ ⟨sc', cl', tr', po', ca', un', cu', rv', er', de'⟩ := by
  have := (rv_er_iff rv rv').mpr h8
  unfold Sim St.er; simp_all

/-- close `Sim` of two record updates of related states (`h : Sim s t`) -/
macro "sim_rec " h:term : tactic => `(tactic| (apply sim_mk <;> first | exact ($h).scopes | exact ($h).closures | exact ($h).trace | exact ($h).polls | exact ($h).cancelAt | exact ($h).unsup | exact ($h).cur | exact ($h).rv | exact ($h).err | exact ($h).defers | rfl | (simp_all [($h).err])))

theorem simL_cons_inv {a : RV} {as : List RV} {l : List RV} (h : SimL (a :: as) l) : ∃ b bs, l = b :: bs ∧ a.v = b.v ∧ SimL as bs := by
  cases l with
  | nil => simp [SimL] at h
  | cons b bs =>
    simp only [SimL, List.map_cons, List.cons.injEq] at h
    exact ⟨b, bs, rfl, (rv_er_iff _ _).mp h.1, h.2⟩
theorem simL_nil_inv {l : List RV} (h : SimL [] l) : l = [] := by
  cases l with
  | nil => rfl
  | cons b bs => simp [SimL] at h

/-- the ubiquitous `if s1.err.isSome then .. else ..` read on both sides -/
theorem sim_ite_err {s1 t1 : St} (h : Sim s1 t1) {a a' b b' : St} (h2 : Sim a a') (h3 : s1.err.isSome = false → Sim b b') :
    Sim (if s1.err.isSome = true then a else b) (if t1.err.isSome = true then a' else b') := by
  rw [← h.err]
  cases he : s1.err.isSome with
  | true => simpa using h2
  | false => simpa using h3 he

/-! ### state primitives -/
theorem sim_fail {s t : St} (h : Sim s t) (m : String) : Sim (s.fail m) (t.fail m) := by
  unfold Sim St.er St.fail at *; simp_all
theorem sim_markUnsup {s t : St} (h : Sim s t) (m : String) : Sim (s.markUnsup m) (t.markUnsup m) := by
  unfold Sim St.er St.markUnsup at *; simp_all
theorem sim_outOfFuel {s t : St} (h : Sim s t) : Sim (outOfFuel s) (outOfFuel t) := sim_markUnsup h _
theorem sim_poll {s t : St} (h : Sim s t) : s.poll.1 = t.poll.1 ∧ Sim s.poll.2 t.poll.2 := by
  have h1 := h.cancelAt; have h2 := h.polls
  constructor
  · simp [St.poll, h1, h2]
  · unfold Sim St.er St.poll at *; simp_all
theorem sim_newScope {s t : St} (h : Sim s t) (p : Nat) : (s.newScope p).1 = (t.newScope p).1 ∧ Sim (s.newScope p).2 (t.newScope p).2 := by
  have hs := h.size
  constructor
  · simp [St.newScope, hs]
  · unfold Sim St.er St.newScope at *; simp_all [Scope.er]
theorem sim_addClosure {s t : St} (h : Sim s t) (c : Closure) : (s.addClosure c).1 = (t.addClosure c).1 ∧ Sim (s.addClosure c).2 (t.addClosure c).2 := by
  have hc := h.closures
  constructor
  · simp [St.addClosure, hc]
  · unfold Sim St.er St.addClosure at *; simp_all
theorem sim_traceVal {s t : St} (h : Sim s t) (v : Val) : Sim (s.traceVal v) (t.traceVal v) := by
  unfold Sim St.er St.traceVal at *; simp_all

theorem assocSet_er (n : String) (v : RV) (l : List (String × RV)) :
    (St.assocSet n v l).map erp = St.assocSet n v.er (l.map erp) := by
  induction l with
  | nil => rfl
  | cons x xs ih =>
    obtain ⟨k, w⟩ := x
    simp only [St.assocSet, List.map_cons, erp]
    split
    · rfl
    · simp only [List.map_cons, erp, ih]

theorem er_define (s : St) (i : Nat) (n : String) (v : RV) : (s.define i n v).er = s.er.define i n v.er := by
  unfold St.define
  by_cases hi : i < s.scopes.size
  · have hi' : i < s.er.scopes.size := by simpa [St.er] using hi
    rw [dif_pos hi, dif_pos hi']
    simp only [St.er, Array.map_set, Scope.er, assocSet_er, Array.getElem_map]
  · have hi' : ¬ i < s.er.scopes.size := by simpa [St.er] using hi
    rw [dif_neg hi, dif_neg hi']

theorem sim_define {s t : St} (h : Sim s t) (i : Nat) (n : String) {a b : RV} (hab : a.v = b.v) :
    Sim (s.define i n a) (t.define i n b) := by
  unfold Sim at *
  rw [er_define, er_define, h, (rv_er_iff a b).mpr hab]

/-- binding lists equal up to flags -/
def SimB (a b : List (String × RV)) : Prop := a.map erp = b.map erp

theorem sim_defineAll : ∀ (l m : List (String × RV)) (s t : St) (i : Nat), Sim s t → SimB l m → Sim (s.defineAll i l) (t.defineAll i m) := by
  intro l
  induction l with
  | nil =>
    intro m s t i h hb
    cases m with
    | nil => exact h
    | cons y ys => simp [SimB] at hb
  | cons x xs ih =>
    intro m s t i h hb
    cases m with
    | nil => simp [SimB] at hb
    | cons y ys =>
      obtain ⟨n1, v1⟩ := x
      obtain ⟨n2, v2⟩ := y
      simp only [SimB, List.map_cons, List.cons.injEq, erp, Prod.mk.injEq] at hb
      obtain ⟨⟨hn, hv⟩, hrest⟩ := hb
      subst hn
      simp only [St.defineAll]
      exact ih ys _ _ i (sim_define h i n1 ((rv_er_iff _ _).mp hv)) hrest

theorem simB_zip (ns : List String) : ∀ (a b : List RV), SimL a b → SimB (ns.zip a) (ns.zip b) := by
  induction ns with
  | nil => intro a b _; rfl
  | cons n ns ih =>
    intro a b h
    cases a with
    | nil => cases b with
      | nil => rfl
      | cons y ys => simp [SimL] at h
    | cons x xs => cases b with
      | nil => simp [SimL] at h
      | cons y ys =>
        simp only [SimL, List.map_cons, List.cons.injEq] at h
        simp only [SimB, List.zip_cons_cons, List.map_cons, erp, h.1, List.cons.injEq, true_and]
        exact ih xs ys h.2

theorem lookup_er (n : String) (l : List (String × RV)) : (l.map erp).lookup n = (l.lookup n).map RV.er := by
  induction l with
  | nil => rfl
  | cons x xs ih =>
    obtain ⟨k, w⟩ := x
    simp only [List.map_cons, erp, List.lookup_cons]
    split <;> simp_all

theorem lookupFrom_er (scopes : Array Scope) : ∀ (fuel i : Nat) (n : String),
    St.lookupFrom (scopes.map Scope.er) fuel i n = (St.lookupFrom scopes fuel i n).map (fun p => (p.1, p.2.er)) := by
  intro fuel
  induction fuel with
  | zero => intro i n; rfl
  | succ f ih =>
    intro i n
    unfold St.lookupFrom
    by_cases hi : i < scopes.size
    · have hi' : i < (scopes.map Scope.er).size := by simpa using hi
      rw [dif_pos hi, dif_pos hi']
      simp only [Array.getElem_map, Scope.er, lookup_er]
      cases h : scopes[i].vars.lookup n with
      | some v => simp
      | none =>
        simp only [Option.map_none]
        cases hp : scopes[i].parent with
        | none => simp
        | some p => simp [ih]
    · have hi' : ¬ i < (scopes.map Scope.er).size := by simpa using hi
      rw [dif_neg hi, dif_neg hi']
      rfl

theorem er_getValue (s : St) (i : Nat) (n : String) : s.er.getValue i n = (s.getValue i n).map RV.er := by
  unfold St.getValue
  have : s.er.scopes = s.scopes.map Scope.er := rfl
  rw [this, lookupFrom_er]
  simp [Function.comp_def]

theorem sim_getValue {s t : St} (h : Sim s t) (i : Nat) (n : String) :
    (s.getValue i n).map RV.er = (t.getValue i n).map RV.er := by
  rw [← er_getValue, ← er_getValue, h]

/-- the two lookups succeed together, with values equal up to flags -/
theorem sim_getValue_cases {s t : St} (h : Sim s t) (i : Nat) (n : String) :
    (s.getValue i n = none ∧ t.getValue i n = none) ∨
    (∃ a b, s.getValue i n = some a ∧ t.getValue i n = some b ∧ a.v = b.v) := by
  have := sim_getValue h i n
  cases h1 : s.getValue i n with
  | none => cases h2 : t.getValue i n with
    | none => left; exact ⟨rfl, rfl⟩
    | some b => simp [h1, h2] at this
  | some a => cases h2 : t.getValue i n with
    | none => simp [h1, h2] at this
    | some b =>
      right
      simp only [h1, h2, Option.map_some, Option.some.injEq] at this
      exact ⟨a, b, rfl, rfl, (rv_er_iff _ _).mp this⟩

theorem er_setValue (s : St) (i : Nat) (n : String) (v : RV) : s.er.setValue i n v.er = (s.setValue i n v).map St.er := by
  unfold St.setValue
  have : s.er.scopes = s.scopes.map Scope.er := rfl
  rw [this, lookupFrom_er]
  cases h : St.lookupFrom s.scopes (s.scopes.size + 1) i n with
  | none => simp [h]
  | some p => simp [h, er_define]

theorem sim_setValue_cases {s t : St} (h : Sim s t) (i : Nat) (n : String) {a b : RV} (hab : a.v = b.v) :
    (s.setValue i n a = none ∧ t.setValue i n b = none) ∨
    (∃ s' t', s.setValue i n a = some s' ∧ t.setValue i n b = some t' ∧ Sim s' t') := by
  have e1 := er_setValue s i n a
  have e2 := er_setValue t i n b
  have hab' := (rv_er_iff a b).mpr hab
  unfold Sim at h
  rw [h, hab'] at e1
  rw [e1] at e2
  cases h1 : s.setValue i n a with
  | none => cases h2 : t.setValue i n b with
    | none => left; exact ⟨rfl, rfl⟩
    | some t' => simp [h1, h2] at e2
  | some s' => cases h2 : t.setValue i n b with
    | none => simp [h1, h2] at e2
    | some t' =>
      right
      simp only [h1, h2, Option.map_some, Option.some.injEq] at e2
      exact ⟨s', t', rfl, rfl, e2⟩

theorem sim_assign {s t : St} (h : Sim s t) (n : String) {a b : RV} (hab : a.v = b.v) : Sim (s.assign n a) (t.assign n b) := by
  unfold St.assign
  rw [h.cur]
  rcases sim_setValue_cases h t.cur n hab with ⟨h1, h2⟩ | ⟨s', t', h1, h2, h3⟩
  · simp only [h1, h2]; exact sim_define h _ _ hab
  · simp only [h1, h2]; exact h3

theorem sim_assignIn {s t : St} (h : Sim s t) (i : Nat) (n : String) {a b : RV} (hab : a.v = b.v) : Sim (s.assignIn i n a) (t.assignIn i n b) := by
  unfold St.assignIn
  rcases sim_setValue_cases h i n hab with ⟨h1, h2⟩ | ⟨s', t', h1, h2, h3⟩
  · simp only [h1, h2]; exact sim_with_rv_err h rfl _
  · simp only [h1, h2]; exact h3

theorem sim_opRes {s t : St} (h : Sim s t) (r : OpRes) : Sim (opRes s r) (opRes t r) := by
  cases r with
  | ok v => exact sim_with_rv h rfl
  | err m => exact sim_fail h m
  | unsupported => exact sim_markUnsup h _

theorem sim_calleeOf {s t : St} (h : Sim s t) (f : Val) : calleeOf s f = calleeOf t f := by
  unfold calleeOf; rw [h.closures]

/-! ### value lists -/
theorem simL_nil : SimL [] [] := rfl
theorem simL_cons {a b : RV} {as bs : List RV} (h1 : a.v = b.v) (h2 : SimL as bs) : SimL (a :: as) (b :: bs) := by
  unfold SimL at *; simp [(rv_er_iff a b).mpr h1, h2]
theorem simL_append {a b c d : List RV} (h1 : SimL a b) (h2 : SimL c d) : SimL (a ++ c) (b ++ d) := by
  unfold SimL at *; simp [h1, h2]
theorem simL_vals {a b : List RV} (h : SimL a b) : a.map (·.v) = b.map (·.v) := by
  have := congrArg (List.map RV.v) h
  simpa [Function.comp_def] using this
theorem simL_length {a b : List RV} (h : SimL a b) : a.length = b.length := by
  have := congrArg List.length h; simpa using this
theorem simL_take {a b : List RV} (h : SimL a b) (n : Nat) : SimL (a.take n) (b.take n) := by
  unfold SimL at *; rw [List.map_take, List.map_take, h]
theorem simL_drop {a b : List RV} (h : SimL a b) (n : Nat) : SimL (a.drop n) (b.drop n) := by
  unfold SimL at *; rw [List.map_drop, List.map_drop, h]
theorem simL_refl (a : List RV) : SimL a a := rfl
theorem simL_of_vals (xs : List Val) (f g : Val → RV) (hf : ∀ x, (f x).v = (g x).v) : SimL (xs.map f) (xs.map g) := by
  unfold SimL
  simp only [List.map_map]
  apply List.map_congr_left
  intro x _
  exact (rv_er_iff _ _).mpr (hf x)

end Anko
