/-
Fuel independence: whenever a model function produces an answer inside the modelled fragment
(the "unsupported / out of fuel" marker is not set), one more unit of fuel gives the same answer.
-/
import Anko.Proofs.EvalSticky

set_option linter.unusedSectionVars false
set_option linter.unusedVariables false
set_option maxHeartbeats 1600000

namespace Anko
variable [FOps] [Prov]

theorem fail_unsup (s : St) (m : String) : (s.fail m).unsup = s.unsup := rfl
theorem defineAll_unsup (l : List (String × RV)) : ∀ (s : St) (i : Nat), (s.defineAll i l).unsup = s.unsup := by
  induction l with
  | nil => intro s i; rfl
  | cons x xs ih => intro s i; obtain ⟨n, v⟩ := x; simp only [St.defineAll]; rw [ih, define_unsup]
theorem setValue_unsup (s s' : St) (i : Nat) (n : String) (v : RV) (h : s.setValue i n v = some s') : s'.unsup = s.unsup := by
  unfold St.setValue at h
  split at h
  · injection h with h; subst h; exact define_unsup _ _ _ _
  · cases h
theorem assign_unsup (s : St) (n : String) (v : RV) : (s.assign n v).unsup = s.unsup := by
  unfold St.assign
  cases h : s.setValue s.cur n v with
  | some s' => exact setValue_unsup _ _ _ _ _ h
  | none => exact define_unsup _ _ _ _
theorem assignIn_unsup (s : St) (i : Nat) (n : String) (v : RV) : (s.assignIn i n v).unsup = s.unsup := by
  unfold St.assignIn
  cases h : s.setValue i n v with
  | some s' => exact setValue_unsup _ _ _ _ _ h
  | none => rfl
theorem opRes_unsup_none (s : St) (r : OpRes) (h : (opRes s r).unsup = none) : s.unsup = none := by
  cases r <;> simp_all [opRes, St.fail]
  exact absurd h (markUnsup_marked _ _)
theorem newScope_unsup (s : St) (p : Nat) : (s.newScope p).2.unsup = s.unsup := rfl
theorem addClosure_unsup (s : St) (c : Closure) : (s.addClosure c).2.unsup = s.unsup := rfl
theorem poll_unsup (s : St) : s.poll.2.unsup = s.unsup := rfl
theorem outOfFuel_marked (s : St) : (outOfFuel s).unsup ≠ none := markUnsup_marked _ _

structure FuelIH (n : Nat) : Prop where
  evalExpr : ∀ e s, (evalExpr n e s).unsup = none → evalExpr (n + 1) e s = evalExpr n e s
  evalList : ∀ es s, (evalList n es s).2.unsup = none → evalList (n + 1) es s = evalList n es s
  evalIndexOpt : ∀ oe d s, (evalIndexOpt n oe d s).2.unsup = none → evalIndexOpt (n + 1) oe d s = evalIndexOpt n oe d s
  evalCond : ∀ oe s, (evalCond n oe s).2.unsup = none → evalCond (n + 1) oe s = evalCond n oe s
  sliceBegin : ∀ it len b e hc s, (sliceBegin n it len b e hc s).unsup = none → sliceBegin (n + 1) it len b e hc s = sliceBegin n it len b e hc s
  sliceEnd : ∀ it len bi e hc s, (sliceEnd n it len bi e hc s).unsup = none → sliceEnd (n + 1) it len bi e hc s = sliceEnd n it len bi e hc s
  evalMapLit : ∀ ks vs acc s, (evalMapLit n ks vs acc s).unsup = none → evalMapLit (n + 1) ks vs acc s = evalMapLit n ks vs acc s
  evalLetsx : ∀ l r i s, (evalLetsx n l r i s).unsup = none → evalLetsx (n + 1) l r i s = evalLetsx n l r i s
  letExpr : ∀ e s, (letExpr n e s).unsup = none → letExpr (n + 1) e s = letExpr n e s
  callValue : ∀ f a va s, (callValue n f a va s).unsup = none → callValue (n + 1) f a va s = callValue n f a va s
  makeCallArgs : ∀ c a va s, (makeCallArgs n c a va s).2.unsup = none → makeCallArgs (n + 1) c a va s = makeCallArgs n c a va s
  argsTail : ∀ c r nl va ne lead s, (argsTail n c r nl va ne lead s).2.unsup = none → argsTail (n + 1) c r nl va ne lead s = argsTail n c r nl va ne lead s
  evalArgs : ∀ c es i s, (evalArgs n c es i s).2.unsup = none → evalArgs (n + 1) c es i s = evalArgs n c es i s
  evalVarArgs : ∀ c es s, (evalVarArgs n c es s).2.unsup = none → evalVarArgs (n + 1) c es s = evalVarArgs n c es s
  callFn : ∀ f a cs s, (callFn n f a cs s).unsup = none → callFn (n + 1) f a cs s = callFn n f a cs s
  runDefers : ∀ ds rv err s, (runDefers n ds rv err s).unsup = none → runDefers (n + 1) ds rv err s = runDefers n ds rv err s
  execStmt : ∀ st s, (execStmt n st s).unsup = none → execStmt (n + 1) st s = execStmt n st s
  execStmts : ∀ ss s, (execStmts n ss s).unsup = none → execStmts (n + 1) ss s = execStmts n ss s
  assignAll : ∀ l v s, (assignAll n l v s).unsup = none → assignAll (n + 1) l v s = assignAll n l v s
  execElifs : ∀ el els env s, (execElifs n el els env s).unsup = none → execElifs (n + 1) el els env s = execElifs n el els env s
  loopIter : ∀ c b s, (loopIter n c b s).unsup = none → loopIter (n + 1) c b s = loopIter n c b s
  cforIter : ∀ c p b s, (cforIter n c p b s).unsup = none → cforIter (n + 1) c p b s = cforIter n c p b s
  forSlice : ∀ v b xs s, (forSlice n v b xs s).unsup = none → forSlice (n + 1) v b xs s = forSlice n v b xs s
  forMap : ∀ vs b m s, (forMap n vs b m s).unsup = none → forMap (n + 1) vs b m s = forMap n vs b m s
  execReturn : ∀ es s, (execReturn n es s).unsup = none → execReturn (n + 1) es s = execReturn n es s
  execCases : ∀ subj cs d s, (execCases n subj cs d s).unsup = none → execCases (n + 1) subj cs d s = execCases n subj cs d s
  matchCase : ∀ subj es s, (matchCase n subj es s).2.unsup = none → matchCase (n + 1) subj es s = matchCase n subj es s
  registerDefer : ∀ f a va s, (registerDefer n f a va s).unsup = none → registerDefer (n + 1) f a va s = registerDefer n f a va s

macro "fuel_grind" ih:ident st:ident : tactic => `(tactic| (
  have hh0 := ($ih).evalExpr
  have kk0 := ($st).evalExpr
  have hh1 := ($ih).evalList
  have kk1 := ($st).evalList
  have hh2 := ($ih).evalIndexOpt
  have kk2 := ($st).evalIndexOpt
  have hh3 := ($ih).evalCond
  have kk3 := ($st).evalCond
  have hh4 := ($ih).sliceBegin
  have kk4 := ($st).sliceBegin
  have hh5 := ($ih).sliceEnd
  have kk5 := ($st).sliceEnd
  have hh6 := ($ih).evalMapLit
  have kk6 := ($st).evalMapLit
  have hh7 := ($ih).evalLetsx
  have kk7 := ($st).evalLetsx
  have hh8 := ($ih).letExpr
  have kk8 := ($st).letExpr
  have hh9 := ($ih).callValue
  have kk9 := ($st).callValue
  have hh10 := ($ih).makeCallArgs
  have kk10 := ($st).makeCallArgs
  have hh11 := ($ih).argsTail
  have kk11 := ($st).argsTail
  have hh12 := ($ih).evalArgs
  have kk12 := ($st).evalArgs
  have hh13 := ($ih).evalVarArgs
  have kk13 := ($st).evalVarArgs
  have hh14 := ($ih).callFn
  have kk14 := ($st).callFn
  have hh15 := ($ih).runDefers
  have kk15 := ($st).runDefers
  have hh16 := ($ih).execStmt
  have kk16 := ($st).execStmt
  have hh17 := ($ih).execStmts
  have kk17 := ($st).execStmts
  have hh18 := ($ih).assignAll
  have kk18 := ($st).assignAll
  have hh19 := ($ih).execElifs
  have kk19 := ($st).execElifs
  have hh20 := ($ih).loopIter
  have kk20 := ($st).loopIter
  have hh21 := ($ih).cforIter
  have kk21 := ($st).cforIter
  have hh22 := ($ih).forSlice
  have kk22 := ($st).forSlice
  have hh23 := ($ih).forMap
  have kk23 := ($st).forMap
  have hh24 := ($ih).execReturn
  have kk24 := ($st).execReturn
  have hh25 := ($ih).execCases
  have kk25 := ($st).execCases
  have hh26 := ($ih).matchCase
  have kk26 := ($st).matchCase
  have hh27 := ($ih).registerDefer
  have kk27 := ($st).registerDefer
  grind (splits := 60) [Stick, markUnsup_marked, fail_unsup, define_unsup, defineAll_unsup, assign_unsup, assignIn_unsup, opRes_unsup_none, newScope_unsup, addClosure_unsup, poll_unsup, outOfFuel_marked, stick_sliceResult, stick_spreadFixed, stick_spreadVariadic, stick_convertArgs, stick_opRes, stick_defineAll]))

theorem fuel_evalExpr (n : Nat) (ih : FuelIH n) (st : StickIH n) : ∀ e s, (evalExpr (n + 1) e s).unsup = none → evalExpr ((n + 1) + 1) e s = evalExpr (n + 1) e s := by
  intro e s h
  cases e <;> simp only [evalExpr] at h ⊢ <;> fuel_grind ih st

theorem fuel_evalList (n : Nat) (ih : FuelIH n) (st : StickIH n) : ∀ es s, (evalList (n + 1) es s).2.unsup = none → evalList ((n + 1) + 1) es s = evalList (n + 1) es s := by
  intro es s h
  rw [evalList.eq_def] at h
  rw [evalList.eq_def (n + 1 + 1), evalList.eq_def (n + 1)]
  fuel_grind ih st

theorem fuel_evalIndexOpt (n : Nat) (ih : FuelIH n) (st : StickIH n) : ∀ oe d s, (evalIndexOpt (n + 1) oe d s).2.unsup = none → evalIndexOpt ((n + 1) + 1) oe d s = evalIndexOpt (n + 1) oe d s := by
  intro oe d s h
  rw [evalIndexOpt.eq_def] at h
  rw [evalIndexOpt.eq_def (n + 1 + 1), evalIndexOpt.eq_def (n + 1)]
  fuel_grind ih st

theorem fuel_evalCond (n : Nat) (ih : FuelIH n) (st : StickIH n) : ∀ oe s, (evalCond (n + 1) oe s).2.unsup = none → evalCond ((n + 1) + 1) oe s = evalCond (n + 1) oe s := by
  intro oe s h
  rw [evalCond.eq_def] at h
  rw [evalCond.eq_def (n + 1 + 1), evalCond.eq_def (n + 1)]
  fuel_grind ih st

theorem fuel_sliceBegin (n : Nat) (ih : FuelIH n) (st : StickIH n) : ∀ it len b e hc s, (sliceBegin (n + 1) it len b e hc s).unsup = none → sliceBegin ((n + 1) + 1) it len b e hc s = sliceBegin (n + 1) it len b e hc s := by
  intro it len b e hc s h
  rw [sliceBegin.eq_def] at h
  rw [sliceBegin.eq_def (n + 1 + 1), sliceBegin.eq_def (n + 1)]
  fuel_grind ih st

theorem fuel_sliceEnd (n : Nat) (ih : FuelIH n) (st : StickIH n) : ∀ it len bi e hc s, (sliceEnd (n + 1) it len bi e hc s).unsup = none → sliceEnd ((n + 1) + 1) it len bi e hc s = sliceEnd (n + 1) it len bi e hc s := by
  intro it len bi e hc s h
  rw [sliceEnd.eq_def] at h
  rw [sliceEnd.eq_def (n + 1 + 1), sliceEnd.eq_def (n + 1)]
  fuel_grind ih st

theorem fuel_evalMapLit (n : Nat) (ih : FuelIH n) (st : StickIH n) : ∀ ks vs acc s, (evalMapLit (n + 1) ks vs acc s).unsup = none → evalMapLit ((n + 1) + 1) ks vs acc s = evalMapLit (n + 1) ks vs acc s := by
  intro ks vs acc s h
  rw [evalMapLit.eq_def] at h
  rw [evalMapLit.eq_def (n + 1 + 1), evalMapLit.eq_def (n + 1)]
  fuel_grind ih st

theorem fuel_evalLetsx (n : Nat) (ih : FuelIH n) (st : StickIH n) : ∀ l r i s, (evalLetsx (n + 1) l r i s).unsup = none → evalLetsx ((n + 1) + 1) l r i s = evalLetsx (n + 1) l r i s := by
  intro l r i s h
  rw [evalLetsx.eq_def] at h
  rw [evalLetsx.eq_def (n + 1 + 1), evalLetsx.eq_def (n + 1)]
  fuel_grind ih st

theorem fuel_letExpr (n : Nat) (ih : FuelIH n) (st : StickIH n) : ∀ e s, (letExpr (n + 1) e s).unsup = none → letExpr ((n + 1) + 1) e s = letExpr (n + 1) e s := by
  intro e s h
  rw [letExpr.eq_def] at h
  rw [letExpr.eq_def (n + 1 + 1), letExpr.eq_def (n + 1)]
  fuel_grind ih st

theorem fuel_callValue (n : Nat) (ih : FuelIH n) (st : StickIH n) : ∀ f a va s, (callValue (n + 1) f a va s).unsup = none → callValue ((n + 1) + 1) f a va s = callValue (n + 1) f a va s := by
  intro f a va s h
  rw [callValue.eq_def] at h
  rw [callValue.eq_def (n + 1 + 1), callValue.eq_def (n + 1)]
  fuel_grind ih st

theorem fuel_makeCallArgs (n : Nat) (ih : FuelIH n) (st : StickIH n) : ∀ c a va s, (makeCallArgs (n + 1) c a va s).2.unsup = none → makeCallArgs ((n + 1) + 1) c a va s = makeCallArgs (n + 1) c a va s := by
  intro c a va s h
  rw [makeCallArgs.eq_def] at h
  rw [makeCallArgs.eq_def (n + 1 + 1), makeCallArgs.eq_def (n + 1)]
  fuel_grind ih st

theorem fuel_argsTail (n : Nat) (ih : FuelIH n) (st : StickIH n) : ∀ c r nl va ne lead s, (argsTail (n + 1) c r nl va ne lead s).2.unsup = none → argsTail ((n + 1) + 1) c r nl va ne lead s = argsTail (n + 1) c r nl va ne lead s := by
  intro c r nl va ne lead s h
  rw [argsTail.eq_def] at h
  rw [argsTail.eq_def (n + 1 + 1), argsTail.eq_def (n + 1)]
  fuel_grind ih st

theorem fuel_evalArgs (n : Nat) (ih : FuelIH n) (st : StickIH n) : ∀ c es i s, (evalArgs (n + 1) c es i s).2.unsup = none → evalArgs ((n + 1) + 1) c es i s = evalArgs (n + 1) c es i s := by
  intro c es i s h
  rw [evalArgs.eq_def] at h
  rw [evalArgs.eq_def (n + 1 + 1), evalArgs.eq_def (n + 1)]
  fuel_grind ih st

theorem fuel_evalVarArgs (n : Nat) (ih : FuelIH n) (st : StickIH n) : ∀ c es s, (evalVarArgs (n + 1) c es s).2.unsup = none → evalVarArgs ((n + 1) + 1) c es s = evalVarArgs (n + 1) c es s := by
  intro c es s h
  rw [evalVarArgs.eq_def] at h
  rw [evalVarArgs.eq_def (n + 1 + 1), evalVarArgs.eq_def (n + 1)]
  fuel_grind ih st

theorem fuel_callFn (n : Nat) (ih : FuelIH n) (st : StickIH n) : ∀ f a cs s, (callFn (n + 1) f a cs s).unsup = none → callFn ((n + 1) + 1) f a cs s = callFn (n + 1) f a cs s := by
  intro f a cs s h
  have h1 := ih.execStmt
  have h2 := ih.runDefers
  have k1 := st.runDefers
  cases f
  case fn id =>
    rw [callFn.eq_def] at h
    rw [callFn.eq_def (n + 1 + 1), callFn.eq_def (n + 1)]
    grind (splits := 60) [Stick, markUnsup_marked]
  all_goals (rw [callFn.eq_def (n + 1 + 1), callFn.eq_def (n + 1)])

theorem fuel_runDefers (n : Nat) (ih : FuelIH n) (st : StickIH n) : ∀ ds rv err s, (runDefers (n + 1) ds rv err s).unsup = none → runDefers ((n + 1) + 1) ds rv err s = runDefers (n + 1) ds rv err s := by
  intro ds rv err s h
  rw [runDefers.eq_def] at h
  rw [runDefers.eq_def (n + 1 + 1), runDefers.eq_def (n + 1)]
  fuel_grind ih st

theorem fuel_execStmt (n : Nat) (ih : FuelIH n) (st : StickIH n) : ∀ st s, (execStmt (n + 1) st s).unsup = none → execStmt ((n + 1) + 1) st s = execStmt (n + 1) st s := by
  intro st s h
  cases st <;> rw [execStmt.eq_def] at h <;> rw [execStmt.eq_def (n + 1 + 1), execStmt.eq_def (n + 1)] <;> fuel_grind ih st

theorem fuel_execStmts (n : Nat) (ih : FuelIH n) (st : StickIH n) : ∀ ss s, (execStmts (n + 1) ss s).unsup = none → execStmts ((n + 1) + 1) ss s = execStmts (n + 1) ss s := by
  intro ss s h
  rw [execStmts.eq_def] at h
  rw [execStmts.eq_def (n + 1 + 1), execStmts.eq_def (n + 1)]
  fuel_grind ih st

theorem fuel_assignAll (n : Nat) (ih : FuelIH n) (st : StickIH n) : ∀ l v s, (assignAll (n + 1) l v s).unsup = none → assignAll ((n + 1) + 1) l v s = assignAll (n + 1) l v s := by
  intro l v s h
  rw [assignAll.eq_def] at h
  rw [assignAll.eq_def (n + 1 + 1), assignAll.eq_def (n + 1)]
  fuel_grind ih st

theorem fuel_execElifs (n : Nat) (ih : FuelIH n) (st : StickIH n) : ∀ el els env s, (execElifs (n + 1) el els env s).unsup = none → execElifs ((n + 1) + 1) el els env s = execElifs (n + 1) el els env s := by
  intro el els env s h
  rw [execElifs.eq_def] at h
  rw [execElifs.eq_def (n + 1 + 1), execElifs.eq_def (n + 1)]
  fuel_grind ih st

theorem fuel_loopIter (n : Nat) (ih : FuelIH n) (st : StickIH n) : ∀ c b s, (loopIter (n + 1) c b s).unsup = none → loopIter ((n + 1) + 1) c b s = loopIter (n + 1) c b s := by
  intro c b s h
  rw [loopIter.eq_def] at h
  rw [loopIter.eq_def (n + 1 + 1), loopIter.eq_def (n + 1)]
  fuel_grind ih st

theorem fuel_cforIter (n : Nat) (ih : FuelIH n) (st : StickIH n) : ∀ c p b s, (cforIter (n + 1) c p b s).unsup = none → cforIter ((n + 1) + 1) c p b s = cforIter (n + 1) c p b s := by
  intro c p b s h
  rw [cforIter.eq_def] at h
  rw [cforIter.eq_def (n + 1 + 1), cforIter.eq_def (n + 1)]
  fuel_grind ih st

theorem fuel_forSlice (n : Nat) (ih : FuelIH n) (st : StickIH n) : ∀ v b xs s, (forSlice (n + 1) v b xs s).unsup = none → forSlice ((n + 1) + 1) v b xs s = forSlice (n + 1) v b xs s := by
  intro v b xs s h
  rw [forSlice.eq_def] at h
  rw [forSlice.eq_def (n + 1 + 1), forSlice.eq_def (n + 1)]
  fuel_grind ih st

theorem fuel_forMap (n : Nat) (ih : FuelIH n) (st : StickIH n) : ∀ vs b m s, (forMap (n + 1) vs b m s).unsup = none → forMap ((n + 1) + 1) vs b m s = forMap (n + 1) vs b m s := by
  intro vs b m s h
  rw [forMap.eq_def] at h
  rw [forMap.eq_def (n + 1 + 1), forMap.eq_def (n + 1)]
  fuel_grind ih st

theorem fuel_execReturn (n : Nat) (ih : FuelIH n) (st : StickIH n) : ∀ es s, (execReturn (n + 1) es s).unsup = none → execReturn ((n + 1) + 1) es s = execReturn (n + 1) es s := by
  intro es s h
  rw [execReturn.eq_def] at h
  rw [execReturn.eq_def (n + 1 + 1), execReturn.eq_def (n + 1)]
  fuel_grind ih st

theorem fuel_execCases (n : Nat) (ih : FuelIH n) (st : StickIH n) : ∀ subj cs d s, (execCases (n + 1) subj cs d s).unsup = none → execCases ((n + 1) + 1) subj cs d s = execCases (n + 1) subj cs d s := by
  intro subj cs d s h
  rw [execCases.eq_def] at h
  rw [execCases.eq_def (n + 1 + 1), execCases.eq_def (n + 1)]
  fuel_grind ih st

theorem fuel_matchCase (n : Nat) (ih : FuelIH n) (st : StickIH n) : ∀ subj es s, (matchCase (n + 1) subj es s).2.unsup = none → matchCase ((n + 1) + 1) subj es s = matchCase (n + 1) subj es s := by
  intro subj es s h
  rw [matchCase.eq_def] at h
  rw [matchCase.eq_def (n + 1 + 1), matchCase.eq_def (n + 1)]
  fuel_grind ih st

theorem fuel_registerDefer (n : Nat) (ih : FuelIH n) (st : StickIH n) : ∀ f a va s, (registerDefer (n + 1) f a va s).unsup = none → registerDefer ((n + 1) + 1) f a va s = registerDefer (n + 1) f a va s := by
  intro f a va s h
  rw [registerDefer.eq_def] at h
  rw [registerDefer.eq_def (n + 1 + 1), registerDefer.eq_def (n + 1)]
  fuel_grind ih st


/-- For every model function at every fuel: an answer inside the modelled fragment does not depend on the fuel. -/
theorem fuel_all : ∀ n : Nat, FuelIH n := by
  intro n
  induction n with
  | zero => exact {
    evalExpr := by intros; rename_i h; simp only [evalExpr] at h; exact absurd h (outOfFuel_marked _)
    evalList := by intros; rename_i h; simp only [evalList] at h; exact absurd h (outOfFuel_marked _)
    evalIndexOpt := by intros; rename_i h; simp only [evalIndexOpt] at h; exact absurd h (outOfFuel_marked _)
    evalCond := by intros; rename_i h; simp only [evalCond] at h; exact absurd h (outOfFuel_marked _)
    sliceBegin := by intros; rename_i h; simp only [sliceBegin] at h; exact absurd h (outOfFuel_marked _)
    sliceEnd := by intros; rename_i h; simp only [sliceEnd] at h; exact absurd h (outOfFuel_marked _)
    evalMapLit := by intros; rename_i h; simp only [evalMapLit] at h; exact absurd h (outOfFuel_marked _)
    evalLetsx := by intros; rename_i h; simp only [evalLetsx] at h; exact absurd h (outOfFuel_marked _)
    letExpr := by intros; rename_i h; simp only [letExpr] at h; exact absurd h (outOfFuel_marked _)
    callValue := by intros; rename_i h; simp only [callValue] at h; exact absurd h (outOfFuel_marked _)
    makeCallArgs := by intros; rename_i h; simp only [makeCallArgs] at h; exact absurd h (outOfFuel_marked _)
    argsTail := by intros; rename_i h; simp only [argsTail] at h; exact absurd h (outOfFuel_marked _)
    evalArgs := by intros; rename_i h; simp only [evalArgs] at h; exact absurd h (outOfFuel_marked _)
    evalVarArgs := by intros; rename_i h; simp only [evalVarArgs] at h; exact absurd h (outOfFuel_marked _)
    callFn := by intros; rename_i h; simp only [callFn] at h; exact absurd h (outOfFuel_marked _)
    runDefers := by intros; rename_i h; simp only [runDefers] at h; exact absurd h (outOfFuel_marked _)
    execStmt := by intros; rename_i h; simp only [execStmt] at h; exact absurd h (outOfFuel_marked _)
    execStmts := by intros; rename_i h; simp only [execStmts] at h; exact absurd h (outOfFuel_marked _)
    assignAll := by intros; rename_i h; simp only [assignAll] at h; exact absurd h (outOfFuel_marked _)
    execElifs := by intros; rename_i h; simp only [execElifs] at h; exact absurd h (outOfFuel_marked _)
    loopIter := by intros; rename_i h; simp only [loopIter] at h; exact absurd h (outOfFuel_marked _)
    cforIter := by intros; rename_i h; simp only [cforIter] at h; exact absurd h (outOfFuel_marked _)
    forSlice := by intros; rename_i h; simp only [forSlice] at h; exact absurd h (outOfFuel_marked _)
    forMap := by intros; rename_i h; simp only [forMap] at h; exact absurd h (outOfFuel_marked _)
    execReturn := by intros; rename_i h; simp only [execReturn] at h; exact absurd h (outOfFuel_marked _)
    execCases := by intros; rename_i h; simp only [execCases] at h; exact absurd h (outOfFuel_marked _)
    matchCase := by intros; rename_i h; simp only [matchCase] at h; exact absurd h (outOfFuel_marked _)
    registerDefer := by intros; rename_i h; simp only [registerDefer] at h; exact absurd h (outOfFuel_marked _) }
  | succ n ih => exact {
    evalExpr := fuel_evalExpr n ih (stick_all n)
    evalList := fuel_evalList n ih (stick_all n)
    evalIndexOpt := fuel_evalIndexOpt n ih (stick_all n)
    evalCond := fuel_evalCond n ih (stick_all n)
    sliceBegin := fuel_sliceBegin n ih (stick_all n)
    sliceEnd := fuel_sliceEnd n ih (stick_all n)
    evalMapLit := fuel_evalMapLit n ih (stick_all n)
    evalLetsx := fuel_evalLetsx n ih (stick_all n)
    letExpr := fuel_letExpr n ih (stick_all n)
    callValue := fuel_callValue n ih (stick_all n)
    makeCallArgs := fuel_makeCallArgs n ih (stick_all n)
    argsTail := fuel_argsTail n ih (stick_all n)
    evalArgs := fuel_evalArgs n ih (stick_all n)
    evalVarArgs := fuel_evalVarArgs n ih (stick_all n)
    callFn := fuel_callFn n ih (stick_all n)
    runDefers := fuel_runDefers n ih (stick_all n)
    execStmt := fuel_execStmt n ih (stick_all n)
    execStmts := fuel_execStmts n ih (stick_all n)
    assignAll := fuel_assignAll n ih (stick_all n)
    execElifs := fuel_execElifs n ih (stick_all n)
    loopIter := fuel_loopIter n ih (stick_all n)
    cforIter := fuel_cforIter n ih (stick_all n)
    forSlice := fuel_forSlice n ih (stick_all n)
    forMap := fuel_forMap n ih (stick_all n)
    execReturn := fuel_execReturn n ih (stick_all n)
    execCases := fuel_execCases n ih (stick_all n)
    matchCase := fuel_matchCase n ih (stick_all n)
    registerDefer := fuel_registerDefer n ih (stick_all n) }

/-- whole programs: one more unit of fuel changes nothing once the run is inside the modelled fragment -/
theorem fuel_runProgram_succ (n : Nat) (p : Stmt) (s : St) (h : (runProgram n p s).unsup = none) :
    runProgram (n + 1) p s = runProgram n p s := by
  have hE := (fuel_all n).execStmt p s
  have hD := (fuel_all n).runDefers
  have kD := (stick_all n).runDefers
  unfold runProgram at h ⊢
  grind (splits := 40) [Stick]

theorem fuel_runProgram (n k : Nat) (p : Stmt) (s : St) (h : (runProgram n p s).unsup = none) :
    runProgram (n + k) p s = runProgram n p s := by
  induction k with
  | zero => rfl
  | succ k ih =>
    have : (runProgram (n + k) p s).unsup = none := by rw [ih]; exact h
    rw [← Nat.add_assoc, fuel_runProgram_succ (n + k) p s this, ih]

end Anko
