/-
C04 core: the scope pointer (`runInfo.env`, `St.cur`) is restored by every construct on every
exit path.  One lemma per model function (successor step given the induction hypotheses for
all functions at the smaller fuel), then the induction on fuel.
-/
import Anko.Model.Eval

set_option linter.unusedSectionVars false
set_option linter.unusedSimpArgs false

namespace Anko
variable [FOps] [Prov]

/-! ### helpers preserve `cur` -/
@[local simp] theorem St.fail_cur (s : St) (m : String) : (s.fail m).cur = s.cur := rfl
@[local simp] theorem St.markUnsup_cur (s : St) (m : String) : (s.markUnsup m).cur = s.cur := rfl
@[local simp] theorem outOfFuel_cur (s : St) : (outOfFuel s).cur = s.cur := rfl
@[local simp] theorem St.poll_cur (s : St) : s.poll.2.cur = s.cur := rfl
@[local simp] theorem St.newScope_cur (s : St) (p : Nat) : (s.newScope p).2.cur = s.cur := rfl
@[local simp] theorem St.addClosure_cur (s : St) (c : Closure) : (s.addClosure c).2.cur = s.cur := rfl
@[local simp] theorem St.traceVal_cur (s : St) (v : Val) : (s.traceVal v).cur = s.cur := rfl

@[local simp] theorem St.define_cur (s : St) (i : Nat) (n : String) (v : RV) : (s.define i n v).cur = s.cur := by
  unfold St.define; split <;> rfl

theorem St.setValue_cur (s s' : St) (i : Nat) (n : String) (v : RV) (h : s.setValue i n v = some s') :
    s'.cur = s.cur := by
  unfold St.setValue at h
  split at h
  · injection h with h; subst h; simp
  · cases h

@[local simp] theorem St.assign_cur (s : St) (n : String) (v : RV) : (s.assign n v).cur = s.cur := by
  unfold St.assign
  cases h : s.setValue s.cur n v with
  | some s' => exact St.setValue_cur _ _ _ _ _ h
  | none => simp

@[local simp] theorem St.assignIn_cur (s : St) (i : Nat) (n : String) (v : RV) : (s.assignIn i n v).cur = s.cur := by
  unfold St.assignIn
  cases h : s.setValue i n v with
  | some s' => exact St.setValue_cur _ _ _ _ _ h
  | none => rfl

@[local simp] theorem opRes_cur (s : St) (r : OpRes) : (opRes s r).cur = s.cur := by
  cases r <;> rfl

@[local simp] theorem St.defineAll_cur (l : List (String × RV)) : ∀ (s : St) (i : Nat), (s.defineAll i l).cur = s.cur := by
  induction l with
  | nil => intro s i; rfl
  | cons x xs ih => intro s i; obtain ⟨n, v⟩ := x; simp [St.defineAll, ih]

theorem convertArgs_cur (cal : Callee) : ∀ (xs : List Val) (i : Nat) (s : St),
    (convertArgs cal xs i s).2.cur = s.cur := by
  intro xs
  induction xs with
  | nil => intro i s; rfl
  | cons x xs ih =>
    intro i s
    simp only [convertArgs]
    split
    · have := ih (i + 1) s
      split <;> simp_all
    · split
      · simp
      · split <;> simp
      · have := ih (i + 1) { s with rv := ‹RV› }
        split <;> simp_all

theorem spreadFixed_cur (cal : Callee) (nLead numExprs : Nat) (lead : List RV) (s2 : St) :
    (spreadFixed cal nLead numExprs lead s2).2.cur = s2.cur := by
  unfold spreadFixed
  split
  · split
    · simp
    · have := convertArgs_cur cal (List.take (cal.numIn - nLead) ‹List Val›) nLead s2
      split <;> simp_all
  · split <;> simp

theorem spreadVariadic_cur (lead : List RV) (s2 : St) : (spreadVariadic lead s2).2.cur = s2.cur := by
  unfold spreadVariadic
  repeat' split
  all_goals simp

@[local simp] theorem sliceResult_cur (item : Val) (len : Nat) (bi ei : Int) (hc : Bool) (s : St) :
    (sliceResult item len bi ei hc s).cur = s.cur := by
  unfold sliceResult
  repeat' split
  all_goals simp

/-- The induction hypothesis: every model function at fuel `n` restores `cur`. -/
structure CurIH (n : Nat) : Prop where
  evalExpr : ∀ e s, (evalExpr n e s).cur = s.cur
  evalList : ∀ es s, (evalList n es s).2.cur = s.cur
  evalIndexOpt : ∀ oe d s, (evalIndexOpt n oe d s).2.cur = s.cur
  sliceBegin : ∀ it len b e hc s, (sliceBegin n it len b e hc s).cur = s.cur
  sliceEnd : ∀ it len bi e hc s, (sliceEnd n it len bi e hc s).cur = s.cur
  evalCond : ∀ oe s, (evalCond n oe s).2.cur = s.cur
  evalMapLit : ∀ ks vs acc s, (evalMapLit n ks vs acc s).cur = s.cur
  evalLetsx : ∀ l r i s, (evalLetsx n l r i s).cur = s.cur
  letExpr : ∀ e s, (letExpr n e s).cur = s.cur
  callValue : ∀ f a va s, (callValue n f a va s).cur = s.cur
  makeCallArgs : ∀ c a va s, (makeCallArgs n c a va s).2.cur = s.cur
  argsTail : ∀ c r nl va ne lead s, (argsTail n c r nl va ne lead s).2.cur = s.cur
  evalArgs : ∀ c es i s, (evalArgs n c es i s).2.cur = s.cur
  evalVarArgs : ∀ c es s, (evalVarArgs n c es s).2.cur = s.cur
  callFn : ∀ f a cs s, (callFn n f a cs s).cur = s.cur
  runDefers : ∀ ds rv err s, (runDefers n ds rv err s).cur = s.cur
  execStmt : ∀ st s, (execStmt n st s).cur = s.cur
  execStmts : ∀ ss s, (execStmts n ss s).cur = s.cur
  assignAll : ∀ l v s, (assignAll n l v s).cur = s.cur
  execElifs : ∀ el els env s, (execElifs n el els env s).cur = env
  loopIter : ∀ c b s, (loopIter n c b s).cur = s.cur
  cforIter : ∀ c p b s, (cforIter n c p b s).cur = s.cur
  forSlice : ∀ v b xs s, (forSlice n v b xs s).cur = s.cur
  forMap : ∀ vs b m s, (forMap n vs b m s).cur = s.cur
  execReturn : ∀ es s, (execReturn n es s).cur = s.cur
  execCases : ∀ subj cs d s, (execCases n subj cs d s).cur = s.cur
  matchCase : ∀ subj es s, (matchCase n subj es s).2.cur = s.cur
  registerDefer : ∀ f a va s, (registerDefer n f a va s).cur = s.cur


end Anko
