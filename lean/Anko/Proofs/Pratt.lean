/-
Round trip of the precedence-climbing parser over the minimal-parenthesis printer, for any
precedence table (unbounded tree depth).
-/
import Anko.Model.Pratt

namespace Anko.Pratt
variable (T : Tbl)

theorem loop_stop {m t rest} (h : match rest with | Tok.op p :: _ => T.lbp p < m | Tok.atom _ :: _ => False | Tok.lp :: _ => False | _ => True) :
    PLoop T m t rest (t, rest) := by
  match rest, h with
  | [], _ => exact .stopNil
  | Tok.rp :: _, _ => exact .stopRp
  | Tok.op p :: _, h => exact .stopOp h

theorem main (t : Tree) : ∀ c m rest R, m ≤ c → OKRest T c t rest →
    PLoop T m t rest R → PExpr T m (pr T c t ++ rest) R := by
  induction t with
  | atom a =>
    intro c m rest R _ _ hl
    simp only [pr, List.singleton_append]
    exact .mk .atom hl
  | bin o l r ihl ihr =>
    have hbody : ∀ m rest R, m ≤ T.lbp o →
        (match rest with | Tok.op p :: _ => T.lbp p < T.rbp o ∧ okRest T (T.rbp o) r p | Tok.atom _ :: _ => False | Tok.lp :: _ => False | _ => True) →
        PLoop T m (.bin o l r) rest R →
        PExpr T m (pr T (lctx T o) l ++ [Tok.op o] ++ pr T (T.rbp o) r ++ rest) R := by
      intro m rest R hm hrest hloop
      have hr : PExpr T (T.rbp o) (pr T (T.rbp o) r ++ rest) (r, rest) := by
        apply ihr (T.rbp o) (T.rbp o) rest (r, rest) (Nat.le_refl _)
        · match rest, hrest with
          | [], _ => trivial
          | Tok.rp :: _, _ => trivial
          | Tok.op p :: _, h => exact h.2
        · apply loop_stop
          match rest, hrest with
          | [], _ => trivial
          | Tok.rp :: _, _ => trivial
          | Tok.op p :: _, h => exact h.1
      have hlctx : T.lbp o ≤ lctx T o := by unfold lctx; split <;> omega
      have := ihl (lctx T o) m ([Tok.op o] ++ pr T (T.rbp o) r ++ rest) R (by omega) ?_ ?_
      · simpa [List.append_assoc] using this
      · show okRest T (lctx T o) l o
        have key : ∀ (t : Tree) (c : Nat), lctx T o ≤ c → okRest T c t o := by
          intro t
          induction t with
          | atom _ => intro c _; trivial
          | bin q l' r' _ ihr' =>
            intro c hc
            unfold okRest
            split
            · next hq =>
              have hq' : lctx T o ≤ T.lbp q := by omega
              have hlt : T.lbp o < T.rbp q := by
                unfold lctx at hq'
                rcases T.assoc q with h1 | h1 <;> rcases T.assoc o with h2 | h2
                · simp [h2] at hq'; omega
                · have : ¬ (T.rbp o = T.lbp o) := by omega
                  simp [this] at hq'
                  by_cases he : T.lbp o = T.lbp q
                  · have := T.level o q he; omega
                  · omega
                · simp [h2] at hq'; omega
                · have : ¬ (T.rbp o = T.lbp o) := by omega
                  simp [this] at hq'; omega
              refine ⟨hlt, ihr' _ ?_⟩
              unfold lctx; split <;> omega
            · trivial
        exact key l _ (Nat.le_refl _)
      · exact .step (by omega) hr hloop
    intro c m rest R hmc hok hloop
    simp only [pr]
    split
    · next hc =>
      have := hbody m rest R (by omega) ?_ hloop
      · simpa [List.append_assoc] using this
      · match rest, hok with
        | [], _ => trivial
        | Tok.rp :: _, _ => trivial
        | Tok.op p :: _, h =>
          simp only [OKRest, okRest] at h
          simpa [hc] using h
    · next hc =>
      have hin := hbody 0 (Tok.rp :: rest) (.bin o l r, Tok.rp :: rest) (Nat.zero_le _) trivial .stopRp
      have hp : PPrim T ([Tok.lp] ++ (pr T (lctx T o) l ++ [Tok.op o] ++ pr T (T.rbp o) r) ++ [Tok.rp] ++ rest) (.bin o l r, rest) := by
        have : [Tok.lp] ++ (pr T (lctx T o) l ++ [Tok.op o] ++ pr T (T.rbp o) r) ++ [Tok.rp] ++ rest
            = Tok.lp :: (pr T (lctx T o) l ++ [Tok.op o] ++ pr T (T.rbp o) r ++ Tok.rp :: rest) := by
          simp [List.append_assoc]
        rw [this]
        exact .paren hin
      exact .mk hp hloop

/-- parsing the minimally parenthesised spelling of a tree gives back the tree -/
theorem roundtrip (t : Tree) : PExpr T 0 (pr T 0 t) (t, []) := by
  have := main T t 0 0 [] (t, []) (Nat.le_refl _) trivial .stopNil
  simpa using this

/-- the fully parenthesised spelling parses to the same tree, as a primary followed by `rest` -/
theorem full_prim (t : Tree) : ∀ rest, PPrim T (prFull t ++ rest) (t, rest) := by
  induction t with
  | atom a => intro rest; exact .atom
  | bin o l r ihl ihr =>
    intro rest
    have hl := ihl ([Tok.op o] ++ prFull r ++ [Tok.rp] ++ rest)
    have hr := ihr ([Tok.rp] ++ rest)
    have hrE : PExpr T (T.rbp o) (prFull r ++ ([Tok.rp] ++ rest)) (r, Tok.rp :: rest) := .mk hr .stopRp
    have hloop : PLoop T 0 l (Tok.op o :: (prFull r ++ ([Tok.rp] ++ rest))) (.bin o l r, Tok.rp :: rest) :=
      .step (Nat.zero_le _) hrE .stopRp
    have hE : PExpr T 0 (prFull l ++ ([Tok.op o] ++ prFull r ++ [Tok.rp] ++ rest)) (.bin o l r, Tok.rp :: rest) := by
      refine .mk hl ?_
      simpa [List.append_assoc] using hloop
    have : prFull (.bin o l r) ++ rest = Tok.lp :: (prFull l ++ ([Tok.op o] ++ prFull r ++ [Tok.rp] ++ rest)) := by
      simp [prFull, List.append_assoc]
    rw [this]
    exact .paren hE

theorem roundtrip_full (t : Tree) : PExpr T 0 (prFull t) (t, []) := by
  have := full_prim T t []
  simp only [List.append_nil] at this
  exact .mk this .stopNil

end Anko.Pratt
