/-
Round trip of the precedence-climbing parser over the minimal-parenthesis printer, for any
precedence table (unbounded tree depth): binary operators, prefix operators, the conditional and
the postfix forms.
-/
import Anko.Model.Pratt

namespace Anko.Pratt
variable (T : Tbl)

/-- the loop of level `m` stops in front of these tokens -/
def StopAt (m : Nat) : List Tok → Prop
  | Tok.op p :: _ => T.lbp p < m
  | Tok.q :: _ => T.lbp "?" < m
  | Tok.atom _ :: _ => False
  | Tok.lp :: _ => False
  | Tok.lb :: _ => False
  | Tok.dot :: _ => False
  | _ => True

theorem loop_stop {m t rest} (h : StopAt T m rest) : PLoop T m t rest (t, rest) := by
  match rest, h with
  | [], _ => exact .stopNil
  | Tok.rp :: _, _ => exact .stopRp
  | Tok.rb :: _, _ => exact .stopRb
  | Tok.colon :: _, _ => exact .stopColon
  | Tok.op p :: _, h => exact .stopOp h
  | Tok.q :: _, h => exact .stopQ h

/-- what may follow an unparenthesised compound whose right operand `r` is read at level `k` -/
def BodyRest (k : Nat) (r : Tree) : List Tok → Prop
  | Tok.op p :: _ => T.lbp p < k ∧ okRest T k r p
  | Tok.q :: _ => T.lbp "?" < k ∧ okRest T k r "?"
  | Tok.atom _ :: _ => False
  | Tok.lp :: _ => False
  | Tok.lb :: _ => False
  | Tok.dot :: _ => False
  | _ => True

theorem bodyRest_ok {k r rest} (h : BodyRest T k r rest) : OKRest T k r rest ∧ StopAt T k rest := by
  match rest, h with
  | [], _ => exact ⟨trivial, trivial⟩
  | Tok.rp :: _, _ => exact ⟨trivial, trivial⟩
  | Tok.rb :: _, _ => exact ⟨trivial, trivial⟩
  | Tok.colon :: _, _ => exact ⟨trivial, trivial⟩
  | Tok.op p :: _, h => exact ⟨h.2, h.1⟩
  | Tok.q :: _, h => exact ⟨h.2, h.1⟩

/-- the induction hypothesis of the main theorem for one subtree -/
def IH (t : Tree) : Prop :=
  ∀ c m rest R, (m ≤ c ∨ okPost T c t) → OKRest T c t rest → PLoop T m t rest R → PExpr T m (pr T c t ++ rest) R

theorem right_operand {r : Tree} (ih : IH T r) (k : Nat) (rest : List Tok) (h : BodyRest T k r rest) :
    PExpr T k (pr T k r ++ rest) (r, rest) :=
  ih k k rest (r, rest) (Or.inl (Nat.le_refl _)) (bodyRest_ok T h).1 (loop_stop T (bodyRest_ok T h).2)

/-- a compound spelled `body`, parenthesised exactly when its own level is below the context -/
theorem wrapped {t : Tree} {own : Nat} {body : List Tok} (P : List Tok → Prop) (hP : ∀ rest, P (Tok.rp :: rest))
    (hb : ∀ m rest R, m ≤ own → P rest → PLoop T m t rest R → PExpr T m (body ++ rest) R) :
    ∀ c m rest R, (m ≤ c ∨ own < c) → (own ≥ c → P rest) → PLoop T m t rest R →
      PExpr T m (wrap own c body ++ rest) R := by
  intro c m rest R hm hrest hloop
  unfold wrap
  split
  · next hc =>
    have : m ≤ own := by rcases hm with h | h <;> omega
    exact hb m rest R this (hrest hc) hloop
  · next hc =>
    have hin := hb 0 (Tok.rp :: rest) (t, Tok.rp :: rest) (Nat.zero_le _) (hP rest) .stopRp
    have : [Tok.lp] ++ body ++ [Tok.rp] ++ rest = Tok.lp :: (body ++ Tok.rp :: rest) := by simp [List.append_assoc]
    rw [this]
    exact .mk (.paren hin) hloop

theorem lctx_ge (o : Op) : T.lbp o ≤ lctx T o ∧ lctx T o ≤ T.lbp o + 1 := by unfold lctx; split <;> omega

/-- an operator `q` whose level admits it at the left of `o` binds its own right operand tighter than `o` -/
theorem lt_rbp_of_lctx_le (o q : Op) (h : lctx T o ≤ T.lbp q) : T.lbp o < T.rbp q ∧ lctx T o ≤ T.rbp q := by
  unfold lctx at *
  rcases T.assoc q with h1 | h1 <;> rcases T.assoc o with h2 | h2
  · simp [h2] at h ⊢; omega
  · have : ¬ (T.rbp o = T.lbp o) := by omega
    simp [this] at h ⊢
    by_cases he : T.lbp o = T.lbp q
    · have := T.level o q he; omega
    · omega
  · simp [h2] at h ⊢; omega
  · have : ¬ (T.rbp o = T.lbp o) := by omega
    simp [this] at h ⊢; omega

/-- any tree printed for the left-operand context of `o` may be followed by `o` -/
theorem key (o : Op) (t : Tree) : ∀ c, lctx T o ≤ c → okRest T c t o := by
  induction t with
  | atom _ => intro c _; trivial
  | bin q _ r' _ ihr' =>
    intro c hc
    unfold okRest
    split
    · next hq =>
      have := lt_rbp_of_lctx_le T o q (by omega)
      exact ⟨this.1, ihr' _ this.2⟩
    · trivial
  | un q t' iht' =>
    intro c hc
    unfold okRest
    split
    · have := T.unary_tightest o
      have := lctx_ge T o
      exact ⟨by omega, iht' _ (by omega)⟩
    · trivial
  | tern _ _ b _ _ ihb =>
    intro c hc
    unfold okRest
    split
    · next hq =>
      have := lt_rbp_of_lctx_le T o "?" (by omega)
      exact ⟨this.1, ihb _ this.2⟩
    · trivial
  | call _ _ _ _ => intro c _; trivial
  | index _ _ _ _ => intro c _; trivial
  | slice _ _ _ _ _ _ => intro c _; trivial
  | member _ _ => intro c _; trivial

/-- at the postfix level every compound is parenthesised -/
theorem okPost_post (t : Tree) : okPost T T.post t := by
  have h1 := T.postfix_tightest
  cases t with
  | bin o _ _ => have := T.unary_tightest o; show T.lbp o < T.post; omega
  | un _ _ => exact h1
  | tern _ _ _ => have := T.unary_tightest "?"; show T.lbp "?" < T.post; omega
  | _ => trivial

/-- from what may follow a compound to what may follow its body when it is not parenthesised -/
theorem bodyRest_of_okRest {c own k : Nat} {t r : Tree} {rest : List Tok}
    (hop : ∀ p, okRest T c t p = if own ≥ c then (T.lbp p < k ∧ okRest T k r p) else True)
    (hpost : okPost T c t = (own < c)) (hc : own ≥ c) (h : OKRest T c t rest) : BodyRest T k r rest := by
  match rest, h with
  | [], _ => trivial
  | Tok.rp :: _, _ => trivial
  | Tok.rb :: _, _ => trivial
  | Tok.colon :: _, _ => trivial
  | Tok.op p :: _, h =>
    have h' : okRest T c t p := h
    rw [hop p, if_pos hc] at h'
    exact h'
  | Tok.q :: _, h =>
    have h' : okRest T c t "?" := h
    rw [hop "?", if_pos hc] at h'
    exact h'
  | Tok.lp :: _, h => have h' : okPost T c t := h; rw [hpost] at h'; omega
  | Tok.lb :: _, h => have h' : okPost T c t := h; rw [hpost] at h'; omega
  | Tok.dot :: _, h => have h' : okPost T c t := h; rw [hpost] at h'; omega

theorem main (t : Tree) : IH T t := by
  induction t with
  | atom a =>
    intro c m rest R _ _ hl
    simp only [pr, List.singleton_append]
    exact .mk .atom hl
  | bin o l r ihl ihr =>
    intro c m rest R hm hok hloop
    simp only [pr]
    refine wrapped T (BodyRest T (T.rbp o) r) (fun _ => trivial) ?_ c m rest R ?_ ?_ hloop
    · intro m rest R hm hrest hloop
      have hr := right_operand T ihr (T.rbp o) rest hrest
      have hl := lctx_ge T o
      have := ihl (lctx T o) m ([Tok.op o] ++ pr T (T.rbp o) r ++ rest) R (Or.inl (by omega))
        (key T o l _ (Nat.le_refl _)) (.step (by omega) hr hloop)
      simpa [List.append_assoc] using this
    · exact hm
    · intro hc
      exact bodyRest_of_okRest T (own := T.lbp o) (fun p => by simp only [okRest]) (by simp only [okPost]) hc hok
  | un o t iht =>
    intro c m rest R hm hok hloop
    simp only [pr]
    refine wrapped T (BodyRest T T.ubp t) (fun _ => trivial) ?_ c m rest R ?_ ?_ hloop
    · intro m rest R _ hrest hloop
      have ht := right_operand T iht T.ubp rest hrest
      have : [Tok.op o] ++ pr T T.ubp t ++ rest = Tok.op o :: (pr T T.ubp t ++ rest) := by simp
      rw [this]
      exact .mk (.unary ht) hloop
    · exact hm
    · intro hc
      exact bodyRest_of_okRest T (own := T.ubp) (fun p => by simp only [okRest]) (by simp only [okPost]) hc hok
  | tern x a b ihx iha ihb =>
    intro c m rest R hm hok hloop
    simp only [pr]
    refine wrapped T (BodyRest T (T.rbp "?") b) (fun _ => trivial) ?_ c m rest R ?_ ?_ hloop
    · intro m rest R hm hrest hloop
      have hb := right_operand T ihb (T.rbp "?") rest hrest
      have ha := iha 0 0 (Tok.colon :: (pr T (T.rbp "?") b ++ rest)) (a, Tok.colon :: (pr T (T.rbp "?") b ++ rest))
        (Or.inl (Nat.le_refl _)) trivial .stopColon
      have hl := lctx_ge T "?"
      have := ihx (lctx T "?") m (Tok.q :: (pr T 0 a ++ Tok.colon :: (pr T (T.rbp "?") b ++ rest))) R (Or.inl (by omega))
        (key T "?" x _ (Nat.le_refl _)) (.tern (by omega) ha hb hloop)
      simpa [List.append_assoc] using this
    · exact hm
    · intro hc
      exact bodyRest_of_okRest T (own := T.lbp "?") (fun p => by simp only [okRest]) (by simp only [okPost]) hc hok
  | call f x ihf ihx =>
    intro c m rest R _ _ hloop
    simp only [pr]
    have hx := ihx 0 0 (Tok.rp :: rest) (x, Tok.rp :: rest) (Or.inl (Nat.le_refl _)) trivial .stopRp
    have := ihf T.post m (Tok.lp :: (pr T 0 x ++ Tok.rp :: rest)) R (Or.inr (okPost_post T f)) (okPost_post T f) (.call hx hloop)
    simpa [List.append_assoc] using this
  | index b i ihb ihi =>
    intro c m rest R _ _ hloop
    simp only [pr]
    have hi := ihi 0 0 (Tok.rb :: rest) (i, Tok.rb :: rest) (Or.inl (Nat.le_refl _)) trivial .stopRb
    have := ihb T.post m (Tok.lb :: (pr T 0 i ++ Tok.rb :: rest)) R (Or.inr (okPost_post T b)) (okPost_post T b) (.index hi hloop)
    simpa [List.append_assoc] using this
  | slice b i j ihb ihi ihj =>
    intro c m rest R _ _ hloop
    simp only [pr]
    have hj := ihj 0 0 (Tok.rb :: rest) (j, Tok.rb :: rest) (Or.inl (Nat.le_refl _)) trivial .stopRb
    have hi := ihi 0 0 (Tok.colon :: (pr T 0 j ++ Tok.rb :: rest)) (i, Tok.colon :: (pr T 0 j ++ Tok.rb :: rest))
      (Or.inl (Nat.le_refl _)) trivial .stopColon
    have := ihb T.post m (Tok.lb :: (pr T 0 i ++ Tok.colon :: (pr T 0 j ++ Tok.rb :: rest))) R (Or.inr (okPost_post T b))
      (okPost_post T b) (.slice hi hj hloop)
    simpa [List.append_assoc] using this
  | member b ihb =>
    intro c m rest R _ _ hloop
    simp only [pr]
    have := ihb T.post m (Tok.dot :: rest) R (Or.inr (okPost_post T b)) (okPost_post T b) (.member hloop)
    simpa [List.append_assoc] using this

/-- parsing the minimally parenthesised spelling of a tree gives back the tree -/
theorem roundtrip (t : Tree) : PExpr T 0 (pr T 0 t) (t, []) := by
  have := main T t 0 0 [] (t, []) (Or.inl (Nat.le_refl _)) trivial .stopNil
  simpa using this

/-- the fully parenthesised spelling parses to the same tree, as a primary followed by `rest` -/
theorem full_prim (t : Tree) : ∀ rest, PPrim T (prFull t ++ rest) (t, rest) := by
  have close : ∀ {t : Tree} {ts rest}, PExpr T 0 ts (t, Tok.rp :: rest) → PPrim T (Tok.lp :: ts) (t, rest) := .paren
  induction t with
  | atom a => intro rest; exact .atom
  | bin o l r ihl ihr =>
    intro rest
    have hr : PExpr T (T.rbp o) (prFull r ++ Tok.rp :: rest) (r, Tok.rp :: rest) := .mk (ihr _) .stopRp
    have hE : PExpr T 0 (prFull l ++ Tok.op o :: (prFull r ++ Tok.rp :: rest)) (.bin o l r, Tok.rp :: rest) :=
      .mk (ihl _) (.step (Nat.zero_le _) hr .stopRp)
    have : prFull (.bin o l r) ++ rest = Tok.lp :: (prFull l ++ Tok.op o :: (prFull r ++ Tok.rp :: rest)) := by
      simp [prFull, List.append_assoc]
    rw [this]
    exact close hE
  | un o t iht =>
    intro rest
    have ht : PExpr T T.ubp (prFull t ++ Tok.rp :: rest) (t, Tok.rp :: rest) := .mk (iht _) .stopRp
    have hE : PExpr T 0 (Tok.op o :: (prFull t ++ Tok.rp :: rest)) (.un o t, Tok.rp :: rest) := .mk (.unary ht) .stopRp
    have : prFull (.un o t) ++ rest = Tok.lp :: Tok.op o :: (prFull t ++ Tok.rp :: rest) := by
      simp [prFull, List.append_assoc]
    rw [this]
    exact close hE
  | tern x a b ihx iha ihb =>
    intro rest
    have hb : PExpr T (T.rbp "?") (prFull b ++ Tok.rp :: rest) (b, Tok.rp :: rest) := .mk (ihb _) .stopRp
    have ha : PExpr T 0 (prFull a ++ Tok.colon :: (prFull b ++ Tok.rp :: rest)) (a, Tok.colon :: (prFull b ++ Tok.rp :: rest)) :=
      .mk (iha _) .stopColon
    have hE : PExpr T 0 (prFull x ++ Tok.q :: (prFull a ++ Tok.colon :: (prFull b ++ Tok.rp :: rest))) (.tern x a b, Tok.rp :: rest) :=
      .mk (ihx _) (.tern (Nat.zero_le _) ha hb .stopRp)
    have : prFull (.tern x a b) ++ rest = Tok.lp :: (prFull x ++ Tok.q :: (prFull a ++ Tok.colon :: (prFull b ++ Tok.rp :: rest))) := by
      simp [prFull, List.append_assoc]
    rw [this]
    exact close hE
  | call f x ihf ihx =>
    intro rest
    have hx : PExpr T 0 (prFull x ++ Tok.rp :: Tok.rp :: rest) (x, Tok.rp :: Tok.rp :: rest) := .mk (ihx _) .stopRp
    have hE : PExpr T 0 (prFull f ++ Tok.lp :: (prFull x ++ Tok.rp :: Tok.rp :: rest)) (.call f x, Tok.rp :: rest) :=
      .mk (ihf _) (.call hx .stopRp)
    have : prFull (.call f x) ++ rest = Tok.lp :: (prFull f ++ Tok.lp :: (prFull x ++ Tok.rp :: Tok.rp :: rest)) := by
      simp [prFull, List.append_assoc]
    rw [this]
    exact close hE
  | index b i ihb ihi =>
    intro rest
    have hi : PExpr T 0 (prFull i ++ Tok.rb :: Tok.rp :: rest) (i, Tok.rb :: Tok.rp :: rest) := .mk (ihi _) .stopRb
    have hE : PExpr T 0 (prFull b ++ Tok.lb :: (prFull i ++ Tok.rb :: Tok.rp :: rest)) (.index b i, Tok.rp :: rest) :=
      .mk (ihb _) (.index hi .stopRp)
    have : prFull (.index b i) ++ rest = Tok.lp :: (prFull b ++ Tok.lb :: (prFull i ++ Tok.rb :: Tok.rp :: rest)) := by
      simp [prFull, List.append_assoc]
    rw [this]
    exact close hE
  | slice b i j ihb ihi ihj =>
    intro rest
    have hj : PExpr T 0 (prFull j ++ Tok.rb :: Tok.rp :: rest) (j, Tok.rb :: Tok.rp :: rest) := .mk (ihj _) .stopRb
    have hi : PExpr T 0 (prFull i ++ Tok.colon :: (prFull j ++ Tok.rb :: Tok.rp :: rest)) (i, Tok.colon :: (prFull j ++ Tok.rb :: Tok.rp :: rest)) :=
      .mk (ihi _) .stopColon
    have hE : PExpr T 0 (prFull b ++ Tok.lb :: (prFull i ++ Tok.colon :: (prFull j ++ Tok.rb :: Tok.rp :: rest))) (.slice b i j, Tok.rp :: rest) :=
      .mk (ihb _) (.slice hi hj .stopRp)
    have : prFull (.slice b i j) ++ rest = Tok.lp :: (prFull b ++ Tok.lb :: (prFull i ++ Tok.colon :: (prFull j ++ Tok.rb :: Tok.rp :: rest))) := by
      simp [prFull, List.append_assoc]
    rw [this]
    exact close hE
  | member b ihb =>
    intro rest
    have hE : PExpr T 0 (prFull b ++ Tok.dot :: Tok.rp :: rest) (.member b, Tok.rp :: rest) := .mk (ihb _) (.member .stopRp)
    have : prFull (.member b) ++ rest = Tok.lp :: (prFull b ++ Tok.dot :: Tok.rp :: rest) := by
      simp [prFull, List.append_assoc]
    rw [this]
    exact close hE

theorem roundtrip_full (t : Tree) : PExpr T 0 (prFull t) (t, []) := by
  have := full_prim T t []
  simp only [List.append_nil] at this
  exact .mk this .stopNil

end Anko.Pratt
