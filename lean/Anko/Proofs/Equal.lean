/-
Helper lemmas for C06: symmetry of the equality model.
-/
import Anko.Model.Equal

namespace Anko
variable [FOps]

/-- The one IEEE fact symmetry needs: float `==` is symmetric. -/
def FEqSymm : Prop := ∀ a b : I64, FOps.eq a b = FOps.eq b a


theorem keyEq_symm (h : FEqSymm) (a b : Val) : keyEq a b = keyEq b a := by
  cases a <;> cases b <;> simp [keyEq, h _ _, Bool.beq_comm]
  all_goals exact Bool.beq_comm

omit [FOps] in
theorem zipAllOpt_symm (f : Val → Val → Option Bool) (hf : ∀ a b, f a b = f b a) :
    ∀ xs ys, zipAllOpt f xs ys = zipAllOpt f ys xs := by
  intro xs
  induction xs with
  | nil => intro ys; cases ys <;> simp [zipAllOpt]
  | cons x xs ih =>
    intro ys
    cases ys with
    | nil => simp [zipAllOpt]
    | cons y ys => simp only [zipAllOpt, hf x y, ih ys]

omit [FOps] in
theorem allOpt_congr {α : Type} (f g : α → Option Bool) (l : List α) (h : ∀ a, f a = g a) :
    allOpt f l = allOpt g l := by
  induction l with
  | nil => rfl
  | cons x xs ih => simp only [allOpt, h x, ih]

theorem deepEqF_symm (h : FEqSymm) : ∀ (n : Nat) (l r : Val), deepEqF n l r = deepEqF n r l := by
  intro n
  induction n with
  | zero => intro l r; simp [deepEqF]
  | succ n ih =>
    intro l r
    cases l <;> cases r <;> simp only [deepEqF, h _ _] <;> try (first | rfl | exact congrArg some (Bool.beq_comm ..))
    case list.list xs ys => exact zipAllOpt_symm _ (ih) xs ys
    case map.map xs ys =>
      have e : (fun a b => deepEqF n b a) = deepEqF n := by
        funext a b; exact ih b a
      rw [e]
      cases allOpt (entryCmp (deepEqF n) ys) xs <;> cases allOpt (entryCmp (deepEqF n) xs) ys <;>
        simp [optAnd, Bool.and_comm]

theorem deepEq_symm (h : FEqSymm) (l r : Val) : deepEq l r = deepEq r l := by
  unfold deepEq
  rw [Nat.add_comm, deepEqF_symm h]

end Anko
