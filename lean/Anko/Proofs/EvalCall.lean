/-
Unfolding of a script-function invocation (callFn on a closure, non-variadic) into named parts.
-/
import Anko.Proofs.EvalPoll

set_option linter.unusedSectionVars false

namespace Anko
variable [FOps] [Prov]

/-- runVMFunc's starting state: fresh scope under the captured scope with the parameters bound,
fresh rv / err / defers -/
def calleeState (s : St) (c : Closure) (args : List RV) : St :=
  { ((s.newScope c.env).2.defineAll (s.newScope c.env).1 (c.params.zip (args.take c.params.length))) with
    cur := (s.newScope c.env).1, rv := nilRV, err := none, defers := [] }

/-- the invocation's deferred calls, if any, run on whatever state the body left -/
def afterDefers (n : Nat) (r1 : St) : St :=
  if r1.defers.isEmpty then r1 else runDefers n r1.defers.reverse r1.rv r1.err { r1 with defers := [] }

/-- back in the caller: its scope pointer and defer list; a return is a normal result, any other
pending status becomes an ordinary error carrying its message -/
def backToCaller (s r2 : St) : St :=
  match r2.err with
  | none => { r2 with cur := s.cur, defers := s.defers, rv := r2.rv, err := none }
  | some .ret => { r2 with cur := s.cur, defers := s.defers, rv := r2.rv, err := none }
  | some e => { r2 with cur := s.cur, defers := s.defers, rv := nilRV, err := some (.error e.msg) }

theorem callFn_closure (n : Nat) (id : Nat) (c : Closure) (args : List RV) (s : St)
    (hc : s.closures[id]? = some c) (hva : c.vararg = false) (hlen : c.params.length ≤ args.length) :
    callFn (n + 1) (.fn id) args false s =
      backToCaller s (afterDefers n (execStmt n c.body (calleeState s c args))) := by
  have hlen' : ¬ (min c.params.length args.length < c.params.length) := by omega
  simp only [callFn, hc, hva, Bool.false_eq_true, if_false, List.append_nil, List.length_take]
  simp only [hlen', if_false]
  unfold backToCaller afterDefers calleeState
  split <;> simp_all

theorem defineAll_trace (l : List (String × RV)) : ∀ (st : St) (i : Nat), (st.defineAll i l).trace = st.trace := by
  induction l with
  | nil => intro st i; rfl
  | cons x xs ih =>
    intro st i; obtain ⟨a, b⟩ := x
    simp only [St.defineAll, ih]
    unfold St.define; split <;> rfl

theorem calleeState_trace (s : St) (c : Closure) (args : List RV) : (calleeState s c args).trace = s.trace := by
  simp [calleeState, defineAll_trace, St.newScope]

end Anko
