/-
Channel histories and pipelines: invariants by induction over arbitrary schedules.
-/
import Anko.Model.Chan

namespace Anko.Chan

/-! ### one channel, any number of senders and receivers -/

theorem hist_step_inv (h : Hist) (op : Op) (hi : h.sent = h.received ++ h.ch.buf) :
    (h.step op).1.sent = (h.step op).1.received ++ (h.step op).1.ch.buf := by
  cases op with
  | send v =>
    unfold Hist.step Ch.step
    by_cases hc : h.ch.closed = true
    · simp [hc, hi]
    · by_cases hl : h.ch.buf.length < h.ch.cap
      · simp [hc, hl, hi]
      · simp [hc, hl, hi]
  | recv =>
    unfold Hist.step Ch.step
    cases hb : h.ch.buf with
    | nil => by_cases hc : h.ch.closed = true <;> simp [hc, hi, hb]
    | cons v rest => simp [hi, hb]
  | close =>
    unfold Hist.step Ch.step
    by_cases hc : h.ch.closed = true <;> simp [hc, hi]

theorem hist_run_inv : ∀ (ops : List Op) (h : Hist), h.sent = h.received ++ h.ch.buf →
    (h.run ops).sent = (h.run ops).received ++ (h.run ops).ch.buf
  | [], _, hi => hi
  | op :: ops, h, hi => hist_run_inv ops _ (hist_step_inv h op hi)

/-! ### pipelines -/

theorem flow_pushInto : ∀ (st st' : List Stage) (v : Int) (up : List Int), pushInto v st = some st' →
    flow st' up = flow st (v :: up) := by
  intro st st' v up h
  cases st with
  | nil => simp [pushInto] at h
  | cons t rest =>
    unfold pushInto at h
    by_cases hc : t.closed = true
    · simp [hc] at h
    · simp only [hc, Bool.false_eq_true, if_false] at h
      by_cases h0 : t.cap = 0
      · simp only [h0, if_true] at h
        by_cases hg : (t.hold.isNone && t.buf.isEmpty && !t.done) = true
        · simp only [hg, if_true, Option.some.injEq] at h
          subst h
          simp only [Bool.and_eq_true, Option.isNone_iff_eq_none, List.isEmpty_iff] at hg
          simp [flow, hg.1.1, hg.1.2]
        · simp [hg] at h
      · simp only [h0, if_false] at h
        by_cases hl : t.buf.length < t.cap
        · simp only [hl, if_true, Option.some.injEq] at h
          subst h
          simp [flow]
        · simp [hl] at h

theorem flow_closeHead (st : List Stage) (up : List Int) : flow (closeHead st) up = flow st up := by
  cases st <;> simp [closeHead, flow]

/-- a stage-local move keeps the flow, what it emits going to the front -/
def KeepsFlow (f : Stage → List Stage → Option (Stage × List Stage × List Int)) : Prop :=
  ∀ s rest r up, f s rest = some r → r.2.2 ++ flow (r.1 :: r.2.1) up = flow (s :: rest) up

theorem stageMove_flow (f) (hf : KeepsFlow f) : ∀ (st : List Stage) (i : Nat) (r : List Stage × List Int) (up : List Int),
    stageMove st i f = some r → r.2 ++ flow r.1 up = flow st up
  | [], _, _, _, h => by simp [stageMove] at h
  | s :: rest, 0, r, up, h => by
    simp only [stageMove, Option.map_eq_some_iff] at h
    obtain ⟨a, ha, rfl⟩ := h
    exact hf s rest a up ha
  | s :: rest, i + 1, r, up, h => by
    simp only [stageMove, Option.map_eq_some_iff] at h
    obtain ⟨a, ha, rfl⟩ := h
    simp only [flow]
    exact stageMove_flow f hf rest i a _ ha

theorem keeps_doRecv : KeepsFlow doRecv := by
  intro s rest r up h
  unfold doRecv at h
  split at h
  · next v b hh hb =>
    split at h
    · cases h
    · simp only [Option.some.injEq] at h
      subst h
      simp [flow, hh, hb]
  · cases h

theorem keeps_doSend : KeepsFlow doSend := by
  intro s rest r up h
  unfold doSend at h
  split at h
  · cases h
  · next w hw =>
    split at h
    · simp only [Option.some.injEq] at h
      subst h
      simp [flow, hw]
    · simp only [Option.map_eq_some_iff] at h
      obtain ⟨st', hp, rfl⟩ := h
      simp only [flow, hw, Option.toList, List.nil_append, List.cons_append]
      rw [flow_pushInto _ _ _ _ hp]

theorem keeps_doFinish : KeepsFlow doFinish := by
  intro s rest r up h
  unfold doFinish at h
  split at h
  · simp only [Option.some.injEq] at h
    subst h
    simp only [flow, List.nil_append]
    rw [flow_closeHead]
  · cases h

/-- every enabled move of every goroutine keeps the total stream -/
theorem step_total (p p' : Pipe) (m : Move) (h : p.step m = some p') : p'.total = p.total := by
  cases m with
  | produce =>
    simp only [Pipe.step] at h
    split at h
    · cases h
    · next v rest hs =>
      split at h
      · cases h
      · simp only [Option.map_eq_some_iff] at h
        obtain ⟨st', hp, rfl⟩ := h
        simp only [Pipe.total, hs]
        rw [flow_pushInto _ _ _ _ hp]
  | produceClose =>
    simp only [Pipe.step] at h
    split at h
    · simp only [Option.some.injEq] at h
      subst h
      simp only [Pipe.total, flow_closeHead]
    · cases h
  | recv i =>
    simp only [Pipe.step, Option.map_eq_some_iff] at h
    obtain ⟨r, hr, rfl⟩ := h
    have := stageMove_flow doRecv keeps_doRecv p.stages i r p.src hr
    simp only [Pipe.total, List.append_assoc, this]
  | send i =>
    simp only [Pipe.step, Option.map_eq_some_iff] at h
    obtain ⟨r, hr, rfl⟩ := h
    have := stageMove_flow doSend keeps_doSend p.stages i r p.src hr
    simp only [Pipe.total, List.append_assoc, this]
  | finish i =>
    simp only [Pipe.step, Option.map_eq_some_iff] at h
    obtain ⟨r, hr, rfl⟩ := h
    have := stageMove_flow doFinish keeps_doFinish p.stages i r p.src hr
    simp only [Pipe.total, List.append_assoc, this]

theorem run_total : ∀ (ms : List Move) (p : Pipe), (p.run ms).total = p.total
  | [], _ => rfl
  | m :: ms, p => by
    unfold Pipe.run
    split
    · next p' h => rw [run_total ms p', step_total p p' m h]
    · exact run_total ms p

theorem flow_fresh : ∀ (stages : List ((Int → Int) × Nat)) (up : List Int),
    flow (stages.map (fun s => (⟨s.1, [], s.2, false, none, false⟩ : Stage))) up = expected (stages.map (·.1)) up
  | [], up => by simp [flow, expected]
  | s :: rest, up => by
    simp only [List.map_cons, flow, Option.toList, List.nil_append]
    rw [flow_fresh rest]
    simp [expected, List.foldl_cons]

theorem init_total (items : List Int) (stages : List ((Int → Int) × Nat)) :
    (Pipe.init items stages).total = expected (stages.map (·.1)) items := by
  simp [Pipe.total, Pipe.init, flow_fresh]

/-! ### who has closed what -/

/-- along the pipeline: a channel is closed exactly when the goroutine feeding it has finished, and
a finished stage holds nothing and has an empty, closed input -/
def Chain (upDone : Bool) : List Stage → Prop
  | [] => True
  | s :: rest => s.closed = upDone ∧ (s.done = true → s.hold = none ∧ s.buf = [] ∧ s.closed = true) ∧ Chain s.done rest

def Inv (p : Pipe) : Prop := (p.srcDone = true → p.src = []) ∧ Chain p.srcDone p.stages

theorem chain_pushInto (v : Int) (st st' : List Stage) (hc : Chain false st) (h : pushInto v st = some st') : Chain false st' := by
  cases st with
  | nil => simp [pushInto] at h
  | cons t rest =>
    obtain ⟨h1, h2, h3⟩ := hc
    have hnd : t.done = false := by
      cases hd : t.done with
      | false => rfl
      | true => have := (h2 hd).2.2; rw [h1] at this; cases this
    unfold pushInto at h
    simp only [h1, Bool.false_eq_true, if_false] at h
    by_cases h0 : t.cap = 0
    · simp only [h0, if_true] at h
      split at h
      · simp only [Option.some.injEq] at h; subst h
        exact ⟨rfl, by simp [hnd], h3⟩
      · cases h
    · simp only [h0, if_false] at h
      split at h
      · simp only [Option.some.injEq] at h; subst h
        exact ⟨rfl, by simp [hnd], h3⟩
      · cases h

theorem chain_closeHead (st : List Stage) (hc : Chain false st) : Chain true (closeHead st) := by
  cases st with
  | nil => trivial
  | cons t rest =>
    obtain ⟨h1, h2, h3⟩ := hc
    exact ⟨rfl, fun hd => ⟨(h2 hd).1, (h2 hd).2.1, rfl⟩, h3⟩

def KeepsChain (f : Stage → List Stage → Option (Stage × List Stage × List Int)) : Prop :=
  ∀ up s rest r, f s rest = some r → Chain up (s :: rest) → Chain up (r.1 :: r.2.1)

theorem stageMove_chain (f) (hf : KeepsChain f) : ∀ (st : List Stage) (i : Nat) (r : List Stage × List Int) (up : Bool),
    stageMove st i f = some r → Chain up st → Chain up r.1
  | [], _, _, _, h, _ => by simp [stageMove] at h
  | s :: rest, 0, r, up, h, hc => by
    simp only [stageMove, Option.map_eq_some_iff] at h
    obtain ⟨a, ha, rfl⟩ := h
    exact hf up s rest a ha hc
  | s :: rest, i + 1, r, up, h, hc => by
    simp only [stageMove, Option.map_eq_some_iff] at h
    obtain ⟨a, ha, rfl⟩ := h
    exact ⟨hc.1, hc.2.1, stageMove_chain f hf rest i a _ ha hc.2.2⟩

theorem chain_doRecv : KeepsChain doRecv := by
  intro up s rest r h hc
  unfold doRecv at h
  split at h
  · split at h
    · cases h
    · next hd =>
      simp only [Option.some.injEq] at h; subst h
      have hd' : s.done = false := by simpa using hd
      exact ⟨hc.1, by simp [hd'], by simpa [hd'] using hc.2.2⟩
  · cases h

theorem chain_doSend : KeepsChain doSend := by
  intro up s rest r h hc
  unfold doSend at h
  split at h
  · cases h
  · next w hw =>
    have hnd : s.done = false := by
      cases hd : s.done with
      | false => rfl
      | true => have := (hc.2.1 hd).1; rw [hw] at this; cases this
    split at h
    · simp only [Option.some.injEq] at h; subst h
      exact ⟨hc.1, by simp [hnd], trivial⟩
    · simp only [Option.map_eq_some_iff] at h
      obtain ⟨st', hp, rfl⟩ := h
      refine ⟨hc.1, by simp [hnd], ?_⟩
      have h3 := hc.2.2
      rw [hnd] at h3 ⊢
      exact chain_pushInto w _ _ h3 hp

theorem chain_doFinish : KeepsChain doFinish := by
  intro up s rest r h hc
  unfold doFinish at h
  split at h
  · next hg =>
    simp only [Option.some.injEq] at h; subst h
    simp only [Bool.and_eq_true, Option.isNone_iff_eq_none, List.isEmpty_iff, Bool.not_eq_true'] at hg
    refine ⟨hc.1, fun _ => ⟨hg.1.1.1, hg.1.1.2, hg.1.2⟩, ?_⟩
    have h3 := hc.2.2
    rw [hg.2] at h3
    exact chain_closeHead rest h3
  · cases h

theorem step_inv (p p' : Pipe) (m : Move) (h : p.step m = some p') (hi : Inv p) : Inv p' := by
  obtain ⟨h1, h2⟩ := hi
  cases m with
  | produce =>
    simp only [Pipe.step] at h
    split at h
    · cases h
    · next v rest hs =>
      split at h
      · cases h
      · next hsd =>
        simp only [Option.map_eq_some_iff] at h
        obtain ⟨st', hp, rfl⟩ := h
        have hsd' : p.srcDone = false := by simpa using hsd
        refine ⟨fun hh => by simp [hsd'] at hh, ?_⟩
        simp only [hsd'] at h2 ⊢
        exact chain_pushInto v _ _ h2 hp
  | produceClose =>
    simp only [Pipe.step] at h
    split at h
    · next hg =>
      simp only [Option.some.injEq] at h; subst h
      simp only [Bool.and_eq_true, List.isEmpty_iff, Bool.not_eq_true'] at hg
      refine ⟨fun _ => hg.1, ?_⟩
      rw [hg.2] at h2
      exact chain_closeHead _ h2
    · cases h
  | recv i =>
    simp only [Pipe.step, Option.map_eq_some_iff] at h
    obtain ⟨r, hr, rfl⟩ := h
    exact ⟨h1, stageMove_chain doRecv chain_doRecv _ i r _ hr h2⟩
  | send i =>
    simp only [Pipe.step, Option.map_eq_some_iff] at h
    obtain ⟨r, hr, rfl⟩ := h
    exact ⟨h1, stageMove_chain doSend chain_doSend _ i r _ hr h2⟩
  | finish i =>
    simp only [Pipe.step, Option.map_eq_some_iff] at h
    obtain ⟨r, hr, rfl⟩ := h
    exact ⟨h1, stageMove_chain doFinish chain_doFinish _ i r _ hr h2⟩

theorem run_inv : ∀ (ms : List Move) (p : Pipe), Inv p → Inv (p.run ms)
  | [], _, h => h
  | m :: ms, p, h => by
    unfold Pipe.run
    split
    · next p' hs => exact run_inv ms p' (step_inv p p' m hs h)
    · exact run_inv ms p h

theorem chain_fresh : ∀ (stages : List ((Int → Int) × Nat)),
    Chain false (stages.map (fun s => (⟨s.1, [], s.2, false, none, false⟩ : Stage)))
  | [] => trivial
  | _ :: rest => ⟨rfl, by simp, chain_fresh rest⟩

theorem init_inv (items : List Int) (stages : List ((Int → Int) × Nat)) : Inv (Pipe.init items stages) :=
  ⟨by simp [Pipe.init], chain_fresh stages⟩

theorem flow_all_done : ∀ (st : List Stage) (up : Bool), Chain up st → st.all (·.done) = true → flow st [] = []
  | [], _, _, _ => rfl
  | s :: rest, up, hc, hd => by
    simp only [List.all_cons, Bool.and_eq_true] at hd
    obtain ⟨h1, h2, h3⟩ := hc.2.1 hd.1
    simp only [flow, h1, h2, Option.toList, List.append_nil, List.map_nil]
    exact flow_all_done rest _ hc.2.2 hd.2

/-! ### no deadlock -/

/-- some stage of the list can move -/
def StMove (st : List Stage) : Prop :=
  ∃ i, (stageMove st i doRecv).isSome ∨ (stageMove st i doSend).isSome ∨ (stageMove st i doFinish).isSome

/-- the goroutine feeding the list can hand it a value -/
def Accepts (st : List Stage) : Prop := ∀ v, (pushInto v st).isSome

theorem StMove.shift {s : Stage} {rest : List Stage} (h : StMove rest) : StMove (s :: rest) := by
  obtain ⟨i, h⟩ := h
  refine ⟨i + 1, ?_⟩
  simp only [stageMove, Option.isSome_map]
  exact h

theorem progress_stages : ∀ (st : List Stage) (up : Bool), Chain up st →
    st.all (·.done) = true ∨ StMove st ∨ (up = false ∧ Accepts st)
  | [], _, _ => Or.inl rfl
  | s :: rest, up, hc => by
    obtain ⟨h1, h2, h3⟩ := hc
    have ih := progress_stages rest s.done h3
    cases hd : s.done with
    | true =>
      rw [hd] at ih
      rcases ih with ih | ih | ih
      · left; simp [hd, ih]
      · right; left; exact ih.shift
      · cases ih.1
    | false =>
      rw [hd] at ih h3
      right
      cases hh : s.hold with
      | some w =>
        left
        cases hr : rest with
        | nil => exact ⟨0, Or.inr (Or.inl (by simp [stageMove, doSend, hh]))⟩
        | cons t r =>
          rw [hr] at ih h3
          rcases ih with ih | ih | ih
          · -- the next stage finished although its feeder has not: impossible
            simp only [List.all_cons, Bool.and_eq_true] at ih
            have := (h3.2.1 ih.1).2.2
            rw [h3.1] at this; cases this
          · exact ih.shift
          · refine ⟨0, Or.inr (Or.inl ?_)⟩
            have := ih.2 w
            simp only [stageMove, doSend, hh, Option.isSome_map]
            exact this
      | none =>
        cases hb : s.buf with
        | cons v b => left; exact ⟨0, Or.inl (by simp [stageMove, doRecv, hh, hb, hd])⟩
        | nil =>
          cases hcl : s.closed with
          | true => left; exact ⟨0, Or.inr (Or.inr (by simp [stageMove, doFinish, hh, hb, hcl, hd]))⟩
          | false =>
            right
            refine ⟨by rw [← h1, hcl], ?_⟩
            intro v
            unfold pushInto
            simp only [hcl, Bool.false_eq_true, if_false]
            by_cases h0 : s.cap = 0
            · simp [h0, hh, hb, hd]
            · have : s.buf.length < s.cap := by rw [hb]; simp; omega
              simp [h0, this]

theorem progress (p : Pipe) (hi : Inv p) (hne : p.stages ≠ []) (hnt : p.terminal = false) : ∃ m, (p.step m).isSome := by
  obtain ⟨h1, h2⟩ := hi
  rcases progress_stages p.stages p.srcDone h2 with h | h | h
  · -- all stages finished: then the first channel is closed, so the producer has finished too
    cases hs : p.stages with
    | nil => exact absurd hs hne
    | cons t r =>
      rw [hs] at h h2
      simp only [List.all_cons, Bool.and_eq_true] at h
      have := (h2.2.1 h.1).2.2
      rw [h2.1] at this
      simp [Pipe.terminal, this, hs, h.1, h.2] at hnt
  · obtain ⟨i, h | h | h⟩ := h
    · exact ⟨.recv i, by simpa [Pipe.step] using h⟩
    · exact ⟨.send i, by simpa [Pipe.step] using h⟩
    · exact ⟨.finish i, by simpa [Pipe.step] using h⟩
  · cases hs : p.src with
    | nil => exact ⟨.produceClose, by simp [Pipe.step, hs, h.1]⟩
    | cons v rest =>
      refine ⟨.produce, ?_⟩
      have := h.2 v
      simp only [Pipe.step, hs, h.1, Bool.false_eq_true, if_false, Option.isSome_map]
      exact this

/-! ### every move makes progress: a variant that strictly decreases -/

/-- work left for the items inside the stages (each item still has to be received and sent by every
stage ahead of it) plus one unit per goroutine that has not finished -/
def pot : List Stage → Nat
  | [] => 0
  | s :: rest => s.buf.length * (2 * (rest.length + 1)) + (if s.hold.isSome then 2 * (rest.length + 1) - 1 else 0) +
      (if s.done then 0 else 1) + pot rest

def Pipe.variant (p : Pipe) : Nat :=
  p.src.length * (2 * p.stages.length + 1) + (if p.srcDone then 0 else 1) + pot p.stages

theorem pushInto_some {v : Int} {t : Stage} {rest st' : List Stage} (h : pushInto v (t :: rest) = some st') :
    (t.hold = none ∧ t.buf = [] ∧ st' = { t with hold := some (t.fn v) } :: rest) ∨
    (st' = { t with buf := t.buf ++ [v] } :: rest) := by
  unfold pushInto at h
  by_cases hc : t.closed = true
  · simp [hc] at h
  · simp only [hc, Bool.false_eq_true, if_false] at h
    by_cases h0 : t.cap = 0
    · simp only [h0, if_true] at h
      by_cases hg : (t.hold.isNone && t.buf.isEmpty && !t.done) = true
      · simp only [hg, if_true, Option.some.injEq] at h
        simp only [Bool.and_eq_true, Option.isNone_iff_eq_none, List.isEmpty_iff] at hg
        have hc' : t.closed = false := by simpa using hc
        subst h
        exact Or.inl ⟨hg.1.1, hg.1.2, by simp [hc', h0]⟩
      · simp [hg] at h
    · simp only [h0, if_false] at h
      by_cases hl : t.buf.length < t.cap
      · simp only [hl, if_true, Option.some.injEq] at h
        have hc' : t.closed = false := by simpa using hc
        subst h
        exact Or.inr (by simp [hc'])
      · simp [hl] at h

theorem pushInto_length {v : Int} {st st' : List Stage} (h : pushInto v st = some st') : st'.length = st.length := by
  cases st with
  | nil => simp [pushInto] at h
  | cons t rest => rcases pushInto_some h with ⟨_, _, rfl⟩ | rfl <;> rfl

theorem pot_pushInto {v : Int} {st st' : List Stage} (h : pushInto v st = some st') : pot st' ≤ pot st + 2 * st.length := by
  cases st with
  | nil => simp [pushInto] at h
  | cons t rest =>
    rcases pushInto_some h with ⟨h1, h2, rfl⟩ | rfl
    · simp only [pot, h1, h2, List.length_nil, Nat.zero_mul, Option.isSome_some, if_true, Option.isSome_none,
        Bool.false_eq_true, if_false, List.length_cons]
      omega
    · simp only [pot, List.length_append, List.length_cons, List.length_nil, Nat.add_mul]
      omega

theorem closeHead_length (st : List Stage) : (closeHead st).length = st.length := by cases st <;> rfl
theorem pot_closeHead (st : List Stage) : pot (closeHead st) = pot st := by cases st <;> simp [closeHead, pot]

def Lowers (f : Stage → List Stage → Option (Stage × List Stage × List Int)) : Prop :=
  ∀ s rest r, f s rest = some r → r.2.1.length = rest.length ∧ pot (r.1 :: r.2.1) < pot (s :: rest)

theorem stageMove_lowers (f) (hf : Lowers f) : ∀ (st : List Stage) (i : Nat) (r : List Stage × List Int),
    stageMove st i f = some r → r.1.length = st.length ∧ pot r.1 < pot st
  | [], _, _, h => by simp [stageMove] at h
  | s :: rest, 0, r, h => by
    simp only [stageMove, Option.map_eq_some_iff] at h
    obtain ⟨a, ha, rfl⟩ := h
    have := hf s rest a ha
    exact ⟨by simp [this.1], this.2⟩
  | s :: rest, i + 1, r, h => by
    simp only [stageMove, Option.map_eq_some_iff] at h
    obtain ⟨a, ha, rfl⟩ := h
    have ih := stageMove_lowers f hf rest i a ha
    refine ⟨by simp [ih.1], ?_⟩
    simp only [pot, ih.1]
    omega

theorem lowers_doRecv : Lowers doRecv := by
  intro s rest r h
  unfold doRecv at h
  split at h
  · next v b hh hb =>
    split at h
    · cases h
    · simp only [Option.some.injEq] at h; subst h
      refine ⟨rfl, ?_⟩
      simp only [pot, hh, hb, List.length_cons, Option.isSome_some, if_true, Option.isSome_none, Bool.false_eq_true, if_false, Nat.add_mul]
      omega
  · cases h

theorem lowers_doSend : Lowers doSend := by
  intro s rest r h
  unfold doSend at h
  split at h
  · cases h
  · next w hw =>
    split at h
    · simp only [Option.some.injEq] at h; subst h
      refine ⟨rfl, ?_⟩
      simp [pot, hw]
    · simp only [Option.map_eq_some_iff] at h
      obtain ⟨st', hp, rfl⟩ := h
      have hl := pushInto_length hp
      have hpot := pot_pushInto hp
      refine ⟨hl, ?_⟩
      simp only [pot, hw, hl, Option.isSome_some, if_true, Option.isSome_none, Bool.false_eq_true, if_false]
      omega

theorem lowers_doFinish : Lowers doFinish := by
  intro s rest r h
  unfold doFinish at h
  split at h
  · next hg =>
    simp only [Option.some.injEq] at h; subst h
    simp only [Bool.and_eq_true, Bool.not_eq_true'] at hg
    refine ⟨closeHead_length rest, ?_⟩
    simp only [pot, closeHead_length, pot_closeHead, hg.2, if_true, Bool.false_eq_true, if_false]
    omega
  · cases h

/-- every enabled move of every goroutine strictly lowers the variant: no schedule runs for ever -/
theorem step_variant (p p' : Pipe) (m : Move) (h : p.step m = some p') : p'.variant < p.variant := by
  cases m with
  | produce =>
    simp only [Pipe.step] at h
    split at h
    · cases h
    · next v rest hs =>
      split at h
      · cases h
      · simp only [Option.map_eq_some_iff] at h
        obtain ⟨st', hp, rfl⟩ := h
        have hl := pushInto_length hp
        have hpot := pot_pushInto hp
        simp only [Pipe.variant, hs, hl, List.length_cons, Nat.add_mul]
        omega
  | produceClose =>
    simp only [Pipe.step] at h
    split at h
    · next hg =>
      simp only [Option.some.injEq] at h; subst h
      simp only [Bool.and_eq_true, Bool.not_eq_true'] at hg
      simp only [Pipe.variant, closeHead_length, pot_closeHead, hg.2, if_true, Bool.false_eq_true, if_false]
      omega
    · cases h
  | recv i =>
    simp only [Pipe.step, Option.map_eq_some_iff] at h
    obtain ⟨r, hr, rfl⟩ := h
    have := stageMove_lowers doRecv lowers_doRecv p.stages i r hr
    simp only [Pipe.variant, this.1]; omega
  | send i =>
    simp only [Pipe.step, Option.map_eq_some_iff] at h
    obtain ⟨r, hr, rfl⟩ := h
    have := stageMove_lowers doSend lowers_doSend p.stages i r hr
    simp only [Pipe.variant, this.1]; omega
  | finish i =>
    simp only [Pipe.step, Option.map_eq_some_iff] at h
    obtain ⟨r, hr, rfl⟩ := h
    have := stageMove_lowers doFinish lowers_doFinish p.stages i r hr
    simp only [Pipe.variant, this.1]; omega

end Anko.Chan
