/-
C20, whole evaluator: the simulation for the functions proved by hand (loops, calls, defers, assignment).
-/
import Anko.Proofs.EvalProvA

set_option linter.unusedSectionVars false
set_option linter.unusedVariables false
set_option linter.unusedSimpArgs false
set_option maxHeartbeats 1600000

namespace Anko
variable [F : FOps] (P Q : Prov)

theorem prov_execStmts (n : Nat) (ih : ProvIH P Q n) : ∀ ss s t, Sim s t → Sim (@execStmts F P (n + 1) ss s) (@execStmts F Q (n + 1) ss t) := by
  intro ss s t h0
  cases ss with
  | nil => simp only [execStmts]; exact h0
  | cons st rest =>
    have h1 := ih.execStmt st s t h0
    cases st <;> simp only [execStmts] <;> first
      | exact sim_with_err h0 _
      | exact sim_ite_err h1 h1 (fun _ => sim_with_err h1 _)
      | exact sim_ite_err h1 h1 (fun _ => ih.execStmts rest _ _ h1)
theorem prov_assignAll (n : Nat) (ih : ProvIH P Q n) : ∀ l v v' s t, SimL v v' → Sim s t → Sim (@assignAll F P (n + 1) l v s) (@assignAll F Q (n + 1) l v' t) := by
  intro l v v' s t hv h0
  cases l with
  | nil => simp only [assignAll]; exact h0
  | cons x xs =>
    cases v with
    | nil => rw [simL_nil_inv hv]; simp only [assignAll]; exact h0
    | cons a as =>
      obtain ⟨b, bs, rfl, hab, hrest⟩ := simL_cons_inv hv
      simp only [assignAll]
      have h1 := ih.letExpr x _ _ (sim_with_rv h0 hab)
      exact sim_ite_err h1 h1 (fun _ => ih.assignAll xs as bs _ _ hrest h1)
theorem prov_evalLetsx (n : Nat) (ih : ProvIH P Q n) : ∀ l r i s t, Sim s t → Sim (@evalLetsx F P (n + 1) l r i s) (@evalLetsx F Q (n + 1) l r i t) := by
  intro l r i s t h0
  cases r with
  | nil => simp only [evalLetsx]; exact h0
  | cons x xs =>
    simp only [evalLetsx]
    have h1 := ih.evalExpr x s t h0
    refine sim_ite_err h1 h1 (fun _ => ?_)
    have h2 : Sim { @evalExpr F P n x s with rv := (@evalExpr F P n x s).rv.unwrap } { @evalExpr F Q n x t with rv := (@evalExpr F Q n x t).rv.unwrap } :=
      sim_with_rv h1 h1.rv
    cases hl : l[i]? with
    | none => exact sim_ite_err h2 h2 (fun _ => ih.evalLetsx l xs (i + 1) _ _ h2)
    | some e =>
      have h3 := ih.letExpr e _ _ h2
      exact sim_ite_err h3 h3 (fun _ => ih.evalLetsx l xs (i + 1) _ _ h3)

theorem prov_runDefers (n : Nat) (ih : ProvIH P Q n) : ∀ ds ds' rv rv' err s t, ds.map Deferred.er = ds'.map Deferred.er → rv.v = rv'.v → Sim s t →
    Sim (@runDefers F P (n + 1) ds rv err s) (@runDefers F Q (n + 1) ds' rv' err t) := by
  intro ds ds' rv rv' err s t hd hr h0
  cases ds with
  | nil =>
    have : ds' = [] := by cases ds' <;> simp_all
    subst this
    simp only [runDefers]
    exact sim_with_rv_err h0 hr _
  | cons d rest =>
    obtain ⟨d', rest', rfl, hf, ha, hc, hrest⟩ := defers_cons_inv hd
    simp only [runDefers]
    have h1 := ih.callFn d.fn d.args d'.args d.callSlice _ _ ha (sim_with_err h0 none)
    rw [← hf, ← hc, ← h1.err]
    exact ih.runDefers rest rest' rv rv' _ _ _ hrest hr h1

theorem prov_forSlice (n : Nat) (ih : ProvIH P Q n) : ∀ v b xs s t, Sim s t → Sim (@forSlice F P (n + 1) v b xs s) (@forSlice F Q (n + 1) v b xs t) := by
  intro v b xs s t h0
  cases xs with
  | nil => simp only [forSlice]; exact sim_with_rv h0 rfl
  | cons x rest =>
    simp only [forSlice]
    obtain ⟨hp1, hp2⟩ := sim_poll h0
    rw [← hp1]
    split
    · exact sim_with_rv_err hp2 rfl _
    · have hd : Sim (s.poll.2.define s.poll.2.cur v ⟨false, x⟩) (t.poll.2.define t.poll.2.cur v ⟨false, x⟩) := by
        rw [hp2.cur]; exact sim_define hp2 _ _ rfl
      have h2 := ih.execStmt b _ _ hd
      rw [← h2.err]
      split
      · exact ih.forSlice v b rest _ _ h2
      · exact ih.forSlice v b rest _ _ (sim_with_err h2 none)
      · exact h2
      · sim_rec h2
      · sim_rec h2

theorem prov_forMap (n : Nat) (ih : ProvIH P Q n) : ∀ vs b m s t, Sim s t → Sim (@forMap F P (n + 1) vs b m s) (@forMap F Q (n + 1) vs b m t) := by
  intro vs b m s t h0
  cases m with
  | nil => simp only [forMap]; exact sim_with_rv h0 rfl
  | cons kv rest =>
    obtain ⟨k, v⟩ := kv
    obtain ⟨hp1, hp2⟩ := sim_poll h0
    have fin : ∀ s1 t1 : St, Sim s1 t1 →
        Sim (match (@execStmt F P n b s1).err with
          | none => @forMap F P n vs b rest (@execStmt F P n b s1)
          | some .cont => @forMap F P n vs b rest { @execStmt F P n b s1 with err := none }
          | some .ret => @execStmt F P n b s1
          | some .brk => { @execStmt F P n b s1 with err := none, rv := nilRV }
          | some _ => { @execStmt F P n b s1 with rv := nilRV })
        (match (@execStmt F Q n b t1).err with
          | none => @forMap F Q n vs b rest (@execStmt F Q n b t1)
          | some .cont => @forMap F Q n vs b rest { @execStmt F Q n b t1 with err := none }
          | some .ret => @execStmt F Q n b t1
          | some .brk => { @execStmt F Q n b t1 with err := none, rv := nilRV }
          | some _ => { @execStmt F Q n b t1 with rv := nilRV }) := by
      intro s1 t1 hd
      have h2 := ih.execStmt b _ _ hd
      rw [← h2.err]
      split
      · exact ih.forMap vs b rest _ _ h2
      · exact ih.forMap vs b rest _ _ (sim_with_err h2 none)
      · exact h2
      · sim_rec h2
      · sim_rec h2
    have hd1 : ∀ nm : String, Sim (s.poll.2.define s.poll.2.cur nm ⟨P.wrap, k⟩) (t.poll.2.define t.poll.2.cur nm ⟨Q.wrap, k⟩) := by
      intro nm; rw [hp2.cur]; exact sim_define hp2 _ _ rfl
    match vs with
    | [] =>
      simp only [forMap]
      rw [← hp1]
      split
      · exact sim_with_rv_err hp2 rfl _
      · exact fin _ _ (hd1 _)
    | [a] =>
      simp only [forMap]
      rw [← hp1]
      split
      · exact sim_with_rv_err hp2 rfl _
      · exact fin _ _ (hd1 _)
    | a :: v2 :: tl =>
      simp only [forMap]
      rw [← hp1]
      split
      · exact sim_with_rv_err hp2 rfl _
      · refine fin _ _ ?_
        rw [(hd1 _).cur]
        exact sim_define (hd1 _) _ _ rfl

theorem prov_registerDefer (n : Nat) (ih : ProvIH P Q n) : ∀ f a va s t, Sim s t → Sim (@registerDefer F P (n + 1) f a va s) (@registerDefer F Q (n + 1) f a va t) := by
  intro f a va s t h0
  simp only [registerDefer]
  rw [sim_calleeOf h0 f]
  split
  · split
    · exact sim_markUnsup h0 _
    · exact sim_fail h0 _
  · next cal _ =>
    obtain ⟨g1, g2, g3⟩ := ih.makeCallArgs cal a va s t h0
    refine sim_ite_err g3 g3 (fun _ => ?_)
    apply sim_mk <;> first | exact g3.scopes | exact g3.closures | exact g3.trace | exact g3.polls | exact g3.cancelAt | exact g3.unsup | exact g3.cur | rfl | exact g3.err | skip
    rw [g2]
    exact defer_snoc_sim g3.defers f g1 _

theorem prov_execElifs (n : Nat) (ih : ProvIH P Q n) : ∀ el els env s t, Sim s t → Sim (@execElifs F P (n + 1) el els env s) (@execElifs F Q (n + 1) el els env t) := by
  intro el els env s t h0
  cases el with
  | nil =>
    obtain ⟨g1, g2⟩ := sim_newScope h0 env
    cases els <;> simp only [execElifs] <;> first
      | exact sim_with_cur h0 _
      | (rw [← g1]; exact sim_with_cur (ih.execStmt _ _ _ (sim_with_rv_cur g2 rfl _)) _)
  | cons ct rest =>
    obtain ⟨c, th⟩ := ct
    simp only [execElifs]
    obtain ⟨g1, g2⟩ := sim_newScope h0 env
    rw [← g1]
    have h2 := ih.evalExpr c _ _ (sim_with_cur g2 (s.newScope env).1)
    refine sim_ite_err h2 (sim_with_cur h2 _) (fun _ => ?_)
    rw [← toBoolRV_sim h2.rv]
    split
    · exact sim_with_cur (sim_markUnsup h2 _) _
    · exact ih.execElifs rest els env _ _ h2
    · obtain ⟨k1, k2⟩ := sim_newScope h2 env
      rw [← k1]
      exact sim_with_cur (ih.execStmt _ _ _ (sim_with_rv_cur k2 rfl _)) _

theorem prov_cforIter (n : Nat) (ih : ProvIH P Q n) : ∀ c p b s t, Sim s t → Sim (@cforIter F P (n + 1) c p b s) (@cforIter F Q (n + 1) c p b t) := by
  intro c p b s t h0
  simp only [cforIter]
  obtain ⟨hp1, hp2⟩ := sim_poll h0
  rw [← hp1]
  split
  · exact sim_with_rv_err hp2 rfl _
  · obtain ⟨c1, c2⟩ := ih.evalCond c _ _ hp2
    refine sim_ite_err c2 c2 (fun _ => ?_)
    rw [← c1]
    split
    · exact sim_markUnsup c2 _
    · exact c2
    · have h2 := ih.execStmt b _ _ c2
      have he := h2.err
      have post : ∀ u w : St, Sim u w → u.err = none →
          Sim (if (match p with | none => u | some pe => @evalExpr F P n pe u).err.isSome = true then (match p with | none => u | some pe => @evalExpr F P n pe u)
               else @cforIter F P n c p b (match p with | none => u | some pe => @evalExpr F P n pe u))
              (if (match p with | none => w | some pe => @evalExpr F Q n pe w).err.isSome = true then (match p with | none => w | some pe => @evalExpr F Q n pe w)
               else @cforIter F Q n c p b (match p with | none => w | some pe => @evalExpr F Q n pe w)) := by
        intro u w hu _
        cases p with
        | none => exact sim_ite_err hu hu (fun _ => ih.cforIter c none b _ _ hu)
        | some pe =>
          have h3 := ih.evalExpr pe _ _ hu
          exact sim_ite_err h3 h3 (fun _ => ih.cforIter c (some pe) b _ _ h3)
      cases hE : (@execStmt F P n b (@evalCond F P n c s.poll.2).2).err with
      | none =>
        have hE' : (@execStmt F Q n b (@evalCond F Q n c t.poll.2).2).err = none := by rw [← he, hE]
        simp only [hE, hE']
        exact post _ _ h2 hE
      | some e =>
        have hE' : (@execStmt F Q n b (@evalCond F Q n c t.poll.2).2).err = some e := by rw [← he, hE]
        cases e with
        | cont =>
          simp only [hE, hE']
          exact post _ _ (sim_with_err h2 none) rfl
        | ret => simp only [hE, hE']; exact h2
        | brk => simp only [hE, hE']; exact sim_with_err h2 _
        | interrupt => simp only [hE, hE']; exact h2
        | error m => simp only [hE, hE']; exact h2

theorem prov_callFn (n : Nat) (ih : ProvIH P Q n) : ∀ f a a' cs s t, SimL a a' → Sim s t → Sim (@callFn F P (n + 1) f a cs s) (@callFn F Q (n + 1) f a' cs t) := by
  intro f a a' cs s t ha h0
  cases f
  case gofn name =>
    simp only [callFn]
    split
    · exact sim_markUnsup h0 _
    · have hf := simL_flat P Q ha cs
      obtain ⟨g1, g2⟩ := goRun_sim P Q name hf
      rw [← g1]
      rcases g2 with ⟨m, e1, e2⟩ | ⟨x, y, e1, e2, hxy⟩
      · rw [e1, e2]
        exact sim_fail (sim_with_trace h0 _) _
      · rw [e1, e2]
        exact sim_with_rv (sim_with_trace h0 _) hxy
  case fn id =>
    simp only [callFn]
    rw [← h0.closures]
    split
    · exact sim_markUnsup h0 _
    · next c _ =>
      cases hv : c.vararg
      · simp only [hv, Bool.false_eq_true, ↓reduceIte]
        have hact : SimL (List.take c.params.length a ++ []) (List.take c.params.length a' ++ []) := simL_append (simL_take ha _) simL_nil
        generalize List.take c.params.length a ++ [] = act at hact ⊢
        generalize List.take c.params.length a' ++ [] = act' at hact ⊢
        rw [← simL_length hact]
        split
        · exact sim_markUnsup h0 _
        · obtain ⟨k1, k2⟩ := sim_newScope h0 c.env
          rw [← k1]
          have hdef := sim_defineAll _ _ _ _ (s.newScope c.env).1 k2 (simB_zip c.params _ _ hact)
          have hcallee : Sim { (s.newScope c.env).2.defineAll (s.newScope c.env).1 (c.params.zip act) with cur := (s.newScope c.env).1, rv := nilRV, err := none, defers := [] }
              { (t.newScope c.env).2.defineAll (s.newScope c.env).1 (c.params.zip act') with cur := (s.newScope c.env).1, rv := nilRV, err := none, defers := [] } := by
            sim_rec hdef
          generalize ({ (s.newScope c.env).2.defineAll (s.newScope c.env).1 (c.params.zip act) with cur := (s.newScope c.env).1, rv := nilRV, err := none, defers := [] } : St) = cs0 at hcallee ⊢
          generalize ({ (t.newScope c.env).2.defineAll (s.newScope c.env).1 (c.params.zip act') with cur := (s.newScope c.env).1, rv := nilRV, err := none, defers := [] } : St) = ct0 at hcallee ⊢
          have r1 := ih.execStmt c.body cs0 ct0 hcallee
          generalize @execStmt F P n c.body cs0 = e1 at r1 ⊢
          generalize @execStmt F Q n c.body ct0 = e2 at r1 ⊢
          have r2 : Sim (if e1.defers.isEmpty then e1 else @runDefers F P n e1.defers.reverse e1.rv e1.err { e1 with defers := [] })
              (if e2.defers.isEmpty then e2 else @runDefers F Q n e2.defers.reverse e2.rv e2.err { e2 with defers := [] }) := by
            rw [← defers_isEmpty_sim r1.defers, ← r1.err]
            split
            · exact r1
            · exact ih.runDefers _ _ _ _ _ _ _ (defers_reverse_sim r1.defers) r1.rv (by sim_rec r1)
          generalize (if e1.defers.isEmpty then e1 else @runDefers F P n e1.defers.reverse e1.rv e1.err { e1 with defers := [] }) = u at r2 ⊢
          generalize (if e2.defers.isEmpty then e2 else @runDefers F Q n e2.defers.reverse e2.rv e2.err { e2 with defers := [] }) = w at r2 ⊢
          rw [← r2.err]
          split <;> (apply sim_mk <;> first | exact r2.scopes | exact r2.closures | exact r2.trace | exact r2.polls | exact r2.cancelAt | exact r2.unsup | exact h0.cur | exact r2.rv | rfl | exact h0.defers)
      · simp only [hv, ↓reduceIte]
        cases cs
        · simp only [Bool.false_eq_true, ↓reduceIte]
          have hact : SimL (List.take (c.params.length - 1) a ++ [⟨false, .list ((List.drop (c.params.length - 1) a).map (·.v))⟩])
              (List.take (c.params.length - 1) a' ++ [⟨false, .list ((List.drop (c.params.length - 1) a').map (·.v))⟩]) := by
            apply simL_append (simL_take ha _)
            rw [simL_vals (simL_drop ha _)]; exact simL_refl _
          generalize List.take (c.params.length - 1) a ++ [⟨false, .list ((List.drop (c.params.length - 1) a).map (·.v))⟩] = act at hact ⊢
          generalize List.take (c.params.length - 1) a' ++ [⟨false, .list ((List.drop (c.params.length - 1) a').map (·.v))⟩] = act' at hact ⊢
          rw [← simL_length hact]
          split
          · exact sim_markUnsup h0 _
          · obtain ⟨k1, k2⟩ := sim_newScope h0 c.env
            rw [← k1]
            have hdef := sim_defineAll _ _ _ _ (s.newScope c.env).1 k2 (simB_zip c.params _ _ hact)
            have hcallee : Sim { (s.newScope c.env).2.defineAll (s.newScope c.env).1 (c.params.zip act) with cur := (s.newScope c.env).1, rv := nilRV, err := none, defers := [] }
                { (t.newScope c.env).2.defineAll (s.newScope c.env).1 (c.params.zip act') with cur := (s.newScope c.env).1, rv := nilRV, err := none, defers := [] } := by
              sim_rec hdef
            generalize ({ (s.newScope c.env).2.defineAll (s.newScope c.env).1 (c.params.zip act) with cur := (s.newScope c.env).1, rv := nilRV, err := none, defers := [] } : St) = cs0 at hcallee ⊢
            generalize ({ (t.newScope c.env).2.defineAll (s.newScope c.env).1 (c.params.zip act') with cur := (s.newScope c.env).1, rv := nilRV, err := none, defers := [] } : St) = ct0 at hcallee ⊢
            have r1 := ih.execStmt c.body cs0 ct0 hcallee
            generalize @execStmt F P n c.body cs0 = e1 at r1 ⊢
            generalize @execStmt F Q n c.body ct0 = e2 at r1 ⊢
            have r2 : Sim (if e1.defers.isEmpty then e1 else @runDefers F P n e1.defers.reverse e1.rv e1.err { e1 with defers := [] })
                (if e2.defers.isEmpty then e2 else @runDefers F Q n e2.defers.reverse e2.rv e2.err { e2 with defers := [] }) := by
              rw [← defers_isEmpty_sim r1.defers, ← r1.err]
              split
              · exact r1
              · exact ih.runDefers _ _ _ _ _ _ _ (defers_reverse_sim r1.defers) r1.rv (by sim_rec r1)
            generalize (if e1.defers.isEmpty then e1 else @runDefers F P n e1.defers.reverse e1.rv e1.err { e1 with defers := [] }) = u at r2 ⊢
            generalize (if e2.defers.isEmpty then e2 else @runDefers F Q n e2.defers.reverse e2.rv e2.err { e2 with defers := [] }) = w at r2 ⊢
            rw [← r2.err]
            split <;> (apply sim_mk <;> first | exact r2.scopes | exact r2.closures | exact r2.trace | exact r2.polls | exact r2.cancelAt | exact r2.unsup | exact h0.cur | exact r2.rv | rfl | exact h0.defers)
        · simp only [↓reduceIte]
          have hact : SimL (List.take (c.params.length - 1) a ++ List.take 1 (List.drop (c.params.length - 1) a))
              (List.take (c.params.length - 1) a' ++ List.take 1 (List.drop (c.params.length - 1) a')) :=
            simL_append (simL_take ha _) (simL_take (simL_drop ha _) _)
          generalize List.take (c.params.length - 1) a ++ List.take 1 (List.drop (c.params.length - 1) a) = act at hact ⊢
          generalize List.take (c.params.length - 1) a' ++ List.take 1 (List.drop (c.params.length - 1) a') = act' at hact ⊢
          rw [← simL_length hact]
          split
          · exact sim_markUnsup h0 _
          · obtain ⟨k1, k2⟩ := sim_newScope h0 c.env
            rw [← k1]
            have hdef := sim_defineAll _ _ _ _ (s.newScope c.env).1 k2 (simB_zip c.params _ _ hact)
            have hcallee : Sim { (s.newScope c.env).2.defineAll (s.newScope c.env).1 (c.params.zip act) with cur := (s.newScope c.env).1, rv := nilRV, err := none, defers := [] }
                { (t.newScope c.env).2.defineAll (s.newScope c.env).1 (c.params.zip act') with cur := (s.newScope c.env).1, rv := nilRV, err := none, defers := [] } := by
              sim_rec hdef
            generalize ({ (s.newScope c.env).2.defineAll (s.newScope c.env).1 (c.params.zip act) with cur := (s.newScope c.env).1, rv := nilRV, err := none, defers := [] } : St) = cs0 at hcallee ⊢
            generalize ({ (t.newScope c.env).2.defineAll (s.newScope c.env).1 (c.params.zip act') with cur := (s.newScope c.env).1, rv := nilRV, err := none, defers := [] } : St) = ct0 at hcallee ⊢
            have r1 := ih.execStmt c.body cs0 ct0 hcallee
            generalize @execStmt F P n c.body cs0 = e1 at r1 ⊢
            generalize @execStmt F Q n c.body ct0 = e2 at r1 ⊢
            have r2 : Sim (if e1.defers.isEmpty then e1 else @runDefers F P n e1.defers.reverse e1.rv e1.err { e1 with defers := [] })
                (if e2.defers.isEmpty then e2 else @runDefers F Q n e2.defers.reverse e2.rv e2.err { e2 with defers := [] }) := by
              rw [← defers_isEmpty_sim r1.defers, ← r1.err]
              split
              · exact r1
              · exact ih.runDefers _ _ _ _ _ _ _ (defers_reverse_sim r1.defers) r1.rv (by sim_rec r1)
            generalize (if e1.defers.isEmpty then e1 else @runDefers F P n e1.defers.reverse e1.rv e1.err { e1 with defers := [] }) = u at r2 ⊢
            generalize (if e2.defers.isEmpty then e2 else @runDefers F Q n e2.defers.reverse e2.rv e2.err { e2 with defers := [] }) = w at r2 ⊢
            rw [← r2.err]
            split <;> (apply sim_mk <;> first | exact r2.scopes | exact r2.closures | exact r2.trace | exact r2.polls | exact r2.cancelAt | exact r2.unsup | exact h0.cur | exact r2.rv | rfl | exact h0.defers)
  all_goals (simp only [callFn]; exact sim_markUnsup h0 _)

end Anko
