/-
C20, whole evaluator: the simulation for the functions closed by `grind` over the primitive lemmas.
-/
import Anko.Proofs.EvalProv

set_option linter.unusedSectionVars false
set_option linter.unusedVariables false
set_option linter.unusedSimpArgs false
set_option maxHeartbeats 1600000

namespace Anko
variable [F : FOps] (P Q : Prov)

theorem prov_evalList (n : Nat) (ih : ProvIH P Q n) : ∀ es s t, Sim s t → SimL (@evalList F P (n + 1) es s).1 (@evalList F Q (n + 1) es t).1 ∧ Sim (@evalList F P (n + 1) es s).2 (@evalList F Q (n + 1) es t).2 := by
  intro es s t h0
  rw [@evalList.eq_def F P, @evalList.eq_def F Q]
  prov_grind ih

theorem prov_evalIndexOpt (n : Nat) (ih : ProvIH P Q n) : ∀ oe d s t, Sim s t → (@evalIndexOpt F P (n + 1) oe d s).1 = (@evalIndexOpt F Q (n + 1) oe d t).1 ∧ Sim (@evalIndexOpt F P (n + 1) oe d s).2 (@evalIndexOpt F Q (n + 1) oe d t).2 := by
  intro oe d s t h0
  rw [@evalIndexOpt.eq_def F P, @evalIndexOpt.eq_def F Q]
  prov_grind ih

theorem prov_evalCond (n : Nat) (ih : ProvIH P Q n) : ∀ oe s t, Sim s t → (@evalCond F P (n + 1) oe s).1 = (@evalCond F Q (n + 1) oe t).1 ∧ Sim (@evalCond F P (n + 1) oe s).2 (@evalCond F Q (n + 1) oe t).2 := by
  intro oe s t h0
  rw [@evalCond.eq_def F P, @evalCond.eq_def F Q]
  prov_grind ih

theorem prov_sliceBegin (n : Nat) (ih : ProvIH P Q n) : ∀ it len b e hc s t, Sim s t → Sim (@sliceBegin F P (n + 1) it len b e hc s) (@sliceBegin F Q (n + 1) it len b e hc t) := by
  intro it len b e hc s t h0
  rw [@sliceBegin.eq_def F P, @sliceBegin.eq_def F Q]
  prov_grind ih

theorem prov_sliceEnd (n : Nat) (ih : ProvIH P Q n) : ∀ it len bi e hc s t, Sim s t → Sim (@sliceEnd F P (n + 1) it len bi e hc s) (@sliceEnd F Q (n + 1) it len bi e hc t) := by
  intro it len bi e hc s t h0
  rw [@sliceEnd.eq_def F P, @sliceEnd.eq_def F Q]
  prov_grind ih

theorem prov_evalMapLit (n : Nat) (ih : ProvIH P Q n) : ∀ ks vs acc s t, Sim s t → Sim (@evalMapLit F P (n + 1) ks vs acc s) (@evalMapLit F Q (n + 1) ks vs acc t) := by
  intro ks vs acc s t h0
  rw [@evalMapLit.eq_def F P, @evalMapLit.eq_def F Q]
  prov_grind ih

theorem prov_letExpr (n : Nat) (ih : ProvIH P Q n) : ∀ e s t, Sim s t → Sim (@letExpr F P (n + 1) e s) (@letExpr F Q (n + 1) e t) := by
  intro e s t h0
  rw [@letExpr.eq_def F P, @letExpr.eq_def F Q]
  prov_grind ih

theorem prov_callValue (n : Nat) (ih : ProvIH P Q n) : ∀ f a va s t, Sim s t → Sim (@callValue F P (n + 1) f a va s) (@callValue F Q (n + 1) f a va t) := by
  intro f a va s t h0
  rw [@callValue.eq_def F P, @callValue.eq_def F Q]
  prov_grind ih

theorem prov_makeCallArgs (n : Nat) (ih : ProvIH P Q n) : ∀ c a va s t, Sim s t → SimL (@makeCallArgs F P (n + 1) c a va s).1.1 (@makeCallArgs F Q (n + 1) c a va t).1.1 ∧ (@makeCallArgs F P (n + 1) c a va s).1.2 = (@makeCallArgs F Q (n + 1) c a va t).1.2 ∧ Sim (@makeCallArgs F P (n + 1) c a va s).2 (@makeCallArgs F Q (n + 1) c a va t).2 := by
  intro c a va s t h0
  rw [@makeCallArgs.eq_def F P, @makeCallArgs.eq_def F Q]
  prov_grind ih

theorem prov_argsTail (n : Nat) (ih : ProvIH P Q n) : ∀ c r nl va ne lead lead' s t, SimL lead lead' → Sim s t → SimL (@argsTail F P (n + 1) c r nl va ne lead s).1.1 (@argsTail F Q (n + 1) c r nl va ne lead' t).1.1 ∧ (@argsTail F P (n + 1) c r nl va ne lead s).1.2 = (@argsTail F Q (n + 1) c r nl va ne lead' t).1.2 ∧ Sim (@argsTail F P (n + 1) c r nl va ne lead s).2 (@argsTail F Q (n + 1) c r nl va ne lead' t).2 := by
  intro c r nl va ne lead lead' s t h0 h1
  rw [@argsTail.eq_def F P, @argsTail.eq_def F Q]
  prov_grind ih

theorem prov_evalArgs (n : Nat) (ih : ProvIH P Q n) : ∀ c es i s t, Sim s t → SimL (@evalArgs F P (n + 1) c es i s).1 (@evalArgs F Q (n + 1) c es i t).1 ∧ Sim (@evalArgs F P (n + 1) c es i s).2 (@evalArgs F Q (n + 1) c es i t).2 := by
  intro c es i s t h0
  rw [@evalArgs.eq_def F P, @evalArgs.eq_def F Q]
  prov_grind ih

theorem prov_evalVarArgs (n : Nat) (ih : ProvIH P Q n) : ∀ c es s t, Sim s t → SimL (@evalVarArgs F P (n + 1) c es s).1 (@evalVarArgs F Q (n + 1) c es t).1 ∧ Sim (@evalVarArgs F P (n + 1) c es s).2 (@evalVarArgs F Q (n + 1) c es t).2 := by
  intro c es s t h0
  rw [@evalVarArgs.eq_def F P, @evalVarArgs.eq_def F Q]
  prov_grind ih

theorem prov_loopIter (n : Nat) (ih : ProvIH P Q n) : ∀ c b s t, Sim s t → Sim (@loopIter F P (n + 1) c b s) (@loopIter F Q (n + 1) c b t) := by
  intro c b s t h0
  simp only [loopIter]
  obtain ⟨hp1, hp2⟩ := sim_poll h0
  rw [← hp1]
  split
  · exact sim_with_rv_err hp2 rfl _
  · obtain ⟨c1, c2⟩ := ih.evalCond c _ _ hp2
    refine sim_ite_err c2 c2 (fun _ => ?_)
    rw [← c1]
    split
    · exact sim_markUnsup c2 _
    · exact c2
    · have h2 := ih.execStmt b _ _ c2
      rw [← h2.err]
      split
      · exact ih.loopIter c b _ _ h2
      · exact ih.loopIter c b _ _ (sim_with_err h2 none)
      · exact h2
      · exact sim_with_err h2 _
      · exact h2

theorem prov_execReturn (n : Nat) (ih : ProvIH P Q n) : ∀ es s t, Sim s t → Sim (@execReturn F P (n + 1) es s) (@execReturn F Q (n + 1) es t) := by
  intro es s t h0
  rw [@execReturn.eq_def F P, @execReturn.eq_def F Q]
  prov_grind ih

theorem prov_execCases (n : Nat) (ih : ProvIH P Q n) : ∀ subj subj' cs d s t, subj.v = subj'.v → Sim s t → Sim (@execCases F P (n + 1) subj cs d s) (@execCases F Q (n + 1) subj' cs d t) := by
  intro subj subj' cs d s t h0 h1
  rw [@execCases.eq_def F P, @execCases.eq_def F Q]
  prov_grind ih

theorem prov_matchCase (n : Nat) (ih : ProvIH P Q n) : ∀ subj subj' es s t, subj.v = subj'.v → Sim s t →
    (@matchCase F P (n + 1) subj es s).1 = (@matchCase F Q (n + 1) subj' es t).1 ∧ Sim (@matchCase F P (n + 1) subj es s).2 (@matchCase F Q (n + 1) subj' es t).2 := by
  intro subj subj' es s t hs h0
  cases es with
  | nil => simp only [matchCase]; exact ⟨trivial, h0⟩
  | cons e rest =>
    simp only [matchCase]
    have h1 := ih.evalExpr e s t h0
    rw [← h1.err, ← h1.rv, ← hs]
    split
    · exact ⟨rfl, h1⟩
    · split
      · exact ⟨rfl, sim_markUnsup h1 _⟩
      · exact ⟨rfl, h1⟩
      · exact ih.matchCase subj subj' rest _ _ hs h1

end Anko
