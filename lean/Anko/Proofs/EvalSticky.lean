/-
The "unsupported" marker is sticky: once a run has left the modelled fragment (or run out of fuel)
no model function clears the marker again.
-/
import Anko.Proofs.EvalCall

set_option linter.unusedSectionVars false
set_option linter.unusedVariables false

namespace Anko
variable [FOps] [Prov]

/-- `r` is marked whenever `s` is -/
def Stick (s r : St) : Prop := s.unsup ≠ none → r.unsup ≠ none

theorem Stick.refl (s : St) : Stick s s := id
theorem Stick.trans {a b c : St} (h1 : Stick a b) (h2 : Stick b c) : Stick a c := fun h => h2 (h1 h)
theorem stick_of_eq (s r : St) (h : r.unsup = s.unsup) : Stick s r := by unfold Stick; rw [h]; exact id

theorem stick_fail (s : St) (m : String) : Stick s (s.fail m) := stick_of_eq _ _ rfl
theorem stick_markUnsup (s : St) (m : String) : Stick s (s.markUnsup m) := by
  intro _; unfold St.markUnsup; cases s.unsup <;> simp
theorem markUnsup_marked (s : St) (m : String) : (s.markUnsup m).unsup ≠ none := by
  unfold St.markUnsup; cases s.unsup <;> simp
theorem stick_outOfFuel (s : St) : Stick s (outOfFuel s) := stick_markUnsup s _
theorem stick_pollst (s : St) : Stick s s.poll.2 := stick_of_eq _ _ rfl
theorem stick_traceVal (s : St) (v : Val) : Stick s (s.traceVal v) := stick_of_eq _ _ rfl
theorem stick_traceAppend (s : St) (tr : List Val) : Stick s { s with trace := s.trace ++ tr.toArray } := stick_of_eq _ _ rfl
theorem stick_traceAppend_fail (s : St) (tr : List Val) (m : String) : Stick s ({ s with trace := s.trace ++ tr.toArray }.fail m) := stick_of_eq _ _ rfl
theorem stick_traceAppend_rv (s : St) (tr : List Val) (rv : RV) : Stick s { s with trace := s.trace ++ tr.toArray, rv := rv } := stick_of_eq _ _ rfl
theorem stick_newScope (s : St) (p : Nat) : Stick s (s.newScope p).2 := stick_of_eq _ _ rfl
theorem stick_addClosure (s : St) (c : Closure) : Stick s (s.addClosure c).2 := stick_of_eq _ _ rfl
theorem define_unsup (s : St) (i : Nat) (n : String) (v : RV) : (s.define i n v).unsup = s.unsup := by
  unfold St.define; split <;> rfl
theorem stick_define (s : St) (i : Nat) (n : String) (v : RV) : Stick s (s.define i n v) := stick_of_eq _ _ (define_unsup _ _ _ _)
theorem stick_defineAll (l : List (String × RV)) : ∀ (s : St) (i : Nat), Stick s (s.defineAll i l) := by
  induction l with
  | nil => intro s i; exact Stick.refl s
  | cons x xs ih => intro s i; obtain ⟨n, v⟩ := x; exact (stick_define s i n v).trans (ih _ i)
theorem stick_setValue (s s' : St) (i : Nat) (n : String) (v : RV) (h : s.setValue i n v = some s') : Stick s s' := by
  unfold St.setValue at h
  split at h
  · injection h with h; subst h; exact stick_define _ _ _ _
  · cases h
theorem stick_assign (s : St) (n : String) (v : RV) : Stick s (s.assign n v) := by
  unfold St.assign
  cases h : s.setValue s.cur n v with
  | some s' => exact stick_setValue _ _ _ _ _ h
  | none => exact stick_define _ _ _ _
theorem stick_assignIn (s : St) (i : Nat) (n : String) (v : RV) : Stick s (s.assignIn i n v) := by
  unfold St.assignIn
  cases h : s.setValue i n v with
  | some s' => exact stick_setValue _ _ _ _ _ h
  | none => exact stick_of_eq _ _ rfl
theorem stick_opRes (s : St) (r : OpRes) : Stick s (opRes s r) := by
  cases r
  · exact stick_of_eq _ _ rfl
  · exact stick_of_eq _ _ rfl
  · exact stick_markUnsup _ _
theorem stick_sliceResult (item : Val) (len : Nat) (bi ei : Int) (hc : Bool) (s : St) :
    Stick s (sliceResult item len bi ei hc s) := by
  unfold sliceResult
  repeat' split
  all_goals first | exact stick_of_eq _ _ rfl | exact stick_markUnsup _ _ | exact stick_fail _ _
theorem stick_convertArgs (cal : Callee) : ∀ (xs : List Val) (i : Nat) (s : St), Stick s (convertArgs cal xs i s).2 := by
  intro xs
  induction xs with
  | nil => intro i s; exact Stick.refl s
  | cons x xs ih =>
    intro i s
    simp only [convertArgs]
    split
    · have := ih (i + 1) s
      split <;> simp_all
    · split
      · exact stick_markUnsup _ _
      · split
        · exact stick_markUnsup _ _
        · exact stick_fail _ _
      · have := ih (i + 1) { s with rv := ‹RV› }
        have h0 : Stick s { s with rv := ‹RV› } := stick_of_eq _ _ rfl
        split <;> first | exact h0.trans (by simp_all) | simp_all
theorem stick_spreadFixed (cal : Callee) (nLead numExprs : Nat) (lead : List RV) (s2 : St) :
    Stick s2 (spreadFixed cal nLead numExprs lead s2).2 := by
  unfold spreadFixed
  split
  · split
    · exact stick_fail _ _
    · have := stick_convertArgs cal (List.take (cal.numIn - nLead) ‹List Val›) nLead s2
      split <;> simp_all
  · split
    · exact stick_markUnsup _ _
    · exact stick_fail _ _
theorem stick_spreadVariadic (lead : List RV) (s2 : St) : Stick s2 (spreadVariadic lead s2).2 := by
  unfold spreadVariadic
  repeat' split
  all_goals (first | exact Stick.refl _ | exact stick_markUnsup _ _ | exact stick_fail _ _)

structure StickIH (n : Nat) : Prop where
  evalExpr : ∀ e s, Stick s (evalExpr n e s)
  evalList : ∀ es s, Stick s (evalList n es s).2
  evalIndexOpt : ∀ oe d s, Stick s (evalIndexOpt n oe d s).2
  evalCond : ∀ oe s, Stick s (evalCond n oe s).2
  sliceBegin : ∀ it len b e hc s, Stick s (sliceBegin n it len b e hc s)
  sliceEnd : ∀ it len bi e hc s, Stick s (sliceEnd n it len bi e hc s)
  evalMapLit : ∀ ks vs acc s, Stick s (evalMapLit n ks vs acc s)
  evalLetsx : ∀ l r i s, Stick s (evalLetsx n l r i s)
  letExpr : ∀ e s, Stick s (letExpr n e s)
  callValue : ∀ f a va s, Stick s (callValue n f a va s)
  makeCallArgs : ∀ c a va s, Stick s (makeCallArgs n c a va s).2
  argsTail : ∀ c r nl va ne lead s, Stick s (argsTail n c r nl va ne lead s).2
  evalArgs : ∀ c es i s, Stick s (evalArgs n c es i s).2
  evalVarArgs : ∀ c es s, Stick s (evalVarArgs n c es s).2
  callFn : ∀ f a cs s, Stick s (callFn n f a cs s)
  runDefers : ∀ ds rv err s, Stick s (runDefers n ds rv err s)
  execStmt : ∀ st s, Stick s (execStmt n st s)
  execStmts : ∀ ss s, Stick s (execStmts n ss s)
  assignAll : ∀ l v s, Stick s (assignAll n l v s)
  execElifs : ∀ el els env s, Stick s (execElifs n el els env s)
  loopIter : ∀ c b s, Stick s (loopIter n c b s)
  cforIter : ∀ c p b s, Stick s (cforIter n c p b s)
  forSlice : ∀ v b xs s, Stick s (forSlice n v b xs s)
  forMap : ∀ vs b m s, Stick s (forMap n vs b m s)
  execReturn : ∀ es s, Stick s (execReturn n es s)
  execCases : ∀ subj cs d s, Stick s (execCases n subj cs d s)
  matchCase : ∀ subj es s, Stick s (matchCase n subj es s).2
  registerDefer : ∀ f a va s, Stick s (registerDefer n f a va s)

/-- close a Mono goal -/
macro "stick_grind" ih:ident : tactic => `(tactic| (
  have hh0 := ($ih).evalExpr
  have hh1 := ($ih).evalList
  have hh2 := ($ih).evalIndexOpt
  have hh3 := ($ih).evalCond
  have hh4 := ($ih).sliceBegin
  have hh5 := ($ih).sliceEnd
  have hh6 := ($ih).evalMapLit
  have hh7 := ($ih).evalLetsx
  have hh8 := ($ih).letExpr
  have hh9 := ($ih).callValue
  have hh10 := ($ih).makeCallArgs
  have hh11 := ($ih).argsTail
  have hh12 := ($ih).evalArgs
  have hh13 := ($ih).evalVarArgs
  have hh14 := ($ih).callFn
  have hh15 := ($ih).runDefers
  have hh16 := ($ih).execStmt
  have hh17 := ($ih).execStmts
  have hh18 := ($ih).assignAll
  have hh19 := ($ih).execElifs
  have hh20 := ($ih).loopIter
  have hh21 := ($ih).cforIter
  have hh22 := ($ih).forSlice
  have hh23 := ($ih).forMap
  have hh24 := ($ih).execReturn
  have hh25 := ($ih).execCases
  have hh26 := ($ih).matchCase
  have hh27 := ($ih).registerDefer
  grind (splits := 40) [Stick, Stick.refl, stick_fail, stick_markUnsup, stick_outOfFuel, stick_pollst, stick_newScope, stick_addClosure,
    stick_define, stick_defineAll, stick_assign, stick_assignIn, stick_opRes, stick_sliceResult, stick_convertArgs,
    stick_spreadFixed, stick_spreadVariadic, stick_traceVal, stick_traceAppend, stick_traceAppend_fail, stick_traceAppend_rv, Stick.trans]))

theorem stick_evalExpr (n : Nat) (ih : StickIH n) : ∀ e s, Stick s (evalExpr (n + 1) e s) := by
  intro e s; cases e <;> simp only [evalExpr] <;> stick_grind ih

theorem stick_evalList (n : Nat) (ih : StickIH n) : ∀ es s, Stick s (evalList (n + 1) es s).2 := by
  intro es s; rw [evalList.eq_def]; stick_grind ih

theorem stick_evalIndexOpt (n : Nat) (ih : StickIH n) : ∀ oe d s, Stick s (evalIndexOpt (n + 1) oe d s).2 := by
  intro oe d s; rw [evalIndexOpt.eq_def]; stick_grind ih

theorem stick_evalCond (n : Nat) (ih : StickIH n) : ∀ oe s, Stick s (evalCond (n + 1) oe s).2 := by
  intro oe s; rw [evalCond.eq_def]; stick_grind ih

theorem stick_sliceBegin (n : Nat) (ih : StickIH n) : ∀ it len b e hc s, Stick s (sliceBegin (n + 1) it len b e hc s) := by
  intro it len b e hc s; rw [sliceBegin.eq_def]; stick_grind ih

theorem stick_sliceEnd (n : Nat) (ih : StickIH n) : ∀ it len bi e hc s, Stick s (sliceEnd (n + 1) it len bi e hc s) := by
  intro it len bi e hc s; rw [sliceEnd.eq_def]; stick_grind ih

theorem stick_evalMapLit (n : Nat) (ih : StickIH n) : ∀ ks vs acc s, Stick s (evalMapLit (n + 1) ks vs acc s) := by
  intro ks vs acc s; rw [evalMapLit.eq_def]; stick_grind ih

theorem stick_evalLetsx (n : Nat) (ih : StickIH n) : ∀ l r i s, Stick s (evalLetsx (n + 1) l r i s) := by
  intro l r i s; rw [evalLetsx.eq_def]; stick_grind ih

theorem stick_letExpr (n : Nat) (ih : StickIH n) : ∀ e s, Stick s (letExpr (n + 1) e s) := by
  intro e s; rw [letExpr.eq_def]; stick_grind ih

theorem stick_callValue (n : Nat) (ih : StickIH n) : ∀ f a va s, Stick s (callValue (n + 1) f a va s) := by
  intro f a va s; rw [callValue.eq_def]; stick_grind ih

theorem stick_makeCallArgs (n : Nat) (ih : StickIH n) : ∀ c a va s, Stick s (makeCallArgs (n + 1) c a va s).2 := by
  intro c a va s; rw [makeCallArgs.eq_def]; stick_grind ih

theorem stick_argsTail (n : Nat) (ih : StickIH n) : ∀ c r nl va ne lead s, Stick s (argsTail (n + 1) c r nl va ne lead s).2 := by
  intro c r nl va ne lead s; rw [argsTail.eq_def]; stick_grind ih

theorem stick_evalArgs (n : Nat) (ih : StickIH n) : ∀ c es i s, Stick s (evalArgs (n + 1) c es i s).2 := by
  intro c es i s; rw [evalArgs.eq_def]; stick_grind ih

theorem stick_evalVarArgs (n : Nat) (ih : StickIH n) : ∀ c es s, Stick s (evalVarArgs (n + 1) c es s).2 := by
  intro c es s; rw [evalVarArgs.eq_def]; stick_grind ih

theorem stick_callFn (n : Nat) (ih : StickIH n) : ∀ f a cs s, Stick s (callFn (n + 1) f a cs s) := by
  intro f a cs s; rw [callFn.eq_def]; stick_grind ih

theorem stick_runDefers (n : Nat) (ih : StickIH n) : ∀ ds rv err s, Stick s (runDefers (n + 1) ds rv err s) := by
  intro ds rv err s; rw [runDefers.eq_def]; stick_grind ih

theorem stick_execStmt_try (n : Nat) (ih : StickIH n) (t c f : Stmt) (var : String) (s : St) : Stick s (execStmt (n + 1) (.tryS t var c f) s) := by
  rw [execStmt]
  extract_lets env pr16 sc s1 s2 s3 s4
  have hE := ih.execStmt
  have hp : Stick s s.poll.2 := stick_pollst s
  have h1 : Stick s s1 := hp.trans (stick_newScope _ _)
  have h2 : Stick s s2 := (h1.trans (stick_of_eq s1 { s1 with cur := sc } rfl)).trans (hE t _)
  have h3 : Stick s s3 := by
    simp only [s3]
    split
    · exact h2
    · exact h2
    · next e _ _ =>
      generalize hd : (if (var != "") = true then s2.define s2.cur var ⟨false, .err e.msg⟩ else s2) = s2'
      have : Stick s2 s2' := by
        rw [← hd]
        split
        · exact stick_define _ _ _ _
        · exact Stick.refl _
      exact ((h2.trans this).trans (stick_of_eq s2' { s2' with err := none } rfl)).trans (hE c _)
  have h4 : Stick s s4 := by
    simp only [s4]
    split
    · exact h3
    · exact h3.trans (hE _ _)
  split
  · exact hp.trans (stick_of_eq _ _ rfl)
  · split
    · exact h3.trans (stick_of_eq _ _ rfl)
    · exact h3.trans (stick_of_eq _ _ rfl)
    · exact h4.trans (stick_of_eq _ _ rfl)

theorem stick_execStmt (n : Nat) (ih : StickIH n) : ∀ st s, Stick s (execStmt (n + 1) st s) := by
  intro st s
  cases st
  case tryS t var c f => exact stick_execStmt_try n ih t c f var s
  all_goals rw [execStmt.eq_def]
  all_goals stick_grind ih

theorem stick_execStmts (n : Nat) (ih : StickIH n) : ∀ ss s, Stick s (execStmts (n + 1) ss s) := by
  intro ss s; rw [execStmts.eq_def]; stick_grind ih

theorem stick_assignAll (n : Nat) (ih : StickIH n) : ∀ l v s, Stick s (assignAll (n + 1) l v s) := by
  intro l v s; rw [assignAll.eq_def]; stick_grind ih

theorem stick_execElifs (n : Nat) (ih : StickIH n) : ∀ el els env s, Stick s (execElifs (n + 1) el els env s) := by
  intro el els env s; rw [execElifs.eq_def]; stick_grind ih

theorem stick_loopIter (n : Nat) (ih : StickIH n) : ∀ c b s, Stick s (loopIter (n + 1) c b s) := by
  intro c b s; rw [loopIter.eq_def]; stick_grind ih

theorem stick_cforIter (n : Nat) (ih : StickIH n) : ∀ c p b s, Stick s (cforIter (n + 1) c p b s) := by
  intro c p b s; rw [cforIter.eq_def]; stick_grind ih

theorem stick_forSlice (n : Nat) (ih : StickIH n) : ∀ v b xs s, Stick s (forSlice (n + 1) v b xs s) := by
  intro v b xs s; rw [forSlice.eq_def]; stick_grind ih

theorem stick_forMap (n : Nat) (ih : StickIH n) : ∀ vs b m s, Stick s (forMap (n + 1) vs b m s) := by
  intro vs b m s; rw [forMap.eq_def]; stick_grind ih

theorem stick_execReturn (n : Nat) (ih : StickIH n) : ∀ es s, Stick s (execReturn (n + 1) es s) := by
  intro es s; rw [execReturn.eq_def]; stick_grind ih

theorem stick_execCases (n : Nat) (ih : StickIH n) : ∀ subj cs d s, Stick s (execCases (n + 1) subj cs d s) := by
  intro subj cs d s; rw [execCases.eq_def]; stick_grind ih

theorem stick_matchCase (n : Nat) (ih : StickIH n) : ∀ subj es s, Stick s (matchCase (n + 1) subj es s).2 := by
  intro subj es s; rw [matchCase.eq_def]; stick_grind ih

theorem stick_registerDefer (n : Nat) (ih : StickIH n) : ∀ f a va s, Stick s (registerDefer (n + 1) f a va s) := by
  intro f a va s; rw [registerDefer.eq_def]; stick_grind ih

/-- For every model function at every fuel: the cancellation point is untouched and the poll counter only grows. -/
theorem stick_all : ∀ n : Nat, StickIH n := by
  intro n
  induction n with
  | zero => exact {
    evalExpr := by intros; simp only [evalExpr]; first | exact stick_outOfFuel _ | exact (stick_outOfFuel _).trans (stick_of_eq _ _ rfl)
    evalList := by intros; simp only [evalList]; first | exact stick_outOfFuel _ | exact (stick_outOfFuel _).trans (stick_of_eq _ _ rfl)
    evalIndexOpt := by intros; simp only [evalIndexOpt]; first | exact stick_outOfFuel _ | exact (stick_outOfFuel _).trans (stick_of_eq _ _ rfl)
    evalCond := by intros; simp only [evalCond]; first | exact stick_outOfFuel _ | exact (stick_outOfFuel _).trans (stick_of_eq _ _ rfl)
    sliceBegin := by intros; simp only [sliceBegin]; first | exact stick_outOfFuel _ | exact (stick_outOfFuel _).trans (stick_of_eq _ _ rfl)
    sliceEnd := by intros; simp only [sliceEnd]; first | exact stick_outOfFuel _ | exact (stick_outOfFuel _).trans (stick_of_eq _ _ rfl)
    evalMapLit := by intros; simp only [evalMapLit]; first | exact stick_outOfFuel _ | exact (stick_outOfFuel _).trans (stick_of_eq _ _ rfl)
    evalLetsx := by intros; simp only [evalLetsx]; first | exact stick_outOfFuel _ | exact (stick_outOfFuel _).trans (stick_of_eq _ _ rfl)
    letExpr := by intros; simp only [letExpr]; first | exact stick_outOfFuel _ | exact (stick_outOfFuel _).trans (stick_of_eq _ _ rfl)
    callValue := by intros; simp only [callValue]; first | exact stick_outOfFuel _ | exact (stick_outOfFuel _).trans (stick_of_eq _ _ rfl)
    makeCallArgs := by intros; simp only [makeCallArgs]; first | exact stick_outOfFuel _ | exact (stick_outOfFuel _).trans (stick_of_eq _ _ rfl)
    argsTail := by intros; simp only [argsTail]; first | exact stick_outOfFuel _ | exact (stick_outOfFuel _).trans (stick_of_eq _ _ rfl)
    evalArgs := by intros; simp only [evalArgs]; first | exact stick_outOfFuel _ | exact (stick_outOfFuel _).trans (stick_of_eq _ _ rfl)
    evalVarArgs := by intros; simp only [evalVarArgs]; first | exact stick_outOfFuel _ | exact (stick_outOfFuel _).trans (stick_of_eq _ _ rfl)
    callFn := by intros; simp only [callFn]; first | exact stick_outOfFuel _ | exact (stick_outOfFuel _).trans (stick_of_eq _ _ rfl)
    runDefers := by intros; simp only [runDefers]; first | exact stick_outOfFuel _ | exact (stick_outOfFuel _).trans (stick_of_eq _ _ rfl)
    execStmt := by intros; simp only [execStmt]; first | exact stick_outOfFuel _ | exact (stick_outOfFuel _).trans (stick_of_eq _ _ rfl)
    execStmts := by intros; simp only [execStmts]; first | exact stick_outOfFuel _ | exact (stick_outOfFuel _).trans (stick_of_eq _ _ rfl)
    assignAll := by intros; simp only [assignAll]; first | exact stick_outOfFuel _ | exact (stick_outOfFuel _).trans (stick_of_eq _ _ rfl)
    execElifs := by intros; simp only [execElifs]; first | exact stick_outOfFuel _ | exact (stick_outOfFuel _).trans (stick_of_eq _ _ rfl)
    loopIter := by intros; simp only [loopIter]; first | exact stick_outOfFuel _ | exact (stick_outOfFuel _).trans (stick_of_eq _ _ rfl)
    cforIter := by intros; simp only [cforIter]; first | exact stick_outOfFuel _ | exact (stick_outOfFuel _).trans (stick_of_eq _ _ rfl)
    forSlice := by intros; simp only [forSlice]; first | exact stick_outOfFuel _ | exact (stick_outOfFuel _).trans (stick_of_eq _ _ rfl)
    forMap := by intros; simp only [forMap]; first | exact stick_outOfFuel _ | exact (stick_outOfFuel _).trans (stick_of_eq _ _ rfl)
    execReturn := by intros; simp only [execReturn]; first | exact stick_outOfFuel _ | exact (stick_outOfFuel _).trans (stick_of_eq _ _ rfl)
    execCases := by intros; simp only [execCases]; first | exact stick_outOfFuel _ | exact (stick_outOfFuel _).trans (stick_of_eq _ _ rfl)
    matchCase := by intros; simp only [matchCase]; first | exact stick_outOfFuel _ | exact (stick_outOfFuel _).trans (stick_of_eq _ _ rfl)
    registerDefer := by intros; simp only [registerDefer]; first | exact stick_outOfFuel _ | exact (stick_outOfFuel _).trans (stick_of_eq _ _ rfl) }
  | succ n ih => exact {
    evalExpr := stick_evalExpr n ih
    evalList := stick_evalList n ih
    evalIndexOpt := stick_evalIndexOpt n ih
    evalCond := stick_evalCond n ih
    sliceBegin := stick_sliceBegin n ih
    sliceEnd := stick_sliceEnd n ih
    evalMapLit := stick_evalMapLit n ih
    evalLetsx := stick_evalLetsx n ih
    letExpr := stick_letExpr n ih
    callValue := stick_callValue n ih
    makeCallArgs := stick_makeCallArgs n ih
    argsTail := stick_argsTail n ih
    evalArgs := stick_evalArgs n ih
    evalVarArgs := stick_evalVarArgs n ih
    callFn := stick_callFn n ih
    runDefers := stick_runDefers n ih
    execStmt := stick_execStmt n ih
    execStmts := stick_execStmts n ih
    assignAll := stick_assignAll n ih
    execElifs := stick_execElifs n ih
    loopIter := stick_loopIter n ih
    cforIter := stick_cforIter n ih
    forSlice := stick_forSlice n ih
    forMap := stick_forMap n ih
    execReturn := stick_execReturn n ih
    execCases := stick_execCases n ih
    matchCase := stick_matchCase n ih
    registerDefer := stick_registerDefer n ih }



end Anko
