/-
Where a numeric literal ends (C03 / C15): the scanner reads a hexadecimal literal up to the first
character that is no hexadecimal digit, a binary literal up to the first character that is neither
0 nor 1, and a plain run of decimal digits up to the first character that is no digit - whatever
follows (an operator written directly against the literal, for instance).  In particular the hex
digit `e` is never an exponent marker: `0xe-1` is the three tokens `0xe`, `-`, `1`.
-/
import Anko.Proofs.ScanString

namespace Anko.Scan

theorem rest_length_le (s : S) : s.rest.length ≤ s.src.size := by
  unfold S.rest
  simp

/-- `takeWhile p` collects exactly a run of characters satisfying `p` that is followed by nothing or by
a character that does not satisfy `p`. -/
theorem takeWhile_run (p : Char → Bool) : ∀ (ds tl acc : List Char) (s : S) (fuel : Nat),
    s.rest = ds ++ tl → (∀ d ∈ ds, p d = true) → (∀ c, tl.head? = some c → p c = false) → ds.length < fuel →
    ∃ s', takeWhile p fuel s acc = (acc.reverse ++ ds, s') ∧ s'.rest = tl ∧ s'.src = s.src := by
  intro ds
  induction ds with
  | nil =>
    intro tl acc s fuel hr _ htl hf
    obtain ⟨n, rfl⟩ : ∃ n, fuel = n + 1 := ⟨fuel - 1, by omega⟩
    have hp : s.peek = tl.head? := by rw [peek_eq_head, hr]; rfl
    refine ⟨s, ?_, by simpa using hr, rfl⟩
    unfold takeWhile
    cases h : tl.head? with
    | none => simp [hp, h]
    | some c => simp [hp, h, htl c h]
  | cons d ds ih =>
    intro tl acc s fuel hr hall htl hf
    obtain ⟨n, rfl⟩ : ∃ n, fuel = n + 1 := ⟨fuel - 1, by omega⟩
    have hp : s.peek = some d := by rw [peek_eq_head, hr]; rfl
    have h1 : s.next.rest = ds ++ tl := by rw [next_rest, hr]; rfl
    obtain ⟨s', e1, e2, e3⟩ := ih tl (d :: acc) s.next n h1 (fun x hx => hall x (List.mem_cons_of_mem _ hx)) htl
      (by simp at hf; omega)
    refine ⟨s', ?_, e2, by rw [e3, next_src]⟩
    unfold takeWhile
    simp [hp, hall d (List.mem_cons_self), e1]

/-- a literal with a base prefix: `0x` / `0X` + hexadecimal digits -/
theorem scan_hex_literal (s : S) (x : Char) (ds tl : List Char)
    (hr : s.rest = '0' :: x :: (ds ++ tl)) (hx : x = 'x' ∨ x = 'X')
    (hds : ∀ d ∈ ds, isHex d = true)
    (htl : ∀ c, tl.head? = some c → isHex c = false ∧ isLetter c = false) :
    ∃ s', scanNumber s = .ok (String.ofList ('0' :: 'x' :: ds), s') ∧ s'.rest = tl := by
  have hp0 : s.peek = some '0' := by rw [peek_eq_head, hr]; rfl
  have h1 : s.next.rest = x :: (ds ++ tl) := by rw [next_rest, hr]; rfl
  have hp1 : s.next.peek = some x := by rw [peek_eq_head, h1]; rfl
  have h2 : s.next.next.rest = ds ++ tl := by rw [next_rest, h1]; rfl
  have hlen : ds.length < s.src.size + 1 := by
    have := rest_length_le s
    rw [hr] at this
    simp at this
    omega
  obtain ⟨s', e1, e2, _⟩ := takeWhile_run isHex ds tl [] s.next.next (s.src.size + 1) h2 hds
    (fun c hc => (htl c hc).1) hlen
  refine ⟨s', ?_, e2⟩
  have hpk : peekIs s' isLetter = false := by
    unfold peekIs
    rw [peek_eq_head, e2]
    cases h : tl.head? with
    | none => rfl
    | some c => simp [(htl c h).2]
  have hxx : (s.next.peek == some 'x' || s.next.peek == some 'X') = true := by
    rcases hx with rfl | rfl <;> simp [hp1]
  unfold scanNumber
  simp only [hp0]
  simp [hxx, e1, hpk]

/-- `0b` / `0B` + binary digits -/
theorem scan_bin_literal (s : S) (x : Char) (ds tl : List Char)
    (hr : s.rest = '0' :: x :: (ds ++ tl)) (hx : x = 'b' ∨ x = 'B')
    (hds : ∀ d ∈ ds, isBinary d = true)
    (htl : ∀ c, tl.head? = some c → isBinary c = false ∧ isLetter c = false) :
    ∃ s', scanNumber s = .ok (String.ofList ('0' :: 'b' :: ds), s') ∧ s'.rest = tl := by
  have hp0 : s.peek = some '0' := by rw [peek_eq_head, hr]; rfl
  have h1 : s.next.rest = x :: (ds ++ tl) := by rw [next_rest, hr]; rfl
  have hp1 : s.next.peek = some x := by rw [peek_eq_head, h1]; rfl
  have h2 : s.next.next.rest = ds ++ tl := by rw [next_rest, h1]; rfl
  have hlen : ds.length < s.src.size + 1 := by
    have := rest_length_le s
    rw [hr] at this
    simp at this
    omega
  obtain ⟨s', e1, e2, _⟩ := takeWhile_run isBinary ds tl [] s.next.next (s.src.size + 1) h2 hds
    (fun c hc => (htl c hc).1) hlen
  refine ⟨s', ?_, e2⟩
  have hpk : peekIs s' isLetter = false := by
    unfold peekIs
    rw [peek_eq_head, e2]
    cases h : tl.head? with
    | none => rfl
    | some c => simp [(htl c h).2]
  have hnx : (s.next.peek == some 'x' || s.next.peek == some 'X') = false := by
    rcases hx with rfl | rfl <;> simp [hp1]
  have hbb : (s.next.peek == some 'b' || s.next.peek == some 'B') = true := by
    rcases hx with rfl | rfl <;> simp [hp1]
  unfold scanNumber
  simp only [hp0]
  simp [hnx, hbb, e1, hpk]

/-- the hex digit `e` is a digit, not an exponent marker: `0xe-1` scans as `0xe` and leaves `-1` -/
example (s : S) (h : s.rest = "0xe-1".toList) :
    ∃ s', scanNumber s = .ok ("0xe", s') ∧ s'.rest = "-1".toList := by
  have := scan_hex_literal s 'x' ['e'] ['-', '1'] (by simpa using h) (Or.inl rfl) (by decide) (by decide)
  simpa using this

example (s : S) (h : s.rest = "0x1E+2e1".toList) :
    ∃ s', scanNumber s = .ok ("0x1E", s') ∧ s'.rest = "+2e1".toList := by
  have := scan_hex_literal s 'x' ['1', 'E'] ['+', '2', 'e', '1'] (by simpa using h) (Or.inl rfl) (by decide) (by decide)
  simpa using this

/-- a run of decimal digits followed by nothing that continues a number -/
theorem scanNumberTail_digits : ∀ (ds tl acc : List Char) (s : S) (fuel : Nat) (found : Bool),
    s.rest = ds ++ tl → (∀ d ∈ ds, isDigit d = true) →
    (∀ c, tl.head? = some c → isDigit c = false ∧ c ≠ '.' ∧ c ≠ 'e' ∧ c ≠ 'E') → ds.length < fuel →
    ∃ s', scanNumberTail fuel s acc found = .ok (acc.reverse ++ ds, s') ∧ s'.rest = tl := by
  intro ds
  induction ds with
  | nil =>
    intro tl acc s fuel found hr _ htl hf
    obtain ⟨n, rfl⟩ : ∃ n, fuel = n + 1 := ⟨fuel - 1, by omega⟩
    have hp : s.peek = tl.head? := by rw [peek_eq_head, hr]; rfl
    refine ⟨s, ?_, by simpa using hr⟩
    unfold scanNumberTail
    cases h : tl.head? with
    | none => simp [hp, h]
    | some c =>
      obtain ⟨h1, h2, h3, h4⟩ := htl c h
      simp [hp, h, h1, h2, h3, h4]
  | cons d ds ih =>
    intro tl acc s fuel found hr hall htl hf
    obtain ⟨n, rfl⟩ : ∃ n, fuel = n + 1 := ⟨fuel - 1, by omega⟩
    have hp : s.peek = some d := by rw [peek_eq_head, hr]; rfl
    have h1 : s.next.rest = ds ++ tl := by rw [next_rest, hr]; rfl
    obtain ⟨s', e1, e2⟩ := ih tl (d :: acc) s.next n found h1 (fun x hx => hall x (List.mem_cons_of_mem _ hx)) htl
      (by simp at hf; omega)
    refine ⟨s', ?_, e2⟩
    unfold scanNumberTail
    simp [hp, hall d (List.mem_cons_self), e1]

theorem scan_decimal_literal (s : S) (d0 : Char) (ds tl : List Char)
    (hr : s.rest = d0 :: (ds ++ tl)) (hd0 : isDigit d0 = true)
    (hpre : d0 = '0' → ds.head? ≠ some 'x' ∧ ds.head? ≠ some 'X' ∧ ds.head? ≠ some 'b' ∧ ds.head? ≠ some 'B')
    (hds : ∀ d ∈ ds, isDigit d = true)
    (htl : ∀ c, tl.head? = some c → isDigit c = false ∧ c ≠ '.' ∧ c ≠ 'e' ∧ c ≠ 'E' ∧ isLetter c = false) :
    ∃ s', scanNumber s = .ok (String.ofList (d0 :: ds), s') ∧ s'.rest = tl := by
  have hp0 : s.peek = some d0 := by rw [peek_eq_head, hr]; rfl
  have h1 : s.next.rest = ds ++ tl := by rw [next_rest, hr]; rfl
  have hlen : ds.length < s.src.size + 1 := by
    have := rest_length_le s
    rw [hr] at this
    simp at this
    omega
  obtain ⟨s', e1, e2⟩ := scanNumberTail_digits ds tl [] s.next (s.src.size + 1) false h1 hds
    (fun c hc => ⟨(htl c hc).1, (htl c hc).2.1, (htl c hc).2.2.1, (htl c hc).2.2.2.1⟩) hlen
  refine ⟨s', ?_, e2⟩
  have hpk : peekIs s' isLetter = false := by
    unfold peekIs
    rw [peek_eq_head, e2]
    cases h : tl.head? with
    | none => rfl
    | some c => simp [(htl c h).2.2.2.2]
  -- the character after the first digit is a digit or the first character of the tail: never a base prefix
  have hnp : ∀ y : Char, (y = 'x' ∨ y = 'X' ∨ y = 'b' ∨ y = 'B') → d0 = '0' → s.next.peek ≠ some y := by
    intro y hy h0 hpk1
    rw [peek_eq_head, h1] at hpk1
    cases ds with
    | nil =>
      simp at hpk1
      obtain ⟨_, _, _, _, hl⟩ := htl y hpk1
      rcases hy with rfl | rfl | rfl | rfl <;> simp [isLetter] at hl
    | cons d ds' =>
      simp at hpk1
      obtain ⟨a, b, c, e⟩ := hpre h0
      rcases hy with rfl | rfl | rfl | rfl <;> simp_all
  unfold scanNumber
  simp only [hp0]
  by_cases h0 : d0 = '0'
  · have a := hnp 'x' (Or.inl rfl) h0
    have b := hnp 'X' (Or.inr (Or.inl rfl)) h0
    have c := hnp 'b' (Or.inr (Or.inr (Or.inl rfl))) h0
    have d := hnp 'B' (Or.inr (Or.inr (Or.inr rfl))) h0
    simp [a, b, c, d, e1, hpk]
  · simp [h0, e1, hpk]

example (s : S) (h : s.rest = "12-3".toList) :
    ∃ s', scanNumber s = .ok ("12", s') ∧ s'.rest = "-3".toList := by
  have := scan_decimal_literal s '1' ['2'] ['-', '3'] (by simpa using h) (by decide) (by decide) (by decide) (by decide)
  simpa using this

end Anko.Scan
