/-
The precedence-climbing parser is a function: a token list has at most one reading.
-/
import Anko.Model.Pratt

namespace Anko.Pratt
variable (T : Tbl)

mutual
theorem PExpr.det : ∀ {m ts R R'}, PExpr T m ts R → PExpr T m ts R' → R = R'
  | _, _, _, _, .mk hp hl, .mk hp' hl' => by
    have := PPrim.det hp hp'
    cases this
    exact PLoop.det hl hl'
theorem PPrim.det : ∀ {ts R R'}, PPrim T ts R → PPrim T ts R' → R = R'
  | _, _, _, .atom, .atom => rfl
  | _, _, _, .paren h, .paren h' => by have := PExpr.det h h'; cases this; rfl
  | _, _, _, .unary h, .unary h' => by have := PExpr.det h h'; cases this; rfl
theorem PLoop.det : ∀ {m lhs ts R R'}, PLoop T m lhs ts R → PLoop T m lhs ts R' → R = R'
  | _, _, _, _, _, .step _ hr hl, .step _ hr' hl' => by have := PExpr.det hr hr'; cases this; exact PLoop.det hl hl'
  | _, _, _, _, _, .step hge _ _, .stopOp hlt => by omega
  | _, _, _, _, _, .stopOp hlt, .step hge _ _ => by omega
  | _, _, _, _, _, .stopOp _, .stopOp _ => rfl
  | _, _, _, _, _, .tern _ ha hb hl, .tern _ ha' hb' hl' => by
    have := PExpr.det ha ha'; cases this
    have := PExpr.det hb hb'; cases this
    exact PLoop.det hl hl'
  | _, _, _, _, _, .tern hge _ _ _, .stopQ hlt => by omega
  | _, _, _, _, _, .stopQ hlt, .tern hge _ _ _ => by omega
  | _, _, _, _, _, .stopQ _, .stopQ _ => rfl
  | _, _, _, _, _, .call hx hl, .call hx' hl' => by have := PExpr.det hx hx'; cases this; exact PLoop.det hl hl'
  | _, _, _, _, _, .index hi hl, .index hi' hl' => by have := PExpr.det hi hi'; cases this; exact PLoop.det hl hl'
  | _, _, _, _, _, .index hi _, .slice hi' _ _ => by have := PExpr.det hi hi'; cases this
  | _, _, _, _, _, .slice hi _ _, .index hi' _ => by have := PExpr.det hi hi'; cases this
  | _, _, _, _, _, .slice hi hj hl, .slice hi' hj' hl' => by
    have := PExpr.det hi hi'; cases this
    have := PExpr.det hj hj'; cases this
    exact PLoop.det hl hl'
  | _, _, _, _, _, .member hl, .member hl' => PLoop.det hl hl'
  | _, _, _, _, _, .stopNil, .stopNil => rfl
  | _, _, _, _, _, .stopRp, .stopRp => rfl
  | _, _, _, _, _, .stopRb, .stopRb => rfl
  | _, _, _, _, _, .stopColon, .stopColon => rfl
end

end Anko.Pratt
