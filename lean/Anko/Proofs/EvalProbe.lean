/-
Whole-expression evaluation order (C07): for a class of expression trees of ANY depth whose leaves
are `probe(i)` calls - built with the strict forms `a + b`, `a - b`, `-a`, the list literal
under an index `[a, b][1]` and the lazy form `c ? t : f` - the probe trace of an evaluation is
exactly the left-to-right sequence of the leaves that the language semantics selects (every leaf
of a strict form once, only the chosen branch of `?:`), the value is the arithmetic value, and
nothing else of the state changes.  This is the global counterpart of the per-form equations in
Props/C07.lean: no leaf is evaluated twice, none is skipped, none runs out of order, at any depth.
-/
import Anko.Proofs.EvalMono

set_option linter.unusedSectionVars false
set_option linter.unusedVariables false

namespace Anko
variable [FOps] [Prov]

/-- probe-leaf expression trees -/
inductive PE where
  | leaf (i : I64)
  | add (a b : PE)
  | sub (a b : PE)
  | neg (a : PE)
  | second (a b : PE)        -- [a, b][1]
  | cond (c t f : PE)        -- c ? t : f

namespace PE

/-- the expression as the parser builds it -/
def tr : PE → Expr
  | leaf i => .call "probe" [.lit (.int i)] false false
  | add a b => .op "+" a.tr b.tr
  | sub a b => .op "-" a.tr b.tr
  | neg a => .unary "-" a.tr
  | second a b => .item (.array [a.tr, b.tr]) (.lit (.int 1))
  | cond c t f => .ternary c.tr t.tr f.tr

/-- the int64 value the expression denotes -/
def val : PE → I64
  | leaf i => i
  | add a b => a.val + b.val
  | sub a b => a.val - b.val
  | neg a => -a.val
  | second _ b => b.val
  | cond c t f => if c.val != 0 then t.val else f.val

/-- the leaves the language evaluates, in source order: all of them for the strict forms, the
condition and the chosen branch for `?:` -/
def leaves : PE → List I64
  | leaf i => [i]
  | add a b => a.leaves ++ b.leaves
  | sub a b => a.leaves ++ b.leaves
  | neg a => a.leaves
  | second a b => a.leaves ++ b.leaves
  | cond c t f => c.leaves ++ (if c.val != 0 then t.leaves else f.leaves)

/-- fuel that suffices (one unit per nested model call) -/
def need : PE → Nat
  | leaf _ => 6
  | add a b => 1 + max a.need b.need
  | sub a b => 1 + max a.need b.need
  | neg a => 1 + a.need
  | second a b => 4 + max a.need b.need
  | cond c t f => 1 + max c.need (max t.need f.need)

end PE

/-- the state is ready: `probe` is bound to the probe stub and no error is pending -/
structure Ready (s : St) : Prop where
  probe : s.getValue s.cur "probe" = some ⟨false, .gofn "probe"⟩
  noerr : s.err = none

/-- what an evaluation of a probe tree does to the state: it appends `tr` to the trace and leaves `v` in the result
register; nothing else moves -/
def After (s : St) (tr : List I64) (v : I64) (r : St) : Prop :=
  r.trace = s.trace ++ (tr.map Val.int).toArray ∧ r.rv.v = .int v ∧ r.err = none ∧
  r.scopes = s.scopes ∧ r.cur = s.cur ∧ r.unsup = s.unsup ∧ r.polls = s.polls ∧ r.cancelAt = s.cancelAt ∧
  r.defers = s.defers ∧ r.closures = s.closures

theorem After.ready {s r : St} {tr : List I64} {v : I64} (h : After s tr v r) (hs : Ready s) : Ready r := by
  obtain ⟨_, _, he, hsc, hc, _⟩ := h
  refine ⟨?_, he⟩
  have := hs.probe
  unfold St.getValue at *
  rw [hsc, hc]; exact this

theorem After.trans {s r q : St} {t1 t2 : List I64} {v1 v2 : I64} (h1 : After s t1 v1 r) (h2 : After r t2 v2 q) :
    After s (t1 ++ t2) v2 q := by
  obtain ⟨a1, _, _, a4, a5, a6, a7, a8, a9, a10⟩ := h1
  obtain ⟨b1, b2, b3, b4, b5, b6, b7, b8, b9, b10⟩ := h2
  refine ⟨?_, b2, b3, b4.trans a4, b5.trans a5, b6.trans a6, b7.trans a7, b8.trans a8, b9.trans a9, b10.trans a10⟩
  rw [b1, a1]; simp [Array.append_assoc]

theorem leaf_eval (i : I64) (n : Nat) (s : St) (h : Ready s) :
    evalExpr (n + 6) (.call "probe" [.lit (.int i)] false false) s =
      { s with trace := s.trace ++ #[Val.int i], rv := ⟨Prov.wrap, .int i⟩ } := by
  simp [evalExpr, h.probe, callValue, calleeOf, goSig, makeCallArgs, arityBad, evalArgs, argsTail, convertTo, callFn, goRun, flatArgs, h.noerr]

/-- what the strict binary forms do with two evaluated int operands -/
theorem binop_add_int (x y : RV) (a b : I64) (hx : x.v = .int a) (hy : y.v = .int b) : binop "+" x y = .ok (.int (a + b)) := by
  simp [binop, RV.unwrap, hx, hy, addOp, precedenceOfKinds, Val.kind, withInts, toInt64, tryToInt64]
theorem binop_sub_int (x y : RV) (a b : I64) (hx : x.v = .int a) (hy : y.v = .int b) : binop "-" x y = .ok (.int (a - b)) := by
  simp [binop, RV.unwrap, hx, hy, addOp, Val.kind, withInts, toInt64, tryToInt64]
theorem unop_neg_int (x : RV) (a : I64) (hx : x.v = .int a) : unop "-" x = .ok (.int (-a)) := by
  simp [unop, RV.unwrap, hx, unaryOp]

/-- THE THEOREM: a probe tree of any depth, evaluated with sufficient fuel in a ready state, appends exactly its selected
leaves in source order to the trace, yields its value, and changes nothing else. -/
theorem probe_tree_eval (e : PE) : ∀ (fuel : Nat) (s : St), e.need ≤ fuel → Ready s → After s e.leaves e.val (evalExpr fuel e.tr s) := by
  induction e with
  | leaf i =>
    intro fuel s hf h
    obtain ⟨n, rfl⟩ : ∃ n, fuel = n + 6 := ⟨fuel - 6, by simp [PE.need] at hf; omega⟩
    rw [PE.tr, leaf_eval i n s h]
    simp [After, PE.leaves, PE.val, h.noerr]
  | add a b iha ihb =>
    intro fuel s hf h
    obtain ⟨m, rfl⟩ : ∃ m, fuel = m + 1 := ⟨fuel - 1, by simp [PE.need] at hf; omega⟩
    have hma : a.need ≤ m := by simp [PE.need] at hf; omega
    have hmb : b.need ≤ m := by simp [PE.need] at hf; omega
    have ha := iha m s hma h
    have hb := ihb m _ hmb (ha.ready h)
    have hab := ha.trans hb
    simp only [PE.tr, evalExpr, show ("+" == "&&" || "+" == "||") = false by decide, Bool.false_eq_true, if_false]
    rw [if_neg (by simp [ha.2.2.1]), if_neg (by simp [hb.2.2.1])]
    rw [binop_add_int _ _ a.val b.val ha.2.1 hb.2.1]
    obtain ⟨c1, c2, c3, c4, c5, c6, c7, c8, c9, c10⟩ := hab
    exact ⟨by simpa [opRes, PE.leaves] using c1, by simp [opRes, PE.val], by simpa [opRes] using c3, by simpa [opRes] using c4, by simpa [opRes] using c5,
      by simpa [opRes] using c6, by simpa [opRes] using c7, by simpa [opRes] using c8, by simpa [opRes] using c9, by simpa [opRes] using c10⟩
  | sub a b iha ihb =>
    intro fuel s hf h
    obtain ⟨m, rfl⟩ : ∃ m, fuel = m + 1 := ⟨fuel - 1, by simp [PE.need] at hf; omega⟩
    have hma : a.need ≤ m := by simp [PE.need] at hf; omega
    have hmb : b.need ≤ m := by simp [PE.need] at hf; omega
    have ha := iha m s hma h
    have hb := ihb m _ hmb (ha.ready h)
    have hab := ha.trans hb
    simp only [PE.tr, evalExpr, show ("-" == "&&" || "-" == "||") = false by decide, Bool.false_eq_true, if_false]
    rw [if_neg (by simp [ha.2.2.1]), if_neg (by simp [hb.2.2.1])]
    rw [binop_sub_int _ _ a.val b.val ha.2.1 hb.2.1]
    obtain ⟨c1, c2, c3, c4, c5, c6, c7, c8, c9, c10⟩ := hab
    exact ⟨by simpa [opRes, PE.leaves] using c1, by simp [opRes, PE.val], by simpa [opRes] using c3, by simpa [opRes] using c4, by simpa [opRes] using c5,
      by simpa [opRes] using c6, by simpa [opRes] using c7, by simpa [opRes] using c8, by simpa [opRes] using c9, by simpa [opRes] using c10⟩
  | neg a iha =>
    intro fuel s hf h
    obtain ⟨m, rfl⟩ : ∃ m, fuel = m + 1 := ⟨fuel - 1, by simp [PE.need] at hf; omega⟩
    have hma : a.need ≤ m := by simp [PE.need] at hf; omega
    have ha := iha m s hma h
    simp only [PE.tr, evalExpr]
    rw [if_neg (by simp [ha.2.2.1]), unop_neg_int _ a.val ha.2.1]
    obtain ⟨c1, c2, c3, c4, c5, c6, c7, c8, c9, c10⟩ := ha
    exact ⟨by simpa [opRes, PE.leaves] using c1, by simp [opRes, PE.val], by simpa [opRes] using c3, by simpa [opRes] using c4, by simpa [opRes] using c5,
      by simpa [opRes] using c6, by simpa [opRes] using c7, by simpa [opRes] using c8, by simpa [opRes] using c9, by simpa [opRes] using c10⟩
  | cond c t f ihc iht ihf =>
    intro fuel s hf h
    obtain ⟨m, rfl⟩ : ∃ m, fuel = m + 1 := ⟨fuel - 1, by simp [PE.need] at hf; omega⟩
    have hmc : c.need ≤ m := by simp [PE.need] at hf; omega
    have hmt : t.need ≤ m := by simp [PE.need] at hf; omega
    have hmf : f.need ≤ m := by simp [PE.need] at hf; omega
    have hc := ihc m s hmc h
    have hrc := hc.ready h
    simp only [PE.tr, evalExpr]
    rw [if_neg (by simp [hc.2.2.1])]
    have htb : toBoolRV (evalExpr m c.tr s).rv = some (c.val != 0) := by simp [toBoolRV, hc.2.1, toBool, tryToBool]
    rw [htb]
    by_cases hv : (c.val != 0) = true
    · have ht := iht m _ hmt hrc
      simp only [hv]
      have := hc.trans ht
      have hl : (PE.cond c t f).leaves = c.leaves ++ t.leaves := by simp only [PE.leaves, hv, if_true]
      have hvv : (PE.cond c t f).val = t.val := by simp only [PE.val, hv, if_true]
      rw [hl, hvv]; exact this
    · have hff := ihf m _ hmf hrc
      have hv' : (c.val != 0) = false := by simpa using hv
      simp only [hv']
      have := hc.trans hff
      have hl : (PE.cond c t f).leaves = c.leaves ++ f.leaves := by simp only [PE.leaves, hv', Bool.false_eq_true, if_false]
      have hvv : (PE.cond c t f).val = f.val := by simp only [PE.val, hv', Bool.false_eq_true, if_false]
      rw [hl, hvv]; exact this
  | second a b iha ihb =>
    intro fuel s hf h
    obtain ⟨i, rfl⟩ : ∃ i, fuel = i + 4 := ⟨fuel - 4, by simp [PE.need] at hf; omega⟩
    have hma : a.need ≤ i + 1 := by simp [PE.need] at hf; omega
    have hmb : b.need ≤ i := by simp [PE.need] at hf; omega
    have hi : 1 ≤ i := by cases b <;> simp [PE.need] at hmb <;> omega
    obtain ⟨j, rfl⟩ : ∃ j, i = j + 1 := ⟨i - 1, by omega⟩
    have ha := iha (j + 2) s hma h
    have hb := ihb (j + 1) _ hmb (ha.ready h)
    have hab := ha.trans hb
    have hea := ha.2.2.1
    have heb := hb.2.2.1
    have hva := ha.2.1
    have hvb := hb.2.1
    obtain ⟨c1, c2, c3, c4, c5, c6, c7, c8, c9, c10⟩ := hab
    simp [PE.tr, evalExpr, evalList, hea, heb, hva, hvb, tryToIntRV, tryToInt64, elemRV, After, PE.leaves, PE.val, c1, c4, c5, c6, c7, c8, c9, c10]

end Anko
