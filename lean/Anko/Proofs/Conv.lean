import Anko.Model.Conv

namespace Anko.Conv

def rangeOf : Ty → Int × Int
  | .int64 => (-9223372036854775808, 9223372036854775807)
  | .int32 => (-2147483648, 2147483647)
  | .int8 => (-128, 127)
  | .uint8 => (0, 255)
  | _ => (1, 0)

theorem inRange_iff (t : Ty) (i : Int) : inRange t i = true ↔ (rangeOf t).1 ≤ i ∧ i ≤ (rangeOf t).2 := by
  cases t <;> simp only [inRange, rangeOf, Bool.and_eq_true] <;>
    first
    | exact ⟨fun h => ⟨of_decide_eq_true h.1, of_decide_eq_true h.2⟩, fun h => ⟨decide_eq_true h.1, decide_eq_true h.2⟩⟩
    | exact ⟨fun h => Bool.noConfusion h, fun h => by omega⟩

theorem wrapInt_inRange (t : Ty) (i : Int) (ht : t.isInt = true) : inRange t (wrapInt t i) = true := by
  rw [inRange_iff]
  cases t <;> simp [Ty.isInt] at ht <;> simp only [wrapInt, rangeOf] <;> omega

theorem runeBytes_lt (i : Int) : (runeBytes i).all (· < 256) = true := by
  unfold runeBytes
  split
  · decide
  · simp only
    split
    · simp; omega
    · split
      · simp; omega
      · split
        · simp; omega
        · next h1 _ _ _ =>
          have : i.toNat ≤ 1114111 := by omega
          simp; omega

theorem zero_fits (t : Ty) : WF (zero t) = true ∧ (t = .iface ∨ typeOf (zero t) = t) := by
  cases t <;> simp [zero, WF, WFAll, typeOf, Ty.isInt, inRange]

theorem wfAll_ofList_bytes (t : Ty) (ht : t = .uint8 ∨ t = .int32) : ∀ (bs : List Nat), bs.all (· < 256) = true →
    WFAll (TVs.ofList (bs.map (fun (b : Nat) => TV.int t (b : Int)))) t = true
  | [], _ => by simp [TVs.ofList, WFAll]
  | b :: bs, h => by
    simp only [List.all_cons, Bool.and_eq_true, decide_eq_true_eq] at h
    have ih := wfAll_ofList_bytes t ht bs h.2
    have hr : inRange t (b : Int) = true := by
      rw [inRange_iff]
      rcases ht with rfl | rfl <;> simp only [rangeOf] <;> omega
    rcases ht with rfl | rfl <;> simp [TVs.ofList, WFAll, WF, typeOf, Ty.isInt, hr, ih]

theorem bytesOf_lt : ∀ (xs : TVs) (t : Ty), (t = .uint8) → WFAll xs t = true → (bytesOf xs).all (· < 256) = true
  | .nil, _, _, _ => by simp [bytesOf]
  | .cons (.int t' i) xs, t, ht, h => by
    subst ht
    simp only [WFAll, WF, typeOf, Bool.and_eq_true, Bool.or_eq_true, beq_iff_eq] at h
    have ht' : t' = .uint8 := by
      rcases h.1.2 with h1 | h1
      · cases h1
      · exact h1
    subst ht'
    have := bytesOf_lt xs .uint8 rfl h.2
    have hr := (inRange_iff .uint8 i).mp h.1.1.2
    simp only [rangeOf] at hr
    simp [bytesOf, this]; omega
  | .cons (.str _) xs, t, ht, h => by
    subst ht; simp [WFAll, typeOf] at h
  | .cons (.bool _) xs, t, ht, h => by
    subst ht; simp [WFAll, typeOf] at h
  | .cons .nilIface xs, t, ht, h => by
    subst ht; simp [WFAll, typeOf] at h
  | .cons (.slice _ _) xs, t, ht, h => by
    subst ht; simp [WFAll, typeOf] at h
  | .cons (.map _ _ _ _) xs, t, ht, h => by
    subst ht; simp [WFAll, typeOf] at h

theorem runesOf_lt : ∀ (xs : TVs), (runesOf xs).all (· < 256) = true
  | .nil => by simp [runesOf]
  | .cons (.int _ i) xs => by
    have a := runeBytes_lt i
    have b := runesOf_lt xs
    simp only [runesOf, List.all_append, a, b, Bool.and_self]
  | .cons (.str _) xs => by simpa [runesOf] using runesOf_lt xs
  | .cons (.bool _) xs => by simpa [runesOf] using runesOf_lt xs
  | .cons .nilIface xs => by simpa [runesOf] using runesOf_lt xs
  | .cons (.slice _ _) xs => by simpa [runesOf] using runesOf_lt xs
  | .cons (.map _ _ _ _) xs => by simpa [runesOf] using runesOf_lt xs

theorem wfAll_wf_head {x : TV} {xs : TVs} {e : Ty} (h : WFAll (.cons x xs) e = true) : WF x = true ∧ WFAll xs e = true := by
  simp only [WFAll, Bool.and_eq_true] at h
  exact ⟨h.1.1, h.2⟩

mutual
  /-- type soundness of the conversion -/
  theorem convert_sound : ∀ (v : TV) (rt : Ty) (w : TV), WF v = true → convert v rt = some w →
      WF w = true ∧ (rt = .iface ∨ typeOf w = rt)
    | v, .iface, w, hv, h => by
      have : convert v .iface = some v := by cases v <;> simp [convert]
      rw [this] at h; cases h
      exact ⟨hv, Or.inl rfl⟩
    | .int t i, .int64, w, hv, h => by
      simp only [convert, Ty.isInt] at h
      split at h
      · next ht => cases h; subst ht; exact ⟨hv, Or.inr rfl⟩
      · simp at h; cases h
        exact ⟨by simp [WF, Ty.isInt, wrapInt_inRange .int64 i rfl], Or.inr rfl⟩
    | .int t i, .int32, w, hv, h => by
      simp only [convert, Ty.isInt] at h
      split at h
      · next ht => cases h; subst ht; exact ⟨hv, Or.inr rfl⟩
      · simp at h; cases h
        exact ⟨by simp [WF, Ty.isInt, wrapInt_inRange .int32 i rfl], Or.inr rfl⟩
    | .int t i, .int8, w, hv, h => by
      simp only [convert, Ty.isInt] at h
      split at h
      · next ht => cases h; subst ht; exact ⟨hv, Or.inr rfl⟩
      · simp at h; cases h
        exact ⟨by simp [WF, Ty.isInt, wrapInt_inRange .int8 i rfl], Or.inr rfl⟩
    | .int t i, .uint8, w, hv, h => by
      simp only [convert, Ty.isInt] at h
      split at h
      · next ht => cases h; subst ht; exact ⟨hv, Or.inr rfl⟩
      · simp at h; cases h
        exact ⟨by simp [WF, Ty.isInt, wrapInt_inRange .uint8 i rfl], Or.inr rfl⟩
    | .int t i, .string, w, hv, h => by
      simp only [convert, Ty.isInt] at h
      split at h
      · next ht => cases h; subst ht; exact ⟨hv, Or.inr rfl⟩
      · simp at h; cases h
        exact ⟨by simp [WF, runeBytes_lt], Or.inr rfl⟩
    | .int t i, .bool, w, hv, h => by
      simp only [convert, Ty.isInt] at h
      split at h
      · next ht => cases h; subst ht; exact ⟨hv, Or.inr rfl⟩
      · simp at h
    | .int t i, .slice e, w, hv, h => by
      simp only [convert, Ty.isInt] at h
      split at h
      · next ht => cases h; subst ht; exact ⟨hv, Or.inr rfl⟩
      · simp at h
    | .int t i, .map k v, w, hv, h => by
      simp only [convert, Ty.isInt] at h
      split at h
      · next ht => cases h; subst ht; exact ⟨hv, Or.inr rfl⟩
      · simp at h
    | .str bs, rt, w, hv, h => by
      by_cases hi : rt = .iface
      · subst hi; simp [convert] at h; cases h; exact ⟨hv, Or.inl rfl⟩
      · have hb : bs.all (· < 256) = true := by simpa [WF] using hv
        have e : convert (.str bs) rt =
            (if rt = .string then some (.str bs)
             else if rt = .slice .uint8 then some (.slice .uint8 (TVs.ofList (bs.map (fun (b : Nat) => TV.int .uint8 (b : Int)))))
             else if rt = .slice .int32 then some (.slice .int32 (TVs.ofList (bs.map (fun (b : Nat) => TV.int .int32 (b : Int)))))
             else if rt = .uint8 then
               (match bs with | [] => some (.int .uint8 0) | [b] => some (.int .uint8 (b : Int)) | _ => none)
             else if rt = .int32 then
               (match bs with | [] => some (.int .int32 0) | [b] => some (.int .int32 (b : Int)) | _ => none)
             else none) := by
          cases rt <;> first | exact absurd rfl hi | rfl
        rw [e] at h
        split at h
        · next h1 => cases h; subst h1; exact ⟨hv, Or.inr rfl⟩
        · split at h
          · next h1 => cases h; subst h1; exact ⟨by simpa [WF] using wfAll_ofList_bytes .uint8 (Or.inl rfl) bs hb, Or.inr rfl⟩
          · split at h
            · next h1 => cases h; subst h1; exact ⟨by simpa [WF] using wfAll_ofList_bytes .int32 (Or.inr rfl) bs hb, Or.inr rfl⟩
            · split at h
              · next h1 =>
                subst h1
                split at h
                · cases h; exact ⟨by simp [WF, Ty.isInt, inRange], Or.inr rfl⟩
                · next b =>
                  cases h
                  have hb' : b < 256 := by simpa using hb
                  have hr : inRange .uint8 (b : Int) = true := by rw [inRange_iff]; simp only [rangeOf]; omega
                  exact ⟨by simp [WF, Ty.isInt, hr], Or.inr rfl⟩
                · cases h
              · split at h
                · next h1 =>
                  subst h1
                  split at h
                  · cases h; exact ⟨by simp [WF, Ty.isInt, inRange], Or.inr rfl⟩
                  · next b =>
                    cases h
                    have hb' : b < 256 := by simpa using hb
                    have hr : inRange .int32 (b : Int) = true := by rw [inRange_iff]; simp only [rangeOf]; omega
                    exact ⟨by simp [WF, Ty.isInt, hr], Or.inr rfl⟩
                  · cases h
                · cases h
    | .bool b, rt, w, hv, h => by
      by_cases hi : rt = .iface
      · subst hi; simp [convert] at h; cases h; exact ⟨hv, Or.inl rfl⟩
      · have e : convert (.bool b) rt = (if rt = .bool then some (.bool b) else none) := by
          cases rt <;> first | exact absurd rfl hi | rfl
        rw [e] at h
        split at h
        · next h1 => cases h; subst h1; exact ⟨hv, Or.inr rfl⟩
        · cases h
    | .nilIface, rt, w, hv, h => by
      by_cases hi : rt = .iface
      · subst hi; simp [convert] at h; cases h; exact ⟨hv, Or.inl rfl⟩
      · have e : convert .nilIface rt = some (zero rt) := by
          cases rt <;> first | exact absurd rfl hi | rfl
        rw [e] at h; cases h
        exact zero_fits rt
    | .slice e xs, .string, w, hv, h => by
      have hx : WFAll xs e = true := by simpa [WF] using hv
      simp only [convert] at h
      split at h
      · next h1 => cases h1
      · split at h
        · next h1 =>
          cases h
          obtain ⟨he, _⟩ := h1
          subst he
          exact ⟨by simpa [WF] using bytesOf_lt xs .uint8 rfl hx, Or.inr rfl⟩
        · split at h
          · cases h
            exact ⟨by simpa [WF] using runesOf_lt xs, Or.inr rfl⟩
          · cases h
    | .slice e xs, .slice e', w, hv, h => by
      have hx : WFAll xs e = true := by simpa [WF] using hv
      simp only [convert] at h
      split at h
      · next h1 => cases h; cases h1; exact ⟨hv, Or.inr rfl⟩
      · simp only [reduceCtorEq, and_false, if_false, Option.map_eq_some_iff] at h
        obtain ⟨ys, hys, rfl⟩ := h
        exact ⟨by simpa [WF] using convertAll_sound xs e e' ys hx hys, Or.inr rfl⟩
    | .slice e xs, .int64, w, hv, h => by simp [convert] at h
    | .slice e xs, .int32, w, hv, h => by simp [convert] at h
    | .slice e xs, .int8, w, hv, h => by simp [convert] at h
    | .slice e xs, .uint8, w, hv, h => by simp [convert] at h
    | .slice e xs, .bool, w, hv, h => by simp [convert] at h
    | .slice e xs, .map _ _, w, hv, h => by simp [convert] at h
    | .map k v ks vs, .map k' v', w, hv, h => by
      have hx : WFAll ks k = true ∧ WFAll vs v = true := by simpa [WF] using hv
      simp only [convert] at h
      split at h
      · next h1 => cases h; cases h1; exact ⟨hv, Or.inr rfl⟩
      · cases h1 : convertAll ks k' with
        | none => simp [h1] at h
        | some ks' =>
          cases h2 : convertAll vs v' with
          | none => simp [h1, h2] at h
          | some vs' =>
            simp only [h1, h2] at h
            cases h
            have a := convertAll_sound ks k k' ks' hx.1 h1
            have b := convertAll_sound vs v v' vs' hx.2 h2
            exact ⟨by simp [WF, a, b], Or.inr rfl⟩
    | .map k v ks vs, .int64, w, hv, h => by simp [convert] at h
    | .map k v ks vs, .int32, w, hv, h => by simp [convert] at h
    | .map k v ks vs, .int8, w, hv, h => by simp [convert] at h
    | .map k v ks vs, .uint8, w, hv, h => by simp [convert] at h
    | .map k v ks vs, .bool, w, hv, h => by simp [convert] at h
    | .map k v ks vs, .string, w, hv, h => by simp [convert] at h
    | .map k v ks vs, .slice _, w, hv, h => by simp [convert] at h
  theorem convertAll_sound : ∀ (xs : TVs) (e t : Ty) (ys : TVs), WFAll xs e = true → convertAll xs t = some ys → WFAll ys t = true
    | .nil, _, _, ys, _, h => by simp [convertAll] at h; subst h; rfl
    | .cons x xs, e, t, ys, hx, h => by
      obtain ⟨h1, h2⟩ := wfAll_wf_head hx
      simp only [convertAll] at h
      split at h
      · next y ys' hy hys =>
        cases h
        have a := convert_sound x t y h1 hy
        have b := convertAll_sound xs e t ys' h2 hys
        simp only [WFAll, a.1, b, Bool.and_true, Bool.true_and, Bool.or_eq_true, beq_iff_eq]
        rcases a.2 with h3 | h3
        · exact Or.inl h3
        · exact Or.inr h3
      · cases h
end

end Anko.Conv
