/-
The context poll counter only grows and the cancellation point never changes, for every model
function: hence a cancelled context stays cancelled (C02).
-/
import Anko.Proofs.EvalSig

set_option linter.unusedSectionVars false
set_option linter.unusedVariables false

namespace Anko
variable [FOps] [Prov]

/-- `r` is a later state of the same run as `s` as far as cancellation is concerned -/
def Later (s r : St) : Prop := r.cancelAt = s.cancelAt ∧ s.polls ≤ r.polls

theorem Later.refl (s : St) : Later s s := ⟨rfl, Nat.le_refl _⟩
theorem Later.trans {a b c : St} (h1 : Later a b) (h2 : Later b c) : Later a c :=
  ⟨h2.1.trans h1.1, Nat.le_trans h1.2 h2.2⟩

theorem later_fail (s : St) (m : String) : Later s (s.fail m) := ⟨rfl, Nat.le_refl _⟩
theorem later_markUnsup (s : St) (m : String) : Later s (s.markUnsup m) := ⟨rfl, Nat.le_refl _⟩
theorem later_outOfFuel (s : St) : Later s (outOfFuel s) := ⟨rfl, Nat.le_refl _⟩
theorem later_poll (s : St) : Later s s.poll.2 := ⟨rfl, Nat.le_succ _⟩
theorem later_newScope (s : St) (p : Nat) : Later s (s.newScope p).2 := ⟨rfl, Nat.le_refl _⟩
theorem later_addClosure (s : St) (c : Closure) : Later s (s.addClosure c).2 := ⟨rfl, Nat.le_refl _⟩
theorem later_define (s : St) (i : Nat) (n : String) (v : RV) : Later s (s.define i n v) := by
  unfold St.define; split <;> exact ⟨rfl, Nat.le_refl _⟩
theorem later_defineAll (l : List (String × RV)) : ∀ (s : St) (i : Nat), Later s (s.defineAll i l) := by
  induction l with
  | nil => intro s i; exact Later.refl s
  | cons x xs ih => intro s i; obtain ⟨n, v⟩ := x; exact (later_define s i n v).trans (ih _ i)
theorem later_setValue (s s' : St) (i : Nat) (n : String) (v : RV) (h : s.setValue i n v = some s') : Later s s' := by
  unfold St.setValue at h
  split at h
  · injection h with h; subst h; exact later_define _ _ _ _
  · cases h
theorem later_assign (s : St) (n : String) (v : RV) : Later s (s.assign n v) := by
  unfold St.assign
  cases h : s.setValue s.cur n v with
  | some s' => exact later_setValue _ _ _ _ _ h
  | none => exact later_define _ _ _ _
theorem later_assignIn (s : St) (i : Nat) (n : String) (v : RV) : Later s (s.assignIn i n v) := by
  unfold St.assignIn
  cases h : s.setValue i n v with
  | some s' => exact later_setValue _ _ _ _ _ h
  | none => exact ⟨rfl, Nat.le_refl _⟩
theorem later_opRes (s : St) (r : OpRes) : Later s (opRes s r) := by
  cases r <;> exact ⟨rfl, Nat.le_refl _⟩
theorem later_sliceResult (item : Val) (len : Nat) (bi ei : Int) (hc : Bool) (s : St) :
    Later s (sliceResult item len bi ei hc s) := by
  unfold sliceResult
  repeat' split
  all_goals exact ⟨rfl, Nat.le_refl _⟩
theorem later_convertArgs (cal : Callee) : ∀ (xs : List Val) (i : Nat) (s : St), Later s (convertArgs cal xs i s).2 := by
  intro xs
  induction xs with
  | nil => intro i s; exact Later.refl s
  | cons x xs ih =>
    intro i s
    simp only [convertArgs]
    split
    · have := ih (i + 1) s
      split <;> simp_all
    · split
      · exact later_markUnsup _ _
      · split
        · exact later_markUnsup _ _
        · exact later_fail _ _
      · have := ih (i + 1) { s with rv := ‹RV› }
        split <;> simp_all [Later]
theorem later_spreadFixed (cal : Callee) (nLead numExprs : Nat) (lead : List RV) (s2 : St) :
    Later s2 (spreadFixed cal nLead numExprs lead s2).2 := by
  unfold spreadFixed
  split
  · split
    · exact later_fail _ _
    · have := later_convertArgs cal (List.take (cal.numIn - nLead) ‹List Val›) nLead s2
      split <;> simp_all
  · split
    · exact later_markUnsup _ _
    · exact later_fail _ _
theorem later_spreadVariadic (lead : List RV) (s2 : St) : Later s2 (spreadVariadic lead s2).2 := by
  unfold spreadVariadic
  repeat' split
  all_goals (first | exact Later.refl _ | exact later_markUnsup _ _ | exact later_fail _ _)

/-- with-updates of the runInfo registers and the trace do not touch polls / cancelAt -/
theorem later_of_eq (s r : St) (h1 : r.cancelAt = s.cancelAt) (h2 : r.polls = s.polls) : Later s r :=
  ⟨h1, Nat.le_of_eq h2.symm⟩

structure PollIH (n : Nat) : Prop where
  evalExpr : ∀ e s, Later s (evalExpr n e s)
  evalList : ∀ es s, Later s (evalList n es s).2
  evalIndexOpt : ∀ oe d s, Later s (evalIndexOpt n oe d s).2
  evalCond : ∀ oe s, Later s (evalCond n oe s).2
  sliceBegin : ∀ it len b e hc s, Later s (sliceBegin n it len b e hc s)
  sliceEnd : ∀ it len bi e hc s, Later s (sliceEnd n it len bi e hc s)
  evalMapLit : ∀ ks vs acc s, Later s (evalMapLit n ks vs acc s)
  evalLetsx : ∀ l r i s, Later s (evalLetsx n l r i s)
  letExpr : ∀ e s, Later s (letExpr n e s)
  callValue : ∀ f a va s, Later s (callValue n f a va s)
  makeCallArgs : ∀ c a va s, Later s (makeCallArgs n c a va s).2
  argsTail : ∀ c r nl va ne lead s, Later s (argsTail n c r nl va ne lead s).2
  evalArgs : ∀ c es i s, Later s (evalArgs n c es i s).2
  evalVarArgs : ∀ c es s, Later s (evalVarArgs n c es s).2
  callFn : ∀ f a cs s, Later s (callFn n f a cs s)
  runDefers : ∀ ds rv err s, Later s (runDefers n ds rv err s)
  execStmt : ∀ st s, Later s (execStmt n st s)
  execStmts : ∀ ss s, Later s (execStmts n ss s)
  assignAll : ∀ l v s, Later s (assignAll n l v s)
  execElifs : ∀ el els env s, Later s (execElifs n el els env s)
  loopIter : ∀ c b s, Later s (loopIter n c b s)
  cforIter : ∀ c p b s, Later s (cforIter n c p b s)
  forSlice : ∀ v b xs s, Later s (forSlice n v b xs s)
  forMap : ∀ vs b m s, Later s (forMap n vs b m s)
  execReturn : ∀ es s, Later s (execReturn n es s)
  execCases : ∀ subj cs d s, Later s (execCases n subj cs d s)
  matchCase : ∀ subj es s, Later s (matchCase n subj es s).2
  registerDefer : ∀ f a va s, Later s (registerDefer n f a va s)

/-- close a Later goal -/
macro "poll_grind" ih:ident : tactic => `(tactic| (
  have hh0 := ($ih).evalExpr
  have hh1 := ($ih).evalList
  have hh2 := ($ih).evalIndexOpt
  have hh3 := ($ih).evalCond
  have hh4 := ($ih).sliceBegin
  have hh5 := ($ih).sliceEnd
  have hh6 := ($ih).evalMapLit
  have hh7 := ($ih).evalLetsx
  have hh8 := ($ih).letExpr
  have hh9 := ($ih).callValue
  have hh10 := ($ih).makeCallArgs
  have hh11 := ($ih).argsTail
  have hh12 := ($ih).evalArgs
  have hh13 := ($ih).evalVarArgs
  have hh14 := ($ih).callFn
  have hh15 := ($ih).runDefers
  have hh16 := ($ih).execStmt
  have hh17 := ($ih).execStmts
  have hh18 := ($ih).assignAll
  have hh19 := ($ih).execElifs
  have hh20 := ($ih).loopIter
  have hh21 := ($ih).cforIter
  have hh22 := ($ih).forSlice
  have hh23 := ($ih).forMap
  have hh24 := ($ih).execReturn
  have hh25 := ($ih).execCases
  have hh26 := ($ih).matchCase
  have hh27 := ($ih).registerDefer
  grind (splits := 40) [Later, later_fail, later_markUnsup, later_outOfFuel, later_poll, later_newScope, later_addClosure,
    later_define, later_defineAll, later_assign, later_assignIn, later_opRes, later_sliceResult, later_convertArgs,
    later_spreadFixed, later_spreadVariadic]))

theorem poll_evalExpr (n : Nat) (ih : PollIH n) : ∀ e s, Later s (evalExpr (n + 1) e s) := by
  intro e s; cases e <;> simp only [evalExpr] <;> poll_grind ih

theorem poll_evalList (n : Nat) (ih : PollIH n) : ∀ es s, Later s (evalList (n + 1) es s).2 := by
  intro es s; rw [evalList.eq_def]; poll_grind ih

theorem poll_evalIndexOpt (n : Nat) (ih : PollIH n) : ∀ oe d s, Later s (evalIndexOpt (n + 1) oe d s).2 := by
  intro oe d s; rw [evalIndexOpt.eq_def]; poll_grind ih

theorem poll_evalCond (n : Nat) (ih : PollIH n) : ∀ oe s, Later s (evalCond (n + 1) oe s).2 := by
  intro oe s; rw [evalCond.eq_def]; poll_grind ih

theorem poll_sliceBegin (n : Nat) (ih : PollIH n) : ∀ it len b e hc s, Later s (sliceBegin (n + 1) it len b e hc s) := by
  intro it len b e hc s; rw [sliceBegin.eq_def]; poll_grind ih

theorem poll_sliceEnd (n : Nat) (ih : PollIH n) : ∀ it len bi e hc s, Later s (sliceEnd (n + 1) it len bi e hc s) := by
  intro it len bi e hc s; rw [sliceEnd.eq_def]; poll_grind ih

theorem poll_evalMapLit (n : Nat) (ih : PollIH n) : ∀ ks vs acc s, Later s (evalMapLit (n + 1) ks vs acc s) := by
  intro ks vs acc s; rw [evalMapLit.eq_def]; poll_grind ih

theorem poll_evalLetsx (n : Nat) (ih : PollIH n) : ∀ l r i s, Later s (evalLetsx (n + 1) l r i s) := by
  intro l r i s; rw [evalLetsx.eq_def]; poll_grind ih

theorem poll_letExpr (n : Nat) (ih : PollIH n) : ∀ e s, Later s (letExpr (n + 1) e s) := by
  intro e s; rw [letExpr.eq_def]; poll_grind ih

theorem poll_callValue (n : Nat) (ih : PollIH n) : ∀ f a va s, Later s (callValue (n + 1) f a va s) := by
  intro f a va s; rw [callValue.eq_def]; poll_grind ih

theorem poll_makeCallArgs (n : Nat) (ih : PollIH n) : ∀ c a va s, Later s (makeCallArgs (n + 1) c a va s).2 := by
  intro c a va s; rw [makeCallArgs.eq_def]; poll_grind ih

theorem poll_argsTail (n : Nat) (ih : PollIH n) : ∀ c r nl va ne lead s, Later s (argsTail (n + 1) c r nl va ne lead s).2 := by
  intro c r nl va ne lead s; rw [argsTail.eq_def]; poll_grind ih

theorem poll_evalArgs (n : Nat) (ih : PollIH n) : ∀ c es i s, Later s (evalArgs (n + 1) c es i s).2 := by
  intro c es i s; rw [evalArgs.eq_def]; poll_grind ih

theorem poll_evalVarArgs (n : Nat) (ih : PollIH n) : ∀ c es s, Later s (evalVarArgs (n + 1) c es s).2 := by
  intro c es s; rw [evalVarArgs.eq_def]; poll_grind ih

theorem poll_callFn (n : Nat) (ih : PollIH n) : ∀ f a cs s, Later s (callFn (n + 1) f a cs s) := by
  intro f a cs s; rw [callFn.eq_def]; poll_grind ih

theorem poll_runDefers (n : Nat) (ih : PollIH n) : ∀ ds rv err s, Later s (runDefers (n + 1) ds rv err s) := by
  intro ds rv err s; rw [runDefers.eq_def]; poll_grind ih

theorem poll_execStmt (n : Nat) (ih : PollIH n) : ∀ st s, Later s (execStmt (n + 1) st s) := by
  intro st s; rw [execStmt.eq_def]; poll_grind ih

theorem poll_execStmts (n : Nat) (ih : PollIH n) : ∀ ss s, Later s (execStmts (n + 1) ss s) := by
  intro ss s; rw [execStmts.eq_def]; poll_grind ih

theorem poll_assignAll (n : Nat) (ih : PollIH n) : ∀ l v s, Later s (assignAll (n + 1) l v s) := by
  intro l v s; rw [assignAll.eq_def]; poll_grind ih

theorem poll_execElifs (n : Nat) (ih : PollIH n) : ∀ el els env s, Later s (execElifs (n + 1) el els env s) := by
  intro el els env s; rw [execElifs.eq_def]; poll_grind ih

theorem poll_loopIter (n : Nat) (ih : PollIH n) : ∀ c b s, Later s (loopIter (n + 1) c b s) := by
  intro c b s; rw [loopIter.eq_def]; poll_grind ih

theorem poll_cforIter (n : Nat) (ih : PollIH n) : ∀ c p b s, Later s (cforIter (n + 1) c p b s) := by
  intro c p b s; rw [cforIter.eq_def]; poll_grind ih

theorem poll_forSlice (n : Nat) (ih : PollIH n) : ∀ v b xs s, Later s (forSlice (n + 1) v b xs s) := by
  intro v b xs s; rw [forSlice.eq_def]; poll_grind ih

theorem poll_forMap (n : Nat) (ih : PollIH n) : ∀ vs b m s, Later s (forMap (n + 1) vs b m s) := by
  intro vs b m s; rw [forMap.eq_def]; poll_grind ih

theorem poll_execReturn (n : Nat) (ih : PollIH n) : ∀ es s, Later s (execReturn (n + 1) es s) := by
  intro es s; rw [execReturn.eq_def]; poll_grind ih

theorem poll_execCases (n : Nat) (ih : PollIH n) : ∀ subj cs d s, Later s (execCases (n + 1) subj cs d s) := by
  intro subj cs d s; rw [execCases.eq_def]; poll_grind ih

theorem poll_matchCase (n : Nat) (ih : PollIH n) : ∀ subj es s, Later s (matchCase (n + 1) subj es s).2 := by
  intro subj es s; rw [matchCase.eq_def]; poll_grind ih

theorem poll_registerDefer (n : Nat) (ih : PollIH n) : ∀ f a va s, Later s (registerDefer (n + 1) f a va s) := by
  intro f a va s; rw [registerDefer.eq_def]; poll_grind ih

/-- For every model function at every fuel: the cancellation point is untouched and the poll counter only grows. -/
theorem poll_all : ∀ n : Nat, PollIH n := by
  intro n
  induction n with
  | zero => exact {
    evalExpr := by intros; simp [evalExpr, Later, outOfFuel, St.markUnsup]
    evalList := by intros; simp [evalList, Later, outOfFuel, St.markUnsup]
    evalIndexOpt := by intros; simp [evalIndexOpt, Later, outOfFuel, St.markUnsup]
    evalCond := by intros; simp [evalCond, Later, outOfFuel, St.markUnsup]
    sliceBegin := by intros; simp [sliceBegin, Later, outOfFuel, St.markUnsup]
    sliceEnd := by intros; simp [sliceEnd, Later, outOfFuel, St.markUnsup]
    evalMapLit := by intros; simp [evalMapLit, Later, outOfFuel, St.markUnsup]
    evalLetsx := by intros; simp [evalLetsx, Later, outOfFuel, St.markUnsup]
    letExpr := by intros; simp [letExpr, Later, outOfFuel, St.markUnsup]
    callValue := by intros; simp [callValue, Later, outOfFuel, St.markUnsup]
    makeCallArgs := by intros; simp [makeCallArgs, Later, outOfFuel, St.markUnsup]
    argsTail := by intros; simp [argsTail, Later, outOfFuel, St.markUnsup]
    evalArgs := by intros; simp [evalArgs, Later, outOfFuel, St.markUnsup]
    evalVarArgs := by intros; simp [evalVarArgs, Later, outOfFuel, St.markUnsup]
    callFn := by intros; simp [callFn, Later, outOfFuel, St.markUnsup]
    runDefers := by intros; simp [runDefers, Later, outOfFuel, St.markUnsup]
    execStmt := by intros; simp [execStmt, Later, outOfFuel, St.markUnsup]
    execStmts := by intros; simp [execStmts, Later, outOfFuel, St.markUnsup]
    assignAll := by intros; simp [assignAll, Later, outOfFuel, St.markUnsup]
    execElifs := by intros; simp [execElifs, Later, outOfFuel, St.markUnsup]
    loopIter := by intros; simp [loopIter, Later, outOfFuel, St.markUnsup]
    cforIter := by intros; simp [cforIter, Later, outOfFuel, St.markUnsup]
    forSlice := by intros; simp [forSlice, Later, outOfFuel, St.markUnsup]
    forMap := by intros; simp [forMap, Later, outOfFuel, St.markUnsup]
    execReturn := by intros; simp [execReturn, Later, outOfFuel, St.markUnsup]
    execCases := by intros; simp [execCases, Later, outOfFuel, St.markUnsup]
    matchCase := by intros; simp [matchCase, Later, outOfFuel, St.markUnsup]
    registerDefer := by intros; simp [registerDefer, Later, outOfFuel, St.markUnsup] }
  | succ n ih => exact {
    evalExpr := poll_evalExpr n ih
    evalList := poll_evalList n ih
    evalIndexOpt := poll_evalIndexOpt n ih
    evalCond := poll_evalCond n ih
    sliceBegin := poll_sliceBegin n ih
    sliceEnd := poll_sliceEnd n ih
    evalMapLit := poll_evalMapLit n ih
    evalLetsx := poll_evalLetsx n ih
    letExpr := poll_letExpr n ih
    callValue := poll_callValue n ih
    makeCallArgs := poll_makeCallArgs n ih
    argsTail := poll_argsTail n ih
    evalArgs := poll_evalArgs n ih
    evalVarArgs := poll_evalVarArgs n ih
    callFn := poll_callFn n ih
    runDefers := poll_runDefers n ih
    execStmt := poll_execStmt n ih
    execStmts := poll_execStmts n ih
    assignAll := poll_assignAll n ih
    execElifs := poll_execElifs n ih
    loopIter := poll_loopIter n ih
    cforIter := poll_cforIter n ih
    forSlice := poll_forSlice n ih
    forMap := poll_forMap n ih
    execReturn := poll_execReturn n ih
    execCases := poll_execCases n ih
    matchCase := poll_matchCase n ih
    registerDefer := poll_registerDefer n ih }

/-- Once cancelled, always cancelled. -/
theorem cancelled_of_later (s r : St) (h : Later s r) (hc : s.cancelled = true) : r.cancelled = true := by
  unfold St.cancelled at *
  rw [h.1]
  cases hk : s.cancelAt with
  | none => simp [hk] at hc
  | some k =>
    simp only [hk, decide_eq_true_eq] at hc ⊢
    exact Nat.le_trans hc h.2

end Anko
