/-
Helper lemmas for the walker model (used by Anko.Props.C17).
-/
import Anko.Model.Walk

namespace Anko

theorem mem_interleave {α : Type} (as bs : List α) (h : as.length = bs.length) (x : α)
    (hx : x ∈ as ∨ x ∈ bs) : x ∈ interleave as bs := by
  induction as generalizing bs with
  | nil =>
    cases bs with
    | nil => simp at hx
    | cons b bs => simp at h
  | cons a as ih =>
    cases bs with
    | nil => simp at h
    | cons b bs =>
      simp only [interleave, List.mem_cons]
      simp only [List.length_cons, Nat.add_right_cancel_iff] at h
      rcases hx with hx | hx
      · rcases List.mem_cons.mp hx with rfl | hx
        · exact Or.inl rfl
        · exact Or.inr (Or.inr (ih bs h (Or.inl hx)))
      · rcases List.mem_cons.mp hx with rfl | hx
        · exact Or.inr (Or.inl rfl)
        · exact Or.inr (Or.inr (ih bs h (Or.inr hx)))

theorem mem_slotKids {k : Kid} {ks : List Kid} {s : String} (hk : k ∈ ks) (hs : k.slot = s) :
    k ∈ slotKids s ks := by
  unfold slotKids
  simp [List.mem_filter, hk, hs]

theorem mem_childOrder (vs : List Visit) (ks : List Kid) (k : Kid) (hk : k ∈ ks)
    (hc : vs.any (covers k.slot) = true) (hz : vs.all (zipOkVisit ks) = true) :
    k ∈ childOrder vs ks := by
  unfold childOrder
  rw [List.mem_flatMap]
  rw [List.any_eq_true] at hc
  obtain ⟨v, hv, hcov⟩ := hc
  refine ⟨v, hv, ?_⟩
  rw [List.all_eq_true] at hz
  have hzv := hz v hv
  cases v with
  | all s =>
    simp only [covers, beq_iff_eq] at hcov
    exact mem_slotKids hk hcov.symm
  | zip a b =>
    simp only [covers, Bool.or_eq_true, beq_iff_eq] at hcov
    simp only [zipOkVisit, beq_iff_eq] at hzv
    apply mem_interleave _ _ hzv
    rcases hcov with h | h
    · exact Or.inl (mem_slotKids hk h.symm)
    · exact Or.inr (mem_slotKids hk h.symm)

theorem childOrder_sub (vs : List Visit) (ks : List Kid) (k : Kid) (hk : k ∈ childOrder vs ks) : k ∈ ks := by
  unfold childOrder at hk
  rw [List.mem_flatMap] at hk
  obtain ⟨v, _, hkv⟩ := hk
  have sub_interleave : ∀ (as bs : List Kid), k ∈ interleave as bs → k ∈ as ∨ k ∈ bs := by
    intro as
    induction as with
    | nil => intro bs h; simp [interleave] at h
    | cons a as ih =>
      intro bs h
      cases bs with
      | nil => simp [interleave] at h
      | cons b bs =>
        simp only [interleave, List.mem_cons] at h
        rcases h with h | h | h
        · exact Or.inl (h ▸ List.mem_cons_self)
        · exact Or.inr (h ▸ List.mem_cons_self)
        · rcases ih bs h with h | h
          · exact Or.inl (List.mem_cons_of_mem _ h)
          · exact Or.inr (List.mem_cons_of_mem _ h)
  cases v with
  | all s => exact (List.mem_filter.mp hkv).1
  | zip a b =>
    rcases sub_interleave _ _ hkv with h | h
    · exact (List.mem_filter.mp h).1
    · exact (List.mem_filter.mp h).1

theorem height_of_indexed (f : Forest) : ∀ (i : Nat) (k : Kid), k ∈ f.indexed i → k.kids.height + 1 ≤ f.height := by
  induction f with
  | nil => intro i k h; simp [Forest.indexed] at h
  | cons s kd ks r _ ihr =>
    intro i k h
    simp only [Forest.indexed, List.mem_cons] at h
    simp only [Forest.height]
    rcases h with rfl | h
    · simp only; omega
    · have := ihr (i + 1) k h; omega

theorem paths_of_indexed (f : Forest) : ∀ (p : Path) (i : Nat) (q : Path), q ∈ f.paths p i →
    ∃ k, k ∈ f.indexed i ∧ (q = p ++ [k.idx] ∨ q ∈ k.kids.paths (p ++ [k.idx]) 0) := by
  induction f with
  | nil => intro p i q h; simp [Forest.paths] at h
  | cons s kd ks r _ ihr =>
    intro p i q h
    simp only [Forest.paths, List.mem_cons, List.mem_append] at h
    rcases h with h | h | h
    · exact ⟨⟨i, s, kd, ks⟩, by simp [Forest.indexed], Or.inl h⟩
    · exact ⟨⟨i, s, kd, ks⟩, by simp [Forest.indexed], Or.inr h⟩
    · obtain ⟨k, hk, hq⟩ := ihr p (i + 1) q h
      exact ⟨k, by simp [Forest.indexed, hk], hq⟩

theorem wf_of_indexed (schema : List KindInfo) (tbl : List WalkArm) (f : Forest) :
    ∀ (i : Nat) (k : Kid), f.wf schema tbl = true → k ∈ f.indexed i →
      nodeOk schema k.kind k.kids = true ∧ nodeZipOk tbl k.kind k.kids = true ∧ k.kids.wf schema tbl = true := by
  induction f with
  | nil => intro i k _ h; simp [Forest.indexed] at h
  | cons s kd ks r _ ihr =>
    intro i k hwf h
    simp only [Forest.wf, Bool.and_eq_true] at hwf
    simp only [Forest.indexed, List.mem_cons] at h
    rcases h with rfl | h
    · exact ⟨hwf.1.1.1, hwf.1.1.2, hwf.1.2⟩
    · exact ihr (i + 1) k hwf.2 h

theorem walkList_ok (f : Path → String → Forest → List Path × WRes) (p : Path) (l : List Kid)
    (h : ∀ k ∈ l, (f (p ++ [k.idx]) k.kind k.kids).2 = .ok) :
    (walkList f p l).2 = .ok ∧
      ∀ k ∈ l, ∀ q ∈ (f (p ++ [k.idx]) k.kind k.kids).1, q ∈ (walkList f p l).1 := by
  induction l with
  | nil => simp [walkList]
  | cons k rest ih =>
    have hk := h k List.mem_cons_self
    have ih' := ih (fun k' hk' => h k' (List.mem_cons_of_mem _ hk'))
    have hsplit : walkList f p (k :: rest) =
        ((f (p ++ [k.idx]) k.kind k.kids).1 ++ (walkList f p rest).1, (walkList f p rest).2) := by
      simp only [walkList]
      generalize hfe : f (p ++ [k.idx]) k.kind k.kids = fe at hk
      obtain ⟨v, e⟩ := fe
      simp only at hk
      subst hk
      rfl
    rw [hsplit]
    refine ⟨ih'.1, ?_⟩
    intro k' hk' q hq
    simp only [List.mem_append]
    rcases List.mem_cons.mp hk' with rfl | hk'
    · exact Or.inl hq
    · exact Or.inr (ih'.2 k' hk' q hq)

theorem parentsOk_append (a b seen : List Path) :
    parentsOk seen (a ++ b) = (parentsOk seen a && parentsOk (a.reverse ++ seen) b) := by
  induction a generalizing seen with
  | nil => simp [parentsOk]
  | cons x a ih =>
    simp only [List.cons_append, parentsOk, ih, List.reverse_cons, List.append_assoc,
      List.cons_append, List.nil_append, Bool.and_assoc]

theorem parentsOk_mono (v : List Path) : ∀ (s1 s2 : List Path), (∀ x ∈ s1, x ∈ s2) →
    parentsOk s1 v = true → parentsOk s2 v = true := by
  induction v with
  | nil => intro _ _ _ _; rfl
  | cons x v ih =>
    intro s1 s2 hsub h
    simp only [parentsOk, Bool.and_eq_true, List.contains_eq_mem, decide_eq_true_eq] at h ⊢
    refine ⟨hsub _ h.1, ih (x :: s1) (x :: s2) ?_ h.2⟩
    intro y hy
    rcases List.mem_cons.mp hy with rfl | hy
    · exact List.mem_cons_self
    · exact List.mem_cons_of_mem _ (hsub y hy)

theorem walkList_parentsOk (f : Path → String → Forest → List Path × WRes) (p : Path)
    (hf : ∀ (k : Kid) (seen : List Path), p ∈ seen → parentsOk seen (f (p ++ [k.idx]) k.kind k.kids).1 = true) :
    ∀ (l : List Kid) (seen : List Path), p ∈ seen → parentsOk seen (walkList f p l).1 = true := by
  intro l
  induction l with
  | nil => intro seen _; simp [walkList, parentsOk]
  | cons k rest ih =>
    intro seen hp
    have hk := hf k seen hp
    simp only [walkList]
    generalize f (p ++ [k.idx]) k.kind k.kids = fe at hk
    obtain ⟨v, e⟩ := fe
    cases e with
    | ok =>
      simp only [parentsOk_append, Bool.and_eq_true]
      exact ⟨hk, ih (v.reverse ++ seen) (List.mem_append_right _ hp)⟩
    | cbErr q => exact hk
    | unknown kd => exact hk
    | fuel => exact hk

/-- What "stops at the first callback error" means for a walk result. -/
def StopInv (fails : Path → Bool) (r : List Path × WRes) : Prop :=
  match r.2 with
  | .cbErr q => ∃ v0, r.1 = v0 ++ [q] ∧ fails q = true ∧ ∀ x ∈ v0, fails x = false
  | _ => ∀ x ∈ r.1, fails x = false

theorem walkList_stop (fails : Path → Bool) (f : Path → String → Forest → List Path × WRes) (p : Path)
    (hf : ∀ (k : Kid), StopInv fails (f (p ++ [k.idx]) k.kind k.kids)) :
    ∀ (l : List Kid), StopInv fails (walkList f p l) := by
  intro l
  induction l with
  | nil => simp [walkList, StopInv]
  | cons k rest ih =>
    have hk := hf k
    simp only [walkList]
    generalize f (p ++ [k.idx]) k.kind k.kids = fe at hk
    obtain ⟨v, e⟩ := fe
    cases e with
    | ok =>
      simp only [StopInv] at hk ih ⊢
      generalize walkList f p rest = wr at ih
      obtain ⟨v2, e2⟩ := wr
      cases e2 with
      | cbErr q =>
        simp only at ih ⊢
        obtain ⟨v0, h1, h2, h3⟩ := ih
        refine ⟨v ++ v0, by simp [h1], h2, ?_⟩
        intro x hx
        rcases List.mem_append.mp hx with hx | hx
        · exact hk x hx
        · exact h3 x hx
      | ok =>
        simp only at ih ⊢
        intro x hx
        rcases List.mem_append.mp hx with hx | hx
        · exact hk x hx
        · exact ih x hx
      | unknown kd =>
        simp only at ih ⊢
        intro x hx
        rcases List.mem_append.mp hx with hx | hx
        · exact hk x hx
        · exact ih x hx
      | fuel =>
        simp only at ih ⊢
        intro x hx
        rcases List.mem_append.mp hx with hx | hx
        · exact hk x hx
        · exact ih x hx
    | cbErr q => exact hk
    | unknown kd => exact hk
    | fuel => exact hk

end Anko
