/-
Invariants of the scanner model: the cursor stays inside the source, the line bookkeeping
(`lineHead`, `line`) describes the cursor's line, every loop advances.
-/
import Anko.Model.Scanner

namespace Anko.Scan

/-- number of newlines among the first `k` runes -/
def countNl (src : Array Char) : Nat → Nat
  | 0 => 0
  | k + 1 => countNl src k + (if src[k]? = some '\n' then 1 else 0)

theorem countNl_mono (src : Array Char) (a b : Nat) (h : a ≤ b) : countNl src a ≤ countNl src b := by
  induction b with
  | zero => simp_all
  | succ n ih =>
    by_cases hab : a = n + 1
    · subst hab; exact Nat.le_refl _
    · have := ih (by omega); simp only [countNl]; omega

theorem countNl_noNl (src : Array Char) (h d : Nat) (hn : ∀ j, h ≤ j → j < h + d → src[j]? ≠ some '\n') :
    countNl src (h + d) = countNl src h := by
  induction d with
  | zero => rfl
  | succ n ih =>
    have h1 := ih (fun i hi hi' => hn i hi (by omega))
    have h2 := hn (h + n) (by omega) (by omega)
    show countNl src (h + n + 1) = _
    simp only [countNl, h2, if_false, h1, Nat.add_zero]

/-- the scanner's bookkeeping invariant -/
structure Inv (s : S) : Prop where
  le : s.offset ≤ s.src.size
  head_le : s.lineHead ≤ s.offset
  noNl : ∀ i, s.lineHead ≤ i → i < s.offset → s.src[i]? ≠ some '\n'
  headNl : s.lineHead = 0 ∨ s.src[s.lineHead - 1]? = some '\n'
  lineCount : s.line = countNl s.src s.offset

/-- a reported position lies inside the text: its line is a line of the text, and its column is
at most one past the end of that line -/
def PosOK (src : Array Char) (p : Pos) : Prop :=
  ∃ h, (h = 0 ∨ src[h - 1]? = some '\n') ∧ p.line = countNl src h + 1 ∧ 1 ≤ p.col ∧
    h + (p.col - 1) ≤ src.size ∧ ∀ i, h ≤ i → i < h + (p.col - 1) → src[i]? ≠ some '\n'

theorem Inv.posOK {s : S} (h : Inv s) : PosOK s.src s.pos := by
  refine ⟨s.lineHead, h.headNl, ?_, ?_, ?_, ?_⟩
  · have := countNl_noNl s.src s.lineHead (s.offset - s.lineHead) (fun i hi hi' => h.noNl i hi (by have := h.head_le; omega))
    have e : s.lineHead + (s.offset - s.lineHead) = s.offset := by have := h.head_le; omega
    rw [e] at this
    simp [S.pos, h.lineCount, this]
  · simp [S.pos]
  · have := h.head_le; have := h.le; simp [S.pos]; omega
  · intro i hi hi'
    exact h.noNl i hi (by have := h.head_le; simp [S.pos] at hi'; omega)

theorem PosOK.line_le {src : Array Char} {p : Pos} (h : PosOK src p) : 1 ≤ p.line ∧ p.line ≤ countNl src src.size + 1 := by
  obtain ⟨k, _, hl, _, hs, _⟩ := h
  have := countNl_mono src k src.size (by omega)
  omega

theorem inv_init (src : Array Char) : Inv ⟨src, 0, 0, 0⟩ :=
  ⟨Nat.zero_le _, Nat.le_refl _, fun i _ hi => absurd hi (Nat.not_lt_zero _), Or.inl rfl, rfl⟩

@[simp] theorem next_src (s : S) : s.next.src = s.src := by
  unfold S.next; split
  · rfl
  · split <;> rfl

theorem next_offset (s : S) : s.next.offset = if s.offset < s.src.size then s.offset + 1 else s.offset := by
  unfold S.next S.reachEOF
  by_cases h : s.offset < s.src.size
  · have : ¬ s.src.size ≤ s.offset := by omega
    have e : (decide (s.src.size ≤ s.offset)) = false := by simpa using h
    simp only [e, Bool.false_eq_true, if_false, h, if_true]
    split <;> rfl
  · have : s.src.size ≤ s.offset := by omega
    simp [this, h]

theorem peek_some_lt {s : S} {c : Char} (h : s.peek = some c) : s.offset < s.src.size := by
  unfold S.peek at h
  by_cases hl : s.offset < s.src.size
  · exact hl
  · rw [Array.getElem?_eq_none (by omega)] at h; cases h

theorem peek_none_ge {s : S} (h : s.peek = none) : s.src.size ≤ s.offset := by
  unfold S.peek at h
  exact Array.getElem?_eq_none_iff.mp h

theorem Inv.next {s : S} (h : Inv s) : Inv s.next := by
  unfold S.next S.reachEOF
  by_cases hl : s.src.size ≤ s.offset
  · simp [hl]; exact h
  · have e : (decide (s.src.size ≤ s.offset)) = false := by simpa using hl
    simp only [e, Bool.false_eq_true, if_false]
    by_cases hp : s.peek = some '\n'
    · simp only [hp, beq_self_eq_true, if_true]
      refine ⟨by simp; omega, by simp, ?_, ?_, ?_⟩
      · intro i hi hi'; simp at hi hi'; omega
      · right; simpa [S.peek] using hp
      · simp only [countNl]
        have : s.src[s.offset]? = some '\n' := by simpa [S.peek] using hp
        simp [this, h.lineCount]
    · have hb : (s.peek == some '\n') = false := by simpa using hp
      simp only [hb, Bool.false_eq_true, if_false]
      refine ⟨by simp; omega, by have := h.head_le; simp; omega, ?_, h.headNl, ?_⟩
      · intro i hi hi'
        simp at hi hi'
        by_cases hio : i = s.offset
        · subst hio; simpa [S.peek] using hp
        · exact h.noNl i hi (by omega)
      · simp only [countNl]
        have : ¬ s.src[s.offset]? = some '\n' := by simpa [S.peek] using hp
        simp [this, h.lineCount]

/-- `back()` directly after `next()` from a rune that is not a newline undoes it -/
theorem next_back {s : S} {c : Char} (hp : s.peek = some c) (hc : c ≠ '\n') : s.next.back = s := by
  have hl := peek_some_lt hp
  unfold S.next S.reachEOF S.back
  have : ¬ s.src.size ≤ s.offset := by omega
  have hb : (s.peek == some '\n') = false := by rw [hp]; simpa using hc
  simp [this, hb]

/-- the remaining input -/
def rem (s : S) : Nat := s.src.size - s.offset

theorem rem_next {s : S} {c : Char} (hp : s.peek = some c) : rem s.next + 1 = rem s := by
  have hl := peek_some_lt hp
  simp only [rem, next_src, next_offset, hl, if_true]; omega

theorem rem_next_le (s : S) : rem s.next ≤ rem s := by
  simp only [rem, next_src, next_offset]; split <;> omega

/-- `t` is reached from `s` by moving forward over the same text, keeping the invariant -/
structure Fwd (s t : S) : Prop where
  src : t.src = s.src
  inv : Inv t
  le : s.offset ≤ t.offset

theorem Fwd.refl {s : S} (h : Inv s) : Fwd s s := ⟨rfl, h, Nat.le_refl _⟩

theorem Fwd.trans {a b c : S} (h1 : Fwd a b) (h2 : Fwd b c) : Fwd a c :=
  ⟨h2.src.trans h1.src, h2.inv, Nat.le_trans h1.le h2.le⟩

theorem Fwd.next {s : S} (h : Inv s) : Fwd s s.next :=
  ⟨next_src s, h.next, by rw [next_offset]; split <;> omega⟩

theorem Fwd.rem_le {s t : S} (h : Fwd s t) : rem t ≤ rem s := by
  have := h.le; have := h.src; simp only [rem, *]; omega

theorem peekIs_some {s : S} {p : Char → Bool} (h : peekIs s p = true) : ∃ c, s.peek = some c ∧ p c = true := by
  unfold peekIs at h
  split at h
  · exact ⟨_, ‹_›, h⟩
  · cases h

theorem skipWhile_fwd (p : Char → Bool) : ∀ (n : Nat) (s : S), Inv s → Fwd s (skipWhile p n s)
  | 0, s, h => Fwd.refl h
  | n + 1, s, h => by
    unfold skipWhile
    split
    · exact (Fwd.next h).trans (skipWhile_fwd p n s.next h.next)
    · exact Fwd.refl h

theorem skipWhile_done (p : Char → Bool) : ∀ (n : Nat) (s : S), rem s < n → peekIs (skipWhile p n s) p = false
  | 0, s, h => absurd h (Nat.not_lt_zero _)
  | n + 1, s, h => by
    unfold skipWhile
    split
    · next hp =>
      obtain ⟨c, hc, _⟩ := peekIs_some hp
      have := rem_next hc
      exact skipWhile_done p n s.next (by omega)
    · next hp => simpa using hp

theorem takeWhile_fwd (p : Char → Bool) : ∀ (n : Nat) (s : S) (acc : List Char), Inv s → Fwd s (takeWhile p n s acc).2
  | 0, s, acc, h => Fwd.refl h
  | n + 1, s, acc, h => by
    unfold takeWhile
    split
    · split
      · exact (Fwd.next h).trans (takeWhile_fwd p n s.next _ h.next)
      · exact Fwd.refl h
    · exact Fwd.refl h

theorem takeWhile_done (p : Char → Bool) : ∀ (n : Nat) (s : S) (acc : List Char), rem s < n →
    peekIs (takeWhile p n s acc).2 p = false
  | 0, s, _, h => absurd h (Nat.not_lt_zero _)
  | n + 1, s, acc, h => by
    unfold takeWhile
    split
    · next c hc =>
      split
      · have := rem_next hc
        exact takeWhile_done p n s.next _ (by omega)
      · next hp => simp [peekIs, hc]; simpa using hp
    · next hc => simp [peekIs, hc]

/-- a loop that consumed at least one rune -/
theorem takeWhile_progress (p : Char → Bool) (n : Nat) (s : S) (acc : List Char) (c : Char) (h : Inv s)
    (hc : s.peek = some c) (hp : p c = true) : s.offset < (takeWhile p (n + 1) s acc).2.offset := by
  unfold takeWhile
  simp only [hc, hp, if_true]
  have h1 := (takeWhile_fwd p n s.next (c :: acc) h.next).le
  have := peek_some_lt hc
  rw [next_offset] at h1; simp only [this, if_true] at h1; omega

theorem Fwd.next_lt {s : S} {c : Char} (h : Inv s) (hc : s.peek = some c) : Fwd s s.next ∧ s.offset < s.next.offset := by
  refine ⟨Fwd.next h, ?_⟩
  have := peek_some_lt hc
  rw [next_offset]; simp [this]

/-- outcome of a scanning helper started in `s`: it ends further on in the same text with the
invariant intact, or fails with one of the lexer's own errors (never by running out of fuel) -/
def Good {α : Type} (s : S) (r : Except LexErr (α × S)) : Prop :=
  match r with
  | .ok (_, t) => Fwd s t
  | .error e => e ≠ .fuel

theorem Good.mono {α : Type} {s s' : S} {r : Except LexErr (α × S)} (h : Fwd s s') (g : Good s' r) : Good s r := by
  unfold Good at *
  split <;> simp_all
  exact h.trans g

theorem Good.ok {α : Type} {s t : S} {a : α} (h : Fwd s t) : Good s (.ok (a, t)) := h
theorem Good.msg {α : Type} {s : S} {m : String} : Good (α := α) s (.error (.msg m)) := by simp [Good]

/-- scanNumberTail: the result is reached forwards; fuel above the remaining input is never exhausted -/
theorem scanNumberTail_good : ∀ (n : Nat) (s : S) (acc : List Char) (found : Bool), Inv s → rem s < n →
    Good s (scanNumberTail n s acc found)
  | 0, s, _, _, _, h => absurd h (Nat.not_lt_zero _)
  | n + 1, s, acc, found, hi, hr => by
    unfold scanNumberTail
    split
    · next c hc =>
      have hrem := rem_next hc
      have hf := Fwd.next hi
      split
      · exact Good.mono hf (scanNumberTail_good n s.next _ _ hi.next (by omega))
      · split
        · exact Good.mono hf (scanNumberTail_good n s.next _ _ hi.next (by omega))
        · split
          · split
            · exact Good.msg
            · show Good s (match s.next.peek with | some d => _ | none => _)
              split
              · next d hd =>
                have hrem2 := rem_next hd
                split
                · exact Good.mono (hf.trans (Fwd.next hi.next)) (scanNumberTail_good n s.next.next _ _ hi.next.next (by omega))
                · exact Good.mono hf (scanNumberTail_good n s.next _ _ hi.next (by omega))
              · exact Good.mono hf (scanNumberTail_good n s.next _ _ hi.next (by omega))
          · exact Good.ok (Fwd.refl hi)
    · exact Good.ok (Fwd.refl hi)

/-- as `Good`, and at least one rune was consumed -/
def GoodS {α : Type} (s : S) (r : Except LexErr (α × S)) : Prop :=
  match r with
  | .ok (_, t) => Fwd s t ∧ s.offset < t.offset
  | .error e => e ≠ .fuel

theorem GoodS.of_good {α : Type} {s s' : S} {r : Except LexErr (α × S)} (h : Fwd s s') (hlt : s.offset < s'.offset)
    (g : Good s' r) : GoodS s r := by
  unfold Good at g; unfold GoodS
  split <;> simp_all
  exact ⟨h.trans g, by have := g.le; omega⟩

theorem GoodS.msg {α : Type} {s : S} {m : String} : GoodS (α := α) s (.error (.msg m)) := by simp [GoodS]

theorem scanNumber_good (s : S) (hi : Inv s) : GoodS s (scanNumber s) := by
  unfold scanNumber
  split
  · exact GoodS.msg
  · next c0 hc0 =>
    obtain ⟨hf, hlt⟩ := Fwd.next_lt hi hc0
    have hrem := rem_next hc0
    have hsz : rem s.next < s.src.size + 1 := by unfold rem at *; simp at *; omega
    -- the three branches all end in a state reached forwards from s.next
    have key : ∀ (r : Except LexErr (List Char × S)), Good s.next r →
        GoodS s (match r with
          | .error e => .error e
          | .ok (cs, s2) =>
            if peekIs s2 isLetter then .error (.msg "identifier starts immediately after numeric literal")
            else .ok (String.ofList cs, s2)) := by
      intro r hr
      unfold Good at hr
      split
      · simp_all [GoodS]
      · simp only at hr
        split
        · exact GoodS.msg
        · exact ⟨hf.trans hr, by have := hr.le; omega⟩
    apply key
    split
    · have h2 := takeWhile_fwd isHex (s.src.size + 1) s.next.next [] hi.next.next
      exact Good.ok ((Fwd.next hi.next).trans h2)
    · split
      · have h2 := takeWhile_fwd isBinary (s.src.size + 1) s.next.next [] hi.next.next
        exact Good.ok ((Fwd.next hi.next).trans h2)
      · have h2 := scanNumberTail_good (s.src.size + 1) s.next [] false hi.next hsz
        unfold Good at h2 ⊢
        split at h2 <;> simp_all

/-- scanRawString: on success the closing delimiter was found at some `s'` further on and consumed -/
def RawPost (l : Char) (s : S) (r : Except LexErr (List Char × S)) : Prop :=
  match r with
  | .ok (_, t) => ∃ s', Fwd s s' ∧ s.offset < s'.offset ∧ s'.peek = some l ∧ t = s'.next
  | .error e => e ≠ .fuel

theorem next_lt_of_next_peek {s : S} {c : Char} (h : s.next.peek = some c) : s.offset < s.next.offset := by
  have h1 := peek_some_lt h
  rw [next_offset] at *
  split at h1 <;> simp_all

theorem scanRaw_post (l : Char) : ∀ (n : Nat) (s : S) (acc : List Char), Inv s → rem s < n → RawPost l s (scanRaw l n s acc)
  | 0, s, _, _, h => absurd h (Nat.not_lt_zero _)
  | n + 1, s, acc, hi, hr => by
    unfold scanRaw
    show RawPost l s (match s.next.peek with | none => _ | some c => _)
    split
    · simp [RawPost]
    · next c hc =>
      have hlt := next_lt_of_next_peek hc
      split
      · next hcl =>
        have : c = l := by simpa using hcl
        subst this
        exact ⟨s.next, Fwd.next hi, hlt, hc, rfl⟩
      · have hrem : rem s.next < n := by
          have := hi.le; have := hi.next.le
          simp only [rem, next_src] at *; omega
        have ih := scanRaw_post l n s.next (c :: acc) hi.next hrem
        unfold RawPost at ih ⊢
        split at ih
        · obtain ⟨s', h1, h2, h3, h4⟩ := ih
          exact ⟨s', (Fwd.next hi).trans h1, by omega, h3, h4⟩
        · exact ih

theorem RawPost.goodS {l : Char} {s : S} {r : Except LexErr (List Char × S)} (h : RawPost l s r) : GoodS s r := by
  unfold RawPost at h; unfold GoodS
  split <;> simp_all
  obtain ⟨s', h1, h2, h3, h4⟩ := h
  subst h4
  exact ⟨h1.trans (Fwd.next h1.inv), by have := (Fwd.next h1.inv).le; omega⟩

theorem rem_next_lt {s : S} {c : Char} (hi : Inv s) (hc : s.next.peek = some c) {n : Nat} (hr : rem s < n + 1) : rem s.next < n := by
  have := next_lt_of_next_peek hc
  have := hi.le; have := hi.next.le
  simp only [rem, next_src] at *; omega

theorem scanStr_good (l : Char) : ∀ (n : Nat) (s : S) (acc : List Char), Inv s → rem s < n → GoodS s (scanStr l n s acc)
  | 0, s, _, _, h => absurd h (Nat.not_lt_zero _)
  | n + 1, s, acc, hi, hr => by
    unfold scanStr
    show GoodS s (match s.next.peek with | none => _ | some c => _)
    split
    · exact GoodS.msg
    · next c hc =>
      have hlt := next_lt_of_next_peek hc
      have hrem := rem_next_lt hi hc hr
      have hf := Fwd.next hi
      have lift : ∀ {r : Except LexErr (List Char × S)}, GoodS s.next r → GoodS s r := by
        intro r g
        unfold GoodS at g ⊢
        split <;> simp_all
        exact ⟨hf.trans g.1, by omega⟩
      split
      · exact GoodS.msg
      · split
        · exact ⟨hf.trans (Fwd.next hi.next), by have := (Fwd.next hi.next).le; omega⟩
        · split
          · -- escape: one more rune is consumed before the loop continues
            have hf2 := Fwd.next hi.next
            have hrem2 : rem s.next.next < n := by have := rem_next_le s.next; omega
            have lift2 : ∀ {r : Except LexErr (List Char × S)}, GoodS s.next.next r → GoodS s r := by
              intro r g
              unfold GoodS at g ⊢
              split <;> simp_all
              exact ⟨(hf.trans hf2).trans g.1, by have := hf2.le; omega⟩
            show GoodS s (match s.next.next.peek with
              | some 'b' => _ | some 'f' => _ | some 'r' => _ | some 'n' => _ | some 't' => _ | some d => _ | none => _)
            split <;> exact lift2 (scanStr_good l n s.next.next _ hi.next.next hrem2)
          · exact lift (scanStr_good l n s.next _ hi.next hrem)

/-- block comments -/
def CommentPost (s : S) (r : Except LexErr S) : Prop :=
  match r with
  | .ok t => Fwd s t ∧ s.offset < t.offset
  | .error e => e ≠ .fuel

theorem skipBlockComment_post : ∀ (n : Nat) (s : S), Inv s → rem s < n → CommentPost s (skipBlockComment n s)
  | 0, s, _, h => absurd h (Nat.not_lt_zero _)
  | n + 1, s, hi, hr => by
    unfold skipBlockComment
    have hraw := scanRaw_post '*' (s.src.size + 1) s [] hi (by unfold rem; omega)
    unfold RawPost at hraw
    split
    · next e heq => rw [heq] at hraw; exact hraw
    · next cs s1 heq =>
      rw [heq] at hraw
      obtain ⟨s', h1, h2, h3, h4⟩ := hraw
      subst h4
      split
      · exact ⟨(h1.trans (Fwd.next h1.inv)).trans (Fwd.next h1.inv.next),
          by have := (Fwd.next h1.inv).le; have := (Fwd.next h1.inv.next).le; omega⟩
      · rw [next_back h3 (by decide)]
        have hrem : rem s' < n := by
          have e1 := h1.src; have := h1.inv.le
          simp only [rem, e1] at *; omega
        have ih := skipBlockComment_post n s' h1.inv hrem
        unfold CommentPost at ih ⊢
        split <;> simp_all
        exact ⟨h1.trans ih.1, by omega⟩

theorem twoChar_fwd (s : S) (c : Char) (alts : List (Char × String)) (hi : Inv s) (hc : s.peek = some c) (hn : c ≠ '\n') :
    Fwd s (twoChar s c alts).2 ∧ s.offset < (twoChar s c alts).2.offset := by
  obtain ⟨hf, hlt⟩ := Fwd.next_lt hi hc
  unfold twoChar
  simp only
  split
  · split
    · exact ⟨hf.trans (Fwd.next hi.next), by have := (Fwd.next hi.next).le; simp only; omega⟩
    · simp only [next_back hc hn]; exact ⟨hf, hlt⟩
  · simp only [next_back hc hn]; exact ⟨hf, hlt⟩

/-- what one call of Scan guarantees -/
def ScanPost (s : S) (r : Except (LexErr × Pos) (Token × S)) : Prop :=
  match r with
  | .ok (t, s') => Fwd s s' ∧ (t.tok ≠ .eof → s.offset < s'.offset) ∧ PosOK s.src t.pos
  | .error (e, p) => e ≠ .fuel ∧ PosOK s.src p

theorem ScanPost.mono {s0 s : S} {r} (h : Fwd s0 s) (g : ScanPost s r) : ScanPost s0 r := by
  unfold ScanPost at *
  split
  · simp only at g
    exact ⟨h.trans g.1, fun ht => by have := g.2.1 ht; have := h.le; omega, h.src ▸ g.2.2⟩
  · simp only at g
    exact ⟨g.1, h.src ▸ g.2⟩

theorem scan_post : ∀ (n : Nat) (s0 : S), Inv s0 → rem s0 < n → ScanPost s0 (scan n s0)
  | 0, s, _, h => absurd h (Nat.not_lt_zero _)
  | n + 1, s0, hi0, hr0 => by
    unfold scan
    dsimp only
    have hfs := skipWhile_fwd isBlank (s0.src.size + 1) s0 hi0
    generalize skipWhile isBlank (s0.src.size + 1) s0 = s at hfs ⊢
    have hi := hfs.inv
    have hsrc := hfs.src
    have hpos : PosOK s0.src s.pos := hsrc ▸ hi.posOK
    have hrs : rem s < n + 1 := by have := hfs.rem_le; omega
    have hfuel : rem s < s.src.size + 1 := by unfold rem; omega
    rw [hsrc] at hfuel
    have okk : ∀ (t : Tok) (s' : S), Fwd s s' → s.offset < s'.offset → ScanPost s0 (.ok (⟨t, s.pos⟩, s')) := by
      intro t s' hf hlt
      exact ⟨hfs.trans hf, fun _ => by have := hfs.le; omega, hpos⟩
    have errk : ∀ (m : String), ScanPost s0 (.error (.msg m, s.pos)) := by
      intro m; exact ⟨by simp, hpos⟩
    have again : ∀ (s2 : S), Fwd s s2 → s.offset < s2.offset → ScanPost s0 (scan n s2) := by
      intro s2 hf hlt
      have hrem : rem s2 < n := by
        have e := hf.src; have := hf.inv.le
        simp only [rem, e] at *; omega
      exact ScanPost.mono (hfs.trans hf) (scan_post n s2 hf.inv hrem)
    rw [hsrc]
    split
    · exact ⟨hfs, fun h => absurd rfl h, hpos⟩
    · next ch hch =>
      have hlt := peek_some_lt hch
      have two : ∀ (alts : List (Char × String)), ch ≠ '\n' →
          ScanPost s0 (.ok (⟨(twoChar s ch alts).1, s.pos⟩, (twoChar s ch alts).2)) := by
        intro alts hn
        obtain ⟨h1, h2⟩ := twoChar_fwd s ch alts hi hch hn
        exact okk _ _ h1 h2
      obtain ⟨hnf, hnlt⟩ := Fwd.next_lt hi hch
      by_cases hl : isLetter ch = true
      · rw [if_pos hl]
        have h1 := takeWhile_fwd (fun c => isLetter c || isDigit c) (s0.src.size + 1) s [] hi
        have h2 := takeWhile_progress (fun c => isLetter c || isDigit c) s0.src.size s [] ch hi hch (by simp [hl])
        exact okk _ _ h1 h2
      rw [if_neg hl]
      by_cases hd : isDigit ch = true
      · rw [if_pos hd]
        have g := scanNumber_good s hi
        generalize scanNumber s = r at g ⊢
        cases r with
        | error e => exact ⟨g, hpos⟩
        | ok p => obtain ⟨x, s1⟩ := p; exact okk _ _ g.1 g.2
      rw [if_neg hd]
      by_cases hq : (ch == '"' || ch == '\'') = true
      · rw [if_pos hq]
        have g := scanStr_good ch _ s [] hi hfuel
        generalize scanStr ch (s0.src.size + 1) s [] = r at g ⊢
        cases r with
        | error e => exact ⟨g, hpos⟩
        | ok p => obtain ⟨x, s1⟩ := p; exact okk _ _ g.1 g.2
      rw [if_neg hq]
      by_cases hb : (ch == '`') = true
      · rw [if_pos hb]
        have g := (scanRaw_post '`' _ s [] hi hfuel).goodS
        generalize scanRaw '`' (s0.src.size + 1) s [] = r at g ⊢
        cases r with
        | error e => exact ⟨g, hpos⟩
        | ok p => obtain ⟨x, s1⟩ := p; exact okk _ _ g.1 g.2
      rw [if_neg hb]
      have lineComment : ∀ (s1 : S), Fwd s s1 → s.offset < s1.offset →
          ScanPost s0 (scan n (skipWhile (fun c => c != '\n') (s0.src.size + 1) s1)) := by
        intro s1 hf1 hlt1
        have h1 := skipWhile_fwd (fun c => c != '\n') (s0.src.size + 1) s1 hf1.inv
        exact again _ (hf1.trans h1) (by have := h1.le; omega)
      by_cases hh : (ch == '#') = true
      · rw [if_pos hh]
        have hch' : ch = '#' := by simpa using hh
        have h1 := skipWhile_fwd (fun c => c != '\n') (s0.src.size + 1) s hi
        have h2 : s.offset < (skipWhile (fun c => c != '\n') (s0.src.size + 1) s).offset := by
          unfold skipWhile
          have : peekIs s (fun c => c != '\n') = true := by simp [peekIs, hch, hch']
          simp only [this, if_true]
          have := (skipWhile_fwd (fun c => c != '\n') s0.src.size s.next hi.next).le
          omega
        exact again _ h1 h2
      rw [if_neg hh]
      by_cases hx : (ch == '!') = true
      · rw [if_pos hx]
        have hne : ch ≠ '\n' := by intro h; rw [h] at hx; exact absurd hx (by decide)
        exact two _ hne
      rw [if_neg hx]
      clear hx
      by_cases hx : (ch == '=') = true
      · rw [if_pos hx]
        have hne : ch ≠ '\n' := by intro h; rw [h] at hx; exact absurd hx (by decide)
        split
        · exact okk _ _ (hnf.trans (Fwd.next hi.next)) (by have := (Fwd.next hi.next).le; omega)
        · split
          · exact okk _ _ (((hnf.trans (Fwd.next hi.next)).trans (Fwd.next hi.next.next)).trans (Fwd.next hi.next.next.next))
              (by have := (Fwd.next hi.next).le; have := (Fwd.next hi.next.next).le; have := (Fwd.next hi.next.next.next).le; omega)
          · rw [next_back hch hne]; exact okk _ _ hnf hnlt
      rw [if_neg hx]
      clear hx
      by_cases hx : (ch == '?') = true
      · rw [if_pos hx]
        have hne : ch ≠ '\n' := by intro h; rw [h] at hx; exact absurd hx (by decide)
        exact two _ hne
      rw [if_neg hx]
      clear hx
      by_cases hx : (ch == '+') = true
      · rw [if_pos hx]
        have hne : ch ≠ '\n' := by intro h; rw [h] at hx; exact absurd hx (by decide)
        exact two _ hne
      rw [if_neg hx]
      clear hx
      by_cases hx : (ch == '-') = true
      · rw [if_pos hx]
        have hne : ch ≠ '\n' := by intro h; rw [h] at hx; exact absurd hx (by decide)
        exact two _ hne
      rw [if_neg hx]
      clear hx
      by_cases hx : (ch == '*') = true
      · rw [if_pos hx]
        have hne : ch ≠ '\n' := by intro h; rw [h] at hx; exact absurd hx (by decide)
        exact two _ hne
      rw [if_neg hx]
      clear hx
      by_cases hx : (ch == '/') = true
      · rw [if_pos hx]
        have hne : ch ≠ '\n' := by intro h; rw [h] at hx; exact absurd hx (by decide)
        split
        · exact okk _ _ (hnf.trans (Fwd.next hi.next)) (by have := (Fwd.next hi.next).le; omega)
        · split
          · exact lineComment _ hnf hnlt
          · split
            · have hfuel1 : rem s.next < s0.src.size + 1 := by have := rem_next_le s; omega
              have g := skipBlockComment_post (s0.src.size + 1) s.next hi.next hfuel1
              generalize skipBlockComment (s0.src.size + 1) s.next = r at g ⊢
              cases r with
              | error e => exact ⟨g, hpos⟩
              | ok s2 => exact again _ (hnf.trans g.1) (by have := g.2; omega)
            · rw [next_back hch hne]; exact okk _ _ hnf hnlt
      rw [if_neg hx]
      clear hx
      by_cases hx : (ch == '>') = true
      · rw [if_pos hx]
        have hne : ch ≠ '\n' := by intro h; rw [h] at hx; exact absurd hx (by decide)
        exact two _ hne
      rw [if_neg hx]
      clear hx
      by_cases hx : (ch == '<') = true
      · rw [if_pos hx]
        have hne : ch ≠ '\n' := by intro h; rw [h] at hx; exact absurd hx (by decide)
        exact two _ hne
      rw [if_neg hx]
      clear hx
      by_cases hx : (ch == '|') = true
      · rw [if_pos hx]
        have hne : ch ≠ '\n' := by intro h; rw [h] at hx; exact absurd hx (by decide)
        exact two _ hne
      rw [if_neg hx]
      clear hx
      by_cases hx : (ch == '&') = true
      · rw [if_pos hx]
        have hne : ch ≠ '\n' := by intro h; rw [h] at hx; exact absurd hx (by decide)
        exact two _ hne
      rw [if_neg hx]
      clear hx
      by_cases hx : (ch == '.') = true
      · rw [if_pos hx]
        have hne : ch ≠ '\n' := by intro h; rw [h] at hx; exact absurd hx (by decide)
        split
        · split
          · exact okk _ _ ((hnf.trans (Fwd.next hi.next)).trans (Fwd.next hi.next.next))
              (by have := (Fwd.next hi.next).le; have := (Fwd.next hi.next.next).le; omega)
          · exact ⟨by simp, hpos⟩
        · rw [next_back hch hne]; exact okk _ _ hnf hnlt
      rw [if_neg hx]
      clear hx
      split
      · exact okk _ _ hnf hnlt
      · exact ⟨by simp, hpos⟩

end Anko.Scan
