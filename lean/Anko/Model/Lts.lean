/-
Layer B: occupancy of the read/write regions of one `sync.RWMutex` as a labelled transition
system.  The specification of RWMutex assumed here: a reader may enter while no writer is
inside; a writer may enter while nobody is inside.
-/
namespace Anko.Lts

/-- how many goroutines are inside a read region / a write region of the same mutex -/
structure Occ where
  readers : Nat
  writers : Nat
  deriving DecidableEq, Repr

inductive Ev where
  | enterR | exitR | enterW | exitW
  deriving DecidableEq, Repr

/-- the RWMutex specification: which event is enabled, and its effect -/
def step (s : Occ) : Ev → Option Occ
  | .enterR => if s.writers = 0 then some { s with readers := s.readers + 1 } else none
  | .exitR => if 0 < s.readers then some { s with readers := s.readers - 1 } else none
  | .enterW => if s.writers = 0 ∧ s.readers = 0 then some { s with writers := 1 } else none
  | .exitW => if 0 < s.writers then some { s with writers := s.writers - 1 } else none

def run : Occ → List Ev → Option Occ
  | s, [] => some s
  | s, e :: es => match step s e with
    | some s' => run s' es
    | none => none

def init : Occ := ⟨0, 0⟩

/-- a writer is alone -/
def Excl (s : Occ) : Prop := s.writers ≤ 1 ∧ (s.writers = 1 → s.readers = 0)

end Anko.Lts
