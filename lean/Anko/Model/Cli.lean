/-
Decision logic of the `anko` command (anko.go, runNonInteractive) over the REGENERATED
constants of Anko.Gen.Cli.
-/
import Anko.Gen.Cli

namespace Anko

/-- What vm.Execute does with the source. -/
inductive ExecRes where
  | ok | parseErr | runErr
  deriving DecidableEq, Repr

/-- How the source is supplied: `-e code` or a file argument (readable or not). -/
inductive Supply where
  | dashE | file (readable : Bool)
  deriving DecidableEq, Repr

structure CliOut where
  exit : Nat
  diagLines : Nat     -- lines the tool itself writes (after whatever the script printed)
  executed : Bool     -- whether vm.Execute was called at all
  deriving DecidableEq, Repr

open Gen.Cli in
def cli (s : Supply) (r : ExecRes) : CliOut :=
  match s with
  | .file false => ⟨exitReadErr, diagReadErr, false⟩
  | _ => match r with
    | .ok => ⟨exitOk, diagOk, true⟩
    | _ => ⟨exitExecErr, diagExecErr, true⟩

end Anko
