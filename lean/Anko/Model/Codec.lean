/-
S-expression codec for values (line protocol).
  nil | (b 0|1) | (i <int>) | (f <bits>) | (s <hex>) | (l v*) | (m (k v)*) | (fn n) | (gofn name)
  | (err <hex>) | (env n) ;  (w v) marks an interface-typed (ity) operand.
-/
import Anko.Model.Sexp
import Anko.Model.Val

namespace Anko
open Sexp

def hexAtomBytes (a : String) : Option Bytes := unhexBytes a.toList

def decodeVal : Nat → Sexp → Option Val
  | 0, _ => none
  | _, Sexp.atom "nil" => some Val.nil
  | n + 1, Sexp.list (Sexp.atom tag :: args) =>
    match tag, args with
    | "b", [.atom x] => some (.bool (x == "1"))
    | "i", [.atom x] => x.toInt?.map (fun i => .int (BitVec.ofInt 64 i))
    | "f", [.atom x] => x.toNat?.map (fun i => .float (BitVec.ofNat 64 i))
    | "s", [] => some (.str [])
    | "s", [.atom x] => (hexAtomBytes x).map Val.str
    | "l", xs => (xs.mapM (decodeVal n)).map Val.list
    | "m", kvs => (kvs.mapM (fun (kv : Sexp) => match kv with
        | Sexp.list [k, v] => do
          let k' ← decodeVal n k
          let v' ← decodeVal n v
          pure (k', v')
        | _ => none)).map Val.map
    | "fn", [.atom x] => x.toNat?.map Val.fn
    | "gofn", [.atom x] => some (.gofn x)
    | "err", [] => some (.err "")
    | "err", [.atom x] => (hexAtomBytes x).bind (fun b => (String.fromUTF8? (ByteArray.mk b.toArray)).map Val.err)
    | "env", [.atom x] => x.toNat?.map Val.env
    | _, _ => none
  | _, _ => none

def decodeRV (s : Sexp) : Option RV :=
  match s with
  | .list [.atom "w", v] => (decodeVal 1000 v).map RV.wrap
  | v => (decodeVal 1000 v).map RV.plain

partial def encodeVal : Val → String
  | .nil => "nil"
  | .bool b => if b then "(b 1)" else "(b 0)"
  | .int i => s!"(i {i.toInt})"
  | .float f =>
    -- canonical NaN: payloads are not compared
    if (f.toNat / 4503599627370496) % 2048 == 2047 && f.toNat % 4503599627370496 != 0 then "(f 9221120237041090560)"
    else s!"(f {f.toNat})"
  | .str s => if s.isEmpty then "(s)" else s!"(s {hexBytes s})"
  | .list xs => "(l" ++ String.join (xs.map (fun x => " " ++ encodeVal x)) ++ ")"
  | .map kvs =>
    let ents := (kvs.map (fun kv => "(" ++ encodeVal kv.1 ++ " " ++ encodeVal kv.2 ++ ")")).toArray.qsort (· < ·)
    "(m" ++ String.join (ents.toList.map (fun e => " " ++ e)) ++ ")"
  | .fn _ => "(fn 0)"          -- function identity is not observable across the protocol
  | .gofn _ => "(fn 0)"
  | .err m => if m.isEmpty then "(err)" else s!"(err {hexBytes m.toUTF8.toList})"
  | .env _ => "(env)"

def encodeRV (r : RV) : String := if r.ity && r.v.kind != .iface then "(w " ++ encodeVal r.v ++ ")" else encodeVal r.v

end Anko
