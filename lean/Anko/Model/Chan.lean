/-
Layer B: Go channels as the interpreter uses them (reflect.Select send / receive, Close), as a
labelled transition system, and pipelines of script goroutines over such channels.

Specification of Go channels assumed here (the runtime is trusted, not modelled further):
a channel is a FIFO buffer of capacity `cap` (0 = rendezvous) with a closed flag; a send is enabled
when the buffer has room (or, for cap 0, when a receiver takes the value in the same step), a
send on a closed channel and a second close panic (the interpreter turns the panic into an error),
a receive takes the oldest value, and on a closed and empty channel yields the zero value with ok = false.
-/
namespace Anko.Chan

/-- one channel -/
structure Ch where
  buf : List Int
  cap : Nat
  closed : Bool
  deriving DecidableEq, Repr, Inhabited

/-- results of a channel operation as the script sees them -/
inductive Res where
  | done                       -- send / close succeeded
  | val (v : Int)              -- received v (ok = true)
  | closedEmpty                -- receive on a closed and drained channel: nil, ok = false
  | block                      -- not enabled now
  | err (m : String)           -- recovered panic
  deriving DecidableEq, Repr, Inhabited

inductive Op where
  | send (v : Int) | recv | close
  deriving DecidableEq, Repr, Inhabited

/-- one operation on a buffered channel (cap ≥ 1 semantics; rendezvous is a joint step, see Pipe) -/
def Ch.step (c : Ch) : Op → Ch × Res
  | .send v =>
    if c.closed then (c, .err "send on closed channel")
    else if c.buf.length < c.cap then ({ c with buf := c.buf ++ [v] }, .done)
    else (c, .block)
  | .recv =>
    match c.buf with
    | v :: rest => ({ c with buf := rest }, .val v)
    | [] => if c.closed then (c, .closedEmpty) else (c, .block)
  | .close =>
    if c.closed then (c, .err "close of closed channel") else ({ c with closed := true }, .done)

/-- histories: what was sent successfully and what was received, in order -/
structure Hist where
  ch : Ch
  sent : List Int
  received : List Int
  deriving Repr, Inhabited

def Hist.step (h : Hist) (op : Op) : Hist × Res :=
  let r := h.ch.step op
  match op, r.2 with
  | .send v, .done => ({ h with ch := r.1, sent := h.sent ++ [v] }, r.2)
  | .recv, .val v => ({ h with ch := r.1, received := h.received ++ [v] }, r.2)
  | _, _ => ({ h with ch := r.1 }, r.2)

def Hist.run (h : Hist) : List Op → Hist
  | [] => h
  | op :: ops => ((h.step op).1).run ops

def Hist.init (cap : Nat) : Hist := ⟨⟨[], cap, false⟩, [], []⟩

/-! ### Pipelines -/

/-- a stage: a goroutine `for x in input { output <- fn(x) }; close(output)`; `input` is the
channel feeding it (part of the stage), `hold` an item received and transformed but not yet sent -/
structure Stage where
  fn : Int → Int
  buf : List Int
  cap : Nat            -- 0 = unbuffered input channel
  closed : Bool        -- input channel closed by the upstream goroutine
  hold : Option Int
  done : Bool          -- the stage has left its loop and closed its output

/-- the producer goroutine `for v in items { c <- v }; close(c)` with the items still to send;
the consumer is the last stage, whose output is the collected list `out` -/
structure Pipe where
  src : List Int
  srcDone : Bool
  stages : List Stage
  out : List Int

/-- everything still on its way, in delivery order and in the form in which it will arrive -/
def flow : List Stage → List Int → List Int
  | [], up => up
  | s :: rest, up => flow rest (s.hold.toList ++ (s.buf ++ up).map s.fn)

def Pipe.total (p : Pipe) : List Int := p.out ++ flow p.stages p.src

/-- scheduler choices: which goroutine moves, and how -/
inductive Move where
  | produce              -- producer sends its next item to stage 0 (buffered) or hands it over (unbuffered)
  | produceClose         -- producer has sent everything: closes the first channel
  | recv (i : Nat)       -- stage i takes the oldest item of its input buffer
  | send (i : Nat)       -- stage i sends its held item downstream (into stage i+1's buffer, a hand-over, or `out`)
  | finish (i : Nat)     -- stage i sees its input closed and drained: leaves the loop, closes its output
  deriving DecidableEq, Repr

/-- push a value into the input of the stage list's head; `none` when not enabled -/
def pushInto (v : Int) : List Stage → Option (List Stage)
  | [] => none
  | t :: rest =>
    if t.closed then none                                  -- never happens in a reachable state (Props.C16)
    else if t.cap = 0 then
      -- rendezvous: the receiver must be waiting in its receive
      if t.hold.isNone && t.buf.isEmpty && !t.done then some ({ t with hold := some (t.fn v) } :: rest) else none
    else if t.buf.length < t.cap then some ({ t with buf := t.buf ++ [v] } :: rest)
    else none

def closeHead : List Stage → List Stage
  | [] => []
  | t :: rest => { t with closed := true } :: rest

/-- stage-local moves at index i of the stage list; returns the new list and what reached `out` -/
def stageMove : List Stage → Nat → (Stage → List Stage → Option (Stage × List Stage × List Int)) → Option (List Stage × List Int)
  | [], _, _ => none
  | s :: rest, 0, f => (f s rest).map (fun r => (r.1 :: r.2.1, r.2.2))
  | s :: rest, i + 1, f => (stageMove rest i f).map (fun r => (s :: r.1, r.2))

def doRecv (s : Stage) (rest : List Stage) : Option (Stage × List Stage × List Int) :=
  match s.hold, s.buf with
  | none, v :: b => if s.done then none else some ({ s with hold := some (s.fn v), buf := b }, rest, [])
  | _, _ => none

def doSend (s : Stage) (rest : List Stage) : Option (Stage × List Stage × List Int) :=
  match s.hold with
  | none => none
  | some w =>
    match rest with
    | [] => some ({ s with hold := none }, [], [w])         -- the consumer appends to its result
    | _ => (pushInto w rest).map (fun r => ({ s with hold := none }, r, []))

def doFinish (s : Stage) (rest : List Stage) : Option (Stage × List Stage × List Int) :=
  if s.hold.isNone && s.buf.isEmpty && s.closed && !s.done then some ({ s with done := true }, closeHead rest, []) else none

def Pipe.step (p : Pipe) : Move → Option Pipe
  | .produce =>
    match p.src with
    | [] => none
    | v :: rest => if p.srcDone then none else (pushInto v p.stages).map (fun st => { p with src := rest, stages := st })
  | .produceClose =>
    if p.src.isEmpty && !p.srcDone then some { p with srcDone := true, stages := closeHead p.stages } else none
  | .recv i => (stageMove p.stages i doRecv).map (fun r => { p with stages := r.1, out := p.out ++ r.2 })
  | .send i => (stageMove p.stages i doSend).map (fun r => { p with stages := r.1, out := p.out ++ r.2 })
  | .finish i => (stageMove p.stages i doFinish).map (fun r => { p with stages := r.1, out := p.out ++ r.2 })

/-- run a schedule; moves that are not enabled are skipped (the scheduler picked a blocked goroutine) -/
def Pipe.run (p : Pipe) : List Move → Pipe
  | [] => p
  | m :: ms => match p.step m with
    | some p' => p'.run ms
    | none => p.run ms

def Pipe.init (items : List Int) (stages : List ((Int → Int) × Nat)) : Pipe :=
  ⟨items, false, stages.map (fun s => ⟨s.1, [], s.2, false, none, false⟩), []⟩

def Pipe.terminal (p : Pipe) : Bool := p.srcDone && p.stages.all (·.done)

/-- what the pipeline computes -/
def expected (fns : List (Int → Int)) (items : List Int) : List Int :=
  items.map (fun v => fns.foldl (fun x f => f x) v)

/-! ### `for v in c { ... }` on one channel -/

/-- `for v in c { ... }` on one channel whose other users are quiet: each round receives ONE item and hands it to the body; `stop v` says that the
body leaves the loop on item `v` (break, return, an error). Result: the channel afterwards and the items the body has seen. (runForChanStmt: one
reflect.Select per round; the loop ends when the channel is closed and drained.) -/
def rangeLoop (stop : Int → Bool) : Nat → Ch → List Int → Ch × List Int
  | 0, c, seen => (c, seen)
  | n + 1, c, seen =>
    match c.step .recv with
    | (c', .val v) => if stop v then (c', seen ++ [v]) else rangeLoop stop n c' (seen ++ [v])
    | (c', _) => (c', seen)


end Anko.Chan
