/-
Generic model of `astutil.Walk` (ast/astutil/walk.go).

A parsed program is a labelled forest in first-child / next-sibling form: every node has a
kind (the Go struct name), the name of the parent's field ("slot") it sits in, and its own
children.  `walkNode` mirrors the Go walker: present the node to the callback, look up the
`case *ast.K:` arm, then visit the children the arm lists, in the arm's order, stopping at
the first error.  The arm table is the REGENERATED `Anko.Gen.walker`; the node kinds and
their node-bearing fields are the REGENERATED `Anko.Gen.schema`.
-/
import Anko.Model.WalkTypes

namespace Anko

/-- Forest in first-child / next-sibling form. A single tree is a one-element forest. -/
inductive Forest where
  | nil
  | cons (slot kind : String) (kids rest : Forest)
  deriving Repr, Inhabited

abbrev Path := List Nat

/-- One child of a node: its index among the siblings, its slot, kind and children. -/
structure Kid where
  idx : Nat
  slot : String
  kind : String
  kids : Forest
  deriving Repr, Inhabited

namespace Forest

def indexed : Nat → Forest → List Kid
  | _, .nil => []
  | i, .cons s k ks r => ⟨i, s, k, ks⟩ :: indexed (i + 1) r

/-- Height: 0 for the empty forest, otherwise 1 + the longest root-to-leaf chain. -/
def height : Forest → Nat
  | .nil => 0
  | .cons _ _ ks r => max (ks.height + 1) r.height

/-- All node paths of a forest hanging under `p`, first sibling numbered `i` (pre-order). -/
def paths : Path → Nat → Forest → List Path
  | _, _, .nil => []
  | p, i, .cons _ _ ks r => (p ++ [i]) :: (ks.paths (p ++ [i]) 0 ++ r.paths p (i + 1))

def size : Forest → Nat
  | .nil => 0
  | .cons _ _ ks r => 1 + ks.size + r.size

end Forest

/-- Outcome of a walk. -/
inductive WRes where
  | ok
  | cbErr (p : Path)          -- the callback returned an error at node `p`
  | unknown (kind : String)   -- `default: return fmt.Errorf("unknown ...")`
  | fuel
  deriving DecidableEq, Repr, Inhabited

def interleave {α : Type} : List α → List α → List α
  | a :: as, b :: bs => a :: b :: interleave as bs
  | _, _ => []

def slotKids (s : String) (ks : List Kid) : List Kid := ks.filter (fun k => k.slot == s)

def visitOrder (ks : List Kid) : Visit → List Kid
  | .all s => slotKids s ks
  | .zip a b => interleave (slotKids a ks) (slotKids b ks)

/-- The children an arm visits, in the arm's order. -/
def childOrder (vs : List Visit) (ks : List Kid) : List Kid := vs.flatMap (visitOrder ks)

def findArm (tbl : List WalkArm) (kind : String) : Option WalkArm := tbl.find? (fun a => a.kind == kind)

/-- Visit a list of children with `f`, stopping at the first non-ok result. -/
def walkList (f : Path → String → Forest → List Path × WRes) (p : Path) : List Kid → List Path × WRes
  | [] => ([], .ok)
  | k :: rest =>
    match f (p ++ [k.idx]) k.kind k.kids with
    | (v, .ok) => ((v ++ (walkList f p rest).1), (walkList f p rest).2)
    | (v, e) => (v, e)

/-- `walkStmt` / `walkExpr` / `walkOperator` on one node at path `p`. -/
def walkNode (tbl : List WalkArm) (fails : Path → Bool) : Nat → Path → String → Forest → List Path × WRes
  | 0, _, _, _ => ([], .fuel)
  | n + 1, p, kind, kids =>
    if fails p then ([p], .cbErr p)
    else match findArm tbl kind with
      | none => ([p], .unknown kind)
      | some arm =>
        (p :: (walkList (walkNode tbl fails n) p (childOrder arm.visits (kids.indexed 0))).1,
         (walkList (walkNode tbl fails n) p (childOrder arm.visits (kids.indexed 0))).2)

/-- `Walk(root, f)`: the forest holds the single root statement. -/
def walkTop (tbl : List WalkArm) (fails : Path → Bool) (f : Forest) : List Path × WRes :=
  walkList (walkNode tbl fails (f.height)) [] (f.indexed 0)

/-! ### Well-formedness of a forest with respect to the schema and the arm table -/

def findKind (schema : List KindInfo) (kind : String) : Option KindInfo := schema.find? (fun k => k.name == kind)

def slotNames (ki : KindInfo) : List String := ki.slots.map (·.1)

/-- Node `kind` with children `kids` uses only slots the schema declares for it. -/
def nodeOk (schema : List KindInfo) (kind : String) (kids : Forest) : Bool :=
  match findKind schema kind with
  | none => false
  | some ki => (kids.indexed 0).all (fun k => (slotNames ki).contains k.slot)

def zipOkVisit (ks : List Kid) : Visit → Bool
  | .all _ => true
  | .zip a b => (slotKids a ks).length == (slotKids b ks).length

/-- Slots an arm walks pairwise hold equally many children (`MapExpr.Keys/Values`). -/
def nodeZipOk (tbl : List WalkArm) (kind : String) (kids : Forest) : Bool :=
  match findArm tbl kind with
  | none => true
  | some arm => arm.visits.all (zipOkVisit (kids.indexed 0))

def Forest.wf (schema : List KindInfo) (tbl : List WalkArm) : Forest → Bool
  | .nil => true
  | .cons _ k ks r => nodeOk schema k ks && nodeZipOk tbl k ks && ks.wf schema tbl && r.wf schema tbl

/-! ### Completeness of the arm table with respect to the schema (decidable) -/

def covers (s : String) : Visit → Bool
  | .all x => x == s
  | .zip a b => a == s || b == s

def armComplete (ki : KindInfo) (arm : WalkArm) : Bool :=
  arm.canonical && (arm.fn == ki.cat) && (slotNames ki).all (fun s => arm.visits.any (covers s))

def tableComplete (schema : List KindInfo) (tbl : List WalkArm) : Bool :=
  schema.all (fun ki => match findArm tbl ki.name with
    | none => false
    | some arm => armComplete ki arm)

/-- Parent before children: every presented path has its parent path among those presented
earlier (`seen`; the parent of a root is the empty path). -/
def parentsOk : List Path → List Path → Bool
  | _, [] => true
  | seen, x :: rest => seen.contains x.dropLast && parentsOk (x :: seen) rest

end Anko
