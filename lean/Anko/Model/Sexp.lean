/-
S-expressions for the line protocol between the Go harness and the model driver.
Atoms are whitespace-free tokens; strings travel hex-encoded (`s:48656c6c6f`).
-/
namespace Anko

inductive Sexp where
  | atom (s : String)
  | list (xs : List Sexp)
  deriving Repr, Inhabited, BEq

namespace Sexp

/-- Tokenise: parentheses are their own tokens, everything else is split on blanks. -/
def tokens (s : String) : List String :=
  let rec go (cs : List Char) (cur : List Char) (acc : List String) : List String :=
    match cs with
    | [] => (if cur.isEmpty then acc else String.ofList cur.reverse :: acc).reverse
    | c :: cs =>
      if c == '(' || c == ')' then
        let acc := if cur.isEmpty then acc else String.ofList cur.reverse :: acc
        go cs [] (String.singleton c :: acc)
      else if c == ' ' || c == '\t' || c == '\n' || c == '\r' then
        let acc := if cur.isEmpty then acc else String.ofList cur.reverse :: acc
        go cs [] acc
      else go cs (c :: cur) acc
  go s.toList [] []

/-- Stack-based total reader: `stack` holds the open lists (innermost first, reversed). -/
def parseToks : List String → List (List Sexp) → Option Sexp
  | [], [[x]] => some x
  | [], _ => none
  | "(" :: ts, stack => parseToks ts ([] :: stack)
  | ")" :: ts, cur :: parent :: rest => parseToks ts ((Sexp.list cur.reverse :: parent) :: rest)
  | ")" :: _, _ => none
  | t :: ts, cur :: rest => parseToks ts ((Sexp.atom t :: cur) :: rest)
  | _ :: _, [] => none

def parse (s : String) : Option Sexp := parseToks (tokens s) [[]]

partial def toString : Sexp → String
  | .atom s => s
  | .list xs => "(" ++ " ".intercalate (xs.map toString) ++ ")"

def hexDigit (c : Char) : Option Nat :=
  if '0' ≤ c ∧ c ≤ '9' then some (c.toNat - '0'.toNat)
  else if 'a' ≤ c ∧ c ≤ 'f' then some (c.toNat - 'a'.toNat + 10)
  else none

def unhexBytes : List Char → Option (List UInt8)
  | [] => some []
  | [_] => none
  | a :: b :: rest => do
    let x ← hexDigit a
    let y ← hexDigit b
    let r ← unhexBytes rest
    pure (UInt8.ofNat (x * 16 + y) :: r)

def hexOfNibble (n : Nat) : Char :=
  if n < 10 then Char.ofNat ('0'.toNat + n) else Char.ofNat ('a'.toNat + n - 10)

def hexBytes (bs : List UInt8) : String :=
  String.ofList (bs.flatMap (fun b => [hexOfNibble (b.toNat / 16), hexOfNibble (b.toNat % 16)]))

/-- Decode a `s:<hex>` atom into bytes. -/
def atomBytes (a : String) : Option (List UInt8) :=
  if a.startsWith "s:" then unhexBytes (a.toList.drop 2) else none

def atomNat (a : String) : Option Nat := a.toNat?
def atomInt (a : String) : Option Int := a.toInt?

end Sexp
end Anko
