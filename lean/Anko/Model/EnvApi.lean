/-
Layer B: the environment API of env/*.go as a heap of scopes.
Each `*env.Env` is an index into the heap; a scope has a parent link, a value table, a type
table and optionally the (fixed, harness-supplied) external lookup.  Operations return a
result (value / error text) and the new heap; an error must leave the heap untouched.
-/
namespace Anko.EnvApi

/-- values held in environments: plain data or a reference to another scope (a module) -/
inductive V where
  | int (n : Int)
  | env (id : Nat)
  deriving DecidableEq, Repr, Inhabited

structure Scope where
  parent : Option Nat
  values : List (String × V)
  types : List (String × String)     -- type symbol ↦ Go type string
  ext : Bool                          -- SetExternalLookup was called on this scope
  deriving DecidableEq, Repr, Inhabited

abbrev Heap := Array Scope

/-- the external lookup the harness installs -/
def extGet (name : String) : Option V :=
  if name == "ext1" then some (.int 100) else if name == "ext2" then some (.int 200) else none

def extType (name : String) : Option String :=
  if name == "extT" then some "[]string" else none

/-- `basicTypes` of env.go -/
def basicType (name : String) : Option String :=
  match name with
  | "interface" => some "interface {}"
  | "bool" => some "bool" | "string" => some "string" | "int" => some "int" | "int32" => some "int32"
  | "int64" => some "int64" | "uint" => some "uint" | "uint32" => some "uint32" | "uint64" => some "uint64"
  | "byte" => some "uint8" | "rune" => some "int32" | "float32" => some "float32" | "float64" => some "float64"
  | _ => none

def hasDot (s : String) : Bool := s.toList.contains '.'

def assocSet {β : Type} (name : String) (v : β) : List (String × β) → List (String × β)
  | [] => [(name, v)]
  | (n, x) :: rest => if n == name then (n, v) :: rest else (n, x) :: assocSet name v rest

def assocDel {β : Type} (name : String) : List (String × β) → List (String × β)
  | [] => []
  | (n, x) :: rest => if n == name then assocDel name rest else (n, x) :: assocDel name rest

inductive Res where
  | unit
  | val (v : V)
  | ty (t : String)
  | scope (id : Nat)
  | names (ns : List String)
  | err (msg : String)
  deriving DecidableEq, Repr, Inhabited

def Res.isErr : Res → Bool
  | .err _ => true
  | _ => false

/-- NewEnv on scope `p` -/
def newEnv (h : Heap) (p : Nat) : Res × Heap :=
  if p < h.size then (.scope h.size, h.push ⟨some p, [], [], false⟩) else (.err "bad scope", h)

def modScope (h : Heap) (i : Nat) (f : Scope → Scope) : Heap :=
  if hi : i < h.size then h.set i (f h[i]) else h

/-- DefineValue -/
def define (h : Heap) (i : Nat) (name : String) (v : V) : Res × Heap :=
  if hasDot name then (.err "symbol contains '.'", h)
  else if i < h.size then (.unit, modScope h i (fun s => { s with values := assocSet name v s.values }))
  else (.err "bad scope", h)

def rootOf (h : Heap) : Nat → Nat → Nat
  | 0, i => i
  | fuel + 1, i => match h[i]? with
    | some s => (match s.parent with | some p => rootOf h fuel p | none => i)
    | none => i

def defineGlobal (h : Heap) (i : Nat) (name : String) (v : V) : Res × Heap :=
  define h (rootOf h h.size i) name v

/-- NewModule: child scope, defined under `name` in the parent. A dotted name fails; the Go code
still returns the orphan scope together with the error (it is unreachable) -/
def newModule (h : Heap) (p : Nat) (name : String) : Res × Heap :=
  if hasDot name then (.err "symbol contains '.'", h)
  else if p < h.size then
    let h1 := h.push ⟨some p, [], [], false⟩
    (.scope h.size, modScope h1 p (fun s => { s with values := assocSet name (.env h.size) s.values }))
  else (.err "bad scope", h)

/-- the scope, searched upward from `i`, whose own value table binds `name` (SetValue / DeleteGlobal) -/
def ownerOf (h : Heap) : Nat → Nat → String → Option Nat
  | 0, _, _ => none
  | fuel + 1, i, name => match h[i]? with
    | some s => if (s.values.lookup name).isSome then some i
      else (match s.parent with | some p => ownerOf h fuel p name | none => none)
    | none => none

/-- SetValue -/
def set (h : Heap) (i : Nat) (name : String) (v : V) : Res × Heap :=
  match ownerOf h (h.size + 1) i name with
  | some j => (.unit, modScope h j (fun s => { s with values := assocSet name v s.values }))
  | none => (.err ("undefined symbol '" ++ name ++ "'"), h)

/-- GetValue: own table, then this scope's external lookup, then the parent -/
def get (h : Heap) : Nat → Nat → String → Res
  | 0, _, name => .err ("undefined symbol '" ++ name ++ "'")
  | fuel + 1, i, name => match h[i]? with
    | some s => match s.values.lookup name with
      | some v => .val v
      | none =>
        match (if s.ext then extGet name else none) with
        | some v => .val v
        | none => match s.parent with
          | some p => get h fuel p name
          | none => .err ("undefined symbol '" ++ name ++ "'")
    | none => .err ("undefined symbol '" ++ name ++ "'")

/-- Delete (current scope only; never fails) -/
def delete (h : Heap) (i : Nat) (name : String) : Res × Heap :=
  (.unit, modScope h i (fun s => { s with values := assocDel name s.values }))

/-- DeleteGlobal: at the root, or in the nearest scope that binds the name -/
def deleteGlobal (h : Heap) : Nat → Nat → String → Res × Heap
  | 0, _, _ => (.unit, h)
  | fuel + 1, i, name => match h[i]? with
    | some s => (match s.parent with
      | none => delete h i name
      | some p => if (s.values.lookup name).isSome then delete h i name else deleteGlobal h fuel p name)
    | none => (.unit, h)

def defineType (h : Heap) (i : Nat) (name : String) (t : String) : Res × Heap :=
  if hasDot name then (.err "symbol contains '.'", h)
  else if i < h.size then (.unit, modScope h i (fun s => { s with types := assocSet name t s.types }))
  else (.err "bad scope", h)

def defineGlobalType (h : Heap) (i : Nat) (name : String) (t : String) : Res × Heap :=
  defineType h (rootOf h h.size i) name t

/-- Type: own table, external lookup, parent; built-in type names at the root last -/
def typeOf (h : Heap) : Nat → Nat → String → Res
  | 0, _, name => .err ("undefined type '" ++ name ++ "'")
  | fuel + 1, i, name => match h[i]? with
    | some s => match s.types.lookup name with
      | some t => .ty t
      | none =>
        match (if s.ext then extType name else none) with
        | some t => .ty t
        | none => match s.parent with
          | some p => typeOf h fuel p name
          | none => match basicType name with
            | some t => .ty t
            | none => .err ("undefined type '" ++ name ++ "'")
    | none => .err ("undefined type '" ++ name ++ "'")

/-- first element of GetEnvFromPath: walk up until a scope binds it to a module -/
def pathStart (h : Heap) : Nat → Nat → String → Res
  | 0, _, name => .err ("no namespace called: " ++ name)
  | fuel + 1, i, name => match h[i]? with
    | some s =>
      (match s.values.lookup name with
       | some (.env m) => .scope m
       | _ => match s.parent with
         | some p => pathStart h fuel p name
         | none => .err ("no namespace called: " ++ name))
    | none => .err ("no namespace called: " ++ name)

/-- remaining elements: direct children only -/
def pathRest (h : Heap) (i : Nat) : List String → Res
  | [] => .scope i
  | name :: rest => match h[i]? with
    | some s => (match s.values.lookup name with
      | some (.env m) => pathRest h m rest
      | _ => .err ("no namespace called: " ++ name))
    | none => .err ("no namespace called: " ++ name)

def envFromPath (h : Heap) (i : Nat) (path : List String) : Res :=
  match path with
  | [] => .scope i
  | first :: rest => match pathStart h (h.size + 1) i first with
    | .scope m => pathRest h m rest
    | r => r

/-- Copy: a new scope with the same parent and external lookup and copies of both tables -/
def copy (h : Heap) (i : Nat) : Res × Heap :=
  match h[i]? with
  | some s => (.scope h.size, h.push s)
  | none => (.err "bad scope", h)

/-- DeepCopy: copy the scope, then (recursively) its parent chain, relinking the copies -/
def deepCopy (h : Heap) : Nat → Nat → Res × Heap
  | 0, _ => (.err "fuel", h)
  | fuel + 1, i => match h[i]? with
    | some s =>
      let me := h.size
      let h1 := h.push s
      (match s.parent with
       | none => (.scope me, h1)
       | some p => match deepCopy h1 fuel p with
         | (.scope pc, h2) => (.scope me, modScope h2 me (fun sc => { sc with parent := some pc }))
         | (r, h2) => (r, h2))
    | none => (.err "bad scope", h)

def valueSymbols (h : Heap) (i : Nat) : Res :=
  match h[i]? with
  | some s => .names (s.values.map (·.1))
  | none => .err "bad scope"

def typeSymbols (h : Heap) (i : Nat) : Res :=
  match h[i]? with
  | some s => .names (s.types.map (·.1))
  | none => .err "bad scope"

def setExt (h : Heap) (i : Nat) (on : Bool) : Res × Heap :=
  (.unit, modScope h i (fun s => { s with ext := on }))

/-- Addr: values held in environments are never addressable; only the error behaviour is modelled -/
def addr (h : Heap) : Nat → Nat → String → Res
  | 0, _, name => .err ("undefined symbol '" ++ name ++ "'")
  | fuel + 1, i, name => match h[i]? with
    | some s => match s.values.lookup name with
      | some _ => .err "unaddressable"
      | none =>
        match (if s.ext then extGet name else none) with
        | some _ => .err "unaddressable"
        | none => match s.parent with
          | some p => addr h fuel p name
          | none => .err ("undefined symbol '" ++ name ++ "'")
    | none => .err ("undefined symbol '" ++ name ++ "'")

/-- one API call -/
inductive Op where
  | newEnv (p : Nat) | newModule (p : Nat) (name : String)
  | define (i : Nat) (name : String) (v : V) | defineGlobal (i : Nat) (name : String) (v : V)
  | set (i : Nat) (name : String) (v : V) | get (i : Nat) (name : String)
  | delete (i : Nat) (name : String) | deleteGlobal (i : Nat) (name : String)
  | defineType (i : Nat) (name : String) (t : String) | defineGlobalType (i : Nat) (name : String) (t : String)
  | typeOf (i : Nat) (name : String)
  | path (i : Nat) (p : List String)
  | copy (i : Nat) | deepCopy (i : Nat)
  | valueSymbols (i : Nat) | typeSymbols (i : Nat)
  | setExt (i : Nat) (on : Bool)
  | addr (i : Nat) (name : String)
  deriving Repr, Inhabited

def step (h : Heap) : Op → Res × Heap
  | .newEnv p => newEnv h p
  | .newModule p n => newModule h p n
  | .define i n v => define h i n v
  | .defineGlobal i n v => defineGlobal h i n v
  | .set i n v => set h i n v
  | .get i n => (get h (h.size + 1) i n, h)
  | .delete i n => delete h i n
  | .deleteGlobal i n => deleteGlobal h (h.size + 1) i n
  | .defineType i n t => defineType h i n t
  | .defineGlobalType i n t => defineGlobalType h i n t
  | .typeOf i n => (typeOf h (h.size + 1) i n, h)
  | .path i p => (envFromPath h i p, h)
  | .copy i => copy h i
  | .deepCopy i => deepCopy h (h.size + 1) i
  | .valueSymbols i => (valueSymbols h i, h)
  | .typeSymbols i => (typeSymbols h i, h)
  | .setExt i on => setExt h i on
  | .addr i n => (addr h (h.size + 1) i n, h)

def init : Heap := #[⟨none, [], [], false⟩]

/-- run a history, collecting the results -/
def run : Heap → List Op → List Res × Heap
  | h, [] => ([], h)
  | h, op :: ops =>
    let r := step h op
    let rest := run r.2 ops
    (r.1 :: rest.1, rest.2)

end Anko.EnvApi
