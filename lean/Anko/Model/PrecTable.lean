/-
The binding powers the REGENERATED precedence declarations (Anko.Gen.Prec) give every operator
spelling, packaged as a `Pratt.Tbl`.
-/
import Anko.Model.Pratt
import Anko.Gen.Prec

namespace Anko.PrecTable
open Anko.Pratt

def levelOf (o : String) : Nat := (Gen.precLevels.findIdx? (fun l => l.2.contains o)).getD 0
def rightAt (l : Nat) : Bool := ((Gen.precLevels[l]?).map (·.1)).getD false

theorem levelOf_lt (o : String) : levelOf o < Gen.precLevels.length ∨ levelOf o = 0 := by
  unfold levelOf
  cases h : Gen.precLevels.findIdx? (fun l => l.2.contains o) with
  | none => right; rfl
  | some i =>
    left
    have := List.findIdx?_eq_some_iff_getElem.mp h
    exact this.1

/-- the declarations end with the pseudo-token of the prefix operators: nothing binds tighter -/
theorem unary_is_last : levelOf "UNARY" + 1 = Gen.precLevels.length := by decide

/-- the binding powers the grammar file gives every operator spelling; prefix operators
(`%prec UNARY`) sit above every declared level, postfix forms (no declared precedence: the
generated parser always shifts `(`, `[` and `.`) above those -/
def genTbl : Tbl where
  lbp o := 2 * levelOf o
  rbp o := 2 * levelOf o + (if rightAt (levelOf o) then 0 else 1)
  ubp := 2 * levelOf "UNARY" + 1
  post := 2 * levelOf "UNARY" + 2
  assoc o := by
    by_cases h : rightAt (levelOf o) = true
    · left; simp [h]
    · right; simp [h]
  level o q h := by
    have : levelOf o = levelOf q := by omega
    simp [this]
  unary_tightest o := by
    have h1 := levelOf_lt o
    have h2 := unary_is_last
    omega
  postfix_tightest := by omega

end Anko.PrecTable
