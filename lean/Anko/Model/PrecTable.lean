/-
The binding powers the REGENERATED precedence declarations (Anko.Gen.Prec) give every operator
spelling, packaged as a `Pratt.Tbl`.
-/
import Anko.Model.Pratt
import Anko.Gen.Prec

namespace Anko.PrecTable
open Anko.Pratt

def levelOf (o : String) : Nat := (Gen.precLevels.findIdx? (fun l => l.2.contains o)).getD 0
def rightAt (l : Nat) : Bool := ((Gen.precLevels[l]?).map (·.1)).getD false

/-- the binding powers the grammar file gives every operator spelling -/
def genTbl : Tbl where
  lbp o := 2 * levelOf o
  rbp o := 2 * levelOf o + (if rightAt (levelOf o) then 0 else 1)
  assoc o := by
    by_cases h : rightAt (levelOf o) = true
    · left; simp [h]
    · right; simp [h]
  level o q h := by
    have : levelOf o = levelOf q := by omega
    simp [this]

end Anko.PrecTable
