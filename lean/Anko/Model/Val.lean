/-
Value universe of the model (fragment F0) and the abstract float interface.

Floats are carried as IEEE-754 binary64 bit patterns; the operations on them are the
fields of the class `FOps`.  Lean's own `Float` is opaque to the kernel, so theorems
quantify over an arbitrary `FOps` (with explicit lawfulness hypotheses where they need
one) and the driver instantiates it with `Float` (Driver.lean).
-/
namespace Anko

abbrev Bytes := List UInt8

def strBytes (s : String) : Bytes := s.toUTF8.toList

abbrev I64 := BitVec 64

/-- Abstract float64 operations on bit patterns. `fmt`/`parse` are partial: `none` means
"outside the part of strconv the model specifies" (the driver then answers `unsupported`). -/
class FOps where
  add : I64 → I64 → I64
  sub : I64 → I64 → I64
  mul : I64 → I64 → I64
  div : I64 → I64 → I64
  neg : I64 → I64
  lt : I64 → I64 → Bool
  le : I64 → I64 → Bool
  eq : I64 → I64 → Bool
  ofInt : I64 → I64            -- float64(int64)
  toInt : I64 → Option I64     -- int64(float64); none = outside the exactly specified range
  fmt : I64 → Option Bytes     -- fmt.Sprint(float64)
  parse : Bytes → Option (Option I64)  -- strconv.ParseFloat: some none = error, none = unspecified

inductive Val where
  | nil
  | bool (b : Bool)
  | int (i : I64)
  | float (f : I64)
  | str (s : Bytes)
  | list (xs : List Val)
  | map (kvs : List (Val × Val))
  | fn (id : Nat)
  | gofn (name : String)
  | err (msg : String)
  | env (id : Nat)
  deriving Repr, Inhabited

/-- A value as the interpreter holds it: `ity` = the reflect.Value has static type
interface{} (it came out of a slice element, a map entry, a Go function declared to return
interface{}, ...) and must be unwrapped before its kind is inspected. -/
structure RV where
  ity : Bool
  v : Val
  deriving Repr, Inhabited

/-- The provenance policy: the flag carried by values handed out by containers (slice elements, map
entries, for-in variables) and by Go functions declared to return interface{}.  The real
interpreter is the instance `wrap := true`; C20 proves that the flag-free reading `wrap := false`
is indistinguishable from it. -/
class Prov where
  wrap : Bool

def RV.plain (v : Val) : RV := ⟨false, v⟩
def RV.wrap (v : Val) : RV := ⟨true, v⟩

/-- reflect.Kind as far as the model needs it. -/
inductive Kind where
  | invalid | iface | bool | int64 | float64 | string | slice | map | func | ptr | struct
  deriving DecidableEq, Repr, Inhabited

def Kind.name : Kind → String
  | .invalid => "invalid" | .iface => "interface" | .bool => "bool" | .int64 => "int64"
  | .float64 => "float64" | .string => "string" | .slice => "slice" | .map => "map"
  | .func => "func" | .ptr => "ptr" | .struct => "struct"

/-- Kind of an unwrapped value. `nil` is the nil interface value (Kind Interface, IsNil). -/
def Val.kind : Val → Kind
  | .nil => .iface
  | .bool _ => .bool
  | .int _ => .int64
  | .float _ => .float64
  | .str _ => .string
  | .list _ => .slice
  | .map _ => .map
  | .fn _ => .func
  | .gofn _ => .func
  | .err _ => .ptr
  | .env _ => .ptr

/-- `rv.Kind()` as the Go code sees it before unwrapping. -/
def RV.kind (r : RV) : Kind := if r.ity then .iface else r.v.kind

/-- The ubiquitous idiom `if rv.Kind() == Interface && !rv.IsNil() { rv = rv.Elem() }`. -/
def RV.unwrap (r : RV) : RV := ⟨false, r.v⟩

end Anko
