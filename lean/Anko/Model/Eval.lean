/-
Layer D: fuel-indexed big-step model of the interpreter (vm/vmStmt.go, vm/vmExpr.go,
vm/vmOperator.go, vm/vmExprFunction.go, vm/vmLetExpr.go) on fragment F0.

The functions mirror their Go namesakes branch by branch and operate on the state `St`,
whose `cur / rv / err / defers` fields are the registers of the current `runInfoStruct`
and whose `scopes / closures / trace / polls` are shared.  One unit of fuel is spent per
nested call of a model function, so the definitions are structurally recursive on fuel;
running out of fuel marks the run `unsup "fuel"` (never compared, never a wrong answer).
-/
import Anko.Model.State
import Anko.Model.BinOp

namespace Anko
variable [FOps] [Prov]

/-! ### Go function stubs bound by the harness -/

inductive Ty where
  | iface | int64
  deriving DecidableEq, Repr, Inhabited

structure GoSig where
  fixed : List Ty            -- fixed parameters
  variadic : Option Ty       -- element type of the variadic tail
  deriving Inhabited

def goSig : String → Option GoSig
  | "probe" => some ⟨[.iface], none⟩
  | "id" => some ⟨[.iface], none⟩
  | "probe2" => some ⟨[.iface, .iface], none⟩
  | "probe3" => some ⟨[.iface, .iface, .iface], none⟩
  | "vprobe" => some ⟨[], some .iface⟩
  | "fv" => some ⟨[.iface], some .iface⟩
  | "typed" => some ⟨[.int64], none⟩
  | "typed2" => some ⟨[.iface, .int64], none⟩
  | "vtyped" => some ⟨[], some .int64⟩
  | "boom" => some ⟨[], none⟩
  | "zero" => some ⟨[], none⟩
  | "two" => some ⟨[], none⟩
  | _ => none

def typeName (v : Val) : String :=
  match v with
  | .nil => "interface {}"
  | .bool _ => "bool"
  | .int _ => "int64"
  | .float _ => "float64"
  | .str _ => "string"
  | .list _ => "[]interface {}"
  | .map _ => "map[interface {}]interface {}"
  | _ => "?"

/-- `rv.Type().String()` of an operand as held by the interpreter -/
def rvTypeName (r : RV) : String := if r.ity then "interface {}" else typeName r.v

/-- convertReflectValueToType(rv, T) for the stub parameter types. `none` = unspecified. -/
def convertTo (r : RV) : Ty → Option (Except String RV)
  | .iface => some (.ok r)
  | .int64 =>
    match r.v with
    | .int i => some (.ok ⟨false, .int i⟩)
    | .float f => (FOps.toInt f).map (fun i => .ok ⟨false, .int i⟩)
    | .nil => some (.ok ⟨false, .int 0⟩)
    | _ => some (.error "invalid type conversion")

/-- What a stub does with its (converted) arguments: values appended to the trace, result. -/
def goRun (name : String) (args : List RV) : List Val × Except String RV :=
  let vs := args.map (·.v)
  match name with
  | "probe" => (vs, .ok ⟨Prov.wrap, vs.headD .nil⟩)
  | "id" => ([], .ok ⟨Prov.wrap, vs.headD .nil⟩)
  | "probe2" => (vs, .ok ⟨Prov.wrap, vs.headD .nil⟩)
  | "probe3" => (vs, .ok ⟨Prov.wrap, vs.headD .nil⟩)
  | "vprobe" => (vs, .ok ⟨false, .int (BitVec.ofNat 64 vs.length)⟩)
  | "fv" => (vs, .ok ⟨Prov.wrap, vs.headD .nil⟩)
  | "typed" => (vs, .ok ⟨false, vs.headD .nil⟩)
  | "typed2" => (vs, .ok ⟨false, (vs.drop 1).headD .nil⟩)
  | "vtyped" => (vs, .ok ⟨false, .int (BitVec.ofNat 64 vs.length)⟩)
  | "boom" => ([], .error "boom")
  | "zero" => ([], .ok nilRV)
  | "two" => ([], .ok ⟨false, .list [.int 1, .str (strBytes "two")]⟩)
  | _ => ([], .error "unknown stub")

/-! ### small pure helpers -/

def isNilRV (r : RV) : Bool := match r.v with | .nil => true | _ => false

/-- `tryToInt` on an operand (handles the interface wrapper itself). `none` = unspecified. -/
def tryToIntRV (r : RV) : Option (Option Int) :=
  (tryToInt64 r.v).map (fun o => o.map (fun i => i.toInt))

def toBoolRV (r : RV) : Option Bool := toBool r.v

/-- Convert one byte to the string Go's `string(rune(b))` gives. -/
def byteToStr (b : UInt8) : Bytes :=
  if b < 128 then [b] else [(192 : UInt8) ||| (b >>> 6), (128 : UInt8) ||| (b &&& 63)]

def isHashableV : Val → Bool
  | .list _ => false
  | .map _ => false
  | .fn _ => false
  | .gofn _ => false
  | _ => true

def mapInsert (k v : Val) : List (Val × Val) → List (Val × Val)
  | [] => [(k, v)]
  | (k', v') :: rest => if keyEq k k' then (k', v) :: rest else (k', v') :: mapInsert k v rest

/-- getMapIndex on an untyped map: missing / unhashable key gives nil; a hit is unwrapped. -/
def getMapIndex (key : Val) (m : List (Val × Val)) : RV :=
  if !isHashableV key then nilRV
  else match mapLookup key m with
    | some v => ⟨false, v⟩
    | none => nilRV

/-- element `i` of a `[]interface{}`: an interface-typed operand -/
def elemRV (v : Val) : RV := ⟨Prov.wrap, v⟩

def opRes (s : St) (r : OpRes) : St :=
  match r with
  | .ok v => { s with rv := ⟨false, v⟩ }
  | .err m => s.fail m
  | .unsupported => s.markUnsup "operator outside the specified part"

def outOfFuel (s : St) : St := s.markUnsup "fuel"

/-- argument-count short circuit of makeCallArgs -/
def arityBad (variadic callVarArg : Bool) (numIn numExprs : Nat) : Bool :=
  (!variadic && !callVarArg && numIn != numExprs) ||
  (variadic && callVarArg && (numIn < numExprs || numIn > numExprs + 1)) ||
  (variadic && !callVarArg && numIn > numExprs + 1) ||
  (!variadic && callVarArg && numIn < numExprs)

/-- callee description for makeCallArgs -/
structure Callee where
  isVM : Bool
  numIn : Nat                -- parameters without the context
  variadic : Bool
  paramTy : Nat → Ty         -- Go stubs: type of fixed parameter i / of the variadic element

def calleeOf (s : St) (f : Val) : Option Callee :=
  match f with
  | .fn id => (s.closures[id]?).map (fun c => ⟨true, c.params.length, c.vararg, fun _ => .iface⟩)
  | .gofn name => (goSig name).map (fun g =>
      ⟨false, g.fixed.length + (if g.variadic.isSome then 1 else 0), g.variadic.isSome,
       fun i => (g.fixed[i]?).getD (g.variadic.getD .iface)⟩)
  | _ => none

def tyName : Ty → String
  | .iface => "interface {}"
  | .int64 => "int64"

/-- the spread elements of `f(xs...)` handed to fixed parameters `i, i+1, ...`:
a VM function receives the (interface-typed) elements, a Go function their conversions -/
def convertArgs (cal : Callee) : List Val → Nat → St → Option (List RV) × St
  | [], _, s => (some [], s)
  | x :: xs, i, s =>
    if cal.isVM then
      match convertArgs cal xs (i + 1) s with
      | (some r, s') => (some (elemRV x :: r), s')
      | (none, s') => (none, s')
    else
      match convertTo (elemRV x) (cal.paramTy i) with
      | none => (none, s.markUnsup "conversion")
      | some (.error _) =>
        if typeName x == "?" then (none, s.markUnsup "type name of a function value") else
        (none, s.fail ("function wants argument type " ++ tyName (cal.paramTy i) ++ " but received type " ++ typeName x))
      | some (.ok a) =>
        match convertArgs cal xs (i + 1) { s with rv := a } with
        | (some r, s') => (some (a :: r), s')
        | (none, s') => (none, s')

/-- `f(xs...)` on a fixed-arity function once the spread operand `s2.rv` is evaluated -/
def spreadFixed (cal : Callee) (nLead numExprs : Nat) (lead : List RV) (s2 : St) : (List RV × Bool) × St :=
  match s2.rv.v with
  | .list xs =>
    if xs.length < cal.numIn - nLead then
      (([], false), s2.fail ("function wants " ++ toString cal.numIn ++ " arguments but received " ++ toString (numExprs + xs.length - 1)))
    else
      (match convertArgs cal (xs.take (cal.numIn - nLead)) nLead s2 with
       | (some as, s3) => ((lead ++ as, false), s3)
       | (none, s3) => (([], false), s3))
  | v => if typeName v == "?" then (([], false), s2.markUnsup "type name of a function value") else
    (([], false), s2.fail ("call is variadic but last parameter is of type " ++ typeName v))

/-- `f(xs...)` on a variadic function once the spread operand `s2.rv` is evaluated (CallSlice) -/
def spreadVariadic (lead : List RV) (s2 : St) : (List RV × Bool) × St :=
  match s2.rv.v with
  | .list xs => ((lead ++ [⟨false, .list xs⟩], true), s2)
  | .nil => ((lead ++ [⟨false, .list []⟩], true), s2)      -- nil converts to the zero (nil) slice
  | v => if typeName v == "?" then (([], false), s2.markUnsup "type name of a function value") else
    (([], false), s2.fail ("function wants argument type []interface {} but received type " ++ typeName v))

/-- the argument list a Go function receives: CallSlice hands the spread slice over as the variadic tail -/
def flatArgs (callSlice : Bool) (args : List RV) : List RV :=
  if callSlice then
    (match args.getLast? with
     | some ⟨_, .list xs⟩ => args.dropLast ++ xs.map elemRV
     | _ => args)
  else args

/-- range checks and result of a two-index slice (three-index slices are outside F0) -/
def sliceResult (item : Val) (len : Nat) (bi ei : Int) (hasCap : Bool) (s : St) : St :=
  if ei > len then s.fail "index out of range"
  else if bi > ei then s.fail "index out of range"
  else if hasCap then
    (match item with
     | .str _ => s.fail "type string does not support cap"
     | _ => s.markUnsup "three-index slice")
  else
    (match item with
     | .list xs => { s with rv := ⟨false, .list ((xs.drop bi.toNat).take (ei.toNat - bi.toNat))⟩ }
     | .str bs => { s with rv := ⟨false, .str ((bs.drop bi.toNat).take (ei.toNat - bi.toNat))⟩ }
     | _ => s)

mutual

/-- invokeExpr -/
def evalExpr : Nat → Expr → St → St
  | 0, _, s => outOfFuel s
  | n + 1, e, s =>
    match e with
    | .lit v => { s with rv := ⟨false, v⟩ }
    | .ident name =>
      (match s.getValue s.cur name with
       | some v => { s with rv := v }
       | none => { s with rv := nilRV, err := some (.error ("undefined symbol '" ++ name ++ "'")) })
    | .paren e => evalExpr n e s
    | .op o l r =>
      if o == "&&" || o == "||" then
        -- invokeBinaryOperator
        let s1 := evalExpr n l s
        if s1.err.isSome then s1 else
        match toBoolRV s1.rv with
        | none => s1.markUnsup "toBool"
        | some lb =>
          if o == "||" && lb then { s1 with rv := ⟨false, .bool true⟩ }
          else if o == "&&" && !lb then { s1 with rv := ⟨false, .bool false⟩ }
          else
            let s2 := evalExpr n r s1
            if s2.err.isSome then s2 else
            match toBoolRV s2.rv with
            | none => s2.markUnsup "toBool"
            | some rb => { s2 with rv := ⟨false, .bool rb⟩ }
      else
        -- comparison / add / multiply operators: both operands, left first
        let s1 := evalExpr n l s
        if s1.err.isSome then s1 else
        let lhs := s1.rv
        let s2 := evalExpr n r s1
        if s2.err.isSome then s2 else
        opRes s2 (binop o lhs s2.rv)
    | .unary o e =>
      let s1 := evalExpr n e s
      if s1.err.isSome then s1 else opRes s1 (unop o s1.rv)
    | .ternary c t f =>
      let s1 := evalExpr n c s
      if s1.err.isSome then s1 else
      (match toBoolRV s1.rv with
       | none => s1.markUnsup "toBool"
       | some true => evalExpr n t s1
       | some false => evalExpr n f s1)
    | .nilco l r =>
      let s1 := evalExpr n l s
      if s1.err.isNone then
        if !isNilRV s1.rv then s1 else evalExpr n r s1
      else
        -- an interrupted left side must not be swallowed: poll the context
        let pr1 := s1.poll
        let c := pr1.1
        let s2 := pr1.2
        if c then { s2 with rv := nilRV, err := some .interrupt }
        else evalExpr n r { s2 with err := none }
    | .array es =>
      let pr2 := evalList n es s
      let vs := pr2.1
      let s1 := pr2.2
      if s1.err.isSome then s1 else { s1 with rv := ⟨false, .list (vs.map (·.v))⟩ }
    | .mapLit ks vs => evalMapLit n ks vs [] s
    | .item x i =>
      let s1 := evalExpr n x s
      if s1.err.isSome then s1 else
      let item := s1.rv
      let s2 := evalExpr n i s1
      if s2.err.isSome then s2 else
      (match item.v with
       | .list xs =>
         (match tryToIntRV s2.rv with
          | none => s2.markUnsup "index conversion"
          | some none => s2.fail "index must be a number"
          | some (some idx) =>
            if idx < 0 || idx ≥ xs.length then s2.fail "index out of range"
            else { s2 with rv := elemRV (xs.getD idx.toNat .nil) })
       | .str bs =>
         (match tryToIntRV s2.rv with
          | none => s2.markUnsup "index conversion"
          | some none => s2.fail "index must be a number"
          | some (some idx) =>
            if idx < 0 || idx ≥ bs.length then s2.fail "index out of range"
            else { s2 with rv := ⟨false, .str (byteToStr (bs.getD idx.toNat 0))⟩ })
       | .map m => { s2 with rv := getMapIndex s2.rv.v m }
       | v => s2.fail ("type " ++ v.kind.name ++ " does not support index operation"))
    | .slice x b e c =>
      let s1 := evalExpr n x s
      if s1.err.isSome then s1 else
      (match s1.rv.v with
       | .list xs => sliceBegin n (.list xs) xs.length b e c.isSome s1
       | .str bs => sliceBegin n (.str bs) bs.length b e c.isSome s1
       | v => s1.fail ("type " ++ v.kind.name ++ " does not support slice operation"))
    | .len e =>
      let s1 := evalExpr n e s
      if s1.err.isSome then s1 else
      (match s1.rv.v with
       | .list xs => { s1 with rv := ⟨false, .int (BitVec.ofNat 64 xs.length)⟩ }
       | .map m => { s1 with rv := ⟨false, .int (BitVec.ofNat 64 m.length)⟩ }
       | .str bs => { s1 with rv := ⟨false, .int (BitVec.ofNat 64 bs.length)⟩ }
       | v => s1.fail ("type " ++ v.kind.name ++ " does not support len operation"))
    | .incl it l =>
      let s1 := evalExpr n it s
      if s1.err.isSome then s1 else
      let item := s1.rv
      let s2 := evalExpr n l s1
      if s2.err.isSome then s2 else opRes s2 (inOp item s2.rv)
    | .letsx lhss rhss => evalLetsx n lhss rhss 0 s
    | .func name params vararg body =>
      let pr3 := s.addClosure ⟨name, params, vararg, body, s.cur⟩
      let id := pr3.1
      let s1 := pr3.2
      let s2 := { s1 with rv := ⟨false, .fn id⟩ }
      if name != "" then { s2.define s2.cur name ⟨false, .fn id⟩ with rv := ⟨false, .fn id⟩ } else s2
    | .call name args va go =>
      if go then s.markUnsup "go" else
      (match s.getValue s.cur name with
       | none => { s with rv := nilRV, err := some (.error ("undefined symbol '" ++ name ++ "'")) }
       | some f => callValue n f.v args va s)
    | .anonCall fe args va go =>
      if go then s.markUnsup "go" else
      let s1 := evalExpr n fe s
      if s1.err.isSome then s1 else
      callValue n s1.rv.v args va s1
    | .member e name =>
      let s1 := evalExpr n e s
      if s1.err.isSome then s1 else
      (match s1.rv.v with
       | .env id =>
         (match s1.getValue id name with
          | some v => { s1 with rv := v }
          | none => { s1 with rv := nilRV, err := some (.error ("undefined symbol '" ++ name ++ "'")) })
       | .map m => { s1 with rv := getMapIndex (.str (strBytes name)) m }
       | .err _ => s1.markUnsup "method call on error value"
       | v => s1.fail ("type " ++ v.kind.name ++ " does not support member operation"))
    | .unsupported k => s.markUnsup k

/-- invokeSliceExpr after the operand: the begin index -/
def sliceBegin : Nat → Val → Nat → Option Expr → Option Expr → Bool → St → St
  | 0, _, _, _, _, _, s => outOfFuel s
  | n + 1, item, len, b, e, hasCap, s1 =>
    if (evalIndexOpt n b 0 s1).2.err.isSome then (evalIndexOpt n b 0 s1).2 else
    match (evalIndexOpt n b 0 s1).1 with
    | none => (evalIndexOpt n b 0 s1).2.markUnsup "index conversion"
    | some none => (evalIndexOpt n b 0 s1).2.fail "index must be a number"
    | some (some bi) =>
      if bi < 0 then (evalIndexOpt n b 0 s1).2.fail "index out of range"
      else sliceEnd n item len bi e hasCap (evalIndexOpt n b 0 s1).2

/-- invokeSliceExpr: the end index, the range checks and the result -/
def sliceEnd : Nat → Val → Nat → Int → Option Expr → Bool → St → St
  | 0, _, _, _, _, _, s => outOfFuel s
  | n + 1, item, len, bi, e, hasCap, s2 =>
    if (evalIndexOpt n e (len : Int) s2).2.err.isSome then (evalIndexOpt n e (len : Int) s2).2 else
    match (evalIndexOpt n e (len : Int) s2).1 with
    | none => (evalIndexOpt n e (len : Int) s2).2.markUnsup "index conversion"
    | some none => (evalIndexOpt n e (len : Int) s2).2.fail "index must be a number"
    | some (some ei) => sliceResult item len bi ei hasCap (evalIndexOpt n e (len : Int) s2).2

/-- an optional slice bound: absent = the default, present = tryToInt of its value -/
def evalIndexOpt : Nat → Option Expr → Int → St → Option (Option Int) × St
  | 0, _, _, s => (none, outOfFuel s)
  | _ + 1, none, d, s => (some (some d), s)
  | n + 1, some e, _, s => (tryToIntRV (evalExpr n e s).rv, evalExpr n e s)

/-- an optional loop condition: absent = true; evaluated, an error counts as "stop" -/
def evalCond : Nat → Option Expr → St → Option Bool × St
  | 0, _, s => (none, outOfFuel s)
  | _ + 1, none, s => (some true, s)
  | n + 1, some e, s =>
    ((if (evalExpr n e s).err.isSome then some false else toBoolRV (evalExpr n e s).rv), evalExpr n e s)

/-- evaluate expressions left to right, stop at the first error -/
def evalList : Nat → List Expr → St → List RV × St
  | 0, _, s => ([], outOfFuel s)
  | _, [], s => ([], s)
  | n + 1, e :: es, s =>
    let s1 := evalExpr n e s
    if s1.err.isSome then ([], s1) else
    let pr4 := evalList n es s1
    let vs := pr4.1
    let s2 := pr4.2
    (s1.rv :: vs, s2)

/-- untyped map literal: key_i then value_i, in order -/
def evalMapLit : Nat → List Expr → List Expr → List (Val × Val) → St → St
  | 0, _, _, _, s => outOfFuel s
  | _, [], _, acc, s => { s with rv := ⟨false, .map acc⟩ }
  | n + 1, k :: ks, vs, acc, s =>
    let s1 := evalExpr n k s
    if s1.err.isSome then s1 else
    let key := s1.rv.v
    if !isHashableV key then
      (match key with
       | .list _ | .map _ => s1.fail ("type " ++ typeName key ++ " cannot be used as map key")
       | _ => s1.markUnsup "function as map key")
    else
      match vs with
      | [] => s1.markUnsup "map literal without value"
      | v :: vs' =>
        let s2 := evalExpr n v s1
        if s2.err.isSome then s2 else
        evalMapLit n ks vs' (mapInsert key s2.rv.v acc) s2

/-- invokeLetsExpr (`x++`, `x += e`): for each right side, evaluate, unwrap, assign -/
def evalLetsx : Nat → List Expr → List Expr → Nat → St → St
  | 0, _, _, _, s => outOfFuel s
  | _, _, [], _, s => s
  | n + 1, lhss, r :: rs, i, s =>
    let s1 := evalExpr n r s
    if s1.err.isSome then s1 else
    let s2 := { s1 with rv := s1.rv.unwrap }
    let s3 := match lhss[i]? with
      | some l => letExpr n l s2
      | none => s2
    if s3.err.isSome then s3 else evalLetsx n lhss rs (i + 1) s3

/-- invokeLetExpr: assign `s.rv` to the expression -/
def letExpr : Nat → Expr → St → St
  | 0, _, s => outOfFuel s
  | n + 1, e, s =>
    match e with
    | .ident name => s.assign name s.rv
    | .member x name =>
      let value := s.rv
      let s1 := evalExpr n x s
      if s1.err.isSome then s1 else
      (match s1.rv.v with
       | .env id => s1.assignIn id name value
       | _ => s1.markUnsup "member assignment")
    | .item _ _ => s.markUnsup "element assignment"
    | .slice _ _ _ _ => s.markUnsup "slice assignment"
    | _ => s.fail "invalid operation"

/-- callExpr once the callee value is known -/
def callValue : Nat → Val → List Expr → Bool → St → St
  | 0, _, _, _, s => outOfFuel s
  | n + 1, f, args, va, s =>
    match calleeOf s f with
    | none =>
      if f.kind = Kind.func then s.markUnsup "unknown function"
      else s.fail ("cannot call type " ++ f.kind.name)
    | some cal =>
      -- fast path: concrete-signature VM function, exact argument count
      if cal.isVM && !va && !cal.variadic && cal.numIn == args.length && cal.numIn ≤ 4 then
        let pr5 := evalList n args s
        let vs := pr5.1
        let s1 := pr5.2
        if s1.err.isSome then s1 else
        callFn n f vs false { s1 with rv := nilRV }
      else
        let pr6 := makeCallArgs n cal args va s
        let r := pr6.1
        let s1 := pr6.2
        if s1.err.isSome then s1 else
        callFn n f r.1 r.2 { s1 with rv := nilRV }

/-- makeCallArgs: arguments for the four call shapes; `.1.2` = use CallSlice -/
def makeCallArgs : Nat → Callee → List Expr → Bool → St → (List RV × Bool) × St
  | 0, _, _, _, s => (([], false), outOfFuel s)
  | n + 1, cal, exprs, va, s =>
    if cal.numIn < 1 then (([], false), s)
    else if va && exprs.length < 1 then (([], false), s.fail "call is variadic but has no arguments")
    else if arityBad cal.variadic va cal.numIn exprs.length then
      (([], false), s.fail ("function wants " ++ toString cal.numIn ++ " arguments but received " ++ toString exprs.length))
    else
      -- all arguments except the last one
      let lead := evalArgs n cal (exprs.take (min (cal.numIn - 1) (exprs.length - 1))) 0 s
      if lead.2.err.isSome then (([], false), lead.2)
      else argsTail n cal (exprs.drop (min (cal.numIn - 1) (exprs.length - 1))) (min (cal.numIn - 1) (exprs.length - 1))
            va exprs.length lead.1 lead.2

/-- the last argument(s) of makeCallArgs: `rest` = expressions from index `nLead` on -/
def argsTail : Nat → Callee → List Expr → Nat → Bool → Nat → List RV → St → (List RV × Bool) × St
  | 0, _, _, _, _, _, _, s => (([], false), outOfFuel s)
  | n + 1, cal, rest, nLead, va, numExprs, lead, s1 =>
    if !cal.variadic && !va then
      -- plain call of a fixed-arity function: the last argument
      let l := evalArgs n cal rest nLead s1
      if l.2.err.isSome then (([], false), l.2) else ((lead ++ l.1, false), l.2)
    else if !cal.variadic && va then
      -- spread call of a fixed-arity function
      (match rest with
       | [] => (([], false), s1.markUnsup "makeCallArgs")
       | last :: _ =>
         if (evalExpr n last s1).err.isSome then (([], false), evalExpr n last s1)
         else spreadFixed cal nLead numExprs lead (evalExpr n last s1))
    else
      -- variadic function
      (match rest with
       | [] => ((lead, false), s1)
       | last :: _ =>
         if cal.numIn > numExprs then
           let l := evalArgs n cal [last] nLead s1
           if l.2.err.isSome then (([], false), l.2) else ((lead ++ l.1, false), l.2)
         else if !va then
           let l := evalVarArgs n cal rest s1
           if l.2.err.isSome then (([], false), l.2) else ((lead ++ l.1, false), l.2)
         else
           if (evalExpr n last s1).err.isSome then (([], false), evalExpr n last s1)
           else spreadVariadic lead (evalExpr n last s1))

/-- evaluate fixed arguments starting at parameter index `i`, converting each for a Go function -/
def evalArgs : Nat → Callee → List Expr → Nat → St → List RV × St
  | 0, _, _, _, s => ([], outOfFuel s)
  | _, _, [], _, s => ([], s)
  | n + 1, cal, e :: es, i, s =>
    let s1 := evalExpr n e s
    if s1.err.isSome then ([], s1) else
    if cal.isVM then
      let pr7 := evalArgs n cal es (i + 1) s1
      let vs := pr7.1
      let s2 := pr7.2
      (s1.rv :: vs, s2)
    else
      match convertTo s1.rv (cal.paramTy i) with
      | none => ([], s1.markUnsup "conversion")
      | some (.error _) =>
        if typeName s1.rv.v == "?" then ([], s1.markUnsup "type name of a function value") else
        ([], s1.fail ("function wants argument type " ++ tyName (cal.paramTy i) ++ " but received type " ++ typeName s1.rv.v))
      | some (.ok a) =>
        let pr8 := evalArgs n cal es (i + 1) { s1 with rv := a }
        let vs := pr8.1
        let s2 := pr8.2
        (a :: vs, s2)

/-- evaluate the arguments that form the variadic tail, each converted to the element type -/
def evalVarArgs : Nat → Callee → List Expr → St → List RV × St
  | 0, _, _, s => ([], outOfFuel s)
  | _, _, [], s => ([], s)
  | n + 1, cal, e :: es, s =>
    let s1 := evalExpr n e s
    if s1.err.isSome then ([], s1) else
    match convertTo s1.rv (cal.paramTy (cal.numIn - 1)) with
    | none => ([], s1.markUnsup "conversion")
    | some (.error _) =>
      if typeName s1.rv.v == "?" then ([], s1.markUnsup "type name of a function value") else
      ([], s1.fail ("function wants argument type []" ++ tyName (cal.paramTy (cal.numIn - 1)) ++ " but received type " ++ typeName s1.rv.v))
    | some (.ok a) =>
      let pr9 := evalVarArgs n cal es { s1 with rv := a }
      let vs := pr9.1
      let s2 := pr9.2
      (a :: vs, s2)

/-- f.Call(args) / f.CallSlice(args) + processCallReturnValues -/
def callFn : Nat → Val → List RV → Bool → St → St
  | 0, _, _, _, s => outOfFuel s
  | n + 1, f, args, callSlice, s =>
    match f with
    | .gofn name =>
      (match goSig name with
       | none => s.markUnsup "unknown stub"
       | some g =>
         -- CallSlice hands the spread slice over as the variadic tail
         let pr10 := goRun name (flatArgs callSlice args)
         let tr := pr10.1
         let res := pr10.2
         let s1 := { s with trace := s.trace ++ tr.toArray }
         let _ := g
         match res with
         | .ok r => { s1 with rv := r }
         | .error m => s1.fail m)
    | .fn id =>
      (match s.closures[id]? with
       | none => s.markUnsup "unknown closure"
       | some c =>
         -- runVMFunction: fixed parameters, then the variadic tail packed into a []interface{}
         let nfix := if c.vararg then c.params.length - 1 else c.params.length
         let fixedArgs := args.take nfix
         let tail : List RV :=
           if c.vararg then
             if callSlice then (args.drop nfix).take 1
             else [⟨false, .list ((args.drop nfix).map (·.v))⟩]
           else []
         let actual := fixedArgs ++ tail
         if actual.length < c.params.length then s.markUnsup "too few arguments reached a VM function" else
         -- runVMFunc: fresh scope under the captured scope, fresh registers
         let pr11 := s.newScope c.env
         let sc := pr11.1
         let s1 := pr11.2
         let s2 := s1.defineAll sc (c.params.zip actual)
         let callee := { s2 with cur := sc, rv := nilRV, err := none, defers := [] }
         let r1 := execStmt n c.body callee
         let r2 := if r1.defers.isEmpty then r1 else runDefers n r1.defers.reverse r1.rv r1.err { r1 with defers := [] }
         -- back in the caller's runInfo
         let back := { r2 with cur := s.cur, defers := s.defers }
         match r2.err with
         | none => { back with rv := r2.rv, err := none }
         | some .ret => { back with rv := r2.rv, err := none }
         | some e => { back with rv := nilRV, err := some (.error e.msg) })
    | _ => s.markUnsup "call of non-function"

/-- runDefers: `ds` in LIFO order already; keeps rv, an error of a deferred call replaces only
a nil / return status -/
def runDefers : Nat → List Deferred → RV → Option Err → St → St
  | 0, _, _, _, s => outOfFuel s
  | _, [], rv, err, s => { s with rv := rv, err := err }
  | n + 1, d :: ds, rv, err, s =>
    let s1 := callFn n d.fn d.args d.callSlice { s with err := none }
    let err' := match s1.err with
      | some e => (match err with | none => some e | some .ret => some e | some x => some x)
      | none => err
    runDefers n ds rv err' s1

/-- runSingleStmt -/
def execStmt : Nat → Stmt → St → St
  | 0, _, s => outOfFuel s
  | n + 1, st, s0 =>
    let pr12 := s0.poll
    let c := pr12.1
    let s := pr12.2
    if c then { s with rv := nilRV, err := some .interrupt } else
    match st with
    | .nilS => s
    | .stmts ss => execStmts n ss s
    | .expr e => evalExpr n e s
    | .varS names es =>
      if names.length < 1 || es.length < 1 then s.fail "invalid operation" else
      let pr13 := evalList n es s
      let vs := pr13.1
      let s1 := pr13.2
      if s1.err.isSome then s1 else
      if vs.length == 1 && names.length > 1 then
        (match (vs.headD nilRV).v with
         | .list (x :: xs) =>
           let s2 := s1.defineAll s1.cur (names.zip ((x :: xs).map elemRV))
           { s2 with rv := elemRV ((x :: xs).getLastD .nil) }
         | _ =>
           let s2 := s1.defineAll s1.cur (names.zip vs)
           { s2 with rv := vs.getLastD nilRV })
      else
        let s2 := s1.defineAll s1.cur (names.zip vs)
        { s2 with rv := vs.getLastD nilRV }
    | .lets lhss rhss =>
      if lhss.length < 1 || rhss.length < 1 then s.fail "invalid operation" else
      let pr14 := evalList n rhss s
      let vs := pr14.1
      let s1 := pr14.2
      if s1.err.isSome then s1 else
      if vs.length == 1 && lhss.length > 1 then
        (match (vs.headD nilRV).v with
         | .list (x :: xs) =>
           let s2 := assignAll n lhss ((x :: xs).map elemRV) s1
           if s2.err.isSome then s2 else { s2 with rv := elemRV ((x :: xs).getLastD .nil) }
         | _ =>
           let s2 := assignAll n lhss (vs.map RV.unwrap) s1
           if s2.err.isSome then s2 else { s2 with rv := vs.getLastD nilRV })
      else
        let s2 := assignAll n lhss (vs.map RV.unwrap) s1
        if s2.err.isSome then s2 else { s2 with rv := vs.getLastD nilRV }
    | .ifS c t elifs els =>
      let s1 := evalExpr n c s
      if s1.err.isSome then s1 else
      let env := s1.cur
      (match toBoolRV s1.rv with
       | none => s1.markUnsup "toBool"
       | some true =>
         let pr15 := s1.newScope env
         let sc := pr15.1
         let s2 := pr15.2
         let s3 := execStmt n t { s2 with rv := nilRV, cur := sc }
         { s3 with cur := env }
       | some false => execElifs n elifs els env s1)
    | .tryS t var c f =>
      let env := s.cur
      let pr16 := s.newScope env
      let sc := pr16.1
      let s1 := pr16.2
      let s2 := execStmt n t { s1 with cur := sc }
      let s3 :=
        match s2.err with
        | none => s2
        | some .interrupt => s2
        | some e =>
          let s2' := if var != "" then s2.define s2.cur var ⟨false, .err e.msg⟩ else s2
          execStmt n c { s2' with err := none }
      (match s2.err, s3.err with
       | some .interrupt, _ => { s3 with cur := env }
       | some _, some _ => { s3 with cur := env }      -- catch failed: no finally
       | _, _ =>
         let s4 := match f with
           | .nilS => s3
           | fin => execStmt n fin s3
         { s4 with cur := env })
    | .loop c b =>
      let env := s.cur
      let pr17 := s.newScope env
      let sc := pr17.1
      let s1 := pr17.2
      let s2 := loopIter n c b { s1 with cur := sc }
      (match s2.err with
       | some .ret => { s2 with cur := env }
       | some .interrupt => { s2 with cur := env }
       | _ => { s2 with rv := nilRV, cur := env })
    | .cfor init c p b =>
      let env := s.cur
      let pr18 := s.newScope env
      let sc := pr18.1
      let s1 := pr18.2
      let s2 := match init with
        | .nilS => { s1 with cur := sc }
        | i => execStmt n i { s1 with cur := sc }
      if s2.err.isSome then { s2 with cur := env } else
      let s3 := cforIter n c p b s2
      (match s3.err with
       | some .ret => { s3 with cur := env }
       | some .interrupt => { s3 with cur := env }
       | _ => { s3 with rv := nilRV, cur := env })
    | .forIn vars e b =>
      let s1 := evalExpr n e s
      if s1.err.isSome then s1 else
      let env := s1.cur
      let pr19 := s1.newScope env
      let sc := pr19.1
      let s2 := pr19.2
      let s3 := { s2 with cur := sc }
      (match s1.rv.v with
       | .list xs =>
         let r := forSlice n (vars.headD "_") b xs s3
         { r with cur := env }
       | .map m =>
         -- Go's map iteration order is unspecified: with two or more entries the run is not a function of the program
         if m.length ≥ 2 then { (s3.markUnsup "for-in over a map with several entries (iteration order unspecified)") with cur := env } else
         let r := forMap n vars b m s3
         { r with cur := env }
       | v => { (s3.fail ("for cannot loop over type " ++ v.kind.name)) with cur := env })
    | .brk => s.markUnsup "break outside a statement list"
    | .cont => s.markUnsup "continue outside a statement list"
    | .ret es => execReturn n es s
    | .throw e =>
      let s1 := evalExpr n e s
      if s1.err.isSome then s1 else
      (match sprint s1.rv.v with
       | some m => (match String.fromUTF8? (ByteArray.mk m.toArray) with
           | some str => { s1 with err := some (.error str) }
           | none => s1.markUnsup "throw of non-UTF8 text")
       | none => s1.markUnsup "throw value formatting")
    | .module name b =>
      let e := s.cur
      let pr20 := s.newScope e
      let sc := pr20.1
      let s1 := pr20.2
      let s2 := s1.define e name ⟨false, .env sc⟩
      let s3 := execStmt n b { s2 with cur := sc }
      let s4 := { s3 with cur := e }
      if s4.err.isSome then s4 else { s4 with rv := nilRV }
    | .switch e cases dflt =>
      let env := s.cur
      let pr21 := s.newScope env
      let sc := pr21.1
      let s1 := pr21.2
      let s2 := evalExpr n e { s1 with cur := sc }
      if s2.err.isSome then { s2 with cur := env } else
      let r := execCases n s2.rv cases dflt s2
      { r with cur := env }
    | .defer e =>
      (match e with
       | .call name args va _ =>
         (match s.getValue s.cur name with
          | none => { s with rv := nilRV, err := some (.error ("undefined symbol '" ++ name ++ "'")) }
          | some f => registerDefer n f.v args va s)
       | .anonCall fe args va _ =>
         let s1 := evalExpr n fe s
         if s1.err.isSome then s1 else registerDefer n s1.rv.v args va s1
       | _ => s.fail "expression in defer must be function call")
    | .unsupported k => s.markUnsup k

/-- runStmtsStmt -/
def execStmts : Nat → List Stmt → St → St
  | 0, _, s => outOfFuel s
  | _, [], s => s
  | n + 1, st :: rest, s =>
    match st with
    | .brk => { s with err := some .brk }
    | .cont => { s with err := some .cont }
    | .ret _ =>
      let s1 := execStmt n st s
      if s1.err.isSome then s1 else { s1 with err := some .ret }
    | _ =>
      let s1 := execStmt n st s
      if s1.err.isSome then s1 else execStmts n rest s1

/-- invoke all left sides with the given values (runLetsStmt) -/
def assignAll : Nat → List Expr → List RV → St → St
  | 0, _, _, s => outOfFuel s
  | _, [], _, s => s
  | _, _, [], s => s
  | n + 1, l :: ls, v :: vs, s =>
    let s1 := letExpr n l { s with rv := v }
    if s1.err.isSome then s1 else assignAll n ls vs s1

/-- the else-if chain and the else branch of runIfStmt (`env` = scope before the statement) -/
def execElifs : Nat → List (Expr × Stmt) → Stmt → Nat → St → St
  | 0, _, _, env, s => { outOfFuel s with cur := env }
  | n + 1, [], els, env, s =>
    (match els with
     | .nilS => { s with cur := env }
     | e =>
       let pr22 := s.newScope env
       let sc := pr22.1
       let s1 := pr22.2
       let s2 := execStmt n e { s1 with rv := nilRV, cur := sc }
       { s2 with cur := env })
  | n + 1, (c, t) :: rest, els, env, s =>
    let pr23 := s.newScope env
    let sc := pr23.1
    let s1 := pr23.2
    let s2 := evalExpr n c { s1 with cur := sc }
    if s2.err.isSome then { s2 with cur := env } else
    (match toBoolRV s2.rv with
     | none => { (s2.markUnsup "toBool") with cur := env }
     | some false => execElifs n rest els env s2
     | some true =>
       let pr24 := s2.newScope env
       let sc2 := pr24.1
       let s3 := pr24.2
       let s4 := execStmt n t { s3 with rv := nilRV, cur := sc2 }
       { s4 with cur := env })

/-- body of runLoopStmt's `for { ... }` (one unit of fuel per iteration) -/
def loopIter : Nat → Option Expr → Stmt → St → St
  | 0, _, _, s => outOfFuel s
  | n + 1, c, b, s0 =>
    let pr25 := s0.poll
    let cc := pr25.1
    let s := pr25.2
    if cc then { s with rv := nilRV, err := some .interrupt } else
    let sc := evalCond n c s
    let s1 := sc.2
    if s1.err.isSome then s1 else
    match sc.1 with
    | none => s1.markUnsup "toBool"
    | some false => s1
    | some true =>
      let s2 := execStmt n b s1
      match s2.err with
      | none => loopIter n c b s2
      | some .cont => loopIter n c b { s2 with err := none }
      | some .ret => s2
      | some .brk => { s2 with err := none }
      | some _ => s2

/-- body of runCForStmt's loop -/
def cforIter : Nat → Option Expr → Option Expr → Stmt → St → St
  | 0, _, _, _, s => outOfFuel s
  | n + 1, c, p, b, s0 =>
    let pr26 := s0.poll
    let cc := pr26.1
    let s := pr26.2
    if cc then { s with rv := nilRV, err := some .interrupt } else
    let sc := evalCond n c s
    let s1 := sc.2
    if s1.err.isSome then s1 else
    match sc.1 with
    | none => s1.markUnsup "toBool"
    | some false => s1
    | some true =>
      let s2 := execStmt n b s1
      let s2' := match s2.err with | some .cont => { s2 with err := none } | _ => s2
      match s2'.err with
      | some .ret => s2'
      | some .brk => { s2' with err := none }
      | some _ => s2'
      | none =>
        let s3 := match p with
          | none => s2'
          | some pe => evalExpr n pe s2'
        if s3.err.isSome then s3 else cforIter n c p b s3

/-- runForSliceStmt -/
def forSlice : Nat → String → Stmt → List Val → St → St
  | 0, _, _, _, s => outOfFuel s
  | _, _, _, [], s => { s with rv := nilRV }
  | n + 1, v, b, x :: xs, s0 =>
    let pr27 := s0.poll
    let cc := pr27.1
    let s := pr27.2
    if cc then { s with rv := nilRV, err := some .interrupt } else
    let s1 := s.define s.cur v ⟨false, x⟩
    let s2 := execStmt n b s1
    match s2.err with
    | none => forSlice n v b xs s2
    | some .cont => forSlice n v b xs { s2 with err := none }
    | some .ret => s2
    | some .brk => { s2 with err := none, rv := nilRV }
    | some _ => { s2 with rv := nilRV }

/-- runForMapStmt (iteration order = the model's entry order; generators use maps with at most one entry) -/
def forMap : Nat → List String → Stmt → List (Val × Val) → St → St
  | 0, _, _, _, s => outOfFuel s
  | _, _, _, [], s => { s with rv := nilRV }
  | n + 1, vars, b, (k, v) :: rest, s0 =>
    let pr28 := s0.poll
    let cc := pr28.1
    let s := pr28.2
    if cc then { s with rv := nilRV, err := some .interrupt } else
    let s1 := s.define s.cur (vars.headD "_") ⟨Prov.wrap, k⟩
    let s1' := match vars with
      | _ :: v2 :: _ => s1.define s1.cur v2 (elemRV v)
      | _ => s1
    let s2 := execStmt n b s1'
    match s2.err with
    | none => forMap n vars b rest s2
    | some .cont => forMap n vars b rest { s2 with err := none }
    | some .ret => s2
    | some .brk => { s2 with err := none, rv := nilRV }
    | some _ => { s2 with rv := nilRV }

/-- runReturnStmt -/
def execReturn : Nat → List Expr → St → St
  | 0, _, s => outOfFuel s
  | n + 1, es, s =>
    match es with
    | [] => { s with rv := nilRV }
    | [e] => evalExpr n e s
    | _ =>
      let pr29 := evalList n es s
      let vs := pr29.1
      let s1 := pr29.2
      if s1.err.isSome then s1 else { s1 with rv := ⟨false, .list (vs.map (·.v))⟩ }

/-- the case loop of runSwitchStmt -/
def execCases : Nat → RV → List (List Expr × Stmt) → Stmt → St → St
  | 0, _, _, _, s => outOfFuel s
  | n + 1, _, [], dflt, s =>
    (match dflt with
     | .nilS => { s with rv := nilRV }
     | d => execStmt n d s)
  | n + 1, subject, (es, body) :: rest, dflt, s =>
    let pr30 := matchCase n subject es s
    let r := pr30.1
    let s1 := pr30.2
    if s1.err.isSome then s1 else
    if r then execStmt n body s1 else execCases n subject rest dflt s1

/-- evaluate the case expressions of one `case` in order until one equals the subject -/
def matchCase : Nat → RV → List Expr → St → Bool × St
  | 0, _, _, s => (false, outOfFuel s)
  | _, _, [], s => (false, s)
  | n + 1, subject, e :: es, s =>
    let s1 := evalExpr n e s
    if s1.err.isSome then (false, s1) else
    match equalV s1.rv.v subject.v with
    | none => (false, s1.markUnsup "equal")
    | some true => (true, s1)
    | some false => matchCase n subject es s1

/-- runDeferStmt after the function value is known: evaluate the arguments now, register -/
def registerDefer : Nat → Val → List Expr → Bool → St → St
  | 0, _, _, _, s => outOfFuel s
  | n + 1, f, args, va, s =>
    match calleeOf s f with
    | none =>
      if f.kind = Kind.func then s.markUnsup "unknown function"
      else s.fail ("cannot call type " ++ f.kind.name)
    | some cal =>
      let pr31 := makeCallArgs n cal args va s
      let r := pr31.1
      let s1 := pr31.2
      if s1.err.isSome then s1 else
      { s1 with defers := s1.defers ++ [⟨f, r.1, r.2⟩], rv := nilRV }

end

/-- RunContext: run the program, run the top-level defers, map ErrReturn to success. -/
def runProgram (fuel : Nat) (prog : Stmt) (s : St) : St :=
  let r1 := execStmt fuel prog s
  let r2 := if r1.defers.isEmpty then r1 else runDefers fuel r1.defers.reverse r1.rv r1.err { r1 with defers := [] }
  match r2.err with
  | some .ret => { r2 with err := none }
  | _ => r2

end Anko
