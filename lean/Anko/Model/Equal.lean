/-
`equal` of vm/vm.go on the value universe, with `reflect.DeepEqual` specialised to it.
`none` = outside the specified part (error values, environments, unspecified float parsing).
-/
import Anko.Model.Num

namespace Anko
variable [FOps]

def isNumV (v : Val) : Bool := v.kind = .int64 || v.kind = .float64

/-- The number a string denotes for `==`: a decimal integer if it is one, else a float.
`some none` = not a number. -/
def numOfStr (s : Bytes) : Option (Option Val) :=
  match strToInt s with
  | some i => some (some (.int i))
  | none => match FOps.parse s with
    | none => none
    | some none => some none
    | some (some f) => some (some (.float f))

/-- Go `==` on two interface values holding comparable dynamic values (map key lookup). -/
def keyEq : Val → Val → Bool
  | .nil, .nil => true
  | .bool a, .bool b => a == b
  | .int a, .int b => a == b
  | .float a, .float b => FOps.eq a b
  | .str a, .str b => a == b
  | _, _ => false

mutual
/-- Number of constructors in a value (fuel for `deepEqF`). -/
def Val.size : Val → Nat
  | .list xs => 1 + sizeList xs
  | .map kvs => 1 + sizeKVs kvs
  | _ => 1
def sizeList : List Val → Nat
  | [] => 0
  | x :: xs => x.size + sizeList xs
def sizeKVs : List (Val × Val) → Nat
  | [] => 0
  | (k, v) :: r => k.size + v.size + sizeKVs r
end

def allOpt {α : Type} (f : α → Option Bool) : List α → Option Bool
  | [] => some true
  | x :: xs => match f x, allOpt f xs with
    | some a, some b => some (a && b)
    | _, _ => none

/-- first entry of `ys` whose key is `keyEq` to `k` -/
def mapLookup (k : Val) : List (Val × Val) → Option Val
  | [] => none
  | (k', v') :: rest => if keyEq k k' then some v' else mapLookup k rest

def zipAllOpt (f : Val → Val → Option Bool) : List Val → List Val → Option Bool
  | [], [] => some true
  | x :: xs, y :: ys => match f x y, zipAllOpt f xs ys with
    | some a, some b => some (a && b)
    | _, _ => none
  | _, _ => some false

def optAnd : Option Bool → Option Bool → Option Bool
  | some a, some b => some (a && b)
  | _, _ => none

/-- entry `kv` of one map has a key-equal entry in `bs` whose value compares equal under `cmp` -/
def entryCmp (cmp : Val → Val → Option Bool) (bs : List (Val × Val)) (kv : Val × Val) : Option Bool :=
  match mapLookup kv.1 bs with
  | none => some false
  | some v' => cmp kv.2 v'

/-- reflect.DeepEqual on two values of the universe, on fuel (`none` when it runs out or the
pair is outside the specified part). Maps are compared by mutual inclusion, which coincides
with Go's "same length and every key of the left present in the right with a deeply equal
value" whenever keys are unique (they are: these are Go maps). -/
def deepEqF : Nat → Val → Val → Option Bool
  | 0, _, _ => none
  | n + 1, l, r =>
    match l, r with
    | .nil, .nil => some true
    | .bool a, .bool b => some (a == b)
    | .int a, .int b => some (a == b)
    | .float a, .float b => some (FOps.eq a b)
    | .str a, .str b => some (a == b)
    | .list xs, .list ys => zipAllOpt (deepEqF n) xs ys
    | .map xs, .map ys =>
      optAnd (allOpt (entryCmp (deepEqF n) ys) xs) (allOpt (entryCmp (fun a b => deepEqF n b a) xs) ys)
    | .err _, _ => none
    | _, .err _ => none
    | .env _, _ => none
    | _, .env _ => none
    | _, _ => some false

def deepEq (l r : Val) : Option Bool := deepEqF (l.size + r.size) l r

/-- Step 2 of `equal`: a string facing a number is replaced by the number it denotes. -/
def normStrNum (l r : Val) : Option (Option (Val × Val)) :=
  if isNumV l then
    match r with
    | .str s => (numOfStr s).map (fun o => o.map (fun n => (l, n)))
    | _ => some (some (l, r))
  else match l with
    | .str s => if isNumV r then (numOfStr s).map (fun o => o.map (fun n => (n, r))) else some (some (l, r))
    | _ => some (some (l, r))

/-- Both numeric: ints exactly, floats as floats, an int against a float in float64. -/
def numEq (l r : Val) : Option Bool :=
  match l, r with
  | .int a, .int b => some (a == b)
  | .float a, .float b => some (FOps.eq a b)
  | .int a, .float b => some (FOps.eq (FOps.ofInt a) b)
  | .float a, .int b => some (FOps.eq a (FOps.ofInt b))
  | _, _ => none

/-- the bool branch of `equal`: both sides through tryToBool, an error on either side is "not equal" -/
def boolEq : Option (Option Bool) → Option (Option Bool) → Option Bool
  | some (some a), some (some b) => some (a == b)
  | some none, some _ => some false
  | some _, some none => some false
  | _, _ => none

/-- `equal` once a string facing a number has been replaced by the number it denotes -/
def equalNorm (l r : Val) : Option Bool :=
  if isNumV l && isNumV r then numEq l r
  else if l.kind = Kind.bool || r.kind = Kind.bool then boolEq (tryToBool l) (tryToBool r)
  else deepEq l r

def equalCore (l r : Val) : Option Bool :=
  match normStrNum l r with
  | none => none
  | some none => some false
  | some (some p) => equalNorm p.1 p.2

/-- `equal(lhsV, rhsV)` on unwrapped values. -/
def equalV (l r : Val) : Option Bool :=
  match l, r with
  | .nil, .nil => some true
  | .nil, _ => some false
  | _, .nil => some false
  | .err _, _ => none
  | _, .err _ => none
  | .env _, _ => none
  | _, .env _ => none
  | _, _ => equalCore l r

end Anko
