/-
Interpreter state of the model: the heap of scopes (env.Env objects), closures, the probe
trace, the context poll counter, and the per-invocation `runInfo` registers (env pointer,
rv, err, defers).
-/
import Anko.Model.Syntax

namespace Anko

/-- One `env.Env`: parent link and the `values` table. -/
structure Scope where
  parent : Option Nat
  vars : List (String × RV)
  deriving Inhabited

/-- A script function value: what `funcExpr` captures. -/
structure Closure where
  name : String
  params : List String
  vararg : Bool
  body : Stmt
  env : Nat
  deriving Inhabited

/-- `runInfo.err`: the three control sentinels, the interrupt sentinel, or a real error. -/
inductive Err where
  | brk | cont | ret | interrupt
  | error (msg : String)
  deriving Repr, Inhabited, DecidableEq

def Err.msg : Err → String
  | .brk => "unexpected break statement"
  | .cont => "unexpected continue statement"
  | .ret => "unexpected return statement"
  | .interrupt => "execution interrupted"
  | .error m => m

/-- `capturedFunc`: function, evaluated arguments, and whether CallSlice is to be used. -/
structure Deferred where
  fn : Val
  args : List RV
  callSlice : Bool
  deriving Inhabited

structure St where
  scopes : Array Scope
  closures : Array Closure
  trace : Array Val
  polls : Nat
  cancelAt : Option Nat
  unsup : Option String      -- sticky: the run left the modelled fragment
  -- runInfo of the current invocation
  cur : Nat
  rv : RV
  err : Option Err
  defers : List Deferred
  deriving Inhabited

def nilRV : RV := ⟨false, .nil⟩

namespace St

def init (cancelAt : Option Nat) : St :=
  { scopes := #[⟨none, []⟩], closures := #[], trace := #[], polls := 0, cancelAt := cancelAt,
    unsup := none, cur := 0, rv := nilRV, err := none, defers := [] }

/-- `select { case <-ctx.Done(): ... default: }`: returns whether the context is cancelled. -/
def poll (s : St) : Bool × St :=
  let c := match s.cancelAt with
    | some k => decide (k ≤ s.polls)
    | none => false
  (c, { s with polls := s.polls + 1 })

def cancelled (s : St) : Bool :=
  match s.cancelAt with
  | some k => decide (k ≤ s.polls)
  | none => false

def fail (s : St) (msg : String) : St := { s with err := some (.error msg), rv := nilRV }

def markUnsup (s : St) (what : String) : St :=
  { s with unsup := (match s.unsup with | some w => some w | none => some what),
           err := some (.error ("unsupported: " ++ what)), rv := nilRV }

/-- `env.NewEnv()` on scope `p`: allocate a child scope, return its id. -/
def newScope (s : St) (p : Nat) : Nat × St :=
  (s.scopes.size, { s with scopes := s.scopes.push ⟨some p, []⟩ })

def assocSet (name : String) (v : RV) : List (String × RV) → List (String × RV)
  | [] => [(name, v)]
  | (n, x) :: rest => if n == name then (n, v) :: rest else (n, x) :: assocSet name v rest

/-- `e.DefineValue(name, v)` on scope `i`. -/
def define (s : St) (i : Nat) (name : String) (v : RV) : St :=
  if h : i < s.scopes.size then
    let sc := s.scopes[i]
    { s with scopes := s.scopes.set i { sc with vars := assocSet name v sc.vars } }
  else s

/-- DefineValue for a list of bindings in scope `i`, in order -/
def defineAll (s : St) (i : Nat) : List (String × RV) → St
  | [] => s
  | (n, v) :: rest => (s.define i n v).defineAll i rest

/-- Walk the parent chain from scope `i` (fuel bounds the walk by the number of scopes). -/
def lookupFrom (scopes : Array Scope) : Nat → Nat → String → Option (Nat × RV)
  | 0, _, _ => none
  | fuel + 1, i, name =>
    if h : i < scopes.size then
      match scopes[i].vars.lookup name with
      | some v => some (i, v)
      | none => match scopes[i].parent with
        | some p => lookupFrom scopes fuel p name
        | none => none
    else none

/-- `e.GetValue(name)` from scope `i`. -/
def getValue (s : St) (i : Nat) (name : String) : Option RV :=
  (lookupFrom s.scopes (s.scopes.size + 1) i name).map (·.2)

/-- `e.SetValue(name, v)` from scope `i`: update the nearest binding; `none` when undefined. -/
def setValue (s : St) (i : Nat) (name : String) (v : RV) : Option St :=
  match lookupFrom s.scopes (s.scopes.size + 1) i name with
  | some (j, _) => some (s.define j name v)
  | none => none

/-- invokeLetExpr on an identifier: `if SetValue fails { DefineValue in the current scope }` -/
def assign (s : St) (name : String) (v : RV) : St :=
  match s.setValue s.cur name v with
  | some s' => s'
  | none => s.define s.cur name v

/-- assignment to a member of module `id`: SetValue on that scope, an error when undefined -/
def assignIn (s : St) (id : Nat) (name : String) (v : RV) : St :=
  match s.setValue id name v with
  | some s' => s'
  | none => { s with rv := nilRV, err := some (.error ("undefined symbol '" ++ name ++ "'")) }

def addClosure (s : St) (c : Closure) : Nat × St :=
  (s.closures.size, { s with closures := s.closures.push c })

def traceVal (s : St) (v : Val) : St := { s with trace := s.trace.push v }

end St
end Anko
