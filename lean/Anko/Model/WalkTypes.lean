/-
Types shared by the regenerated AST schema / walker tables (Anko.Gen.AstSchema,
Anko.Gen.Walker) and the hand-written walk model.
-/
namespace Anko

/-- Category of an AST node kind: statement, expression or operator. -/
inductive Cat where
  | stmt | expr | op
  deriving DecidableEq, Repr, Inhabited

/-- Sort of a node-bearing struct field: a single (possibly nil) child or a slice. -/
inductive SlotSort where
  | one (c : Cat)
  | many (c : Cat)
  deriving DecidableEq, Repr, Inhabited

structure KindInfo where
  name : String
  cat : Cat
  slots : List (String × SlotSort)
  deriving Repr, Inhabited

/-- One child visit of a walker arm: all children in a slot, or two slots interleaved
(`for i := range x.A { walk(x.A[i]); walk(x.B[i]) }`). -/
inductive Visit where
  | all (slot : String)
  | zip (a b : String)
  deriving DecidableEq, Repr, Inhabited

structure WalkArm where
  kind : String
  fn : Cat
  visits : List Visit
  canonical : Bool
  deriving Repr, Inhabited

end Anko
