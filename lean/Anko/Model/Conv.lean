/-
Layer E: convertReflectValueToType (vm/vmConvertToX.go, vmConvertToXGo112.go) over a universe of Go
types: sized integers, string, bool, interface{}, slices and maps of those.  The routine decides
what a script value becomes when it is stored into a typed container or struct field (C10) or
passed to a Go parameter / returned from a callback (C11).

Strings are byte lists; the string <-> []int32 conversions are modelled on ASCII (one rune per
byte). Floats are outside the model (covered by the native oracle of the harness).
-/
namespace Anko.Conv

inductive Ty where
  | int64 | int32 | int8 | uint8 | string | bool | iface
  | slice (e : Ty)
  | map (k v : Ty)
  deriving DecidableEq, Repr, Inhabited

def Ty.isInt : Ty → Bool
  | .int64 | .int32 | .int8 | .uint8 => true
  | _ => false

mutual
  /-- a Go value together with its dynamic type -/
  inductive TV where
    | int (t : Ty) (i : Int)
    | str (bs : List Nat)
    | bool (b : Bool)
    | nilIface
    | slice (e : Ty) (xs : TVs)
    | map (k v : Ty) (ks vs : TVs)
  inductive TVs where
    | nil
    | cons (x : TV) (xs : TVs)
end

def TVs.toList : TVs → List TV
  | .nil => []
  | .cons x xs => x :: xs.toList

def TVs.ofList : List TV → TVs
  | [] => .nil
  | x :: xs => .cons x (TVs.ofList xs)

def TVs.length : TVs → Nat
  | .nil => 0
  | .cons _ xs => xs.length + 1

def typeOf : TV → Ty
  | .int t _ => t
  | .str _ => .string
  | .bool _ => .bool
  | .nilIface => .iface
  | .slice e _ => .slice e
  | .map k v _ _ => .map k v

/-- Go's integer conversion: wrap into the target's range -/
def wrapInt (t : Ty) (i : Int) : Int :=
  match t with
  | .int64 => (i + 9223372036854775808) % 18446744073709551616 - 9223372036854775808
  | .int32 => (i + 2147483648) % 4294967296 - 2147483648
  | .int8 => (i + 128) % 256 - 128
  | .uint8 => i % 256
  | _ => i

def inRange (t : Ty) (i : Int) : Bool :=
  match t with
  | .int64 => -9223372036854775808 ≤ i && i ≤ 9223372036854775807
  | .int32 => -2147483648 ≤ i && i ≤ 2147483647
  | .int8 => -128 ≤ i && i ≤ 127
  | .uint8 => 0 ≤ i && i ≤ 255
  | _ => false

/-- string(rune): the UTF-8 encoding of the code point, U+FFFD for anything that is not one -/
def runeBytes (i : Int) : List Nat :=
  if i < 0 ∨ i > 1114111 ∨ (55296 ≤ i ∧ i ≤ 57343) then [239, 191, 189]
  else
    let n := i.toNat
    if n < 128 then [n]
    else if n < 2048 then [192 + n / 64, 128 + n % 64]
    else if n < 65536 then [224 + n / 4096, 128 + (n / 64) % 64, 128 + n % 64]
    else [240 + n / 262144, 128 + (n / 4096) % 64, 128 + (n / 64) % 64, 128 + n % 64]

def zero : Ty → TV
  | .int64 => .int .int64 0
  | .int32 => .int .int32 0
  | .int8 => .int .int8 0
  | .uint8 => .int .uint8 0
  | .string => .str []
  | .bool => .bool false
  | .iface => .nilIface
  | .slice e => .slice e .nil          -- the nil slice
  | .map k v => .map k v .nil .nil      -- the nil map

mutual
  /-- convertReflectValueToType -/
  def convert : TV → Ty → Option TV
    | v, .iface => some v
    | .int t i, rt =>
      if t = rt then some (.int t i)
      else if rt.isInt then some (.int rt (wrapInt rt i))
      else if rt = .string then some (.str (runeBytes i))
      else none
    | .str bs, rt =>
      if rt = .string then some (.str bs)
      else if rt = .slice .uint8 then some (.slice .uint8 (TVs.ofList (bs.map (fun (b : Nat) => TV.int .uint8 (b : Int)))))
      else if rt = .slice .int32 then some (.slice .int32 (TVs.ofList (bs.map (fun (b : Nat) => TV.int .int32 (b : Int)))))
      else if rt = .uint8 then
        (match bs with
         | [] => some (.int .uint8 0)
         | [b] => some (.int .uint8 (b : Int))
         | _ => none)
      else if rt = .int32 then
        (match bs with
         | [] => some (.int .int32 0)
         | [b] => some (.int .int32 (b : Int))
         | _ => none)
      else none
    | .bool b, rt => if rt = .bool then some (.bool b) else none
    | .nilIface, rt => some (zero rt)
    | .slice e xs, rt =>
      if rt = .slice e then some (.slice e xs)
      else if e = .uint8 ∧ rt = .string then some (.str (bytesOf xs))
      else if e = .int32 ∧ rt = .string then some (.str (runesOf xs))
      else match rt with
        | .slice e' => (convertAll xs e').map (TV.slice e')
        | _ => none
    | .map k v ks vs, rt =>
      if rt = .map k v then some (.map k v ks vs)
      else match rt with
        | .map k' v' =>
          (match convertAll ks k', convertAll vs v' with
           | some ks', some vs' => some (.map k' v' ks' vs')
           | _, _ => none)
        | _ => none
  def convertAll : TVs → Ty → Option TVs
    | .nil, _ => some .nil
    | .cons x xs, t =>
      match convert x t, convertAll xs t with
      | some y, some ys => some (.cons y ys)
      | _, _ => none
  def bytesOf : TVs → List Nat
    | .nil => []
    | .cons (.int _ i) xs => i.toNat :: bytesOf xs
    | .cons _ xs => bytesOf xs
  /-- string([]rune) -/
  def runesOf : TVs → List Nat
    | .nil => []
    | .cons (.int _ i) xs => runeBytes i ++ runesOf xs
    | .cons _ xs => runesOf xs
end

mutual
  /-- well-formed values: integers within the range of their type, bytes below 256, every element
  of a typed container of the element type (anything in an interface{} container) -/
  def WF : TV → Bool
    | .int t i => t.isInt && inRange t i
    | .str bs => bs.all (· < 256)
    | .bool _ => true
    | .nilIface => true
    | .slice e xs => WFAll xs e
    | .map k v ks vs => WFAll ks k && WFAll vs v
  def WFAll : TVs → Ty → Bool
    | .nil, _ => true
    | .cons x xs, t => WF x && (t == .iface || typeOf x == t) && WFAll xs t
end

/-- the value can be held by a variable / element / parameter of static type `t` -/
def Fits (v : TV) (t : Ty) : Bool := WF v && (t == .iface || typeOf v == t)

end Anko.Conv
