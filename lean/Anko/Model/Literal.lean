/-
Integer literals as the parser reads them (parser/lexer.go scanNumber + toNumber):
decimal, 0x / 0X hexadecimal and 0b / 0B binary, with an optional leading '-' (the grammar
rule '-' NUMBER).  `none` = rejected ("invalid number").  Floats are outside this model.
-/
import Anko.Model.Num

namespace Anko

def digitOfBase (base : Nat) (c : UInt8) : Option Nat :=
  let d : Option Nat :=
    if 48 ≤ c && c ≤ 57 then some (c.toNat - 48)
    else if 97 ≤ c && c ≤ 102 then some (c.toNat - 87)
    else if 65 ≤ c && c ≤ 70 then some (c.toNat - 55)
    else none
  match d with
  | some v => if v < base then some v else none
  | none => none

def digitsValBase (base : Nat) : List UInt8 → Nat → Option Nat
  | [], acc => some acc
  | c :: cs, acc => match digitOfBase base c with
    | some d => digitsValBase base cs (acc * base + d)
    | none => none

/-- strconv.ParseInt(s, base, 64) for base 2 / 10 / 16 (no prefix, no underscores) -/
def parseIntBase (base : Nat) (s : Bytes) : Option I64 :=
  if (splitSign s).2.isEmpty then none else
  match digitsValBase base (splitSign s).2 0 with
  | none => none
  | some n =>
    if (splitSign s).1 then (if n ≤ 2 ^ 63 then some (BitVec.ofInt 64 (-(n : Int))) else none)
    else (if n < 2 ^ 63 then some (BitVec.ofNat 64 n) else none)

/-- scanNumber normalises the prefix letter to lower case -/
def normPrefix : Bytes → Bytes
  | 48 :: 88 :: r => 48 :: 120 :: r     -- 0X -> 0x
  | 48 :: 66 :: r => 48 :: 98 :: r      -- 0B -> 0b
  | 45 :: 48 :: 88 :: r => 45 :: 48 :: 120 :: r
  | 45 :: 48 :: 66 :: r => 45 :: 48 :: 98 :: r
  | r => r

/-- toNumber on an integer spelling -/
def toNumberInt (s0 : Bytes) : Option I64 :=
  let s := normPrefix s0
  match s with
  | 48 :: 120 :: r => if r.isEmpty then parseIntBase 10 s else parseIntBase 16 r
  | 45 :: 48 :: 120 :: r => if r.isEmpty then parseIntBase 10 s else parseIntBase 16 (45 :: r)
  | 48 :: 98 :: r => if r.isEmpty then parseIntBase 10 s else parseIntBase 2 r
  | 45 :: 48 :: 98 :: r => if r.isEmpty then parseIntBase 10 s else parseIntBase 2 (45 :: r)
  | _ => parseIntBase 10 s

end Anko
