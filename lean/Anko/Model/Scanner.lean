/-
Layer C: the scanner of parser/lexer.go (Scanner.Scan and its helpers), mirrored function by
function on ASCII sources.  Loops carry fuel; every loop body advances the offset, so a fuel of
`src.size + 1` is never exhausted (scan_fuel lemmas in Props.C15).
-/
namespace Anko.Scan

structure S where
  src : Array Char
  offset : Nat
  lineHead : Nat
  line : Nat
  deriving Repr, Inhabited

/-- EOF is `none` -/
def S.peek (s : S) : Option Char := s.src[s.offset]?
def S.peekPlus (s : S) (i : Nat) : Option Char := s.src[s.offset + i]?
def S.reachEOF (s : S) : Bool := s.src.size ≤ s.offset

/-- next(): advance one rune, tracking line starts -/
def S.next (s : S) : S :=
  if s.reachEOF then s
  else if s.peek == some '\n' then { s with lineHead := s.offset + 1, line := s.line + 1, offset := s.offset + 1 }
  else { s with offset := s.offset + 1 }

/-- back(): one rune back (never across a newline in Scan) -/
def S.back (s : S) : S := { s with offset := s.offset - 1 }

structure Pos where
  line : Nat
  col : Nat
  deriving DecidableEq, Repr, Inhabited

def S.pos (s : S) : Pos := ⟨s.line + 1, s.offset - s.lineHead + 1⟩

def isLetter (c : Char) : Bool := c.isAlpha || c == '_'
def isDigit (c : Char) : Bool := '0' ≤ c && c ≤ '9'
def isHex (c : Char) : Bool := isDigit c || ('a' ≤ c && c ≤ 'f') || ('A' ≤ c && c ≤ 'F')
def isBinary (c : Char) : Bool := c == '0' || c == '1'
def isBlank (c : Char) : Bool := c == ' ' || c == '\t' || c == '\r'
def isEOL (c : Option Char) : Bool := c == some '\n' || c == none

def peekIs (s : S) (p : Char → Bool) : Bool := match s.peek with | some c => p c | none => false

def skipWhile (p : Char → Bool) : Nat → S → S
  | 0, s => s
  | n + 1, s => if peekIs s p then skipWhile p n s.next else s

/-- collect while `p`, returning the collected runes -/
def takeWhile (p : Char → Bool) : Nat → S → List Char → List Char × S
  | 0, s, acc => (acc.reverse, s)
  | n + 1, s, acc => match s.peek with
    | some c => if p c then takeWhile p n s.next (c :: acc) else (acc.reverse, s)
    | none => (acc.reverse, s)

def keywords : List String :=
  ["func", "return", "var", "throw", "if", "for", "break", "continue", "in", "else", "new", "true", "false", "nil",
   "module", "try", "catch", "finally", "switch", "case", "default", "go", "defer", "chan", "struct", "make", "type",
   "len", "delete", "close", "map", "import"]

/-- scanner errors: the messages of lexer.go, and `fuel` (never produced: Props.C15) -/
inductive LexErr where
  | fuel
  | msg (m : String)
  deriving DecidableEq, Repr, Inhabited

inductive Tok where
  | eof
  | ident (s : String)
  | kw (s : String)
  | number (s : String)
  | str (s : String)
  | op (s : String)      -- multi-character operators (lit as the lexer sets it; "..." for VARARG)
  | ch (c : Char)        -- single-character tokens
  deriving DecidableEq, Repr, Inhabited

/-- scanNumber (the first digit is at the current position) -/
def scanNumberTail : Nat → S → List Char → Bool → Except LexErr (List Char × S)
  | 0, _, _, _ => .error .fuel
  | n + 1, s, acc, found =>
    match s.peek with
    | some c =>
      if isDigit c then scanNumberTail n s.next (c :: acc) found
      else if c == '.' then scanNumberTail n s.next ('.' :: acc) found
      else if c == 'e' || c == 'E' then
        if found then .error (.msg ("unexpected " ++ String.singleton c))
        else
          let s1 := s.next
          (match s1.peek with
           | some d => if d == '+' || d == '-' then scanNumberTail n s1.next (d :: 'e' :: acc) true
                       else scanNumberTail n s1 ('e' :: acc) true
           | none => scanNumberTail n s1 ('e' :: acc) true)
      else .ok (acc.reverse, s)
    | none => .ok (acc.reverse, s)

def scanNumber (s : S) : Except LexErr (String × S) :=
  match s.peek with
  | none => .error (.msg "scanNumber at EOF")
  | some c0 =>
    let s1 := s.next
    let fuel := s.src.size + 1
    let r : Except LexErr (List Char × S) :=
      if c0 == '0' && (s1.peek == some 'x' || s1.peek == some 'X') then
        let (ds, s2) := takeWhile isHex fuel s1.next []
        .ok (c0 :: 'x' :: ds, s2)
      else if c0 == '0' && (s1.peek == some 'b' || s1.peek == some 'B') then
        let (ds, s2) := takeWhile isBinary fuel s1.next []
        .ok (c0 :: 'b' :: ds, s2)
      else match scanNumberTail fuel s1 [] false with
        | .ok (ds, s2) => .ok (c0 :: ds, s2)
        | .error e => .error e
    match r with
    | .error e => .error e
    | .ok (cs, s2) =>
      if peekIs s2 isLetter then .error (.msg "identifier starts immediately after numeric literal")
      else .ok (String.ofList cs, s2)

/-- scanRawString(l): from the opening delimiter to the closing one -/
def scanRaw (l : Char) : Nat → S → List Char → Except LexErr (List Char × S)
  | 0, _, _ => .error .fuel
  | n + 1, s, acc =>
    let s1 := s.next
    match s1.peek with
    | none => .error (.msg "unexpected EOF")
    | some c => if c == l then .ok (acc.reverse, s1.next) else scanRaw l n s1 (c :: acc)

/-- scanString(l) with backslash escapes -/
def scanStr (l : Char) : Nat → S → List Char → Except LexErr (List Char × S)
  | 0, _, _ => .error .fuel
  | n + 1, s, acc =>
    let s1 := s.next
    match s1.peek with
    | none => .error (.msg "unexpected EOF")
    | some c =>
      if c == '\n' then .error (.msg "unexpected EOL")
      else if c == l then .ok (acc.reverse, s1.next)
      else if c == '\\' then
        let s2 := s1.next
        (match s2.peek with
         | some 'b' => scanStr l n s2 ('\x08' :: acc)
         | some 'f' => scanStr l n s2 ('\x0c' :: acc)
         | some 'r' => scanStr l n s2 ('\r' :: acc)
         | some 'n' => scanStr l n s2 ('\n' :: acc)
         | some 't' => scanStr l n s2 ('\t' :: acc)
         | some d => scanStr l n s2 (d :: acc)
         | none => scanStr l n s2 acc)     -- ret = append(ret, EOF rune): handled as unexpected EOF next round
      else scanStr l n s1 (c :: acc)

structure Token where
  tok : Tok
  pos : Pos
  deriving DecidableEq, Repr, Inhabited

/-- the `/* ... */` loop: `s` stands on the `*` after the `/` -/
def skipBlockComment : Nat → S → Except LexErr S
  | 0, _ => .error .fuel
  | n + 1, s =>
    match scanRaw '*' (s.src.size + 1) s [] with
    | .error e => .error e
    | .ok (_, s1) => if s1.peek == some '/' then .ok s1.next else skipBlockComment n s1.back

/-- two-character operators: after the first character `c`, `alts` maps the second character to the
operator; otherwise the single character -/
def twoChar (s : S) (c : Char) (alts : List (Char × String)) : Tok × S :=
  let s1 := s.next
  match s1.peek with
  | some d => (match alts.lookup d with
    | some o => (.op o, s1.next)
    | none => (.ch c, s1.back.next))
  | none => (.ch c, s1.back.next)

/-- Scan: one token (with its position) or an error (with the position it is reported at) -/
def scan : Nat → S → Except (LexErr × Pos) (Token × S)
  | 0, s => .error (.fuel, s.pos)
  | n + 1, s0 =>
    let s := skipWhile isBlank (s0.src.size + 1) s0
    let pos := s.pos
    match s.peek with
    | none => .ok (⟨.eof, pos⟩, s)
    | some ch =>
      if isLetter ch then
        let (cs, s1) := takeWhile (fun c => isLetter c || isDigit c) (s.src.size + 1) s []
        let lit := String.ofList cs
        .ok (⟨if keywords.contains lit then .kw lit else .ident lit, pos⟩, s1)
      else if isDigit ch then
        match scanNumber s with
        | .ok (lit, s1) => .ok (⟨.number lit, pos⟩, s1)
        | .error e => .error (e, pos)
      else if ch == '"' || ch == '\'' then
        match scanStr ch (s.src.size + 1) s [] with
        | .ok (cs, s1) => .ok (⟨.str (String.ofList cs), pos⟩, s1)
        | .error e => .error (e, pos)
      else if ch == '`' then
        match scanRaw '`' (s.src.size + 1) s [] with
        | .ok (cs, s1) => .ok (⟨.str (String.ofList cs), pos⟩, s1)
        | .error e => .error (e, pos)
      else if ch == '#' then
        scan n (skipWhile (fun c => c != '\n') (s.src.size + 1) s)
      else if ch == '!' then let (t, s1) := twoChar s ch [('=', "!=")]; .ok (⟨t, pos⟩, s1)
      else if ch == '=' then
        let s1 := s.next
        if s1.peek == some '=' then .ok (⟨.op "==", pos⟩, s1.next)
        else if s1.peek == some ' ' && s1.peekPlus 1 == some '<' && s1.peekPlus 2 == some '-' then
          .ok (⟨.op "= <-", pos⟩, s1.next.next.next)
        else .ok (⟨.ch '=', pos⟩, s1.back.next)
      else if ch == '?' then let (t, s1) := twoChar s ch [('?', "??")]; .ok (⟨t, pos⟩, s1)
      else if ch == '+' then let (t, s1) := twoChar s ch [('+', "++"), ('=', "+=")]; .ok (⟨t, pos⟩, s1)
      else if ch == '-' then let (t, s1) := twoChar s ch [('-', "--"), ('=', "-=")]; .ok (⟨t, pos⟩, s1)
      else if ch == '*' then let (t, s1) := twoChar s ch [('=', "*=")]; .ok (⟨t, pos⟩, s1)
      else if ch == '/' then
        let s1 := s.next
        if s1.peek == some '=' then .ok (⟨.op "/=", pos⟩, s1.next)
        else if s1.peek == some '/' then scan n (skipWhile (fun c => c != '\n') (s.src.size + 1) s1)
        else if s1.peek == some '*' then
          (match skipBlockComment (s.src.size + 1) s1 with
           | .ok s2 => scan n s2
           | .error e => .error (e, pos))
        else .ok (⟨.ch '/', pos⟩, s1.back.next)
      else if ch == '>' then let (t, s1) := twoChar s ch [('=', ">="), ('>', ">>")]; .ok (⟨t, pos⟩, s1)
      else if ch == '<' then let (t, s1) := twoChar s ch [('-', "<-"), ('=', "<="), ('<', "<<")]; .ok (⟨t, pos⟩, s1)
      else if ch == '|' then let (t, s1) := twoChar s ch [('|', "||"), ('=', "|=")]; .ok (⟨t, pos⟩, s1)
      else if ch == '&' then let (t, s1) := twoChar s ch [('&', "&&"), ('=', "&=")]; .ok (⟨t, pos⟩, s1)
      else if ch == '.' then
        let s1 := s.next
        if s1.peek == some '.' then
          let s2 := s1.next
          if s2.peek == some '.' then .ok (⟨.op "...", pos⟩, s2.next)
          else .error (.msg ("syntax error on '.' at " ++ toString pos.line ++ ":" ++ toString pos.col), pos)
        else .ok (⟨.ch '.', pos⟩, s1.back.next)
      else if ['\n', '(', ')', ':', ';', '%', '{', '}', '[', ']', ',', '^'].contains ch then
        .ok (⟨.ch ch, pos⟩, s.next)
      else .error (.msg ("syntax error on '" ++ String.singleton ch ++ "' at " ++ toString pos.line ++ ":" ++ toString pos.col), pos)

/-- all tokens up to EOF or the first error -/
def lexAll : Nat → S → List Token → List Token × Option (LexErr × Pos)
  | 0, _, acc => (acc.reverse, some (.fuel, ⟨0, 0⟩))
  | n + 1, s, acc =>
    match scan (s.src.size + 2) s with
    | .error e => (acc.reverse, some e)
    | .ok (t, s1) => if t.tok == .eof then ((t :: acc).reverse, none) else lexAll n s1 (t :: acc)

def lex (src : String) : List Token × Option (LexErr × Pos) :=
  let s : S := ⟨src.toList.toArray, 0, 0, 0⟩
  lexAll (s.src.size + 2) s []

end Anko.Scan
