/-
Core builtins of core/core.go and core/toX.go on the value universe: range, keys, typeOf,
kindOf, toInt, toFloat, toString, toBool.
-/
import Anko.Model.Num

namespace Anko

def minI64 : Int := -9223372036854775808
def maxI64 : Int := 9223372036854775807

/-- int64 wrap-around of a mathematical integer -/
def wrap64 (x : Int) : Int := (x + 9223372036854775808) % 18446744073709551616 - 9223372036854775808

/-- The loop of `range` (core.go), after the arguments were sorted into start/stop/step:
```
for i := start; (step > 0 && i < stop) || (step < 0 && i > stop); i += step {
    arr = append(arr, i)
    if (step > 0 && i > MaxInt64-step) || (step < 0 && i < MinInt64-step) { break }
}
```
on fuel (one unit per iteration). -/
def rangeLoop : Nat → Int → Int → Int → List Int
  | 0, _, _, _ => []
  | n + 1, i, stop, step =>
    if (0 < step ∧ i < stop) ∨ (step < 0 ∧ stop < i) then
      i :: (if (0 < step ∧ maxI64 - step < i) ∨ (step < 0 ∧ i < minI64 - step) then []
            else rangeLoop n (wrap64 (i + step)) stop step)
    else []

/-- enough fuel for any call: the distance between start and stop, plus one -/
def rangeFuel (start stop : Int) : Nat := (stop - start).natAbs + 1

/-- `range(args...)`: 1 to 3 int64 arguments; error messages are the panics of core.go. -/
def rangeBuiltin (args : List Int) : Except String (List Int) :=
  match args with
  | [] => .error "range expected at least 1 argument, got 0"
  | [stop] => .ok (rangeLoop (rangeFuel 0 stop) 0 stop 1)
  | [start, stop] => .ok (rangeLoop (rangeFuel start stop) start stop 1)
  | [start, stop, step] =>
    if step = 0 then .error "range argument 3 must not be zero"
    else .ok (rangeLoop (rangeFuel start stop) start stop step)
  | _ => .error s!"range expected at most 3 arguments, got {args.length}"

/-- `a, a+d, a+2d, ...` -/
def IsProgression (a d : Int) : List Int → Prop
  | [] => True
  | x :: xs => x = a ∧ IsProgression (a + d) d xs

variable [FOps]

def typeOfV : Val → Option String
  | .nil => some "nil"
  | .bool _ => some "bool"
  | .int _ => some "int64"
  | .float _ => some "float64"
  | .str _ => some "string"
  | .list _ => some "[]interface {}"
  | .map _ => some "map[interface {}]interface {}"
  | _ => none

def kindOfV : Val → Option String
  | .nil => some "nil"
  | .bool _ => some "bool"
  | .int _ => some "int64"
  | .float _ => some "float64"
  | .str _ => some "string"
  | .list _ => some "slice"
  | .map _ => some "map"
  | .fn _ => some "func"
  | .gofn _ => some "func"
  | _ => none

/-- core toInt: numbers by Go conversion, decimal strings by ParseInt then ParseFloat, true = 1,
everything else 0. `none` = unspecified (float out of range, string outside ParseFloat domain). -/
def toIntB : Val → Option I64
  | .nil => some 0
  | .int i => some i
  | .float f => FOps.toInt f
  | .str s => match parseDec s with
    | some i => some i
    | none => match FOps.parse s with
      | none => none
      | some none => some 0
      | some (some f) => FOps.toInt f
  | .bool b => some (if b then 1 else 0)
  | _ => some 0

def toFloatB : Val → Option I64
  | .nil => some fzero
  | .int i => some (FOps.ofInt i)
  | .float f => some f
  | .str s => match FOps.parse s with
    | none => none
    | some none => some fzero
    | some (some f) => some f
  | .bool b => some (if b then FOps.ofInt 1 else fzero)
  | _ => some fzero

def toStringB (v : Val) : Option Bytes := sprint v

def lowerAscii (s : Bytes) : Bytes := s.map (fun c => if 65 ≤ c && c ≤ 90 then c + 32 else c)

def parseBoolWord (s : Bytes) : Option Bool :=
  if s == strBytes "1" || s == strBytes "t" || s == strBytes "T" || s == strBytes "true" ||
     s == strBytes "TRUE" || s == strBytes "True" then some true
  else if isFalseWord s then some false
  else none

def toBoolB : Val → Option Bool
  | .nil => some false
  | .bool b => some b
  | .int i => some (FOps.lt fzero (FOps.ofInt i))
  | .float f => some (FOps.lt fzero f)
  | .str s =>
    let l := lowerAscii s
    if l == strBytes "y" || l == strBytes "yes" then some true
    else some ((parseBoolWord l).getD false)
  | _ => some false

def keysB : Val → Option (List Val)
  | .map kvs => some (kvs.map (·.1))
  | _ => none

end Anko
