/-
Value-level semantics of one binary / unary operator application, `in` and `switch` matching:
what invokeOperator / invokeUnaryExpr / invokeIncludeExpr / runSwitchStmt compute once the
operand expressions have been evaluated.  Operands arrive as `RV` (with the interface flag);
every site first performs the unwrap idiom, as the Go code does.
-/
import Anko.Model.Ops
import Anko.Model.Equal

namespace Anko
variable [FOps]

def optBool (o : Option Bool) (f : Bool → Bool := id) : OpRes :=
  match o with
  | some b => .ok (.bool (f b))
  | none => .unsupported

/-- invokeOperator on evaluated operands (logical operators: both operands given, the caller
models short-circuit evaluation; the value computed here is the same). -/
def binop (op : String) (l r : RV) : OpRes :=
  let lv := l.unwrap.v
  let rv := r.unwrap.v
  match op with
  | "+" | "-" | "|" => addOp op lv rv
  | "*" | "/" | "%" | "<<" | ">>" | "&" => mulOp op lv rv
  | "<" | "<=" | ">" | ">=" => cmpOp op lv rv
  | "==" => optBool (equalV lv rv)
  | "!=" => optBool (equalV lv rv) (fun b => !b)
  | "||" => (match toBool lv with
      | some true => .ok (.bool true)
      | some false => optBool (toBool rv)
      | none => .unsupported)
  | "&&" => (match toBool lv with
      | some false => .ok (.bool false)
      | some true => optBool (toBool rv)
      | none => .unsupported)
  | _ => .err "unknown operator"

/-- invokeUnaryExpr on the evaluated operand. -/
def unop (op : String) (x : RV) : OpRes := unaryOp op x.unwrap.v

def anyEq (item : Val) : List Val → Option Bool
  | [] => some false
  | e :: es => match equalV item e with
    | none => none
    | some true => some true
    | some false => anyEq item es

/-- invokeIncludeExpr: `item in list`. -/
def inOp (item list : RV) : OpRes :=
  match list.unwrap.v with
  | .list xs => optBool (anyEq item.unwrap.v xs)
  | v => .err ("second argument must be slice or array; but have " ++ v.kind.name)

/-- runSwitchStmt's test: `equal(caseValue, subject)`. -/
def switchMatch (subject case : RV) : OpRes := optBool (equalV case.unwrap.v subject.unwrap.v)

end Anko
