/-
Operators of vm/vmOperator.go and the unary operators of vm/vmExpr.go on UNWRAPPED
operand values (the callers perform the interface unwrap), plus the small-int cache.
-/
import Anko.Model.Num

namespace Anko

inductive OpRes where
  | ok (v : Val)
  | err (msg : String)
  | unsupported                 -- outside the specified part of the model (never compared)
  deriving Repr, Inhabited

variable [FOps]

/-- precedenceOfKinds of vm.go: string > float > anything else (a string or float on the right decides for every other left
operand - integers, bool, nil), otherwise the left kind. -/
def precedenceOfKinds (k1 k2 : Kind) : Kind :=
  if k1 = k2 then k1
  else match k1 with
    | .string => k1
    | .float64 => (match k2 with | .string => k2 | _ => k1)
    | _ => (match k2 with | .string => k2 | .float64 => k2 | _ => k1)

def withInts (a b : Val) (f : I64 → I64 → OpRes) : OpRes :=
  match toInt64 a, toInt64 b with
  | some x, some y => f x y
  | _, _ => .unsupported

def withFloats (a b : Val) (f : I64 → I64 → OpRes) : OpRes :=
  match toFloat64 a, toFloat64 b with
  | some x, some y => f x y
  | _, _ => .unsupported

def isSliceKind (v : Val) : Bool := v.kind = .slice

/-- Largest string the model is willing to build for `string * n` (beyond: resource class). -/
def repeatBound : Nat := 1 <<< 16

/-- invokeAddOperator after both operands were evaluated and unwrapped. -/
def addOp (op : String) (l r : Val) : OpRes :=
  match op with
  | "+" =>
    match l, r with
    | .list xs, .list ys => .ok (.list (xs ++ ys))
    | .list xs, y => .ok (.list (xs ++ [y]))
    | _, .list _ => .err "invalid type conversion"
    | _, _ =>
      match precedenceOfKinds l.kind r.kind with
      | .string => (match toStr l, toStr r with
          | some a, some b => .ok (.str (a ++ b))
          | _, _ => .unsupported)
      | .float64 => withFloats l r (fun x y => .ok (.float (FOps.add x y)))
      | _ => withInts l r (fun x y => .ok (.int (x + y)))
  | "-" =>
    if l.kind = .float64 || r.kind = .float64 then withFloats l r (fun x y => .ok (.float (FOps.sub x y)))
    else withInts l r (fun x y => .ok (.int (x - y)))
  | "|" => withInts l r (fun x y => .ok (.int (x ||| y)))
  | _ => .err "unknown operator"

/-- `a << uint64(n)` on int64. -/
def shl64 (a n : I64) : I64 := if n.toNat ≥ 64 then 0 else a <<< n.toNat

/-- `a >> uint64(n)` on int64 (arithmetic). -/
def shr64 (a n : I64) : I64 :=
  if n.toNat ≥ 64 then (if a.msb then (-1 : I64) else 0) else a.sshiftRight n.toNat

def repeatBytes (s : Bytes) : Nat → Bytes
  | 0 => []
  | n + 1 => s ++ repeatBytes s n

/-- invokeMultiplyOperator after both operands were evaluated and unwrapped. -/
def mulOp (op : String) (l r : Val) : OpRes :=
  match op with
  | "*" =>
    match l, r with
    | .str s, .int n =>
      if n.slt 0 then .err "negative repeat count"
      else if s.length = 0 then .ok (.str [])         -- strings.Repeat("", n) for any n (never unrolled)
      else if s.length * n.toNat > repeatBound then .unsupported
      else .ok (.str (repeatBytes s n.toNat))
    | _, _ =>
      if l.kind = .float64 || r.kind = .float64 then withFloats l r (fun x y => .ok (.float (FOps.mul x y)))
      else withInts l r (fun x y => .ok (.int (x * y)))
  | "/" => withFloats l r (fun x y => .ok (.float (FOps.div x y)))
  | "%" => withInts l r (fun x y => if y = 0 then .err "integer divide by zero" else .ok (.int (x.srem y)))
  | ">>" => withInts l r (fun x y => .ok (.int (shr64 x y)))
  | "<<" => withInts l r (fun x y => .ok (.int (shl64 x y)))
  | "&" => withInts l r (fun x y => .ok (.int (x &&& y)))
  | _ => .err "unknown operator"

def isIntKind (v : Val) : Bool := v.kind = .int64

/-- Ordering comparisons of invokeComparisonOperator (== and != are in Anko.Model.Equal). -/
def cmpOp (op : String) (l r : Val) : OpRes :=
  if isIntKind l && isIntKind r then
    match l, r with
    | .int x, .int y =>
      (match op with
       | "<" => .ok (.bool (x.slt y))
       | "<=" => .ok (.bool (x.sle y))
       | ">" => .ok (.bool (y.slt x))
       | ">=" => .ok (.bool (y.sle x))
       | _ => .err "unknown operator")
    | _, _ => .unsupported
  else withFloats l r (fun x y =>
    match op with
    | "<" => .ok (.bool (FOps.lt x y))
    | "<=" => .ok (.bool (FOps.le x y))
    | ">" => .ok (.bool (FOps.lt y x))
    | ">=" => .ok (.bool (FOps.le y x))
    | _ => .err "unknown operator")

/-- invokeUnaryExpr on the (unwrapped) operand. -/
def unaryOp (op : String) (v : Val) : OpRes :=
  match op with
  | "-" =>
    (match v with
     | .int i => .ok (.int (-i))
     | .bool b => .ok (.int (-(if b then 1 else 0)))
     | .float f => .ok (.float (FOps.neg f))
     | _ => match toFloat64 v with
       | some f => .ok (.float (FOps.neg f))
       | none => .unsupported)
  | "^" => (match toInt64 v with
     | some i => .ok (.int (~~~ i))
     | none => .unsupported)
  | "!" => (match toBool v with
     | some b => .ok (.bool (!b))
     | none => .unsupported)
  | _ => .err "unknown operator"

end Anko
