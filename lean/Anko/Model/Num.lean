/-
Coercions of vm/vmToX.go (toInt64 / toFloat64 / toBool / toString) on the value universe.
Each function mirrors its Go namesake branch by branch; `try*` return `none` where the Go
function returns an error.
-/
import Anko.Model.Val

namespace Anko

/-! ### strconv.ParseInt(s, 10, 64) -/

def isDigit (c : UInt8) : Bool := 48 ≤ c && c ≤ 57

def digitsVal : List UInt8 → Nat → Nat
  | [], acc => acc
  | c :: cs, acc => digitsVal cs (acc * 10 + (c.toNat - 48))

/-- optional sign of a ParseInt operand -/
def splitSign : Bytes → Bool × Bytes
  | 45 :: r => (true, r)      -- '-'
  | 43 :: r => (false, r)     -- '+'
  | r => (false, r)

/-- Decimal int64 literal as `strconv.ParseInt(s, 10, 64)` accepts it: optional sign,
one or more digits, in range. -/
def parseDec (s : Bytes) : Option I64 :=
  if (splitSign s).2.isEmpty || !(splitSign s).2.all isDigit then none
  else if (splitSign s).1 then
    (if digitsVal (splitSign s).2 0 ≤ 2 ^ 63 then some (BitVec.ofInt 64 (-(digitsVal (splitSign s).2 0 : Int))) else none)
  else (if digitsVal (splitSign s).2 0 < 2 ^ 63 then some (BitVec.ofNat 64 (digitsVal (splitSign s).2 0)) else none)

def hasPrefix (p s : Bytes) : Bool := p.isPrefixOf s

/-- `tryToInt64` on a string: the "0x" / "0b" branches call ParseInt with base 16 / 2 on the
string INCLUDING its prefix, which strconv always rejects (the prefix letter is not a digit),
so only decimal numerals convert. -/
def strToInt (s : Bytes) : Option I64 :=
  if hasPrefix [48, 120] s then none        -- "0x..."
  else if hasPrefix [48, 98] s then none    -- "0b..."
  else parseDec s

variable [FOps]

/-- tryToInt64. `none` = error (toInt64 then yields 0). A float outside the exactly
converted range makes the whole answer unspecified (`none` at the outer level). -/
def tryToInt64 : Val → Option (Option I64)
  | .nil => some none
  | .bool b => some (some (if b then 1 else 0))
  | .int i => some (some i)
  | .float f => match FOps.toInt f with
    | some i => some (some i)
    | none => none
  | .str s => some (strToInt s)
  | _ => some none

def toInt64 (v : Val) : Option I64 := (tryToInt64 v).map (fun r => r.getD 0)

/-- tryToFloat64: outer `none` = string outside the specified part of ParseFloat. -/
def tryToFloat64 : Val → Option (Option I64)
  | .nil => some none
  | .bool b => some (some (FOps.ofInt (if b then 1 else 0)))
  | .int i => some (some (FOps.ofInt i))
  | .float f => some (some f)
  | .str s => FOps.parse s
  | _ => some none

def fzero : I64 := 0

def toFloat64 (v : Val) : Option I64 := (tryToFloat64 v).map (fun r => r.getD fzero)

/-- strconv.ParseBool accepted spellings of false. -/
def isFalseWord (s : Bytes) : Bool :=
  s == strBytes "0" || s == strBytes "f" || s == strBytes "F" || s == strBytes "false" ||
  s == strBytes "FALSE" || s == strBytes "False"

/-- tryToBool: inner `none` = "unknown type" error. -/
def tryToBool : Val → Option (Option Bool)
  | .nil => some none
  | .float f => some (some (!(FOps.eq f fzero)))
  | .int i => some (some (i != 0))
  | .bool b => some (some b)
  | .str s =>
    if s.isEmpty then some (some false)
    else if isFalseWord s then some (some false)
    else match FOps.parse s with
      | none => none
      | some (some f) => some (some (!(FOps.eq f fzero)))
      | some none => some (some true)
  | .list xs => some (some (!xs.isEmpty))
  | .map kvs => some (some (!kvs.isEmpty))
  | _ => some none

def toBool (v : Val) : Option Bool := (tryToBool v).map (fun r => r.getD false)

def intToBytes (i : I64) : Bytes := strBytes (toString i.toInt)

def joinBytes (sep : Bytes) : List Bytes → Bytes
  | [] => []
  | [x] => x
  | x :: rest => x ++ sep ++ joinBytes sep rest

mutual
/-- `fmt.Sprint(v)` (= `%v`). `none` = outside the specified part (function addresses,
float formatting beyond `FOps.fmt`, maps). -/
def sprint : Val → Option Bytes
  | .nil => some (strBytes "<nil>")
  | .bool b => some (strBytes (if b then "true" else "false"))
  | .int i => some (intToBytes i)
  | .float f => FOps.fmt f
  | .str s => some s
  | .list xs => (sprintList xs).map (fun ss => strBytes "[" ++ joinBytes (strBytes " ") ss ++ strBytes "]")
  | _ => none
def sprintList : List Val → Option (List Bytes)
  | [] => some []
  | x :: xs => match sprint x, sprintList xs with
    | some a, some r => some (a :: r)
    | _, _ => none
end

/-- toString of vmToX.go: strings as they are, everything else through fmt.Sprint. -/
def toStr (v : Val) : Option Bytes := sprint v

end Anko
