/-
Layer E: containers as the interpreter manipulates them through reflect — Go slices are headers
(backing array, offset, length, capacity) over shared arrays, maps are references, strings are
immutable values — and the bounds / kind / hashability rules of vm/vmExpr.go (invokeItemExpr,
invokeSliceExpr), vm/vmLetExpr.go (invokeLetItemExpr and friends), vm/vmOperator.go (`+` on
slices), vm/vm.go (getMapIndex) and vm/vmStmt.go (delete).

Growth on append beyond the capacity is Go's (runtime.growslice): the new capacity is a parameter
of the operation (`newCap`), supplied by the harness from the native run; theorems hold for any
value of it.
-/
namespace Anko.Cont

structure Slice where
  arr : Nat
  off : Nat
  len : Nat
  cap : Nat
  deriving DecidableEq, Repr, Inhabited

inductive V where
  | nil
  | int (i : Int)
  | bool (b : Bool)
  | str (s : List Char)
  | slice (s : Slice)
  | map (id : Nat)
  deriving DecidableEq, Repr, Inhabited

structure Heap where
  arrays : Array (Array V)
  maps : Array (List (V × V))
  vars : List (String × V)
  deriving Repr, Inhabited

def Heap.empty : Heap := ⟨#[], #[], []⟩

inductive Out where
  | ok (v : V)
  | err (m : String)
  deriving DecidableEq, Repr, Inhabited

def kindName : V → String
  | .nil => "interface"
  | .int _ => "int64"
  | .bool _ => "bool"
  | .str _ => "string"
  | .slice _ => "slice"
  | .map _ => "map"

def typeName : V → String
  | .nil => "interface {}"
  | .int _ => "int64"
  | .bool _ => "bool"
  | .str _ => "string"
  | .slice _ => "[]interface {}"
  | .map _ => "map[interface {}]interface {}"

/-- tryToInt: numbers, booleans and numeric strings are indices; anything else is not a number -/
def parseDecNat : List Char → Option Nat
  | [] => none
  | cs => cs.foldl (fun acc c => match acc with
      | none => none
      | some n => if c.isDigit then some (n * 10 + (c.toNat - 48)) else none) (some 0)

def tryToInt : V → Option Int
  | .int i => some i
  | .bool b => some (if b then 1 else 0)
  | .str ('-' :: cs) => (parseDecNat cs).map (fun n => -(n : Int))
  | .str ('+' :: cs) => (parseDecNat cs).map (fun n => (n : Int))
  | .str cs => (parseDecNat cs).map (fun n => (n : Int))
  | _ => none

def isHashable : V → Bool
  | .slice _ => false
  | .map _ => false
  | _ => true

def Heap.getVar (h : Heap) (x : String) : Option V := h.vars.lookup x

def setAssoc {α β} [BEq α] (k : α) (v : β) : List (α × β) → List (α × β)
  | [] => [(k, v)]
  | (k', v') :: rest => if k' == k then (k, v) :: rest else (k', v') :: setAssoc k v rest

def Heap.setVar (h : Heap) (x : String) (v : V) : Heap := { h with vars := setAssoc x v h.vars }

/-- element `i` of slice `s` (caller has checked `i < s.len`) -/
def Heap.elem (h : Heap) (s : Slice) (i : Nat) : V :=
  match h.arrays[s.arr]? with
  | some a => a[s.off + i]?.getD .nil
  | none => .nil

def Heap.writeElem (h : Heap) (s : Slice) (i : Nat) (v : V) : Heap :=
  match h.arrays[s.arr]? with
  | some a => { h with arrays := h.arrays.set! s.arr (a.set! (s.off + i) v) }
  | none => h

def Heap.elems (h : Heap) (s : Slice) : List V := (List.range s.len).map (h.elem s)

/-- a fresh backing array holding `vs` with room for `cap` elements -/
def Heap.alloc (h : Heap) (vs : List V) (cap : Nat) : Heap × Slice :=
  let a := (vs ++ List.replicate (cap - vs.length) V.nil).toArray
  ({ h with arrays := h.arrays.push a }, ⟨h.arrays.size, 0, vs.length, max cap vs.length⟩)

def Heap.allocMap (h : Heap) (kvs : List (V × V)) : Heap × V :=
  ({ h with maps := h.maps.push kvs }, .map h.maps.size)

/-- reflect.Append of the values `vs`: in place when the capacity allows (the backing array is
shared with every other slice over it), else into a fresh array of capacity `newCap` -/
def Heap.append (h : Heap) (s : Slice) (vs : List V) (newCap : Nat) : Heap × Slice :=
  if s.len + vs.length ≤ s.cap then
    let h' := (List.range vs.length).foldl (fun (acc : Heap) j => acc.writeElem s (s.len + j) (vs.getD j .nil)) h
    (h', { s with len := s.len + vs.length })
  else
    h.alloc (h.elems s ++ vs) newCap

/-- index read: invokeItemExpr -/
def Heap.index (h : Heap) (item idx : V) : Out :=
  match item with
  | .slice s =>
    match tryToInt idx with
    | none => .err "index must be a number"
    | some i => if i < 0 ∨ i ≥ s.len then .err "index out of range" else .ok (h.elem s i.toNat)
  | .str cs =>
    match tryToInt idx with
    | none => .err "index must be a number"
    | some i => if i < 0 ∨ i ≥ cs.length then .err "index out of range" else .ok (.str [cs.getD i.toNat ' '])
  | .map id =>
    if isHashable idx then
      match h.maps[id]? with
      | some kvs => .ok ((kvs.lookup idx).getD .nil)
      | none => .ok .nil
    else .ok .nil
  | v => .err ("type " ++ kindName v ++ " does not support index operation")

/-- bounds of a slice expression over a container of length `len` and capacity `cap`:
begin / end / cap operands are `none` when absent -/
inductive Bounds where
  | ok (b e c : Nat)
  | err (m : String)
  deriving DecidableEq, Repr

def sliceBounds (len cap : Nat) (isString : Bool) (b e c : Option V) : Bounds :=
  let begin? : Except String Int := match b with
    | none => .ok 0
    | some v => match tryToInt v with
      | none => .error "index must be a number"
      | some i => if i < 0 then .error "index out of range" else .ok i
  match begin? with
  | .error m => .err m
  | .ok bi =>
    let end? : Except String Int := match e with
      | none => .ok len
      | some v => match tryToInt v with
        | none => .error "index must be a number"
        | some i => if i > len then .error "index out of range" else .ok i
    match end? with
    | .error m => .err m
    | .ok ei =>
      if bi > ei then .err "index out of range"
      else if isString then
        (if c.isSome then .err "type string does not support cap" else .ok bi.toNat ei.toNat ei.toNat)
      else
        match c with
        | none => .ok bi.toNat ei.toNat cap
        | some v => match tryToInt v with
          | none => .err "cap must be a number"
          | some ci => if ci < ei ∨ ci > cap then .err "cap out of range" else .ok bi.toNat ei.toNat ci.toNat

/-- slice read: invokeSliceExpr -/
def Heap.sliceOf (item : V) (b e c : Option V) : Out :=
  match item with
  | .slice s =>
    match sliceBounds s.len s.cap false b e c with
    | .err m => .err m
    | .ok bi ei ci => .ok (.slice ⟨s.arr, s.off + bi, ei - bi, ci - bi⟩)
  | .str cs =>
    match sliceBounds cs.length cs.length true b e c with
    | .err m => .err m
    | .ok bi ei _ => .ok (.str ((cs.drop bi).take (ei - bi)))
  | v => .err ("type " ++ kindName v ++ " does not support slice operation")

def assocErase (k : V) : List (V × V) → List (V × V)
  | [] => []
  | (k', v') :: rest => if k' == k then rest else (k', v') :: assocErase k rest

/-- statements of a container history; every operand is a variable name or a literal value -/
inductive Arg where
  | var (x : String)
  | lit (v : V)
  deriving Repr, Inhabited

def Heap.arg (h : Heap) : Arg → Option V
  | .var x => h.getVar x
  | .lit v => some v

def Heap.argPairs (h : Heap) (kvs : List (Arg × Arg)) : Option (List (V × V)) :=
  kvs.mapM (fun kv => do pure ((← h.arg kv.1), (← h.arg kv.2)))

inductive Op where
  | list (x : String) (vs : List Arg)                       -- x = [a, b, ...]
  | mapLit (x : String) (kvs : List (Arg × Arg))            -- x = {k: v, ...}
  | copy (y : String) (a : Arg)                             -- y = a
  | index (a i : Arg)                                       -- a[i]
  | slice (y : String) (a : Arg) (b e c : Option Arg)       -- y = a[b:e:c]
  | setIndex (x : String) (i v : Arg) (newCap : Nat)        -- x[i] = v
  | append (y : String) (a v : Arg) (newCap : Nat)          -- y = a + v
  | len (a : Arg)
  | delete (a k : Arg)
  | load (y : String) (a i : Arg)                          -- y = a[i]  (also `var y = a[i]`): binds the VALUE read
  | swap (x : String) (i j : Arg)                          -- x[i], x[j] = x[j], x[i]
  deriving Repr, Inhabited

def badKeyMsg (es : List (V × V)) : String :=
  match es.find? (fun kv => !isHashable kv.1) with
  | some kv => "type " ++ typeName kv.1 ++ " cannot be used as map key"
  | none => "?"

def undefinedSym (x : String) : Out := .err ("undefined symbol '" ++ x ++ "'")

/-- one statement: new heap and what the script observes -/
def Heap.step (h : Heap) : Op → Heap × Out
  | .list x as =>
    match as.mapM h.arg with
    | none => (h, .err "undefined symbol")
    | some vs =>
      let r := h.alloc vs vs.length
      (r.1.setVar x (.slice r.2), .ok (.slice r.2))
  | .mapLit x kvs =>
    match h.argPairs kvs with
    | none => (h, .err "undefined symbol")
    | some es =>
      if es.all (fun kv => isHashable kv.1) then
        let r := h.allocMap (es.foldl (fun acc kv => setAssoc kv.1 kv.2 acc) [])
        (r.1.setVar x r.2, .ok r.2)
      else (h, .err (badKeyMsg es))
  | .copy y a =>
    match h.arg a with
    | none => (h, .err "undefined symbol")
    | some v => (h.setVar y v, .ok v)
  | .index a i =>
    match h.arg a, h.arg i with
    | some item, some idx => (h, h.index item idx)
    | _, _ => (h, .err "undefined symbol")
  | .slice y a b e c =>
    match h.arg a with
    | none => (h, .err "undefined symbol")
    | some item =>
      let ev (o : Option Arg) : Option (Option V) := match o with
        | none => some none
        | some x => (h.arg x).map some
      match ev b, ev e, ev c with
      | some b', some e', some c' =>
        (match Heap.sliceOf item b' e' c' with
         | .ok v => (h.setVar y v, .ok v)
         | .err m => (h, .err m))
      | _, _, _ => (h, .err "undefined symbol")
  | .setIndex x i v newCap =>
    match h.getVar x, h.arg i, h.arg v with
    | some item, some idx, some val =>
      (match item with
       | .slice s =>
         (match tryToInt idx with
          | none => (h, .err "index must be a number")
          | some k =>
            if k = s.len then
              let r := h.append s [val] newCap
              (r.1.setVar x (.slice r.2), .ok val)
            else if k < 0 ∨ k ≥ s.len then (h, .err "index out of range")
            else (h.writeElem s k.toNat val, .ok val))
       | .map id =>
         if !isHashable idx then (h, .err ("type " ++ typeName idx ++ " cannot be used as map key"))
         else
           (match h.maps[id]? with
            | some kvs => ({ h with maps := h.maps.set! id (setAssoc idx val kvs) }, .ok val)
            | none => (h, .err "bad map"))
       | .str cs =>
         (match tryToInt idx with
          | none => (h, .err "index must be a number")
          | some k =>
            match val with
            | .str vs =>
              if k = cs.length then (h.setVar x (.str (cs ++ vs)), .ok (.str (cs ++ vs)))
              else if k < 0 ∨ k ≥ cs.length then (h, .err "index out of range")
              else
                let n := cs.take k.toNat ++ vs ++ cs.drop (k.toNat + 1)
                (h.setVar x (.str n), .ok (.str n))
            | w => (h, .err ("type " ++ typeName w ++ " cannot be assigned to type string")))
       | w => (h, .err ("type " ++ kindName w ++ " does not support index operation")))
    | _, _, _ => (h, .err "undefined symbol")
  | .append y a v newCap =>
    match h.arg a, h.arg v with
    | some (.slice s), some (.slice t) =>
      let r := h.append s (h.elems t) newCap
      (r.1.setVar y (.slice r.2), .ok (.slice r.2))
    | some (.slice s), some val =>
      let r := h.append s [val] newCap
      (r.1.setVar y (.slice r.2), .ok (.slice r.2))
    | some _, some _ => (h, .err "unsupported")
    | _, _ => (h, .err "undefined symbol")
  | .len a =>
    match h.arg a with
    | some (.slice s) => (h, .ok (.int s.len))
    | some (.str cs) => (h, .ok (.int cs.length))
    | some (.map id) => (h, .ok (.int ((h.maps[id]?.getD []).length)))
    | some v => (h, .err ("type " ++ kindName v ++ " does not support len operation"))
    | none => (h, .err "undefined symbol")
  | .delete a k =>
    match h.arg a, h.arg k with
    | some (.map id), some key =>
      if !isHashable key then (h, .err ("type " ++ typeName key ++ " cannot be used as map key in delete"))
      else
        (match h.maps[id]? with
         | some kvs => ({ h with maps := h.maps.set! id (assocErase key kvs) }, .ok .nil)
         | none => (h, .err "bad map"))
    | some v, some _ => (h, .err ("first argument to delete cannot be type " ++ kindName v))
    | _, _ => (h, .err "undefined symbol")
  | .load _ _ _ => (h, .err "unsupported")     -- see step2
  | .swap _ _ _ => (h, .err "unsupported")

/-- the two operations that bind / move values read from a container -/
def Heap.step2 (h : Heap) : Op → Heap × Out
  | .load y a i =>
    (match h.arg a, h.arg i with
     | some item, some idx =>
       (match h.index item idx with
        | .ok v => (h.setVar y v, .ok v)
        | .err m => (h, .err m))
     | _, _ => (h, .err "undefined symbol"))
  | .swap x i j =>
    (match h.getVar x, h.arg i, h.arg j with
     | some (.slice s), some ii, some jj =>
       -- both right-hand sides are read before either store
       (match h.index (.slice s) jj, h.index (.slice s) ii with
        | .ok vj, .ok vi =>
          (match tryToInt ii, tryToInt jj with
           | some ki, some kj => ((h.writeElem s ki.toNat vj).writeElem s kj.toNat vi, .ok vi)
           | _, _ => (h, .err "index must be a number"))
        | .err m, _ => (h, .err m)
        | _, .err m => (h, .err m))
     | some _, some _, some _ => (h, .err "unsupported")
     | _, _, _ => (h, .err "undefined symbol"))
  | op => h.step op

def Heap.run (h : Heap) : List Op → Heap × List Out
  | [] => (h, [])
  | op :: ops =>
    let r := h.step2 op
    let rest := r.1.run ops
    (rest.1, r.2 :: rest.2)

end Anko.Cont
