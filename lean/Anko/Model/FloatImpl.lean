/-
The concrete `FOps` instance used by the driver: Lean's `Float` (IEEE binary64, the same
arithmetic as Go's float64 on amd64). Only the driver uses it; theorems never do.
-/
import Anko.Model.Val
import Anko.Model.Num

namespace Anko

def fOf (b : I64) : Float := Float.ofBits b.toNat.toUInt64
def fBits (f : Float) : I64 := BitVec.ofNat 64 f.toBits.toNat

def two53 : Nat := 9007199254740992

/-- digits of `n`, no leading zeros ("0" for 0) -/
def natDigits (n : Nat) : List UInt8 := (toString n).toUTF8.toList

def stripTrailingZeros (ds : List UInt8) : List UInt8 :=
  (ds.reverse.dropWhile (· == 48)).reverse

/-- Go `%v` of a finite float whose value is `sign * n / 8`, given as exact decimal digits. -/
def fmtEighths (neg : Bool) (n : Nat) : Bytes :=
  let ip := n / 8
  let fr := (n % 8) * 125
  let frDigits : List UInt8 := if fr == 0 then [] else
    stripTrailingZeros ((if fr < 100 then [48] else []) ++ natDigits fr)
  let ipDigits := if ip == 0 then [] else natDigits ip
  -- significant digits and decimal point position
  let allDigits := ipDigits ++ frDigits
  let lead := allDigits.takeWhile (· == 48) |>.length
  let digs := stripTrailingZeros (allDigits.drop lead)
  let dp : Int := (ipDigits.length : Int) - lead
  let sign : Bytes := if neg then [45] else []
  if digs.isEmpty then sign ++ [48]
  else
    let exp := dp - 1
    if exp < -4 || exp ≥ 6 then
      -- d.ddde±XX
      let mant := match digs with
        | [d] => [d]
        | d :: rest => d :: 46 :: rest
        | [] => []
      let e := exp.natAbs
      let es := (if e < 10 then [48] else []) ++ natDigits e
      sign ++ mant ++ [101, (if exp < 0 then 45 else 43)] ++ es
    else if dp ≤ 0 then
      sign ++ [48, 46] ++ List.replicate dp.natAbs 48 ++ digs
    else
      let dpn := dp.toNat
      if digs.length ≤ dpn then sign ++ digs ++ List.replicate (dpn - digs.length) 48
      else sign ++ digs.take dpn ++ [46] ++ digs.drop dpn

def floatFmt (b : I64) : Option Bytes :=
  let f := fOf b
  if f.isNaN then some (strBytes "NaN")
  else if f.isInf then some (strBytes (if f > 0 then "+Inf" else "-Inf"))
  else
    let neg := b.msb
    let a := f.abs
    let e8 := a * 8.0
    if e8.floor == e8 then
      if a.floor == a && a < two53.toFloat then some (fmtEighths neg (e8.toUInt64.toNat))
      else if a < 1048576.0 then some (fmtEighths neg (e8.toUInt64.toNat))
      else none
    else none

/-- ParseFloat on the specified domain: [sign] digits [. digits] with an exactly representable
value (integer part < 2^53; a non-zero fraction only in eighths and below 2^20), and the
strings that surely fail (first significant byte is not a digit, '.', 'i', 'I', 'n', 'N'). -/
def floatParse (s : Bytes) : Option (Option I64) :=
  let (neg, r) := match s with
    | 45 :: r => (true, r)
    | 43 :: r => (false, r)
    | r => (false, r)
  match r with
  | [] => some none
  | c :: _ =>
    if !(isDigit c || c == 46 || c == 105 || c == 73 || c == 110 || c == 78) then some none
    else
      let ip := r.takeWhile isDigit
      let rest := r.drop ip.length
      let (fr, ok) := match rest with
        | [] => (([] : List UInt8), true)
        | 46 :: fs => (fs, fs.all isDigit)
        | _ => ([], false)
      if !ok || ip.isEmpty then none
      else
        let iv := digitsVal ip 0
        let frs := stripTrailingZeros fr
        if frs.length > 3 then none
        else
          let fv := digitsVal (frs ++ List.replicate (3 - frs.length) 48) 0   -- thousandths
          if fv % 125 != 0 then none
          else if iv ≥ two53 then none
          else if fv != 0 && iv ≥ 1048576 then none
          else
            let x : Float := iv.toFloat + (fv / 125).toFloat / 8.0
            some (some (fBits (if neg then -x else x)))

def floatToInt (b : I64) : Option I64 :=
  let f := fOf b
  if f.isNaN then none
  else if f ≥ -9223372036854775808.0 && f < 9223372036854775808.0 then
    some (BitVec.ofInt 64 f.toInt64.toInt)
  else none

instance floatOps : FOps where
  add a b := fBits (fOf a + fOf b)
  sub a b := fBits (fOf a - fOf b)
  mul a b := fBits (fOf a * fOf b)
  div a b := fBits (fOf a / fOf b)
  neg a := fBits (-(fOf a))
  lt a b := fOf a < fOf b
  le a b := fOf a ≤ fOf b
  eq a b := fOf a == fOf b
  ofInt i := fBits (Int64.ofInt i.toInt).toFloat
  toInt := floatToInt
  fmt := floatFmt
  parse := floatParse

end Anko

namespace Anko
/-- the real interpreter: containers and interface-returning Go functions hand out flagged values -/
instance realProv : Prov := ⟨true⟩
end Anko
