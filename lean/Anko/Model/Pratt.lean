/-
Layer C: operator-precedence printing and parsing of binary-operator expressions over an
abstract precedence table.  `pr` inserts exactly the parentheses the table requires;
`PExpr` is the relational semantics of a precedence-climbing parser driven by the same table.
-/
namespace Anko.Pratt

abbrev Op := String

/-- binding powers: `rbp = lbp` for right-associative operators, `lbp + 1` for left-associative
ones; all operators of one level share the associativity -/
structure Tbl where
  lbp : Op → Nat
  rbp : Op → Nat
  assoc : ∀ o, rbp o = lbp o ∨ rbp o = lbp o + 1
  level : ∀ o q, lbp o = lbp q → rbp o = rbp q

inductive Tok where
  | atom (a : Nat) | op (o : Op) | lp | rp
  deriving DecidableEq, Repr

inductive Tree where
  | atom (a : Nat)
  | bin (o : Op) (l r : Tree)
  deriving DecidableEq, Repr

variable (T : Tbl)

def lctx (o : Op) : Nat := if T.rbp o = T.lbp o then T.lbp o + 1 else T.lbp o

/-- minimal-parenthesis printer: `pr c t` can be read where exposed operators need lbp ≥ c -/
def pr : Nat → Tree → List Tok
  | _, .atom a => [Tok.atom a]
  | c, .bin o l r =>
    let b := pr (lctx T o) l ++ [Tok.op o] ++ pr (T.rbp o) r
    if T.lbp o ≥ c then b else [Tok.lp] ++ b ++ [Tok.rp]

/-- fully parenthesised printer: every operator application in its own parentheses -/
def prFull : Tree → List Tok
  | .atom a => [Tok.atom a]
  | .bin o l r => [Tok.lp] ++ prFull l ++ [Tok.op o] ++ prFull r ++ [Tok.rp]

mutual
inductive PExpr : Nat → List Tok → Tree × List Tok → Prop where
  | mk {m ts l ts1 R} : PPrim ts (l, ts1) → PLoop m l ts1 R → PExpr m ts R
inductive PPrim : List Tok → Tree × List Tok → Prop where
  | atom {a ts} : PPrim (Tok.atom a :: ts) (.atom a, ts)
  | paren {ts t ts2} : PExpr 0 ts (t, Tok.rp :: ts2) → PPrim (Tok.lp :: ts) (t, ts2)
inductive PLoop : Nat → Tree → List Tok → Tree × List Tok → Prop where
  | step {m lhs o ts r ts2 R} : T.lbp o ≥ m → PExpr (T.rbp o) ts (r, ts2) →
      PLoop m (.bin o lhs r) ts2 R → PLoop m lhs (Tok.op o :: ts) R
  | stopOp {m lhs o ts} : T.lbp o < m → PLoop m lhs (Tok.op o :: ts) (lhs, Tok.op o :: ts)
  | stopNil {m lhs} : PLoop m lhs [] (lhs, [])
  | stopRp {m lhs ts} : PLoop m lhs (Tok.rp :: ts) (lhs, Tok.rp :: ts)
end

def okRest (c : Nat) (t : Tree) (p : Op) : Prop :=
  match t with
  | .atom _ => True
  | .bin o _ r => if T.lbp o ≥ c then (T.lbp p < T.rbp o ∧ okRest (T.rbp o) r p) else True

def OKRest (c : Nat) (t : Tree) : List Tok → Prop
  | Tok.op p :: _ => okRest T c t p
  | Tok.atom _ :: _ => False
  | Tok.lp :: _ => False
  | _ => True

end Anko.Pratt
