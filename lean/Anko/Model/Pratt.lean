/-
Layer C: operator-precedence printing and parsing of expressions - binary operators, prefix
operators, the conditional `c ? a : b` and the postfix forms (call, index, slice, member) - over
an abstract precedence table.  `pr` inserts exactly the parentheses the table requires; `PExpr`
is the relational semantics of a precedence-climbing parser driven by the same table.
-/
namespace Anko.Pratt

abbrev Op := String

/-- binding powers: `rbp = lbp` for right-associative operators, `lbp + 1` for left-associative
ones; all operators of one level share the associativity.  Prefix operators bind tighter than
every binary operator (`ubp`), postfix forms tighter still (`post`).  The conditional uses the
entry of the spelling "?". -/
structure Tbl where
  lbp : Op → Nat
  rbp : Op → Nat
  ubp : Nat
  post : Nat
  assoc : ∀ o, rbp o = lbp o ∨ rbp o = lbp o + 1
  level : ∀ o q, lbp o = lbp q → rbp o = rbp q
  unary_tightest : ∀ o, lbp o < ubp
  postfix_tightest : ubp < post

inductive Tok where
  | atom (a : Nat) | op (o : Op) | lp | rp | q | colon | lb | rb | dot
  deriving DecidableEq, Repr

inductive Tree where
  | atom (a : Nat)
  | bin (o : Op) (l r : Tree)
  | un (o : Op) (t : Tree)
  | tern (c a b : Tree)
  | call (f x : Tree)
  | index (b i : Tree)
  | slice (b i j : Tree)
  | member (b : Tree)
  deriving DecidableEq, Repr

variable (T : Tbl)

def lctx (o : Op) : Nat := if T.rbp o = T.lbp o then T.lbp o + 1 else T.lbp o

def wrap (own c : Nat) (b : List Tok) : List Tok := if own ≥ c then b else [Tok.lp] ++ b ++ [Tok.rp]

/-- minimal-parenthesis printer: `pr c t` can be read where exposed operators need lbp ≥ c -/
def pr : Nat → Tree → List Tok
  | _, .atom a => [Tok.atom a]
  | c, .bin o l r => wrap (T.lbp o) c (pr (lctx T o) l ++ [Tok.op o] ++ pr (T.rbp o) r)
  | c, .un o t => wrap T.ubp c ([Tok.op o] ++ pr T.ubp t)
  | c, .tern x a b => wrap (T.lbp "?") c (pr (lctx T "?") x ++ [Tok.q] ++ pr 0 a ++ [Tok.colon] ++ pr (T.rbp "?") b)
  | _, .call f x => pr T.post f ++ [Tok.lp] ++ pr 0 x ++ [Tok.rp]
  | _, .index b i => pr T.post b ++ [Tok.lb] ++ pr 0 i ++ [Tok.rb]
  | _, .slice b i j => pr T.post b ++ [Tok.lb] ++ pr 0 i ++ [Tok.colon] ++ pr 0 j ++ [Tok.rb]
  | _, .member b => pr T.post b ++ [Tok.dot]

/-- fully parenthesised printer: every operator application in its own parentheses -/
def prFull : Tree → List Tok
  | .atom a => [Tok.atom a]
  | .bin o l r => [Tok.lp] ++ prFull l ++ [Tok.op o] ++ prFull r ++ [Tok.rp]
  | .un o t => [Tok.lp] ++ [Tok.op o] ++ prFull t ++ [Tok.rp]
  | .tern x a b => [Tok.lp] ++ prFull x ++ [Tok.q] ++ prFull a ++ [Tok.colon] ++ prFull b ++ [Tok.rp]
  | .call f x => [Tok.lp] ++ prFull f ++ [Tok.lp] ++ prFull x ++ [Tok.rp] ++ [Tok.rp]
  | .index b i => [Tok.lp] ++ prFull b ++ [Tok.lb] ++ prFull i ++ [Tok.rb] ++ [Tok.rp]
  | .slice b i j => [Tok.lp] ++ prFull b ++ [Tok.lb] ++ prFull i ++ [Tok.colon] ++ prFull j ++ [Tok.rb] ++ [Tok.rp]
  | .member b => [Tok.lp] ++ prFull b ++ [Tok.dot] ++ [Tok.rp]

mutual
inductive PExpr : Nat → List Tok → Tree × List Tok → Prop where
  | mk {m ts l ts1 R} : PPrim ts (l, ts1) → PLoop m l ts1 R → PExpr m ts R
inductive PPrim : List Tok → Tree × List Tok → Prop where
  | atom {a ts} : PPrim (Tok.atom a :: ts) (.atom a, ts)
  | paren {ts t ts2} : PExpr 0 ts (t, Tok.rp :: ts2) → PPrim (Tok.lp :: ts) (t, ts2)
  /-- an operator token where an operand is expected is a prefix operator; its operand is
  everything that binds at least as tightly as a prefix operator -/
  | unary {o ts t ts2} : PExpr T.ubp ts (t, ts2) → PPrim (Tok.op o :: ts) (.un o t, ts2)
inductive PLoop : Nat → Tree → List Tok → Tree × List Tok → Prop where
  | step {m lhs o ts r ts2 R} : T.lbp o ≥ m → PExpr (T.rbp o) ts (r, ts2) →
      PLoop m (.bin o lhs r) ts2 R → PLoop m lhs (Tok.op o :: ts) R
  | stopOp {m lhs o ts} : T.lbp o < m → PLoop m lhs (Tok.op o :: ts) (lhs, Tok.op o :: ts)
  /-- `lhs ? a : b`: the middle operand is delimited by the colon -/
  | tern {m lhs ts a ts2 b ts3 R} : T.lbp "?" ≥ m → PExpr 0 ts (a, Tok.colon :: ts2) →
      PExpr (T.rbp "?") ts2 (b, ts3) → PLoop m (.tern lhs a b) ts3 R → PLoop m lhs (Tok.q :: ts) R
  | stopQ {m lhs ts} : T.lbp "?" < m → PLoop m lhs (Tok.q :: ts) (lhs, Tok.q :: ts)
  /-- postfix forms apply to the operand just read, whatever the level -/
  | call {m lhs ts x ts2 R} : PExpr 0 ts (x, Tok.rp :: ts2) → PLoop m (.call lhs x) ts2 R → PLoop m lhs (Tok.lp :: ts) R
  | index {m lhs ts i ts2 R} : PExpr 0 ts (i, Tok.rb :: ts2) → PLoop m (.index lhs i) ts2 R → PLoop m lhs (Tok.lb :: ts) R
  | slice {m lhs ts i ts2 j ts3 R} : PExpr 0 ts (i, Tok.colon :: ts2) → PExpr 0 ts2 (j, Tok.rb :: ts3) →
      PLoop m (.slice lhs i j) ts3 R → PLoop m lhs (Tok.lb :: ts) R
  | member {m lhs ts R} : PLoop m (.member lhs) ts R → PLoop m lhs (Tok.dot :: ts) R
  | stopNil {m lhs} : PLoop m lhs [] (lhs, [])
  | stopRp {m lhs ts} : PLoop m lhs (Tok.rp :: ts) (lhs, Tok.rp :: ts)
  | stopRb {m lhs ts} : PLoop m lhs (Tok.rb :: ts) (lhs, Tok.rb :: ts)
  | stopColon {m lhs ts} : PLoop m lhs (Tok.colon :: ts) (lhs, Tok.colon :: ts)
end

/-- `t`, printed for context `c`, may be followed by the operator `p`: every operand still open
at the right edge of the spelling binds tighter than `p` -/
def okRest (c : Nat) (t : Tree) (p : Op) : Prop :=
  match t with
  | .bin o _ r => if T.lbp o ≥ c then (T.lbp p < T.rbp o ∧ okRest (T.rbp o) r p) else True
  | .un _ t => if T.ubp ≥ c then (T.lbp p < T.ubp ∧ okRest T.ubp t p) else True
  | .tern _ _ b => if T.lbp "?" ≥ c then (T.lbp p < T.rbp "?" ∧ okRest (T.rbp "?") b p) else True
  | _ => True

/-- `t`, printed for context `c`, may be followed by a postfix form: no operand is open at the
right edge -/
def okPost (c : Nat) (t : Tree) : Prop :=
  match t with
  | .bin o _ _ => T.lbp o < c
  | .un _ _ => T.ubp < c
  | .tern _ _ _ => T.lbp "?" < c
  | _ => True

def OKRest (c : Nat) (t : Tree) : List Tok → Prop
  | Tok.op p :: _ => okRest T c t p
  | Tok.q :: _ => okRest T c t "?"
  | Tok.lp :: _ => okPost T c t
  | Tok.lb :: _ => okPost T c t
  | Tok.dot :: _ => okPost T c t
  | Tok.atom _ :: _ => False
  | _ => True

end Anko.Pratt
