/-
AST of the interpreter model (fragment F0), mirrored from /repo/ast/{expr,stmt,operator}.go.
`Stmt.nilS` is Go's nil statement (an empty block); anything outside the fragment decodes
to `unsupported` and makes the driver answer `unsupported` for the whole case.
-/
import Anko.Model.Val
import Anko.Model.Sexp
import Anko.Model.Codec

namespace Anko

mutual
inductive Expr where
  | lit (v : Val)
  | ident (name : String)
  | op (o : String) (l r : Expr)                 -- OpExpr{Binary|Comparison|Add|Multiply Operator}
  | unary (o : String) (e : Expr)
  | paren (e : Expr)
  | ternary (c t f : Expr)
  | nilco (l r : Expr)
  | array (es : List Expr)
  | mapLit (ks vs : List Expr)
  | item (x i : Expr)
  | slice (x : Expr) (b e c : Option Expr)
  | len (e : Expr)
  | incl (item list : Expr)
  | letsx (lhss rhss : List Expr)
  | func (name : String) (params : List String) (vararg : Bool) (body : Stmt)
  | call (name : String) (args : List Expr) (vararg go : Bool)
  | anonCall (f : Expr) (args : List Expr) (vararg go : Bool)
  | member (e : Expr) (name : String)
  | unsupported (kind : String)
inductive Stmt where
  | nilS
  | stmts (ss : List Stmt)
  | expr (e : Expr)
  | varS (names : List String) (es : List Expr)
  | lets (lhss rhss : List Expr)
  | ifS (c : Expr) (t : Stmt) (elifs : List (Expr × Stmt)) (els : Stmt)
  | tryS (t : Stmt) (var : String) (c : Stmt) (f : Stmt)
  | loop (c : Option Expr) (b : Stmt)
  | forIn (vars : List String) (e : Expr) (b : Stmt)
  | cfor (init : Stmt) (c p : Option Expr) (b : Stmt)
  | brk
  | cont
  | ret (es : List Expr)
  | throw (e : Expr)
  | module (name : String) (b : Stmt)
  | switch (e : Expr) (cases : List (List Expr × Stmt)) (dflt : Stmt)
  | defer (e : Expr)
  | unsupported (kind : String)
end

instance : Inhabited Expr := ⟨.lit .nil⟩
instance : Inhabited Stmt := ⟨.nilS⟩

def atomName (a : String) : String := if a == "_" then "" else a

mutual
partial def decodeExpr : Sexp → Option Expr
  | .list [.atom "lit", v] => (decodeVal 100 v).map Expr.lit
  | .list [.atom "id", .atom n] => some (.ident n)
  | .list [.atom "op", .atom o, l, r] => do pure (.op o (← decodeExpr l) (← decodeExpr r))
  | .list [.atom "un", .atom o, e] => do pure (.unary o (← decodeExpr e))
  | .list [.atom "paren", e] => do pure (.paren (← decodeExpr e))
  | .list [.atom "tern", c, t, f] => do pure (.ternary (← decodeExpr c) (← decodeExpr t) (← decodeExpr f))
  | .list [.atom "nilco", l, r] => do pure (.nilco (← decodeExpr l) (← decodeExpr r))
  | .list (.atom "arr" :: es) => do pure (.array (← es.mapM decodeExpr))
  | .list (.atom "map" :: kvs) => do
    let ps ← kvs.mapM (fun kv => match kv with
      | .list [k, v] => do pure ((← decodeExpr k), (← decodeExpr v))
      | _ => none)
    pure (.mapLit (ps.map (·.1)) (ps.map (·.2)))
  | .list [.atom "item", x, i] => do pure (.item (← decodeExpr x) (← decodeExpr i))
  | .list [.atom "slice", x, b, e, c] => do
    pure (.slice (← decodeExpr x) (← decodeOptExpr b) (← decodeOptExpr e) (← decodeOptExpr c))
  | .list [.atom "len", e] => do pure (.len (← decodeExpr e))
  | .list [.atom "in", i, l] => do pure (.incl (← decodeExpr i) (← decodeExpr l))
  | .list [.atom "letsx", .list ls, .list rs] => do pure (.letsx (← ls.mapM decodeExpr) (← rs.mapM decodeExpr))
  | .list [.atom "func", .atom name, .list ps, .atom va, body] => do
    let ps' ← ps.mapM (fun p => match p with | .atom a => some a | _ => none)
    pure (.func (atomName name) ps' (va == "1") (← decodeStmt body))
  | .list (.atom "call" :: .atom name :: .atom va :: .atom go :: args) => do
    pure (.call name (← args.mapM decodeExpr) (va == "1") (go == "1"))
  | .list (.atom "acall" :: f :: .atom va :: .atom go :: args) => do
    pure (.anonCall (← decodeExpr f) (← args.mapM decodeExpr) (va == "1") (go == "1"))
  | .list [.atom "member", e, .atom n] => do pure (.member (← decodeExpr e) n)
  | .list [.atom "unsup", .atom k] => some (.unsupported k)
  | _ => none
partial def decodeOptExpr : Sexp → Option (Option Expr)
  | .atom "_" => some none
  | e => (decodeExpr e).map some
partial def decodeStmt : Sexp → Option Stmt
  | .atom "_" => some .nilS
  | .list (.atom "stmts" :: ss) => do pure (.stmts (← ss.mapM decodeStmt))
  | .list [.atom "expr", e] => do pure (.expr (← decodeExpr e))
  | .list [.atom "var", .list ns, .list es] => do
    let ns' ← ns.mapM (fun p => match p with | .atom a => some a | _ => none)
    pure (.varS ns' (← es.mapM decodeExpr))
  | .list [.atom "lets", .list ls, .list rs] => do pure (.lets (← ls.mapM decodeExpr) (← rs.mapM decodeExpr))
  | .list [.atom "if", c, t, .list elifs, e] => do
    let es ← elifs.mapM (fun x => match x with
      | .list [c, t] => do pure ((← decodeExpr c), (← decodeStmt t))
      | _ => none)
    pure (.ifS (← decodeExpr c) (← decodeStmt t) es (← decodeStmt e))
  | .list [.atom "try", t, .atom v, c, f] => do
    pure (.tryS (← decodeStmt t) (atomName v) (← decodeStmt c) (← decodeStmt f))
  | .list [.atom "loop", c, b] => do pure (.loop (← decodeOptExpr c) (← decodeStmt b))
  | .list [.atom "forin", .list vs, e, b] => do
    let vs' ← vs.mapM (fun p => match p with | .atom a => some a | _ => none)
    pure (.forIn vs' (← decodeExpr e) (← decodeStmt b))
  | .list [.atom "cfor", i, c, p, b] => do
    pure (.cfor (← decodeStmt i) (← decodeOptExpr c) (← decodeOptExpr p) (← decodeStmt b))
  | .list [.atom "break"] => some .brk
  | .list [.atom "continue"] => some .cont
  | .list (.atom "ret" :: es) => do pure (.ret (← es.mapM decodeExpr))
  | .list [.atom "throw", e] => do pure (.throw (← decodeExpr e))
  | .list [.atom "module", .atom n, b] => do pure (.module n (← decodeStmt b))
  | .list [.atom "switch", e, .list cases, d] => do
    let cs ← cases.mapM (fun x => match x with
      | .list [.list es, s] => do pure ((← es.mapM decodeExpr), (← decodeStmt s))
      | _ => none)
    pure (.switch (← decodeExpr e) cs (← decodeStmt d))
  | .list [.atom "defer", e] => do pure (.defer (← decodeExpr e))
  | .list [.atom "unsup", .atom k] => some (.unsupported k)
  | _ => none
end

end Anko
