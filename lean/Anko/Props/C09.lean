/-
C09 — Errors reach the nearest try; deferred calls run once, LIFO, on every exit.

Theorems over the interpreter model (Anko.Model.Eval: runTryStmt, runStmtsStmt, runDeferStmt,
runDefers, callDeferredFunc, runVMFunc).
-/
import Anko.Proofs.EvalSig
import Anko.Gen.StmtFlow
import Anko.Gen.SingleStmtFlow
import Anko.Props.SingleStmtFlowTable
import Anko.Props.Tie.SingleStmtFlow
import Anko.Props.Tie.StmtFlow
import Anko.Props.Tie.RunFlow
import Anko.Props.Tie.BindFlow
import Anko.Props.Tie.CallFlow
import Anko.Props.Tie.Inventory

set_option linter.unusedSectionVars false
set_option linter.unusedSimpArgs false

namespace Anko.C09
open Anko
variable [FOps] [Prov]

/-! ### try / catch / finally -/

/-- the state in which the try block starts: a fresh child scope -/
def tryStart (s : St) : St := { (s.poll.2.newScope s.poll.2.cur).2 with cur := (s.poll.2.newScope s.poll.2.cur).1 }

/-- A try block that succeeds: the catch block does not run, the finally block runs next. -/
theorem try_success (n : Nat) (t c f : Stmt) (v : String) (s : St) (hp : s.poll.1 = false)
    (hok : (execStmt n t (tryStart s)).err = none) (hf : f ≠ .nilS) :
    execStmt (n + 1) (.tryS t v c f) s = { execStmt n f (execStmt n t (tryStart s)) with cur := s.poll.2.cur } := by
  rw [execStmt.eq_def]
  simp only [hp, tryStart] at *
  cases f <;> simp_all

/-- A try block that fails with an ordinary error: the error is cleared, bound (as a value
carrying its message) to the catch variable in the try scope, and the catch block runs. -/
theorem try_error_runs_catch (n : Nat) (t c : Stmt) (v : String) (s : St) (e : Err) (hp : s.poll.1 = false)
    (herr : (execStmt n t (tryStart s)).err = some e) (hne : e ≠ .interrupt) (hv : v ≠ "") :
    execStmt (n + 1) (.tryS t v c .nilS) s =
      { execStmt n c { ((execStmt n t (tryStart s)).define (execStmt n t (tryStart s)).cur v ⟨false, .err e.msg⟩) with err := none }
        with cur := s.poll.2.cur } := by
  rw [execStmt.eq_def]
  simp only [hp, tryStart] at *
  cases e <;> simp_all <;> (split <;> simp_all)

/-- ... and when the catch block succeeds the finally block runs after it. -/
theorem try_caught_then_finally (n : Nat) (t c f : Stmt) (s : St) (e : Err) (hp : s.poll.1 = false)
    (herr : (execStmt n t (tryStart s)).err = some e) (hne : e ≠ .interrupt) (hf : f ≠ .nilS)
    (hc : (execStmt n c { execStmt n t (tryStart s) with err := none }).err = none) :
    execStmt (n + 1) (.tryS t "" c f) s =
      { execStmt n f (execStmt n c { execStmt n t (tryStart s) with err := none }) with cur := s.poll.2.cur } := by
  rw [execStmt.eq_def]
  simp only [hp, tryStart] at *
  cases e <;> cases f <;> simp_all

/-- The interruption is never caught: neither catch nor finally runs. -/
theorem try_does_not_catch_interrupt (n : Nat) (t c f : Stmt) (v : String) (s : St) (hp : s.poll.1 = false)
    (herr : (execStmt n t (tryStart s)).err = some .interrupt) :
    execStmt (n + 1) (.tryS t v c f) s = { execStmt n t (tryStart s) with cur := s.poll.2.cur } := by
  rw [execStmt.eq_def]
  simp only [hp, tryStart] at *
  simp [herr]

/-- An error that is not caught aborts the statement list: nothing after the failing statement runs. -/
theorem uncaught_error_aborts_list (n : Nat) (st : Stmt) (rest : List Stmt) (s : St) (m : String)
    (h : (execStmt n st s).err = some (.error m)) (h1 : st ≠ .brk) (h2 : st ≠ .cont) :
    execStmts (n + 1) (st :: rest) s = execStmt n st s := by
  cases st <;> simp_all [execStmts]

/-- `throw e` raises an error whose message is the formatted value (an empty message is no error:
newStringError("") is nil). -/
theorem throw_raises (n : Nat) (e : Expr) (s : St) (hp : s.poll.1 = false) (m : Bytes) (str : String)
    (he : (evalExpr n e s.poll.2).err = none) (hm : sprint (evalExpr n e s.poll.2).rv.v = some m)
    (hs : String.fromUTF8? (ByteArray.mk m.toArray) = some str) (hne : str ≠ "") :
    (execStmt (n + 1) (.throw e) s).err = some (.error str) := by
  rw [execStmt.eq_def]
  simp [hp, he, hm, hs, hne]

/-! ### deferred calls -/

/-- `defer f(args)` evaluates the function and its arguments NOW (makeCallArgs) and appends the
call to the invocation's list; nothing is called yet. -/
theorem defer_captures_arguments (n : Nat) (f : Val) (args : List Expr) (va : Bool) (s : St) (cal : Callee)
    (hc : calleeOf s f = some cal) (hok : (makeCallArgs n cal args va s).2.err = none) :
    registerDefer (n + 1) f args va s =
      { (makeCallArgs n cal args va s).2 with
        defers := (makeCallArgs n cal args va s).2.defers ++
          [⟨f, (makeCallArgs n cal args va s).1.1, (makeCallArgs n cal args va s).1.2⟩],
        rv := nilRV } := by
  rw [registerDefer.eq_def]
  simp [hc, hok]

/-- runDefers takes the calls one at a time from the front of the list it is given (the
registration list reversed: LIFO), each exactly once. -/
theorem runDefers_step (n : Nat) (d : Deferred) (ds : List Deferred) (rv : RV) (err : Option Err) (s : St) :
    runDefers (n + 1) (d :: ds) rv err s =
      runDefers n ds rv
        (match (callFn n d.fn d.args d.callSlice { s with err := none }).err with
          | some e => (match err with | none => some e | some .ret => some e | some x => some x)
          | none => err)
        (callFn n d.fn d.args d.callSlice { s with err := none }) := by
  rw [runDefers.eq_def]
  rfl

theorem runDefers_done (n : Nat) (rv : RV) (err : Option Err) (s : St) :
    runDefers (n + 1) [] rv err s = { s with rv := rv, err := err } := by
  rw [runDefers.eq_def]

/-- Deferred calls do not alter the invocation's result value. -/
theorem runDefers_keeps_result : ∀ (ds : List Deferred) (n : Nat) (rv : RV) (err : Option Err) (s : St),
    (runDefers n ds rv err s).unsup = none → (runDefers n ds rv err s).rv = rv := by
  intro ds
  induction ds with
  | nil =>
    intro n rv err s h
    cases n with
    | zero => simp only [runDefers, outOfFuel, St.markUnsup] at h; cases hs : s.unsup <;> simp [hs] at h
    | succ n => simp [runDefers_done]
  | cons d ds ih =>
    intro n rv err s h
    cases n with
    | zero => simp only [runDefers, outOfFuel, St.markUnsup] at h; cases hs : s.unsup <;> simp [hs] at h
    | succ n =>
      rw [runDefers_step] at h ⊢
      exact ih n rv _ _ h

/-- An error the body raised survives the deferred calls: their own errors surface only if
the body did not fail. -/
theorem runDefers_error_precedence : ∀ (ds : List Deferred) (n : Nat) (rv : RV) (m : String) (s : St),
    (runDefers n ds rv (some (.error m)) s).unsup = none →
    (runDefers n ds rv (some (.error m)) s).err = some (.error m) := by
  intro ds
  induction ds with
  | nil =>
    intro n rv m s h
    cases n with
    | zero => simp only [runDefers, outOfFuel, St.markUnsup] at h; cases hs : s.unsup <;> simp [hs] at h
    | succ n => simp [runDefers_done]
  | cons d ds ih =>
    intro n rv m s h
    cases n with
    | zero => simp only [runDefers, outOfFuel, St.markUnsup] at h; cases hs : s.unsup <;> simp [hs] at h
    | succ n =>
      rw [runDefers_step] at h ⊢
      have hfix : (match (callFn n d.fn d.args d.callSlice { s with err := none }).err with
          | some e => (match (some (Err.error m) : Option Err) with | none => some e | some .ret => some e | some x => some x)
          | none => some (Err.error m)) = some (Err.error m) := by
        cases (callFn n d.fn d.args d.callSlice { s with err := none }).err <;> rfl
      rw [hfix] at h ⊢
      exact ih n rv m _ h

/-- Every exit of a script function invocation - normal end, return, error - goes through
runDefers with the invocation's registered calls in reverse registration order. -/
theorem invocation_runs_defers (n : Nat) (id : Nat) (c : Closure) (args : List RV) (s : St)
    (hc : s.closures[id]? = some c) (hva : c.vararg = false) (hlen : c.params.length ≤ args.length) :
    let callee : St := { ((s.newScope c.env).2.defineAll (s.newScope c.env).1 (c.params.zip (args.take c.params.length))) with
        cur := (s.newScope c.env).1, rv := nilRV, err := none, defers := [] }
    let r1 := execStmt n c.body callee
    r1.defers ≠ [] →
    ∃ r2, r2 = runDefers n r1.defers.reverse r1.rv r1.err { r1 with defers := [] } ∧
      (callFn (n + 1) (.fn id) args false s).scopes = r2.scopes ∧
      (callFn (n + 1) (.fn id) args false s).trace = r2.trace := by
  intro callee r1 hd
  refine ⟨_, rfl, ?_, ?_⟩
  all_goals
    have hlen' : ¬ (min c.params.length args.length < c.params.length) := by omega
    simp only [callFn, hc, hva, Bool.false_eq_true, if_false, List.append_nil, List.length_take]
    simp only [hlen', if_false]
    have hne : r1.defers.isEmpty = false := by
      cases h : r1.defers with
      | nil => exact absurd h hd
      | cons a b => rfl
    simp only [callee, r1] at hne ⊢
    simp only [hne, Bool.false_eq_true, if_false]
    split <;> rfl

/-- A call never touches the CALLER's pending deferred calls: whatever the callee is (script function, Go
function, not a function), whatever it registers, runs and fails with, and however deep it recurses into
itself, the caller gets back exactly the list it had - each invocation works on a list of its own. -/
theorem call_leaves_callers_defers (fuel : Nat) (f : Val) (args : List RV) (cs : Bool) (s : St) :
    (callFn fuel f args cs s).defers = s.defers := by
  cases fuel with
  | zero => simp [callFn, outOfFuel, St.markUnsup]
  | succ n =>
    cases f <;> simp only [callFn]
    all_goals repeat' split
    all_goals first | rfl | simp [St.markUnsup, St.fail]

/-- The top level behaves like an invocation: RunContext runs the pending top-level defers. -/
theorem program_runs_defers (fuel : Nat) (p : Stmt) (s : St) (hd : (execStmt fuel p s).defers ≠ []) :
    (runProgram fuel p s).trace =
      (runDefers fuel (execStmt fuel p s).defers.reverse (execStmt fuel p s).rv (execStmt fuel p s).err
        { execStmt fuel p s with defers := [] }).trace := by
  unfold runProgram
  have hne : (execStmt fuel p s).defers.isEmpty = false := by
    cases h : (execStmt fuel p s).defers with
    | nil => exact absurd h hd
    | cons a b => rfl
  simp only [hne, Bool.false_eq_true, if_false]
  split <;> rfl


/-! ### try / catch / finally and the deferred calls in the source (regenerated: Gen/StmtFlow)

runTryStmt: the try block runs in a scope of its own; an interruption leaves at once (catch does not see it); any other error is bound
to the catch variable, cleared, and the catch block runs; an error of the catch block leaves at once (finally is skipped - the behaviour
the model mirrors); otherwise finally runs; the scope is restored on every way out. runDefers: result and error of the body are kept,
the deferred calls run last-registered first, each with a clear error register, an error they raise surfaces only when the body did not
fail, the kept result is put back. -/
/-- runTryStmt and runDefers -/
def tryAndDeferFlow : List (String × String) := [
  ("runTryStmt", "env := ri.env"),
  ("runTryStmt", "ri.env = env.NewEnv()"),
  ("runTryStmt", "ri.stmt = stmt.Try"),
  ("runTryStmt", "ri.runSingleStmt()"),
  ("runTryStmt", "E != nil && E == ErrInterrupt => ri.env = env"),
  ("runTryStmt", "E != nil && E == ErrInterrupt => return"),
  ("runTryStmt", "E != nil => ri.stmt = stmt.Catch"),
  ("runTryStmt", "E != nil && stmt.Var != \"\" => ri.env.DefineValue(stmt.Var, ValueOf(E))"),
  ("runTryStmt", "E != nil => E = nil"),
  ("runTryStmt", "E != nil => ri.runSingleStmt()"),
  ("runTryStmt", "E != nil && E != nil => ri.env = env"),
  ("runTryStmt", "E != nil && E != nil => return"),
  ("runTryStmt", "stmt.Finally != nil => ri.stmt = stmt.Finally"),
  ("runTryStmt", "stmt.Finally != nil => ri.runSingleStmt()"),
  ("runTryStmt", "ri.env = env"),
  ("runDefers", "rv, err := unalias(R), E"),
  ("runDefers", "defers := ri.defers"),
  ("runDefers", "ri.defers = nil"),
  ("runDefers", "for i := len(defers) - 1; i >= 0; i-- => E = nil"),
  ("runDefers", "for i := len(defers) - 1; i >= 0; i-- => ri.callDeferredFunc(defers[i])"),
  ("runDefers", "for i := len(defers) - 1; i >= 0; i-- && (E != nil && (err == nil || err == ErrReturn)) => err = E"),
  ("runDefers", "R = rv"),
  ("runDefers", "E = err")
]

theorem try_and_defers_move_control_as_modelled :
    Gen.StmtFlow.leaves.filter (fun l => l.1 == "runTryStmt" || l.1 == "runDefers") = tryAndDeferFlow := by decide +kernel

/-! ### The statement dispatcher, return, defer and the call of a deferred function in the source (regenerated: Gen/SingleStmtFlow)

Every leaf statement of runSingleStmt (the context poll at every statement, expression statements, throw with its conversions of the thrown value, break /
continue, go), runReturnStmt, runDeferStmt (the callee and the arguments are evaluated when the defer statement runs) and callDeferredFunc (the
call under a recover), with the conditions it stands under, is the one written down in Props/SingleStmtFlowTable next to the model's execStmt. Any edit of these functions - also a harmless one - breaks this obligation by name; the check then
searches model and implementation for a failing input (DESIGN.md 13.3). -/
theorem throw_return_and_defer_statements_are_the_modelled_ones : Gen.SingleStmtFlow.leaves = Tables.singleStmtFlow := Tie.singleStmtFlow

/-! ### Shared source ties

The code this property is anchored in is also written down, leaf statement by leaf statement, by the tables below (each decided once in
Props/Tie, `decide +kernel`, against the table regenerated from /repo on this run). A change of that code breaks the tie by name here too, and the check of
this property then searches for a failing input - so a change that breaks this property through code whose primary table belongs to another
property is not overlooked. -/
/-- the branch, loop, try and defer functions (vmStmt.go) -/
theorem source_tie_StmtFlow : Gen.StmtFlow.leaves = Tables.stmtFlow := Tie.stmtFlow
/-- the entry points, recoverFunc, newError, type and value construction -/
theorem source_tie_RunFlow : Gen.RunFlow.leaves = Tables.runFlow := Tie.runFlow
/-- function literals, module, var and assignment statements -/
theorem source_tie_BindFlow : Gen.BindFlow.leaves = Tables.bindFlow := Tie.bindFlow
/-- the call machinery (vmExprFunction.go) -/
theorem source_tie_CallFlow : Gen.CallFlow.leaves = Tables.callFlow := Tie.callFlow


/-! ### Declaration inventory

Nothing was added to the packages this property is anchored in: their top-level declarations (functions, methods, variables, constants, types with
the fields of struct types), regenerated from /repo on this run, are the audited ones (Props/Tie/Inventory). A helper, a package-level table or a
file added there - code no flow table can pin - breaks the tie by name and makes this property's check search for a failing input. -/
/-- vm/ -/
theorem declarations_of_Vm_are_the_audited_ones : Tie.ofPkg "vm" Gen.Inventory.decls = Tie.ofPkg "vm" Tables.inventory := Tie.inventoryVm

end Anko.C09
