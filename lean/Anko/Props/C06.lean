/-
C06 — Equality is one coherent relation.

Theorems over the equality model (Anko.Model.Equal, mirrored from `equal` in vm/vm.go with
reflect.DeepEqual specialised to the value universe; `in` and `switch` as in
invokeIncludeExpr / runSwitchStmt).  Float comparison is abstract (`FOps`); the two IEEE
facts used are explicit hypotheses: `FEqSymm` (== is symmetric) and `FEqLeGe`
(x == y iff x <= y and y <= x).
-/
import Anko.Model.BinOp
import Anko.Proofs.Equal
import Anko.Gen.EqualFlow
import Anko.Props.Tie.Inventory
import Anko.Props.Tie.StmtFlow
import Anko.Props.Tie.ExprFlow

namespace Anko.C06
open Anko
variable [FOps]

/-- x == y exactly when x <= y and y <= x (IEEE: false whenever a NaN is involved). -/
def FEqLeGe : Prop := ∀ a b : I64, FOps.eq a b = (FOps.le a b && FOps.le b a)

theorem normStrNum_symm (l r : Val) :
    normStrNum r l = (normStrNum l r).map (fun o => o.map (fun p => (p.2, p.1))) := by
  cases l <;> cases r <;> simp [normStrNum, isNumV, Val.kind] <;>
    (try (cases numOfStr _ <;> simp)) <;> (try (rename_i x; cases x <;> simp))

theorem numEq_symm (h : FEqSymm) (l r : Val) : numEq l r = numEq r l := by
  cases l <;> cases r <;> simp [numEq, h _ _, Bool.beq_comm]
  all_goals exact Bool.beq_comm

theorem boolEq_symm (a b : Option (Option Bool)) : boolEq a b = boolEq b a := by
  cases a with
  | none => cases b with
    | none => rfl
    | some y => cases y <;> rfl
  | some x => cases b with
    | none => cases x <;> rfl
    | some y => cases x <;> cases y <;> simp [boolEq, Bool.beq_comm]

theorem equalNorm_symm (h : FEqSymm) (a b : Val) : equalNorm a b = equalNorm b a := by
  unfold equalNorm
  rw [numEq_symm h a b, deepEq_symm h a b, Bool.and_comm (isNumV a), boolEq_symm,
    Bool.or_comm (decide (a.kind = Kind.bool))]

theorem equalCore_symm (h : FEqSymm) (l r : Val) : equalCore l r = equalCore r l := by
  unfold equalCore
  rw [normStrNum_symm l r]
  cases normStrNum l r with
  | none => rfl
  | some o =>
    cases o with
    | none => rfl
    | some p => simp only [Option.map]; exact equalNorm_symm h _ _

/-- `==` is symmetric for every pair of values of the universe. -/
theorem equal_symm (h : FEqSymm) (l r : Val) : equalV l r = equalV r l := by
  cases l <;> cases r <;> simp only [equalV] <;> first | rfl | exact equalCore_symm h _ _

/-- `!=` is the exact negation of `==`. -/
theorem ne_is_not_eq (l r : RV) :
    binop "!=" l r = (match binop "==" l r with
      | .ok (.bool b) => .ok (.bool (!b))
      | x => x) := by
  simp only [binop]
  cases equalV l.unwrap.v r.unwrap.v <;> simp [optBool]

/-- `x in [y]` is `x == y`; membership in general is a disjunction of `==` tests. -/
theorem in_singleton (x y : RV) : inOp x ⟨false, .list [y.unwrap.v]⟩ = binop "==" x y := by
  simp only [inOp, binop, RV.unwrap, anyEq]
  cases equalV x.v y.v with
  | none => rfl
  | some b => cases b <;> rfl

theorem in_cons (x : Val) (e : Val) (es : List Val) :
    anyEq x (e :: es) = (match equalV x e with
      | none => none
      | some true => some true
      | some false => anyEq x es) := rfl

/-- `switch` matches a case exactly when `==` holds between subject and case value
(the interpreter passes them in the opposite order; symmetry makes this the same relation). -/
theorem switch_uses_equal (h : FEqSymm) (subject case : RV) :
    switchMatch subject case = binop "==" subject case := by
  simp only [switchMatch, binop]
  rw [equal_symm h]

/-! ### What the relation is on each class of operands -/

theorem int_int (a b : I64) : equalV (.int a) (.int b) = some (a == b) := by
  simp [equalV, equalCore, equalNorm, normStrNum, isNumV, Val.kind, numEq]

theorem float_float (a b : I64) : equalV (.float a) (.float b) = some (FOps.eq a b) := by
  simp [equalV, equalCore, equalNorm, normStrNum, isNumV, Val.kind, numEq]

theorem bool_bool (a b : Bool) : equalV (.bool a) (.bool b) = some (a == b) := by
  simp [equalV, equalCore, equalNorm, boolEq, normStrNum, isNumV, Val.kind, tryToBool]

theorem str_str (a b : Bytes) : equalV (.str a) (.str b) = some (a == b) := by
  simp [equalV, equalCore, equalNorm, normStrNum, isNumV, Val.kind, deepEq, deepEqF, Val.size]

/-- nil equals only nil. -/
theorem nil_only_nil (x : Val) : equalV .nil x = some (match x with | .nil => true | _ => false) := by
  cases x <;> rfl

/-- An integer and a float are equal exactly when `<=` and `>=` both hold between them. -/
theorem int_float_eq_iff_le_ge (h : FEqLeGe) (a f : I64) :
    binop "==" ⟨false, .int a⟩ ⟨false, .float f⟩ =
      (match binop "<=" ⟨false, .int a⟩ ⟨false, .float f⟩, binop ">=" ⟨false, .int a⟩ ⟨false, .float f⟩ with
       | .ok (.bool x), .ok (.bool y) => .ok (.bool (x && y))
       | _, _ => .unsupported) := by
  simp [binop, RV.unwrap, equalV, equalCore, equalNorm, normStrNum, isNumV, Val.kind, numEq, cmpOp, isIntKind, withFloats,
    toFloat64, tryToFloat64, optBool, h _ _]

/-- A string and an integer are equal exactly when the string is a decimal numeral of it:
for a string that is a decimal int64 numeral denoting `m`, equality with `n` is `n == m`. -/
theorem int_str_decimal (n m : I64) (s : Bytes) (hs : strToInt s = some m) :
    equalV (.int n) (.str s) = some (n == m) := by
  simp [equalV, equalCore, equalNorm, normStrNum, isNumV, Val.kind, numOfStr, hs, numEq]

/-- ... and a string that denotes no number equals no number. -/
theorem num_str_nonnumeric (n : I64) (s : Bytes) (h1 : strToInt s = none)
    (h2 : FOps.parse s = some none) : equalV (.int n) (.str s) = some false := by
  simp [equalV, equalCore, normStrNum, isNumV, Val.kind, numOfStr, h1, h2]

/-- Containers compare structurally (element-wise DeepEqual, no numeric coercion inside). -/
theorem list_list (xs ys : List Val) : equalV (.list xs) (.list ys) = deepEq (.list xs) (.list ys) := by
  simp [equalV, equalCore, equalNorm, normStrNum, isNumV, Val.kind]

theorem map_map (xs ys : List (Val × Val)) : equalV (.map xs) (.map ys) = deepEq (.map xs) (.map ys) := by
  simp [equalV, equalCore, equalNorm, normStrNum, isNumV, Val.kind]

theorem allOpt_false {α : Type} (f : α → Option Bool) (x : α) : ∀ (xs : List α), x ∈ xs → f x = some false →
    allOpt f xs ≠ some true := by
  intro xs
  induction xs with
  | nil => intro h; cases h
  | cons y ys ih =>
    intro hm hf
    simp only [allOpt]
    rcases List.mem_cons.mp hm with rfl | hm'
    · rw [hf]
      cases allOpt f ys <;> simp
    · have := ih hm' hf
      cases hy : f y <;> cases hys : allOpt f ys <;> simp_all

/-- A key that only ONE of two maps has makes them unequal, whatever value it holds - nil included: an absent
entry is not an entry holding nil. (`{"a": nil} == {"b": nil}` is false.) -/
theorem map_with_a_key_the_other_lacks_is_not_equal (n : Nat) (xs ys : List (Val × Val)) (k v : Val)
    (hmem : (k, v) ∈ xs) (hmiss : mapLookup k ys = none) :
    deepEqF (n + 1) (.map xs) (.map ys) ≠ some true ∧ deepEqF (n + 1) (.map ys) (.map xs) ≠ some true := by
  have hf : ∀ cmp, entryCmp cmp ys (k, v) = some false := by
    intro cmp; simp [entryCmp, hmiss]
  constructor
  · simp only [deepEqF]
    have := allOpt_false (entryCmp (deepEqF n) ys) (k, v) xs hmem (hf _)
    cases h1 : allOpt (entryCmp (deepEqF n) ys) xs <;> cases h2 : allOpt (entryCmp (fun a b => deepEqF n b a) xs) ys <;>
      simp_all [optAnd]
  · simp only [deepEqF]
    have := allOpt_false (entryCmp (fun a b => deepEqF n b a) ys) (k, v) xs hmem (hf _)
    cases h1 : allOpt (entryCmp (deepEqF n) xs) ys <;> cases h2 : allOpt (entryCmp (fun a b => deepEqF n b a) ys) xs <;>
      simp_all [optAnd]

example (n : Nat) : deepEqF (n + 1) (.map [(.str [97], .nil)]) (.map [(.str [98], .nil)]) ≠ some true :=
  (map_with_a_key_the_other_lacks_is_not_equal n _ _ (.str [97]) .nil (by simp) (by simp [mapLookup, keyEq])).1

/-! ### The decision structure of `equal` in the source (regenerated: Gen/EqualFlow)

Every leaf statement of `equal`, `unwrapForEqual`, `numberFromString` and `isNum` (vm/vm.go) with the conditions it stands under is
extracted on every run and compared with the table below, written next to the model: the stages are the ones `equalV` mirrors - open
both interfaces; nil against nil / non-nil (`nil_only_nil`); look through one pointer (`unwrapForEqual`); a number against a string
reads the string as a decimal numeral, the same rule on either side (`normStrNum_symm`, `int_str_decimal`, `num_str_nonnumeric`); two
numbers: int64 comparison unless one is a float (`int_int`, `float_float`, `int_float_eq_iff_le_ge`); a bool against anything through
`tryToBool` (`boolEq_symm`); everything else `reflect.DeepEqual` (`list_list`, `map_map`). A fast path in front of a stage, a stage
moved or dropped, another conversion or a changed guard makes the tables differ. All four uses of the relation - `==`, `!=`, `in`,
`switch` - are calls of this one function (`every_use_of_equality_calls_equal`; `ne_is_not_eq`, `in_cons`, `switch_uses_equal` give the
model side). -/

def equalLeaves : List (String × String) := [
  ("equal", "L.Kind() == Interface && !L.IsNil() => L = L.Elem()"),
  ("equal", "R.Kind() == Interface && !R.IsNil() => R = R.Elem()"),
  ("equal", "lhsIsNil, rhsIsNil := isNil(L), isNil(R)"),
  ("equal", "lhsIsNil && rhsIsNil => return true"),
  ("equal", "(!lhsIsNil && rhsIsNil) || (lhsIsNil && !rhsIsNil) => return false"),
  ("equal", "L = unwrapForEqual(L)"),
  ("equal", "R = unwrapForEqual(R)"),
  ("equal", "!L.IsValid() || !R.IsValid() => return L.IsValid() == R.IsValid()"),
  ("equal", "isNum(L) && R.Kind() == String => var ok bool"),
  ("equal", "isNum(L) && R.Kind() == String => R, ok = numberFromString(R)"),
  ("equal", "(isNum(L) && R.Kind() == String) && !ok => return false"),
  ("equal", "!(isNum(L) && R.Kind() == String) && (L.Kind() == String && isNum(R)) => var ok bool"),
  ("equal", "!(isNum(L) && R.Kind() == String) && (L.Kind() == String && isNum(R)) => L, ok = numberFromString(L)"),
  ("equal", "!(isNum(L) && R.Kind() == String) && (L.Kind() == String && isNum(R)) && !ok => return false"),
  ("equal", "isNum(L) && isNum(R) => lhsKind := L.Kind()"),
  ("equal", "isNum(L) && isNum(R) => rhsKind := R.Kind()"),
  ("equal", "isNum(L) && isNum(R) => lhsIsFloat := lhsKind == Float32 || lhsKind == Float64"),
  ("equal", "isNum(L) && isNum(R) => rhsIsFloat := rhsKind == Float32 || rhsKind == Float64"),
  ("equal", "(isNum(L) && isNum(R)) && (!lhsIsFloat && !rhsIsFloat) => return toInt64(L) == toInt64(R)"),
  ("equal", "(isNum(L) && isNum(R)) && lhsKind == rhsKind => return toFloat64(L) == toFloat64(R)"),
  ("equal", "(isNum(L) && isNum(R)) && (lhsIsFloat && rhsIsFloat) => return numToString(L) == numToString(R)"),
  ("equal", "isNum(L) && isNum(R) => return toFloat64(L) == toFloat64(R)"),
  ("equal", "L.Kind() == Bool || R.Kind() == Bool => lhsB, err := tryToBool(L)"),
  ("equal", "(L.Kind() == Bool || R.Kind() == Bool) && err != nil => return false"),
  ("equal", "L.Kind() == Bool || R.Kind() == Bool => rhsB, err := tryToBool(R)"),
  ("equal", "(L.Kind() == Bool || R.Kind() == Bool) && err != nil => return false"),
  ("equal", "L.Kind() == Bool || R.Kind() == Bool => return lhsB == rhsB"),
  ("equal", "return DeepEqual(L.Interface(), R.Interface())"),
  ("unwrapForEqual", "v.Kind() == Interface && !v.IsNil() => v = v.Elem()"),
  ("unwrapForEqual", "v.Kind() == Ptr && !v.IsNil() => v = v.Elem()"),
  ("unwrapForEqual", "v.Kind() == Interface => v = v.Elem()"),
  ("unwrapForEqual", "return v"),
  ("numberFromString", "for _, r range v.String() && ((r < '0' || r > '9') && r != '+' && r != '-' && r != '.' && r != 'e' && r != 'E' && r != '_') => return v, false"),
  ("numberFromString", "i, err := tryToInt64(v)"),
  ("numberFromString", "err == nil => return ValueOf(i), true"),
  ("numberFromString", "f, err := tryToFloat64(v)"),
  ("numberFromString", "err == nil => return ValueOf(f), true"),
  ("numberFromString", "return v, false"),
  ("isNum", "v.Kind() in {Int, Int8, Int16, Int32, Int64, Uint, Uint8, Uint16, Uint32, Uint64, Uintptr, Float32, Float64} => return true"),
  ("isNum", "return false")
]

theorem equal_is_decided_as_modelled : Gen.EqualFlow.leaves = equalLeaves := by decide +kernel

theorem every_use_of_equality_calls_equal :
    Gen.EqualFlow.callSites = [
      ("vmExpr.go", "invokeIncludeExpr", "equal(itemExpr, runInfo.rv.Index(i))"),
      ("vmOperator.go", "invokeComparisonOperator", "equal(lhsV, runInfo.rv)"),
      ("vmOperator.go", "invokeComparisonOperator", "equal(lhsV, runInfo.rv)"),
      ("vmStmt.go", "runSwitchStmt", "equal(runInfo.rv, value)")] := by
  decide +kernel

/-! ### Non-vacuity -/
example : strToInt [49, 48, 48, 48, 48, 48, 48] = some 1000000#64 := by decide   -- "1000000"
example : strToInt [48, 120, 49, 48] = none := by decide   -- "0x10"

/-! ### Shared source ties

The code this property is anchored in is also written down, leaf statement by leaf statement, by the tables below (each decided once in
Props/Tie against the table regenerated from /repo on this run). -/
/-- the branch, loop, try and defer functions (vmStmt.go): `switch` -/
theorem source_tie_StmtFlow : Gen.StmtFlow.leaves = Tables.stmtFlow := Tie.stmtFlow
/-- the expression dispatcher and multi-operand forms (vmExpr.go): `in` -/
theorem source_tie_ExprFlow : Gen.ExprFlow.leaves = Tables.exprFlow := Tie.exprFlow

/-! ### Declaration inventory

Nothing was added to the packages this property is anchored in: their top-level declarations (functions, methods, variables, constants, types with
the fields of struct types), regenerated from /repo on this run, are the audited ones (Props/Tie/Inventory). A helper, a package-level table or a
file added there - code no flow table can pin - breaks the tie by name and makes this property's check search for a failing input. -/
/-- vm/ -/
theorem declarations_of_Vm_are_the_audited_ones : Tie.ofPkg "vm" Gen.Inventory.decls = Tie.ofPkg "vm" Tables.inventory := Tie.inventoryVm
/-- ast/ -/
theorem declarations_of_Ast_are_the_audited_ones : Tie.ofPkg "ast" Gen.Inventory.decls = Tie.ofPkg "ast" Tables.inventory := Tie.inventoryAst

end Anko.C06
