/-
C04 — Names follow lexical block scope; closures capture their defining scope.

Theorems over the interpreter model (Anko.Model.Eval, mirrored from vm/vmStmt.go,
vm/vmExpr.go, vm/vmExprFunction.go, vm/vmLetExpr.go and the scope operations of env/).
`St.cur` is `runInfo.env`; scopes live in a heap (`St.scopes`) with parent links.
-/
import Anko.Proofs.EvalCur
import Anko.Proofs.EvalMono
import Anko.Gen.ScopeFlow
import Anko.Gen.BindFlow
import Anko.Props.BindFlowTable
import Anko.Props.Tie.BindFlow
import Anko.Props.Tie.EnvFlow
import Anko.Props.Tie.StmtFlow
import Anko.Props.Tie.CallFlow
import Anko.Props.Tie.SingleStmtFlow
import Anko.Props.Tie.Inventory

set_option linter.unusedSectionVars false
set_option linter.unusedSimpArgs false

namespace Anko.C04
open Anko
variable [FOps] [Prov]

/-- After ANY statement finishes — normally, by break/continue/return, by an error (caught
later or not), by interruption, even by running out of model fuel — execution continues in
exactly the scope that was current before it.  Unbounded in program size and nesting. -/
theorem scope_restored_stmt (fuel : Nat) (st : Stmt) (s : St) : (execStmt fuel st s).cur = s.cur :=
  (cur_all fuel).execStmt st s

theorem scope_restored_stmts (fuel : Nat) (ss : List Stmt) (s : St) : (execStmts fuel ss s).cur = s.cur :=
  (cur_all fuel).execStmts ss s

/-- ... and after any expression, including calls of script functions (whose bodies run in
their own scope) and assignments. -/
theorem scope_restored_expr (fuel : Nat) (e : Expr) (s : St) : (evalExpr fuel e s).cur = s.cur :=
  (cur_all fuel).evalExpr e s

theorem scope_restored_call (fuel : Nat) (f : Val) (args : List RV) (cs : Bool) (s : St) :
    (callFn fuel f args cs s).cur = s.cur :=
  (cur_all fuel).callFn f args cs s

theorem scope_restored_program (fuel : Nat) (p : Stmt) (s : St) : (runProgram fuel p s).cur = s.cur := by
  unfold runProgram
  have h1 := (cur_all fuel).execStmt p s
  have h2 := (cur_all fuel).runDefers
  grind

/-! ### lookups see only the chain of enclosing scopes -/

/-- the ids on the parent chain of scope `i` (at most `fuel` of them) -/
def chain (scopes : Array Scope) : Nat → Nat → List Nat
  | 0, _ => []
  | fuel + 1, i =>
    if h : i < scopes.size then
      i :: (match scopes[i].parent with
        | some p => chain scopes fuel p
        | none => [])
    else []

/-- A name refers to the nearest enclosing binding and nothing else: if two heaps agree on the
parent chain of scope `i`, every lookup from `i` gives the same answer — bindings of scopes
that are not ancestors (finished blocks, other invocations, module bodies) are invisible. -/
theorem lookup_only_ancestors (a b : Array Scope) :
    ∀ (fuel i : Nat) (name : String), a.size = b.size →
      (∀ j ∈ chain a fuel i, a[j]? = b[j]?) →
      St.lookupFrom a fuel i name = St.lookupFrom b fuel i name := by
  intro fuel
  induction fuel with
  | zero => intro i name _ _; rfl
  | succ n ih =>
    intro i name hsz h
    unfold St.lookupFrom
    by_cases hi : i < a.size
    · have hib : i < b.size := hsz ▸ hi
      have hmem : i ∈ chain a (n + 1) i := by simp [chain, hi]
      have hEq : a[i] = b[i] := by
        have := h i hmem
        simpa [Array.getElem?_eq_getElem hi, Array.getElem?_eq_getElem hib] using this
      simp only [hi, hib, dite_true, hEq]
      cases b[i].vars.lookup name with
      | some v => rfl
      | none =>
        cases hp : b[i].parent with
        | none => rfl
        | some p =>
          apply ih p name hsz
          intro j hj
          apply h j
          simp only [chain, hi, dite_true, hEq, hp, List.mem_cons]
          exact Or.inr hj
    · have hib : ¬ i < b.size := hsz ▸ hi
      simp [hi, hib]

/-- The nearest binding wins: a name bound in the scope itself is found there, whatever the
ancestors hold. -/
theorem lookup_nearest (scopes : Array Scope) (fuel i : Nat) (name : String) (v : RV)
    (hi : i < scopes.size) (h : scopes[i].vars.lookup name = some v) :
    St.lookupFrom scopes (fuel + 1) i name = some (i, v) := by
  simp [St.lookupFrom, hi, h]

/-- Plain assignment updates the nearest existing binding and otherwise creates one in the
current scope only. -/
theorem assign_nearest_else_here (s : St) (name : String) (v : RV) :
    s.assign name v =
      match St.lookupFrom s.scopes (s.scopes.size + 1) s.cur name with
      | some (j, _) => s.define j name v
      | none => s.define s.cur name v := by
  unfold St.assign St.setValue
  cases St.lookupFrom s.scopes (s.scopes.size + 1) s.cur name with
  | none => rfl
  | some p => rfl

/-- `define` touches only the addressed scope. -/
theorem define_other_scope (s : St) (i j : Nat) (name : String) (v : RV) (hne : j ≠ i) :
    (s.define i name v).scopes[j]? = s.scopes[j]? := by
  unfold St.define
  split
  · simp [Array.getElem?_set, Ne.symm hne]
  · rfl

/-- `var`, for-in variables, the catch variable and parameters bind with `define` in the
current scope: the binding is found there afterwards. -/
theorem define_binds_here (s : St) (i : Nat) (name : String) (v : RV) (hi : i < s.scopes.size) :
    (s.define i name v).getValue i name = some v := by
  have key : ∀ (l : List (String × RV)), (St.assocSet name v l).lookup name = some v := by
    intro l
    induction l with
    | nil => simp [St.assocSet, List.lookup]
    | cons x xs ih =>
      obtain ⟨n, x⟩ := x
      simp only [St.assocSet]
      split
      · next h => simp [List.lookup, beq_iff_eq.mp h]
      · next h =>
        have : (name == n) = false := by
          rw [Bool.eq_false_iff]; intro hh; exact h (beq_iff_eq.mpr (beq_iff_eq.mp hh).symm)
        simp [List.lookup, this, ih]
  have hsz : (s.define i name v).scopes.size = s.scopes.size := by
    unfold St.define; simp [hi]
  have hi' : i < (s.define i name v).scopes.size := hsz ▸ hi
  have hvars : (s.define i name v).scopes[i].vars = St.assocSet name v s.scopes[i].vars := by
    unfold St.define; simp [hi]
  unfold St.getValue
  rw [St.lookupFrom]
  simp only [hi', dite_true, hvars, key, Option.map]

/-- Every invocation of a script function runs in a scope allocated for it, whose parent is
the scope the function value captured (not the caller's). -/
theorem newScope_fresh (s : St) (p : Nat) :
    (s.newScope p).1 = s.scopes.size ∧
    (s.newScope p).2.scopes.size = s.scopes.size + 1 ∧
    (s.newScope p).2.scopes[s.scopes.size]? = some ⟨some p, []⟩ ∧
    ∀ j, j < s.scopes.size → (s.newScope p).2.scopes[j]? = s.scopes[j]? := by
  refine ⟨rfl, by simp [St.newScope], by simp [St.newScope], ?_⟩
  intro j hj
  simp [St.newScope, Array.getElem?_push, Nat.ne_of_lt hj]

/-! ### the scope heap only grows (global invariant of whole runs) -/

/-- Along ANY run - any program, any depth of calls, loops, errors, interruption - scopes are only
ever appended and no existing scope changes its parent: the chain a closure captured stays the
chain it captured, and a scope allocated for one invocation is never re-used for another (new
ids are beyond every id that existed before). -/
theorem parent_links_never_change (fuel : Nat) (p : Stmt) (s : St) (i : Nat) (hi : i < s.scopes.size) :
    ((runProgram fuel p s).scopes[i]?).map (·.parent) = (s.scopes[i]?).map (·.parent) :=
  (mono_runProgram fuel p s).parent_stable i hi

theorem scope_ids_never_reused (fuel : Nat) (st : Stmt) (s : St) (p : Nat) :
    s.scopes.size ≤ ((execStmt fuel st s).newScope p).1 := by
  have := ((mono_all fuel).execStmt st s).sizes.1
  simpa [St.newScope] using this

/-- A function value keeps denoting the same closure - parameters, body and captured scope - for
the rest of the run, whatever executes in between. -/
theorem closures_are_immutable (fuel : Nat) (st : Stmt) (s : St) (id : Nat) (hid : id < s.closures.size) :
    (execStmt fuel st s).closures[id]? = s.closures[id]? :=
  ((mono_all fuel).execStmt st s).closure_stable id hid

theorem closures_are_immutable_expr (fuel : Nat) (e : Expr) (s : St) (id : Nat) (hid : id < s.closures.size) :
    (evalExpr fuel e s).closures[id]? = s.closures[id]? :=
  ((mono_all fuel).evalExpr e s).closure_stable id hid

/-! ### a `var` statement binds after ALL its right sides are evaluated -/

/-- `var n1, n2, ... = e1, e2, ...`: every right side is evaluated first, left to right, in the bindings that
held before the statement; if one of them fails, the statement ends in the state that evaluation left -
NO name of the statement is bound (a later right side never sees an earlier name half-declared, and a
failing initialiser leaves nothing behind). -/
theorem var_failing_initialiser_binds_nothing (fuel : Nat) (names : List String) (es : List Expr) (s : St)
    (hp : s.poll.1 = false)
    (hn : 1 ≤ names.length) (he : 1 ≤ es.length) (herr : (evalList fuel es s.poll.2).2.err.isSome = true) :
    execStmt (fuel + 1) (.varS names es) s = (evalList fuel es s.poll.2).2 := by
  unfold execStmt
  have h1 : ¬ (names.length < 1) := by omega
  have h2 : ¬ (es.length < 1) := by omega
  simp +zeta only [hp, h1, h2, herr, decide_false, Bool.false_eq_true, Bool.or_self, if_false, if_true]

/-- ... and if all succeed and there are as many values as names (or one name), the names are bound, in the
current scope only, in the state the evaluation of the LAST right side left (`s.poll`: the statement first
polls the context; `hp` says the run is not being cancelled). -/
theorem var_binds_after_all_right_sides (fuel : Nat) (names : List String) (es : List Expr) (s : St)
    (hp : s.poll.1 = false)
    (hn : 1 ≤ names.length) (he : 1 ≤ es.length) (hok : (evalList fuel es s.poll.2).2.err.isSome = false)
    (hshape : ¬ ((evalList fuel es s.poll.2).1.length = 1 ∧ 1 < names.length)) :
    execStmt (fuel + 1) (.varS names es) s =
      { (evalList fuel es s.poll.2).2.defineAll (evalList fuel es s.poll.2).2.cur (names.zip (evalList fuel es s.poll.2).1)
          with rv := (evalList fuel es s.poll.2).1.getLastD nilRV } := by
  unfold execStmt
  have h1 : ¬ (names.length < 1) := by omega
  have h2 : ¬ (es.length < 1) := by omega
  have h3 : ((evalList fuel es s.poll.2).1.length == 1 && decide (names.length > 1)) = false := by
    by_cases a : (evalList fuel es s.poll.2).1.length = 1 <;> by_cases b : 1 < names.length <;> simp_all
  simp +zeta only [hp, h1, h2, hok, h3, decide_false, Bool.false_eq_true, Bool.or_self, if_false]

/-- a float interface that is never consulted (for closed witnesses without floats) -/
def noFloats : FOps :=
  { add := fun _ _ => 0, sub := fun _ _ => 0, mul := fun _ _ => 0, div := fun _ _ => 0, neg := fun _ => 0,
    lt := fun _ _ => false, le := fun _ _ => false, eq := fun _ _ => false, ofInt := fun _ => 0,
    toInt := fun _ => none, fmt := fun _ => none, parse := fun _ => none }

/-- closed witness: `a = 1; b = 2; if true { var a, b = b, a; r = [a, b] }` leaves `[2, 1]` in `r` -/
example :
    (match (@execStmts noFloats ⟨true⟩ 20
        [.lets [.ident "a"] [.lit (.int 1)], .lets [.ident "b"] [.lit (.int 2)], .lets [.ident "r"] [.lit .nil],
         .ifS (.lit (.bool true))
           (.stmts [.varS ["a", "b"] [.ident "b", .ident "a"], .lets [.ident "r"] [.array [.ident "a", .ident "b"]]]) [] .nilS,
         .expr (.ident "r")]
        (St.init none)).rv.v with | .list [.int 2, .int 1] => true | _ => false) = true := by
  decide +kernel

/-! ### Non-vacuity -/
example : chain #[⟨none, []⟩, ⟨some 0, []⟩, ⟨some 0, []⟩] 5 2 = [2, 0] := by decide

/-! ### the interpreter's own save / restore of the current scope (facts regenerated from vm/vmStmt.go on every run)

The model restores `cur` by construction (`scope_restored_*` above); the Go code does it by hand, with one assignment in front
of every exit of every statement function that enters a scope.  The extractor follows `runInfo.env` through the statement tree
of each such function (abstract states: orig = the scope saved on entry is current again, swapped, mixed) and lists the state
at every `return` and at the end of the body. -/

/-- the one audited exception: runModuleStmt returns with the result of `e.NewModule(name)` in place when that call FAILS; it
fails only for a name containing '.', which the grammar (`MODULE IDENT`) cannot produce -/
def auditedExits : List (String × String × String) := [("runModuleStmt", "return#1", "swapped")]

/-- At EVERY exit of every statement function that enters a scope - each return statement and the end of the body, on every
path - the scope saved on entry has been put back. -/
theorem every_exit_restores_the_scope :
    (Gen.ScopeFlow.exits.filter (fun e => !auditedExits.contains e)).all (fun e => e.2.2 == "orig") = true ∧
    auditedExits.all (fun e => Gen.ScopeFlow.exits.contains e) = true := by decide

/-- the functions that enter a scope are the ones the model opens a scope in (if / try / loops / switch / module) -/
theorem scope_entering_functions_are_the_modelled_ones :
    Gen.ScopeFlow.scopeEnteringFunctions = ["runCForStmt", "runForStmt", "runIfStmt", "runLoopStmt", "runModuleStmt", "runSwitchStmt", "runTryStmt"] := by
  decide

/-! ### Where bindings and scopes are made in the source (regenerated: Gen/BindFlow)

Every leaf statement of funcExpr (the function literal: the scope a call gets is a child of the DEFINING scope, parameters are defined in it, the name
of a named function is bound in the defining scope), runModuleStmt, runVarStmt and runLetsStmt, with the conditions it stands under, is the one
written down in Props/BindFlowTable next to the model's callFn / execStmt. Any edit of these functions - also a harmless one - breaks this obligation by name; the check then
searches model and implementation for a failing input (DESIGN.md 13.3). -/
theorem bindings_are_made_where_modelled : Gen.BindFlow.leaves = Tables.bindFlow := Tie.bindFlow

/-! ### Shared source ties

The code this property is anchored in is also written down, leaf statement by leaf statement, by the tables below (each decided once in
Props/Tie, `decide +kernel`, against the table regenerated from /repo on this run). A change of that code breaks the tie by name here too, and the check of
this property then searches for a failing input - so a change that breaks this property through code whose primary table belongs to another
property is not overlooked. -/
/-- the environment API (env/*.go) -/
theorem source_tie_EnvFlow : Gen.EnvFlow.leaves = Tables.envFlow := Tie.envFlow
/-- the branch, loop, try and defer functions (vmStmt.go) -/
theorem source_tie_StmtFlow : Gen.StmtFlow.leaves = Tables.stmtFlow := Tie.stmtFlow
/-- the call machinery (vmExprFunction.go) -/
theorem source_tie_CallFlow : Gen.CallFlow.leaves = Tables.callFlow := Tie.callFlow
/-- the statement dispatcher, return, defer, deferred calls -/
theorem source_tie_SingleStmtFlow : Gen.SingleStmtFlow.leaves = Tables.singleStmtFlow := Tie.singleStmtFlow


/-! ### Declaration inventory

Nothing was added to the packages this property is anchored in: their top-level declarations (functions, methods, variables, constants, types with
the fields of struct types), regenerated from /repo on this run, are the audited ones (Props/Tie/Inventory). A helper, a package-level table or a
file added there - code no flow table can pin - breaks the tie by name and makes this property's check search for a failing input. -/
/-- vm/ -/
theorem declarations_of_Vm_are_the_audited_ones : Tie.ofPkg "vm" Gen.Inventory.decls = Tie.ofPkg "vm" Tables.inventory := Tie.inventoryVm
/-- env/ -/
theorem declarations_of_Env_are_the_audited_ones : Tie.ofPkg "env" Gen.Inventory.decls = Tie.ofPkg "env" Tables.inventory := Tie.inventoryEnv

end Anko.C04
