/-
C20 — A value behaves the same wherever it came from.

In the model a value read from a slice element, a map entry, a struct field or returned by a Go
function declared to return interface{} is an `RV` with `ity = true` (reflect kind Interface).
The theorems state that every operation the interpreter performs on operands depends on them
only through the dynamic value `RV.v`: the flag - the provenance - is invisible.  The last section
lifts this to the WHOLE evaluator: the model is parametrised by the provenance policy (`Prov.wrap`:
which flag containers and interface-returning Go functions hand out); the real interpreter
(`wrap = true`) and the flag-free reading (`wrap = false`, no value is ever interface-typed) produce,
for every program at every fuel and every cancellation point, the same trace, error status, result
value and bindings (Anko.Proofs.EvalProv*: a simulation through all 28 functions of the evaluator).
-/
import Anko.Model.Eval
import Anko.Proofs.EvalProvAll
import Anko.Gen.ProvFlow
import Anko.Props.ProvFlowTable
import Anko.Props.Tie.ProvFlow
import Anko.Props.Tie.ContFlow
import Anko.Props.Tie.ExprFlow
import Anko.Props.Tie.ToXFlow
import Anko.Props.Tie.CallFlow
import Anko.Props.Tie.Inventory

set_option linter.unusedSectionVars false

namespace Anko.C20
open Anko
variable [FOps] [Prov]

/-- same dynamic value, whatever the provenance flags -/
def sameValue (a b : RV) : Prop := a.v = b.v

/-- every binary operator (arithmetic, comparison, equality, logical): any provenance of either
operand gives the same result value, dynamic type and error status -/
theorem binop_provenance_invariant (op : String) (a b a' b' : RV) (ha : sameValue a a') (hb : sameValue b b') :
    binop op a b = binop op a' b' := by
  unfold sameValue at ha hb
  simp only [binop, RV.unwrap, ha, hb]

theorem unop_provenance_invariant (op : String) (a a' : RV) (ha : sameValue a a') : unop op a = unop op a' := by
  unfold sameValue at ha
  simp only [unop, RV.unwrap, ha]

/-- membership: both the item and the list may come from anywhere -/
theorem in_provenance_invariant (x l x' l' : RV) (hx : sameValue x x') (hl : sameValue l l') :
    inOp x l = inOp x' l' := by
  unfold sameValue at hx hl
  simp only [inOp, RV.unwrap, hx, hl]

/-- switch: subject and case values -/
theorem switch_provenance_invariant (s c s' c' : RV) (hs : sameValue s s') (hc : sameValue c c') :
    switchMatch s c = switchMatch s' c' := by
  unfold sameValue at hs hc
  simp only [switchMatch, RV.unwrap, hs, hc]

/-- conditions (if, ?:, loops, !, && ||) -/
theorem condition_provenance_invariant (a a' : RV) (ha : sameValue a a') : toBoolRV a = toBoolRV a' := by
  unfold sameValue at ha
  simp only [toBoolRV, ha]

/-- indices, slice bounds, make sizes -/
theorem index_provenance_invariant (a a' : RV) (ha : sameValue a a') : tryToIntRV a = tryToIntRV a' := by
  unfold sameValue at ha
  simp only [tryToIntRV, ha]

/-- nil test of `??` and of the map-item statement -/
theorem nil_test_provenance_invariant (a a' : RV) (ha : sameValue a a') : isNilRV a = isNilRV a' := by
  unfold sameValue at ha
  simp only [isNilRV, ha]

/-- conversion to a Go parameter type -/
theorem conversion_provenance_invariant (a a' : RV) (t : Ty) (ha : sameValue a a') (ht : t ≠ .iface) :
    convertTo a t = convertTo a' t := by
  unfold sameValue at ha
  cases t with
  | iface => exact absurd rfl ht
  | int64 => simp only [convertTo, ha]

/-- a value keeps its dynamic type through any number of hops: wrapping and unwrapping never
touch `v` -/
theorem hops_keep_value (r : RV) : (RV.wrap r.v).unwrap.v = r.v ∧ (elemRV r.v).v = r.v ∧ r.unwrap.v = r.v :=
  ⟨rfl, rfl, rfl⟩

/-- the callee of a call: any provenance of the function value -/
theorem callee_provenance_invariant (s : St) (f f' : RV) (h : sameValue f f') : calleeOf s f.v = calleeOf s f'.v := by
  unfold sameValue at h
  rw [h]

example : sameValue ⟨true, .int 3⟩ ⟨false, .int 3⟩ := rfl

/-! ### the whole evaluator -/

/-- the real interpreter / the flag-free reading -/
def realPolicy : Prov := ⟨true⟩
def flagFree : Prov := ⟨false⟩

/-- Any two provenance policies, any program, any fuel, any pair of start states equal up to flags:
the runs end in states equal up to flags.  (`Sim`: scopes with every binding, closures, trace, poll
counter, cancellation point, unsupported marker, current scope, error status, result value and
pending defers agree once every interface flag is cleared.) -/
theorem whole_program_provenance_invariant (P Q : Prov) (fuel : Nat) (p : Stmt) (s t : St) (h : Sim s t) :
    Sim (@runProgram _ P fuel p s) (@runProgram _ Q fuel p t) := prov_runProgram P Q fuel p h

/-- ... in particular the interpreter is indistinguishable from one in which no value is ever
interface-typed: same probe trace (every call of a host function with its arguments), same error
status, same result value, same number of context polls - for every program. -/
theorem interface_flag_is_unobservable (fuel : Nat) (p : Stmt) (cancelAt : Option Nat) :
    (@runProgram _ realPolicy fuel p (St.init cancelAt)).trace = (@runProgram _ flagFree fuel p (St.init cancelAt)).trace ∧
    (@runProgram _ realPolicy fuel p (St.init cancelAt)).err = (@runProgram _ flagFree fuel p (St.init cancelAt)).err ∧
    (@runProgram _ realPolicy fuel p (St.init cancelAt)).rv.v = (@runProgram _ flagFree fuel p (St.init cancelAt)).rv.v ∧
    (@runProgram _ realPolicy fuel p (St.init cancelAt)).polls = (@runProgram _ flagFree fuel p (St.init cancelAt)).polls ∧
    (@runProgram _ realPolicy fuel p (St.init cancelAt)).unsup = (@runProgram _ flagFree fuel p (St.init cancelAt)).unsup := by
  have h := whole_program_provenance_invariant realPolicy flagFree fuel p _ _ (Sim.refl (St.init cancelAt))
  exact ⟨h.trace, h.err, h.rv, h.polls, h.unsup⟩

/-- ... and every variable of every scope holds the same dynamic value at the end -/
theorem final_bindings_provenance_invariant (fuel : Nat) (p : Stmt) (cancelAt : Option Nat) (scope : Nat) (name : String) :
    ((@runProgram _ realPolicy fuel p (St.init cancelAt)).getValue scope name).map (·.v) =
    ((@runProgram _ flagFree fuel p (St.init cancelAt)).getValue scope name).map (·.v) := by
  have h := whole_program_provenance_invariant realPolicy flagFree fuel p _ _ (Sim.refl (St.init cancelAt))
  have := congrArg (Option.map RV.v) (sim_getValue h scope name)
  simpa [Function.comp_def] using this

/-- every function of the evaluator, at every fuel (the induction behind the statements above) -/
theorem every_evaluator_function_provenance_invariant (P Q : Prov) (n : Nat) : ProvIH P Q n := prov_all P Q n

/-- non-vacuity: the two policies do differ on intermediate values (an element read is flagged
under one and plain under the other), yet agree up to the flag -/
example : (@elemRV realPolicy (.int 3)).ity = true ∧ (@elemRV flagFree (.int 3)).ity = false ∧
    (@elemRV realPolicy (.int 3)).v = (@elemRV flagFree (.int 3)).v := ⟨rfl, rfl, rfl⟩

/-! ### Where a value is opened or copied out of its slot in the source (regenerated: Gen/ProvFlow)

Every leaf statement of the unary operators, dereference, address-of, unalias, containerOperand and isNil - the places where an interface wrapper or a
pointer is looked through and where an addressable value is copied - is the one written down in Props/ProvFlowTable next to the model's flag handling
(Prov.wrap / elemRV). Any edit of these functions - also a harmless one - breaks this obligation by name; the check then
searches model and implementation for a failing input (DESIGN.md 13.3). -/
theorem values_are_opened_where_modelled : Gen.ProvFlow.leaves = Tables.provFlow := Tie.provFlow

/-! ### Shared source ties

The code this property is anchored in is also written down, leaf statement by leaf statement, by the tables below (each decided once in
Props/Tie, `decide +kernel`, against the table regenerated from /repo on this run). A change of that code breaks the tie by name here too, and the check of
this property then searches for a failing input - so a change that breaks this property through code whose primary table belongs to another
property is not overlooked. -/
/-- the container paths (index, slice, len, member, make, assignment targets, delete) -/
theorem source_tie_ContFlow : Gen.ContFlow.leaves = Tables.contFlow := Tie.contFlow
/-- the expression dispatcher and multi-operand forms (vmExpr.go) -/
theorem source_tie_ExprFlow : Gen.ExprFlow.leaves = Tables.exprFlow := Tie.exprFlow
/-- the conversions of the numeric tower (vmToX.go) and kind helpers -/
theorem source_tie_ToXFlow : Gen.ToXFlow.leaves = Tables.toXFlow := Tie.toXFlow
/-- the call machinery (vmExprFunction.go) -/
theorem source_tie_CallFlow : Gen.CallFlow.leaves = Tables.callFlow := Tie.callFlow


/-! ### Declaration inventory

Nothing was added to the packages this property is anchored in: their top-level declarations (functions, methods, variables, constants, types with
the fields of struct types), regenerated from /repo on this run, are the audited ones (Props/Tie/Inventory). A helper, a package-level table or a
file added there - code no flow table can pin - breaks the tie by name and makes this property's check search for a failing input. -/
/-- vm/ -/
theorem declarations_of_Vm_are_the_audited_ones : Tie.ofPkg "vm" Gen.Inventory.decls = Tie.ofPkg "vm" Tables.inventory := Tie.inventoryVm

end Anko.C20
