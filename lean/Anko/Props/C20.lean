/-
C20 — A value behaves the same wherever it came from.

In the model a value read from a slice element, a map entry, a struct field or returned by a Go
function declared to return interface{} is an `RV` with `ity = true` (reflect kind Interface).
The theorems state that every operation the interpreter performs on operands depends on them
only through the dynamic value `RV.v`: the flag - the provenance - is invisible.
-/
import Anko.Model.Eval

set_option linter.unusedSectionVars false

namespace Anko.C20
open Anko
variable [FOps]

/-- same dynamic value, whatever the provenance flags -/
def sameValue (a b : RV) : Prop := a.v = b.v

/-- every binary operator (arithmetic, comparison, equality, logical): any provenance of either
operand gives the same result value, dynamic type and error status -/
theorem binop_provenance_invariant (op : String) (a b a' b' : RV) (ha : sameValue a a') (hb : sameValue b b') :
    binop op a b = binop op a' b' := by
  unfold sameValue at ha hb
  simp only [binop, RV.unwrap, ha, hb]

theorem unop_provenance_invariant (op : String) (a a' : RV) (ha : sameValue a a') : unop op a = unop op a' := by
  unfold sameValue at ha
  simp only [unop, RV.unwrap, ha]

/-- membership: both the item and the list may come from anywhere -/
theorem in_provenance_invariant (x l x' l' : RV) (hx : sameValue x x') (hl : sameValue l l') :
    inOp x l = inOp x' l' := by
  unfold sameValue at hx hl
  simp only [inOp, RV.unwrap, hx, hl]

/-- switch: subject and case values -/
theorem switch_provenance_invariant (s c s' c' : RV) (hs : sameValue s s') (hc : sameValue c c') :
    switchMatch s c = switchMatch s' c' := by
  unfold sameValue at hs hc
  simp only [switchMatch, RV.unwrap, hs, hc]

/-- conditions (if, ?:, loops, !, && ||) -/
theorem condition_provenance_invariant (a a' : RV) (ha : sameValue a a') : toBoolRV a = toBoolRV a' := by
  unfold sameValue at ha
  simp only [toBoolRV, ha]

/-- indices, slice bounds, make sizes -/
theorem index_provenance_invariant (a a' : RV) (ha : sameValue a a') : tryToIntRV a = tryToIntRV a' := by
  unfold sameValue at ha
  simp only [tryToIntRV, ha]

/-- nil test of `??` and of the map-item statement -/
theorem nil_test_provenance_invariant (a a' : RV) (ha : sameValue a a') : isNilRV a = isNilRV a' := by
  unfold sameValue at ha
  simp only [isNilRV, ha]

/-- conversion to a Go parameter type -/
theorem conversion_provenance_invariant (a a' : RV) (t : Ty) (ha : sameValue a a') (ht : t ≠ .iface) :
    convertTo a t = convertTo a' t := by
  unfold sameValue at ha
  cases t with
  | iface => exact absurd rfl ht
  | int64 => simp only [convertTo, ha]

/-- a value keeps its dynamic type through any number of hops: wrapping and unwrapping never
touch `v` -/
theorem hops_keep_value (r : RV) : (RV.wrap r.v).unwrap.v = r.v ∧ (elemRV r.v).v = r.v ∧ r.unwrap.v = r.v :=
  ⟨rfl, rfl, rfl⟩

/-- the callee of a call: any provenance of the function value -/
theorem callee_provenance_invariant (s : St) (f f' : RV) (h : sameValue f f') : calleeOf s f.v = calleeOf s f'.v := by
  unfold sameValue at h
  rw [h]

example : sameValue ⟨true, .int 3⟩ ⟨false, .int 3⟩ := rfl

end Anko.C20
