/-
C17 — The AST walker reaches every node of every parsed program.

Property theorems only (helper lemmas: Anko.Proofs.Walk).  The arm table and the schema are
REGENERATED from /repo on every run (Anko.Gen.Walker, Anko.Gen.AstSchema), so
`gen_table_complete` is re-decided by the kernel against what walk.go and ast/*.go say now.
-/
import Anko.Proofs.Walk
import Anko.Gen.AstSchema
import Anko.Gen.Walker
import Anko.Props.Tie.Inventory

namespace Anko.C17
open Anko

/-- Generic core: with a complete arm table, walking a well-formed node with a callback that
never fails returns no error and presents the node and every node below it.  Unbounded in
tree size and depth. -/
theorem walkNode_complete (schema : List KindInfo) (tbl : List WalkArm)
    (hT : tableComplete schema tbl = true) :
    ∀ (n : Nat) (p : Path) (kind : String) (kids : Forest),
      kids.height < n → nodeOk schema kind kids = true → nodeZipOk tbl kind kids = true →
      kids.wf schema tbl = true →
      (walkNode tbl (fun _ => false) n p kind kids).2 = .ok ∧
      p ∈ (walkNode tbl (fun _ => false) n p kind kids).1 ∧
      ∀ q ∈ kids.paths p 0, q ∈ (walkNode tbl (fun _ => false) n p kind kids).1 := by
  intro n
  induction n with
  | zero => intro p kind kids h; omega
  | succ n ih =>
    intro p kind kids hh hok hz hwf
    -- the schema knows the kind, and the table has a complete arm for it
    unfold nodeOk at hok
    cases hfk : findKind schema kind with
    | none => simp [hfk] at hok
    | some ki =>
      simp only [hfk] at hok
      have hmem : ki ∈ schema := List.mem_of_find?_eq_some hfk
      have hname : ki.name = kind := by
        have := List.find?_some hfk
        simpa using this
      rw [tableComplete, List.all_eq_true] at hT
      have hki := hT ki hmem
      rw [hname] at hki
      cases hfa : findArm tbl kind with
      | none => simp [hfa] at hki
      | some arm =>
        simp only [hfa] at hki
        simp only [armComplete, Bool.and_eq_true] at hki
        have hcov := hki.2
        rw [List.all_eq_true] at hcov
        unfold nodeZipOk at hz
        simp only [hfa] at hz
        rw [List.all_eq_true] at hok
        -- every child the arm visits satisfies the induction hypothesis
        have hkids : ∀ k ∈ childOrder arm.visits (kids.indexed 0),
            (walkNode tbl (fun _ => false) n (p ++ [k.idx]) k.kind k.kids).2 = .ok := by
          intro k hk
          have hk' := childOrder_sub _ _ _ hk
          have hw := wf_of_indexed schema tbl kids 0 k hwf hk'
          have hht := height_of_indexed kids 0 k hk'
          exact (ih (p ++ [k.idx]) k.kind k.kids (by omega) hw.1 hw.2.1 hw.2.2).1
        have hl := walkList_ok (walkNode tbl (fun _ => false) n) p _ hkids
        simp only [walkNode, hfa, Bool.false_eq_true, if_false]
        refine ⟨hl.1, List.mem_cons_self, ?_⟩
        intro q hq
        obtain ⟨k, hk, hq⟩ := paths_of_indexed kids p 0 q hq
        have hslot : (slotNames ki).contains k.slot = true := hok k hk
        have hslot' : k.slot ∈ slotNames ki := by simpa using hslot
        have hcovk := hcov k.slot hslot'
        have hin : k ∈ childOrder arm.visits (kids.indexed 0) := mem_childOrder _ _ k hk hcovk hz
        have hw := wf_of_indexed schema tbl kids 0 k hwf hk
        have hht := height_of_indexed kids 0 k hk
        have hrec := ih (p ++ [k.idx]) k.kind k.kids (by omega) hw.1 hw.2.1 hw.2.2
        apply List.mem_cons_of_mem
        rcases hq with rfl | hq
        · exact hl.2 k hin _ hrec.2.1
        · exact hl.2 k hin _ (hrec.2.2 q hq)

/-- `Walk(root, f)` with a never-failing callback on a well-formed program: no error, and
every node of the program is presented. -/
theorem walk_complete (schema : List KindInfo) (tbl : List WalkArm)
    (hT : tableComplete schema tbl = true) (f : Forest) (hwf : f.wf schema tbl = true) :
    (walkTop tbl (fun _ => false) f).2 = .ok ∧
    ∀ q ∈ f.paths [] 0, q ∈ (walkTop tbl (fun _ => false) f).1 := by
  unfold walkTop
  have hroots : ∀ k ∈ f.indexed 0,
      (walkNode tbl (fun _ => false) f.height ([] ++ [k.idx]) k.kind k.kids).2 = .ok ∧
      ([] ++ [k.idx]) ∈ (walkNode tbl (fun _ => false) f.height ([] ++ [k.idx]) k.kind k.kids).1 ∧
      ∀ q ∈ k.kids.paths ([] ++ [k.idx]) 0,
        q ∈ (walkNode tbl (fun _ => false) f.height ([] ++ [k.idx]) k.kind k.kids).1 := by
    intro k hk
    have hw := wf_of_indexed schema tbl f 0 k hwf hk
    have hht := height_of_indexed f 0 k hk
    exact walkNode_complete schema tbl hT f.height _ k.kind k.kids (by omega) hw.1 hw.2.1 hw.2.2
  have hl := walkList_ok (walkNode tbl (fun _ => false) f.height) [] (f.indexed 0)
    (fun k hk => (hroots k hk).1)
  refine ⟨hl.1, ?_⟩
  intro q hq
  obtain ⟨k, hk, hq⟩ := paths_of_indexed f [] 0 q hq
  rcases hq with rfl | hq
  · exact hl.2 k hk _ (hroots k hk).2.1
  · exact hl.2 k hk _ ((hroots k hk).2.2 q hq)

/-- THE REGENERATED OBLIGATION: the arm table extracted from walk.go is complete for the
schema extracted from ast/*.go — every node kind has a canonical arm in the walk function of
its category, and the arm visits every node-bearing field. -/
theorem gen_table_complete : tableComplete Gen.schema Gen.walker = true := by decide

/-- C17 for the code as it is now: `Walk` on any well-formed program, with a callback that
returns no error, returns no error and presents every node. -/
theorem C17_walk_reaches_every_node (f : Forest) (hwf : f.wf Gen.schema Gen.walker = true) :
    (walkTop Gen.walker (fun _ => false) f).2 = .ok ∧
    ∀ q ∈ f.paths [] 0, q ∈ (walkTop Gen.walker (fun _ => false) f).1 :=
  walk_complete Gen.schema Gen.walker gen_table_complete f hwf

/-- Parent before children, for any callback and any table: every node the walk presents has
its parent among the nodes presented earlier. -/
theorem walkNode_parent_first (tbl : List WalkArm) (fails : Path → Bool) :
    ∀ (n : Nat) (p : Path) (kind : String) (kids : Forest) (seen : List Path),
      p.dropLast ∈ seen → parentsOk seen (walkNode tbl fails n p kind kids).1 = true := by
  intro n
  induction n with
  | zero => intro p kind kids seen _; simp [walkNode, parentsOk]
  | succ n ih =>
    intro p kind kids seen hp
    have hp' : seen.contains p.dropLast = true := by simpa using hp
    simp only [walkNode]
    split
    · simp [parentsOk, hp]
    · split
      · simp [parentsOk, hp]
      · simp only [parentsOk, hp', Bool.true_and]
        apply walkList_parentsOk
        · intro k seen' hps
          exact ih (p ++ [k.idx]) k.kind k.kids seen' (by simpa using hps)
        · exact List.mem_cons_self

theorem C17_parent_before_children (tbl : List WalkArm) (fails : Path → Bool) (f : Forest) :
    parentsOk [[]] (walkTop tbl fails f).1 = true := by
  unfold walkTop
  apply walkList_parentsOk
  · intro k seen hps
    exact walkNode_parent_first tbl fails _ _ _ _ seen (by simpa using hps)
  · simp

/-- When the callback returns an error the walk stops at once and returns that error: the
failing node is the last one presented, no earlier presented node failed; and a walk that
did not end in a callback error never saw the callback fail. -/
theorem walkNode_stops_at_first_error (tbl : List WalkArm) (fails : Path → Bool) :
    ∀ (n : Nat) (p : Path) (kind : String) (kids : Forest),
      StopInv fails (walkNode tbl fails n p kind kids) := by
  intro n
  induction n with
  | zero => intro p kind kids; simp [walkNode, StopInv]
  | succ n ih =>
    intro p kind kids
    simp only [walkNode]
    split
    · next h => exact ⟨[], by simp, h, by simp⟩
    · next h =>
      have hp : fails p = false := by simpa using h
      split
      · simp [StopInv, hp]
      · next arm _ =>
        have hl := walkList_stop fails (walkNode tbl fails n) p (fun k => ih _ _ _)
          (childOrder arm.visits (kids.indexed 0))
        simp only [StopInv] at hl ⊢
        generalize walkList (walkNode tbl fails n) p (childOrder arm.visits (kids.indexed 0)) = wr at hl
        obtain ⟨v, e⟩ := wr
        cases e with
        | cbErr q =>
          simp only at hl ⊢
          obtain ⟨v0, h1, h2, h3⟩ := hl
          refine ⟨p :: v0, by simp [h1], h2, ?_⟩
          intro x hx
          rcases List.mem_cons.mp hx with rfl | hx
          · exact hp
          · exact h3 x hx
        | ok =>
          simp only at hl ⊢
          intro x hx
          rcases List.mem_cons.mp hx with rfl | hx
          · exact hp
          · exact hl x hx
        | unknown kd =>
          simp only at hl ⊢
          intro x hx
          rcases List.mem_cons.mp hx with rfl | hx
          · exact hp
          · exact hl x hx
        | fuel =>
          simp only at hl ⊢
          intro x hx
          rcases List.mem_cons.mp hx with rfl | hx
          · exact hp
          · exact hl x hx

theorem C17_stops_at_first_error (tbl : List WalkArm) (fails : Path → Bool) (f : Forest) :
    StopInv fails (walkTop tbl fails f) := by
  unfold walkTop
  exact walkList_stop fails _ [] (fun k => walkNode_stops_at_first_error tbl fails _ _ _ _) _

/-! ### Non-vacuity: a concrete program satisfies the hypotheses -/

/-- `x = a[1:2:3] ?? len(b)` as the forest the harness would send. -/
def sample : Forest :=
  .cons "root" "StmtsStmt"
    (.cons "Stmts" "LetsStmt"
      (.cons "LHSS" "IdentExpr" .nil
      (.cons "RHSS" "NilCoalescingOpExpr"
        (.cons "LHS" "SliceExpr"
          (.cons "Item" "IdentExpr" .nil
          (.cons "Begin" "LiteralExpr" .nil
          (.cons "End" "LiteralExpr" .nil
          (.cons "Cap" "LiteralExpr" .nil .nil))))
        (.cons "RHS" "LenExpr" (.cons "Expr" "IdentExpr" .nil .nil) .nil))
      .nil))
    .nil)
  .nil

example : sample.wf Gen.schema Gen.walker = true := by decide
example : (walkTop Gen.walker (fun _ => false) sample).1.length = sample.size := by decide
example : (walkTop Gen.walker (fun p => p == [0, 0, 1, 0]) sample) =
    ([[0], [0, 0], [0, 0, 1], [0, 0, 1, 0]], .cbErr [0, 0, 1, 0]) := by decide


/-! ### Declaration inventory

Nothing was added to the packages this property is anchored in: their top-level declarations (functions, methods, variables, constants, types with
the fields of struct types), regenerated from /repo on this run, are the audited ones (Props/Tie/Inventory). A helper, a package-level table or a
file added there - code no flow table can pin - breaks the tie by name and makes this property's check search for a failing input. -/
/-- ast/ -/
theorem declarations_of_Ast_are_the_audited_ones : Tie.ofPkg "ast" Gen.Inventory.decls = Tie.ofPkg "ast" Tables.inventory := Tie.inventoryAst
/-- ast/astutil/ -/
theorem declarations_of_Astutil_are_the_audited_ones : Tie.ofPkg "ast/astutil" Gen.Inventory.decls = Tie.ofPkg "ast/astutil" Tables.inventory := Tie.inventoryAstutil

end Anko.C17
