/-
C12 — The environment API behaves as a chain of dictionaries.

Theorems over the heap-of-scopes model of env/*.go (Anko.Model.EnvApi).
-/
import Anko.Model.EnvApi
import Anko.Gen.EnvFlow
import Anko.Props.EnvFlowTable
import Anko.Props.Tie.EnvFlow
import Anko.Props.Tie.Inventory

namespace Anko.C12
open Anko.EnvApi

/-! ### names containing '.' are rejected, and a rejected request changes nothing -/

theorem define_dot_rejected (h : Heap) (i : Nat) (name : String) (v : V) (hd : hasDot name = true) :
    define h i name v = (.err "symbol contains '.'", h) := by simp [define, hd]

theorem defineGlobal_dot_rejected (h : Heap) (i : Nat) (name : String) (v : V) (hd : hasDot name = true) :
    defineGlobal h i name v = (.err "symbol contains '.'", h) := by simp [defineGlobal, define, hd]

theorem defineType_dot_rejected (h : Heap) (i : Nat) (name : String) (t : String) (hd : hasDot name = true) :
    defineType h i name t = (.err "symbol contains '.'", h) := by simp [defineType, hd]

theorem newModule_dot_rejected (h : Heap) (p : Nat) (name : String) (hd : hasDot name = true) :
    newModule h p name = (.err "symbol contains '.'", h) := by simp [newModule, hd]

/-- An invalid request returns an error and leaves every scope unchanged (all operations except
DeepCopy, which cannot fail on a heap whose parent links are valid). -/
theorem error_leaves_heap_unchanged (h : Heap) (op : Op) (hnd : ∀ i, op ≠ .deepCopy i)
    (he : (step h op).1.isErr = true) : (step h op).2 = h := by
  cases op with
  | newEnv p => simp only [step, newEnv] at *; split <;> simp_all [Res.isErr]
  | newModule p n => simp only [step, newModule] at *; split <;> (try split) <;> simp_all [Res.isErr]
  | define i n v => simp only [step, define] at *; split <;> (try split) <;> simp_all [Res.isErr]
  | defineGlobal i n v => simp only [step, defineGlobal, define] at *; split <;> (try split) <;> simp_all [Res.isErr]
  | set i n v => simp only [step, EnvApi.set] at *; split <;> simp_all [Res.isErr]
  | get i n => rfl
  | delete i n => simp [step, delete, Res.isErr] at he
  | deleteGlobal i n =>
    exfalso
    have : ∀ (fuel i : Nat), (deleteGlobal h fuel i n).1.isErr = false := by
      intro fuel
      induction fuel with
      | zero => intro i; rfl
      | succ k ih =>
        intro i
        simp only [deleteGlobal]
        split
        · split
          · rfl
          · split
            · rfl
            · exact ih _
        · rfl
    simp [step, this] at he
  | defineType i n t => simp only [step, defineType] at *; split <;> (try split) <;> simp_all [Res.isErr]
  | defineGlobalType i n t => simp only [step, defineGlobalType, defineType] at *; split <;> (try split) <;> simp_all [Res.isErr]
  | typeOf i n => rfl
  | path i p => rfl
  | copy i => simp only [step, copy] at *; split <;> simp_all [Res.isErr]
  | deepCopy i => exact absurd rfl (hnd i)
  | valueSymbols i => rfl
  | typeSymbols i => rfl
  | setExt i on => simp [step, setExt, Res.isErr] at he
  | addr i n => rfl

/-! ### define / delete touch only the addressed scope -/

theorem modScope_other (h : Heap) (i j : Nat) (f : Scope → Scope) (hne : j ≠ i) :
    (modScope h i f)[j]? = h[j]? := by
  unfold modScope
  split
  · simp [Array.getElem?_set, Ne.symm hne]
  · rfl

theorem modScope_size (h : Heap) (i : Nat) (f : Scope → Scope) : (modScope h i f).size = h.size := by
  unfold modScope; split <;> simp

theorem define_touches_only_addressed (h : Heap) (i j : Nat) (name : String) (v : V) (hne : j ≠ i) :
    (define h i name v).2[j]? = h[j]? := by
  simp only [define]
  split
  · rfl
  · split
    · exact modScope_other h i j _ hne
    · rfl

theorem delete_touches_only_addressed (h : Heap) (i j : Nat) (name : String) (hne : j ≠ i) :
    (delete h i name).2[j]? = h[j]? := modScope_other h i j _ hne

theorem defineType_touches_only_addressed (h : Heap) (i j : Nat) (name t : String) (hne : j ≠ i) :
    (defineType h i name t).2[j]? = h[j]? := by
  simp only [defineType]
  split
  · rfl
  · split
    · exact modScope_other h i j _ hne
    · rfl

/-! ### set updates the nearest existing binding or fails without creating one -/

theorem assocSet_keys {β : Type} (name : String) (v : β) (l : List (String × β))
    (hin : (l.lookup name).isSome = true) : (assocSet name v l).map (·.1) = l.map (·.1) := by
  induction l with
  | nil => simp [List.lookup] at hin
  | cons x xs ih =>
    obtain ⟨n, y⟩ := x
    simp only [assocSet]
    split
    · simp
    · next hne =>
      have : (name == n) = false := by
        rw [Bool.eq_false_iff]; intro hh; exact hne (beq_iff_eq.mpr (beq_iff_eq.mp hh).symm)
      simp only [List.lookup, this] at hin
      simp [ih hin]

theorem set_fails_iff_unbound (h : Heap) (i : Nat) (name : String) (v : V) :
    (set h i name v).1.isErr = true ↔ ownerOf h (h.size + 1) i name = none := by
  simp only [EnvApi.set]
  cases ownerOf h (h.size + 1) i name <;> simp [Res.isErr]

/-- a failing set creates nothing -/
theorem set_never_creates (h : Heap) (i : Nat) (name : String) (v : V)
    (hf : ownerOf h (h.size + 1) i name = none) : set h i name v = (.err ("undefined symbol '" ++ name ++ "'"), h) := by
  simp [EnvApi.set, hf]

/-- a successful set changes exactly the scope that owns the nearest binding, and that scope
keeps its set of names -/
theorem set_updates_owner_only (h : Heap) (i j k : Nat) (name : String) (v : V)
    (ho : ownerOf h (h.size + 1) i name = some j) (hne : k ≠ j) : (set h i name v).2[k]? = h[k]? := by
  simp only [EnvApi.set, ho]
  exact modScope_other h j k _ hne

theorem ownerOf_binds (h : Heap) : ∀ (fuel i j : Nat) (name : String), ownerOf h fuel i name = some j →
    ∃ s, h[j]? = some s ∧ (s.values.lookup name).isSome = true := by
  intro fuel
  induction fuel with
  | zero => intro i j name hh; simp [ownerOf] at hh
  | succ n ih =>
    intro i j name hh
    simp only [ownerOf] at hh
    split at hh
    · next s hs =>
      split at hh
      · next hb => injection hh with hh; subst hh; exact ⟨s, hs, hb⟩
      · split at hh
        · exact ih _ _ _ hh
        · cases hh
    · cases hh

/-! ### lookup order: own table, then this scope's external lookup, then the parent -/

theorem get_own_first (h : Heap) (fuel i : Nat) (name : String) (s : Scope) (v : V)
    (hs : h[i]? = some s) (hv : s.values.lookup name = some v) : get h (fuel + 1) i name = .val v := by
  simp [EnvApi.get, hs, hv]

theorem get_external_after_own (h : Heap) (fuel i : Nat) (name : String) (s : Scope) (v : V)
    (hs : h[i]? = some s) (hv : s.values.lookup name = none) (he : s.ext = true) (hx : extGet name = some v) :
    get h (fuel + 1) i name = .val v := by
  simp [EnvApi.get, hs, hv, he, hx]

theorem get_parent_last (h : Heap) (fuel i p : Nat) (name : String) (s : Scope)
    (hs : h[i]? = some s) (hv : s.values.lookup name = none)
    (hx : (if s.ext then extGet name else none) = none) (hp : s.parent = some p) :
    get h (fuel + 1) i name = get h fuel p name := by
  simp [EnvApi.get, hs, hv, hx, hp]

theorem get_root_undefined (h : Heap) (fuel i : Nat) (name : String) (s : Scope)
    (hs : h[i]? = some s) (hv : s.values.lookup name = none)
    (hx : (if s.ext then extGet name else none) = none) (hp : s.parent = none) :
    get h (fuel + 1) i name = .err ("undefined symbol '" ++ name ++ "'") := by
  simp [EnvApi.get, hs, hv, hx, hp]

theorem assocSet_lookup {β : Type} (name : String) (v : β) (l : List (String × β)) :
    (assocSet name v l).lookup name = some v := by
  induction l with
  | nil => simp [assocSet]
  | cons a rest ih =>
    obtain ⟨n, x⟩ := a
    by_cases hn : n = name
    · subst hn
      simp [assocSet, List.lookup]
    · have h1 : (n == name) = false := by simp [hn]
      have h2 : (name == n) = false := by simp [Ne.symm hn]
      simp only [assocSet, h1, Bool.false_eq_true, if_false, List.lookup, h2, ih]

/-- A child scope is linked to the scope it was created on - whether or not that scope holds anything at that
moment - so a definition made in the parent AFTER the child was created is what the child finds: NewEnv on
`p`, then Define(`p`, name, v), then Get(child, name) yields `v`. -/
theorem child_sees_later_definitions_of_its_creator (h : Heap) (p : Nat) (name : String) (v : V) (fuel : Nat)
    (hp : p < h.size) (hd : hasDot name = false) :
    (newEnv h p).1 = .scope h.size ∧
    get (define (newEnv h p).2 p name v).2 (fuel + 2) h.size name = .val v := by
  have hne : h.size ≠ p := by omega
  have h1 : (newEnv h p).2 = h.push ⟨some p, [], [], false⟩ := by simp [newEnv, hp]
  refine ⟨by simp [newEnv, hp], ?_⟩
  rw [h1]
  have hp1 : p < (h.push (⟨some p, [], [], false⟩ : Scope)).size := by simp; omega
  simp only [define, hd, Bool.false_eq_true, if_false, hp1, if_true, modScope, dif_pos]
  have hc : ((h.push (⟨some p, [], [], false⟩ : Scope)).set p
      { (h.push (⟨some p, [], [], false⟩ : Scope))[p] with values := assocSet name v (h.push (⟨some p, [], [], false⟩ : Scope))[p].values })[h.size]?
      = some ⟨some p, [], [], false⟩ := by
    rw [Array.getElem?_set_ne hp1 (Ne.symm hne)]
    simp
  have hpar : ((h.push (⟨some p, [], [], false⟩ : Scope)).set p
      { (h.push (⟨some p, [], [], false⟩ : Scope))[p] with values := assocSet name v (h.push (⟨some p, [], [], false⟩ : Scope))[p].values })[p]?
      = some { (h.push (⟨some p, [], [], false⟩ : Scope))[p] with values := assocSet name v (h.push (⟨some p, [], [], false⟩ : Scope))[p].values } := by
    simp [hp1]
  rw [show fuel + 2 = (fuel + 1) + 1 from rfl, get_parent_last _ (fuel + 1) h.size p name _ hc (by simp [List.lookup]) (by simp) rfl]
  exact get_own_first _ fuel p name _ v hpar (assocSet_lookup name v _)

/-- built-in type names are consulted last, at the root only -/
theorem type_builtin_last (h : Heap) (fuel i : Nat) (name t : String) (s : Scope)
    (hs : h[i]? = some s) (hv : s.types.lookup name = none)
    (hx : (if s.ext then extType name else none) = none) (hp : s.parent = none) (hb : basicType name = some t) :
    typeOf h (fuel + 1) i name = .ty t := by
  simp [typeOf, hs, hv, hx, hp, hb]

theorem type_own_shadows_builtin (h : Heap) (fuel i : Nat) (name t : String) (s : Scope)
    (hs : h[i]? = some s) (hv : s.types.lookup name = some t) : typeOf h (fuel + 1) i name = .ty t := by
  simp [typeOf, hs, hv]

/-- Type lookups are never remembered: whatever `Type(c, name)` answered before, after `DefineType(p, name, t)`
on the scope `p` that a type-less, lookup-less child `c` hangs under, `Type(c, name)` is `t` - a re-definition
in an enclosing scope (also one that shadows a built-in name) is what inner scopes see from then on. -/
theorem type_redefinition_in_parent_is_seen (h : Heap) (c p : Nat) (name t : String) (fuel : Nat) (sc : Scope)
    (hc : h[c]? = some sc) (hcp : sc.parent = some p) (hne : c ≠ p) (hp : p < h.size)
    (hown : sc.types.lookup name = none) (hext : sc.ext = false) (hd : hasDot name = false) :
    typeOf (defineType h p name t).2 (fuel + 2) c name = .ty t := by
  simp only [defineType, hd, Bool.false_eq_true, if_false, hp, if_true, modScope, dif_pos]
  have hc' : (h.set p { h[p] with types := assocSet name t h[p].types })[c]? = some sc := by
    rw [Array.getElem?_set_ne hp (Ne.symm hne)]; exact hc
  have hp' : (h.set p { h[p] with types := assocSet name t h[p].types })[p]?
      = some { h[p] with types := assocSet name t h[p].types } := by simp
  have step : typeOf (h.set p { h[p] with types := assocSet name t h[p].types }) (fuel + 1 + 1) c name
      = typeOf (h.set p { h[p] with types := assocSet name t h[p].types }) (fuel + 1) p name := by
    simp [typeOf, hc', hown, hext, hcp]
  rw [show fuel + 2 = fuel + 1 + 1 from rfl, step]
  exact type_own_shadows_builtin _ fuel p name t _ hp' (assocSet_lookup name t _)

example : typeOf (defineType #[⟨none, [], [("T", "string")], false⟩, ⟨some 0, [], [], false⟩] 0 "T" "int8").2 3 1 "T" = .ty "int8" := by
  decide
example : get (define (newEnv #[⟨none, [], [], false⟩, ⟨some 0, [], [], false⟩] 1).2 1 "x" (.int 7)).2 3 2 "x" = .val (.int 7) := by
  decide

/-! ### Copy is an independent snapshot -/

theorem copy_is_snapshot (h : Heap) (i : Nat) (s : Scope) (hs : h[i]? = some s) :
    (copy h i).1 = .scope h.size ∧ (copy h i).2[h.size]? = some s ∧
    ∀ j, j < h.size → (copy h i).2[j]? = h[j]? := by
  simp only [copy, hs]
  refine ⟨trivial, by simp, ?_⟩
  intro j hj
  simp [Array.getElem?_push, Nat.ne_of_lt hj]

/-- later changes to the original are invisible to the copy and vice versa: a define on one of
the two scopes leaves the other as it was -/
theorem copy_independent (h : Heap) (i : Nat) (s : Scope) (hs : h[i]? = some s) (name : String) (v : V)
    (hi : i < h.size) :
    (define (copy h i).2 i name v).2[h.size]? = some s ∧
    (define (copy h i).2 h.size name v).2[i]? = some s := by
  have hc := copy_is_snapshot h i s hs
  constructor
  · rw [define_touches_only_addressed _ i h.size name v (Nat.ne_of_gt hi)]; exact hc.2.1
  · rw [define_touches_only_addressed _ h.size i name v (Nat.ne_of_lt hi)]; rw [hc.2.2 i hi]; exact hs

/-! ### histories -/

/-- along any history (without DeepCopy) every failing call leaves the heap exactly as it found it -/
theorem history_errors_change_nothing : ∀ (ops : List Op) (h : Heap), (∀ op ∈ ops, ∀ i, op ≠ .deepCopy i) →
    ∀ (pre : List Op) (op : Op) (post : List Op), ops = pre ++ op :: post →
      (step (run h pre).2 op).1.isErr = true → (step (run h pre).2 op).2 = (run h pre).2 := by
  intro ops h hnd pre op post hsplit he
  apply error_leaves_heap_unchanged _ _ _ he
  intro i
  apply hnd op
  rw [hsplit]
  simp

example : (run init [.define 0 "a" (.int 1), .newEnv 0, .set 1 "a" (.int 2), .get 0 "a", .set 1 "zz" (.int 3), .define 1 "x.y" (.int 1)]).1 =
    [.unit, .scope 1, .unit, .val (.int 2), .err "undefined symbol 'zz'", .err "symbol contains '.'"] := by decide


/-! ### A scope's own bindings are a dictionary, for every history (refinement)

`BOp` = define a name / delete a name on ONE scope; `Dict.step` is the specification (a function from names to optional values); `tblStep` the
model's table operations; `heapStep` the API calls `Define` / `Delete` on scope `i` of the heap. For ANY history the table answers as the dictionary does
(`table_history_is_dictionary`), and `Get` on the scope answers the dictionary's binding when there is one and otherwise exactly what the rest of the
chain answers (`scope_after_history_is_dictionary_then_chain`). A table that lets a deleted name come back (two places holding one name) breaks
`assocDel_lookup_same`. -/

theorem assocSet_lookup_other {β : Type} (name k : String) (v : β) (l : List (String × β)) (hk : k ≠ name) :
    (assocSet name v l).lookup k = l.lookup k := by
  induction l with
  | nil =>
    have : (k == name) = false := by simp [hk]
    simp [assocSet, List.lookup, this]
  | cons a rest ih =>
    obtain ⟨n, x⟩ := a
    by_cases hn : n = name
    · subst hn
      have : (k == n) = false := by simp [hk]
      simp [assocSet, List.lookup, this]
    · have h1 : (n == name) = false := by simp [hn]
      simp only [assocSet, h1, Bool.false_eq_true, if_false, List.lookup]
      cases hkn : (k == n) <;> simp [ih]

theorem assocDel_lookup_same {β : Type} (name : String) (l : List (String × β)) :
    (assocDel name l).lookup name = none := by
  induction l with
  | nil => simp [assocDel]
  | cons a rest ih =>
    obtain ⟨n, x⟩ := a
    by_cases hn : n = name
    · subst hn
      simp [assocDel, ih]
    · have h1 : (n == name) = false := by simp [hn]
      have h2 : (name == n) = false := by simp [Ne.symm hn]
      simp only [assocDel, h1, Bool.false_eq_true, if_false, List.lookup, h2, ih]

theorem assocDel_lookup_other {β : Type} (name k : String) (l : List (String × β)) (hk : k ≠ name) :
    (assocDel name l).lookup k = l.lookup k := by
  induction l with
  | nil => simp [assocDel]
  | cons a rest ih =>
    obtain ⟨n, x⟩ := a
    by_cases hn : n = name
    · subst hn
      have : (k == n) = false := by simp [hk]
      simp [assocDel, List.lookup, this, ih]
    · have h1 : (n == name) = false := by simp [hn]
      simp only [assocDel, h1, Bool.false_eq_true, if_false, List.lookup]
      cases hkn : (k == n) <;> simp [ih]

/-- one step of a binding history on one scope: bind `name` to `v`, or remove the binding of `name` -/
inductive BOp where
  | def_ (name : String) (v : V)
  | del (name : String)

/-- the specification: a scope's own bindings are a dictionary -/
abbrev Dict := String → Option V

def Dict.step (d : Dict) : BOp → Dict
  | .def_ n v => fun k => if k = n then some v else d k
  | .del n => fun k => if k = n then none else d k

/-- the table of the model -/
def tblStep (l : List (String × V)) : BOp → List (String × V)
  | .def_ n v => assocSet n v l
  | .del n => assocDel n l

theorem tblStep_refines (l : List (String × V)) (op : BOp) (k : String) :
    (tblStep l op).lookup k = Dict.step (fun k => l.lookup k) op k := by
  cases op with
  | def_ n v =>
    by_cases hk : k = n
    · subst hk; simp [tblStep, Dict.step, assocSet_lookup]
    · simp [tblStep, Dict.step, hk, assocSet_lookup_other n k v l hk]
  | del n =>
    by_cases hk : k = n
    · subst hk; simp [tblStep, Dict.step, assocDel_lookup_same]
    · simp [tblStep, Dict.step, hk, assocDel_lookup_other n k l hk]

/-- ANY history of definitions and deletions on one table is the same history on a dictionary: what a name denotes afterwards
depends on the last operation on that name only - a deleted name is gone whatever was defined and deleted before. -/
theorem table_history_is_dictionary (ops : List BOp) : ∀ (l : List (String × V)) (k : String),
    (ops.foldl tblStep l).lookup k = ops.foldl Dict.step (fun k => l.lookup k) k := by
  induction ops with
  | nil => intro l k; rfl
  | cons op rest ih =>
    intro l k
    simp only [List.foldl]
    rw [ih (tblStep l op) k]
    have : (fun k => (tblStep l op).lookup k) = Dict.step (fun k => l.lookup k) op := by
      funext k'; exact tblStep_refines l op k'
    rw [this]


/-! the same at the level of the heap of scopes -/

def BOp.ok : BOp → Bool
  | .def_ n _ => !hasDot n
  | .del _ => true

def heapStep (i : Nat) (h : Heap) : BOp → Heap
  | .def_ n v => (define h i n v).2
  | .del n => (EnvApi.delete h i n).2

theorem modScope_same (h : Heap) (i : Nat) (f : Scope → Scope) (s : Scope) (hs : h[i]? = some s) :
    (modScope h i f)[i]? = some (f s) := by
  have hi : i < h.size := by
    rcases Nat.lt_or_ge i h.size with hlt | hge
    · exact hlt
    · simp [Array.getElem?_eq_none hge] at hs
  have hs' : h[i] = s := by simpa [Array.getElem?_eq_getElem hi] using hs
  simp [modScope, hi, hs']

theorem heapStep_scope (i : Nat) (h : Heap) (op : BOp) (s : Scope) (hs : h[i]? = some s) (hok : op.ok = true) :
    (heapStep i h op)[i]? = some { s with values := tblStep s.values op } := by
  have hi : i < h.size := by
    rcases Nat.lt_or_ge i h.size with hlt | hge
    · exact hlt
    · simp [Array.getElem?_eq_none hge] at hs
  cases op with
  | def_ n v =>
    have hd : hasDot n = false := by simpa [BOp.ok] using hok
    simp only [heapStep, define, hd, hi, if_true, Bool.false_eq_true, if_false, tblStep]
    exact modScope_same h i _ s hs
  | del n =>
    simp only [heapStep, EnvApi.delete, tblStep]
    exact modScope_same h i _ s hs

theorem heap_history_scope (i : Nat) (ops : List BOp) : ∀ (h : Heap) (s : Scope), h[i]? = some s → (∀ op ∈ ops, op.ok = true) →
    (ops.foldl (heapStep i) h)[i]? = some { s with values := ops.foldl tblStep s.values } := by
  induction ops with
  | nil => intro h s hs _; simpa using hs
  | cons op rest ih =>
    intro h s hs hok
    simp only [List.foldl]
    have h1 := heapStep_scope i h op s hs (hok op (by simp))
    have := ih (heapStep i h op) _ h1 (fun o ho => hok o (by simp [ho]))
    simpa using this

/-- What a scope answers after ANY history of definitions and deletions made on it: the binding the DICTIONARY semantics gives the name when
there is one (the last definition not followed by a deletion), and otherwise exactly what the rest of the chain answers - the external lookup of the
scope, then the parent. In particular a name deleted last is looked up outside again, whatever was defined and deleted in the scope before. -/
theorem scope_after_history_is_dictionary_then_chain (i : Nat) (ops : List BOp) (h : Heap) (s : Scope) (hs : h[i]? = some s)
    (hok : ∀ op ∈ ops, op.ok = true) (fuel : Nat) (name : String) :
    EnvApi.get (ops.foldl (heapStep i) h) (fuel + 1) i name =
      match ops.foldl Dict.step (fun k => s.values.lookup k) name with
      | some v => .val v
      | none => match (if s.ext then extGet name else none) with
        | some v => .val v
        | none => match s.parent with
          | some p => EnvApi.get (ops.foldl (heapStep i) h) fuel p name
          | none => .err ("undefined symbol '" ++ name ++ "'") := by
  have hsc := heap_history_scope i ops h s hs hok
  have hd := table_history_is_dictionary ops s.values name
  simp only [EnvApi.get, hsc]
  rw [hd]
  rfl


/-- the history of the seeded change that motivated the family (round 11, C04-21): define a, define b, delete a, define b again, delete b - in a child scope
whose parent binds b: the child answers with the parent's b -/
example : EnvApi.get (([BOp.def_ "a" (.int 1), .def_ "b" (.int 2), .del "a", .def_ "b" (.int 3), .del "b"]).foldl (heapStep 1)
    #[⟨none, [("b", .int 200)], [], false⟩, ⟨some 0, [], [], false⟩]) 3 1 "b" = .val (.int 200) := by decide

/-! ### The environment API in the source (regenerated: Gen/EnvFlow)

Every leaf statement of every method of the environment API (env/env.go, envValues.go, envTypes.go), with the conditions it stands
under, is the one written down in Props/EnvFlowTable next to Model/EnvApi. A lookup order changed, a binding created where only an
update is allowed, a dotted name let through, a table of the wrong scope touched, a copy taken in pieces makes the tables differ. -/
theorem environment_methods_are_the_modelled_ones : Gen.EnvFlow.leaves = Tables.envFlow := Tie.envFlow


/-! ### Declaration inventory

Nothing was added to the packages this property is anchored in: their top-level declarations (functions, methods, variables, constants, types with
the fields of struct types), regenerated from /repo on this run, are the audited ones (Props/Tie/Inventory). A helper, a package-level table or a
file added there - code no flow table can pin - breaks the tie by name and makes this property's check search for a failing input. -/
/-- env/ -/
theorem declarations_of_Env_are_the_audited_ones : Tie.ofPkg "env" Gen.Inventory.decls = Tie.ofPkg "env" Tables.inventory := Tie.inventoryEnv

end Anko.C12
