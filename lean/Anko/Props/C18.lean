/-
C18 — The command-line tool reports exactly what the library computes.
The constants come from Anko.Gen.Cli, REGENERATED from anko.go on every run: editing an exit
code, dropping the diagnostic, not passing the prepared environment or not importing the
bundled packages breaks one of these theorems.
-/
import Anko.Model.Cli
import Anko.Gen.CliFlow
import Anko.Props.CliFlowTable
import Anko.Props.Tie.CliFlow
import Anko.Props.Tie.CoreFlow
import Anko.Props.Tie.Inventory

namespace Anko.C18
open Anko

/-- exit 0 if and only if the source could be obtained and parsed and ran without error -/
theorem exit_zero_iff_ok (s : Supply) (r : ExecRes) :
    (cli s r).exit = 0 ↔ (s ≠ .file false ∧ r = .ok) := by
  cases s with
  | dashE => cases r <;> simp [cli, Gen.Cli.exitOk, Gen.Cli.exitExecErr]
  | file rd => cases rd <;> cases r <;> simp [cli, Gen.Cli.exitOk, Gen.Cli.exitExecErr, Gen.Cli.exitReadErr]

/-- 4 on a parse or run error -/
theorem exit_four_on_error (s : Supply) (r : ExecRes) (hs : s ≠ .file false) (hr : r ≠ .ok) :
    (cli s r).exit = 4 := by
  cases s with
  | dashE => cases r <;> simp_all [cli, Gen.Cli.exitExecErr]
  | file rd => cases rd <;> cases r <;> simp_all [cli, Gen.Cli.exitExecErr]

/-- 2 when the file cannot be read (and nothing is executed) -/
theorem exit_two_unreadable (r : ExecRes) :
    (cli (.file false) r).exit = 2 ∧ (cli (.file false) r).executed = false := by
  simp [cli, Gen.Cli.exitReadErr]

/-- exactly one diagnostic line if it fails, none if it succeeds -/
theorem one_diagnostic_iff_failure (s : Supply) (r : ExecRes) :
    (cli s r).diagLines = (if (cli s r).exit = 0 then 0 else 1) := by
  cases s with
  | dashE => cases r <;> simp [cli, Gen.Cli.exitOk, Gen.Cli.exitExecErr, Gen.Cli.diagOk, Gen.Cli.diagExecErr]
  | file rd => cases rd <;> cases r <;>
      simp [cli, Gen.Cli.exitOk, Gen.Cli.exitExecErr, Gen.Cli.exitReadErr, Gen.Cli.diagOk, Gen.Cli.diagExecErr, Gen.Cli.diagReadErr]

/-- the source runs in the prepared environment (script arguments as `args`, core builtins,
bundled packages linked in) and the process exits with the computed status -/
theorem prepared_environment :
    Gen.Cli.executeUsesPreparedEnv = true ∧ Gen.Cli.setupDefinesArgs = true ∧
    Gen.Cli.setupImportsCore = true ∧ Gen.Cli.importsBundledPackages = true ∧
    Gen.Cli.mainExitsWithRunResult = true := by decide

/-- the verdict agrees with the library: success exactly when vm.Execute returns no error -/
theorem verdict_agrees_with_library (s : Supply) (r : ExecRes) (hs : s ≠ .file false) :
    ((cli s r).exit = 0 ↔ r = .ok) ∧ (cli s r).executed = true := by
  cases s with
  | dashE => cases r <;> simp [cli, Gen.Cli.exitOk, Gen.Cli.exitExecErr]
  | file rd => cases rd <;> cases r <;> simp_all [cli, Gen.Cli.exitOk, Gen.Cli.exitExecErr]

example : cli (.file true) .runErr = ⟨4, 1, true⟩ := by decide
example : cli .dashE .ok = ⟨0, 0, true⟩ := by decide

/-! ### The command-line tool in the source (regenerated: Gen/CliFlow)

Every leaf statement of main, parseFlags, setupEnv, runNonInteractive and runInteractive, with the conditions it stands under, is the one written down in
Props/CliFlowTable next to Model/Cli (the decision table of Gen/Cli covers the exit codes; this covers how the source text is obtained, which
arguments the script sees and that nothing is printed on success). Any edit of these functions - also a harmless one - breaks this obligation by name; the check then
searches model and implementation for a failing input (DESIGN.md 13.3). -/
theorem command_line_tool_is_the_modelled_one : Gen.CliFlow.leaves = Tables.cliFlow := Tie.cliFlow

/-! ### Shared source ties

The code this property is anchored in is also written down, leaf statement by leaf statement, by the tables below (each decided once in
Props/Tie, `decide +kernel`, against the table regenerated from /repo on this run). A change of that code breaks the tie by name here too, and the check of
this property then searches for a failing input - so a change that breaks this property through code whose primary table belongs to another
property is not overlooked. -/
/-- the builtins (core/*.go) -/
theorem source_tie_CoreFlow : Gen.CoreFlow.leaves = Tables.coreFlow := Tie.coreFlow


/-! ### Declaration inventory

Nothing was added to the packages this property is anchored in: their top-level declarations (functions, methods, variables, constants, types with
the fields of struct types), regenerated from /repo on this run, are the audited ones (Props/Tie/Inventory). A helper, a package-level table or a
file added there - code no flow table can pin - breaks the tie by name and makes this property's check search for a failing input. -/
/-- the command-line tool (anko.go and any file next to it) -/
theorem declarations_of_Root_are_the_audited_ones : Tie.ofPkg "." Gen.Inventory.decls = Tie.ofPkg "." Tables.inventory := Tie.inventoryRoot
/-- core/ -/
theorem declarations_of_Core_are_the_audited_ones : Tie.ofPkg "core" Gen.Inventory.decls = Tie.ofPkg "core" Tables.inventory := Tie.inventoryCore

end Anko.C18
