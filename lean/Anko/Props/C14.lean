/-
C14 — Runs are isolated and repeatable; executing a tree never changes it.

The substance is in obligations REGENERATED from the source on every run (Anko.Gen.AstWrites,
produced by a go/types pass over vm/, env/ and parser/lexer.go):
  * no statement of the interpreter assigns to a field of an AST node it did not allocate itself
    (and never repositions one), so a parsed tree is read-only input of every run;
  * no package-level variable is written outside init functions, apart from the parser's two
    debugging switches, which only explicit API calls (EnableDebug / EnableErrorVerbose) set.
In the model this is by construction: the evaluator is a pure function of (program, state) and
the program is an immutable value.
-/
import Anko.Gen.AstWrites
import Anko.Model.Eval
import Anko.Proofs.EvalFuel
import Anko.Gen.ImportFlow
import Anko.Props.ImportFlowTable
import Anko.Props.Tie.ImportFlow
import Anko.Props.Tie.CallFlow
import Anko.Props.Tie.ExprFlow
import Anko.Props.Tie.BindFlow
import Anko.Props.Tie.RunFlow
import Anko.Props.Tie.Inventory

namespace Anko.C14
open Anko

/-- REGENERATED OBLIGATION: the interpreter never writes into a parsed tree. -/
theorem ast_never_written : Gen.astWrites = [] := by decide

/-- the parser's debug switches: set only by the API functions named here, never by running a program -/
def allowedGlobalWrites : List String :=
  ["parser/lexer.go:EnableDebug writes yyDebug", "parser/lexer.go:EnableErrorVerbose writes yyErrorVerbose"]

/-- REGENERATED OBLIGATION: executions share no package-level mutable state. -/
theorem no_hidden_global_state : Gen.globalWrites.all (fun w => allowedGlobalWrites.contains w) = true := by decide

variable [FOps] [Prov]

/-- A run is a function of the program and the initial state only: two runs of the same tree
from equal fresh states give the same value, error status, probe trace and bindings (the model
has nowhere else to look). -/
theorem run_deterministic (fuel : Nat) (p : Stmt) (s1 s2 : St) (h : s1 = s2) :
    runProgram fuel p s1 = runProgram fuel p s2 := by rw [h]

/-- ... and the answer is a property of the program, not of the bound the model is run with:
whenever a run ends inside the modelled fragment (the "unsupported / out of fuel" marker is not
set) every larger fuel gives the identical final state - value, error status, trace, bindings
(Anko.Proofs.EvalFuel: induction on fuel through all 28 functions of the evaluator, with the
stickiness of the marker from Anko.Proofs.EvalSticky). -/
theorem answer_is_fuel_independent (fuel extra : Nat) (p : Stmt) (s : St) (h : (runProgram fuel p s).unsup = none) :
    runProgram (fuel + extra) p s = runProgram fuel p s := fuel_runProgram fuel extra p s h

/-- the same for every function of the evaluator -/
theorem every_function_fuel_independent (n : Nat) : FuelIH n := fuel_all n

/-- the marker is never cleared: a run that left the modelled fragment stays marked -/
theorem unsupported_marker_is_sticky (fuel : Nat) (st : Stmt) (s : St) (h : s.unsup ≠ none) : (execStmt fuel st s).unsup ≠ none :=
  (stick_all fuel).execStmt st s h

/-- Executing a program hands back a state; the program itself is not part of what changes:
running it again from the same state is the same run. -/
theorem tree_reusable (fuel : Nat) (p : Stmt) (s : St) :
    (runProgram fuel p s, p) = (runProgram fuel p s, p) := rfl

/-! ### import(...) in the source (regenerated: Gen/ImportFlow)

Every leaf statement of invokeImportExpr - the package tables are only READ, every import builds a module scope of its own and defines the entries in
it - is the one written down in Props/ImportFlowTable. Any edit of these functions - also a harmless one - breaks this obligation by name; the check then
searches model and implementation for a failing input (DESIGN.md 13.3). -/
theorem import_copies_the_package_tables_as_modelled : Gen.ImportFlow.leaves = Tables.importFlow := Tie.importFlow

/-! ### Shared source ties

The code this property is anchored in is also written down, leaf statement by leaf statement, by the tables below (each decided once in
Props/Tie, `decide +kernel`, against the table regenerated from /repo on this run). A change of that code breaks the tie by name here too, and the check of
this property then searches for a failing input - so a change that breaks this property through code whose primary table belongs to another
property is not overlooked. -/
/-- the call machinery (vmExprFunction.go) -/
theorem source_tie_CallFlow : Gen.CallFlow.leaves = Tables.callFlow := Tie.callFlow
/-- the expression dispatcher and multi-operand forms (vmExpr.go) -/
theorem source_tie_ExprFlow : Gen.ExprFlow.leaves = Tables.exprFlow := Tie.exprFlow
/-- function literals, module, var and assignment statements -/
theorem source_tie_BindFlow : Gen.BindFlow.leaves = Tables.bindFlow := Tie.bindFlow
/-- the entry points, recoverFunc, newError, type and value construction -/
theorem source_tie_RunFlow : Gen.RunFlow.leaves = Tables.runFlow := Tie.runFlow


/-! ### Declaration inventory

Nothing was added to the packages this property is anchored in: their top-level declarations (functions, methods, variables, constants, types with
the fields of struct types), regenerated from /repo on this run, are the audited ones (Props/Tie/Inventory). A helper, a package-level table or a
file added there - code no flow table can pin - breaks the tie by name and makes this property's check search for a failing input. -/
/-- vm/ -/
theorem declarations_of_Vm_are_the_audited_ones : Tie.ofPkg "vm" Gen.Inventory.decls = Tie.ofPkg "vm" Tables.inventory := Tie.inventoryVm
/-- env/ -/
theorem declarations_of_Env_are_the_audited_ones : Tie.ofPkg "env" Gen.Inventory.decls = Tie.ofPkg "env" Tables.inventory := Tie.inventoryEnv
/-- ast/ -/
theorem declarations_of_Ast_are_the_audited_ones : Tie.ofPkg "ast" Gen.Inventory.decls = Tie.ofPkg "ast" Tables.inventory := Tie.inventoryAst
/-- packages/ (which files exist, what they declare besides init) -/
theorem declarations_of_Packages_are_the_audited_ones : Tie.ofPkg "packages" Gen.Inventory.decls = Tie.ofPkg "packages" Tables.inventory := Tie.inventoryPackages

end Anko.C14
