import Anko.Gen.ContFlow
import Anko.Props.ContFlowTable
/-! The tie of Gen/ContFlow: the table regenerated from /repo on this run equals the audited table kept in Props/ContFlowTable. Decided once here
(`decide +kernel`), restated by name in every property whose anchored code the table covers. -/
namespace Anko.Tie

theorem contFlow : Gen.ContFlow.leaves = Tables.contFlow := by decide +kernel

end Anko.Tie
