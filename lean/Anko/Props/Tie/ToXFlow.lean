import Anko.Gen.ToXFlow
import Anko.Props.ToXFlowTable
/-! The tie of Gen/ToXFlow: the table regenerated from /repo on this run equals the audited table kept in Props/ToXFlowTable. Decided once here
(`decide +kernel`), restated by name in every property whose anchored code the table covers. -/
namespace Anko.Tie

theorem toXFlow : Gen.ToXFlow.leaves = Tables.toXFlow := by decide +kernel

end Anko.Tie
