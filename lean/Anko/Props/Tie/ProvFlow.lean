import Anko.Gen.ProvFlow
import Anko.Props.ProvFlowTable
/-! The tie of Gen/ProvFlow: the table regenerated from /repo on this run equals the audited table kept in Props/ProvFlowTable. Decided once here
(`decide +kernel`), restated by name in every property whose anchored code the table covers. -/
namespace Anko.Tie

theorem provFlow : Gen.ProvFlow.leaves = Tables.provFlow := by decide +kernel

end Anko.Tie
