import Anko.Gen.ChanFlow
import Anko.Props.ChanFlowTable
/-! The tie of Gen/ChanFlow: the table regenerated from /repo on this run equals the audited table kept in Props/ChanFlowTable. Decided once here
(`decide +kernel`), restated by name in every property whose anchored code the table covers. -/
namespace Anko.Tie

theorem chanFlow : Gen.ChanFlow.leaves = Tables.chanFlow := by decide +kernel

end Anko.Tie
