import Anko.Gen.LexFlow
import Anko.Props.LexFlowTable
/-! The tie of Gen/LexFlow: the table regenerated from /repo on this run equals the audited table kept in Props/LexFlowTable. Decided once here
(`decide +kernel`), restated by name in every property whose anchored code the table covers. -/
namespace Anko.Tie

theorem lexFlow : Gen.LexFlow.leaves = Tables.lexFlow := by decide +kernel

end Anko.Tie
