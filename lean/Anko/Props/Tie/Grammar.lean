import Anko.Gen.Grammar
import Anko.Props.GrammarTable
/-! The tie of Gen/Grammar: the table regenerated from /repo on this run equals the audited table kept in Props/GrammarTable. Decided once here
(`decide +kernel`), restated by name in every property whose anchored code the table covers. -/
namespace Anko.Tie

theorem grammar : Gen.Grammar.leaves = Tables.grammar := by decide +kernel

end Anko.Tie
