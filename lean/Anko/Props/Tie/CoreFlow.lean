import Anko.Gen.CoreFlow
import Anko.Props.CoreFlowTable
/-! The tie of Gen/CoreFlow: the table regenerated from /repo on this run equals the audited table kept in Props/CoreFlowTable. Decided once here
(`decide +kernel`), restated by name in every property whose anchored code the table covers. -/
namespace Anko.Tie

theorem coreFlow : Gen.CoreFlow.leaves = Tables.coreFlow := by decide +kernel

end Anko.Tie
