import Anko.Gen.ImportFlow
import Anko.Props.ImportFlowTable
/-! The tie of Gen/ImportFlow: the table regenerated from /repo on this run equals the audited table kept in Props/ImportFlowTable. Decided once here
(`decide +kernel`), restated by name in every property whose anchored code the table covers. -/
namespace Anko.Tie

theorem importFlow : Gen.ImportFlow.leaves = Tables.importFlow := by decide +kernel

end Anko.Tie
