import Anko.Gen.CliFlow
import Anko.Props.CliFlowTable
/-! The tie of Gen/CliFlow: the table regenerated from /repo on this run equals the audited table kept in Props/CliFlowTable. Decided once here
(`decide +kernel`), restated by name in every property whose anchored code the table covers. -/
namespace Anko.Tie

theorem cliFlow : Gen.CliFlow.leaves = Tables.cliFlow := by decide +kernel

end Anko.Tie
