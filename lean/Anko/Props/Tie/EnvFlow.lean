import Anko.Gen.EnvFlow
import Anko.Props.EnvFlowTable
/-! The tie of Gen/EnvFlow: the table regenerated from /repo on this run equals the audited table kept in Props/EnvFlowTable. Decided once here
(`decide +kernel`), restated by name in every property whose anchored code the table covers. -/
namespace Anko.Tie

theorem envFlow : Gen.EnvFlow.leaves = Tables.envFlow := by decide +kernel

end Anko.Tie
