import Anko.Gen.Inventory
import Anko.Props.InventoryTable
/-! The tie of Gen/Inventory, package by package: the top-level declarations (functions and methods, variables, constants, types with the fields of
struct types) of every non-test Go file of the package, regenerated from /repo on this run, are the audited ones kept in Props/InventoryTable. A
function, a package-level table or a file ADDED to the package - code no flow table can pin, because it did not exist when the tables were audited -
breaks the tie of its package by name. Restated in every property anchored in the package. -/
namespace Anko.Tie

def ofPkg (d : String) (l : List (String × String × String)) : List (String × String × String) := l.filter (fun r => r.1 == d)

theorem inventoryVm : ofPkg "vm" Gen.Inventory.decls = ofPkg "vm" Tables.inventory := by decide +kernel
theorem inventoryEnv : ofPkg "env" Gen.Inventory.decls = ofPkg "env" Tables.inventory := by decide +kernel
theorem inventoryCore : ofPkg "core" Gen.Inventory.decls = ofPkg "core" Tables.inventory := by decide +kernel
theorem inventoryParser : ofPkg "parser" Gen.Inventory.decls = ofPkg "parser" Tables.inventory := by decide +kernel
theorem inventoryAst : ofPkg "ast" Gen.Inventory.decls = ofPkg "ast" Tables.inventory := by decide +kernel
theorem inventoryAstutil : ofPkg "ast/astutil" Gen.Inventory.decls = ofPkg "ast/astutil" Tables.inventory := by decide +kernel
theorem inventoryRoot : ofPkg "." Gen.Inventory.decls = ofPkg "." Tables.inventory := by decide +kernel
theorem inventoryPackages : ofPkg "packages" Gen.Inventory.decls = ofPkg "packages" Tables.inventory := by decide +kernel

end Anko.Tie
