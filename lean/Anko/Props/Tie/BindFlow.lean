import Anko.Gen.BindFlow
import Anko.Props.BindFlowTable
/-! The tie of Gen/BindFlow: the table regenerated from /repo on this run equals the audited table kept in Props/BindFlowTable. Decided once here
(`decide +kernel`), restated by name in every property whose anchored code the table covers. -/
namespace Anko.Tie

theorem bindFlow : Gen.BindFlow.leaves = Tables.bindFlow := by decide +kernel

end Anko.Tie
