import Anko.Gen.CallFlow
import Anko.Props.CallFlowTable
/-! The tie of Gen/CallFlow: the table regenerated from /repo on this run equals the audited table kept in Props/CallFlowTable. Decided once here
(`decide +kernel`), restated by name in every property whose anchored code the table covers. -/
namespace Anko.Tie

theorem callFlow : Gen.CallFlow.leaves = Tables.callFlow := by decide +kernel

end Anko.Tie
