import Anko.Gen.StmtFlow
import Anko.Props.StmtFlowTable
/-! The tie of Gen/StmtFlow: the table regenerated from /repo on this run equals the audited table kept in Props/StmtFlowTable. Decided once here
(`decide +kernel`), restated by name in every property whose anchored code the table covers. -/
namespace Anko.Tie

theorem stmtFlow : Gen.StmtFlow.leaves = Tables.stmtFlow := by decide +kernel

end Anko.Tie
