import Anko.Gen.ExprFlow
import Anko.Props.ExprFlowTable
/-! The tie of Gen/ExprFlow: the table regenerated from /repo on this run equals the audited table kept in Props/ExprFlowTable. Decided once here
(`decide +kernel`), restated by name in every property whose anchored code the table covers. -/
namespace Anko.Tie

theorem exprFlow : Gen.ExprFlow.leaves = Tables.exprFlow := by decide +kernel

end Anko.Tie
