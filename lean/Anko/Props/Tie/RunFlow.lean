import Anko.Gen.RunFlow
import Anko.Props.RunFlowTable
/-! The tie of Gen/RunFlow: the table regenerated from /repo on this run equals the audited table kept in Props/RunFlowTable. Decided once here
(`decide +kernel`), restated by name in every property whose anchored code the table covers. -/
namespace Anko.Tie

theorem runFlow : Gen.RunFlow.leaves = Tables.runFlow := by decide +kernel

end Anko.Tie
