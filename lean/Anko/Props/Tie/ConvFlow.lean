import Anko.Gen.ConvFlow
import Anko.Props.ConvFlowTable
/-! The tie of Gen/ConvFlow: the table regenerated from /repo on this run equals the audited table kept in Props/ConvFlowTable. Decided once here
(`decide +kernel`), restated by name in every property whose anchored code the table covers. -/
namespace Anko.Tie

theorem convFlow : Gen.ConvFlow.leaves = Tables.convFlow := by decide +kernel

end Anko.Tie
