import Anko.Gen.SingleStmtFlow
import Anko.Props.SingleStmtFlowTable
/-! The tie of Gen/SingleStmtFlow: the table regenerated from /repo on this run equals the audited table kept in Props/SingleStmtFlowTable. Decided once here
(`decide +kernel`), restated by name in every property whose anchored code the table covers. -/
namespace Anko.Tie

theorem singleStmtFlow : Gen.SingleStmtFlow.leaves = Tables.singleStmtFlow := by decide +kernel

end Anko.Tie
