/-
C11 — Values and calls cross the Go boundary faithfully.

Theorems over the conversion model lean/Anko/Model/Conv.lean (convertReflectValueToType of
vm/vmConvertToX.go: what a script value becomes when it is passed to a Go parameter of type T,
returned from a callback with declared result type T, or stored in a typed container / struct
field) and over the argument builder of the interpreter model (lean/Anko/Model/Eval.lean,
makeCallArgs of vm/vmExprFunction.go).
-/
import Anko.Proofs.Conv
import Anko.Model.Eval
import Anko.Gen.ConvFlow
import Anko.Props.ConvFlowTable
import Anko.Props.Tie.ConvFlow
import Anko.Props.Tie.CallFlow
import Anko.Props.Tie.BindFlow
import Anko.Props.Tie.Inventory

namespace Anko.C11
open Anko.Conv

/-- Whatever conversion succeeds delivers a value OF THE TARGET TYPE: a Go parameter, result slot,
typed slice/map element or struct field of type T only ever receives a well-formed T (sized
integers inside their range, every element of a typed container of the element type, recursively);
interface{} targets receive the value unchanged.  Unbounded in nesting depth. -/
theorem convert_has_target_type (v : TV) (rt : Conv.Ty) (w : TV) (hv : WF v = true) (h : convert v rt = some w) :
    Fits w rt = true := by
  have := convert_sound v rt w hv h
  simp only [Fits, this.1, Bool.true_and, Bool.or_eq_true, beq_iff_eq]
  rcases this.2 with h1 | h1
  · exact Or.inl h1
  · exact Or.inr h1

/-- element-wise conversion of a slice (or of the keys / values of a map) keeps every element, in order -/
theorem convertAll_length : ∀ (xs : TVs) (t : Conv.Ty) (ys : TVs), convertAll xs t = some ys → ys.length = xs.length
  | .nil, _, ys, h => by simp [convertAll] at h; subst h; rfl
  | .cons x xs, t, ys, h => by
    simp only [convertAll] at h
    split at h
    · next y ys' _ hys => cases h; simp [TVs.length, convertAll_length xs t ys' hys]
    · cases h

/-- A value passed where interface{} is expected arrives as it is, with its dynamic type. -/
theorem to_interface_is_identity (v : TV) : convert v .iface = some v := by
  cases v <;> simp [convert]

/-- A value that already has the parameter's type arrives as it is. -/
theorem same_type_is_identity (v : TV) (hn : v ≠ .nilIface) : convert v (typeOf v) = some v := by
  cases v with
  | int t i => cases t <;> simp [convert, typeOf]
  | str bs => simp [convert, typeOf]
  | bool b => simp [convert, typeOf]
  | nilIface => exact absurd rfl hn
  | slice e xs => cases e <;> simp [convert, typeOf]
  | map k v ks vs => simp [convert, typeOf]

/-- nil arrives as T's zero value. -/
theorem nil_becomes_zero (rt : Conv.Ty) : convert .nilIface rt = some (zero rt) := by
  cases rt <;> simp [convert, zero]

/-- Go's integer conversions: any sized integer converts to any other, wrapping into range. -/
theorem int_to_int (t rt : Conv.Ty) (i : Int) (hrt : rt.isInt = true) (hne : t ≠ rt) :
    convert (.int t i) rt = some (.int rt (wrapInt rt i)) := by
  cases rt <;> simp [Ty.isInt] at hrt <;> simp [convert, hne, Ty.isInt]

/-- No conversion exists between booleans and numbers or strings: the call fails with an error. -/
theorem bool_to_number_fails (b : Bool) (rt : Conv.Ty) (hrt : rt.isInt = true ∨ rt = .string) : convert (.bool b) rt = none := by
  rcases hrt with h | h
  · cases rt <;> simp [Ty.isInt] at h <;> simp [convert]
  · subst h; simp [convert]

theorem string_to_int_fails (bs : List Nat) (hlen : 2 ≤ bs.length) (rt : Conv.Ty) (hrt : rt = .int64 ∨ rt = .int8) :
    convert (.str bs) rt = none := by
  rcases hrt with h | h <;> subst h <;> simp [convert]

/-- a slice converts element by element; one unconvertible element fails the whole conversion -/
theorem slice_elementwise (e e' : Conv.Ty) (xs : TVs) (hne : e' ≠ e) :
    convert (.slice e xs) (.slice e') = (convertAll xs e').map (TV.slice e') := by
  have h1 : ¬ (Conv.Ty.slice e' = Conv.Ty.slice e) := by intro h; cases h; exact hne rfl
  simp [convert, h1]

/-! ### the argument builder (interpreter model): spread calls -/
section
open Anko
variable [FOps] [Prov]

/-- `f(xs...)` on a variadic function hands the list over as the variadic tail, unchanged. -/
theorem spread_variadic_passes_list (lead : List RV) (s : St) (xs : List Val) (h : s.rv.v = .list xs) :
    spreadVariadic lead s = ((lead ++ [⟨false, .list xs⟩], true), s) := by
  simp [spreadVariadic, h]

/-- `f(xs...)` on a function of fixed arity fails, without calling it, when the list is too short. -/
theorem spread_fixed_too_short (cal : Callee) (nLead numExprs : Nat) (lead : List RV) (s : St) (xs : List Val)
    (h : s.rv.v = .list xs) (hshort : xs.length < cal.numIn - nLead) :
    (spreadFixed cal nLead numExprs lead s).1 = ([], false) ∧ (spreadFixed cal nLead numExprs lead s).2.err.isSome = true := by
  simp [spreadFixed, h, hshort, St.fail]
end

/-! ### Non-vacuity -/
example : convert (.slice .iface (.cons (.int .int64 300) (.cons .nilIface .nil))) (.slice .int8) =
    some (.slice .int8 (.cons (.int .int8 44) (.cons (.int .int8 0) .nil))) := by rfl
example : convert (.slice .iface (.cons (.int .int64 1) (.cons (.bool true) .nil))) (.slice .int64) = none := by rfl
example : convert (.int .int64 233) .string = some (.str [195, 169]) := by rfl
example : WF (.slice .iface (.cons (.int .int64 300) (.cons .nilIface .nil))) = true := by decide

/-! ### The conversion at the Go boundary in the source (regenerated: Gen/ConvFlow)

Every leaf statement of convertReflectValueToType, convertSliceOrArray, convertMap, convertVMFunctionToType (the adapter a script function gets when Go
asks for a func type, the function literal inside it included) and reflectValueSlicetoInterfaceSlice, with the conditions it stands under, is the
one written down in Props/ConvFlowTable next to Model/Conv: the order of the stages (identity, Go's own conversion with the array-length guard,
element-wise slice / map conversion, function adapter, pointer, interface, string to byte / rune). Any edit of these functions - also a harmless one - breaks this obligation by name; the check then
searches model and implementation for a failing input (DESIGN.md 13.3). -/
theorem conversions_are_the_modelled_ones : Gen.ConvFlow.leaves = Tables.convFlow := Tie.convFlow

/-! ### Shared source ties

The code this property is anchored in is also written down, leaf statement by leaf statement, by the tables below (each decided once in
Props/Tie, `decide +kernel`, against the table regenerated from /repo on this run). A change of that code breaks the tie by name here too, and the check of
this property then searches for a failing input - so a change that breaks this property through code whose primary table belongs to another
property is not overlooked. -/
/-- the call machinery (vmExprFunction.go) -/
theorem source_tie_CallFlow : Gen.CallFlow.leaves = Tables.callFlow := Tie.callFlow
/-- function literals, module, var and assignment statements -/
theorem source_tie_BindFlow : Gen.BindFlow.leaves = Tables.bindFlow := Tie.bindFlow


/-! ### Declaration inventory

Nothing was added to the packages this property is anchored in: their top-level declarations (functions, methods, variables, constants, types with
the fields of struct types), regenerated from /repo on this run, are the audited ones (Props/Tie/Inventory). A helper, a package-level table or a
file added there - code no flow table can pin - breaks the tie by name and makes this property's check search for a failing input. -/
/-- vm/ -/
theorem declarations_of_Vm_are_the_audited_ones : Tie.ofPkg "vm" Gen.Inventory.decls = Tie.ofPkg "vm" Tables.inventory := Tie.inventoryVm

end Anko.C11
