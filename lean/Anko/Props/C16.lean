/-
C16 — Script channels and goroutines deliver every message once, in order.

The Go runtime's channels are specified, not verified: lean/Anko/Model/Chan.lean states the
FIFO-buffer semantics the interpreter relies on (reflect.Select send/receive, Close).  Over that
specification the theorems quantify over ALL schedules: a schedule is an arbitrary list of
scheduler choices (which goroutine moves next); choices that are not enabled are skipped.
-/
import Anko.Proofs.Chan
import Anko.Gen.ChanOps
import Anko.Gen.ChanFlow
import Anko.Props.ChanFlowTable
import Anko.Props.Tie.ChanFlow
import Anko.Props.Tie.StmtFlow
import Anko.Props.Tie.CallFlow
import Anko.Props.Tie.Inventory

namespace Anko.C16
open Anko.Chan

/-! ### one channel, any number of senders and receivers, any interleaving -/

/-- Every value sent is received at most once and in FIFO order, and nothing else is ever
received: after ANY sequence of operations (whichever goroutines issued them), the values sent
are exactly the values received so far followed by the buffer content. -/
theorem fifo_exactly_once (cap : Nat) (ops : List Op) :
    ((Hist.init cap).run ops).sent = ((Hist.init cap).run ops).received ++ ((Hist.init cap).run ops).ch.buf :=
  hist_run_inv ops _ rfl

/-- ... so once the buffer is drained, what was received IS what was sent. -/
theorem drained_received_all (cap : Nat) (ops : List Op) (h : ((Hist.init cap).run ops).ch.buf = []) :
    ((Hist.init cap).run ops).received = ((Hist.init cap).run ops).sent := by
  have := fifo_exactly_once cap ops
  rw [h, List.append_nil] at this
  exact this.symm

/-- A receive on a closed and drained channel yields nil with ok = false and changes nothing. -/
theorem recv_closed_drained (c : Ch) (hb : c.buf = []) (hc : c.closed = true) : c.step .recv = (c, .closedEmpty) := by
  simp [Ch.step, hb, hc]

/-- A closed channel still hands out what is buffered, oldest first. -/
theorem recv_closed_buffered (c : Ch) (v : Int) (rest : List Int) (hb : c.buf = v :: rest) :
    c.step .recv = ({ c with buf := rest }, .val v) := by
  simp [Ch.step, hb]

/-- Sending on a closed channel and closing twice are errors that leave the channel as it was. -/
theorem send_on_closed_is_error (c : Ch) (v : Int) (hc : c.closed = true) :
    c.step (.send v) = (c, .err "send on closed channel") := by
  simp [Ch.step, hc]

theorem close_twice_is_error (c : Ch) (hc : c.closed = true) : c.step .close = (c, .err "close of closed channel") := by
  simp [Ch.step, hc]

/-- A send never overfills the buffer. -/
theorem send_respects_capacity (c : Ch) (v : Int) (h : c.buf.length ≤ c.cap) : (c.step (.send v)).1.buf.length ≤ c.cap := by
  simp only [Ch.step]
  split
  · exact h
  · split
    · simp; omega
    · exact h

/-! ### pipelines of goroutines -/

/-- Whatever the scheduling: for every number of stages, every mix of buffered (any capacity) and
unbuffered channels, every list of items and EVERY schedule, when all goroutines have finished
the consumer holds exactly the items, each passed through every stage, in the order produced —
nothing lost, duplicated or reordered. -/
theorem pipeline_delivers_all_in_order (items : List Int) (stages : List ((Int → Int) × Nat)) (schedule : List Move)
    (hterm : ((Pipe.init items stages).run schedule).terminal = true) :
    ((Pipe.init items stages).run schedule).out = expected (stages.map (·.1)) items := by
  have htot := run_total schedule (Pipe.init items stages)
  rw [init_total] at htot
  have hinv := run_inv schedule _ (init_inv items stages)
  generalize (Pipe.init items stages).run schedule = p at *
  simp only [Pipe.terminal, Bool.and_eq_true] at hterm
  have hsrc := hinv.1 hterm.1
  have hflow := flow_all_done p.stages _ hinv.2 hterm.2
  simp only [Pipe.total, hsrc, hflow, List.append_nil] at htot
  exact htot

/-- At every moment of every schedule, what the consumer has collected so far is a prefix of the
final result (so partial results are never wrong either). -/
theorem pipeline_output_is_prefix (items : List Int) (stages : List ((Int → Int) × Nat)) (schedule : List Move) :
    ∃ rest, ((Pipe.init items stages).run schedule).out ++ rest = expected (stages.map (·.1)) items := by
  have htot := run_total schedule (Pipe.init items stages)
  rw [init_total] at htot
  exact ⟨_, htot⟩

/-- No schedule can wedge the pipeline: in every reachable state in which some goroutine has not
finished, some goroutine can move. -/
theorem pipeline_never_deadlocks (items : List Int) (stages : List ((Int → Int) × Nat)) (hne : stages ≠ [])
    (schedule : List Move) (hnt : ((Pipe.init items stages).run schedule).terminal = false) :
    ∃ m, (((Pipe.init items stages).run schedule).step m).isSome := by
  have hinv := run_inv schedule _ (init_inv items stages)
  have hlen : ((Pipe.init items stages).run schedule).stages ≠ [] := by
    have : ∀ (ms : List Move) (p : Pipe), p.stages ≠ [] → (p.run ms).stages ≠ [] := by
      intro ms
      induction ms with
      | nil => intro p h; exact h
      | cons m ms ih =>
        intro p h
        unfold Pipe.run
        split
        · next p' hs =>
          apply ih
          have hv := step_variant p p' m hs
          intro h0
          -- stage lists keep their length: a move never removes a stage
          cases m <;> simp only [Pipe.step] at hs
          · split at hs
            · cases hs
            · split at hs
              · cases hs
              · simp only [Option.map_eq_some_iff] at hs
                obtain ⟨st', hp, rfl⟩ := hs
                have := pushInto_length hp
                simp only at h0
                rw [h0] at this
                exact h (List.length_eq_zero_iff.mp this.symm)
          · split at hs
            · simp only [Option.some.injEq] at hs; subst hs
              simp only at h0
              have := closeHead_length p.stages
              rw [h0] at this
              exact h (List.length_eq_zero_iff.mp this.symm)
            · cases hs
          · simp only [Option.map_eq_some_iff] at hs
            obtain ⟨r, hr, rfl⟩ := hs
            have := (stageMove_lowers doRecv lowers_doRecv _ _ r hr).1
            simp only at h0; rw [h0] at this
            exact h (List.length_eq_zero_iff.mp this.symm)
          · simp only [Option.map_eq_some_iff] at hs
            obtain ⟨r, hr, rfl⟩ := hs
            have := (stageMove_lowers doSend lowers_doSend _ _ r hr).1
            simp only at h0; rw [h0] at this
            exact h (List.length_eq_zero_iff.mp this.symm)
          · simp only [Option.map_eq_some_iff] at hs
            obtain ⟨r, hr, rfl⟩ := hs
            have := (stageMove_lowers doFinish lowers_doFinish _ _ r hr).1
            simp only at h0; rw [h0] at this
            exact h (List.length_eq_zero_iff.mp this.symm)
        · exact ih p h
    apply this
    simp [Pipe.init, hne]
  exact progress _ hinv hlen hnt

/-- ... and every move that is taken strictly lowers a natural-number variant, so no schedule
runs for ever: together with the two theorems above, every schedule that keeps choosing enabled
goroutines ends with all items delivered. -/
theorem pipeline_every_move_progresses (p p' : Pipe) (m : Move) (h : p.step m = some p') : p'.variant < p.variant :=
  step_variant p p' m h

/-- The interpreter performs channel operations only as blocking `reflect.Select`s (regenerated from
vm/*.go on every run): there is no direct Send / Recv and no TrySend / TryRecv whose result could
be dropped - so each script-level send corresponds to exactly one `send` event of the specification. -/
theorem channel_ops_are_selects :
    Gen.ChanOps.bareReflectOps = [] ∧ Gen.ChanOps.selects.all (·.2) = true ∧ 4 ≤ Gen.ChanOps.selects.length := by decide

/-! ### Non-vacuity: a concrete pipeline under two different schedules -/
def demoPipe : Pipe := Pipe.init [1, 2, 3] [((· + 10), 0), ((· * 2), 2)]
def roundRobin : Nat → List Move
  | 0 => []
  | n + 1 => [.produce, .produceClose, .recv 0, .send 0, .finish 0, .recv 1, .send 1, .finish 1] ++ roundRobin n
def backwards : Nat → List Move
  | 0 => []
  | n + 1 => [.finish 1, .send 1, .recv 1, .finish 0, .send 0, .recv 0, .produceClose, .produce] ++ backwards n

example : (demoPipe.run (roundRobin 12)).terminal = true ∧ (demoPipe.run (roundRobin 12)).out = [22, 24, 26] := by decide
example : (demoPipe.run (backwards 12)).terminal = true ∧ (demoPipe.run (backwards 12)).out = [22, 24, 26] := by decide
example : (demoPipe.run (roundRobin 2)).terminal = false := by decide

/-! ### A for-in loop over a channel takes one item per round (Model/Chan `rangeLoop`, compared with the interpreter by the chan stream) -/

/-- Nothing is lost by a for-in loop, however it ends: the items its body has seen followed by what is still in the channel are exactly the items seen
before followed by what was in the channel - in order. (A loop that takes items ahead of its body and is then left early breaks this.) -/
theorem range_hands_over_one_item_per_round (stop : Int → Bool) : ∀ (n : Nat) (c : Ch) (seen : List Int),
    (rangeLoop stop n c seen).2 ++ (rangeLoop stop n c seen).1.buf = seen ++ c.buf := by
  intro n
  induction n with
  | zero => intro c seen; rfl
  | succ n ih =>
    intro c seen
    unfold rangeLoop
    cases hb : c.buf with
    | nil =>
      by_cases hc : c.closed <;> simp [Ch.step, hb, hc]
    | cons v rest =>
      simp only [Ch.step, hb]
      by_cases hs : stop v
      · simp [hs]
      · simp only [hs, Bool.false_eq_true, if_false]
        rw [ih]
        simp

/-- the loop only ever removes items: capacity and the closed flag are untouched -/
theorem range_leaves_flags (stop : Int → Bool) : ∀ (n : Nat) (c : Ch) (seen : List Int),
    (rangeLoop stop n c seen).1.cap = c.cap ∧ (rangeLoop stop n c seen).1.closed = c.closed := by
  intro n
  induction n with
  | zero => intro c seen; exact ⟨rfl, rfl⟩
  | succ n ih =>
    intro c seen
    unfold rangeLoop
    cases hb : c.buf with
    | nil =>
      by_cases hc : c.closed <;> simp [Ch.step, hb, hc]
    | cons v rest =>
      simp only [Ch.step, hb]
      by_cases hs : stop v
      · simp [hs]
      · simp only [hs, Bool.false_eq_true, if_false]
        have := ih { c with buf := rest } (seen ++ [v])
        simpa using this

/-- a loop over a closed channel that is never left early sees everything, and drains the channel -/
theorem range_to_the_end_sees_all (c : Ch) (hc : c.closed = true) : ∀ (n : Nat) (buf : List Int) (seen : List Int), buf.length < n →
    rangeLoop (fun _ => false) n { c with buf := buf } seen = ({ c with buf := [] }, seen ++ buf) := by
  intro n
  induction n with
  | zero => intro buf seen h; omega
  | succ n ih =>
    intro buf seen h
    unfold rangeLoop
    cases buf with
    | nil => simp [Ch.step, hc]
    | cons v rest =>
      simp only [Ch.step]
      have := ih rest (seen ++ [v]) (by simp at h; omega)
      simpa using this

/-- the channel of the seeded change that motivated this (round 11, C16-21): ten items, the body leaves at item 2 - items 3 ... 9 are still there -/
example : rangeLoop (fun v => v == 2) 20 ⟨[0, 1, 2, 3, 4, 5, 6, 7, 8, 9], 10, true⟩ [] = (⟨[3, 4, 5, 6, 7, 8, 9], 10, true⟩, [0, 1, 2]) := by decide


/-! ### The channel forms in the source (regenerated: Gen/ChanFlow)

Every leaf statement of invokeChanExpr (receive, send, forward), runChanStmt (the receive statements with one and two targets) and runCloseStmt, with the
conditions it stands under, is the one written down in Props/ChanFlowTable next to Model/Chan: every blocking operation is a select that watches the
context, a receive from a closed and drained channel yields nil / false, the element is converted to the channel's element type before the send. Any edit of these functions - also a harmless one - breaks this obligation by name; the check then
searches model and implementation for a failing input (DESIGN.md 13.3). -/
theorem channel_forms_are_the_modelled_ones : Gen.ChanFlow.leaves = Tables.chanFlow := Tie.chanFlow

/-! ### Shared source ties

The code this property is anchored in is also written down, leaf statement by leaf statement, by the tables below (each decided once in
Props/Tie, `decide +kernel`, against the table regenerated from /repo on this run). A change of that code breaks the tie by name here too, and the check of
this property then searches for a failing input - so a change that breaks this property through code whose primary table belongs to another
property is not overlooked. -/
/-- the branch, loop, try and defer functions (vmStmt.go) -/
theorem source_tie_StmtFlow : Gen.StmtFlow.leaves = Tables.stmtFlow := Tie.stmtFlow
/-- the call machinery (vmExprFunction.go) -/
theorem source_tie_CallFlow : Gen.CallFlow.leaves = Tables.callFlow := Tie.callFlow


/-! ### Declaration inventory

Nothing was added to the packages this property is anchored in: their top-level declarations (functions, methods, variables, constants, types with
the fields of struct types), regenerated from /repo on this run, are the audited ones (Props/Tie/Inventory). A helper, a package-level table or a
file added there - code no flow table can pin - breaks the tie by name and makes this property's check search for a failing input. -/
/-- vm/ -/
theorem declarations_of_Vm_are_the_audited_ones : Tie.ofPkg "vm" Gen.Inventory.decls = Tie.ofPkg "vm" Tables.inventory := Tie.inventoryVm

end Anko.C16
