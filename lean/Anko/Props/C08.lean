/-
C08 — Branches, loops, break/continue/return do what their syntax says.

Theorems over the interpreter model (Anko.Model.Eval).  Helper inductions: Anko.Proofs.EvalSig
(expressions never produce control sentinels; every loop form consumes break/continue).

KNOWN FINDING (not repaired, pinned by the repository's own TestTry): `try` routes ErrBreak /
ErrContinue / ErrReturn to its catch block, so `func(){ try { return 1 } catch e { return 2 } }()`
is 2.  The model mirrors this; `return_ends_invocation` and the propagation lemmas below are
therefore stated for blocks other than `try` on the path of the signal, and the negation for
`try` is proved as `try_catches_return_witness`.
-/
import Anko.Proofs.EvalSig
import Anko.Gen.StmtFlow
import Anko.Props.Tie.StmtFlow
import Anko.Props.Tie.SingleStmtFlow
import Anko.Props.Tie.ProvFlow
import Anko.Props.Tie.ToXFlow
import Anko.Props.Tie.Inventory

set_option linter.unusedSectionVars false
set_option linter.unusedSimpArgs false

namespace Anko.C08
open Anko
variable [FOps] [Prov]

/-! ### break / continue act on the innermost enclosing loop only -/

/-- No loop statement ever lets a `break` or `continue` of its body escape: the signal is
consumed by the innermost enclosing loop, whatever the body is. All four loop forms. -/
theorem loop_consumes_break_continue (n : Nat) (c : Option Expr) (b : Stmt) (s : St) (hs : s.err = none) :
    NoLoopSig (execStmt n (.loop c b) s) := by
  cases n with
  | zero => simp [execStmt, NoLoopSig, outOfFuel, St.markUnsup]
  | succ n =>
    rw [execStmt.eq_def]
    simp only []
    split
    · simp [NoLoopSig]
    · have := loopIter_consumes c b n { (s.poll.2.newScope s.poll.2.cur).2 with cur := (s.poll.2.newScope s.poll.2.cur).1 }
        (by simpa [newScope_err, poll_err] using hs)
      obtain ⟨h1, h2⟩ := this
      split <;> simp_all [NoLoopSig]

theorem cfor_consumes_break_continue (n : Nat) (c p : Option Expr) (b : Stmt) (s : St) (hs : s.err = none) :
    NoLoopSig (execStmt n (.cfor .nilS c p b) s) := by
  cases n with
  | zero => simp [execStmt, NoLoopSig, outOfFuel, St.markUnsup]
  | succ n =>
    rw [execStmt.eq_def]
    simp only []
    split
    · simp [NoLoopSig]
    · have hS : ({ (s.poll.2.newScope s.poll.2.cur).2 with cur := (s.poll.2.newScope s.poll.2.cur).1 } : St).err = none := by
        simpa [newScope_err, poll_err] using hs
      have := cforIter_consumes c p b n _ hS
      obtain ⟨h1, h2⟩ := this
      have h0 : (s.poll.2.newScope s.poll.2.cur).2.err = none := by simpa [newScope_err, poll_err] using hs
      split
      · simp [h0] at *
      · split <;> simp_all [NoLoopSig]

/-- ... and with ANY init statement that does not itself end in `break` / `continue` -/
theorem cfor_consumes_break_continue_any_init (n : Nat) (i : Stmt) (c p : Option Expr) (b : Stmt) (s : St) (hs : s.err = none)
    (hi : ∀ s', s'.err = none → NoLoopSig (execStmt n i s')) :
    NoLoopSig (execStmt (n + 1) (.cfor i c p b) s) := by
  rw [execStmt.eq_def]
  simp only []
  split
  · simp [NoLoopSig]
  · have hS : ({ (s.poll.2.newScope s.poll.2.cur).2 with cur := (s.poll.2.newScope s.poll.2.cur).1 } : St).err = none := by
      simpa [newScope_err, poll_err] using hs
    have key : ∀ s2 : St, NoLoopSig s2 →
        NoLoopSig (if s2.err.isSome = true then { s2 with cur := s.poll.2.cur } else
          match (cforIter n c p b s2).err with
          | some .ret => { cforIter n c p b s2 with cur := s.poll.2.cur }
          | some .interrupt => { cforIter n c p b s2 with cur := s.poll.2.cur }
          | _ => { cforIter n c p b s2 with rv := nilRV, cur := s.poll.2.cur }) := by
      intro s2 h2
      split
      · exact ⟨h2.1, h2.2⟩
      · next hnone =>
        have hnone' : s2.err = none := by cases h : s2.err <;> simp_all
        have := cforIter_consumes c p b n s2 hnone'
        obtain ⟨h1, h3⟩ := this
        split <;> simp_all [NoLoopSig]
    have hS' : (s.poll.2.newScope s.poll.2.cur).2.err = none := by simpa [newScope_err, poll_err] using hs
    split
    · exact key _ ⟨by simp [hS'], by simp [hS']⟩
    · exact key _ (hi _ hS)

/-- the init statement of a `for` is a `var` or an assignment statement (the grammar admits nothing
else): neither ever yields a control sentinel -/
theorem binding_stmts_never_signal (n : Nat) (s : St) (hs : NoSig s) :
    (∀ names es, NoSig (execStmt n (.varS names es) s)) ∧ (∀ l r, NoSig (execStmt n (.lets l r) s)) := by
  cases n with
  | zero => simp [execStmt, outOfFuel]
  | succ n =>
    have ih := sig_all n
    constructor
    · intro names es
      rw [execStmt.eq_def]
      sig_grind ih
    · intro l r
      have ha := noSig_assignAll n l
      rw [execStmt.eq_def]
      sig_grind ih

/-- `for var x = e; c; p { b }` and `for x = e; c; p { b }`: the forms the grammar admits -/
theorem cfor_with_init_consumes_break_continue (n : Nat) (c p : Option Expr) (b : Stmt) (s : St) (hs : s.err = none) :
    (∀ names es, NoLoopSig (execStmt (n + 1) (.cfor (.varS names es) c p b) s)) ∧
    (∀ l r, NoLoopSig (execStmt (n + 1) (.cfor (.lets l r) c p b) s)) :=
  ⟨fun names es => cfor_consumes_break_continue_any_init n _ c p b s hs
      (fun s' h' => noLoopSig_of_noSig _ ((binding_stmts_never_signal n s' (noSig_of_none _ h')).1 names es)),
   fun l r => cfor_consumes_break_continue_any_init n _ c p b s hs
      (fun s' h' => noLoopSig_of_noSig _ ((binding_stmts_never_signal n s' (noSig_of_none _ h')).2 l r))⟩

theorem forin_list_consumes_break_continue (n : Nat) (v : String) (b : Stmt) (xs : List Val) (s : St)
    (hs : s.err = none) : NoLoopSig (forSlice n v b xs s) := forSlice_consumes v b n xs s hs

theorem forin_map_consumes_break_continue (n : Nat) (vs : List String) (b : Stmt) (m : List (Val × Val))
    (s : St) (hs : s.err = none) : NoLoopSig (forMap n vs b m s) := forMap_consumes vs b n m s hs

/-- Expressions (including calls: a function body's stray break/continue/return becomes an
ordinary error of the call) never hand a control sentinel to the enclosing statement. -/
theorem expr_never_signals (n : Nat) (e : Expr) (s : St) (hs : s.err = none) : NoSig (evalExpr n e s) :=
  (sig_all n).evalExpr e s (noSig_of_none s hs)

/-! ### statement lists: a signal or error ends the list at once -/

theorem stmts_break (n : Nat) (rest : List Stmt) (s : St) :
    execStmts (n + 1) (.brk :: rest) s = { s with err := some .brk } := by
  simp [execStmts]

theorem stmts_continue (n : Nat) (rest : List Stmt) (s : St) :
    execStmts (n + 1) (.cont :: rest) s = { s with err := some .cont } := by
  simp [execStmts]

/-- `return e...` evaluates its operands and ends the list with ErrReturn, keeping the value. -/
theorem stmts_return (n : Nat) (es : List Expr) (rest : List Stmt) (s : St)
    (h : (execStmt n (.ret es) s).err = none) :
    execStmts (n + 1) (.ret es :: rest) s = { execStmt n (.ret es) s with err := some .ret } := by
  simp [execStmts, h]

/-- Any pending error or signal after a statement ends the list: nothing after it runs. -/
theorem stmts_stop_at_error (n : Nat) (st : Stmt) (rest : List Stmt) (s : St)
    (h : (execStmt n st s).err.isSome = true) (h1 : st ≠ .brk) (h2 : st ≠ .cont) :
    execStmts (n + 1) (st :: rest) s = execStmt n st s := by
  cases st <;> simp_all [execStmts]

/-! ### return ends the current invocation from any depth -/

/-- The invocation of a script function whose body ends with ErrReturn (raised at any depth of
nested blocks and loops: loops and blocks pass it through, see `loopIter` / `execStmts`)
yields exactly the returned value and no error. -/
theorem return_ends_invocation (n : Nat) (id : Nat) (c : Closure) (args : List RV) (s : St)
    (hc : s.closures[id]? = some c) (hva : c.vararg = false) (hlen : c.params.length ≤ args.length) :
    let callee : St := { ((s.newScope c.env).2.defineAll (s.newScope c.env).1 (c.params.zip (args.take c.params.length))) with
        cur := (s.newScope c.env).1, rv := nilRV, err := none, defers := [] }
    let r := execStmt n c.body callee
    r.defers = [] → r.err = some .ret →
    (callFn (n + 1) (.fn id) args false s).rv = r.rv ∧ (callFn (n + 1) (.fn id) args false s).err = none := by
  intro callee r hd he
  have hlen' : ¬ (min c.params.length args.length < c.params.length) := by omega
  simp only [callFn, hc, hva, Bool.false_eq_true, if_false, List.append_nil, List.length_take]
  simp only [hlen', if_false]
  simp only [callee, r] at hd he ⊢
  simp [hd, he]

/-- A loop hands ErrReturn straight through (it does not consume it). -/
theorem loop_passes_return (n : Nat) (c : Option Expr) (b : Stmt) (s : St)
    (hp : s.poll.1 = false) (hc : (evalCond n c s.poll.2).1 = some true) (hce : (evalCond n c s.poll.2).2.err = none)
    (hb : (execStmt n b (evalCond n c s.poll.2).2).err = some .ret) :
    loopIter (n + 1) c b s = execStmt n b (evalCond n c s.poll.2).2 := by
  rw [loopIter.eq_def]
  simp [hp, hc, hce, hb]

/-- a float interface that is never consulted (for closed witnesses without floats) -/
def noFloats : FOps :=
  { add := fun _ _ => 0, sub := fun _ _ => 0, mul := fun _ _ => 0, div := fun _ _ => 0, neg := fun _ => 0,
    lt := fun _ _ => false, le := fun _ _ => false, eq := fun _ _ => false, ofInt := fun _ => 0,
    toInt := fun _ => none, fmt := fun _ => none, parse := fun _ => none }

/-- FINDING #13 witness: in the model (as in the interpreter) `try` catches ErrReturn:
`try { return 1 } catch e { return 2 }` leaves 2 in `rv`. -/
theorem try_catches_return_witness :
    (match (@execStmts noFloats ⟨true⟩ 12
        [.tryS (.stmts [.ret [.lit (.int 1)]]) "e" (.stmts [.ret [.lit (.int 2)]]) .nilS]
        (St.init none)).rv.v with | .int i => i == 2 | _ => false) = true := by
  decide +kernel

/-! ### branches -/

/-- `if`: a truthy condition runs exactly the then-branch (in a fresh scope) and nothing else. -/
theorem if_true_runs_then (n : Nat) (c : Expr) (t : Stmt) (el : List (Expr × Stmt)) (e : Stmt) (s : St)
    (hp : s.poll.1 = false) (hc : (evalExpr n c s.poll.2).err = none)
    (ht : toBoolRV (evalExpr n c s.poll.2).rv = some true) :
    execStmt (n + 1) (.ifS c t el e) s =
      { execStmt n t { ((evalExpr n c s.poll.2).newScope (evalExpr n c s.poll.2).cur).2 with
          rv := nilRV, cur := ((evalExpr n c s.poll.2).newScope (evalExpr n c s.poll.2).cur).1 } with
        cur := (evalExpr n c s.poll.2).cur } := by
  rw [execStmt.eq_def]
  simp [hp, hc, ht]

/-- a falsy condition hands over to the else-if chain / else branch -/
theorem if_false_runs_rest (n : Nat) (c : Expr) (t : Stmt) (el : List (Expr × Stmt)) (e : Stmt) (s : St)
    (hp : s.poll.1 = false) (hc : (evalExpr n c s.poll.2).err = none)
    (ht : toBoolRV (evalExpr n c s.poll.2).rv = some false) :
    execStmt (n + 1) (.ifS c t el e) s = execElifs n el e (evalExpr n c s.poll.2).cur (evalExpr n c s.poll.2) := by
  rw [execStmt.eq_def]
  simp [hp, hc, ht]

/-- the else-if chain runs the first branch whose condition is truthy; later conditions are not evaluated -/
theorem elif_first_truthy (n : Nat) (c : Expr) (t : Stmt) (rest : List (Expr × Stmt)) (e : Stmt) (env : Nat) (s : St)
    (hc : (evalExpr n c { (s.newScope env).2 with cur := (s.newScope env).1 }).err = none)
    (ht : toBoolRV (evalExpr n c { (s.newScope env).2 with cur := (s.newScope env).1 }).rv = some true) :
    let s2 := evalExpr n c { (s.newScope env).2 with cur := (s.newScope env).1 }
    execElifs (n + 1) ((c, t) :: rest) e env s =
      { execStmt n t { (s2.newScope env).2 with rv := nilRV, cur := (s2.newScope env).1 } with cur := env } := by
  intro s2
  rw [execElifs.eq_def]
  simp [hc, ht, s2]

/-- `switch` runs the first case equal to the subject (`matchCase` stops at the first equal value) -/
theorem switch_first_equal_case (n : Nat) (subj : RV) (es : List Expr) (body : Stmt)
    (rest : List (List Expr × Stmt)) (d : Stmt) (s : St)
    (h : (matchCase n subj es s).1 = true) (he : (matchCase n subj es s).2.err = none) :
    execCases (n + 1) subj ((es, body) :: rest) d s = execStmt n body (matchCase n subj es s).2 := by
  rw [execCases.eq_def]
  simp [h, he]

theorem switch_default (n : Nat) (subj : RV) (d : Stmt) (s : St) (hd : d ≠ .nilS) :
    execCases (n + 1) subj [] d s = execStmt n d s := by
  rw [execCases.eq_def]
  cases d <;> simp_all

/-! ### loops visit in order; the C-style loop runs its post expression after `continue` -/

/-- for-in over a slice: element `x` first (bound to the loop variable in the loop's scope),
then the remaining elements, in index order. -/
theorem forin_index_order (n : Nat) (v : String) (b : Stmt) (x : Val) (xs : List Val) (s : St)
    (hp : s.poll.1 = false)
    (hb : (execStmt n b (s.poll.2.define s.poll.2.cur v ⟨false, x⟩)).err = none) :
    forSlice (n + 1) v b (x :: xs) s = forSlice n v b xs (execStmt n b (s.poll.2.define s.poll.2.cur v ⟨false, x⟩)) := by
  rw [forSlice.eq_def]
  simp [hp, hb]

/-- `continue` in a C-style loop still evaluates the post expression before the next test -/
theorem cfor_post_after_continue (n : Nat) (c : Option Expr) (pe : Expr) (b : Stmt) (s : St)
    (hp : s.poll.1 = false) (hc : (evalCond n c s.poll.2).1 = some true) (hce : (evalCond n c s.poll.2).2.err = none)
    (hb : (execStmt n b (evalCond n c s.poll.2).2).err = some .cont)
    (hpe : (evalExpr n pe { execStmt n b (evalCond n c s.poll.2).2 with err := none }).err = none) :
    cforIter (n + 1) c (some pe) b s =
      cforIter n c (some pe) b (evalExpr n pe { execStmt n b (evalCond n c s.poll.2).2 with err := none }) := by
  rw [cforIter.eq_def]
  simp [hp, hc, hce, hb, hpe]

/-! ### truthiness -/
theorem truthy_nil : toBool .nil = some false := rfl
theorem truthy_bool (b : Bool) : toBool (.bool b) = some b := rfl
theorem truthy_int (i : I64) : toBool (.int i) = some (i != 0) := rfl
theorem truthy_empty_string : toBool (.str []) = some false := rfl
theorem truthy_list (xs : List Val) : toBool (.list xs) = some (!xs.isEmpty) := rfl
theorem truthy_map (m : List (Val × Val)) : toBool (.map m) = some (!m.isEmpty) := rfl

/-! strings: what a condition written as a string - a literal included - counts as -/
/-- a non-empty string that spells Go's false (`0 f F false FALSE False`) is falsy -/
theorem truthy_false_word (s : Bytes) (h : isFalseWord s = true) : toBool (.str s) = some false := by
  simp only [toBool, tryToBool]
  split <;> simp_all

/-- a string that denotes the number zero (`0.0`, `-0`, `0e5`, `00` ...) is falsy, one that denotes another number is truthy -/
theorem truthy_numeric_string (s : Bytes) (f : I64) (hne : s.isEmpty = false) (hw : isFalseWord s = false) (hp : FOps.parse s = some (some f)) :
    toBool (.str s) = some (!(FOps.eq f fzero)) := by
  simp [toBool, tryToBool, hne, hw, hp]

/-- every other non-empty string is truthy -/
theorem truthy_other_string (s : Bytes) (hne : s.isEmpty = false) (hw : isFalseWord s = false) (hp : FOps.parse s = some none) :
    toBool (.str s) = some true := by
  simp [toBool, tryToBool, hne, hw, hp]

example : toBool (.str (strBytes "0")) = some false := truthy_false_word _ (by simp [isFalseWord])
example : toBool (.str (strBytes "false")) = some false := truthy_false_word _ (by simp [isFalseWord])
example : toBool (.str (strBytes "F")) = some false := truthy_false_word _ (by simp [isFalseWord])



/-! ### How control moves through the branch and loop functions of the source (regenerated: Gen/StmtFlow)

Every leaf statement of runStmtsStmt, runIfStmt, runSwitchStmt and the loop functions of vm/vmStmt.go, with the conditions it stands
under, is extracted on every run and compared with the table below, written next to the model's evaluator: a loop polls the context
at the top of every round; `ErrContinue` is cleared and the loop goes on, `ErrBreak` is cleared and the loop ends, `ErrReturn` and
every other error leave the loop as they are; the scope entered for the loop is left again on every way out; a switch runs the first
matching case, else the default; an if runs the first branch whose condition holds. A signal handled in another place, a poll
dropped, a scope not restored or a changed order shows as a difference. -/
/-- the statement list, if, switch and the five loop forms -/
def branchAndLoopFlow : List (String × String) := [
  ("runStmtsStmt", "for _, stmt range stmts.Stmts && stmt.(type) in {*ast.BreakStmt} => E = ErrBreak"),
  ("runStmtsStmt", "for _, stmt range stmts.Stmts && stmt.(type) in {*ast.BreakStmt} => return"),
  ("runStmtsStmt", "for _, stmt range stmts.Stmts && stmt.(type) in {*ast.ContinueStmt} => E = ErrContinue"),
  ("runStmtsStmt", "for _, stmt range stmts.Stmts && stmt.(type) in {*ast.ContinueStmt} => return"),
  ("runStmtsStmt", "for _, stmt range stmts.Stmts && stmt.(type) in {*ast.ReturnStmt} => ri.stmt = stmt"),
  ("runStmtsStmt", "for _, stmt range stmts.Stmts && stmt.(type) in {*ast.ReturnStmt} => ri.runSingleStmt()"),
  ("runStmtsStmt", "for _, stmt range stmts.Stmts && stmt.(type) in {*ast.ReturnStmt} && E != nil => return"),
  ("runStmtsStmt", "for _, stmt range stmts.Stmts && stmt.(type) in {*ast.ReturnStmt} => E = ErrReturn"),
  ("runStmtsStmt", "for _, stmt range stmts.Stmts && stmt.(type) in {*ast.ReturnStmt} => return"),
  ("runStmtsStmt", "for _, stmt range stmts.Stmts && stmt.(type) default => ri.stmt = stmt"),
  ("runStmtsStmt", "for _, stmt range stmts.Stmts && stmt.(type) default => ri.runSingleStmt()"),
  ("runStmtsStmt", "for _, stmt range stmts.Stmts && stmt.(type) default && E != nil => return"),
  ("runIfStmt", "ri.expr = stmt.If"),
  ("runIfStmt", "ri.invokeExpr()"),
  ("runIfStmt", "E != nil => return"),
  ("runIfStmt", "env := ri.env"),
  ("runIfStmt", "toBool(R) => R = nilValue"),
  ("runIfStmt", "toBool(R) => ri.stmt = stmt.Then"),
  ("runIfStmt", "toBool(R) => ri.env = env.NewEnv()"),
  ("runIfStmt", "toBool(R) => ri.runSingleStmt()"),
  ("runIfStmt", "toBool(R) => ri.env = env"),
  ("runIfStmt", "toBool(R) => return"),
  ("runIfStmt", "for _, statement range stmt.ElseIf => elseIf := statement.(*ast.IfStmt)"),
  ("runIfStmt", "for _, statement range stmt.ElseIf => ri.env = env.NewEnv()"),
  ("runIfStmt", "for _, statement range stmt.ElseIf => ri.expr = elseIf.If"),
  ("runIfStmt", "for _, statement range stmt.ElseIf => ri.invokeExpr()"),
  ("runIfStmt", "for _, statement range stmt.ElseIf && E != nil => ri.env = env"),
  ("runIfStmt", "for _, statement range stmt.ElseIf && E != nil => return"),
  ("runIfStmt", "for _, statement range stmt.ElseIf && !toBool(R) => continue"),
  ("runIfStmt", "for _, statement range stmt.ElseIf => R = nilValue"),
  ("runIfStmt", "for _, statement range stmt.ElseIf => ri.stmt = elseIf.Then"),
  ("runIfStmt", "for _, statement range stmt.ElseIf => ri.env = env.NewEnv()"),
  ("runIfStmt", "for _, statement range stmt.ElseIf => ri.runSingleStmt()"),
  ("runIfStmt", "for _, statement range stmt.ElseIf => ri.env = env"),
  ("runIfStmt", "for _, statement range stmt.ElseIf => return"),
  ("runIfStmt", "stmt.Else != nil => R = nilValue"),
  ("runIfStmt", "stmt.Else != nil => ri.stmt = stmt.Else"),
  ("runIfStmt", "stmt.Else != nil => ri.env = env.NewEnv()"),
  ("runIfStmt", "stmt.Else != nil => ri.runSingleStmt()"),
  ("runIfStmt", "ri.env = env"),
  ("runSwitchStmt", "env := ri.env"),
  ("runSwitchStmt", "ri.env = env.NewEnv()"),
  ("runSwitchStmt", "ri.expr = stmt.Expr"),
  ("runSwitchStmt", "ri.invokeExpr()"),
  ("runSwitchStmt", "E != nil => ri.env = env"),
  ("runSwitchStmt", "E != nil => return"),
  ("runSwitchStmt", "value := unalias(R)"),
  ("runSwitchStmt", "for _, switchCaseStmt range stmt.Cases => caseStmt := switchCaseStmt.(*ast.SwitchCaseStmt)"),
  ("runSwitchStmt", "for _, switchCaseStmt range stmt.Cases && for _, ri.expr range caseStmt.Exprs => ri.invokeExpr()"),
  ("runSwitchStmt", "for _, switchCaseStmt range stmt.Cases && for _, ri.expr range caseStmt.Exprs && E != nil => ri.env = env"),
  ("runSwitchStmt", "for _, switchCaseStmt range stmt.Cases && for _, ri.expr range caseStmt.Exprs && E != nil => return"),
  ("runSwitchStmt", "for _, switchCaseStmt range stmt.Cases && for _, ri.expr range caseStmt.Exprs && equal(R, value) => ri.stmt = caseStmt.Stmt"),
  ("runSwitchStmt", "for _, switchCaseStmt range stmt.Cases && for _, ri.expr range caseStmt.Exprs && equal(R, value) => ri.runSingleStmt()"),
  ("runSwitchStmt", "for _, switchCaseStmt range stmt.Cases && for _, ri.expr range caseStmt.Exprs && equal(R, value) => ri.env = env"),
  ("runSwitchStmt", "for _, switchCaseStmt range stmt.Cases && for _, ri.expr range caseStmt.Exprs && equal(R, value) => return"),
  ("runSwitchStmt", "stmt.Default == nil => R = nilValue"),
  ("runSwitchStmt", "!(stmt.Default == nil) => ri.stmt = stmt.Default"),
  ("runSwitchStmt", "!(stmt.Default == nil) => ri.runSingleStmt()"),
  ("runSwitchStmt", "ri.env = env"),
  ("runLoopStmt", "env := ri.env"),
  ("runLoopStmt", "ri.env = env.NewEnv()"),
  ("runLoopStmt", "for && select <-ri.ctx.Done() => E = ErrInterrupt"),
  ("runLoopStmt", "for && select <-ri.ctx.Done() => R = nilValue"),
  ("runLoopStmt", "for && select <-ri.ctx.Done() => ri.env = env"),
  ("runLoopStmt", "for && select <-ri.ctx.Done() => return"),
  ("runLoopStmt", "for && select default => (nothing)"),
  ("runLoopStmt", "for && stmt.Expr != nil => ri.expr = stmt.Expr"),
  ("runLoopStmt", "for && stmt.Expr != nil => ri.invokeExpr()"),
  ("runLoopStmt", "for && stmt.Expr != nil && E != nil => break"),
  ("runLoopStmt", "for && stmt.Expr != nil && !toBool(R) => break"),
  ("runLoopStmt", "for => ri.stmt = stmt.Stmt"),
  ("runLoopStmt", "for => ri.runSingleStmt()"),
  ("runLoopStmt", "for && E != nil && E == ErrContinue => E = nil"),
  ("runLoopStmt", "for && E != nil && E == ErrContinue => continue"),
  ("runLoopStmt", "for && E != nil && E == ErrReturn => ri.env = env"),
  ("runLoopStmt", "for && E != nil && E == ErrReturn => return"),
  ("runLoopStmt", "for && E != nil && E == ErrBreak => E = nil"),
  ("runLoopStmt", "for && E != nil => break"),
  ("runLoopStmt", "R = nilValue"),
  ("runLoopStmt", "ri.env = env"),
  ("runForStmt", "ri.expr = stmt.Value"),
  ("runForStmt", "ri.invokeExpr()"),
  ("runForStmt", "value := R"),
  ("runForStmt", "E != nil => return"),
  ("runForStmt", "value = containerOperand(value)"),
  ("runForStmt", "env := ri.env"),
  ("runForStmt", "ri.env = env.NewEnv()"),
  ("runForStmt", "value.Kind() in {Slice, Array} => ri.runForSliceStmt(stmt, value)"),
  ("runForStmt", "value.Kind() in {Map} => ri.runForMapStmt(stmt, value)"),
  ("runForStmt", "value.Kind() in {Chan} => ri.runForChanStmt(stmt, value)"),
  ("runForStmt", "value.Kind() default => E = newStringError(stmt, \"for cannot loop over type \"+value.Kind().String())"),
  ("runForStmt", "value.Kind() default => R = nilValue"),
  ("runForStmt", "ri.env = env"),
  ("runForSliceStmt", "for i := 0; i < value.Len(); i++ && select <-ri.ctx.Done() => E = ErrInterrupt"),
  ("runForSliceStmt", "for i := 0; i < value.Len(); i++ && select <-ri.ctx.Done() => R = nilValue"),
  ("runForSliceStmt", "for i := 0; i < value.Len(); i++ && select <-ri.ctx.Done() => return"),
  ("runForSliceStmt", "for i := 0; i < value.Len(); i++ && select default => (nothing)"),
  ("runForSliceStmt", "for i := 0; i < value.Len(); i++ => iv := unalias(value.Index(i))"),
  ("runForSliceStmt", "for i := 0; i < value.Len(); i++ && (iv.Kind() == Interface && !iv.IsNil()) => iv = iv.Elem()"),
  ("runForSliceStmt", "for i := 0; i < value.Len(); i++ => ri.env.DefineValue(stmt.Vars[0], iv)"),
  ("runForSliceStmt", "for i := 0; i < value.Len(); i++ => ri.stmt = stmt.Stmt"),
  ("runForSliceStmt", "for i := 0; i < value.Len(); i++ => ri.runSingleStmt()"),
  ("runForSliceStmt", "for i := 0; i < value.Len(); i++ && E != nil && E == ErrContinue => E = nil"),
  ("runForSliceStmt", "for i := 0; i < value.Len(); i++ && E != nil && E == ErrContinue => continue"),
  ("runForSliceStmt", "for i := 0; i < value.Len(); i++ && E != nil && E == ErrReturn => return"),
  ("runForSliceStmt", "for i := 0; i < value.Len(); i++ && E != nil && E == ErrBreak => E = nil"),
  ("runForSliceStmt", "for i := 0; i < value.Len(); i++ && E != nil => break"),
  ("runForSliceStmt", "R = nilValue"),
  ("runForMapStmt", "keys := value.MapKeys()"),
  ("runForMapStmt", "for i := 0; i < len(keys); i++ && select <-ri.ctx.Done() => E = ErrInterrupt"),
  ("runForMapStmt", "for i := 0; i < len(keys); i++ && select <-ri.ctx.Done() => R = nilValue"),
  ("runForMapStmt", "for i := 0; i < len(keys); i++ && select <-ri.ctx.Done() => return"),
  ("runForMapStmt", "for i := 0; i < len(keys); i++ && select default => (nothing)"),
  ("runForMapStmt", "for i := 0; i < len(keys); i++ => mapValue := value.MapIndex(keys[i])"),
  ("runForMapStmt", "for i := 0; i < len(keys); i++ && !mapValue.IsValid() => continue"),
  ("runForMapStmt", "for i := 0; i < len(keys); i++ => ri.env.DefineValue(stmt.Vars[0], keys[i])"),
  ("runForMapStmt", "for i := 0; i < len(keys); i++ && len(stmt.Vars) > 1 => ri.env.DefineValue(stmt.Vars[1], mapValue)"),
  ("runForMapStmt", "for i := 0; i < len(keys); i++ => ri.stmt = stmt.Stmt"),
  ("runForMapStmt", "for i := 0; i < len(keys); i++ => ri.runSingleStmt()"),
  ("runForMapStmt", "for i := 0; i < len(keys); i++ && E != nil && E == ErrContinue => E = nil"),
  ("runForMapStmt", "for i := 0; i < len(keys); i++ && E != nil && E == ErrContinue => continue"),
  ("runForMapStmt", "for i := 0; i < len(keys); i++ && E != nil && E == ErrReturn => return"),
  ("runForMapStmt", "for i := 0; i < len(keys); i++ && E != nil && E == ErrBreak => E = nil"),
  ("runForMapStmt", "for i := 0; i < len(keys); i++ && E != nil => break"),
  ("runForMapStmt", "R = nilValue"),
  ("runForChanStmt", "var chosen int"),
  ("runForChanStmt", "var ok bool"),
  ("runForChanStmt", "value.Type().ChanDir()&RecvDir == 0 => E = newStringError(stmt, \"receive from send-only channel\")"),
  ("runForChanStmt", "value.Type().ChanDir()&RecvDir == 0 => R = nilValue"),
  ("runForChanStmt", "value.Type().ChanDir()&RecvDir == 0 => return"),
  ("runForChanStmt", "for => cases := []SelectCase{{ Dir: SelectRecv, Chan: ValueOf(ri.ctx.Done()), }, { Dir: SelectRecv, Chan: value, }}"),
  ("runForChanStmt", "for => chosen, R, ok = Select(cases)"),
  ("runForChanStmt", "for && chosen == 0 => E = ErrInterrupt"),
  ("runForChanStmt", "for && chosen == 0 => R = nilValue"),
  ("runForChanStmt", "for && chosen == 0 => break"),
  ("runForChanStmt", "for && !ok => break"),
  ("runForChanStmt", "for && (R.Kind() == Interface && !R.IsNil()) => R = R.Elem()"),
  ("runForChanStmt", "for => ri.env.DefineValue(stmt.Vars[0], R)"),
  ("runForChanStmt", "for => ri.stmt = stmt.Stmt"),
  ("runForChanStmt", "for => ri.runSingleStmt()"),
  ("runForChanStmt", "for && E != nil && E == ErrContinue => E = nil"),
  ("runForChanStmt", "for && E != nil && E == ErrContinue => continue"),
  ("runForChanStmt", "for && E != nil && E == ErrReturn => return"),
  ("runForChanStmt", "for && E != nil && E == ErrBreak => E = nil"),
  ("runForChanStmt", "for && E != nil => break"),
  ("runForChanStmt", "R = nilValue"),
  ("runCForStmt", "env := ri.env"),
  ("runCForStmt", "ri.env = env.NewEnv()"),
  ("runCForStmt", "stmt.Stmt1 != nil => ri.stmt = stmt.Stmt1"),
  ("runCForStmt", "stmt.Stmt1 != nil => ri.runSingleStmt()"),
  ("runCForStmt", "stmt.Stmt1 != nil && E != nil => ri.env = env"),
  ("runCForStmt", "stmt.Stmt1 != nil && E != nil => return"),
  ("runCForStmt", "for && select <-ri.ctx.Done() => E = ErrInterrupt"),
  ("runCForStmt", "for && select <-ri.ctx.Done() => R = nilValue"),
  ("runCForStmt", "for && select <-ri.ctx.Done() => ri.env = env"),
  ("runCForStmt", "for && select <-ri.ctx.Done() => return"),
  ("runCForStmt", "for && select default => (nothing)"),
  ("runCForStmt", "for && stmt.Expr2 != nil => ri.expr = stmt.Expr2"),
  ("runCForStmt", "for && stmt.Expr2 != nil => ri.invokeExpr()"),
  ("runCForStmt", "for && stmt.Expr2 != nil && E != nil => break"),
  ("runCForStmt", "for && stmt.Expr2 != nil && !toBool(R) => break"),
  ("runCForStmt", "for => ri.stmt = stmt.Stmt"),
  ("runCForStmt", "for => ri.runSingleStmt()"),
  ("runCForStmt", "for && E == ErrContinue => E = nil"),
  ("runCForStmt", "for && E != nil && E == ErrReturn => ri.env = env"),
  ("runCForStmt", "for && E != nil && E == ErrReturn => return"),
  ("runCForStmt", "for && E != nil && E == ErrBreak => E = nil"),
  ("runCForStmt", "for && E != nil => break"),
  ("runCForStmt", "for && stmt.Expr3 != nil => ri.expr = stmt.Expr3"),
  ("runCForStmt", "for && stmt.Expr3 != nil => ri.invokeExpr()"),
  ("runCForStmt", "for && stmt.Expr3 != nil && E != nil => break"),
  ("runCForStmt", "R = nilValue"),
  ("runCForStmt", "ri.env = env")
]

theorem branches_and_loops_move_control_as_modelled :
    Gen.StmtFlow.leaves.filter (fun l => l.1 != "runTryStmt" && l.1 != "runDefers") = branchAndLoopFlow := by decide +kernel

/-! ### Shared source ties

The code this property is anchored in is also written down, leaf statement by leaf statement, by the tables below (each decided once in
Props/Tie, `decide +kernel`, against the table regenerated from /repo on this run). A change of that code breaks the tie by name here too, and the check of
this property then searches for a failing input - so a change that breaks this property through code whose primary table belongs to another
property is not overlooked. -/
/-- the branch, loop, try and defer functions (vmStmt.go) -/
theorem source_tie_StmtFlow : Gen.StmtFlow.leaves = Tables.stmtFlow := Tie.stmtFlow
/-- the statement dispatcher, return, defer, deferred calls -/
theorem source_tie_SingleStmtFlow : Gen.SingleStmtFlow.leaves = Tables.singleStmtFlow := Tie.singleStmtFlow
/-- unary operators, dereference, address-of, unalias, containerOperand, isNil -/
theorem source_tie_ProvFlow : Gen.ProvFlow.leaves = Tables.provFlow := Tie.provFlow
/-- the conversions of the numeric tower (vmToX.go) and kind helpers -/
theorem source_tie_ToXFlow : Gen.ToXFlow.leaves = Tables.toXFlow := Tie.toXFlow


/-! ### Declaration inventory

Nothing was added to the packages this property is anchored in: their top-level declarations (functions, methods, variables, constants, types with
the fields of struct types), regenerated from /repo on this run, are the audited ones (Props/Tie/Inventory). A helper, a package-level table or a
file added there - code no flow table can pin - breaks the tie by name and makes this property's check search for a failing input. -/
/-- vm/ -/
theorem declarations_of_Vm_are_the_audited_ones : Tie.ofPkg "vm" Gen.Inventory.decls = Tie.ofPkg "vm" Tables.inventory := Tie.inventoryVm
/-- ast/ -/
theorem declarations_of_Ast_are_the_audited_ones : Tie.ofPkg "ast" Gen.Inventory.decls = Tie.ofPkg "ast" Tables.inventory := Tie.inventoryAst

end Anko.C08
