/-
C13 — An environment is safe to share between goroutines.

Three ingredients:
 1. REGENERATED facts (Anko.Gen.EnvLocks, from env/*.go): every access of an *Env method to the
    shared tables `values` / `types` happens while e.rwMutex is held, writes under the write lock.
 2. The RWMutex occupancy LTS (Anko.Model.Lts): in every reachable state a writer is alone.
    Together: two conflicting accesses to one scope's tables are never enabled at the same time
    (no data race on the tables), for any number of goroutines and any interleaving.
 3. Region-atomic semantics: an operation whose effect on a scope happens inside one region takes
    effect atomically there, so an interleaving of goroutines is a merge of their operation
    lists executed one at a time (Anko.Model.EnvApi.run) - a sequential order that respects
    each goroutine's own order.
The lock-acquisition-granular correspondence with the real code and the race detector runs are
in the `envconc` stream.
-/
import Anko.Gen.EnvLocks
import Anko.Model.Lts
import Anko.Model.EnvApi
import Anko.Props.Tie.EnvFlow
import Anko.Props.Tie.Inventory

namespace Anko.C13
open Anko

/-! ### 1. every table access is guarded (REGENERATED obligation) -/

def accessGuarded (a : Gen.TableAccess) : Bool :=
  match a.mode with
  | .none => false
  | .R => !a.isWrite
  | .W => true

/-- Every read of e.values / e.types / e.externalLookup in env/*.go happens under RLock or Lock, every write under Lock. -/
theorem env_accesses_guarded : Gen.envAccesses.all accessGuarded = true := by decide

/-- the methods the property is about all have a region (none of them touches a table unlocked) -/
theorem env_methods_have_regions :
    ["DefineValue: W", "SetValue: W", "GetValue: R", "Delete: W", "Copy: R", "GetValueSymbols: R",
     "GetTypeSymbols: R", "DefineReflectType: W", "Type: R"].all (fun r => Gen.envRegions.contains r) = true := by
  decide

/-! ### 2. a writer is alone, in every reachable occupancy -/
open Lts

theorem step_preserves_excl (s s' : Occ) (e : Ev) (h : Excl s) (hs : step s e = some s') : Excl s' := by
  unfold Excl at *
  cases e <;> simp only [step] at hs <;> split at hs <;> simp at hs <;> subst hs <;> simp <;> omega

theorem run_preserves_excl : ∀ (es : List Ev) (s s' : Occ), Excl s → run s es = some s' → Excl s' := by
  intro es
  induction es with
  | nil => intro s s' h hr; simp [run] at hr; subst hr; exact h
  | cons e es ih =>
    intro s s' h hr
    simp only [run] at hr
    split at hr
    · next s1 hs => exact ih s1 s' (step_preserves_excl s s1 e h hs) hr
    · cases hr

/-- For ANY interleaving of region entries and exits of any number of goroutines on one
environment: a goroutine inside a write region excludes every other goroutine from both kinds
of region. -/
theorem writer_is_alone (es : List Ev) (s : Occ) (h : run Lts.init es = some s) :
    s.writers ≤ 1 ∧ (s.writers = 1 → s.readers = 0) :=
  run_preserves_excl es Lts.init s (by simp [Excl, Lts.init]) h

/-- No two conflicting table accesses are enabled together: an access is made only inside a
region of its method (fact 1), a write region is entered only when the scope is unoccupied and
while it is occupied nothing else can enter. -/
theorem no_conflicting_access_enabled (es : List Ev) (s : Occ) (h : run Lts.init es = some s)
    (hw : s.writers = 1) : step s .enterR = none ∧ step s .enterW = none ∧ s.readers = 0 := by
  have := writer_is_alone es s h
  refine ⟨by simp [step, hw], by simp [step, hw], this.2 hw⟩

/-- readers never block readers (no lost concurrency, no deadlock among reads) -/
theorem readers_share (s : Occ) (hw : s.writers = 0) : (step s .enterR).isSome = true := by
  simp [step, hw]

/-- whoever is inside can always leave: no operation holds the mutex while waiting for it again
(the regions extracted in fact 1 are not nested in one another except Addr's read locks, which
follow the parent order) -/
theorem inside_can_leave (s : Occ) : (0 < s.readers → (step s .exitR).isSome = true) ∧
    (0 < s.writers → (step s .exitW).isSome = true) := by
  constructor <;> intro h <;> simp [step, h]

/-! ### 2a. the same at the level of goroutines: programs of read- and write-locked operations under any schedule

`Thr` = a goroutine (the lock modes of the operations it still has to do, the region it is inside of); `Sys.move` gives one goroutine a turn (leave
the region it is in, or enter the region of its next operation when the RWMutex specification `step` allows it); `Sys.run` follows any schedule.
Invariant `Inv`: the mutex's counters ARE the numbers of goroutines inside regions of each kind (`move_keeps_inv`, by the counting lemma
`countIn_set`); with `Excl` this gives mutual exclusion between goroutines, not only between counter values. -/

inductive Mode where
  | r | w
  deriving DecidableEq, Repr

/-- a goroutine: the lock modes of the operations it still has to do, and the region it is inside of (if any) -/
structure Thr where
  todo : List Mode
  inside : Option Mode
  deriving DecidableEq, Repr

structure Sys where
  ths : List Thr
  occ : Occ

def enterEv : Mode → Ev
  | .r => .enterR
  | .w => .enterW

def exitEv : Mode → Ev
  | .r => .exitR
  | .w => .exitW

/-- goroutine `i` makes its next move: it leaves the region it is inside of, or enters the region of its next operation if the mutex allows it now
(`none`: the goroutine does not exist, has finished, or has to wait) -/
def Sys.move (s : Sys) (i : Nat) : Option Sys :=
  match s.ths[i]? with
  | none => none
  | some t =>
    match t.inside with
    | some m => (step s.occ (exitEv m)).map (fun o => ⟨s.ths.set i { t with inside := none }, o⟩)
    | none =>
      match t.todo with
      | [] => none
      | m :: rest => (step s.occ (enterEv m)).map (fun o => ⟨s.ths.set i ⟨rest, some m⟩, o⟩)

/-- a schedule: which goroutine is given the next turn (a turn on which it cannot move is lost) -/
def Sys.run (s : Sys) : List Nat → Sys
  | [] => s
  | i :: is => match s.move i with
    | some s' => s'.run is
    | none => s.run is

def countIn (m : Mode) : List Thr → Nat
  | [] => 0
  | t :: ts => (if t.inside = some m then 1 else 0) + countIn m ts

/-- the occupancy the mutex records is the number of goroutines inside regions of each kind -/
def Inv (s : Sys) : Prop := s.occ.readers = countIn .r s.ths ∧ s.occ.writers = countIn .w s.ths

theorem countIn_set (m : Mode) (t' : Thr) : ∀ (ths : List Thr) (i : Nat) (t : Thr), ths[i]? = some t →
    countIn m (ths.set i t') + (if t.inside = some m then 1 else 0) = countIn m ths + (if t'.inside = some m then 1 else 0) := by
  intro ths
  induction ths with
  | nil => intro i t h; simp at h
  | cons x xs ih =>
    intro i t h
    cases i with
    | zero =>
      simp at h; subst h
      simp only [List.set, countIn]; omega
    | succ j =>
      simp at h
      have := ih j t h
      simp only [List.set, countIn]; omega

theorem countIn_pos (m : Mode) : ∀ (ths : List Thr) (i : Nat) (t : Thr), ths[i]? = some t → t.inside = some m → 1 ≤ countIn m ths := by
  intro ths
  induction ths with
  | nil => intro i t h; simp at h
  | cons x xs ih =>
    intro i t h hm
    cases i with
    | zero => simp at h; subst h; simp [countIn, hm]
    | succ j => simp at h; have := ih j t h hm; simp only [countIn]; omega

theorem countIn_two (m : Mode) : ∀ (ths : List Thr) (i j : Nat) (t u : Thr), i ≠ j → ths[i]? = some t → ths[j]? = some u →
    t.inside = some m → u.inside = some m → 2 ≤ countIn m ths := by
  intro ths
  induction ths with
  | nil => intro i j t u _ h; simp at h
  | cons x xs ih =>
    intro i j t u hne hi hj hmt hmu
    cases i with
    | zero =>
      cases j with
      | zero => exact absurd rfl hne
      | succ j' =>
        simp at hi hj; subst hi
        have := countIn_pos m xs j' u hj hmu
        simp only [countIn, hmt]; simp; omega
    | succ i' =>
      cases j with
      | zero =>
        simp at hi hj; subst hj
        have := countIn_pos m xs i' t hi hmt
        simp only [countIn, hmu]; simp; omega
      | succ j' =>
        simp at hi hj
        have := ih i' j' t u (by omega) hi hj hmt hmu
        simp only [countIn]; omega


theorem move_keeps_inv (s s' : Sys) (i : Nat) (h : Inv s) (hm : s.move i = some s') : Inv s' := by
  unfold Sys.move at hm
  cases hi : s.ths[i]? with
  | none => simp [hi] at hm
  | some t =>
    simp only [hi] at hm
    cases hin : t.inside with
    | some m =>
      simp only [hin, Option.map_eq_some_iff] at hm
      obtain ⟨o, ho, rfl⟩ := hm
      have cr := countIn_set .r { t with inside := none } s.ths i t hi
      have cw := countIn_set .w { t with inside := none } s.ths i t hi
      unfold Inv at *
      cases m <;> simp only [exitEv, step] at ho <;> split at ho <;> simp at ho <;> subst ho <;> simp [hin] at cr cw ⊢ <;> omega
    | none =>
      simp only [hin] at hm
      cases htd : t.todo with
      | nil => simp [htd] at hm
      | cons m rest =>
        simp only [htd, Option.map_eq_some_iff] at hm
        obtain ⟨o, ho, rfl⟩ := hm
        have cr := countIn_set .r ⟨rest, some m⟩ s.ths i t hi
        have cw := countIn_set .w ⟨rest, some m⟩ s.ths i t hi
        unfold Inv at *
        cases m <;> simp only [enterEv, step] at ho <;> split at ho <;> simp at ho <;> subst ho <;> simp [hin] at cr cw ⊢ <;> omega

theorem move_keeps_excl (s s' : Sys) (i : Nat) (h : Excl s.occ) (hm : s.move i = some s') : Excl s'.occ := by
  unfold Sys.move at hm
  cases hi : s.ths[i]? with
  | none => simp [hi] at hm
  | some t =>
    simp only [hi] at hm
    cases hin : t.inside with
    | some m =>
      simp only [hin, Option.map_eq_some_iff] at hm
      obtain ⟨o, ho, rfl⟩ := hm
      exact step_preserves_excl s.occ o (exitEv m) h ho
    | none =>
      simp only [hin] at hm
      cases htd : t.todo with
      | nil => simp [htd] at hm
      | cons m rest =>
        simp only [htd, Option.map_eq_some_iff] at hm
        obtain ⟨o, ho, rfl⟩ := hm
        exact step_preserves_excl s.occ o (enterEv m) h ho

theorem run_keeps (sched : List Nat) : ∀ (s : Sys), Inv s → Excl s.occ → Inv (s.run sched) ∧ Excl (s.run sched).occ := by
  induction sched with
  | nil => intro s h1 h2; exact ⟨h1, h2⟩
  | cons i rest ih =>
    intro s h1 h2
    simp only [Sys.run]
    cases hm : s.move i with
    | none => exact ih s h1 h2
    | some s' => exact ih s' (move_keeps_inv s s' i h1 hm) (move_keeps_excl s s' i h2 hm)

/-- the goroutines before any of them has started -/
def Sys.start (progs : List (List Mode)) : Sys := ⟨progs.map (fun p => ⟨p, none⟩), Lts.init⟩

theorem countIn_start (m : Mode) (progs : List (List Mode)) : countIn m (progs.map (fun p => (⟨p, none⟩ : Thr))) = 0 := by
  induction progs with
  | nil => rfl
  | cons p ps ih => simp [countIn, ih]

/-- ANY number of goroutines, each with ANY sequence of read- and write-locked operations on one scope, under ANY schedule: whenever a goroutine is
inside a write region, no other goroutine is inside a region of either kind - what the environment's tables rely on (every access is made inside a
region of its method: `env_accesses_guarded`). Goroutine level, where `writer_is_alone` speaks of the mutex's counters. -/
theorem a_goroutine_in_a_write_region_is_alone (progs : List (List Mode)) (sched : List Nat) (i j : Nat) (t u : Thr)
    (hij : i ≠ j) (hi : ((Sys.start progs).run sched).ths[i]? = some t) (hj : ((Sys.start progs).run sched).ths[j]? = some u)
    (hw : t.inside = some .w) : u.inside = none := by
  have hinv : Inv (Sys.start progs) := by simp [Inv, Sys.start, Lts.init, countIn_start]
  have hex : Excl (Sys.start progs).occ := by simp [Excl, Sys.start, Lts.init]
  obtain ⟨h1, h2⟩ := run_keeps sched (Sys.start progs) hinv hex
  generalize (Sys.start progs).run sched = s at *
  have hw1 := countIn_pos .w s.ths i t hi hw
  cases hu : u.inside with
  | none => rfl
  | some m =>
    exfalso
    cases m with
    | w =>
      have := countIn_two .w s.ths i j t u hij hi hj hw hu
      unfold Inv Excl at *; omega
    | r =>
      have := countIn_pos .r s.ths j u hj hu
      unfold Inv Excl at *; omega

/-- two readers may be inside together (the premise is not vacuous the other way round) -/
example : ((Sys.start [[.r], [.r], [.w]]).run [0, 1, 2]).ths.map (·.inside) = [some .r, some .r, none] := by decide
example : ((Sys.start [[.r], [.w]]).run [1, 0, 1, 0]).ths.map (·.inside) = [some .r, none] := by decide


/-! ### 2b. no deadlock: what an operation does while it holds a scope's lock (regenerated on every run) -/

/-- the calls the env methods make while the scope's mutex is held, as audited: `String` formats under its lock (a deferred
unlock since the repair that names modules instead of dumping them; the `value.*` calls are reflect.Value accessors, they take no lock). Nothing else
calls anything while holding the lock (Addr used to ask the external lookup and the parent under its read lock; since the repair it
releases the lock first, like GetValue and Type) - in particular no method locks a second scope and none re-enters a method of the
same scope.  The list keeps Addr's former entries: a subset is fine, anything new is not. -/
def auditedHeldCalls : List (String × String × Bool) := [
  ("Addr", "external:Get", true), ("Addr", "other:v.Addr", true), ("Addr", "other:v.CanAddr", true),
  ("Addr", "pkg:fmt.Errorf", true), ("Addr", "up:Addr", true),
  ("String", "other:buffer.String", true), ("String", "other:buffer.WriteString", true), ("String", "pkg:fmt.Sprintf", true),
  ("String", "other:value.IsValid", true), ("String", "other:value.CanInterface", true), ("String", "other:value.Interface", true)]

/-- Every call made under a scope's lock is one of the audited ones: the only nested lock acquisition is Addr's, from a
scope to its parent. -/
theorem locks_nest_towards_the_root_only :
    Gen.heldCalls.all (fun c => auditedHeldCalls.contains c) = true := by decide

/-- A region that is closed by an explicit unlock (no `defer`) makes no call that could panic and leave the lock held:
only String's formatting calls (fmt recovers panics of what it formats). -/
theorem explicit_regions_cannot_leak_the_lock :
    (Gen.heldCalls.filter (fun c => !c.2.2)).all
      (fun c => c.2.1 == "other:buffer.WriteString" || c.2.1 == "pkg:fmt.Sprintf") = true := by decide

/-- goroutines as far as deadlock is concerned: the depths (distance from the root) of the scopes whose lock a goroutine
holds, and the depth of the scope whose lock it is waiting for -/
structure Th where
  holds : List Nat
  waits : Option Nat

/-- the discipline established above: a goroutine that waits while holding locks waits for a scope strictly nearer to the root
than every scope it holds (it holds a scope and asks for the parent) -/
def Ordered (t : Th) : Prop := ∀ d, t.waits = some d → ∀ h ∈ t.holds, d < h

/-- `t` waits for a lock that `u` holds -/
def WaitsFor (t u : Th) : Prop := ∃ d, t.waits = some d ∧ d ∈ u.holds

/-- t0 waits for t1 waits for t2 ... -/
inductive WaitChain : List Th → Prop where
  | single (a : Th) : WaitChain [a]
  | cons {a b : Th} {ts : List Th} : WaitsFor a b → WaitChain (b :: ts) → WaitChain (a :: b :: ts)

theorem WaitChain.head_tail {a b : Th} {ts : List Th} (h : WaitChain (a :: b :: ts)) : WaitsFor a b ∧ WaitChain (b :: ts) := by
  cases h with
  | cons h1 h2 => exact ⟨h1, h2⟩

theorem wait_descends {t u : Th} (hu : Ordered u) (h : WaitsFor t u) {d d' : Nat} (ht : t.waits = some d)
    (hw : u.waits = some d') : d' < d := by
  obtain ⟨e, he, hm⟩ := h
  rw [ht] at he; cases he
  exact hu d' hw d hm

/-- along a chain of goroutines each waiting for the next, the depth waited for never grows -/
theorem chain_descends : ∀ (ts : List Th) (a : Th), WaitChain (a :: ts) → (∀ t ∈ a :: ts, Ordered t) →
    ∀ z, (a :: ts).getLast? = some z → ∀ dz, z.waits = some dz → ∀ da, a.waits = some da → dz ≤ da := by
  intro ts
  induction ts with
  | nil =>
    intro a _ _ z hz dz hdz da hda
    simp at hz; subst hz; rw [hdz] at hda; cases hda; exact Nat.le_refl _
  | cons b ts ih =>
    intro a hc ho z hz dz hdz da hda
    have hab : WaitsFor a b := hc.head_tail.1
    have hc' : WaitChain (b :: ts) := hc.head_tail.2
    have ho' : ∀ t ∈ b :: ts, Ordered t := fun t ht => ho t (List.mem_cons_of_mem _ ht)
    have hz' : (b :: ts).getLast? = some z := by simpa [List.getLast?_cons_cons] using hz
    -- b waits as well: either it is the last one (which waits) or it waits for its successor
    have hbw : ∃ db, b.waits = some db := by
      cases ts with
      | nil => simp at hz'; subst hz'; exact ⟨dz, hdz⟩
      | cons c ts' =>
        obtain ⟨e, he, _⟩ := hc'.head_tail.1
        exact ⟨e, he⟩
    obtain ⟨db, hdb⟩ := hbw
    have h1 := ih b hc' ho' z hz' dz hdz db hdb
    have h2 := wait_descends (ho b (by simp)) hab hda hdb
    omega

/-- NO DEADLOCK among goroutines that follow the discipline: there is no cycle t0 -> t1 -> ... -> tn -> t0 of goroutines
each waiting for a lock the next one holds, whatever their number and whatever locks they hold. -/
theorem no_wait_cycle (a : Th) (ts : List Th) (hc : WaitChain (a :: ts)) (ho : ∀ t ∈ a :: ts, Ordered t)
    (z : Th) (hz : (a :: ts).getLast? = some z) (hclose : WaitsFor z a) : False := by
  obtain ⟨dz, hdz, hma⟩ := hclose
  -- a waits too
  have haw : ∃ da, a.waits = some da := by
    cases ts with
    | nil => simp at hz; subst hz; exact ⟨dz, hdz⟩
    | cons b ts' =>
      obtain ⟨e, he, _⟩ := hc.head_tail.1
      exact ⟨e, he⟩
  obtain ⟨da, hda⟩ := haw
  have h1 := chain_descends ts a hc ho z hz dz hdz da hda
  have h2 : da < dz := ho a (by simp) da hda dz hma
  omega

/-- ... while without the discipline two goroutines deadlock: one holds a scope and asks for its child, the other holds the
child and asks for the parent (the shape a path lookup that keeps the parent locked would have against Addr) -/
example : WaitsFor ⟨[1], some 2⟩ ⟨[2], some 1⟩ ∧ WaitsFor ⟨[2], some 1⟩ ⟨[1], some 2⟩ ∧ ¬ Ordered ⟨[1], some 2⟩ := by
  refine ⟨⟨2, rfl, by simp⟩, ⟨1, rfl, by simp⟩, ?_⟩
  intro h; have := h 2 rfl 1 (by simp); omega
example : Ordered ⟨[3, 2], some 1⟩ := by intro d hd h hh; simp at hd; subst hd; simp at hh; omega

/-! ### 3. region-atomic operations: every interleaving is a sequential order -/
open EnvApi

/-- `m` is an interleaving of the operation lists `a` and `b` -/
inductive Shuffle : List Op → List Op → List Op → Prop where
  | nil : Shuffle [] [] []
  | left {x a b m} : Shuffle a b m → Shuffle (x :: a) b (x :: m)
  | right {x a b m} : Shuffle a b m → Shuffle a (x :: b) (x :: m)

/-- an interleaving keeps each goroutine's own order -/
theorem shuffle_keeps_order {a b m : List Op} (h : Shuffle a b m) : a.Sublist m ∧ b.Sublist m := by
  induction h with
  | nil => exact ⟨List.Sublist.slnil, List.Sublist.slnil⟩
  | left _ ih => exact ⟨ih.1.cons₂ _, ih.2.cons _⟩
  | right _ ih => exact ⟨ih.1.cons _, ih.2.cons₂ _⟩

/-- With region-atomic operations, what two goroutines running `a` and `b` concurrently on a shared
environment can observe and leave behind is exactly what the one-at-a-time execution of some
interleaving `m` produces, and `m` respects both program orders. -/
theorem concurrent_run_is_some_sequential_order (h0 : Heap) (a b m : List Op) (hs : Shuffle a b m) :
    ∃ seq, seq = m ∧ a.Sublist seq ∧ b.Sublist seq ∧ (run h0 seq) = (run h0 m) :=
  ⟨m, rfl, (shuffle_keeps_order hs).1, (shuffle_keeps_order hs).2, rfl⟩

/-- a copy taken at any point of an interleaving is the scope as it was at that point (Copy is
one read region): later operations of either goroutine do not show in it -/
theorem copy_is_consistent_snapshot (h : Heap) (i : Nat) (s : Scope) (hs : h[i]? = some s) :
    (EnvApi.copy h i).2[h.size]? = some s := by
  simp [EnvApi.copy, hs]

example : run Lts.init [.enterR, .enterR, .exitR, .exitR, .enterW, .exitW] = some ⟨0, 0⟩ := by decide
example : run Lts.init [.enterW, .enterR] = none := by decide

/-! ### Shared source ties

The code this property is anchored in is also written down, leaf statement by leaf statement, by the tables below (each decided once in
Props/Tie, `decide +kernel`, against the table regenerated from /repo on this run). A change of that code breaks the tie by name here too, and the check of
this property then searches for a failing input - so a change that breaks this property through code whose primary table belongs to another
property is not overlooked. -/
/-- the environment API (env/*.go) -/
theorem source_tie_EnvFlow : Gen.EnvFlow.leaves = Tables.envFlow := Tie.envFlow


/-! ### Declaration inventory

Nothing was added to the packages this property is anchored in: their top-level declarations (functions, methods, variables, constants, types with
the fields of struct types), regenerated from /repo on this run, are the audited ones (Props/Tie/Inventory). A helper, a package-level table or a
file added there - code no flow table can pin - breaks the tie by name and makes this property's check search for a failing input. -/
/-- env/ -/
theorem declarations_of_Env_are_the_audited_ones : Tie.ofPkg "env" Gen.Inventory.decls = Tie.ofPkg "env" Tables.inventory := Tie.inventoryEnv

end Anko.C13
