/-
The functions of the source that Gen/ImportFlow writes down, leaf statement by leaf statement, as they were read against the model when this
table was last audited. Kept by hand next to the model; compared on every run with the table regenerated from the source (Gen).
-/
namespace Anko.Tables

def importFlow : List (String × String) := [
  ("invokeImportExpr", "ri.expr = expr.Name"),
  ("invokeImportExpr", "ri.invokeExpr()"),
  ("invokeImportExpr", "E != nil => return"),
  ("invokeImportExpr", "R, E = convertReflectValueToType(R, stringType)"),
  ("invokeImportExpr", "E != nil => R = nilValue"),
  ("invokeImportExpr", "E != nil => return"),
  ("invokeImportExpr", "name := R.String()"),
  ("invokeImportExpr", "R = nilValue"),
  ("invokeImportExpr", "methods, ok := env.Packages[name]"),
  ("invokeImportExpr", "!ok => E = newStringError(expr, \"package not found: \"+name)"),
  ("invokeImportExpr", "!ok => return"),
  ("invokeImportExpr", "var err error"),
  ("invokeImportExpr", "pack := ri.env.NewEnv()"),
  ("invokeImportExpr", "for methodName, methodValue range methods => err = pack.DefineValue(methodName, methodValue)"),
  ("invokeImportExpr", "for methodName, methodValue range methods && err != nil => E = newStringError(expr, \"import DefineValue error: \"+err.Error())"),
  ("invokeImportExpr", "for methodName, methodValue range methods && err != nil => return"),
  ("invokeImportExpr", "types, ok := env.PackageTypes[name]"),
  ("invokeImportExpr", "ok && for typeName, typeValue range types => err = pack.DefineReflectType(typeName, typeValue)"),
  ("invokeImportExpr", "ok && for typeName, typeValue range types && err != nil => E = newStringError(expr, \"import DefineReflectType error: \"+err.Error())"),
  ("invokeImportExpr", "ok && for typeName, typeValue range types && err != nil => return"),
  ("invokeImportExpr", "R = ValueOf(pack)")
]

end Anko.Tables
