/-
C02 — Cancelling the context always stops a running script.

In the model the context is a poll counter: `St.polls` counts every `select` on `ctx.Done()`
the interpreter performs (statement start, every iteration of every loop form, the poll of
`??` when it discards an error) and `cancelAt = some k` closes the channel at poll `k`.
The correspondence runs the real interpreter under a counting context that cancels at
exactly the same poll, for every `k`, so "all instants at which the cancellation lands" is
quantified at poll granularity on both sides.

KNOWN FINDING (not repaired): a script function handed to Go as a callback runs under
context.Background() (vm/vmConvertToX.go, "TOFIX: use normal context"), so a callback that
spins is not stopped.  Callbacks are outside fragment F0; the wall-clock oracle of the
`cancel` stream reports it as a known finding.
-/
import Anko.Proofs.EvalPoll
import Anko.Gen.ChanOps
import Anko.Proofs.EvalCall
import Anko.Proofs.EvalIntr
import Anko.Props.Tie.RunFlow
import Anko.Props.Tie.SingleStmtFlow
import Anko.Props.Tie.ChanFlow
import Anko.Props.Tie.StmtFlow
import Anko.Props.Tie.CallFlow
import Anko.Props.Tie.BindFlow
import Anko.Props.Tie.ConvFlow
import Anko.Props.Tie.CoreFlow
import Anko.Props.Tie.Inventory

set_option linter.unusedSectionVars false
set_option linter.unusedSimpArgs false

namespace Anko.C02
open Anko
variable [FOps] [Prov]

theorem poll_cancelled (s : St) (hc : s.cancelled = true) : s.poll.1 = true := by
  unfold St.cancelled at hc
  unfold St.poll
  cases h : s.cancelAt <;> simp_all

/-- what a cancelled poll leaves: only the counter moved -/
def interrupted (s : St) : St := { s.poll.2 with rv := nilRV, err := some .interrupt }

/-- After the cancellation, NO statement starts: whatever the statement is, it ends at once
with the interrupt, having changed nothing but the poll counter (no probe, no binding, no scope). -/
theorem stmt_after_cancel (n : Nat) (st : Stmt) (s : St) (hc : s.cancelled = true) :
    execStmt (n + 1) st s = interrupted s := by
  rw [execStmt.eq_def]
  simp [poll_cancelled s hc, interrupted]

theorem stmt_after_cancel_no_effects (n : Nat) (st : Stmt) (s : St) (hc : s.cancelled = true) :
    (execStmt (n + 1) st s).trace = s.trace ∧ (execStmt (n + 1) st s).scopes = s.scopes ∧
    (execStmt (n + 1) st s).err = some .interrupt := by
  rw [stmt_after_cancel n st s hc]
  simp [interrupted, St.poll]

/-- No loop form performs another iteration after the cancellation: each iteration polls first. -/
theorem loop_iteration_after_cancel (n : Nat) (c : Option Expr) (b : Stmt) (s : St) (hc : s.cancelled = true) :
    loopIter (n + 1) c b s = interrupted s := by
  rw [loopIter.eq_def]
  simp [poll_cancelled s hc, interrupted]

theorem cfor_iteration_after_cancel (n : Nat) (c p : Option Expr) (b : Stmt) (s : St) (hc : s.cancelled = true) :
    cforIter (n + 1) c p b s = interrupted s := by
  rw [cforIter.eq_def]
  simp [poll_cancelled s hc, interrupted]

theorem forin_list_iteration_after_cancel (n : Nat) (v : String) (b : Stmt) (x : Val) (xs : List Val) (s : St)
    (hc : s.cancelled = true) : forSlice (n + 1) v b (x :: xs) s = interrupted s := by
  rw [forSlice.eq_def]
  simp [poll_cancelled s hc, interrupted]

theorem forin_map_iteration_after_cancel (n : Nat) (vs : List String) (b : Stmt) (kv : Val × Val)
    (rest : List (Val × Val)) (s : St) (hc : s.cancelled = true) :
    forMap (n + 1) vs b (kv :: rest) s = interrupted s := by
  obtain ⟨k, v⟩ := kv
  rw [forMap.eq_def]
  simp [poll_cancelled s hc, interrupted]

/-- Cancellation is permanent: no model function ever moves the cancellation point or winds the
poll counter back, so a state reached after the cancellation is still cancelled (induction on
fuel over all 28 functions, Anko.Proofs.EvalPoll). -/
theorem cancel_is_sticky_stmt (n : Nat) (st : Stmt) (s : St) (hc : s.cancelled = true) :
    (execStmt n st s).cancelled = true :=
  cancelled_of_later _ _ ((poll_all n).execStmt st s) hc

theorem cancel_is_sticky_expr (n : Nat) (e : Expr) (s : St) (hc : s.cancelled = true) :
    (evalExpr n e s).cancelled = true :=
  cancelled_of_later _ _ ((poll_all n).evalExpr e s) hc

theorem cancel_is_sticky_call (n : Nat) (f : Val) (a : List RV) (cs : Bool) (s : St) (hc : s.cancelled = true) :
    (callFn n f a cs s).cancelled = true :=
  cancelled_of_later _ _ ((poll_all n).callFn f a cs s) hc

/-- A statement list never gets past the cancellation: the first statement is interrupted and the
list ends with the interrupt. -/
theorem stmts_after_cancel (n : Nat) (st : Stmt) (rest : List Stmt) (s : St) (hc : s.cancelled = true)
    (h1 : st ≠ .brk) (h2 : st ≠ .cont) :
    (execStmts (n + 2) (st :: rest) s).err = some .interrupt ∧ (execStmts (n + 2) (st :: rest) s).trace = s.trace := by
  have h := stmt_after_cancel n st s hc
  cases st <;> simp_all [execStmts, interrupted, St.poll]

/-- `try` cannot swallow the interruption: neither the catch nor the finally block runs. -/
theorem try_cannot_swallow (n : Nat) (t c f : Stmt) (v : String) (s : St) (hp : s.poll.1 = false)
    (hi : (execStmt n t { (s.poll.2.newScope s.poll.2.cur).2 with cur := (s.poll.2.newScope s.poll.2.cur).1 }).err = some .interrupt) :
    (execStmt (n + 1) (.tryS t v c f) s).err = some .interrupt := by
  rw [execStmt.eq_def]
  simp [hp, hi]

/-- `l ?? r` cannot swallow it either: when the left side failed and the context is cancelled,
the operator reports the interrupt and the right side is not evaluated. -/
theorem nilco_cannot_swallow (n : Nat) (l r : Expr) (s : St)
    (he : (evalExpr n l s).err.isSome = true) (hc : (evalExpr n l s).cancelled = true) :
    evalExpr (n + 1) (.nilco l r) s = { (evalExpr n l s).poll.2 with rv := nilRV, err := some .interrupt } := by
  have hne : (evalExpr n l s).err.isNone = false := by
    cases h : (evalExpr n l s).err <;> simp_all
  simp [evalExpr, hne, poll_cancelled _ hc]

/-- A script function called after the cancellation does not run a single statement of its body:
the call fails with the message "execution interrupted" and leaves no trace. -/
theorem call_after_cancel (n : Nat) (id : Nat) (c : Closure) (args : List RV) (s : St)
    (hcl : s.closures[id]? = some c) (hva : c.vararg = false) (hlen : c.params.length ≤ args.length)
    (hc : s.cancelled = true) :
    (callFn (n + 2) (.fn id) args false s).err = some (.error "execution interrupted") ∧
    (callFn (n + 2) (.fn id) args false s).trace = s.trace := by
  have hcc : (calleeState s c args).cancelled = true := by
    have h1 := later_newScope s c.env
    have h2 := later_defineAll (c.params.zip (args.take c.params.length)) (s.newScope c.env).2 (s.newScope c.env).1
    have hl : Later s (calleeState s c args) := ⟨(h1.trans h2).1, (h1.trans h2).2⟩
    exact cancelled_of_later s _ hl hc
  have hb := stmt_after_cancel n c.body (calleeState s c args) hcc
  rw [callFn_closure (n + 1) id c args s hcl hva hlen, hb]
  have hd0 : (calleeState s c args).defers = [] := rfl
  simp [afterDefers, hd0, backToCaller, interrupted, St.poll, Err.msg, calleeState_trace]

/-- The message the host sees is the documented one. -/
theorem interrupt_message : Err.msg .interrupt = "execution interrupted" := rfl

/-- A run started with an already cancelled context returns the interrupt without doing anything. -/
theorem program_after_cancel (fuel : Nat) (p : Stmt) (s : St) (hc : s.cancelled = true) (hd : s.defers = []) :
    (runProgram (fuel + 1) p s).err = some .interrupt ∧ (runProgram (fuel + 1) p s).trace = s.trace := by
  unfold runProgram
  rw [stmt_after_cancel fuel p s hc]
  simp [interrupted, St.poll, hd]

/-! ### No construct swallows the interruption (whole evaluator, every program, every cancellation point)

`St.seen r` says that some context poll of the run so far has returned "cancelled" (the poll
counter has passed `cancelAt`).  The theorems below hold for EVERY program, fuel, cancellation
point and start state - the cancellation may land at any poll of the run, inside any nesting of
calls, loops, `try`, `??` and deferred calls.  `errS` = the error register holds the interrupt or
a real error (never "no error", never break / continue / return, which a loop or a function
would consume); `errW` = anything the host sees as a failure.  Proved for all 28 functions of the
evaluator at once (Proofs/EvalIntr.lean, `intr_all`). -/

/-- A statement never ends "successfully" (or with a control signal) once a poll has observed the
cancellation: whatever the statement and the state it starts in. -/
theorem stmt_never_swallows (fuel : Nat) (st : Stmt) (s : St)
    (hseen : (execStmt fuel st s).seen = true) (hfrag : (execStmt fuel st s).unsup = none) :
    errS (execStmt fuel st s).err = true :=
  (intr_all fuel).execStmt st s hseen hfrag

/-- The same for an expression evaluated in a state where the cancellation had not been observed
yet (the way every statement evaluates its expressions): `??`, `?:`, `&&`, calls ... cannot turn
an observed cancellation into a value. -/
theorem expr_never_swallows (fuel : Nat) (e : Expr) (s : St) (h0 : s.seen = false)
    (hseen : (evalExpr fuel e s).seen = true) (hfrag : (evalExpr fuel e s).unsup = none) :
    errS (evalExpr fuel e s).err = true :=
  (intr_all fuel).evalExpr e s (by intro h; simp [h0] at h) hseen hfrag

/-- A script function whose invocation observed the cancellation (in its body, in a callee, in one of
its deferred calls) hands an error to its caller - it never returns a value. -/
theorem invocation_never_swallows (fuel : Nat) (f : Val) (args : List RV) (cs : Bool) (s : St) (h0 : s.seen = false)
    (hseen : (callFn fuel f args cs s).seen = true) (hfrag : (callFn fuel f args cs s).unsup = none) :
    errS (callFn fuel f args cs s).err = true :=
  (intr_all fuel).callFn f args cs s (by intro h; simp [h0] at h) hseen hfrag

/-- Deferred calls still run after an observed cancellation (with the error parked), and the parked
error is put back: the invocation still fails. -/
theorem deferred_calls_keep_the_failure (fuel : Nat) (ds : List Deferred) (rv : RV) (err : Option Err) (s : St)
    (hpark : s.seen = true → s.unsup = none → errW err = true)
    (hseen : (runDefers fuel ds rv err s).seen = true) (hfrag : (runDefers fuel ds rv err s).unsup = none) :
    errW (runDefers fuel ds rv err s).err = true :=
  (intr_all fuel).runDefers ds rv err s hpark hseen hfrag

/-- THE RUN: if any poll of a run observed the cancellation, `RunContext` returns an error to the
host - for every program, every fuel, every cancellation point, every start state.  (The error
is the interrupt, or - when the cancellation was first observed inside a deferred call of an
invocation whose body had already failed - that body's own error.) -/
theorem program_never_swallows (fuel : Nat) (p : Stmt) (s : St)
    (hseen : (runProgram fuel p s).seen = true) (hfrag : (runProgram fuel p s).unsup = none) :
    errW (runProgram fuel p s).err = true := by
  have h1 : Inv (execStmt fuel p s) := (intr_all fuel).execStmt p s
  have h2 : InvW (if (execStmt fuel p s).defers.isEmpty then execStmt fuel p s
      else runDefers fuel (execStmt fuel p s).defers.reverse (execStmt fuel p s).rv (execStmt fuel p s).err
        { execStmt fuel p s with defers := [] }) := by
    split
    · intro a b; exact errW_of_errS _ (h1 a b)
    · exact (intr_all fuel).runDefers _ _ _ _ (fun a b => errW_of_errS _ (h1 a b))
  unfold runProgram at hseen hfrag ⊢
  simp only [] at hseen hfrag ⊢
  split at hseen <;> split at hfrag <;> split <;> simp_all [InvW, St.seen, errW]

theorem later_runProgram (fuel : Nat) (p : Stmt) (s : St) : Later s (runProgram fuel p s) := by
  have h1 := (poll_all fuel).execStmt p s
  have h2 := (poll_all fuel).runDefers (execStmt fuel p s).defers.reverse (execStmt fuel p s).rv (execStmt fuel p s).err
    { execStmt fuel p s with defers := [] }
  have h3 : Later s (runDefers fuel (execStmt fuel p s).defers.reverse (execStmt fuel p s).rv (execStmt fuel p s).err
    { execStmt fuel p s with defers := [] }) := ⟨h2.1.trans h1.1, Nat.le_trans h1.2 h2.2⟩
  unfold runProgram
  simp only []
  by_cases hd : (execStmt fuel p s).defers.isEmpty = true
  · simp only [hd, if_true]; split <;> first | exact h1 | exact ⟨h1.1, h1.2⟩
  · simp only [hd]; split <;> first | exact h3 | exact ⟨h3.1, h3.2⟩

/-- ... and hence a run that ended without an error never observed the cancellation: every poll it
made came before the cancellation point (contrapositive, the form the harness checks per poll index). -/
theorem successful_run_polled_before_cancel (fuel : Nat) (p : Stmt) (s : St) (k : Nat)
    (hk : s.cancelAt = some k) (hfrag : (runProgram fuel p s).unsup = none)
    (hok : (runProgram fuel p s).err = none) : (runProgram fuel p s).polls ≤ k := by
  have h := program_never_swallows fuel p s
  by_cases hs : (runProgram fuel p s).seen = true
  · have := h hs hfrag; rw [hok] at this; simp [errW] at this
  · have hl := later_runProgram fuel p s
    unfold St.seen seenOf at hs
    rw [hl.1, hk] at hs
    simp at hs
    exact hs

/-! Non-vacuity: a closed program on which the cancellation lands in the middle (poll 2 of 4). -/
example : ∃ s : St, s.seen = false ∧ (s.poll.2.poll.2.poll.2).seen = true :=
  ⟨St.init (some 2), by decide, by decide⟩

/-! ### Blocking channel operations (facts regenerated from vm/*.go on every run) -/

/-- Go's select, as far as cancellation is concerned: a goroutine parked in a select is runnable
as soon as one of its cases is ready; a closed Done channel is always ready to receive. -/
def selectEnabled (watchesCtx cancelled chanReady : Bool) : Bool := (watchesCtx && cancelled) || chanReady

/-- A blocking operation that includes the ctx.Done() case wakes up once the context is
cancelled, whatever the state of the script's channel and whatever the other goroutines do... -/
theorem select_wakes_on_cancel (chanReady : Bool) : selectEnabled true true chanReady = true := by
  simp [selectEnabled]

/-- ... while one that does not may stay parked for ever. -/
theorem bare_op_may_stay_blocked : selectEnabled false true false = false := rfl

/-- Every place where the interpreter can block on a channel (send, receive expression, receive
statement, for-in over a channel) is a reflect.Select whose first case receives from
runInfo.ctx.Done(); there is no direct Value.Send / Value.Recv and no native channel operation
outside such a select; every loop form and the statement dispatcher poll the context. -/
theorem blocking_ops_watch_ctx :
    Gen.ChanOps.bareReflectOps = [] ∧ Gen.ChanOps.nativeBlockingOps = [] ∧
    Gen.ChanOps.selects.all (·.2) = true ∧ 4 ≤ Gen.ChanOps.selects.length ∧
    (∀ f ∈ ["runSingleStmt", "runLoopStmt", "runForSliceStmt", "runForMapStmt", "runCForStmt", "invokeNilCoalescingOpExpr"],
      f ∈ Gen.ChanOps.polls) := by decide

/-! ### Shared source ties

The code this property is anchored in is also written down, leaf statement by leaf statement, by the tables below (each decided once in
Props/Tie, `decide +kernel`, against the table regenerated from /repo on this run). A change of that code breaks the tie by name here too, and the check of
this property then searches for a failing input - so a change that breaks this property through code whose primary table belongs to another
property is not overlooked. -/
/-- the entry points, recoverFunc, newError, type and value construction -/
theorem source_tie_RunFlow : Gen.RunFlow.leaves = Tables.runFlow := Tie.runFlow
/-- the statement dispatcher, return, defer, deferred calls -/
theorem source_tie_SingleStmtFlow : Gen.SingleStmtFlow.leaves = Tables.singleStmtFlow := Tie.singleStmtFlow
/-- the channel forms -/
theorem source_tie_ChanFlow : Gen.ChanFlow.leaves = Tables.chanFlow := Tie.chanFlow
/-- the branch, loop, try and defer functions (vmStmt.go) -/
theorem source_tie_StmtFlow : Gen.StmtFlow.leaves = Tables.stmtFlow := Tie.stmtFlow
/-- the call machinery (vmExprFunction.go) -/
theorem source_tie_CallFlow : Gen.CallFlow.leaves = Tables.callFlow := Tie.callFlow
/-- function literals, module, var and assignment statements -/
theorem source_tie_BindFlow : Gen.BindFlow.leaves = Tables.bindFlow := Tie.bindFlow
/-- the conversion at the Go boundary (vmConvertToX.go) -/
theorem source_tie_ConvFlow : Gen.ConvFlow.leaves = Tables.convFlow := Tie.convFlow
/-- the builtins (core/*.go) -/
theorem source_tie_CoreFlow : Gen.CoreFlow.leaves = Tables.coreFlow := Tie.coreFlow


/-! ### Declaration inventory

Nothing was added to the packages this property is anchored in: their top-level declarations (functions, methods, variables, constants, types with
the fields of struct types), regenerated from /repo on this run, are the audited ones (Props/Tie/Inventory). A helper, a package-level table or a
file added there - code no flow table can pin - breaks the tie by name and makes this property's check search for a failing input. -/
/-- vm/ -/
theorem declarations_of_Vm_are_the_audited_ones : Tie.ofPkg "vm" Gen.Inventory.decls = Tie.ofPkg "vm" Tables.inventory := Tie.inventoryVm
/-- core/ -/
theorem declarations_of_Core_are_the_audited_ones : Tie.ofPkg "core" Gen.Inventory.decls = Tie.ofPkg "core" Tables.inventory := Tie.inventoryCore

end Anko.C02
