/-
C07 — Operands are evaluated exactly once, left to right; skipped operands never run.

Theorems over the interpreter model (Anko.Model.Eval): the defining equations of every strict
form (each operand expression is handed to `evalExpr` exactly once, in source order, and an
error ends the evaluation of the operands after it) and of every lazy form.  The probe trace
in `St.trace` is what the correspondence compares with the interpreter.
-/
import Anko.Model.Eval
import Anko.Proofs.EvalMono

set_option linter.unusedSectionVars false
set_option linter.unusedSimpArgs false

namespace Anko.C07
open Anko
variable [FOps] [Prov]

/-! ### operand lists: left to right, once each, cut at the first error -/

/-- `evalList` (array literals, return lists, multi-assignment right sides, fast-path
arguments): the head is evaluated first, in the incoming state; the tail afterwards, in the
state the head left. -/
theorem list_head_then_tail (n : Nat) (e : Expr) (es : List Expr) (s : St)
    (h : (evalExpr n e s).err = none) :
    evalList (n + 1) (e :: es) s =
      ((evalExpr n e s).rv :: (evalList n es (evalExpr n e s)).1, (evalList n es (evalExpr n e s)).2) := by
  simp [evalList, h]

/-- an error in one operand ends the list: the operands after it are never evaluated -/
theorem list_error_cuts (n : Nat) (e : Expr) (es : List Expr) (s : St)
    (h : (evalExpr n e s).err.isSome = true) :
    evalList (n + 1) (e :: es) s = ([], evalExpr n e s) := by
  simp [evalList, h]

theorem list_empty (n : Nat) (s : St) : evalList (n + 1) [] s = ([], s) := by simp [evalList]

/-- arguments of Go functions / reflect-path calls: same order, conversion of argument i
happens before argument i+1 is evaluated, a conversion error cuts the list -/
theorem args_head_then_tail_vm (n : Nat) (cal : Callee) (e : Expr) (es : List Expr) (i : Nat) (s : St)
    (hvm : cal.isVM = true) (h : (evalExpr n e s).err = none) :
    evalArgs (n + 1) cal (e :: es) i s =
      ((evalExpr n e s).rv :: (evalArgs n cal es (i + 1) (evalExpr n e s)).1,
       (evalArgs n cal es (i + 1) (evalExpr n e s)).2) := by
  simp [evalArgs, h, hvm]

theorem args_error_cuts (n : Nat) (cal : Callee) (e : Expr) (es : List Expr) (i : Nat) (s : St)
    (h : (evalExpr n e s).err.isSome = true) :
    evalArgs (n + 1) cal (e :: es) i s = ([], evalExpr n e s) := by
  simp [evalArgs, h]

theorem args_conversion_error_cuts (n : Nat) (cal : Callee) (e : Expr) (es : List Expr) (i : Nat) (s : St) (m : String)
    (hgo : cal.isVM = false) (h : (evalExpr n e s).err = none)
    (hc : convertTo (evalExpr n e s).rv (cal.paramTy i) = some (.error m)) :
    (evalArgs (n + 1) cal (e :: es) i s).2.trace = (evalExpr n e s).trace := by
  simp only [evalArgs, h, hgo, hc]
  repeat' split
  all_goals simp_all [St.markUnsup, St.fail]

/-! ### a call rejected for its argument count evaluates nothing -/

theorem arity_error_evaluates_nothing (n : Nat) (cal : Callee) (args : List Expr) (va : Bool) (s : St)
    (h0 : ¬ cal.numIn < 1) (h1 : ¬ (va = true ∧ args.length < 1))
    (hbad : arityBad cal.variadic va cal.numIn args.length = true) :
    (makeCallArgs (n + 1) cal args va s).2.trace = s.trace ∧
    (makeCallArgs (n + 1) cal args va s).2.scopes = s.scopes ∧
    (makeCallArgs (n + 1) cal args va s).2.polls = s.polls ∧
    (makeCallArgs (n + 1) cal args va s).2.err =
      some (.error ("function wants " ++ toString cal.numIn ++ " arguments but received " ++ toString args.length)) := by
  have h1' : ¬ (va = true ∧ args = []) := by
    intro ⟨ha, hb⟩; exact h1 ⟨ha, by simp [hb]⟩
  simp [makeCallArgs, h0, h1', hbad, St.fail]

/-- a function without parameters is called without evaluating any argument expression -/
theorem no_parameters_no_evaluation (n : Nat) (cal : Callee) (args : List Expr) (va : Bool) (s : St)
    (h0 : cal.numIn < 1) : makeCallArgs (n + 1) cal args va s = (([], false), s) := by
  simp [makeCallArgs, h0]

/-- direct-call fast path: the arguments are one `evalList`, then the call -/
theorem fast_path_evaluates_args_once (n : Nat) (f : Val) (args : List Expr) (s : St) (cal : Callee)
    (hc : calleeOf s f = some cal) (hvm : cal.isVM = true) (hv : cal.variadic = false)
    (hn : cal.numIn = args.length) (h4 : cal.numIn ≤ 4) (hok : (evalList n args s).2.err = none) :
    callValue (n + 1) f args false s = callFn n f (evalList n args s).1 false { (evalList n args s).2 with rv := nilRV } := by
  simp [callValue, hc, hvm, hv, hn, hok]
  intro h; omega

/-! ### binary operators, index, map literal -/

theorem binary_left_then_right (n : Nat) (o : String) (l r : Expr) (s : St)
    (ho : (o == "&&" || o == "||") = false)
    (hl : (evalExpr n l s).err = none) (hr : (evalExpr n r (evalExpr n l s)).err = none) :
    evalExpr (n + 1) (.op o l r) s =
      opRes (evalExpr n r (evalExpr n l s)) (binop o (evalExpr n l s).rv (evalExpr n r (evalExpr n l s)).rv) := by
  simp [evalExpr, ho, hl, hr]

theorem binary_left_error_skips_right (n : Nat) (o : String) (l r : Expr) (s : St)
    (hl : (evalExpr n l s).err.isSome = true) : evalExpr (n + 1) (.op o l r) s = evalExpr n l s := by
  simp only [evalExpr, hl]
  split <;> simp

/-- `x in l`: the item, then the WHOLE list operand - with a list literal every element, in order
(`list_head_then_tail`), whether or not an earlier element already equals the item; the membership test
runs on the finished list. -/
theorem in_item_then_whole_list (n : Nat) (it l : Expr) (s : St)
    (hi : (evalExpr n it s).err = none) (hl : (evalExpr n l (evalExpr n it s)).err = none) :
    evalExpr (n + 1) (.incl it l) s =
      opRes (evalExpr n l (evalExpr n it s)) (inOp (evalExpr n it s).rv (evalExpr n l (evalExpr n it s)).rv) := by
  simp [evalExpr, hi, hl]

theorem in_item_error_skips_list (n : Nat) (it l : Expr) (s : St)
    (hi : (evalExpr n it s).err.isSome = true) : evalExpr (n + 1) (.incl it l) s = evalExpr n it s := by
  simp [evalExpr, hi]

/-- `x[i]`: the container, then the index operand - ALWAYS, also when the container turns out not to be
indexable: the kind of the container is inspected only after both operands were evaluated (so the side effects
of the index operand happen, and the error comes after them): the probe trace of the whole expression is the
trace after both operands, whatever the container is. -/
theorem index_evaluates_index_operand_before_kind_check (n : Nat) (x i : Expr) (s : St)
    (hx : (evalExpr n x s).err.isSome = false) :
    (evalExpr (n + 1) (.item x i) s).trace = (evalExpr n i (evalExpr n x s)).trace := by
  simp only [evalExpr, hx, Bool.false_eq_true, if_false]
  split
  · rfl
  · repeat' split
    all_goals first | rfl | simp [St.fail, St.markUnsup]

theorem index_operand_then_index (n : Nat) (x i : Expr) (s : St)
    (hx : (evalExpr n x s).err.isSome = true) : evalExpr (n + 1) (.item x i) s = evalExpr n x s := by
  simp [evalExpr, hx]

theorem map_literal_key_then_value (n : Nat) (k v : Expr) (ks vs : List Expr) (acc : List (Val × Val)) (s : St)
    (hk : (evalExpr n k s).err = none) (hh : isHashableV (evalExpr n k s).rv.v = true)
    (hv : (evalExpr n v (evalExpr n k s)).err = none) :
    evalMapLit (n + 1) (k :: ks) (v :: vs) acc s =
      evalMapLit n ks vs (mapInsert (evalExpr n k s).rv.v (evalExpr n v (evalExpr n k s)).rv.v acc)
        (evalExpr n v (evalExpr n k s)) := by
  simp [evalMapLit, hk, hh, hv]

/-! ### lazy forms evaluate only what their result depends on -/

theorem and_short_circuit (n : Nat) (l r : Expr) (s : St)
    (hl : (evalExpr n l s).err = none) (hf : toBoolRV (evalExpr n l s).rv = some false) :
    evalExpr (n + 1) (.op "&&" l r) s = { evalExpr n l s with rv := ⟨false, .bool false⟩ } := by
  simp [evalExpr, hl, hf]

theorem or_short_circuit (n : Nat) (l r : Expr) (s : St)
    (hl : (evalExpr n l s).err = none) (ht : toBoolRV (evalExpr n l s).rv = some true) :
    evalExpr (n + 1) (.op "||" l r) s = { evalExpr n l s with rv := ⟨false, .bool true⟩ } := by
  simp [evalExpr, hl, ht]

theorem ternary_true_only_then (n : Nat) (c t f : Expr) (s : St)
    (hc : (evalExpr n c s).err = none) (ht : toBoolRV (evalExpr n c s).rv = some true) :
    evalExpr (n + 1) (.ternary c t f) s = evalExpr n t (evalExpr n c s) := by
  simp [evalExpr, hc, ht]

theorem ternary_false_only_else (n : Nat) (c t f : Expr) (s : St)
    (hc : (evalExpr n c s).err = none) (ht : toBoolRV (evalExpr n c s).rv = some false) :
    evalExpr (n + 1) (.ternary c t f) s = evalExpr n f (evalExpr n c s) := by
  simp [evalExpr, hc, ht]

/-- `l ?? r`: the right side runs only when the left is nil or failed -/
theorem nilco_left_non_nil_skips_right (n : Nat) (l r : Expr) (s : St)
    (hl : (evalExpr n l s).err = none) (hn : isNilRV (evalExpr n l s).rv = false) :
    evalExpr (n + 1) (.nilco l r) s = evalExpr n l s := by
  simp [evalExpr, hl, hn]

theorem nilco_left_nil_runs_right (n : Nat) (l r : Expr) (s : St)
    (hl : (evalExpr n l s).err = none) (hn : isNilRV (evalExpr n l s).rv = true) :
    evalExpr (n + 1) (.nilco l r) s = evalExpr n r (evalExpr n l s) := by
  simp [evalExpr, hl, hn]

/-! ### observable effects are never undone or repeated behind the program's back -/

/-- The probe trace (the calls of host functions the script has made, with their arguments) only
ever grows by appending: for every expression, statement and whole program, at every fuel, what
was observed before is still there, in the same order, afterwards. -/
theorem trace_is_append_only_expr (fuel : Nat) (e : Expr) (s : St) : s.trace.toList <+: (evalExpr fuel e s).trace.toList :=
  ((mono_all fuel).evalExpr e s).2.2

theorem trace_is_append_only_stmt (fuel : Nat) (st : Stmt) (s : St) : s.trace.toList <+: (execStmt fuel st s).trace.toList :=
  ((mono_all fuel).execStmt st s).2.2

theorem trace_is_append_only_program (fuel : Nat) (p : Stmt) (s : St) : s.trace.toList <+: (runProgram fuel p s).trace.toList :=
  (mono_runProgram fuel p s).2.2

end Anko.C07
