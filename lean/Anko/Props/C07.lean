/-
C07 — Operands are evaluated exactly once, left to right; skipped operands never run.

Theorems over the interpreter model (Anko.Model.Eval): the defining equations of every strict
form (each operand expression is handed to `evalExpr` exactly once, in source order, and an
error ends the evaluation of the operands after it) and of every lazy form.  The probe trace
in `St.trace` is what the correspondence compares with the interpreter.
-/
import Anko.Model.Eval
import Anko.Proofs.EvalMono
import Anko.Proofs.EvalProbe
import Anko.Gen.Operators
import Anko.Gen.CallFlow
import Anko.Props.CallFlowTable
import Anko.Gen.ExprFlow
import Anko.Props.ExprFlowTable
import Anko.Props.Tie.ExprFlow
import Anko.Props.Tie.CallFlow
import Anko.Props.Tie.ContFlow
import Anko.Props.Tie.SingleStmtFlow
import Anko.Props.Tie.BindFlow
import Anko.Props.Tie.Inventory

set_option linter.unusedSectionVars false
set_option linter.unusedSimpArgs false

namespace Anko.C07
open Anko
variable [FOps] [Prov]

/-! ### operand lists: left to right, once each, cut at the first error -/

/-- `evalList` (array literals, return lists, multi-assignment right sides, fast-path
arguments): the head is evaluated first, in the incoming state; the tail afterwards, in the
state the head left. -/
theorem list_head_then_tail (n : Nat) (e : Expr) (es : List Expr) (s : St)
    (h : (evalExpr n e s).err = none) :
    evalList (n + 1) (e :: es) s =
      ((evalExpr n e s).rv :: (evalList n es (evalExpr n e s)).1, (evalList n es (evalExpr n e s)).2) := by
  simp [evalList, h]

/-- an error in one operand ends the list: the operands after it are never evaluated -/
theorem list_error_cuts (n : Nat) (e : Expr) (es : List Expr) (s : St)
    (h : (evalExpr n e s).err.isSome = true) :
    evalList (n + 1) (e :: es) s = ([], evalExpr n e s) := by
  simp [evalList, h]

theorem list_empty (n : Nat) (s : St) : evalList (n + 1) [] s = ([], s) := by simp [evalList]

/-- arguments of Go functions / reflect-path calls: same order, conversion of argument i
happens before argument i+1 is evaluated, a conversion error cuts the list -/
theorem args_head_then_tail_vm (n : Nat) (cal : Callee) (e : Expr) (es : List Expr) (i : Nat) (s : St)
    (hvm : cal.isVM = true) (h : (evalExpr n e s).err = none) :
    evalArgs (n + 1) cal (e :: es) i s =
      ((evalExpr n e s).rv :: (evalArgs n cal es (i + 1) (evalExpr n e s)).1,
       (evalArgs n cal es (i + 1) (evalExpr n e s)).2) := by
  simp [evalArgs, h, hvm]

theorem args_error_cuts (n : Nat) (cal : Callee) (e : Expr) (es : List Expr) (i : Nat) (s : St)
    (h : (evalExpr n e s).err.isSome = true) :
    evalArgs (n + 1) cal (e :: es) i s = ([], evalExpr n e s) := by
  simp [evalArgs, h]

theorem args_conversion_error_cuts (n : Nat) (cal : Callee) (e : Expr) (es : List Expr) (i : Nat) (s : St) (m : String)
    (hgo : cal.isVM = false) (h : (evalExpr n e s).err = none)
    (hc : convertTo (evalExpr n e s).rv (cal.paramTy i) = some (.error m)) :
    (evalArgs (n + 1) cal (e :: es) i s).2.trace = (evalExpr n e s).trace := by
  simp only [evalArgs, h, hgo, hc]
  repeat' split
  all_goals simp_all [St.markUnsup, St.fail]

/-! ### a call rejected for its argument count evaluates nothing -/

theorem arity_error_evaluates_nothing (n : Nat) (cal : Callee) (args : List Expr) (va : Bool) (s : St)
    (h0 : ¬ cal.numIn < 1) (h1 : ¬ (va = true ∧ args.length < 1))
    (hbad : arityBad cal.variadic va cal.numIn args.length = true) :
    (makeCallArgs (n + 1) cal args va s).2.trace = s.trace ∧
    (makeCallArgs (n + 1) cal args va s).2.scopes = s.scopes ∧
    (makeCallArgs (n + 1) cal args va s).2.polls = s.polls ∧
    (makeCallArgs (n + 1) cal args va s).2.err =
      some (.error ("function wants " ++ toString cal.numIn ++ " arguments but received " ++ toString args.length)) := by
  have h1' : ¬ (va = true ∧ args = []) := by
    intro ⟨ha, hb⟩; exact h1 ⟨ha, by simp [hb]⟩
  simp [makeCallArgs, h0, h1', hbad, St.fail]

/-- a function without parameters is called without evaluating any argument expression -/
theorem no_parameters_no_evaluation (n : Nat) (cal : Callee) (args : List Expr) (va : Bool) (s : St)
    (h0 : cal.numIn < 1) : makeCallArgs (n + 1) cal args va s = (([], false), s) := by
  simp [makeCallArgs, h0]

/-- direct-call fast path: the arguments are one `evalList`, then the call -/
theorem fast_path_evaluates_args_once (n : Nat) (f : Val) (args : List Expr) (s : St) (cal : Callee)
    (hc : calleeOf s f = some cal) (hvm : cal.isVM = true) (hv : cal.variadic = false)
    (hn : cal.numIn = args.length) (h4 : cal.numIn ≤ 4) (hok : (evalList n args s).2.err = none) :
    callValue (n + 1) f args false s = callFn n f (evalList n args s).1 false { (evalList n args s).2 with rv := nilRV } := by
  simp [callValue, hc, hvm, hv, hn, hok]
  intro h; omega

/-! ### binary operators, index, map literal -/

theorem binary_left_then_right (n : Nat) (o : String) (l r : Expr) (s : St)
    (ho : (o == "&&" || o == "||") = false)
    (hl : (evalExpr n l s).err = none) (hr : (evalExpr n r (evalExpr n l s)).err = none) :
    evalExpr (n + 1) (.op o l r) s =
      opRes (evalExpr n r (evalExpr n l s)) (binop o (evalExpr n l s).rv (evalExpr n r (evalExpr n l s)).rv) := by
  simp [evalExpr, ho, hl, hr]

theorem binary_left_error_skips_right (n : Nat) (o : String) (l r : Expr) (s : St)
    (hl : (evalExpr n l s).err.isSome = true) : evalExpr (n + 1) (.op o l r) s = evalExpr n l s := by
  simp only [evalExpr, hl]
  split <;> simp

/-- `x in l`: the item, then the WHOLE list operand - with a list literal every element, in order
(`list_head_then_tail`), whether or not an earlier element already equals the item; the membership test
runs on the finished list. -/
theorem in_item_then_whole_list (n : Nat) (it l : Expr) (s : St)
    (hi : (evalExpr n it s).err = none) (hl : (evalExpr n l (evalExpr n it s)).err = none) :
    evalExpr (n + 1) (.incl it l) s =
      opRes (evalExpr n l (evalExpr n it s)) (inOp (evalExpr n it s).rv (evalExpr n l (evalExpr n it s)).rv) := by
  simp [evalExpr, hi, hl]

theorem in_item_error_skips_list (n : Nat) (it l : Expr) (s : St)
    (hi : (evalExpr n it s).err.isSome = true) : evalExpr (n + 1) (.incl it l) s = evalExpr n it s := by
  simp [evalExpr, hi]

/-- `x[i]`: the container, then the index operand - ALWAYS, also when the container turns out not to be
indexable: the kind of the container is inspected only after both operands were evaluated (so the side effects
of the index operand happen, and the error comes after them): the probe trace of the whole expression is the
trace after both operands, whatever the container is. -/
theorem index_evaluates_index_operand_before_kind_check (n : Nat) (x i : Expr) (s : St)
    (hx : (evalExpr n x s).err.isSome = false) :
    (evalExpr (n + 1) (.item x i) s).trace = (evalExpr n i (evalExpr n x s)).trace := by
  simp only [evalExpr, hx, Bool.false_eq_true, if_false]
  split
  · rfl
  · repeat' split
    all_goals first | rfl | simp [St.fail, St.markUnsup]

theorem index_operand_then_index (n : Nat) (x i : Expr) (s : St)
    (hx : (evalExpr n x s).err.isSome = true) : evalExpr (n + 1) (.item x i) s = evalExpr n x s := by
  simp [evalExpr, hx]

theorem map_literal_key_then_value (n : Nat) (k v : Expr) (ks vs : List Expr) (acc : List (Val × Val)) (s : St)
    (hk : (evalExpr n k s).err = none) (hh : isHashableV (evalExpr n k s).rv.v = true)
    (hv : (evalExpr n v (evalExpr n k s)).err = none) :
    evalMapLit (n + 1) (k :: ks) (v :: vs) acc s =
      evalMapLit n ks vs (mapInsert (evalExpr n k s).rv.v (evalExpr n v (evalExpr n k s)).rv.v acc)
        (evalExpr n v (evalExpr n k s)) := by
  simp [evalMapLit, hk, hh, hv]

/-! ### lazy forms evaluate only what their result depends on -/

theorem and_short_circuit (n : Nat) (l r : Expr) (s : St)
    (hl : (evalExpr n l s).err = none) (hf : toBoolRV (evalExpr n l s).rv = some false) :
    evalExpr (n + 1) (.op "&&" l r) s = { evalExpr n l s with rv := ⟨false, .bool false⟩ } := by
  simp [evalExpr, hl, hf]

theorem or_short_circuit (n : Nat) (l r : Expr) (s : St)
    (hl : (evalExpr n l s).err = none) (ht : toBoolRV (evalExpr n l s).rv = some true) :
    evalExpr (n + 1) (.op "||" l r) s = { evalExpr n l s with rv := ⟨false, .bool true⟩ } := by
  simp [evalExpr, hl, ht]

theorem ternary_true_only_then (n : Nat) (c t f : Expr) (s : St)
    (hc : (evalExpr n c s).err = none) (ht : toBoolRV (evalExpr n c s).rv = some true) :
    evalExpr (n + 1) (.ternary c t f) s = evalExpr n t (evalExpr n c s) := by
  simp [evalExpr, hc, ht]

theorem ternary_false_only_else (n : Nat) (c t f : Expr) (s : St)
    (hc : (evalExpr n c s).err = none) (ht : toBoolRV (evalExpr n c s).rv = some false) :
    evalExpr (n + 1) (.ternary c t f) s = evalExpr n f (evalExpr n c s) := by
  simp [evalExpr, hc, ht]

/-- `l ?? r`: the right side runs only when the left is nil or failed -/
theorem nilco_left_non_nil_skips_right (n : Nat) (l r : Expr) (s : St)
    (hl : (evalExpr n l s).err = none) (hn : isNilRV (evalExpr n l s).rv = false) :
    evalExpr (n + 1) (.nilco l r) s = evalExpr n l s := by
  simp [evalExpr, hl, hn]

theorem nilco_left_nil_runs_right (n : Nat) (l r : Expr) (s : St)
    (hl : (evalExpr n l s).err = none) (hn : isNilRV (evalExpr n l s).rv = true) :
    evalExpr (n + 1) (.nilco l r) s = evalExpr n r (evalExpr n l s) := by
  simp [evalExpr, hl, hn]


/-! ### whole expressions: every leaf once, in source order, at any depth

`PE` (Proofs/EvalProbe.lean) are expression trees of any depth whose leaves are `probe(i)` calls, built with the strict
forms `a + b`, `a - b`, `-a`, `[a, b][1]` and the lazy form `c ? t : f`.  `PE.leaves` is the list of leaves the language
selects, in source order; `Ready s` says `probe` is bound to the recording stub and no error is pending. -/

/-- THE ORDER THEOREM: evaluating a probe tree of any depth (with the fuel `PE.need` or more) appends exactly the selected
leaves, in source order, to the probe trace - each once -, yields the arithmetic value and no error. -/
theorem probe_tree_trace (e : PE) (fuel : Nat) (s : St) (hf : e.need ≤ fuel) (hs : Ready s) :
    (evalExpr fuel e.tr s).trace = s.trace ++ (e.leaves.map Val.int).toArray ∧
    (evalExpr fuel e.tr s).rv.v = .int e.val ∧ (evalExpr fuel e.tr s).err = none :=
  let h := probe_tree_eval e fuel s hf hs
  ⟨h.1, h.2.1, h.2.2.1⟩

/-- ... and touches nothing else: scopes, current scope, deferred calls, closures, poll counter stay as they were -/
theorem probe_tree_frame (e : PE) (fuel : Nat) (s : St) (hf : e.need ≤ fuel) (hs : Ready s) :
    (evalExpr fuel e.tr s).scopes = s.scopes ∧ (evalExpr fuel e.tr s).cur = s.cur ∧ (evalExpr fuel e.tr s).defers = s.defers ∧
    (evalExpr fuel e.tr s).closures = s.closures ∧ (evalExpr fuel e.tr s).polls = s.polls :=
  let h := probe_tree_eval e fuel s hf hs
  ⟨h.2.2.2.1, h.2.2.2.2.1, h.2.2.2.2.2.2.2.2.1, h.2.2.2.2.2.2.2.2.2, h.2.2.2.2.2.2.1⟩

/-- the result does not depend on the fuel once it suffices -/
theorem probe_tree_fuel_irrelevant (e : PE) (f1 f2 : Nat) (s : St) (h1 : e.need ≤ f1) (h2 : e.need ≤ f2) (hs : Ready s) :
    (evalExpr f1 e.tr s).trace = (evalExpr f2 e.tr s).trace ∧ (evalExpr f1 e.tr s).rv.v = (evalExpr f2 e.tr s).rv.v := by
  have a := probe_tree_trace e f1 s h1 hs
  have b := probe_tree_trace e f2 s h2 hs
  exact ⟨a.1.trans b.1.symm, a.2.1.trans b.2.1.symm⟩

/-- all leaves of a tree, in source order -/
def allLeaves : PE → List I64
  | .leaf i => [i]
  | .add a b => allLeaves a ++ allLeaves b
  | .sub a b => allLeaves a ++ allLeaves b
  | .neg a => allLeaves a
  | .second a b => allLeaves a ++ allLeaves b
  | .cond c t f => allLeaves c ++ allLeaves t ++ allLeaves f

/-- a tree built from the strict forms only -/
def Strict : PE → Prop
  | .leaf _ => True
  | .add a b => Strict a ∧ Strict b
  | .sub a b => Strict a ∧ Strict b
  | .neg a => Strict a
  | .second a b => Strict a ∧ Strict b
  | .cond _ _ _ => False

/-- In a strict tree EVERY operand is evaluated: the trace is the list of all leaves - each exactly once, left to right. -/
theorem strict_tree_evaluates_every_leaf_once (e : PE) (h : Strict e) : e.leaves = allLeaves e := by
  induction e with
  | leaf i => rfl
  | add a b iha ihb => simp [PE.leaves, allLeaves, iha h.1, ihb h.2]
  | sub a b iha ihb => simp [PE.leaves, allLeaves, iha h.1, ihb h.2]
  | neg a iha => simp [PE.leaves, allLeaves, iha h]
  | second a b iha ihb => simp [PE.leaves, allLeaves, iha h.1, ihb h.2]
  | cond c t f => exact h.elim

/-- The operands `?:` skips never run: the trace of `c ? t : f` is the trace of `c` followed by the trace of the chosen
branch only. -/
theorem ternary_runs_only_the_chosen_branch (c t f : PE) :
    (PE.cond c t f).leaves = c.leaves ++ (if c.val != 0 then t.leaves else f.leaves) := rfl

/-- the number of probe calls an evaluation makes is the number of selected leaves (never more: nothing runs twice) -/
theorem probe_count (e : PE) (fuel : Nat) (s : St) (hf : e.need ≤ fuel) (hs : Ready s) :
    (evalExpr fuel e.tr s).trace.size = s.trace.size + e.leaves.length := by
  rw [(probe_tree_trace e fuel s hf hs).1]; simp

/-! Non-vacuity: a ready state exists, and a concrete tree -/
def readyState : St := (St.init none).define 0 "probe" ⟨false, .gofn "probe"⟩
example : Ready readyState := ⟨by simp [readyState, St.getValue, St.define, St.init, St.lookupFrom, St.assocSet, List.lookup], rfl⟩
example : (PE.cond (.sub (.leaf 2) (.leaf 2)) (.leaf 7) (.add (.leaf 8) (.neg (.leaf 9)))).leaves = [2, 2, 8, 9] := by decide
example : Strict (.second (.add (.leaf 1) (.leaf 2)) (.neg (.leaf 3))) := ⟨⟨trivial, trivial⟩, trivial⟩

/-! ### observable effects are never undone or repeated behind the program's back -/

/-- The probe trace (the calls of host functions the script has made, with their arguments) only
ever grows by appending: for every expression, statement and whole program, at every fuel, what
was observed before is still there, in the same order, afterwards. -/
theorem trace_is_append_only_expr (fuel : Nat) (e : Expr) (s : St) : s.trace.toList <+: (evalExpr fuel e s).trace.toList :=
  ((mono_all fuel).evalExpr e s).2.2

theorem trace_is_append_only_stmt (fuel : Nat) (st : Stmt) (s : St) : s.trace.toList <+: (execStmt fuel st s).trace.toList :=
  ((mono_all fuel).execStmt st s).2.2

theorem trace_is_append_only_program (fuel : Nat) (p : Stmt) (s : St) : s.trace.toList <+: (runProgram fuel p s).trace.toList :=
  (mono_runProgram fuel p s).2.2

/-! ### The operand preamble of the binary operators in the source (regenerated: Gen/Operators)

Before its switch every one of the three operator functions of vm/vmOperator.go does the same thing, and nothing else: evaluate the
LEFT operand (one `invokeExpr`), stop on an error, open the interface, keep an unaliased copy; evaluate the RIGHT operand (one
`invokeExpr`), stop on an error, open the interface. That is the order and the "exactly once" the model's `evalBinary` mirrors; an
operand evaluated again in an arm would show as an `invokeExpr` in the arms (`no_arm_evaluates_an_operand_again`). -/

def operandPreamble : List String := [
  "runInfo.expr = operator.LHS", "runInfo.invokeExpr()", "E != nil => return", "R.Kind() == Interface && !R.IsNil() => R = R.Elem()",
  "L := unalias(R)",
  "runInfo.expr = operator.RHS", "runInfo.invokeExpr()", "E != nil => return", "R.Kind() == Interface && !R.IsNil() => R = R.Elem()"]

def preambleOf (fn : String) : List String :=
  (Gen.Operators.arms.filter (fun a => a.1 == fn && a.2.1 == "(before)")).map (fun a => a.2.2)

theorem operators_evaluate_left_then_right_once :
    preambleOf "invokeAddOperator" = operandPreamble ∧ preambleOf "invokeMultiplyOperator" = operandPreamble ∧
    preambleOf "invokeComparisonOperator" = operandPreamble ++ ["var result bool"] := by decide +kernel

def hasPrefix : List Char → List Char → Bool
  | _, [] => true
  | [], _ :: _ => false
  | c :: cs, d :: ds => c == d && hasPrefix cs ds

def hasInfix : List Char → List Char → Bool
  | [], sub => sub.isEmpty
  | c :: cs, sub => hasPrefix (c :: cs) sub || hasInfix cs sub

def mentions (s sub : String) : Bool := hasInfix s.toList sub.toList

theorem no_arm_evaluates_an_operand_again :
    (Gen.Operators.arms.filter (fun a => a.2.1 != "(before)")).all
      (fun a => !mentions a.2.2 "invokeExpr" && !mentions a.2.2 "runInfo.expr" && !mentions a.2.2 "operator.LHS" && !mentions a.2.2 "operator.RHS") = true := by
  decide +kernel

example : mentions "runInfo.invokeExpr()" "invokeExpr" = true ∧ mentions "R = nilValue" "invokeExpr" = false := by decide +kernel

/-! ### The call machinery in the source (regenerated: Gen/CallFlow)

Every leaf statement of anonCallExpr, callExpr, callVMFunctionDirect, goRun, makeCallArgs and processCallReturnValues, with the
conditions it stands under, is the one written down in Props/CallFlowTable next to the model's call evaluation: where each argument
expression is evaluated (once, in source order), where the count is checked (before any argument), where a conversion can end the
call, which path a callee takes. A new fast path, an argument evaluated in another place or a second time, a check moved behind an
evaluation makes the tables differ. -/
theorem calls_evaluate_their_arguments_as_modelled : Gen.CallFlow.leaves = Tables.callFlow := Tie.callFlow

/-! ### The expression dispatcher and the forms with several operands in the source (regenerated: Gen/ExprFlow)

Every leaf statement of invokeExpr (identifiers, literals, parentheses, function literals, the hand-over to the operator, call, index ... functions) and of the
list literal, map literal, `?:`, `??`, assignment-expression and `in` functions, with the conditions it stands under, is the one written down in
Props/ExprFlowTable next to the model's evalExpr: which operand is evaluated where, once, and which is skipped. An operand evaluated again, a reordered
pair, a condition tested on another value shows as a difference. Any edit of these functions - also a harmless one - breaks this obligation by name; the check then
searches model and implementation for a failing input (DESIGN.md 13.3). -/
theorem expressions_evaluate_their_operands_as_modelled : Gen.ExprFlow.leaves = Tables.exprFlow := Tie.exprFlow

/-! ### Shared source ties

The code this property is anchored in is also written down, leaf statement by leaf statement, by the tables below (each decided once in
Props/Tie, `decide +kernel`, against the table regenerated from /repo on this run). A change of that code breaks the tie by name here too, and the check of
this property then searches for a failing input - so a change that breaks this property through code whose primary table belongs to another
property is not overlooked. -/
/-- the container paths (index, slice, len, member, make, assignment targets, delete) -/
theorem source_tie_ContFlow : Gen.ContFlow.leaves = Tables.contFlow := Tie.contFlow
/-- the statement dispatcher, return, defer, deferred calls -/
theorem source_tie_SingleStmtFlow : Gen.SingleStmtFlow.leaves = Tables.singleStmtFlow := Tie.singleStmtFlow
/-- function literals, module, var and assignment statements -/
theorem source_tie_BindFlow : Gen.BindFlow.leaves = Tables.bindFlow := Tie.bindFlow


/-! ### Declaration inventory

Nothing was added to the packages this property is anchored in: their top-level declarations (functions, methods, variables, constants, types with
the fields of struct types), regenerated from /repo on this run, are the audited ones (Props/Tie/Inventory). A helper, a package-level table or a
file added there - code no flow table can pin - breaks the tie by name and makes this property's check search for a failing input. -/
/-- vm/ -/
theorem declarations_of_Vm_are_the_audited_ones : Tie.ofPkg "vm" Gen.Inventory.decls = Tie.ofPkg "vm" Tables.inventory := Tie.inventoryVm
/-- ast/ -/
theorem declarations_of_Ast_are_the_audited_ones : Tie.ofPkg "ast" Gen.Inventory.decls = Tie.ofPkg "ast" Tables.inventory := Tie.inventoryAst

end Anko.C07
