/-
C03 — The parser builds the tree the source spells out.

* The precedence table is REGENERATED from parser/parser.go.y (Anko.Gen.Prec); `table_is_stated`
  re-decides on every run that it is the table of the property statement.
* Over that table (indeed over ANY table with one associativity per level, prefix operators above
  the binary ones and postfix forms above those) the precedence-climbing parser reads the
  minimally parenthesised spelling of every expression tree - binary operators, prefix operators,
  `c ? a : b`, calls, index, slice and member forms, nested to any depth - back to that tree, and
  the fully parenthesised spelling to the same tree (Anko.Proofs.Pratt); the parser is a function,
  so that tree is the only reading (Anko.Proofs.PrattDet), and different trees have different
  spellings.  The generated LALR parser itself is compared with the same printer by the
  correspondence / metamorphic stream `parse`.
* Literals: decimal integer numerals denote exactly their value or are rejected outside int64.
-/
import Anko.Proofs.Pratt
import Anko.Proofs.PrattDet
import Anko.Proofs.ScanString
import Anko.Proofs.ScanNumber
import Anko.Proofs.Literal
import Anko.Gen.ParserGen
import Anko.Gen.Prec
import Anko.Model.PrecTable
import Anko.Model.Num
import Anko.Gen.Grammar
import Anko.Props.GrammarTable
import Anko.Props.Tie.Grammar
import Anko.Props.Tie.LexFlow
import Anko.Props.Tie.Inventory

namespace Anko.C03
open Anko Anko.Pratt Anko.PrecTable

/-! ### the regenerated table is the stated one -/

/-- loosest to tightest: `?:` and `??` (right-associative), `||`, `&&`, comparisons, `+ - |`,
`* / % << >> &`, `in`, then the unary operators; binary operators left-associative. -/
theorem table_is_stated :
    levelOf "?" = levelOf "??" ∧ rightAt (levelOf "??") = true ∧
    levelOf "??" < levelOf "||" ∧ levelOf "||" < levelOf "&&" ∧ levelOf "&&" < levelOf "==" ∧
    (["==", "!=", "<", "<=", ">", ">="].all (fun o => levelOf o == levelOf "==")) = true ∧
    levelOf "==" < levelOf "+" ∧ (["+", "-", "|"].all (fun o => levelOf o == levelOf "+")) = true ∧
    levelOf "+" < levelOf "*" ∧ (["*", "/", "%", "<<", ">>", "&"].all (fun o => levelOf o == levelOf "*")) = true ∧
    levelOf "*" < levelOf "in" ∧ levelOf "in" < levelOf "UNARY" ∧
    (["||", "&&", "==", "+", "*"].all (fun o => rightAt (levelOf o) == false)) = true := by
  decide

def operatorKinds : List String := ["MultiplyOperator", "AddOperator", "ComparisonOperator", "BinaryOperator"]

/-- every binary operator production stores its left operand in LHS and its right operand in RHS
and the operator it was spelled with -/
theorem binary_productions_faithful :
    (Gen.binaryProductions.filter (fun p => operatorKinds.contains p.2.1)).all
      (fun p => p.1 == p.2.2.1 && p.2.2.2.1 == "LHS" && p.2.2.2.2 == "RHS") = true ∧
    (Gen.binaryProductions.filter (fun p => operatorKinds.contains p.2.1)).length = 17 := by
  decide

theorem unary_productions_faithful :
    Gen.unaryProductions = [("-", "UnaryExpr", "-"), ("!", "UnaryExpr", "!"), ("^", "UnaryExpr", "^"),
      ("&", "AddrExpr", ""), ("*", "DerefExpr", "")] := by
  decide

/-! ### round trip over the regenerated table -/

/-- prefix operators are the tightest declared level and are all reduced with it (`%prec UNARY`) -/
theorem unary_level_is_tightest : levelOf "UNARY" + 1 = Gen.precLevels.length := unary_is_last

/-- For every expression tree (binary and prefix operators, conditional, call / index / slice /
member forms, any nesting depth): the spelling with only the parentheses the table requires parses
back to exactly that tree ... -/
theorem parse_printMin (t : Tree) : PExpr genTbl 0 (pr genTbl 0 t) (t, []) := roundtrip genTbl t

/-- ... and so does the spelling with every implied parenthesis made explicit. -/
theorem parse_printFull (t : Tree) : PExpr genTbl 0 (prFull t) (t, []) := roundtrip_full genTbl t

/-- A token list has at most one reading: the parser is a function of its input. -/
theorem parse_deterministic {m : Nat} {ts : List Tok} {R R' : Tree × List Tok}
    (h : PExpr genTbl m ts R) (h' : PExpr genTbl m ts R') : R = R' := PExpr.det genTbl h h'

/-- Hence the intended tree is the ONLY reading of its spelling (minimal or full) ... -/
theorem parse_printMin_unique (t : Tree) (R : Tree × List Tok) (h : PExpr genTbl 0 (pr genTbl 0 t) R) : R = (t, []) :=
  PExpr.det genTbl h (parse_printMin t)

theorem parse_printFull_unique (t : Tree) (R : Tree × List Tok) (h : PExpr genTbl 0 (prFull t) R) : R = (t, []) :=
  PExpr.det genTbl h (parse_printFull t)

/-- ... and two different trees never share a spelling: the parentheses the printer leaves out
are exactly the redundant ones. -/
theorem printMin_injective (t t' : Tree) (h : pr genTbl 0 t = pr genTbl 0 t') : t = t' := by
  have h1 := parse_printMin t
  rw [h] at h1
  have := PExpr.det genTbl h1 (parse_printMin t')
  exact (Prod.mk.inj this).1

/-- the full spelling and the minimal spelling of a tree have the same reading -/
theorem printFull_reads_as_printMin (t : Tree) (R : Tree × List Tok) :
    PExpr genTbl 0 (prFull t) R ↔ PExpr genTbl 0 (pr genTbl 0 t) R := by
  constructor
  · intro h; rw [parse_printFull_unique t R h]; exact parse_printMin t
  · intro h; rw [parse_printMin_unique t R h]; exact parse_printFull t

/-! ### integer literals -/

/-- the ASCII digit for d < 10 -/
def digitChar (d : Nat) : UInt8 := UInt8.ofNat (48 + d)

theorem digitChar_val (d : Nat) (h : d < 10) : (digitChar d).toNat - 48 = d := by
  have : (48 + d) % 256 = 48 + d := Nat.mod_eq_of_lt (by omega)
  unfold digitChar
  rw [UInt8.toNat_ofNat']
  omega

theorem isDigit_digitChar (d : Nat) (h : d < 10) : isDigit (digitChar d) = true := by
  have : (48 + d) % 256 = 48 + d := Nat.mod_eq_of_lt (by omega)
  unfold isDigit digitChar
  simp only [Bool.and_eq_true, decide_eq_true_eq, UInt8.le_iff_toNat_le, UInt8.toNat_ofNat']
  constructor
  · show 48 ≤ (48 + d) % 256; omega
  · show (48 + d) % 256 ≤ 57; omega

theorem digitChar_not_sign (d : Nat) (h : d < 10) : digitChar d ≠ 45 ∧ digitChar d ≠ 43 := by
  have hd := isDigit_digitChar d h
  constructor <;> intro he <;> rw [he] at hd <;> simp [isDigit] at hd

/-- decimal spelling of a natural number, most significant digit first -/
def decDigits (n : Nat) : List UInt8 :=
  if h : n < 10 then [digitChar n] else decDigits (n / 10) ++ [digitChar (n % 10)]
termination_by n
decreasing_by omega

theorem digitsVal_append (a b : List UInt8) (acc : Nat) : digitsVal (a ++ b) acc = digitsVal b (digitsVal a acc) := by
  induction a generalizing acc with
  | nil => rfl
  | cons x xs ih => simp [digitsVal, ih]

theorem digitsVal_decDigits (n : Nat) : ∀ acc, digitsVal (decDigits n) acc = acc * 10 ^ (decDigits n).length + n := by
  induction n using Nat.strongRecOn with
  | _ n ih =>
    intro acc
    rw [decDigits]
    split
    · next h => simp only [digitsVal, digitChar_val n h, List.length_singleton, Nat.pow_one]
    · next h =>
      have hlt : n / 10 < n := by omega
      rw [digitsVal_append, ih (n / 10) hlt]
      simp only [digitsVal, List.length_append, List.length_singleton, digitChar_val (n % 10) (Nat.mod_lt _ (by omega))]
      rw [Nat.pow_succ]
      have := Nat.div_add_mod n 10
      generalize 10 ^ (decDigits (n / 10)).length = p
      rw [Nat.add_mul, Nat.mul_assoc]
      omega

theorem decDigits_all_digits (n : Nat) : (decDigits n).all isDigit = true := by
  induction n using Nat.strongRecOn with
  | _ n ih =>
    rw [decDigits]
    split
    · next h => simp only [List.all_cons, List.all_nil, isDigit_digitChar n h, Bool.and_self]
    · next h =>
      have hlt : n / 10 < n := by omega
      simp only [List.all_append, ih (n / 10) hlt, List.all_cons, List.all_nil,
        isDigit_digitChar (n % 10) (Nat.mod_lt _ (by omega)), Bool.and_self]

theorem decDigits_ne_nil (n : Nat) : decDigits n ≠ [] := by
  rw [decDigits]; split <;> simp

theorem splitSign_digits (n : Nat) : splitSign (decDigits n) = (false, decDigits n) := by
  have hd := decDigits_all_digits n
  cases hl : decDigits n with
  | nil => rfl
  | cons c cs =>
    have hc : isDigit c = true := by
      rw [hl] at hd; simp only [List.all_cons, Bool.and_eq_true] at hd; exact hd.1
    have hc45 : c ≠ 45 := by intro h45; subst h45; simp [isDigit] at hc
    have hc43 : c ≠ 43 := by intro h43; subst h43; simp [isDigit] at hc
    unfold splitSign
    split
    · next r heq => injection heq with h1 _; exact absurd h1 hc45
    · next r heq => injection heq with h1 _; exact absurd h1 hc43
    · rfl

/-- a decimal numeral of a number below 2^63 denotes exactly that number ... -/
theorem decimal_literal_exact (n : Nat) (h : n < 2 ^ 63) :
    parseDec (decDigits n) = some (BitVec.ofNat 64 n) := by
  have hv := digitsVal_decDigits n 0
  simp only [Nat.zero_mul, Nat.zero_add] at hv
  have hne : (decDigits n).isEmpty = false := by
    cases hl : decDigits n with
    | nil => exact absurd hl (decDigits_ne_nil n)
    | cons => rfl
  unfold parseDec
  simp [splitSign_digits, decDigits_all_digits, hne, hv, h]

/-- ... and one at or above 2^63 is rejected (not representable in int64). -/
theorem decimal_literal_overflow_rejected (n : Nat) (h : 2 ^ 63 ≤ n) : parseDec (decDigits n) = none := by
  have hv := digitsVal_decDigits n 0
  simp only [Nat.zero_mul, Nat.zero_add] at hv
  have : ¬ n < 2 ^ 63 := by omega
  unfold parseDec
  simp [splitSign_digits, hv, this]

/-! ### literals with a base prefix -/

/-- `0x…` / `0b…`: the spelling of n in base 16 / 2 (any length) denotes n when n < 2^63 and is rejected otherwise -/
theorem hex_literal_exact (n : Nat) :
    toNumberInt (48 :: 120 :: baseDigits 16 (by omega) n) = if n < 2 ^ 63 then some (BitVec.ofNat 64 n) else none := by
  have hne : (baseDigits 16 (by omega) n).isEmpty = false := by
    cases hl : baseDigits 16 (by omega) n with
    | nil => exact absurd hl (baseDigits_ne_nil 16 (by omega) n)
    | cons => rfl
  rw [toNumberInt_hex _ hne]
  exact parseIntBase_digits 16 (by omega) goodBase_16 n

theorem binary_literal_exact (n : Nat) :
    toNumberInt (48 :: 98 :: baseDigits 2 (by omega) n) = if n < 2 ^ 63 then some (BitVec.ofNat 64 n) else none := by
  have hne : (baseDigits 2 (by omega) n).isEmpty = false := by
    cases hl : baseDigits 2 (by omega) n with
    | nil => exact absurd hl (baseDigits_ne_nil 2 (by omega) n)
    | cons => rfl
  rw [toNumberInt_bin _ hne]
  exact parseIntBase_digits 2 (by omega) goodBase_2 n

/-- `-0x…` / `-0b…`: minus n, down to and including -2^63 (whose magnitude does not fit int64) -/
theorem negative_hex_literal_exact (n : Nat) :
    toNumberInt (45 :: 48 :: 120 :: baseDigits 16 (by omega) n) = if n ≤ 2 ^ 63 then some (BitVec.ofInt 64 (-(n : Int))) else none := by
  have hne : (baseDigits 16 (by omega) n).isEmpty = false := by
    cases hl : baseDigits 16 (by omega) n with
    | nil => exact absurd hl (baseDigits_ne_nil 16 (by omega) n)
    | cons => rfl
  rw [toNumberInt_neghex _ hne]
  exact parseIntBase_neg_digits 16 (by omega) goodBase_16 n

theorem negative_binary_literal_exact (n : Nat) :
    toNumberInt (45 :: 48 :: 98 :: baseDigits 2 (by omega) n) = if n ≤ 2 ^ 63 then some (BitVec.ofInt 64 (-(n : Int))) else none := by
  have hne : (baseDigits 2 (by omega) n).isEmpty = false := by
    cases hl : baseDigits 2 (by omega) n with
    | nil => exact absurd hl (baseDigits_ne_nil 2 (by omega) n)
    | cons => rfl
  rw [toNumberInt_negbin _ hne]
  exact parseIntBase_neg_digits 2 (by omega) goodBase_2 n

example : toNumberInt ("-0x8000000000000000".toUTF8.toList) = some (BitVec.ofInt 64 (-(2 ^ 63 : Int))) := by decide +kernel
example : baseDigits 16 (by omega) 255 = [102, 102] := by simp [baseDigits, digitCharB]

/-! ### string literals -/

/-- A quoted literal denotes the text it spells: for ANY character sequence, scanning an opening
quote, the sequence with `"` `\` newline tab CR BS FF written as backslash escapes, and a closing
quote yields the string token with exactly that sequence, positioned at the opening quote, and
leaves the cursor right behind the closing quote (function-by-function model of lexer.go's
scanString; the model is compared with the real scanner token by token on every run). -/
theorem string_literal_denotes_its_text (cs post : List Char) (s : Scan.S) (n : Nat)
    (h : s.rest = '"' :: (Scan.escape cs ++ '"' :: post)) :
    ∃ s', Scan.scan (n + 1) s = .ok (⟨.str (String.ofList cs), s.pos⟩, s') ∧ s'.rest = post ∧ s'.src = s.src :=
  Scan.scan_string_literal cs post s n h

/-- Where a numeric literal ends depends on its base only: after `0x` / `0X` the scanner takes exactly the
run of hexadecimal digits - the digits `e` and `E` included, which are no exponent markers here - and stops at
the first other character (an operator written directly against the literal, say), leaving it for the next token. -/
theorem hex_literal_ends_at_first_non_hex_digit (s : Scan.S) (x : Char) (ds tl : List Char)
    (hr : s.rest = '0' :: x :: (ds ++ tl)) (hx : x = 'x' ∨ x = 'X')
    (hds : ∀ d ∈ ds, Scan.isHex d = true)
    (htl : ∀ c, tl.head? = some c → Scan.isHex c = false ∧ Scan.isLetter c = false) :
    ∃ s', Scan.scanNumber s = .ok (String.ofList ('0' :: 'x' :: ds), s') ∧ s'.rest = tl :=
  Scan.scan_hex_literal s x ds tl hr hx hds htl

theorem binary_literal_ends_at_first_non_binary_digit (s : Scan.S) (x : Char) (ds tl : List Char)
    (hr : s.rest = '0' :: x :: (ds ++ tl)) (hx : x = 'b' ∨ x = 'B')
    (hds : ∀ d ∈ ds, Scan.isBinary d = true)
    (htl : ∀ c, tl.head? = some c → Scan.isBinary c = false ∧ Scan.isLetter c = false) :
    ∃ s', Scan.scanNumber s = .ok (String.ofList ('0' :: 'b' :: ds), s') ∧ s'.rest = tl :=
  Scan.scan_bin_literal s x ds tl hr hx hds htl

/-- a run of decimal digits not followed by `.`, an exponent marker, a digit or a letter is one integer literal -/
theorem decimal_digit_run_is_one_literal (s : Scan.S) (d0 : Char) (ds tl : List Char)
    (hr : s.rest = d0 :: (ds ++ tl)) (hd0 : Scan.isDigit d0 = true)
    (hpre : d0 = '0' → ds.head? ≠ some 'x' ∧ ds.head? ≠ some 'X' ∧ ds.head? ≠ some 'b' ∧ ds.head? ≠ some 'B')
    (hds : ∀ d ∈ ds, Scan.isDigit d = true)
    (htl : ∀ c, tl.head? = some c → Scan.isDigit c = false ∧ c ≠ '.' ∧ c ≠ 'e' ∧ c ≠ 'E' ∧ Scan.isLetter c = false) :
    ∃ s', Scan.scanNumber s = .ok (String.ofList (d0 :: ds), s') ∧ s'.rest = tl :=
  Scan.scan_decimal_literal s d0 ds tl hr hd0 hpre hds htl

/-- `0xe-1` is `0xe`, `-`, `1` (hypotheses satisfiable; whole scanner, by evaluation) -/
example : (Scan.lex "a = 0xe-1").1.map (·.tok) = [.ident "a", .ch '=', .number "0xe", .ch '-', .number "1", .eof] := by decide +kernel
example : (Scan.lex "0x1e+2e1").1.map (·.tok) = [.number "0x1e", .ch '+', .number "2e1", .eof] := by decide +kernel

example : Scan.escape ['a', '"', '\\', '\n', 'b'] = ['a', '\\', '"', '\\', '\\', '\\', 'n', 'b'] := by decide
example : (Scan.lex "x = \"a\\\"b\\n\"").1.map (·.tok) = [.ident "x", .ch '=', .str "a\"b\n", .eof] := by decide +kernel

/-! ### Non-vacuity -/
example : pr genTbl 0 (.bin "*" (.bin "+" (.atom 1) (.atom 2)) (.atom 3)) =
    [.lp, .atom 1, .op "+", .atom 2, .rp, .op "*", .atom 3] := by decide
example : pr genTbl 0 (.bin "-" (.atom 1) (.bin "-" (.atom 2) (.atom 3))) =
    [.atom 1, .op "-", .lp, .atom 2, .op "-", .atom 3, .rp] := by decide
example : pr genTbl 0 (.bin "??" (.atom 1) (.bin "??" (.atom 2) (.atom 3))) =
    [.atom 1, .op "??", .atom 2, .op "??", .atom 3] := by decide
example : pr genTbl 0 (.bin "*" (.un "-" (.bin "+" (.atom 1) (.atom 2))) (.un "!" (.atom 3))) =
    [.op "-", .lp, .atom 1, .op "+", .atom 2, .rp, .op "*", .op "!", .atom 3] := by decide
example : pr genTbl 0 (.member (.un "-" (.atom 1))) = [.lp, .op "-", .atom 1, .rp, .dot] := by decide
example : pr genTbl 0 (.un "-" (.member (.atom 1))) = [.op "-", .atom 1, .dot] := by decide
example : pr genTbl 0 (.tern (.tern (.atom 1) (.atom 2) (.atom 3)) (.tern (.atom 4) (.atom 5) (.atom 6)) (.tern (.atom 7) (.atom 8) (.atom 9))) =
    [.lp, .atom 1, .q, .atom 2, .colon, .atom 3, .rp, .q, .atom 4, .q, .atom 5, .colon, .atom 6, .colon, .atom 7, .q, .atom 8, .colon, .atom 9] := by decide
example : pr genTbl 0 (.bin "??" (.atom 1) (.tern (.atom 2) (.atom 3) (.bin "||" (.atom 4) (.atom 5)))) =
    [.atom 1, .op "??", .atom 2, .q, .atom 3, .colon, .atom 4, .op "||", .atom 5] := by decide
example : pr genTbl 0 (.call (.index (.bin "+" (.atom 1) (.atom 2)) (.atom 3)) (.slice (.atom 4) (.atom 5) (.atom 6))) =
    [.lp, .atom 1, .op "+", .atom 2, .rp, .lb, .atom 3, .rb, .lp, .atom 4, .lb, .atom 5, .colon, .atom 6, .rb, .rp] := by decide
example : decDigits 4095 = [52, 48, 57, 53] := by simp [decDigits, digitChar]

/-- The parser that is compiled IS the one generated from the grammar file: re-running goyacc on
parser/parser.go.y reproduces the committed parser/parser.go byte for byte (regenerated on every
run), so facts read off the grammar are facts about the running parser. -/
theorem committed_parser_is_generated_from_grammar : Gen.ParserGen.committedParserIsGenerated = true := by decide

/-! ### The productions and semantic actions of the grammar (regenerated: Gen/Grammar)

Every production of parser/parser.go.y with its semantic action (which node is built, which of $1 ... $n goes into which field, which position is set) and
the %type / %token declarations are the ones written down in Props/GrammarTable - the grammar the reference reading (PrecTable, Pratt) and the
metamorphic stream were audited against. With `committed_parser_is_generated_from_grammar` (Gen/ParserGen) the compiled parser is pinned too. Any edit of these functions - also a harmless one - breaks this obligation by name; the check then
searches model and implementation for a failing input (DESIGN.md 13.3). -/
theorem grammar_actions_are_the_audited_ones : Gen.Grammar.leaves = Tables.grammar := Tie.grammar

/-! ### Shared source ties

The code this property is anchored in is also written down, leaf statement by leaf statement, by the tables below (each decided once in
Props/Tie, `decide +kernel`, against the table regenerated from /repo on this run). A change of that code breaks the tie by name here too, and the check of
this property then searches for a failing input - so a change that breaks this property through code whose primary table belongs to another
property is not overlooked. -/
/-- the scanner and the parser's entry points (lexer.go) -/
theorem source_tie_LexFlow : Gen.LexFlow.leaves = Tables.lexFlow := Tie.lexFlow


/-! ### Declaration inventory

Nothing was added to the packages this property is anchored in: their top-level declarations (functions, methods, variables, constants, types with
the fields of struct types), regenerated from /repo on this run, are the audited ones (Props/Tie/Inventory). A helper, a package-level table or a
file added there - code no flow table can pin - breaks the tie by name and makes this property's check search for a failing input. -/
/-- parser/ (lexer.go; parser.go is goyacc's output of the pinned grammar) -/
theorem declarations_of_Parser_are_the_audited_ones : Tie.ofPkg "parser" Gen.Inventory.decls = Tie.ofPkg "parser" Tables.inventory := Tie.inventoryParser
/-- ast/ -/
theorem declarations_of_Ast_are_the_audited_ones : Tie.ofPkg "ast" Gen.Inventory.decls = Tie.ofPkg "ast" Tables.inventory := Tie.inventoryAst

end Anko.C03
