/-
C10 — Slices, maps, strings and struct fields behave like their Go models.

Theorems over the heap model lean/Anko/Model/Cont.lean (slice headers over shared backing arrays,
maps by reference, immutable strings; bounds / kind / hashability rules mirrored from
vm/vmExpr.go, vm/vmLetExpr.go, vm/vm.go, vm/vmOperator.go, vm/vmStmt.go).  Typed containers and
struct fields are covered by the conversion model (Props/C11 `convert_has_target_type`) and the
typed part of the `cont` stream.
-/
import Anko.Model.Cont
import Anko.Proofs.Cont
import Anko.Gen.ContFlow
import Anko.Props.ContFlowTable
import Anko.Props.Tie.ContFlow
import Anko.Props.Tie.ProvFlow
import Anko.Props.Tie.ConvFlow
import Anko.Props.Tie.Inventory

namespace Anko.C10
open Anko.Cont

theorem lk_ne {α β} [BEq α] {k a : α} {b : β} {es : List (α × β)} (h : (k == a) = false) :
    List.lookup k ((a, b) :: es) = List.lookup k es := by rw [List.lookup_cons, h]
theorem lk_eq {α β} [BEq α] {k a : α} {b : β} {es : List (α × β)} (h : (k == a) = true) :
    List.lookup k ((a, b) :: es) = some b := by rw [List.lookup_cons, h]

/-! ### reads -/

/-- An in-range index reads exactly the addressed element ... -/
theorem index_in_range (h : Heap) (s : Slice) (i : Nat) (hi : i < s.len) :
    h.index (.slice s) (.int i) = .ok (h.elem s i) := by
  have h1 : ¬ ((i : Int) < 0 ∨ (i : Int) ≥ s.len) := by omega
  simp only [Heap.index, tryToInt, if_neg h1, Int.toNat_natCast]

/-- ... any other integer index is an error ... -/
theorem index_out_of_range (h : Heap) (s : Slice) (i : Int) (hi : i < 0 ∨ i ≥ s.len) :
    h.index (.slice s) (.int i) = .err "index out of range" := by
  simp [Heap.index, tryToInt, hi]

/-- ... and so is an operand that is not a number (nil, containers, non-numeric strings). -/
theorem index_not_a_number (h : Heap) (s : Slice) (idx : V) (hn : tryToInt idx = none) :
    h.index (.slice s) idx = .err "index must be a number" := by
  simp [Heap.index, hn]

theorem string_index_in_range (h : Heap) (cs : List Char) (i : Nat) (hi : i < cs.length) :
    h.index (.str cs) (.int i) = .ok (.str [cs.getD i ' ']) := by
  have h1 : ¬ ((i : Int) < 0 ∨ (i : Int) ≥ cs.length) := by omega
  simp only [Heap.index, tryToInt, if_neg h1, Int.toNat_natCast]

/-- A missing map key reads as nil, and so does an unhashable key. -/
theorem map_missing_key_is_nil (h : Heap) (id : Nat) (kvs : List (V × V)) (k : V)
    (hm : h.maps[id]? = some kvs) (hk : kvs.lookup k = none) : h.index (.map id) k = .ok .nil := by
  simp only [Heap.index]
  cases hh : isHashable k <;> simp [hm, hk]

theorem map_unhashable_key_reads_nil (h : Heap) (id : Nat) (k : V) (hk : isHashable k = false) :
    h.index (.map id) k = .ok .nil := by
  simp [Heap.index, hk]

/-- Values that are not containers do not support indexing. -/
theorem index_of_scalar_is_error (h : Heap) (i : Int) (idx : V) :
    ∃ m, h.index (.int i) idx = .err m := ⟨_, rfl⟩

/-! ### slicing shares storage -/

/-- A sub-slice is a window onto the same backing array: element `i` of `a[b:e]` IS element
`b + i` of `a` ... -/
theorem slice_shares_reads (h : Heap) (s : Slice) (b e : Nat) (i : Nat) :
    h.elem ⟨s.arr, s.off + b, e - b, s.cap - b⟩ i = h.elem s (b + i) := by
  simp [Heap.elem, Nat.add_assoc]

/-- ... and a store through the sub-slice is the store through the source at `b + i`. -/
theorem slice_shares_writes (h : Heap) (s : Slice) (b e : Nat) (i : Nat) (v : V) :
    h.writeElem ⟨s.arr, s.off + b, e - b, s.cap - b⟩ i v = h.writeElem s (b + i) v := by
  simp [Heap.writeElem, Nat.add_assoc]

/-- the result of a successful slice expression over a slice is exactly that window -/
theorem slice_result (s : Slice) (b e : Nat) (hb : b ≤ e) (he : e ≤ s.len) :
    Heap.sliceOf (.slice s) (some (.int b)) (some (.int e)) none = .ok (.slice ⟨s.arr, s.off + b, e - b, s.cap - b⟩) := by
  simp only [Heap.sliceOf, sliceBounds, tryToInt]
  have h1 : ¬ ((b : Int) < 0) := by omega
  have h2 : ¬ ((e : Int) > s.len) := by omega
  have h3 : ¬ ((b : Int) > e) := by omega
  simp [h1, h2, h3]

/-- slicing bounds follow Go's rule 0 <= begin <= end <= len, checked before anything is built -/
theorem slice_bounds_checked (len cap : Nat) (b e : Int) (hbad : b < 0 ∨ e > len ∨ b > e) :
    ∃ m, sliceBounds len cap false (some (.int b)) (some (.int e)) none = .err m := by
  simp only [sliceBounds, tryToInt]
  by_cases h1 : b < 0
  · exact ⟨"index out of range", by simp [h1]⟩
  · by_cases h2 : e > len
    · exact ⟨"index out of range", by simp [h1, h2]⟩
    · have h3 : b > e := by omega
      exact ⟨"index out of range", by simp [h1, h2, h3]⟩

/-! ### stores -/

/-- Read after write: an in-range store is read back from the same slot ... -/
theorem write_then_read (h : Heap) (s : Slice) (i : Nat) (v : V) (a : Array V)
    (ha : h.arrays[s.arr]? = some a) (hb : s.off + i < a.size) :
    (h.writeElem s i v).elem s i = v := by
  have hlt : s.arr < h.arrays.size := by
    rcases Nat.lt_or_ge s.arr h.arrays.size with hl | hl
    · exact hl
    · rw [Array.getElem?_eq_none hl] at ha; cases ha
  simp only [Heap.writeElem, ha, Heap.elem, Array.set!_eq_setIfInBounds]
  rw [Array.getElem?_setIfInBounds_self_of_lt hlt]
  simp only [Array.getElem?_setIfInBounds_self_of_lt hb, Option.getD_some]

/-- ... and changes no other slot of that array and no other array. -/
theorem write_frame (h : Heap) (s t : Slice) (i j : Nat) (v : V)
    (hne : t.arr ≠ s.arr ∨ t.off + j ≠ s.off + i) :
    (h.writeElem s i v).elem t j = h.elem t j := by
  unfold Heap.writeElem
  cases ha : h.arrays[s.arr]? with
  | none => rfl
  | some a =>
    have hlt : s.arr < h.arrays.size := by
      rcases Nat.lt_or_ge s.arr h.arrays.size with hl | hl
      · exact hl
      · rw [Array.getElem?_eq_none hl] at ha; cases ha
    simp only [Heap.elem, Array.set!_eq_setIfInBounds]
    by_cases hta : t.arr = s.arr
    · have hoff : t.off + j ≠ s.off + i := by
        rcases hne with h1 | h1
        · exact absurd hta h1
        · exact h1
      rw [hta, Array.getElem?_setIfInBounds_self_of_lt hlt, ha]
      simp only [Array.getElem?_setIfInBounds_ne (Ne.symm hoff)]
    · rw [Array.getElem?_setIfInBounds_ne (Ne.symm hta)]

/-- Assignment copies the header, not the storage: after `y = x` both names denote the same slice
of the same backing array (so a store through one is visible through the other). -/
theorem assignment_aliases (h : Heap) (x y : String) (v : V) (hx : h.getVar x = some v) :
    ((h.step (.copy y (.var x))).1.getVar y = some v) ∧ (h.step (.copy y (.var x))).1.arrays = h.arrays ∧
    (h.step (.copy y (.var x))).1.maps = h.maps := by
  have key : ∀ (l : List (String × V)), (setAssoc y v l).lookup y = some v := by
    intro l
    induction l with
    | nil => exact lk_eq (by simp)
    | cons p rest ih =>
      obtain ⟨k, w⟩ := p
      simp only [setAssoc]
      split
      · exact lk_eq (by simp)
      · next hne =>
        have : (y == k) = false := by
          rw [Bool.eq_false_iff]; intro hh; exact hne (by rw [beq_iff_eq] at hh ⊢; exact hh.symm)
        rw [lk_ne this]; exact ih
  simp only [Heap.step, Heap.arg, hx]
  exact ⟨key _, rfl, rfl⟩

/-! ### errors change nothing -/

/-- An operation that fails - index out of range, operand that is not a number, unhashable key,
value of the wrong kind, bad slice bounds - leaves every variable, every backing array and every
map exactly as it was. -/
theorem error_leaves_heap_unchanged (h : Heap) (op : Op) (m : String) (he : (h.step op).2 = .err m) :
    (h.step op).1 = h := by
  cases op with
  | list x as => simp only [Heap.step] at he ⊢; split <;> simp_all
  | mapLit x kvs =>
    simp only [Heap.step] at he ⊢
    cases hp : h.argPairs kvs with
    | none => rfl
    | some es =>
      simp only [hp] at he ⊢
      split
      · next hall => rw [if_pos hall] at he; cases he
      · rfl
  | copy y a => simp only [Heap.step] at he ⊢; split <;> simp_all
  | index a i => simp only [Heap.step]; split <;> rfl
  | slice y a b e c =>
    simp only [Heap.step] at he ⊢
    split
    · rfl
    · split
      · split
        · simp_all
        · rfl
      · rfl
  | setIndex x i v nc =>
    simp only [Heap.step] at he ⊢
    split
    · split
      · split
        · rfl
        · split
          · simp_all
          · split
            · rfl
            · simp_all
      · split
        · rfl
        · split
          · simp_all
          · rfl
      · split
        · rfl
        · split
          · split
            · simp_all
            · split
              · rfl
              · simp_all
          · rfl
      · rfl
    · rfl
  | append y a v nc =>
    simp only [Heap.step] at he ⊢
    split <;> simp_all
  | len a => simp only [Heap.step]; split <;> rfl
  | delete a k =>
    simp only [Heap.step] at he ⊢
    split
    · split
      · rfl
      · split
        · simp_all
        · rfl
    · rfl
    · rfl
  | load y a i => simp only [Heap.step]
  | swap x i j => simp only [Heap.step]

/-- the same for the two value-binding statements (`y = a[i]`, `a[i], a[j] = a[j], a[i]`) -/
theorem error_leaves_heap_unchanged2 (h : Heap) (op : Op) (m : String) (he : (h.step2 op).2 = .err m) :
    (h.step2 op).1 = h := by
  cases op with
  | load y a i =>
    simp only [Heap.step2] at he ⊢
    cases ha : h.arg a with
    | none => rfl
    | some item =>
      cases hi : h.arg i with
      | none => rfl
      | some idx =>
        simp only [ha, hi] at he ⊢
        cases hx : h.index item idx with
        | err m' => rfl
        | ok v => simp only [hx] at he; cases he
  | swap x i j =>
    simp only [Heap.step2] at he ⊢
    cases hx : h.getVar x with
    | none => rfl
    | some item =>
      cases hi : h.arg i with
      | none => cases item <;> rfl
      | some ii =>
        cases hj : h.arg j with
        | none => cases item <;> rfl
        | some jj =>
          cases item with
          | slice s =>
            simp only [hx, hi, hj] at he ⊢
            cases h1 : h.index (.slice s) jj with
            | err m' => rfl
            | ok vj =>
              cases h2 : h.index (.slice s) ii with
              | err m' => rfl
              | ok vi =>
                simp only [h1, h2] at he ⊢
                split
                · next hk1 hk2 => simp only [hk1, hk2] at he; cases he
                · rfl
          | nil => rfl
          | int _ => rfl
          | bool _ => rfl
          | str _ => rfl
          | map _ => rfl
  | list x as => exact error_leaves_heap_unchanged h _ m he
  | mapLit x kvs => exact error_leaves_heap_unchanged h _ m he
  | copy y a => exact error_leaves_heap_unchanged h _ m he
  | index a i => exact error_leaves_heap_unchanged h _ m he
  | slice y a b e c => exact error_leaves_heap_unchanged h _ m he
  | setIndex x i v nc => exact error_leaves_heap_unchanged h _ m he
  | append y a v nc => exact error_leaves_heap_unchanged h _ m he
  | len a => exact error_leaves_heap_unchanged h _ m he
  | delete a k => exact error_leaves_heap_unchanged h _ m he

/-- A value read from a slice and bound to a variable is a VALUE: later stores into the slice do
not change the variable (the binding holds what was read, not a view of the slot). -/
theorem bound_values_are_not_views (h : Heap) (y : String) (s : Slice) (k : Nat) (u : V) :
    (h.writeElem s k u).getVar y = h.getVar y := by
  unfold Heap.writeElem
  split <;> rfl

/-- ... and a successful `y = a[i]` binds exactly the element read. -/
theorem load_binds_element (h : Heap) (y : String) (x : String) (s : Slice) (i : Nat) (hx : h.getVar x = some (.slice s)) (hi : i < s.len) :
    (h.step2 (.load y (.var x) (.lit (.int i)))).2 = .ok (h.elem s i) := by
  simp only [Heap.step2, Heap.arg, hx, index_in_range h s i hi]

/-- ... hence along any history: the statements that failed can be dropped without changing the
final contents. -/
theorem failed_statements_are_noops (h : Heap) (op : Op) (ops : List Op) (m : String) (he : (h.step2 op).2 = .err m) :
    (h.run (op :: ops)).1 = (h.run ops).1 := by
  simp only [Heap.run]
  rw [error_leaves_heap_unchanged2 h op m he]

/-- An unhashable key is an error when written or deleted. -/
theorem map_write_unhashable (h : Heap) (x : String) (id : Nat) (k v : V) (nc : Nat)
    (hx : h.getVar x = some (.map id)) (hk : isHashable k = false) :
    ∃ m, (h.step (.setIndex x (.lit k) (.lit v) nc)).2 = .err m := by
  simp [Heap.step, hx, Heap.arg, hk]

theorem map_delete_unhashable (h : Heap) (id : Nat) (k : V) (hk : isHashable k = false) :
    ∃ m, (h.step (.delete (.lit (.map id)) (.lit k))).2 = .err m := by
  simp [Heap.step, Heap.arg, hk]

/-! ### maps as dictionaries -/

theorem lookup_setAssoc_same (k v : V) : ∀ (l : List (V × V)), (setAssoc k v l).lookup k = some v
  | [] => lk_eq (by simp)
  | (k', v') :: rest => by
    simp only [setAssoc]
    split
    · exact lk_eq (by simp)
    · next hne =>
      have : (k == k') = false := by
        rw [Bool.eq_false_iff]; intro hh; exact hne (by rw [beq_iff_eq] at hh ⊢; exact hh.symm)
      rw [lk_ne this]; exact lookup_setAssoc_same k v rest

theorem lookup_setAssoc_other (k v k2 : V) (hne : k2 ≠ k) : ∀ (l : List (V × V)), (setAssoc k v l).lookup k2 = l.lookup k2
  | [] => by
    have : (k2 == k) = false := by simpa using hne
    simp only [setAssoc]; rw [lk_ne this]
  | (k', v') :: rest => by
    simp only [setAssoc]
    split
    · next heq =>
      have hk : k' = k := by simpa using heq
      have : (k2 == k) = false := by simpa using hne
      rw [lk_ne this, hk, lk_ne this]
    · cases hh : (k2 == k') with
      | true => rw [lk_eq hh, lk_eq hh]
      | false => rw [lk_ne hh, lk_ne hh]; exact lookup_setAssoc_other k v k2 hne rest

/-- a map store is read back, and touches no other key -/
theorem map_write_then_read (h : Heap) (x : String) (id : Nat) (kvs : List (V × V)) (k v : V) (nc : Nat)
    (hx : h.getVar x = some (.map id)) (hm : h.maps[id]? = some kvs) (hk : isHashable k = true) :
    (h.step (.setIndex x (.lit k) (.lit v) nc)).1.index (.map id) k = .ok v := by
  have hlt : id < h.maps.size := by
    rcases Nat.lt_or_ge id h.maps.size with hl | hl
    · exact hl
    · rw [Array.getElem?_eq_none hl] at hm; cases hm
  simp [Heap.step, hx, Heap.arg, hk, hm, Heap.index, Array.set!_eq_setIfInBounds, hlt, lookup_setAssoc_same]

theorem map_write_other_key (h : Heap) (x : String) (id : Nat) (kvs : List (V × V)) (k v k2 : V) (nc : Nat)
    (hx : h.getVar x = some (.map id)) (hm : h.maps[id]? = some kvs) (hk : isHashable k = true) (hne : k2 ≠ k) :
    (h.step (.setIndex x (.lit k) (.lit v) nc)).1.index (.map id) k2 = h.index (.map id) k2 := by
  have hlt : id < h.maps.size := by
    rcases Nat.lt_or_ge id h.maps.size with hl | hl
    · exact hl
    · rw [Array.getElem?_eq_none hl] at hm; cases hm
  simp [Heap.step, hx, Heap.arg, hk, hm, Heap.index, Array.set!_eq_setIfInBounds, hlt, lookup_setAssoc_other k v k2 hne]

/-! ### append -/

theorem elem_alloc (h : Heap) (vs : List V) (cap i : Nat) (hi : i < vs.length) :
    (h.alloc vs cap).1.elem (h.alloc vs cap).2 i = vs.getD i .nil := by
  simp [Heap.alloc, Heap.elem, List.getElem?_append_left hi, List.getD_eq_getElem?_getD]

/-- Appending beyond the capacity builds a fresh array holding the old elements followed by the
new ones, and leaves every existing array as it was (the source keeps its contents) ... -/
theorem append_grow (h : Heap) (s : Slice) (vs : List V) (nc : Nat) (hfull : ¬ s.len + vs.length ≤ s.cap) :
    (h.append s vs nc).2.arr = h.arrays.size ∧ (h.append s vs nc).2.len = s.len + vs.length ∧
    (∀ j, j < h.arrays.size → (h.append s vs nc).1.arrays[j]? = h.arrays[j]?) ∧
    (∀ i, i < s.len + vs.length → (h.append s vs nc).1.elem (h.append s vs nc).2 i = (h.elems s ++ vs).getD i .nil) := by
  have hl : (h.elems s).length = s.len := by simp [Heap.elems]
  refine ⟨by simp [Heap.append, hfull, Heap.alloc], by simp [Heap.append, hfull, Heap.alloc, hl], ?_, ?_⟩
  · intro j hj
    simp [Heap.append, hfull, Heap.alloc, Array.getElem?_push, Nat.ne_of_lt hj]
  · intro i hi
    simp only [Heap.append, hfull, if_false]
    exact elem_alloc h _ nc i (by simp [hl]; exact hi)

/-- ... while appending within the capacity keeps the backing array (so the new element is
visible through every other slice over it, as in Go) and only the length grows. -/
theorem append_in_place (h : Heap) (s : Slice) (v : V) (nc : Nat) (hroom : s.len + 1 ≤ s.cap) :
    (h.append s [v] nc).2 = { s with len := s.len + 1 } ∧ (h.append s [v] nc).1 = h.writeElem s s.len v := by
  simp [Heap.append, hroom, List.range, List.range.loop]

/-! ### the heap invariant, for every history -/

/-- After ANY history of container statements (literal operands being scalars, as a program writes
them) every slice header anywhere - in a variable, inside another slice, as a map key or value -
still points into an existing backing array with room for its whole capacity, and every map
reference is valid: no operation, failing or not, can leave a dangling or over-long view. -/
theorem heap_stays_well_formed (ops : List Op) (hs : ∀ op ∈ ops, op.scalarLits = true) : WF (Heap.empty.run ops).1 :=
  wf_run ops Heap.empty wf_empty hs

/-- ... so on reachable heaps read-after-write needs no side condition beyond the index being in range -/
theorem write_then_read_reachable (ops : List Op) (hs : ∀ op ∈ ops, op.scalarLits = true) (x : String) (s : Slice) (i : Nat) (v : V)
    (hx : (Heap.empty.run ops).1.getVar x = some (.slice s)) (hi : i < s.len) :
    ((Heap.empty.run ops).1.writeElem s i v).elem s i = v := by
  have w := heap_stays_well_formed ops hs
  obtain ⟨a, ha, h1, h2⟩ := (wf_getVar w hx : sliceOK _ s)
  exact write_then_read _ s i v a ha (by omega)

/-! ### Non-vacuity: a concrete history with aliasing, append-after-slice and failing statements -/
def demo : List Op :=
  [.list "a" [.lit (.int 1), .lit (.int 2), .lit (.int 3)],
   .slice "b" (.var "a") (some (.lit (.int 0))) (some (.lit (.int 1))) none,
   .append "c" (.var "b") (.lit (.int 9)) 0,            -- within capacity: overwrites a[1]
   .index (.var "a") (.lit (.int 1)),
   .index (.var "a") (.lit (.int 3)),                   -- out of range
   .setIndex "a" (.lit (.int 3)) (.lit (.int 7)) 6,     -- index = len: automatic append
   .index (.var "a") (.lit (.str ['x']))]               -- not a number

example : (Heap.empty.run demo).2 =
    [.ok (.slice ⟨0, 0, 3, 3⟩), .ok (.slice ⟨0, 0, 1, 3⟩), .ok (.slice ⟨0, 0, 2, 3⟩), .ok (.int 9),
     .err "index out of range", .ok (.int 7), .err "index must be a number"] := by decide

/-! ### len -/

/-- `len` of a string is the number of its elements in the model's string (bytes in the interpreter: the cont stream checks multi-byte texts against Go) -/
theorem len_of_string (h : Heap) (cs : List Char) : (h.step (.len (.lit (.str cs)))).2 = .ok (.int cs.length) := by
  simp [Heap.step, Heap.arg]

theorem len_of_slice (h : Heap) (s : Slice) : (h.step (.len (.lit (.slice s)))).2 = .ok (.int s.len) := by
  simp [Heap.step, Heap.arg]

/-- `len` of anything that is not a slice, a string or a map is an error - never a value, and the heap is left alone -/
theorem len_misuse_is_error (h : Heap) (v : V) (hs : ∀ s, v ≠ .slice s) (ht : ∀ cs, v ≠ .str cs) (hm : ∀ id, v ≠ .map id) :
    (h.step (.len (.lit v))) = (h, .err ("type " ++ kindName v ++ " does not support len operation")) := by
  cases v <;> simp_all [Heap.step, Heap.arg]

/-- `len` never changes the heap -/
theorem len_is_a_read (h : Heap) (a : Arg) : (h.step (.len a)).1 = h := by
  simp only [Heap.step]
  split <;> rfl


/-! ### A map is Go's map for every history of stores and deletions (refinement, with the invariant "every key once")

The model keeps a map as a list of entries; `assocErase` removes the first entry under a key. That this IS a deletion rests on an invariant - every key
occurs once - which the empty map has, a literal establishes (`literal_entries_distinct`) and every store and deletion keeps
(`entriesStep_keeps_distinct`). Under it, any history reads as the same history on a function from keys to optional values
(`map_history_is_dictionary`): a deleted key is gone, a stored key yields the last value stored, other keys are untouched. The invariant holds in EVERY heap a container history reaches
(`reachable_maps_keep_every_key_once`: induction on the history, every statement of `Heap.step` / `Heap.step2` - maps only change through `allocMap` of
such a fold, `setAssoc` and `assocErase`). -/

def keysOf (l : List (V × V)) : List V := l.map (·.1)

/-- the invariant of a map's entry list: every key once -/
def KeysDistinct (l : List (V × V)) : Prop := (keysOf l).Nodup

theorem lookup_none_of_not_mem (k : V) : ∀ (l : List (V × V)), k ∉ keysOf l → l.lookup k = none
  | [], _ => rfl
  | (k', v') :: rest, h => by
    have hne : k ≠ k' := fun e => h (by simp [keysOf, e])
    have hr : k ∉ keysOf rest := fun m => h (by simp [keysOf] at m ⊢; exact Or.inr m)
    have : (k == k') = false := by simpa using hne
    simp only [List.lookup, this]
    exact lookup_none_of_not_mem k rest hr

theorem keys_setAssoc_subset (k v : V) : ∀ (l : List (V × V)) (x : V), x ∈ keysOf (setAssoc k v l) → x = k ∨ x ∈ keysOf l
  | [], x, h => by simp [setAssoc, keysOf] at h; exact Or.inl h
  | (k', v') :: rest, x, h => by
    simp only [setAssoc] at h
    split at h
    · next heq =>
      have hk : k' = k := by simpa using heq
      simp [keysOf] at h ⊢
      rcases h with h | h
      · exact Or.inl h
      · exact Or.inr (Or.inr h)
    · simp [keysOf] at h ⊢
      rcases h with h | h
      · exact Or.inr (Or.inl h)
      · rcases keys_setAssoc_subset k v rest x (by simpa [keysOf] using h) with h2 | h2
        · exact Or.inl h2
        · exact Or.inr (Or.inr (by simpa [keysOf] using h2))

theorem setAssoc_keeps_distinct (k v : V) : ∀ (l : List (V × V)), KeysDistinct l → KeysDistinct (setAssoc k v l)
  | [], _ => by simp [KeysDistinct, keysOf, setAssoc]
  | (k', v') :: rest, h => by
    simp only [KeysDistinct, keysOf, List.map_cons, List.nodup_cons] at h
    simp only [setAssoc]
    split
    · next heq =>
      have hk : k' = k := by simpa using heq
      simp only [KeysDistinct, keysOf, List.map_cons, List.nodup_cons]
      exact ⟨hk ▸ h.1, h.2⟩
    · next hne =>
      have hk : k' ≠ k := by simpa using hne
      simp only [KeysDistinct, keysOf, List.map_cons, List.nodup_cons]
      refine ⟨?_, setAssoc_keeps_distinct k v rest h.2⟩
      intro hm
      rcases keys_setAssoc_subset k v rest k' hm with h1 | h1
      · exact hk h1
      · exact h.1 h1

theorem keys_assocErase_subset (k : V) : ∀ (l : List (V × V)) (x : V), x ∈ keysOf (assocErase k l) → x ∈ keysOf l
  | [], x, h => by simp [assocErase, keysOf] at h
  | (k', v') :: rest, x, h => by
    simp only [assocErase] at h
    split at h
    · simp [keysOf] at h ⊢; exact Or.inr h
    · simp [keysOf] at h ⊢
      rcases h with h | h
      · exact Or.inl h
      · exact Or.inr (by simpa [keysOf] using keys_assocErase_subset k rest x (by simpa [keysOf] using h))

theorem assocErase_keeps_distinct (k : V) : ∀ (l : List (V × V)), KeysDistinct l → KeysDistinct (assocErase k l)
  | [], _ => by simp [KeysDistinct, keysOf, assocErase]
  | (k', v') :: rest, h => by
    simp only [KeysDistinct, keysOf, List.map_cons, List.nodup_cons] at h
    simp only [assocErase]
    split
    · exact h.2
    · simp only [KeysDistinct, keysOf, List.map_cons, List.nodup_cons]
      exact ⟨fun hm => h.1 (keys_assocErase_subset k rest k' hm), assocErase_keeps_distinct k rest h.2⟩

/-- with every key once, a deleted key is gone -/
theorem assocErase_removes (k : V) : ∀ (l : List (V × V)), KeysDistinct l → k ∉ keysOf (assocErase k l)
  | [], _ => by simp [assocErase, keysOf]
  | (k', v') :: rest, h => by
    simp only [KeysDistinct, keysOf, List.map_cons, List.nodup_cons] at h
    simp only [assocErase]
    split
    · next heq =>
      have hk : k' = k := by simpa using heq
      exact hk ▸ h.1
    · next hne =>
      have hk : k' ≠ k := by simpa using hne
      intro hm
      simp [keysOf] at hm
      rcases hm with hm | hm
      · exact hk hm.symm
      · exact assocErase_removes k rest h.2 (by simpa [keysOf] using hm)

theorem lookup_assocErase_same (k : V) (l : List (V × V)) (h : KeysDistinct l) : (assocErase k l).lookup k = none :=
  lookup_none_of_not_mem k _ (assocErase_removes k l h)

theorem lookup_assocErase_other (k k2 : V) (hne : k2 ≠ k) : ∀ (l : List (V × V)), (assocErase k l).lookup k2 = l.lookup k2
  | [] => rfl
  | (k', v') :: rest => by
    simp only [assocErase]
    split
    · next heq =>
      have hk : k' = k := by simpa using heq
      have : (k2 == k') = false := by simpa [hk] using hne
      simp [List.lookup, this]
    · cases hh : (k2 == k') with
      | true => simp [List.lookup, hh]
      | false => simp only [List.lookup, hh]; exact lookup_assocErase_other k k2 hne rest


theorem lookup_setAssoc_same' (k v : V) : ∀ (l : List (V × V)), (setAssoc k v l).lookup k = some v
  | [] => by simp [setAssoc, List.lookup]
  | (k', v') :: rest => by
    simp only [setAssoc]
    split
    · simp [List.lookup]
    · next hne =>
      have hk : k' ≠ k := by simpa using hne
      have : (k == k') = false := by simpa using (Ne.symm hk)
      simp only [List.lookup, this]
      exact lookup_setAssoc_same' k v rest

theorem lookup_setAssoc_other' (k v k2 : V) (hne : k2 ≠ k) : ∀ (l : List (V × V)), (setAssoc k v l).lookup k2 = l.lookup k2
  | [] => by
    have : (k2 == k) = false := by simpa using hne
    simp [setAssoc, List.lookup, this]
  | (k', v') :: rest => by
    simp only [setAssoc]
    split
    · next heq =>
      have hk : k' = k := by simpa using heq
      have : (k2 == k) = false := by simpa using hne
      simp [List.lookup, this, hk]
    · cases hh : (k2 == k') with
      | true => simp [List.lookup, hh]
      | false => simp only [List.lookup, hh]; exact lookup_setAssoc_other' k v k2 hne rest

/-- one step of a history on one map: store under a key, delete a key -/
inductive MOp where
  | put (k v : V)
  | del (k : V)

def entriesStep (l : List (V × V)) : MOp → List (V × V)
  | .put k v => setAssoc k v l
  | .del k => assocErase k l

/-- the specification: Go's map as a function from keys to optional values -/
abbrev MDict := V → Option V

def MDict.step (d : MDict) : MOp → MDict
  | .put k v => fun x => if x = k then some v else d x
  | .del k => fun x => if x = k then none else d x

theorem entriesStep_keeps_distinct (l : List (V × V)) (op : MOp) (h : KeysDistinct l) : KeysDistinct (entriesStep l op) := by
  cases op with
  | put k v => exact setAssoc_keeps_distinct k v l h
  | del k => exact assocErase_keeps_distinct k l h

theorem entriesStep_refines (l : List (V × V)) (op : MOp) (h : KeysDistinct l) (x : V) :
    (entriesStep l op).lookup x = MDict.step (fun x => l.lookup x) op x := by
  cases op with
  | put k v =>
    by_cases hx : x = k
    · subst hx; simp [entriesStep, MDict.step, lookup_setAssoc_same']
    · simp [entriesStep, MDict.step, hx, lookup_setAssoc_other' k v x hx]
  | del k =>
    by_cases hx : x = k
    · subst hx; simp [entriesStep, MDict.step, lookup_assocErase_same x l h]
    · simp [entriesStep, MDict.step, hx, lookup_assocErase_other k x hx]

/-- ANY history of stores and deletions on a map's entry list (every key once - true of the empty map and kept by every step) reads as the same history on
Go's map: what a key yields afterwards is decided by the last operation on that key. -/
theorem map_history_is_dictionary (ops : List MOp) : ∀ (l : List (V × V)), KeysDistinct l → ∀ (x : V),
    KeysDistinct (ops.foldl entriesStep l) ∧ (ops.foldl entriesStep l).lookup x = ops.foldl MDict.step (fun x => l.lookup x) x := by
  induction ops with
  | nil => intro l h x; exact ⟨h, rfl⟩
  | cons op rest ih =>
    intro l h x
    simp only [List.foldl]
    have h1 := entriesStep_keeps_distinct l op h
    have := ih (entriesStep l op) h1 x
    refine ⟨this.1, ?_⟩
    rw [this.2]
    have : (fun x => (entriesStep l op).lookup x) = MDict.step (fun x => l.lookup x) op := by
      funext y; exact entriesStep_refines l op h y
    rw [this]

/-- every map a script can build starts empty: the invariant holds from the start -/
theorem empty_map_keys_distinct : KeysDistinct ([] : List (V × V)) := by simp [KeysDistinct, keysOf]

theorem fold_setAssoc_distinct (es : List (V × V)) : ∀ (acc : List (V × V)), KeysDistinct acc →
    KeysDistinct (es.foldl (fun acc kv => setAssoc kv.1 kv.2 acc) acc) := by
  induction es with
  | nil => intro acc h; exact h
  | cons e rest ih => intro acc h; exact ih _ (setAssoc_keeps_distinct e.1 e.2 acc h)

/-- a map literal `{k1: v1, k2: v2, ...}` (keys possibly repeated) builds an entry list with every key once - the only way, with stores and deletions,
in which the model's heap gets or changes a map (`Heap.allocMap` of this fold, `setAssoc`, `assocErase`) -/
theorem literal_entries_distinct (es : List (V × V)) : KeysDistinct (es.foldl (fun acc kv => setAssoc kv.1 kv.2 acc) []) :=
  fold_setAssoc_distinct es [] empty_map_keys_distinct

/-- the invariant matters: with a key twice in the list, a deletion would let the older entry come back -/
example : (assocErase (.int 1) [(.int 1, .int 10), (.int 1, .int 20)]).lookup (.int 1) = some (.int 20) := by decide


/-- every map of the heap keeps every key once -/
def MapsDistinct (m : Array (List (V × V))) : Prop := ∀ (id : Nat) (kvs : List (V × V)), m[id]? = some kvs → KeysDistinct kvs

@[simp] theorem setVar_maps (h : Heap) (x : String) (v : V) : (h.setVar x v).maps = h.maps := rfl
@[simp] theorem writeElem_maps (h : Heap) (s : Slice) (i : Nat) (v : V) : (h.writeElem s i v).maps = h.maps := by
  unfold Heap.writeElem; split <;> rfl
@[simp] theorem alloc_maps (h : Heap) (vs : List V) (c : Nat) : (h.alloc vs c).1.maps = h.maps := rfl

theorem foldl_writeElem_maps (s : Slice) (g : Nat → Nat) (f : Nat → V) : ∀ (js : List Nat) (h : Heap),
    (js.foldl (fun hh j => hh.writeElem s (g j) (f j)) h).maps = h.maps := by
  intro js
  induction js with
  | nil => intro h; rfl
  | cons j rest ih => intro h; simp only [List.foldl]; rw [ih]; simp

@[simp] theorem append_maps (h : Heap) (s : Slice) (vs : List V) (nc : Nat) : (h.append s vs nc).1.maps = h.maps := by
  unfold Heap.append
  split
  · exact foldl_writeElem_maps s (fun j => s.len + j) (fun j => vs.getD j .nil) _ h
  · simp

theorem md_push (m : Array (List (V × V))) (kvs : List (V × V)) (hm : MapsDistinct m) (hk : KeysDistinct kvs) : MapsDistinct (m.push kvs) := by
  intro id l hl
  by_cases hid : id < m.size
  · rw [Array.getElem?_push_lt hid] at hl; exact hm id l (by simpa [Array.getElem?_eq_getElem hid] using hl)
  · by_cases he : id = m.size
    · subst he; simp at hl; exact hl ▸ hk
    · have : m.size < id := by omega
      simp [Array.getElem?_push, this, he] at hl
      have : ¬ id < m.size + 1 := by omega
      simp_all

theorem md_set (m : Array (List (V × V))) (i : Nat) (kvs : List (V × V)) (hm : MapsDistinct m) (hk : KeysDistinct kvs) : MapsDistinct (m.setIfInBounds i kvs) := by
  intro id l hl
  by_cases he : id = i
  · subst he
    by_cases hid : id < m.size
    · simp [hid] at hl; exact hl ▸ hk
    · simp [hid] at hl
  · have : (m.setIfInBounds i kvs)[id]? = m[id]? := by simp [Array.getElem?_setIfInBounds_ne (Ne.symm he)]
    exact hm id l (this ▸ hl)


/-- one statement of a container history keeps the invariant -/
theorem step_keeps_maps_distinct (h : Heap) (op : Op) (hm : MapsDistinct h.maps) : MapsDistinct (h.step op).1.maps := by
  cases op <;> simp only [Heap.step] <;> (repeat' split) <;> (try simp) <;> (try exact hm)
  · exact md_push _ _ hm (literal_entries_distinct _)
  · exact md_set _ _ _ hm (setAssoc_keeps_distinct _ _ _ (hm _ _ (by assumption)))
  · exact md_set _ _ _ hm (assocErase_keeps_distinct _ _ (hm _ _ (by assumption)))

theorem step2_keeps_maps_distinct (h : Heap) (op : Op) (hm : MapsDistinct h.maps) : MapsDistinct (h.step2 op).1.maps := by
  cases op <;> simp only [Heap.step2] <;> (try exact step_keeps_maps_distinct h _ hm) <;> (repeat' split) <;> (try simp) <;> (try exact hm)

/-- EVERY heap a container history reaches keeps every key of every map once: the hypothesis of `map_history_is_dictionary` holds wherever the model goes -/
theorem reachable_maps_keep_every_key_once : ∀ (ops : List Op) (h : Heap), MapsDistinct h.maps → MapsDistinct (h.run ops).1.maps := by
  intro ops
  induction ops with
  | nil => intro h hm; exact hm
  | cons op rest ih => intro h hm; simp only [Heap.run]; exact ih _ (step2_keeps_maps_distinct h op hm)

theorem empty_heap_maps_distinct : MapsDistinct Heap.empty.maps := by
  intro id kvs hk; simp [Heap.empty] at hk


/-! ### The container paths of the source (regenerated: Gen/ContFlow)

Every leaf statement of the index, slice, len, member and make expressions, of every assignment target of vm/vmLetExpr.go (variable, member, index into
slice / map / string, slice range, dereference), of getMapIndex / appendSlice / isHashable, of delete and of the two-value map read, with the
conditions it stands under, is the one written down in Props/ContFlowTable next to Model/Cont: the guard in front of every reflect operation, what
is copied and what shared, what a failing store leaves behind. Any edit of these functions - also a harmless one - breaks this obligation by name; the check then
searches model and implementation for a failing input (DESIGN.md 13.3). -/
theorem container_paths_are_the_modelled_ones : Gen.ContFlow.leaves = Tables.contFlow := Tie.contFlow

/-! ### Shared source ties

The code this property is anchored in is also written down, leaf statement by leaf statement, by the tables below (each decided once in
Props/Tie, `decide +kernel`, against the table regenerated from /repo on this run). A change of that code breaks the tie by name here too, and the check of
this property then searches for a failing input - so a change that breaks this property through code whose primary table belongs to another
property is not overlooked. -/
/-- unary operators, dereference, address-of, unalias, containerOperand, isNil -/
theorem source_tie_ProvFlow : Gen.ProvFlow.leaves = Tables.provFlow := Tie.provFlow
/-- the conversion at the Go boundary (vmConvertToX.go) -/
theorem source_tie_ConvFlow : Gen.ConvFlow.leaves = Tables.convFlow := Tie.convFlow


/-! ### Declaration inventory

Nothing was added to the packages this property is anchored in: their top-level declarations (functions, methods, variables, constants, types with
the fields of struct types), regenerated from /repo on this run, are the audited ones (Props/Tie/Inventory). A helper, a package-level table or a
file added there - code no flow table can pin - breaks the tie by name and makes this property's check search for a failing input. -/
/-- vm/ -/
theorem declarations_of_Vm_are_the_audited_ones : Tie.ofPkg "vm" Gen.Inventory.decls = Tie.ofPkg "vm" Tables.inventory := Tie.inventoryVm

end Anko.C10
