/-
C05 — Arithmetic follows the int64 / float64 / string tower exactly.

Theorems over the operator model (Anko.Model.Ops / BinOp, mirrored from vm/vmOperator.go,
vm/vmToX.go, invokeUnaryExpr) for ALL operand values, and over the REGENERATED small-int
cache facts (Anko.Gen.Cache from vm/vm.go).  Floats are abstract (`FOps`): the statements say
WHICH float operation is applied to WHICH operands, which is what the property claims.
-/
import Anko.Model.BinOp
import Anko.Gen.Cache
import Anko.Gen.Operators
import Anko.Gen.ToXFlow
import Anko.Props.ToXFlowTable
import Anko.Props.Tie.ToXFlow
import Anko.Props.Tie.ProvFlow
import Anko.Props.Tie.Inventory

namespace Anko.C05
open Anko

variable [FOps]

/-! ### int64 × int64: exact two's-complement results, for every provenance of the operands -/

theorem int_add (a b : I64) (w1 w2 : Bool) :
    binop "+" ⟨w1, .int a⟩ ⟨w2, .int b⟩ = .ok (.int (a + b)) := by
  simp [binop, RV.unwrap, addOp, precedenceOfKinds, Val.kind, withInts, toInt64, tryToInt64]

theorem int_sub (a b : I64) (w1 w2 : Bool) :
    binop "-" ⟨w1, .int a⟩ ⟨w2, .int b⟩ = .ok (.int (a - b)) := by
  simp [binop, RV.unwrap, addOp, Val.kind, withInts, toInt64, tryToInt64]

theorem int_mul (a b : I64) (w1 w2 : Bool) :
    binop "*" ⟨w1, .int a⟩ ⟨w2, .int b⟩ = .ok (.int (a * b)) := by
  simp [binop, RV.unwrap, mulOp, Val.kind, withInts, toInt64, tryToInt64]

theorem int_and (a b : I64) (w1 w2 : Bool) :
    binop "&" ⟨w1, .int a⟩ ⟨w2, .int b⟩ = .ok (.int (a &&& b)) := by
  simp [binop, RV.unwrap, mulOp, withInts, toInt64, tryToInt64]

theorem int_or (a b : I64) (w1 w2 : Bool) :
    binop "|" ⟨w1, .int a⟩ ⟨w2, .int b⟩ = .ok (.int (a ||| b)) := by
  simp [binop, RV.unwrap, addOp, withInts, toInt64, tryToInt64]

/-- `%`: Go's truncated remainder (`BitVec.srem`), an error exactly for a zero divisor. -/
theorem int_rem (a b : I64) (w1 w2 : Bool) :
    binop "%" ⟨w1, .int a⟩ ⟨w2, .int b⟩ =
      if b = 0 then .err "integer divide by zero" else .ok (.int (a.srem b)) := by
  simp [binop, RV.unwrap, mulOp, withInts, toInt64, tryToInt64]

/-- Shift counts are read as unsigned 64-bit numbers. -/
theorem int_shl (a b : I64) (w1 w2 : Bool) :
    binop "<<" ⟨w1, .int a⟩ ⟨w2, .int b⟩ = .ok (.int (a <<< b.toNat)) := by
  simp only [binop, RV.unwrap, mulOp, withInts, toInt64, tryToInt64, Option.map, Option.getD, shl64]
  split
  · next h =>
    rw [BitVec.shiftLeft_eq_zero h]; rfl
  · rfl

theorem int_shr (a b : I64) (w1 w2 : Bool) :
    binop ">>" ⟨w1, .int a⟩ ⟨w2, .int b⟩ = .ok (.int (a.sshiftRight b.toNat)) := by
  simp only [binop, RV.unwrap, mulOp, withInts, toInt64, tryToInt64, Option.map, Option.getD, shr64]
  split
  · next h =>
    congr 2
    apply BitVec.eq_of_getElem_eq
    intro i hi
    have hge : ¬ (b.toNat + i < 64) := by omega
    cases hm : a.msb
    · simp [BitVec.getElem_sshiftRight, hge, hm]
    · simp only [BitVec.getElem_sshiftRight, hge, hm]
      show ((-1 : I64))[i] = true
      rw [show (-1 : I64) = BitVec.allOnes 64 from by decide]
      exact BitVec.getElem_allOnes i hi
  · rfl

theorem int_neg (a : I64) (w : Bool) : unop "-" ⟨w, .int a⟩ = .ok (.int (-a)) := by
  simp [unop, RV.unwrap, unaryOp]

theorem int_not (a : I64) (w : Bool) : unop "^" ⟨w, .int a⟩ = .ok (.int (~~~a)) := by
  simp [unop, RV.unwrap, unaryOp, toInt64, tryToInt64]

/-- Comparisons between integers are exact over the whole int64 range (no float round trip). -/
theorem int_lt (a b : I64) (w1 w2 : Bool) :
    binop "<" ⟨w1, .int a⟩ ⟨w2, .int b⟩ = .ok (.bool (decide (a.toInt < b.toInt))) := by
  simp [binop, RV.unwrap, cmpOp, isIntKind, Val.kind, BitVec.slt]

theorem int_le (a b : I64) (w1 w2 : Bool) :
    binop "<=" ⟨w1, .int a⟩ ⟨w2, .int b⟩ = .ok (.bool (decide (a.toInt ≤ b.toInt))) := by
  simp [binop, RV.unwrap, cmpOp, isIntKind, Val.kind, BitVec.sle]

theorem int_gt (a b : I64) (w1 w2 : Bool) :
    binop ">" ⟨w1, .int a⟩ ⟨w2, .int b⟩ = .ok (.bool (decide (b.toInt < a.toInt))) := by
  simp [binop, RV.unwrap, cmpOp, isIntKind, Val.kind, BitVec.slt]

theorem int_ge (a b : I64) (w1 w2 : Bool) :
    binop ">=" ⟨w1, .int a⟩ ⟨w2, .int b⟩ = .ok (.bool (decide (b.toInt ≤ a.toInt))) := by
  simp [binop, RV.unwrap, cmpOp, isIntKind, Val.kind, BitVec.sle]

/-! ### `/` is always the float64 quotient; one float operand makes `+ - *` and orderings float -/

theorem int_div (a b : I64) (w1 w2 : Bool) :
    binop "/" ⟨w1, .int a⟩ ⟨w2, .int b⟩ = .ok (.float (FOps.div (FOps.ofInt a) (FOps.ofInt b))) := by
  simp [binop, RV.unwrap, mulOp, withFloats, toFloat64, tryToFloat64]

/-- float64 view of a numeric operand -/
def asF : Val → I64
  | .int i => FOps.ofInt i
  | .float f => f
  | _ => fzero

def isNumeric : Val → Bool
  | .int _ => true
  | .float _ => true
  | _ => false

def hasFloat : Val → Val → Bool
  | .float _, _ => true
  | _, .float _ => true
  | _, _ => false

theorem float_contagion_add (x y : Val) (w1 w2 : Bool) (hx : isNumeric x) (hy : isNumeric y)
    (hf : hasFloat x y) : binop "+" ⟨w1, x⟩ ⟨w2, y⟩ = .ok (.float (FOps.add (asF x) (asF y))) := by
  cases x <;> cases y <;> simp_all [isNumeric, hasFloat, binop, RV.unwrap, addOp, precedenceOfKinds,
    Val.kind, withFloats, toFloat64, tryToFloat64, asF]

theorem float_contagion_sub (x y : Val) (w1 w2 : Bool) (hx : isNumeric x) (hy : isNumeric y)
    (hf : hasFloat x y) : binop "-" ⟨w1, x⟩ ⟨w2, y⟩ = .ok (.float (FOps.sub (asF x) (asF y))) := by
  cases x <;> cases y <;> simp_all [isNumeric, hasFloat, binop, RV.unwrap, addOp,
    Val.kind, withFloats, toFloat64, tryToFloat64, asF]

theorem float_contagion_mul (x y : Val) (w1 w2 : Bool) (hx : isNumeric x) (hy : isNumeric y)
    (hf : hasFloat x y) : binop "*" ⟨w1, x⟩ ⟨w2, y⟩ = .ok (.float (FOps.mul (asF x) (asF y))) := by
  cases x <;> cases y <;> simp_all [isNumeric, hasFloat, binop, RV.unwrap, mulOp,
    Val.kind, withFloats, toFloat64, tryToFloat64, asF]

theorem any_numeric_div (x y : Val) (w1 w2 : Bool) (hx : isNumeric x) (hy : isNumeric y) :
    binop "/" ⟨w1, x⟩ ⟨w2, y⟩ = .ok (.float (FOps.div (asF x) (asF y))) := by
  cases x <;> cases y <;> simp_all [isNumeric, binop, RV.unwrap, mulOp,
    withFloats, toFloat64, tryToFloat64, asF]

theorem float_contagion_lt (x y : Val) (w1 w2 : Bool) (hx : isNumeric x) (hy : isNumeric y)
    (hf : hasFloat x y) : binop "<" ⟨w1, x⟩ ⟨w2, y⟩ = .ok (.bool (FOps.lt (asF x) (asF y))) := by
  cases x <;> cases y <;> simp_all [isNumeric, hasFloat, binop, RV.unwrap, cmpOp, isIntKind,
    Val.kind, withFloats, toFloat64, tryToFloat64, asF]

theorem float_contagion_le (x y : Val) (w1 w2 : Bool) (hx : isNumeric x) (hy : isNumeric y)
    (hf : hasFloat x y) : binop "<=" ⟨w1, x⟩ ⟨w2, y⟩ = .ok (.bool (FOps.le (asF x) (asF y))) := by
  cases x <;> cases y <;> simp_all [isNumeric, hasFloat, binop, RV.unwrap, cmpOp, isIntKind,
    Val.kind, withFloats, toFloat64, tryToFloat64, asF]

/-! ### strings -/

theorem str_concat (s t : Bytes) (w1 w2 : Bool) :
    binop "+" ⟨w1, .str s⟩ ⟨w2, .str t⟩ = .ok (.str (s ++ t)) := by
  simp [binop, RV.unwrap, addOp, precedenceOfKinds, Val.kind, toStr, sprint]

/-- string + integer concatenates the decimal spelling of the integer -/
theorem str_concat_int (s : Bytes) (i : I64) (w1 w2 : Bool) :
    binop "+" ⟨w1, .str s⟩ ⟨w2, .int i⟩ = .ok (.str (s ++ intToBytes i)) := by
  simp [binop, RV.unwrap, addOp, precedenceOfKinds, Val.kind, toStr, sprint]

theorem int_concat_str (s : Bytes) (i : I64) (w1 w2 : Bool) :
    binop "+" ⟨w1, .int i⟩ ⟨w2, .str s⟩ = .ok (.str (intToBytes i ++ s)) := by
  simp [binop, RV.unwrap, addOp, precedenceOfKinds, Val.kind, toStr, sprint]

/-- ... also when the string is EMPTY: the result is the decimal spelling as a string, never the number itself -/
theorem empty_str_concat_int (i : I64) (w1 w2 : Bool) :
    binop "+" ⟨w1, .str []⟩ ⟨w2, .int i⟩ = .ok (.str (intToBytes i)) ∧
    binop "+" ⟨w1, .int i⟩ ⟨w2, .str []⟩ = .ok (.str (intToBytes i)) := by
  constructor
  · simpa using str_concat_int [] i w1 w2
  · simpa using int_concat_str [] i w1 w2

omit [FOps] in
/-- A string operand that is a run of decimal digits counts as that DECIMAL number, leading zeros or not: a
leading `0` does not change the value (it is no octal marker). -/
theorem zero_padded_digit_string_is_decimal (d : UInt8) (ds : Bytes)
    (hd : isDigit d = true) (hds : ds.all isDigit = true) :
    strToInt (48 :: d :: ds) = parseDec (d :: ds) := by
  have hd' : 48 ≤ d ∧ d ≤ 57 := by simpa [isDigit] using hd
  have hx : d ≠ 120 ∧ d ≠ 98 ∧ d ≠ 45 ∧ d ≠ 43 := by
    refine ⟨?_, ?_, ?_, ?_⟩ <;> intro h <;> subst h <;> revert hd <;> decide
  have hs0 : splitSign (48 :: d :: ds) = (false, 48 :: d :: ds) := by simp [splitSign]
  have hs1 : splitSign (d :: ds) = (false, d :: ds) := by
    unfold splitSign
    split
    · rename_i r h; simp at h; exact absurd h.1 hx.2.2.1
    · rename_i r h; simp at h; exact absurd h.1 hx.2.2.2
    · rfl
  have h48 : isDigit 48 = true := by decide
  have hv : digitsVal (48 :: d :: ds) 0 = digitsVal (d :: ds) 0 := by simp [digitsVal]
  unfold strToInt
  have p1 : hasPrefix [48, 120] (48 :: d :: ds) = false := by
    simp [hasPrefix, List.isPrefixOf, Ne.symm hx.1]
  have p2 : hasPrefix [48, 98] (48 :: d :: ds) = false := by
    simp [hasPrefix, List.isPrefixOf, Ne.symm hx.2.1]
  simp only [p1, p2, Bool.false_eq_true, if_false]
  unfold parseDec
  simp only [hs0, hs1, hv]
  simp [List.all_cons, h48, hd, hds]

example : strToInt [48, 49, 48] = some 10#64 := by decide   -- "010" is ten, not eight

omit [FOps] in
theorem repeatBytes_length (s : Bytes) (n : Nat) : (repeatBytes s n).length = n * s.length := by
  induction n with
  | zero => simp [repeatBytes]
  | succ n ih => simp [repeatBytes, ih, Nat.succ_mul, Nat.add_comm]

omit [FOps] in
theorem repeatBytes_eq (s : Bytes) (n : Nat) : repeatBytes s n = (List.replicate n s).flatten := by
  induction n with
  | zero => simp [repeatBytes]
  | succ n ih => simp [repeatBytes, ih, List.replicate_succ]

/-- `string * n` is n copies (within the size bound of the model), an error for negative n. -/
theorem str_repeat (s : Bytes) (n : I64) (w1 w2 : Bool) (hn : n.slt 0#64 = false)
    (hb : s.length * n.toNat ≤ repeatBound) :
    binop "*" ⟨w1, .str s⟩ ⟨w2, .int n⟩ = .ok (.str ((List.replicate n.toNat s).flatten)) := by
  simp only [binop, RV.unwrap, mulOp]
  by_cases he : s.length = 0
  · have hs : s = [] := List.length_eq_zero_iff.mp he
    subst hs
    simp [hn]
  · simp [hn, he, Nat.not_lt.mpr hb, repeatBytes_eq]

theorem str_repeat_negative (s : Bytes) (n : I64) (w1 w2 : Bool) (hn : n.slt 0#64 = true) :
    binop "*" ⟨w1, .str s⟩ ⟨w2, .int n⟩ = .err "negative repeat count" := by
  simp [binop, RV.unwrap, mulOp, hn]

/-! ### The small-int cache is transparent (facts REGENERATED from vm/vm.go) -/

open Anko.Gen.Cache in
/-- For every int64 `v` the guard of `int64Value` lets through only indices inside the array,
and the slot it reads was written by exactly the init-loop iteration that stores `v`: the
cached value is `box v`, the same as the general path. -/
theorem cache_transparent (v : Int) (hg : cacheGuard v) :
    0 ≤ lookupIndex v ∧ lookupIndex v < arrayLen ∧
    ∃ i : Int, initLo ≤ i ∧ (∀ j, initLo ≤ j → j ≤ i → initCond j) ∧
      initIndex i = lookupIndex v ∧ initValue i = v ∧
      (∀ j, initLo ≤ j → initCond j → initIndex j = lookupIndex v → initValue j = v) := by
  unfold cacheGuard at hg
  unfold lookupIndex arrayLen initLo initCond initIndex initValue
  unfold int64CacheMin int64CacheMax at *
  refine ⟨by omega, by omega, v, by omega, ?_, rfl, rfl, ?_⟩
  · intro j _ hj; omega
  · intro j _ _ hj; omega

open Anko.Gen.Cache in
/-- The init loop never writes outside the array. -/
theorem cache_init_in_bounds (i : Int) (h1 : initLo ≤ i) (h2 : initCond i) :
    0 ≤ initIndex i ∧ initIndex i < arrayLen := by
  unfold initLo at h1
  unfold initCond at h2
  unfold initIndex arrayLen
  unfold int64CacheMin int64CacheMax at *
  omega


/-! ### Which of string / float64 / int64 `+` works in does not depend on the side an operand stands on -/

/-- the three ways `+` can go once no list is involved -/
inductive PlusClass where
  | concat | float | int
  deriving DecidableEq, Repr

def plusClass (k : Kind) : PlusClass :=
  match k with
  | .string => .concat
  | .float64 => .float
  | _ => .int

/-- `precedenceOfKinds` picks concatenation as soon as one operand is a string, else float64 as soon as one is a float, else int64 -
for every pair of kinds (unsigned integers, bool and nil on the left included) and whichever side the string or float stands on. -/
theorem plus_class_is_symmetric (k1 k2 : Kind) :
    plusClass (precedenceOfKinds k1 k2) = plusClass (precedenceOfKinds k2 k1) := by
  cases k1 <;> cases k2 <;> rfl

theorem a_string_operand_makes_plus_concatenate (k : Kind) :
    plusClass (precedenceOfKinds .string k) = .concat ∧ plusClass (precedenceOfKinds k .string) = .concat := by
  cases k <;> exact ⟨rfl, rfl⟩

theorem a_float_operand_makes_plus_float (k : Kind) (hk : k ≠ .string) :
    plusClass (precedenceOfKinds .float64 k) = .float ∧ plusClass (precedenceOfKinds k .float64) = .float := by
  cases k <;> first | exact ⟨rfl, rfl⟩ | exact absurd rfl hk

example : plusClass (precedenceOfKinds .bool .float64) = .float ∧ plusClass (precedenceOfKinds .iface .string) = .concat := by decide

/-! ### The operator switches of vm/vmOperator.go, arm by arm (regenerated: Gen/Operators)

What each `case "<op>":` does once both operands are evaluated - every assignment to the result, every early return, every guard -
is extracted from the source on every run and compared with the tables below, which were written next to the model's operator
functions: the conversion (`toInt64` / `toFloat64` / `toString`), the Go operator, the boxing function and the conditions of every arm
are the ones `addOp`, `mulOp` and `cmpOp` mirror (theorems above give those their meaning on int64 / float64 / strings). A fast path,
a different conversion, another Go operator, a changed guard, a new early return or a change to the operand preamble (left operand
first, opened and unaliased; right operand second, opened) makes the tables differ. -/

def armsOf (fn : String) : List (String × String) :=
  (Gen.Operators.arms.filter (fun a => a.1 == fn)).map (fun a => a.2)

/-- Model: `cmpOp` (orderings: both int kinds -> exact int64 comparison, else float64) and `equalV` behind == / != (Props/C06) -/
def comparisonArms : List (String × String) := [
  ("(before)", "runInfo.expr = operator.LHS"),
  ("(before)", "runInfo.invokeExpr()"),
  ("(before)", "E != nil => return"),
  ("(before)", "R.Kind() == Interface && !R.IsNil() => R = R.Elem()"),
  ("(before)", "L := unalias(R)"),
  ("(before)", "runInfo.expr = operator.RHS"),
  ("(before)", "runInfo.invokeExpr()"),
  ("(before)", "E != nil => return"),
  ("(before)", "R.Kind() == Interface && !R.IsNil() => R = R.Elem()"),
  ("(before)", "var result bool"),
  ("==", "result = equal(L, R)"),
  ("!=", "result = !equal(L, R)"),
  ("<", "isIntKind(L) && isIntKind(R) => result = L.Int() < R.Int()"),
  ("<", "!(isIntKind(L) && isIntKind(R)) => result = toFloat64(L) < toFloat64(R)"),
  ("<=", "isIntKind(L) && isIntKind(R) => result = L.Int() <= R.Int()"),
  ("<=", "!(isIntKind(L) && isIntKind(R)) => result = toFloat64(L) <= toFloat64(R)"),
  (">", "isIntKind(L) && isIntKind(R) => result = L.Int() > R.Int()"),
  (">", "!(isIntKind(L) && isIntKind(R)) => result = toFloat64(L) > toFloat64(R)"),
  (">=", "isIntKind(L) && isIntKind(R) => result = L.Int() >= R.Int()"),
  (">=", "!(isIntKind(L) && isIntKind(R)) => result = toFloat64(L) >= toFloat64(R)"),
  ("default", "E = newStringError(operator, \"unknown operator\")"),
  ("default", "R = nilValue"),
  ("default", "return"),
  ("(after)", "result => R = trueValue"),
  ("(after)", "!(result) => R = falseValue")
]

/-- Model: `addOp` - `+` appends for lists, otherwise precedenceOfKinds picks string / float64 / int64; `-` is float64 as soon as one
operand is a float kind; `|` is int64 -/
def addArms : List (String × String) := [
  ("(before)", "runInfo.expr = operator.LHS"),
  ("(before)", "runInfo.invokeExpr()"),
  ("(before)", "E != nil => return"),
  ("(before)", "R.Kind() == Interface && !R.IsNil() => R = R.Elem()"),
  ("(before)", "L := unalias(R)"),
  ("(before)", "runInfo.expr = operator.RHS"),
  ("(before)", "runInfo.invokeExpr()"),
  ("(before)", "E != nil => return"),
  ("(before)", "R.Kind() == Interface && !R.IsNil() => R = R.Elem()"),
  ("+", "lhsKind := L.Kind()"),
  ("+", "rhsKind := R.Kind()"),
  ("+", "lhsKind == Slice || lhsKind == Array => L = sliceOfArray(L)"),
  ("+", "(lhsKind == Slice || lhsKind == Array) && (rhsKind == Slice || rhsKind == Array) => R, E = appendSlice(operator, L, sliceOfArray(R))"),
  ("+", "(lhsKind == Slice || lhsKind == Array) && (rhsKind == Slice || rhsKind == Array) => return"),
  ("+", "lhsKind == Slice || lhsKind == Array => R, E = convertReflectValueToType(R, L.Type().Elem())"),
  ("+", "(lhsKind == Slice || lhsKind == Array) && E != nil => E = newStringError(operator, \"invalid type conversion\")"),
  ("+", "(lhsKind == Slice || lhsKind == Array) && E != nil => R = nilValue"),
  ("+", "(lhsKind == Slice || lhsKind == Array) && E != nil => return"),
  ("+", "lhsKind == Slice || lhsKind == Array => R = Append(L, R)"),
  ("+", "lhsKind == Slice || lhsKind == Array => return"),
  ("+", "rhsKind == Slice || rhsKind == Array => E = newStringError(operator, \"invalid type conversion\")"),
  ("+", "rhsKind == Slice || rhsKind == Array => R = nilValue"),
  ("+", "rhsKind == Slice || rhsKind == Array => return"),
  ("+", "kind := precedenceOfKinds(lhsKind, rhsKind)"),
  ("+", "kind in {String} => R = ValueOf(toString(L) + toString(R))"),
  ("+", "kind in {Float64, Float32} => R = float64Value(toFloat64(L) + toFloat64(R))"),
  ("+", "kind default => R = int64Value(toInt64(L) + toInt64(R))"),
  ("-", "L.Kind() in {Float64, Float32} => R = float64Value(toFloat64(L) - toFloat64(R))"),
  ("-", "L.Kind() in {Float64, Float32} => return"),
  ("-", "R.Kind() in {Float64, Float32} => R = float64Value(toFloat64(L) - toFloat64(R))"),
  ("-", "R.Kind() default => R = int64Value(toInt64(L) - toInt64(R))"),
  ("|", "R = int64Value(toInt64(L) | toInt64(R))"),
  ("default", "E = newStringError(operator, \"unknown operator\")"),
  ("default", "R = nilValue")
]

/-- Model: `mulOp` - `*` repeats a string by an int / int32 / int64 count (negative and overflowing counts are errors), is float64 as soon
as one operand is a float kind, else int64; `/` always float64; `%` int64 with the zero divisor an error; shifts take the count as
uint64; `&` int64 -/
def multiplyArms : List (String × String) := [
  ("(before)", "runInfo.expr = operator.LHS"),
  ("(before)", "runInfo.invokeExpr()"),
  ("(before)", "E != nil => return"),
  ("(before)", "R.Kind() == Interface && !R.IsNil() => R = R.Elem()"),
  ("(before)", "L := unalias(R)"),
  ("(before)", "runInfo.expr = operator.RHS"),
  ("(before)", "runInfo.invokeExpr()"),
  ("(before)", "E != nil => return"),
  ("(before)", "R.Kind() == Interface && !R.IsNil() => R = R.Elem()"),
  ("*", "L.Kind() == String && (R.Kind() == Int || R.Kind() == Int32 || R.Kind() == Int64) => count := toInt64(R)"),
  ("*", "(L.Kind() == String && (R.Kind() == Int || R.Kind() == Int32 || R.Kind() == Int64)) && count < 0 => E = newStringError(operator, \"negative repeat count\")"),
  ("*", "(L.Kind() == String && (R.Kind() == Int || R.Kind() == Int32 || R.Kind() == Int64)) && count < 0 => R = nilValue"),
  ("*", "(L.Kind() == String && (R.Kind() == Int || R.Kind() == Int32 || R.Kind() == Int64)) && count < 0 => return"),
  ("*", "L.Kind() == String && (R.Kind() == Int || R.Kind() == Int32 || R.Kind() == Int64) => str := toString(L)"),
  ("*", "(L.Kind() == String && (R.Kind() == Int || R.Kind() == Int32 || R.Kind() == Int64)) && (len(str) > 0 && count > int64(math.MaxInt64/int64(len(str)))) => E = newStringError(operator, \"repeat count causes overflow\")"),
  ("*", "(L.Kind() == String && (R.Kind() == Int || R.Kind() == Int32 || R.Kind() == Int64)) && (len(str) > 0 && count > int64(math.MaxInt64/int64(len(str)))) => R = nilValue"),
  ("*", "(L.Kind() == String && (R.Kind() == Int || R.Kind() == Int32 || R.Kind() == Int64)) && (len(str) > 0 && count > int64(math.MaxInt64/int64(len(str)))) => return"),
  ("*", "L.Kind() == String && (R.Kind() == Int || R.Kind() == Int32 || R.Kind() == Int64) => R = nilValue"),
  ("*", "(L.Kind() == String && (R.Kind() == Int || R.Kind() == Int32 || R.Kind() == Int64)) && !runInfo.options.Debug => defer recoverFunc(runInfo)"),
  ("*", "L.Kind() == String && (R.Kind() == Int || R.Kind() == Int32 || R.Kind() == Int64) => R = ValueOf(strings.Repeat(str, int(count)))"),
  ("*", "L.Kind() == String && (R.Kind() == Int || R.Kind() == Int32 || R.Kind() == Int64) => return"),
  ("*", "L.Kind() == Float64 || R.Kind() == Float64 || L.Kind() == Float32 || R.Kind() == Float32 => R = float64Value(toFloat64(L) * toFloat64(R))"),
  ("*", "L.Kind() == Float64 || R.Kind() == Float64 || L.Kind() == Float32 || R.Kind() == Float32 => return"),
  ("*", "R = int64Value(toInt64(L) * toInt64(R))"),
  ("/", "R = float64Value(toFloat64(L) / toFloat64(R))"),
  ("%", "rhs := toInt64(R)"),
  ("%", "rhs == 0 => E = newStringError(operator, \"integer divide by zero\")"),
  ("%", "rhs == 0 => R = nilValue"),
  ("%", "rhs == 0 => return"),
  ("%", "R = int64Value(toInt64(L) % rhs)"),
  (">>", "R = int64Value(toInt64(L) >> uint64(toInt64(R)))"),
  ("<<", "R = int64Value(toInt64(L) << uint64(toInt64(R)))"),
  ("&", "R = int64Value(toInt64(L) & toInt64(R))"),
  ("default", "E = newStringError(operator, \"unknown operator\")"),
  ("default", "R = nilValue")
]

/-- every arm of the three operator switches is the one written down above -/
theorem operator_arms_are_the_modelled_ones :
    armsOf "invokeComparisonOperator" = comparisonArms ∧ armsOf "invokeAddOperator" = addArms ∧
    armsOf "invokeMultiplyOperator" = multiplyArms ∧
    Gen.Operators.arms.all (fun a => ["invokeComparisonOperator", "invokeAddOperator", "invokeMultiplyOperator"].contains a.1) = true := by
  decide +kernel

/-! ### Non-vacuity -/
open Anko.Gen.Cache in
example : cacheGuard 4095 ∧ cacheGuard (-1) ∧ ¬ cacheGuard 4096 ∧ ¬ cacheGuard (-2) := by decide
example : isNumeric (.int 3) = true ∧ hasFloat (.int 3) (.float 0) = true := by decide

/-! ### The conversions of the numeric tower in the source (regenerated: Gen/ToXFlow)

Every leaf statement of toString, toBool / tryToBool, toFloat64 / tryToFloat64, toInt64 / tryToInt64, toInt / tryToInt, numToString, isIntKind,
precedenceOfKinds, float64Value, sliceOfArray and the operator dispatcher, with the conditions it stands under, is the one written down in
Props/ToXFlowTable next to Model/Num and Model/Ops (toInt64V, toFloat64V, numeral parsing of strings, the kind that decides `+`). Any edit of these functions - also a harmless one - breaks this obligation by name; the check then
searches model and implementation for a failing input (DESIGN.md 13.3). -/
theorem tower_conversions_are_the_modelled_ones : Gen.ToXFlow.leaves = Tables.toXFlow := Tie.toXFlow

/-! ### Shared source ties

The code this property is anchored in is also written down, leaf statement by leaf statement, by the tables below (each decided once in
Props/Tie, `decide +kernel`, against the table regenerated from /repo on this run). A change of that code breaks the tie by name here too, and the check of
this property then searches for a failing input - so a change that breaks this property through code whose primary table belongs to another
property is not overlooked. -/
/-- unary operators, dereference, address-of, unalias, containerOperand, isNil -/
theorem source_tie_ProvFlow : Gen.ProvFlow.leaves = Tables.provFlow := Tie.provFlow


/-! ### Declaration inventory

Nothing was added to the packages this property is anchored in: their top-level declarations (functions, methods, variables, constants, types with
the fields of struct types), regenerated from /repo on this run, are the audited ones (Props/Tie/Inventory). A helper, a package-level table or a
file added there - code no flow table can pin - breaks the tie by name and makes this property's check search for a failing input. -/
/-- vm/ -/
theorem declarations_of_Vm_are_the_audited_ones : Tie.ofPkg "vm" Gen.Inventory.decls = Tie.ofPkg "vm" Tables.inventory := Tie.inventoryVm
/-- ast/ -/
theorem declarations_of_Ast_are_the_audited_ones : Tie.ofPkg "ast" Gen.Inventory.decls = Tie.ofPkg "ast" Tables.inventory := Tie.inventoryAst

end Anko.C05
