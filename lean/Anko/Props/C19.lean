/-
C19 — Core builtins and bundled package tables agree with their Go counterparts.

* `range`: theorems over the loop model (Anko.Model.Builtins.rangeLoop, mirrored from
  core/core.go) for ALL int64 start/stop/step: it terminates, yields the arithmetic
  progression from start, every element strictly before stop, maximal, never wraps.
* package tables: `Anko.Gen.packageEntries` is REGENERATED from packages/*.go on every run;
  every entry binds the Go symbol whose name it is listed under, from the package it is
  offered in (two audited exceptions).
* conversions: laws of toInt / toFloat / toString / toBool / typeOf / kindOf on the universe.
-/
import Anko.Model.Builtins
import Anko.Gen.Packages
import Anko.Gen.CoreFlow
import Anko.Props.CoreFlowTable
import Anko.Props.Tie.CoreFlow
import Anko.Props.Tie.ToXFlow
import Anko.Props.Tie.ContFlow
import Anko.Props.Tie.Inventory

namespace Anko.C19
open Anko

theorem wrap64_id (x : Int) (h1 : minI64 ≤ x) (h2 : x ≤ maxI64) : wrap64 x = x := by
  unfold wrap64 minI64 maxI64 at *
  omega

/-- Ascending `range`: with fuel exceeding the distance to `stop`, the loop yields the
progression `i, i+step, ...`, every element in `[i, stop)`, it is empty exactly when `i` is
not below `stop`, the element after the last would reach `stop` (maximal), and more fuel
changes nothing (termination). All arithmetic stays inside int64. -/
theorem rangeLoop_pos (stop step : Int) (hs : 0 < step) (hstop : stop ≤ maxI64) (hstep : step ≤ maxI64) :
    ∀ (n : Nat) (i : Int), minI64 ≤ i → i ≤ maxI64 → stop - i < n →
      IsProgression i step (rangeLoop n i stop step) ∧
      (∀ x ∈ rangeLoop n i stop step, i ≤ x ∧ x < stop) ∧
      (rangeLoop n i stop step = [] ↔ ¬ i < stop) ∧
      (∀ x, (rangeLoop n i stop step).getLast? = some x → stop ≤ x + step) ∧
      rangeLoop (n + 1) i stop step = rangeLoop n i stop step := by
  intro n
  induction n with
  | zero =>
    intro i _ _ h
    have hi : ¬ i < stop := by omega
    have hc : ¬ ((0 < step ∧ i < stop) ∨ (step < 0 ∧ stop < i)) := by omega
    simp [rangeLoop, IsProgression, hi]
    all_goals (intros; omega)
  | succ n ih =>
    intro i hi1 hi2 h
    by_cases hlt : i < stop
    · have hc : (0 < step ∧ i < stop) ∨ (step < 0 ∧ stop < i) := Or.inl ⟨hs, hlt⟩
      by_cases hov : (0 < step ∧ maxI64 - step < i) ∨ (step < 0 ∧ i < minI64 - step)
      · -- the next addition would overflow: stop here; then i + step > maxI64 ≥ stop
        have hr : ∀ m, rangeLoop (m + 1) i stop step = [i] := by
          intro m; simp [rangeLoop, hc, hov]
        rw [hr (n + 1), hr n]
        refine ⟨by simp [IsProgression], ?_, by simp [hlt], ?_, rfl⟩
        · intro x hx; simp at hx; subst hx; exact ⟨Int.le_refl _, hlt⟩
        · intro x hx; simp at hx; subst hx; omega
      · have hnext1 : minI64 ≤ i + step := by unfold minI64 at *; omega
        have hnext2 : i + step ≤ maxI64 := by omega
        have hw : wrap64 (i + step) = i + step := wrap64_id _ hnext1 hnext2
        have hr : ∀ m, rangeLoop (m + 1) i stop step = i :: rangeLoop m (i + step) stop step := by
          intro m; simp [rangeLoop, hc, hov, hw]
        have ihn := ih (i + step) hnext1 hnext2 (by omega)
        rw [hr (n + 1), hr n, ihn.2.2.2.2]
        refine ⟨⟨rfl, ihn.1⟩, ?_, by simp [hlt], ?_, rfl⟩
        · intro x hx
          rcases List.mem_cons.mp hx with rfl | hx
          · exact ⟨Int.le_refl _, hlt⟩
          · have := ihn.2.1 x hx; omega
        · intro x hx
          cases hl : rangeLoop n (i + step) stop step with
          | nil =>
            rw [hl] at hx; simp at hx; subst hx
            have := ihn.2.2.1.mp hl; omega
          | cons y ys =>
            rw [hl] at hx
            rw [List.getLast?_cons_cons] at hx
            exact ihn.2.2.2.1 x (by rw [hl]; exact hx)
    · have hc : ¬ ((0 < step ∧ i < stop) ∨ (step < 0 ∧ stop < i)) := by omega
      have hr : ∀ m, rangeLoop (m + 1) i stop step = [] := by
        intro m; simp [rangeLoop, hc]
      rw [hr (n + 1), hr n]
      simp [IsProgression, hlt]

/-- Descending `range` (negative step): mirror image. -/
theorem rangeLoop_neg (stop step : Int) (hs : step < 0) (hstop : minI64 ≤ stop) (hstep : minI64 ≤ step) :
    ∀ (n : Nat) (i : Int), minI64 ≤ i → i ≤ maxI64 → i - stop < n →
      IsProgression i step (rangeLoop n i stop step) ∧
      (∀ x ∈ rangeLoop n i stop step, x ≤ i ∧ stop < x) ∧
      (rangeLoop n i stop step = [] ↔ ¬ stop < i) ∧
      (∀ x, (rangeLoop n i stop step).getLast? = some x → x + step ≤ stop) ∧
      rangeLoop (n + 1) i stop step = rangeLoop n i stop step := by
  intro n
  induction n with
  | zero =>
    intro i _ _ h
    have hi : ¬ stop < i := by omega
    have hc : ¬ ((0 < step ∧ i < stop) ∨ (step < 0 ∧ stop < i)) := by omega
    simp [rangeLoop, IsProgression, hi]
    all_goals (intros; omega)
  | succ n ih =>
    intro i hi1 hi2 h
    by_cases hlt : stop < i
    · have hc : (0 < step ∧ i < stop) ∨ (step < 0 ∧ stop < i) := Or.inr ⟨hs, hlt⟩
      by_cases hov : (0 < step ∧ maxI64 - step < i) ∨ (step < 0 ∧ i < minI64 - step)
      · have hr : ∀ m, rangeLoop (m + 1) i stop step = [i] := by
          intro m; simp [rangeLoop, hc, hov]
        rw [hr (n + 1), hr n]
        refine ⟨by simp [IsProgression], ?_, by simp [hlt], ?_, rfl⟩
        · intro x hx; simp at hx; subst hx; exact ⟨Int.le_refl _, hlt⟩
        · intro x hx; simp at hx; subst hx; omega
      · have hnext1 : minI64 ≤ i + step := by omega
        have hnext2 : i + step ≤ maxI64 := by unfold maxI64 at *; omega
        have hw : wrap64 (i + step) = i + step := wrap64_id _ hnext1 hnext2
        have hr : ∀ m, rangeLoop (m + 1) i stop step = i :: rangeLoop m (i + step) stop step := by
          intro m; simp [rangeLoop, hc, hov, hw]
        have ihn := ih (i + step) hnext1 hnext2 (by omega)
        rw [hr (n + 1), hr n, ihn.2.2.2.2]
        refine ⟨⟨rfl, ihn.1⟩, ?_, by simp [hlt], ?_, rfl⟩
        · intro x hx
          rcases List.mem_cons.mp hx with rfl | hx
          · exact ⟨Int.le_refl _, hlt⟩
          · have := ihn.2.1 x hx; omega
        · intro x hx
          cases hl : rangeLoop n (i + step) stop step with
          | nil =>
            rw [hl] at hx; simp at hx; subst hx
            have := ihn.2.2.1.mp hl; omega
          | cons y ys =>
            rw [hl] at hx
            rw [List.getLast?_cons_cons] at hx
            exact ihn.2.2.2.1 x (by rw [hl]; exact hx)
    · have hc : ¬ ((0 < step ∧ i < stop) ∨ (step < 0 ∧ stop < i)) := by omega
      have hr : ∀ m, rangeLoop (m + 1) i stop step = [] := by
        intro m; simp [rangeLoop, hc]
      rw [hr (n + 1), hr n]
      simp [IsProgression, hlt]

/-- The fuel `range` runs with is always enough. -/
theorem rangeFuel_enough (start stop : Int) :
    stop - start < rangeFuel start stop ∧ start - stop < rangeFuel start stop := by
  unfold rangeFuel; omega

/-- A step pointing away from `stop` (or start already at/after stop) gives the empty list. -/
theorem range_empty_when_step_points_away (n : Nat) (start stop step : Int)
    (h : (0 < step ∧ stop ≤ start) ∨ (step < 0 ∧ start ≤ stop)) :
    rangeLoop n start stop step = [] := by
  cases n with
  | zero => rfl
  | succ n =>
    have hc : ¬ ((0 < step ∧ start < stop) ∨ (step < 0 ∧ stop < start)) := by omega
    simp [rangeLoop, hc]

/-- zero step and wrong argument counts are errors -/
theorem range_zero_step (a b : Int) :
    rangeBuiltin [a, b, 0] = .error "range argument 3 must not be zero" := by
  simp [rangeBuiltin]

theorem range_no_args : rangeBuiltin [] = .error "range expected at least 1 argument, got 0" := rfl

theorem range_too_many (a b c d : Int) (rest : List Int) :
    ∃ m, rangeBuiltin (a :: b :: c :: d :: rest) = .error m := ⟨_, rfl⟩

/-! ### package tables (REGENERATED) -/

/-- entries that are deliberately not `pkg.Key`: os.Signal (taken from a typed variable) and the
helper type SortFuncsStruct defined in packages/ itself -/
def allowedExceptions : List Gen.PkgEntry :=
  [⟨true, "os", "Signal", "", "signal"⟩, ⟨true, "sort", "SortFuncsStruct", "", "SortFuncsStruct"⟩]

def entryOk (e : Gen.PkgEntry) : Bool :=
  (e.key == e.sel && e.importPath == e.pkg) || allowedExceptions.contains e

/-- Every function and type offered to `import` is the Go symbol whose name it is listed
under, taken from the Go package it is offered in. -/
theorem packages_named_correctly : Gen.packageEntries.all entryOk = true := by decide +kernel

theorem packages_nonempty : 500 ≤ Gen.packageEntries.length := by decide +kernel

/-- type entries that are deliberately registered as POINTERS to the named type: the sync types (their values must
not be copied) and the helper type of packages/ itself -/
def pointerRegistered : List (String × String) :=
  [("sort", "SortFuncsStruct"), ("sync", "Cond"), ("sync", "Map"), ("sync", "Mutex"), ("sync", "Once"), ("sync", "Pool"),
   ("sync", "RWMutex"), ("sync", "WaitGroup")]

/-- Every type offered to scripts is the named Go type itself - not a pointer to it, not what it points to - with
the audited exceptions above, which are exactly one pointer away. -/
theorem package_types_have_the_listed_indirection :
    Gen.packageTypeDepths.all (fun e => if pointerRegistered.contains (e.1, e.2.1) then e.2.2 == 1 else e.2.2 == 0) = true := by
  decide +kernel

theorem package_types_nonempty : 20 ≤ Gen.packageTypeDepths.length := by decide +kernel

/-! ### keys / conversions -/

theorem keys_every_key_once (kvs : List (Val × Val)) : keysB (.map kvs) = some (kvs.map (·.1)) := rfl

variable [FOps]

theorem toInt_int (i : I64) : toIntB (.int i) = some i := rfl
theorem toInt_nil : toIntB .nil = some 0 := rfl
theorem toInt_list (xs : List Val) : toIntB (.list xs) = some 0 := rfl
theorem toInt_map (kvs : List (Val × Val)) : toIntB (.map kvs) = some 0 := rfl
theorem toInt_decimal_string (s : Bytes) (i : I64) (h : parseDec s = some i) : toIntB (.str s) = some i := by
  simp [toIntB, h]
theorem toInt_nonnumeric_string (s : Bytes) (h1 : parseDec s = none) (h2 : FOps.parse s = some none) :
    toIntB (.str s) = some 0 := by simp [toIntB, h1, h2]
theorem toFloat_int (i : I64) : toFloatB (.int i) = some (FOps.ofInt i) := rfl
theorem toFloat_float (f : I64) : toFloatB (.float f) = some f := rfl
theorem toFloat_nil : toFloatB .nil = some fzero := rfl
theorem toFloat_list (xs : List Val) : toFloatB (.list xs) = some fzero := rfl
theorem toFloat_nonnumeric_string (s : Bytes) (h : FOps.parse s = some none) : toFloatB (.str s) = some fzero := by
  simp [toFloatB, h]
theorem toString_is_sprint (v : Val) : toStringB v = sprint v := rfl
omit [FOps] in
theorem typeOf_int (i : I64) : typeOfV (.int i) = some "int64" := rfl
omit [FOps] in
theorem kindOf_list (xs : List Val) : kindOfV (.list xs) = some "slice" := rfl

/-! ### Non-vacuity -/
def okList (r : Except String (List Int)) : List Int := match r with | .ok l => l | .error _ => [-1]
example : okList (rangeBuiltin [9223372036854775806, 9223372036854775807, 2]) = [9223372036854775806] := by decide
example : okList (rangeBuiltin [5, 0, -2]) = [5, 3, 1] := by decide
example : okList (rangeBuiltin [3]) = [0, 1, 2] := by decide

/-! ### The builtins in the source (regenerated: Gen/CoreFlow)

Every leaf statement of core.Import (keys, range, typeOf, kindOf, defined, load, print / println / printf, close) and core.ImportToX (toString, toInt,
toFloat, toBool, toChar, toRune and the slice forms), the bodies of the registered function literals included, is the one written down in
Props/CoreFlowTable next to Model/Builtins. Any edit of these functions - also a harmless one - breaks this obligation by name; the check then
searches model and implementation for a failing input (DESIGN.md 13.3). -/
theorem builtins_are_the_modelled_ones : Gen.CoreFlow.leaves = Tables.coreFlow := Tie.coreFlow

/-! ### Shared source ties

The code this property is anchored in is also written down, leaf statement by leaf statement, by the tables below (each decided once in
Props/Tie, `decide +kernel`, against the table regenerated from /repo on this run). A change of that code breaks the tie by name here too, and the check of
this property then searches for a failing input - so a change that breaks this property through code whose primary table belongs to another
property is not overlooked. -/
/-- the conversions of the numeric tower (vmToX.go) and kind helpers -/
theorem source_tie_ToXFlow : Gen.ToXFlow.leaves = Tables.toXFlow := Tie.toXFlow
/-- the container paths (index, slice, len, member, make, assignment targets, delete) -/
theorem source_tie_ContFlow : Gen.ContFlow.leaves = Tables.contFlow := Tie.contFlow


/-! ### Declaration inventory

Nothing was added to the packages this property is anchored in: their top-level declarations (functions, methods, variables, constants, types with
the fields of struct types), regenerated from /repo on this run, are the audited ones (Props/Tie/Inventory). A helper, a package-level table or a
file added there - code no flow table can pin - breaks the tie by name and makes this property's check search for a failing input. -/
/-- core/ -/
theorem declarations_of_Core_are_the_audited_ones : Tie.ofPkg "core" Gen.Inventory.decls = Tie.ofPkg "core" Tables.inventory := Tie.inventoryCore
/-- vm/ -/
theorem declarations_of_Vm_are_the_audited_ones : Tie.ofPkg "vm" Gen.Inventory.decls = Tie.ofPkg "vm" Tables.inventory := Tie.inventoryVm
/-- packages/ (which files exist, what they declare besides init) -/
theorem declarations_of_Packages_are_the_audited_ones : Tie.ofPkg "packages" Gen.Inventory.decls = Tie.ofPkg "packages" Tables.inventory := Tie.inventoryPackages

end Anko.C19
