/-
C01 — A script can never crash the embedding Go program.

What a proof can carry here, and what it cannot:
* the panics of Go's reflect operations are specified below (`Raw.*`: when the raw operation
  panics); the theorems state that whenever the interpreter's guards (mirrored in the container,
  conversion and call models) let an operation through, the raw operation's precondition holds -
  so the guarded operation does not panic, for every operand value;
* operations that can panic whatever the guards (calling a function value, closing a channel,
  sending, building types and allocating with script-chosen arguments) are listed by the
  extractor from vm/*.go on every run together with how the panic is contained; the obligation
  `every_panicky_op_is_contained` is re-decided by the kernel over that list, as is
  `goroutines_recover` (every `go` statement is goRun's, whose goroutine recovers);
* that there is no OTHER panicking operation in the interpreter is not provable from a model: it is
  searched by the `nopanic` stream (whole-grammar programs, mutations, degenerate forms in a child
  process, Debug=false).
Memory / stack exhaustion is outside the property.
-/
import Anko.Model.Cont
import Anko.Model.Eval
import Anko.Gen.Recover
import Anko.Gen.RunFlow
import Anko.Props.RunFlowTable
import Anko.Props.Tie.RunFlow
import Anko.Props.Tie.ExprFlow
import Anko.Props.Tie.ContFlow
import Anko.Props.Tie.ProvFlow
import Anko.Props.Tie.ConvFlow
import Anko.Props.Tie.BindFlow
import Anko.Props.Tie.ToXFlow
import Anko.Props.Tie.ChanFlow
import Anko.Props.Tie.SingleStmtFlow
import Anko.Props.Tie.ImportFlow
import Anko.Props.Tie.CallFlow
import Anko.Props.Tie.StmtFlow
import Anko.Props.Tie.LexFlow
import Anko.Props.Tie.EnvFlow
import Anko.Props.Tie.Inventory

namespace Anko.C01
open Anko.Cont

/-! ### Go's raw operations: when they panic -/
namespace Raw
/-- reflect.Value.Index -/
def indexOK (len : Nat) (i : Int) : Bool := 0 ≤ i && i < len
/-- reflect.Value.Slice3 / Slice on a slice of length `len` and capacity `cap` -/
def slice3OK (cap : Nat) (b e c : Int) : Bool := 0 ≤ b && b ≤ e && e ≤ c && c ≤ cap
/-- reflect.Value.SetMapIndex / MapIndex with an interface-typed key: panics on unhashable dynamic types -/
def mapKeyOK (k : V) : Bool := match k with | .slice _ => false | .map _ => false | _ => true
/-- reflect.MakeSlice -/
def makeSliceOK (len cap : Int) : Bool := 0 ≤ len && len ≤ cap
/-- reflect.Value.Call: the argument count must fit the signature -/
def callOK (variadic : Bool) (numIn nArgs : Nat) : Bool := if variadic then numIn ≤ nArgs + 1 else numIn = nArgs
end Raw

/-! ### the interpreter's guards imply the raw preconditions -/

/-- index read / write: after `tryToInt` and the range check, Index(i) is legal -/
theorem index_guard (s : Slice) (idx : V) (i : Int) (_h1 : tryToInt idx = some i) (h2 : ¬ (i < 0 ∨ i ≥ s.len)) :
    Raw.indexOK s.len i = true := by
  simp only [Raw.indexOK, Bool.and_eq_true, decide_eq_true_eq]; omega

/-- slice expressions: bounds accepted by the interpreter are bounds Go accepts -/
theorem slice_guard (len cap : Nat) (hlc : len ≤ cap) (b e c : Option V) (bi ei ci : Nat)
    (h : sliceBounds len cap false b e c = .ok bi ei ci) : Raw.slice3OK cap bi ei ci = true := by
  unfold sliceBounds at h
  simp only at h
  split at h
  · cases h
  · next bI hb =>
    split at h
    · cases h
    · next eI he =>
      have hb0 : 0 ≤ bI := by
        cases b with
        | none => simp at hb; omega
        | some v =>
          simp only at hb
          split at hb
          · cases hb
          · split at hb
            · cases hb
            · simp at hb; omega
      have hel : eI ≤ len := by
        cases e with
        | none => simp at he; omega
        | some v =>
          simp only at he
          split at he
          · cases he
          · split at he
            · cases he
            · simp at he; omega
      split at h
      · cases h
      · next hbe =>
        simp only [Bool.false_eq_true, if_false] at h
        cases c with
        | none =>
          simp only [Bounds.ok.injEq] at h
          obtain ⟨rfl, rfl, rfl⟩ := h
          simp only [Raw.slice3OK, Bool.and_eq_true, decide_eq_true_eq]; omega
        | some v =>
          simp only at h
          split at h
          · cases h
          · next cI _ =>
            split at h
            · cases h
            · next hc =>
              simp only [Bounds.ok.injEq] at h
              obtain ⟨rfl, rfl, rfl⟩ := h
              simp only [Raw.slice3OK, Bool.and_eq_true, decide_eq_true_eq]; omega

/-- map stores and deletes: the hashability check is Go's -/
theorem map_key_guard (k : V) (h : isHashable k = true) : Raw.mapKeyOK k = true := by
  cases k <;> simp_all [isHashable, Raw.mapKeyOK]

/-- make([]T, len, cap): the three sign / order checks of invokeMakeExpr are MakeSlice's precondition
(sizes the runtime refuses are recovered, see `every_panicky_op_is_contained`) -/
theorem make_slice_guard (len cap : Int) (h1 : ¬ len < 0) (_h2 : ¬ cap < 0) (h3 : ¬ len > cap) :
    Raw.makeSliceOK len cap = true := by
  simp only [Raw.makeSliceOK, Bool.and_eq_true, decide_eq_true_eq]; omega

/-- calls: when makeCallArgs' arity check passes for a plain call, the argument list it builds has a
length reflect.Value.Call accepts (fixed: exactly numIn; variadic: at least numIn - 1) -/
theorem call_arity_guard (variadic : Bool) (numIn nArgs : Nat) (h : arityBad variadic false numIn nArgs = false) :
    Raw.callOK variadic numIn nArgs = true := by
  cases variadic <;> simp_all [arityBad, Raw.callOK] <;> omega

/-! ### operations no guard can make safe: containment, from facts regenerated on every run -/

/-- Every call of a function value, channel close, type construction and sized allocation in
vm/*.go happens under a deferred recover (outside Debug mode), on goRun's recovering goroutine, or
inside the func-type adapter (entered only through such a call). -/
theorem every_panicky_op_is_contained :
    Gen.Recover.panickyOps.all (fun o => o.2.2 != "none") = true ∧ 8 ≤ Gen.Recover.panickyOps.length := by decide

/-- Script goroutines: the only `go` statements of the interpreter are goRun's, and the goroutine
it starts outside Debug mode recovers - a panic there ends that goroutine only. -/
theorem goroutines_recover :
    Gen.Recover.goStatements.all (· == "goRun") = true ∧ Gen.Recover.goStatements ≠ [] ∧ Gen.Recover.goRunRecovers = true := by decide

/-! ### Non-vacuity -/
example : sliceBounds 3 5 false (some (.int 1)) (some (.int 2)) (some (.int 4)) = .ok 1 2 4 := by decide
example : Raw.slice3OK 5 1 2 6 = false := by decide
example : arityBad true false 2 1 = false ∧ Raw.callOK true 2 1 = true := by decide

/-! ### The entry points, recoverFunc and the construction of types and values in the source (regenerated: Gen/RunFlow)

Every leaf statement of Execute / ExecuteContext / Run / RunContext (parse error returned, the run under the context, deferred calls of the top level,
the sentinel errors mapped at the end), recoverFunc, makeType / getTypeFromEnv / makeValue and `make(type ...)`, with the conditions it stands
under, is the one written down in Props/RunFlowTable - the code the containment facts of Gen/Recover and the guard theorems above were audited against. Any edit of these functions - also a harmless one - breaks this obligation by name; the check then
searches model and implementation for a failing input (DESIGN.md 13.3). -/
theorem entry_points_and_type_construction_are_the_audited_ones : Gen.RunFlow.leaves = Tables.runFlow := Tie.runFlow

/-! ### Shared source ties

The code this property is anchored in is also written down, leaf statement by leaf statement, by the tables below (each decided once in
Props/Tie, `decide +kernel`, against the table regenerated from /repo on this run). A change of that code breaks the tie by name here too, and the check of
this property then searches for a failing input - so a change that breaks this property through code whose primary table belongs to another
property is not overlooked. -/
/-- the expression dispatcher and multi-operand forms (vmExpr.go) -/
theorem source_tie_ExprFlow : Gen.ExprFlow.leaves = Tables.exprFlow := Tie.exprFlow
/-- the container paths (index, slice, len, member, make, assignment targets, delete) -/
theorem source_tie_ContFlow : Gen.ContFlow.leaves = Tables.contFlow := Tie.contFlow
/-- unary operators, dereference, address-of, unalias, containerOperand, isNil -/
theorem source_tie_ProvFlow : Gen.ProvFlow.leaves = Tables.provFlow := Tie.provFlow
/-- the conversion at the Go boundary (vmConvertToX.go) -/
theorem source_tie_ConvFlow : Gen.ConvFlow.leaves = Tables.convFlow := Tie.convFlow
/-- function literals, module, var and assignment statements -/
theorem source_tie_BindFlow : Gen.BindFlow.leaves = Tables.bindFlow := Tie.bindFlow
/-- the conversions of the numeric tower (vmToX.go) and kind helpers -/
theorem source_tie_ToXFlow : Gen.ToXFlow.leaves = Tables.toXFlow := Tie.toXFlow
/-- the channel forms -/
theorem source_tie_ChanFlow : Gen.ChanFlow.leaves = Tables.chanFlow := Tie.chanFlow
/-- the statement dispatcher, return, defer, deferred calls -/
theorem source_tie_SingleStmtFlow : Gen.SingleStmtFlow.leaves = Tables.singleStmtFlow := Tie.singleStmtFlow
/-- import(...) -/
theorem source_tie_ImportFlow : Gen.ImportFlow.leaves = Tables.importFlow := Tie.importFlow
/-- the call machinery (vmExprFunction.go) -/
theorem source_tie_CallFlow : Gen.CallFlow.leaves = Tables.callFlow := Tie.callFlow
/-- the branch, loop, try and defer functions (vmStmt.go) -/
theorem source_tie_StmtFlow : Gen.StmtFlow.leaves = Tables.stmtFlow := Tie.stmtFlow
/-- the scanner and the parser's entry points (lexer.go) -/
theorem source_tie_LexFlow : Gen.LexFlow.leaves = Tables.lexFlow := Tie.lexFlow
/-- the environment API (env/*.go) -/
theorem source_tie_EnvFlow : Gen.EnvFlow.leaves = Tables.envFlow := Tie.envFlow


/-! ### Declaration inventory

Nothing was added to the packages this property is anchored in: their top-level declarations (functions, methods, variables, constants, types with
the fields of struct types), regenerated from /repo on this run, are the audited ones (Props/Tie/Inventory). A helper, a package-level table or a
file added there - code no flow table can pin - breaks the tie by name and makes this property's check search for a failing input. -/
/-- vm/ -/
theorem declarations_of_Vm_are_the_audited_ones : Tie.ofPkg "vm" Gen.Inventory.decls = Tie.ofPkg "vm" Tables.inventory := Tie.inventoryVm
/-- env/ -/
theorem declarations_of_Env_are_the_audited_ones : Tie.ofPkg "env" Gen.Inventory.decls = Tie.ofPkg "env" Tables.inventory := Tie.inventoryEnv
/-- parser/ (lexer.go; parser.go is goyacc's output of the pinned grammar) -/
theorem declarations_of_Parser_are_the_audited_ones : Tie.ofPkg "parser" Gen.Inventory.decls = Tie.ofPkg "parser" Tables.inventory := Tie.inventoryParser
/-- ast/ -/
theorem declarations_of_Ast_are_the_audited_ones : Tie.ofPkg "ast" Gen.Inventory.decls = Tie.ofPkg "ast" Tables.inventory := Tie.inventoryAst
/-- core/ -/
theorem declarations_of_Core_are_the_audited_ones : Tie.ofPkg "core" Gen.Inventory.decls = Tie.ofPkg "core" Tables.inventory := Tie.inventoryCore

end Anko.C01
