/-
The functions of the source that Gen/ProvFlow writes down, leaf statement by leaf statement, as they were read against the model when this
table was last audited. Kept by hand next to the model; compared on every run with the table regenerated from the source (Gen).
-/
namespace Anko.Tables

def provFlow : List (String × String) := [
  ("invokeUnaryExpr", "ri.expr = expr.Expr"),
  ("invokeUnaryExpr", "ri.invokeExpr()"),
  ("invokeUnaryExpr", "E != nil => return"),
  ("invokeUnaryExpr", "R.Kind() == Interface && !R.IsNil() => R = R.Elem()"),
  ("invokeUnaryExpr", "expr.Operator in {\"-\"} && R.Kind() in {Int64} => R = int64Value(-R.Int())"),
  ("invokeUnaryExpr", "expr.Operator in {\"-\"} && R.Kind() in {Int32, Int16, Int8, Int, Bool} => R = int64Value(-toInt64(R))"),
  ("invokeUnaryExpr", "expr.Operator in {\"-\"} && R.Kind() in {Float64} => R = float64Value(-R.Float())"),
  ("invokeUnaryExpr", "expr.Operator in {\"-\"} && R.Kind() default => R = float64Value(-toFloat64(R))"),
  ("invokeUnaryExpr", "expr.Operator in {\"^\"} => R = int64Value(^toInt64(R))"),
  ("invokeUnaryExpr", "expr.Operator in {\"!\"} && toBool(R) => R = falseValue"),
  ("invokeUnaryExpr", "expr.Operator in {\"!\"} && !(toBool(R)) => R = trueValue"),
  ("invokeUnaryExpr", "expr.Operator default => E = newStringError(expr, \"unknown operator\")"),
  ("invokeUnaryExpr", "expr.Operator default => R = nilValue"),
  ("invokeDerefExpr", "ri.expr = expr.Expr"),
  ("invokeDerefExpr", "ri.invokeExpr()"),
  ("invokeDerefExpr", "E != nil => return"),
  ("invokeDerefExpr", "R.Kind() == Interface && !R.IsNil() => R = R.Elem()"),
  ("invokeDerefExpr", "R.Kind() != Ptr => E = newStringError(expr.Expr, \"cannot deference non-pointer\")"),
  ("invokeDerefExpr", "R.Kind() != Ptr => R = nilValue"),
  ("invokeDerefExpr", "R.Kind() != Ptr => return"),
  ("invokeDerefExpr", "R.IsNil() => E = newStringError(expr.Expr, \"cannot deference nil pointer\")"),
  ("invokeDerefExpr", "R.IsNil() => R = nilValue"),
  ("invokeDerefExpr", "R.IsNil() => return"),
  ("invokeDerefExpr", "R = R.Elem()"),
  ("invokeAddrExpr", "ri.expr = expr.Expr"),
  ("invokeAddrExpr", "ri.invokeExpr()"),
  ("invokeAddrExpr", "E != nil => return"),
  ("invokeAddrExpr", "operand := expr.Expr"),
  ("invokeAddrExpr", "for => paren, ok := operand.(*ast.ParenExpr)"),
  ("invokeAddrExpr", "for && !ok => break"),
  ("invokeAddrExpr", "for => operand = paren.SubExpr"),
  ("invokeAddrExpr", "_, isVariable := operand.(*ast.IdentExpr)"),
  ("invokeAddrExpr", "operand.(type) in {*ast.TernaryOpExpr, *ast.NilCoalescingOpExpr} => isVariable = true"),
  ("invokeAddrExpr", "!isVariable && R.CanAddr() && !(R.Kind() == Interface && R.IsNil()) => R = R.Addr()"),
  ("invokeAddrExpr", "!(!isVariable && R.CanAddr() && !(R.Kind() == Interface && R.IsNil())) => i := R.Interface()"),
  ("invokeAddrExpr", "!(!isVariable && R.CanAddr() && !(R.Kind() == Interface && R.IsNil())) => R = ValueOf(&i)"),
  ("unalias", "!v.IsValid() || !v.CanAddr() => return v"),
  ("unalias", "c := New(v.Type()).Elem()"),
  ("unalias", "c.Set(v)"),
  ("unalias", "return c"),
  ("containerOperand", "v.Kind() == Interface && !v.IsNil() => v = v.Elem()"),
  ("containerOperand", "v.Kind() in {Slice, Map, String, Chan} => return unalias(v)"),
  ("containerOperand", "return v"),
  ("isNil", "v.Kind() in {Chan, Func, Interface, Map, Ptr, Slice} => return v.IsNil()"),
  ("isNil", "v.Kind() default => return false")
]

end Anko.Tables
