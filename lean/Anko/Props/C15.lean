/-
C15 — Parsing is total, position-accurate and compositional.

Theorems over the scanner model (Anko.Model.Scanner, mirrored function by function from
parser/lexer.go: Scan, next/back/peek/pos, skipBlank, scanIdentifier, scanNumber, scanString,
scanRawString and the comment loops).  The grammar (goyacc tables) is not modelled: the parser's
part of the property is decided by the correspondence stream only.
-/
import Anko.Proofs.Scanner
import Anko.Proofs.ScanConcat
import Anko.Gen.ParserGen
import Anko.Proofs.ScanTables
import Anko.Gen.LexFlow
import Anko.Props.LexFlowTable
import Anko.Props.Tie.LexFlow
import Anko.Props.Tie.Grammar
import Anko.Props.Tie.Inventory

namespace Anko.C15
open Anko.Scan

/-- Every scanning loop stops: with the fuel the driver gives it (text length + 2) no call of Scan
runs out of fuel, for any text — the loops of lexer.go advance on every iteration, including the
`back()`-and-retry loop of block comments. -/
theorem scan_terminates (s : S) (hi : Inv s) (p : Pos) : scan (s.src.size + 2) s ≠ .error (.fuel, p) := by
  have h := scan_post (s.src.size + 2) s hi (by unfold rem; omega)
  intro he
  rw [he] at h
  exact h.1 rfl

/-- One call of Scan: the cursor stays inside the text with consistent line bookkeeping, every
token but EOF consumes input, and the position handed to the parser — for a token or an error —
is a position of the text: its line is one of the text's lines and its column at most one past
the end of that line. -/
theorem scan_step (s : S) (hi : Inv s) :
    match scan (s.src.size + 2) s with
    | .ok (t, s') => Inv s' ∧ s'.src = s.src ∧ (t.tok ≠ .eof → s.offset < s'.offset) ∧ PosOK s.src t.pos
    | .error (e, p) => e ≠ .fuel ∧ PosOK s.src p := by
  have h := scan_post (s.src.size + 2) s hi (by unfold rem; omega)
  unfold ScanPost at h
  split <;> simp_all
  exact ⟨h.1.inv, h.1.src⟩

theorem lexAll_spec : ∀ (n : Nat) (s : S) (acc : List Token), Inv s → rem s < n →
    (∀ t ∈ acc, PosOK s.src t.pos) →
    (∀ t ∈ (lexAll n s acc).1, PosOK s.src t.pos) ∧
    (∀ e p, (lexAll n s acc).2 = some (e, p) → e ≠ .fuel ∧ PosOK s.src p) ∧
    ((lexAll n s acc).2 = none → ∃ t, (lexAll n s acc).1.getLast? = some t ∧ t.tok = .eof)
  | 0, s, _, _, h, _ => absurd h (Nat.not_lt_zero _)
  | n + 1, s, acc, hi, hr, hacc => by
    have h := scan_post (s.src.size + 2) s hi (by unfold rem; omega)
    unfold lexAll
    generalize scan (s.src.size + 2) s = r at h ⊢
    cases r with
    | error ep =>
      obtain ⟨e, p⟩ := ep
      refine ⟨by simpa using hacc, ?_, by simp⟩
      intro e' p' heq
      simp only [Option.some.injEq, Prod.mk.injEq] at heq
      obtain ⟨rfl, rfl⟩ := heq
      exact h
    | ok ts =>
      obtain ⟨t, s1⟩ := ts
      obtain ⟨hf, hprog, hpos⟩ := h
      simp only
      split
      · next heof =>
        refine ⟨?_, by simp, ?_⟩
        · intro t' ht'
          simp only [List.reverse_cons, List.mem_append, List.mem_reverse, List.mem_singleton] at ht'
          rcases ht' with ht' | rfl
          · exact hacc _ ht'
          · exact hpos
        · intro _
          exact ⟨t, by simp, by simpa using heof⟩
      · next hne =>
        have hlt := hprog (by simpa using hne)
        have hrem : rem s1 < n := by
          have e := hf.src; have := hf.inv.le
          simp only [rem, e] at *; omega
        have ih := lexAll_spec n s1 (t :: acc) hf.inv hrem (by
          intro t' ht'
          rw [hf.src]
          simp only [List.mem_cons] at ht'
          rcases ht' with rfl | ht'
          · exact hpos
          · exact hacc _ ht')
        rw [hf.src] at ih
        exact ih

/-- The whole token stream of any text: the model never runs out of fuel (the real loops
terminate), every token position and the position of the first error lie inside the text, and a
run without error ends with the EOF token. -/
theorem lex_total_and_positions (src : String) :
    (∀ t ∈ (lex src).1, PosOK src.toList.toArray t.pos) ∧
    (∀ e p, (lex src).2 = some (e, p) → e ≠ .fuel ∧ PosOK src.toList.toArray p) ∧
    ((lex src).2 = none → ∃ t, (lex src).1.getLast? = some t ∧ t.tok = .eof) := by
  unfold lex
  exact lexAll_spec _ _ [] (inv_init _) (by simp [rem]) (by simp)

/-- A position inside the text, spelled out: the line is between 1 and the number of lines. -/
theorem position_line_in_range (src : Array Char) (p : Pos) (h : PosOK src p) :
    1 ≤ p.line ∧ p.line ≤ countNl src src.size + 1 := h.line_le

/-- ... and the column is at most one past the end of its line: there is a line start `h` with
`line - 1` newlines before it such that the `col - 1` runes from `h` on exist and contain no newline. -/
theorem position_column_in_range (src : Array Char) (p : Pos) (h : PosOK src p) :
    ∃ start, (start = 0 ∨ src[start - 1]? = some '\n') ∧ countNl src start + 1 = p.line ∧ 1 ≤ p.col ∧
      start + (p.col - 1) ≤ src.size ∧ ∀ i, start ≤ i → i < start + (p.col - 1) → src[i]? ≠ some '\n' := by
  obtain ⟨k, h1, h2, h3, h4, h5⟩ := h
  exact ⟨k, h1, h2.symm, h3, h4, h5⟩

/-- `back()` is only ever used to undo the `next()` just made from a rune that is not a newline;
there it restores the cursor AND the line bookkeeping exactly. -/
theorem back_undoes_next (s : S) (c : Char) (hp : s.peek = some c) (hc : c ≠ '\n') : s.next.back = s :=
  next_back hp hc

/-- Scanning has no memory: the token stream is a function of the text alone (the model has no
state outside the scanner value, which `lex` creates afresh). -/
theorem lex_deterministic (a b : String) (h : a = b) : lex a = lex b := by rw [h]

/-! ### compositionality of the token stream -/

/-- If two texts each scan without error, their concatenation with a newline scans to the tokens
of the first (its EOF replaced by the newline token, at the same position), followed by the
tokens of the second with every position shifted by the first text's line count - for all texts.
(The grammar's part of the statement - statement lists are appended - is decided by the
concatenation oracle of the `lex` stream.) -/
theorem lex_concat (A B : String) (hA : (lex A).2 = none) (hB : (lex B).2 = none) :
    ∃ (front : List Token) (p : Pos), (lex A).1 = front ++ [⟨.eof, p⟩] ∧
      lex (A ++ "\n" ++ B) = (front ++ [⟨.ch '\n', p⟩] ++ (lex B).1.map (shiftTok p.line), none) := by
  unfold lex at *
  simp only at hA hB ⊢
  generalize hAa : A.toList.toArray = Aa at hA ⊢
  generalize hBa : B.toList.toArray = Ba at hB ⊢
  have hsrc : (A ++ "\n" ++ B).toList.toArray = #[] ++ Aa ++ (#['\n'] ++ Ba) := by
    rw [← hAa, ← hBa]; simp
  rw [hsrc]
  have hsz : (#[] ++ Aa ++ (#['\n'] ++ Ba)).size + 2 = (Aa.size + 2) + (Ba.size + 1) := by simp; omega
  rw [hsz]
  -- the first text seen as a prefix
  have w0 : Win #[] (#['\n'] ++ Ba) 0 ⟨Aa, 0, 0, 0⟩ ⟨#[] ++ Aa ++ (#['\n'] ++ Ba), 0, 0, 0⟩ :=
    ⟨rfl, rfl, rfl, rfl, Nat.zero_le _⟩
  have hb0 : (#['\n'] ++ Ba)[0]? = some '\n' := by
    rw [Array.getElem?_append_left (by simp)]; rfl
  obtain ⟨front, s', t', hfront, w', hpk, hi', hsrc', hk⟩ :=
    win_lexAll_prefix hb0 (Aa.size + 2) ⟨Aa, 0, 0, 0⟩ _ w0 (inv_init Aa) hA
  refine ⟨front, s'.pos, hfront, ?_⟩
  rw [hk (Ba.size + 1)]
  have hsA : s'.src = Aa := hsrc'
  -- the end of the first text: the cursor of the outer scan stands on the newline
  have hoff : s'.offset = Aa.size := by
    have h1 := peek_none_ge hpk
    have h2 := hi'.le
    rw [hsA] at h1 h2; omega
  have htpk : t'.peek = some '\n' := by rw [w'.peek_none hpk]; exact hb0
  have htsrc : t'.src = (Aa ++ #['\n']) ++ Ba ++ #[] := by rw [w'.src, hsA]; simp
  have htoff : t'.offset = Aa.size := by rw [w'.off, hoff]; simp
  have htl := peek_some_lt htpk
  have hnext : t'.next = ⟨t'.src, t'.offset + 1, t'.offset + 1, t'.line + 1⟩ := by
    unfold S.next S.reachEOF
    have e : decide (t'.src.size ≤ t'.offset) = false := by simpa using htl
    simp [e, htpk]
  -- the second text seen through the window that starts after the newline
  have wB : Win (Aa ++ #['\n']) #[] s'.pos.line ⟨Ba, 0, 0, 0⟩ t'.next := by
    rw [hnext]
    refine ⟨htsrc, by simp [htoff], by simp [htoff], ?_, Nat.zero_le _⟩
    simp [S.pos, w'.line]
  have hemb := win_lexAll_embedded (Ba.size + 2) ⟨Ba, 0, 0, 0⟩ t'.next wB (inv_init Ba) hB
  -- enough fuel is left for the second text
  have hlen := lexAll_length (Aa.size + 2) ⟨Aa, 0, 0, 0⟩ (inv_init Aa) hA
  rw [hfront] at hlen
  simp only [List.length_append, List.length_cons, List.length_nil, rem] at hlen
  have hfuel : ∃ k, Aa.size + 2 + (Ba.size + 1) - (front.length + 1) = (Ba.size + 2) + k :=
    ⟨Aa.size + 2 + (Ba.size + 1) - (front.length + 1) - (Ba.size + 2), by simp at hlen; omega⟩
  obtain ⟨k, hk2⟩ := hfuel
  rw [hk2, lexAll_mono (Ba.size + 2) k t'.next [] (by rw [hemb]), hemb]

/-! ### Non-vacuity and sample evaluations -/
example : (lex "a /* x **/ + 1\n\"s\"").2 = none := by decide +kernel
example : (lex "x = 1 // c").2 = none ∧ (lex "y").2 = none ∧
    ((lex "x = 1 // c\ny").1.map (·.pos)) = [⟨1, 1⟩, ⟨1, 3⟩, ⟨1, 5⟩, ⟨1, 11⟩, ⟨2, 1⟩, ⟨2, 2⟩] := by decide +kernel
example : ((lex "a /* x **/ + 1\n\"s\"").1.map (·.pos)) = [⟨1, 1⟩, ⟨1, 12⟩, ⟨1, 14⟩, ⟨1, 15⟩, ⟨2, 1⟩, ⟨2, 4⟩] := by decide +kernel
example : (lex "x = \"abc").2 = some (.msg "unexpected EOF", ⟨1, 5⟩) := by decide +kernel
example : (lex "/* never closed").2 = some (.msg "unexpected EOF", ⟨1, 1⟩) := by decide +kernel


/-! ### the scanner model's tables are the ones parser/lexer.go declares (regenerated on every run) -/

/-- The keyword table of the model is `opName` of lexer.go (translated on every run). -/
theorem keywords_are_the_lexers : Scan.keywords = Gen.Lexer.keywords := Scan.keywords_eq

/-- The character classes of the model are the lexer's predicates - translated from the source expression by expression -
on EVERY character (and on end of input), not on samples; for letters on the ASCII range the model is stated for. -/
theorem character_classes_are_the_lexers (c : Char) :
    Scan.isDigit c = Gen.Lexer.isDigit c.toNat ∧ Scan.isHex c = Gen.Lexer.isHex c.toNat ∧
    Scan.isBinary c = Gen.Lexer.isBinary c.toNat ∧ Scan.isBlank c = Gen.Lexer.isBlank c.toNat ∧
    Scan.isLetter c = Gen.Lexer.isLetter Scan.asciiLetter c.toNat ∧
    Scan.isEOL (some c) = Gen.Lexer.isEOL c.toNat ∧ Scan.isEOL none = Gen.Lexer.isEOL (-1) :=
  ⟨Scan.isDigit_eq c, Scan.isHex_eq c, Scan.isBinary_eq c, Scan.isBlank_eq c, Scan.isLetter_eq c, Scan.isEOL_eq (some c), Scan.isEOL_eq none⟩

/-- The operator switch: the model tries, after each first character, exactly the second characters the lexer's switch
lists, with the lexer's spellings; the special cases and the single-character tokens are the lexer's as well. -/
theorem operator_switch_is_the_lexers :
    Scan.opTable = Gen.Lexer.twoCharOps.filter (fun e => !Gen.Lexer.specialFirstChars.contains e.1) ∧
    Gen.Lexer.specialFirstChars = ['#', '=', '/', '.'] ∧
    Gen.Lexer.twoCharOps.lookup '=' = some [('=', "==")] ∧ Gen.Lexer.twoCharOps.lookup '/' = some [('=', "/=")] ∧
    Gen.Lexer.singleCharTokens = ['\n', '(', ')', ':', ';', '%', '{', '}', '[', ']', ',', '^'] :=
  ⟨Scan.opTable_eq, Scan.special_cases_eq⟩

/-- ... and `scan` uses that table: on a first character of the table it is `twoChar` with the table's alternatives. -/
theorem scan_uses_the_operator_table (c : Char) (alts : List (Char × String)) (hm : (c, alts) ∈ Scan.opTable) (n : Nat)
    (s : Scan.S) (hp : s.peek = some c) :
    Scan.scan (n + 1) s = .ok (⟨(Scan.twoChar s c alts).1, s.pos⟩, (Scan.twoChar s c alts).2) :=
  Scan.scan_uses_opTable c alts hm n s hp
example : ('<', [('-', "<-"), ('=', "<="), ('<', "<<")]) ∈ Scan.opTable := by decide

/-- The parser that is compiled IS the one generated from the grammar file: re-running goyacc on
parser/parser.go.y reproduces the committed parser/parser.go byte for byte (regenerated on every
run), so facts read off the grammar are facts about the running parser. -/
theorem committed_parser_is_generated_from_grammar : Gen.ParserGen.committedParserIsGenerated = true := by decide

/-! ### The scanner in the source, function by function (regenerated: Gen/LexFlow)

Every leaf statement of every function of parser/lexer.go - Init, Scan (with its retry and comment loops), peek / next / back / skipBlank, scanIdentifier,
scanNumber, scanString, scanRawString, the Lexer adapter, Parse / ParseSrc, toNumber, stringToValue - with the conditions it stands under, is the
one written down in Props/LexFlowTable next to Model/Scanner, which mirrors these functions one by one (the tables of Gen/Lexer cover the keyword
map, the character classes and the operator switch; this covers the control flow around them). Any edit of these functions - also a harmless one - breaks this obligation by name; the check then
searches model and implementation for a failing input (DESIGN.md 13.3). -/
theorem scanner_functions_are_the_modelled_ones : Gen.LexFlow.leaves = Tables.lexFlow := Tie.lexFlow

/-! ### Shared source ties

The code this property is anchored in is also written down, leaf statement by leaf statement, by the tables below (each decided once in
Props/Tie, `decide +kernel`, against the table regenerated from /repo on this run). A change of that code breaks the tie by name here too, and the check of
this property then searches for a failing input - so a change that breaks this property through code whose primary table belongs to another
property is not overlooked. -/
/-- the productions and actions of parser.go.y -/
theorem source_tie_Grammar : Gen.Grammar.leaves = Tables.grammar := Tie.grammar


/-! ### Declaration inventory

Nothing was added to the packages this property is anchored in: their top-level declarations (functions, methods, variables, constants, types with
the fields of struct types), regenerated from /repo on this run, are the audited ones (Props/Tie/Inventory). A helper, a package-level table or a
file added there - code no flow table can pin - breaks the tie by name and makes this property's check search for a failing input. -/
/-- parser/ (lexer.go; parser.go is goyacc's output of the pinned grammar) -/
theorem declarations_of_Parser_are_the_audited_ones : Tie.ofPkg "parser" Gen.Inventory.decls = Tie.ofPkg "parser" Tables.inventory := Tie.inventoryParser
/-- ast/ -/
theorem declarations_of_Ast_are_the_audited_ones : Tie.ofPkg "ast" Gen.Inventory.decls = Tie.ofPkg "ast" Tables.inventory := Tie.inventoryAst

end Anko.C15
