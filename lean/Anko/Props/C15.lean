/-
C15 — Parsing is total, position-accurate and compositional.

Theorems over the scanner model (Anko.Model.Scanner, mirrored function by function from
parser/lexer.go: Scan, next/back/peek/pos, skipBlank, scanIdentifier, scanNumber, scanString,
scanRawString and the comment loops).  The grammar (goyacc tables) is not modelled: the parser's
part of the property is decided by the correspondence stream only.
-/
import Anko.Proofs.Scanner
import Anko.Gen.ParserGen

namespace Anko.C15
open Anko.Scan

/-- Every scanning loop stops: with the fuel the driver gives it (text length + 2) no call of Scan
runs out of fuel, for any text — the loops of lexer.go advance on every iteration, including the
`back()`-and-retry loop of block comments. -/
theorem scan_terminates (s : S) (hi : Inv s) (p : Pos) : scan (s.src.size + 2) s ≠ .error (.fuel, p) := by
  have h := scan_post (s.src.size + 2) s hi (by unfold rem; omega)
  intro he
  rw [he] at h
  exact h.1 rfl

/-- One call of Scan: the cursor stays inside the text with consistent line bookkeeping, every
token but EOF consumes input, and the position handed to the parser — for a token or an error —
is a position of the text: its line is one of the text's lines and its column at most one past
the end of that line. -/
theorem scan_step (s : S) (hi : Inv s) :
    match scan (s.src.size + 2) s with
    | .ok (t, s') => Inv s' ∧ s'.src = s.src ∧ (t.tok ≠ .eof → s.offset < s'.offset) ∧ PosOK s.src t.pos
    | .error (e, p) => e ≠ .fuel ∧ PosOK s.src p := by
  have h := scan_post (s.src.size + 2) s hi (by unfold rem; omega)
  unfold ScanPost at h
  split <;> simp_all
  exact ⟨h.1.inv, h.1.src⟩

theorem lexAll_spec : ∀ (n : Nat) (s : S) (acc : List Token), Inv s → rem s < n →
    (∀ t ∈ acc, PosOK s.src t.pos) →
    (∀ t ∈ (lexAll n s acc).1, PosOK s.src t.pos) ∧
    (∀ e p, (lexAll n s acc).2 = some (e, p) → e ≠ .fuel ∧ PosOK s.src p) ∧
    ((lexAll n s acc).2 = none → ∃ t, (lexAll n s acc).1.getLast? = some t ∧ t.tok = .eof)
  | 0, s, _, _, h, _ => absurd h (Nat.not_lt_zero _)
  | n + 1, s, acc, hi, hr, hacc => by
    have h := scan_post (s.src.size + 2) s hi (by unfold rem; omega)
    unfold lexAll
    generalize scan (s.src.size + 2) s = r at h ⊢
    cases r with
    | error ep =>
      obtain ⟨e, p⟩ := ep
      refine ⟨by simpa using hacc, ?_, by simp⟩
      intro e' p' heq
      simp only [Option.some.injEq, Prod.mk.injEq] at heq
      obtain ⟨rfl, rfl⟩ := heq
      exact h
    | ok ts =>
      obtain ⟨t, s1⟩ := ts
      obtain ⟨hf, hprog, hpos⟩ := h
      simp only
      split
      · next heof =>
        refine ⟨?_, by simp, ?_⟩
        · intro t' ht'
          simp only [List.reverse_cons, List.mem_append, List.mem_reverse, List.mem_singleton] at ht'
          rcases ht' with ht' | rfl
          · exact hacc _ ht'
          · exact hpos
        · intro _
          exact ⟨t, by simp, by simpa using heof⟩
      · next hne =>
        have hlt := hprog (by simpa using hne)
        have hrem : rem s1 < n := by
          have e := hf.src; have := hf.inv.le
          simp only [rem, e] at *; omega
        have ih := lexAll_spec n s1 (t :: acc) hf.inv hrem (by
          intro t' ht'
          rw [hf.src]
          simp only [List.mem_cons] at ht'
          rcases ht' with rfl | ht'
          · exact hpos
          · exact hacc _ ht')
        rw [hf.src] at ih
        exact ih

/-- The whole token stream of any text: the model never runs out of fuel (the real loops
terminate), every token position and the position of the first error lie inside the text, and a
run without error ends with the EOF token. -/
theorem lex_total_and_positions (src : String) :
    (∀ t ∈ (lex src).1, PosOK src.toList.toArray t.pos) ∧
    (∀ e p, (lex src).2 = some (e, p) → e ≠ .fuel ∧ PosOK src.toList.toArray p) ∧
    ((lex src).2 = none → ∃ t, (lex src).1.getLast? = some t ∧ t.tok = .eof) := by
  unfold lex
  exact lexAll_spec _ _ [] (inv_init _) (by simp [rem]) (by simp)

/-- A position inside the text, spelled out: the line is between 1 and the number of lines. -/
theorem position_line_in_range (src : Array Char) (p : Pos) (h : PosOK src p) :
    1 ≤ p.line ∧ p.line ≤ countNl src src.size + 1 := h.line_le

/-- ... and the column is at most one past the end of its line: there is a line start `h` with
`line - 1` newlines before it such that the `col - 1` runes from `h` on exist and contain no newline. -/
theorem position_column_in_range (src : Array Char) (p : Pos) (h : PosOK src p) :
    ∃ start, (start = 0 ∨ src[start - 1]? = some '\n') ∧ countNl src start + 1 = p.line ∧ 1 ≤ p.col ∧
      start + (p.col - 1) ≤ src.size ∧ ∀ i, start ≤ i → i < start + (p.col - 1) → src[i]? ≠ some '\n' := by
  obtain ⟨k, h1, h2, h3, h4, h5⟩ := h
  exact ⟨k, h1, h2.symm, h3, h4, h5⟩

/-- `back()` is only ever used to undo the `next()` just made from a rune that is not a newline;
there it restores the cursor AND the line bookkeeping exactly. -/
theorem back_undoes_next (s : S) (c : Char) (hp : s.peek = some c) (hc : c ≠ '\n') : s.next.back = s :=
  next_back hp hc

/-- Scanning has no memory: the token stream is a function of the text alone (the model has no
state outside the scanner value, which `lex` creates afresh). -/
theorem lex_deterministic (a b : String) (h : a = b) : lex a = lex b := by rw [h]

/-! ### Non-vacuity and sample evaluations -/
example : (lex "a /* x **/ + 1\n\"s\"").2 = none := by decide +kernel
example : ((lex "a /* x **/ + 1\n\"s\"").1.map (·.pos)) = [⟨1, 1⟩, ⟨1, 12⟩, ⟨1, 14⟩, ⟨1, 15⟩, ⟨2, 1⟩, ⟨2, 4⟩] := by decide +kernel
example : (lex "x = \"abc").2 = some (.msg "unexpected EOF", ⟨1, 5⟩) := by decide +kernel
example : (lex "/* never closed").2 = some (.msg "unexpected EOF", ⟨1, 1⟩) := by decide +kernel

/-- The parser that is compiled IS the one generated from the grammar file: re-running goyacc on
parser/parser.go.y reproduces the committed parser/parser.go byte for byte (regenerated on every
run), so facts read off the grammar are facts about the running parser. -/
theorem committed_parser_is_generated_from_grammar : Gen.ParserGen.committedParserIsGenerated = true := by decide

end Anko.C15
