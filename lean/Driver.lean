/-
`ankomodel`: the executable side of the correspondence. Reads one S-expression request per
line on stdin, answers one line on stdout. Imports Model and Gen only (core Lean, no Mathlib).
-/
import Anko.Model.Sexp
import Anko.Model.Walk
import Anko.Gen.AstSchema
import Anko.Gen.Walker

open Anko

def decodeForest : Nat → List Sexp → Option Forest
  | 0, _ => none
  | _, [] => some .nil
  | n + 1, .list (.atom slot :: .atom kind :: kids) :: rest => do
    let ks ← decodeForest n kids
    let r ← decodeForest n rest
    pure (.cons slot kind ks r)
  | _, _ => none

def decodePath : List Sexp → Option Path
  | [] => some []
  | .atom a :: r => do
    let n ← a.toNat?
    let rest ← decodePath r
    pure (n :: rest)
  | _ => none

def showPath (p : Path) : String := "(" ++ " ".intercalate (p.map toString) ++ ")"

def showWRes : WRes → String
  | .ok => "ok"
  | .cbErr p => "cberr " ++ showPath p
  | .unknown k => "unknown " ++ k
  | .fuel => "fuel"

def handleWalk (args : List Sexp) : String :=
  match args with
  | [.list roots, failAt] =>
    match decodeForest 100000 roots with
    | none => "bad-forest"
    | some f =>
      let fails : Path → Bool := match failAt with
        | .list ps => match decodePath ps with
          | some p => fun q => q == p
          | none => fun _ => false
        | _ => fun _ => false
      let wf := f.wf Gen.schema Gen.walker
      let r := walkTop Gen.walker fails f
      s!"wf={wf} res={showWRes r.2} size={f.size} visited=" ++ " ".intercalate (r.1.map showPath)
  | _ => "bad-args"

def handle (line : String) : String :=
  match Sexp.parse line with
  | none => "bad-sexp"
  | some (.list (.atom "walk" :: args)) => handleWalk args
  | some _ => "bad-op"

partial def loop (h : IO.FS.Stream) (out : IO.FS.Stream) : IO Unit := do
  let line ← h.getLine
  if line.isEmpty then return ()
  out.putStrLn (handle line)
  loop h out

def main : IO Unit := do
  let out ← IO.getStdout
  loop (← IO.getStdin) out
  out.flush
