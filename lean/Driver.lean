/-
`ankomodel`: the executable side of the correspondence. Reads one S-expression request per
line on stdin, answers one line on stdout. Imports Model and Gen only (core Lean, no Mathlib).
-/
import Anko.Model.Sexp
import Anko.Model.Walk
import Anko.Gen.AstSchema
import Anko.Gen.Walker
import Anko.Model.Codec
import Anko.Model.BinOp
import Anko.Model.FloatImpl
import Anko.Model.Cli
import Anko.Model.Builtins
import Anko.Model.Eval
import Anko.Model.EnvApi
import Anko.Model.Literal
import Anko.Model.PrecTable
import Anko.Model.Scanner
import Anko.Model.Chan
import Anko.Model.Cont
import Anko.Model.Conv

open Anko

def decodeForest : Nat → List Sexp → Option Forest
  | 0, _ => none
  | _, [] => some .nil
  | n + 1, .list (.atom slot :: .atom kind :: kids) :: rest => do
    let ks ← decodeForest n kids
    let r ← decodeForest n rest
    pure (.cons slot kind ks r)
  | _, _ => none

def decodePath : List Sexp → Option Path
  | [] => some []
  | .atom a :: r => do
    let n ← a.toNat?
    let rest ← decodePath r
    pure (n :: rest)
  | _ => none

def showPath (p : Path) : String := "(" ++ " ".intercalate (p.map toString) ++ ")"

def showWRes : WRes → String
  | .ok => "ok"
  | .cbErr p => "cberr " ++ showPath p
  | .unknown k => "unknown " ++ k
  | .fuel => "fuel"

def handleWalk (args : List Sexp) : String :=
  match args with
  | [.list roots, failAt] =>
    match decodeForest 100000 roots with
    | none => "bad-forest"
    | some f =>
      let fails : Path → Bool := match failAt with
        | .list ps => match decodePath ps with
          | some p => fun q => q == p
          | none => fun _ => false
        | _ => fun _ => false
      let wf := f.wf Gen.schema Gen.walker
      let r := walkTop Gen.walker fails f
      s!"wf={wf} res={showWRes r.2} size={f.size} visited=" ++ " ".intercalate (r.1.map showPath)
  | _ => "bad-args"

def showOpRes : OpRes → String
  | .ok v => "ok " ++ encodeVal v
  | .err m => "err " ++ m
  | .unsupported => "unsupported"

def handleCli (args : List Sexp) : String :=
  match args with
  | [.atom s, .atom r] =>
    let sup : Option Supply := match s with
      | "dashE" => some .dashE | "file1" => some (.file true) | "file0" => some (.file false) | _ => none
    let res : Option ExecRes := match r with
      | "ok" => some .ok | "parseErr" => some .parseErr | "runErr" => some .runErr | _ => none
    match sup, res with
    | some a, some b => let o := cli a b; s!"exit={o.exit} diag={o.diagLines} executed={o.executed}"
    | _, _ => "bad-args"
  | _ => "bad-args"

def handleRange (args : List Sexp) : String :=
  match args.mapM (fun a => match a with | .atom x => x.toInt? | _ => none) with
  | none => "bad-args"
  | some xs => match rangeBuiltin xs with
    | .ok l => "ok (l" ++ String.join (l.map (fun i => s!" (i {i})")) ++ ")"
    | .error m => "err " ++ m

def optShow {α : Type} (o : Option α) (f : α → String) : String :=
  match o with | some x => "ok " ++ f x | none => "unsupported"

def handleBuiltin (name : String) (v : Val) : String :=
  match name with
  | "toInt" => optShow (toIntB v) (fun i => encodeVal (.int i))
  | "toFloat" => optShow (toFloatB v) (fun f => encodeVal (.float f))
  | "toString" => optShow (toStringB v) (fun s => encodeVal (.str s))
  | "toBool" => optShow (toBoolB v) (fun b => encodeVal (.bool b))
  | "typeOf" => optShow (typeOfV v) (fun s => encodeVal (.str (strBytes s)))
  | "kindOf" => optShow (kindOfV v) (fun s => encodeVal (.str (strBytes s)))
  | _ => "bad-op"

partial def decodePTree : Sexp → Option Pratt.Tree
  | .list [.atom "a", .atom n] => n.toNat?.map Pratt.Tree.atom
  | .list [.atom "b", .atom o, l, r] => do pure (.bin o (← decodePTree l) (← decodePTree r))
  | .list [.atom "u", .atom o, t] => do pure (.un o (← decodePTree t))
  | .list [.atom "t", c, a, b] => do pure (.tern (← decodePTree c) (← decodePTree a) (← decodePTree b))
  | .list [.atom "call", f, x] => do pure (.call (← decodePTree f) (← decodePTree x))
  | .list [.atom "idx", b, i] => do pure (.index (← decodePTree b) (← decodePTree i))
  | .list [.atom "sl", b, i, j] => do pure (.slice (← decodePTree b) (← decodePTree i) (← decodePTree j))
  | .list [.atom "mem", b] => do pure (.member (← decodePTree b))
  | _ => none

def showTok : Pratt.Tok → String
  | .atom a => s!"v{a}"
  | .op o => o
  | .lp => "("
  | .rp => ")"
  | .q => "?"
  | .colon => ":"
  | .lb => "["
  | .rb => "]"
  | .dot => ".f"

def opTokName (o : String) : String :=
  match [("!=", "NEQ"), ("==", "EQEQ"), ("= <-", "EQOPCHAN"), ("??", "NILCOALESCE"), ("++", "PLUSPLUS"), ("+=", "PLUSEQ"),
    ("--", "MINUSMINUS"), ("-=", "MINUSEQ"), ("*=", "MULEQ"), ("/=", "DIVEQ"), (">=", "GE"), (">>", "SHIFTRIGHT"),
    ("<-", "OPCHAN"), ("<=", "LE"), ("<<", "SHIFTLEFT"), ("||", "OROR"), ("|=", "OREQ"), ("&&", "ANDAND"), ("&=", "ANDEQ"),
    ("...", "VARARG")].lookup o with
  | some n => n
  | none => "?"

def hexStr (s : String) : String := Sexp.hexBytes s.toUTF8.toList

def showScanTok (t : Scan.Token) : String :=
  let body := match t.tok with
    | .eof => "EOF:"
    | .ident s => "IDENT:" ++ hexStr s
    | .kw s => s.toUpper ++ ":" ++ hexStr s
    | .number s => "NUMBER:" ++ hexStr s
    | .str s => "STRING:" ++ hexStr s
    | .op o => opTokName o ++ ":" ++ (if o == "..." then "" else hexStr o)
    | .ch c => "CH:" ++ hexStr (String.singleton c)
  s!"{body}@{t.pos.line}:{t.pos.col}"

def handleLex (h : String) : String :=
  match Sexp.unhexBytes h.toList with
  | none => "bad-args"
  | some bs =>
    if bs.any (· ≥ 128) then "unsupported non-ascii"
    else
      let src := String.ofList (bs.map (fun b => Char.ofNat b.toNat))
      let (toks, err) := Scan.lex src
      let tail := match err with
        | none => "ok"
        | some (.msg m, p) => s!"err:{hexStr m}@{p.line}:{p.col}"
        | some (.fuel, _) => "model-fuel"
      " ".intercalate (toks.map showScanTok ++ [tail])

def showChanRes : Chan.Res → String
  | .done => "done"
  | .val v => s!"val:{v}"
  | .closedEmpty => "closed-empty"
  | .block => "block"
  | .err m => "err:" ++ m.replace " " "_"

def decodeChanOp : Sexp → Option Chan.Op
  | .list [.atom "send", .atom v] => v.toInt?.map Chan.Op.send
  | .list [.atom "recv"] => some .recv
  | .list [.atom "close"] => some .close
  | _ => none

def handleChanHist (args : List Sexp) : String :=
  match args with
  | .atom cap :: ops =>
    match cap.toNat?, ops.mapM decodeChanOp with
    | some c, some os =>
      let r := os.foldl (fun (acc : Chan.Hist × List String) op =>
        let st := acc.1.step op
        (st.1, acc.2 ++ [showChanRes st.2])) (Chan.Hist.init c, [])
      " ".intercalate r.2
    | _, _ => "bad-args"
  | _ => "bad-args"

/-- `(chanrange cap stopAt item ...)`: the items are in a closed channel of that capacity; the loop's body leaves at the first item equal to `stopAt` -/
def handleChanRange (args : List Sexp) : String :=
  match args with
  | .atom cap :: .atom stopAt :: items =>
    let its := items.filterMap (fun x => match x with | .atom a => a.toInt? | _ => none)
    match cap.toNat?, stopAt.toInt? with
    | some c, some st =>
      let r := Chan.rangeLoop (fun v => v == st) (its.length + 2) ⟨its, c, true⟩ []
      s!"seen={r.2} left={r.1.buf}"
    | _, _ => "bad-args"
  | _ => "bad-args"

/-- run a pipeline under a pseudo-random schedule (LCG on `seed`) until terminal or out of steps -/
def pipeSchedule (k : Nat) : Nat → Nat → List Chan.Move
  | 0, _ => []
  | n + 1, seed =>
    let s1 := (seed * 6364136223846793005 + 1442695040888963407) % 18446744073709551616
    let r := (s1 / 65536) % (3 * k + 2)
    let m : Chan.Move := if r == 0 then .produce else if r == 1 then .produceClose
      else match (r - 2) % 3 with
        | 0 => .recv ((r - 2) / 3)
        | 1 => .send ((r - 2) / 3)
        | _ => .finish ((r - 2) / 3)
    m :: pipeSchedule k n s1

def handlePipe (args : List Sexp) : String :=
  match args with
  | [.list items, .list stages, .atom seed] =>
    let its := items.filterMap (fun x => match x with | .atom a => a.toInt? | _ => none)
    let sts := stages.filterMap (fun x => match x with
      | .list [.atom a, .atom b, .atom c] => (match a.toInt?, b.toInt?, c.toNat? with
        | some a, some b, some c => some ((fun (v : Int) => a * v + b), c)
        | _, _, _ => none)
      | _ => none)
    match seed.toNat? with
    | some sd =>
      let p := (Chan.Pipe.init its sts).run (pipeSchedule sts.length 200000 sd)
      s!"terminal={p.terminal} out={p.out}"
    | none => "bad-args"
  | _ => "bad-args"

namespace ContDrv
open Anko.Cont

def decV : Sexp → Option V
  | Sexp.atom "nil" => some .nil
  | Sexp.list [Sexp.atom "i", Sexp.atom n] => n.toInt?.map V.int
  | Sexp.list [Sexp.atom "b", Sexp.atom x] => some (.bool (x == "1"))
  | Sexp.list [Sexp.atom "s"] => some (.str [])
  | Sexp.list [Sexp.atom "s", Sexp.atom h] => (Sexp.unhexBytes h.toList).map (fun bs => V.str (bs.map (fun b => Char.ofNat b.toNat)))
  | _ => none

def decArg : Sexp → Option Arg
  | Sexp.list [Sexp.atom "v", Sexp.atom x] => some (.var x)
  | s => (decV s).map Arg.lit

def decOpt : Sexp → Option (Option Arg)
  | Sexp.atom "_" => some none
  | s => (decArg s).map some

def decOp : Sexp → Option Op
  | Sexp.list (Sexp.atom "list" :: Sexp.atom x :: as) => (as.mapM decArg).map (Op.list x)
  | Sexp.list (Sexp.atom "map" :: Sexp.atom x :: kvs) =>
    (kvs.mapM (fun kv => match kv with
      | Sexp.list [k, v] => do pure ((← decArg k), (← decArg v))
      | _ => none)).map (Op.mapLit x)
  | Sexp.list [Sexp.atom "copy", Sexp.atom y, a] => (decArg a).map (Op.copy y)
  | Sexp.list [Sexp.atom "index", a, i] => do pure (.index (← decArg a) (← decArg i))
  | Sexp.list [Sexp.atom "slice", Sexp.atom y, a, b, e, c] => do pure (.slice y (← decArg a) (← decOpt b) (← decOpt e) (← decOpt c))
  | Sexp.list [Sexp.atom "set", Sexp.atom x, i, v, Sexp.atom nc] => do pure (.setIndex x (← decArg i) (← decArg v) (← nc.toNat?))
  | Sexp.list [Sexp.atom "append", Sexp.atom y, a, v, Sexp.atom nc] => do pure (.append y (← decArg a) (← decArg v) (← nc.toNat?))
  | Sexp.list [Sexp.atom "len", a] => (decArg a).map Op.len
  | Sexp.list [Sexp.atom "del", a, k] => do pure (.delete (← decArg a) (← decArg k))
  | Sexp.list [Sexp.atom "load", Sexp.atom y, a, i] => do pure (.load y (← decArg a) (← decArg i))
  | Sexp.list [Sexp.atom "swap", Sexp.atom x, i, j] => do pure (.swap x (← decArg i) (← decArg j))
  | _ => none

def showV (h : Heap) : Nat → V → String
  | _, .nil => "nil"
  | _, .int i => s!"{i}"
  | _, .bool b => if b then "true" else "false"
  | _, .str cs => "s:" ++ Sexp.hexBytes (String.ofList cs).toUTF8.toList
  | 0, _ => "..."
  | d + 1, .slice s => "[" ++ " ".intercalate ((h.elems s).map (showV h d)) ++ s!"]#{s.cap}"
  | d + 1, .map id =>
    let ents := ((h.maps[id]?.getD []).map (fun kv => showV h d kv.1 ++ ":" ++ showV h d kv.2)).toArray.qsort (· < ·)
    "{" ++ " ".intercalate ents.toList ++ "}"

def showOut (h : Heap) (op : Op) : Out → String
  | .ok v => (match op with
    | .index _ _ => "ok " ++ showV h 5 v
    | .len _ => "ok " ++ showV h 5 v
    | _ => "ok")
  | .err m => "err " ++ m.replace " " "_"

def handle (args : List Sexp) : String :=
  match args.mapM decOp with
  | none => "bad-args"
  | some ops =>
    let r := ops.foldl (fun (acc : Heap × List String) op =>
      let st := acc.1.step2 op
      (st.1, acc.2 ++ [showOut st.1 op st.2])) (Heap.empty, [])
    let vars := (r.1.vars.map (fun kv => kv.1 ++ "=" ++ showV r.1 5 kv.2)).toArray.qsort (· < ·)
    " | ".intercalate r.2 ++ " || " ++ " ".intercalate vars.toList

end ContDrv

namespace ConvDrv
open Anko.Conv

partial def decTy : Sexp → Option Conv.Ty
  | Sexp.atom "int64" => some .int64
  | Sexp.atom "int32" => some .int32
  | Sexp.atom "int8" => some .int8
  | Sexp.atom "uint8" => some .uint8
  | Sexp.atom "string" => some .string
  | Sexp.atom "bool" => some .bool
  | Sexp.atom "iface" => some .iface
  | Sexp.list [Sexp.atom "slice", e] => (decTy e).map Conv.Ty.slice
  | Sexp.list [Sexp.atom "map", k, v] => do pure (.map (← decTy k) (← decTy v))
  | _ => none

partial def decTV : Sexp → Option TV
  | Sexp.atom "nil" => some .nilIface
  | Sexp.list [Sexp.atom "int", t, Sexp.atom n] => do pure (.int (← decTy t) (← n.toInt?))
  | Sexp.list [Sexp.atom "str"] => some (.str [])
  | Sexp.list [Sexp.atom "str", Sexp.atom h] => (Sexp.unhexBytes h.toList).map (fun bs => TV.str (bs.map (·.toNat)))
  | Sexp.list [Sexp.atom "bool", Sexp.atom x] => some (.bool (x == "1"))
  | Sexp.list (Sexp.atom "slice" :: t :: xs) => do pure (.slice (← decTy t) (TVs.ofList (← xs.mapM decTV)))
  | Sexp.list (Sexp.atom "map" :: k :: v :: kvs) => do
    let ps ← kvs.mapM (fun kv => match kv with
      | Sexp.list [a, b] => do pure ((← decTV a), (← decTV b))
      | _ => none)
    pure (.map (← decTy k) (← decTy v) (TVs.ofList (ps.map (·.1))) (TVs.ofList (ps.map (·.2))))
  | _ => none

def showTy : Conv.Ty → String
  | .int64 => "int64" | .int32 => "int32" | .int8 => "int8" | .uint8 => "uint8"
  | .string => "string" | .bool => "bool" | .iface => "iface"
  | .slice e => "[]" ++ showTy e
  | .map k v => "map[" ++ showTy k ++ "]" ++ showTy v

partial def showTV : TV → String
  | .int t i => s!"{showTy t}:{i}"
  | .str bs => "string:" ++ Sexp.hexBytes (bs.map (fun b => b.toUInt8))
  | .bool b => if b then "bool:true" else "bool:false"
  | .nilIface => "nil"
  | .slice e xs => "[]" ++ showTy e ++ "[" ++ " ".intercalate (xs.toList.map showTV) ++ "]"
  | .map k v ks vs =>
    let ents := ((ks.toList.zip vs.toList).map (fun kv => showTV kv.1 ++ "=>" ++ showTV kv.2)).toArray.qsort (· < ·)
    "map[" ++ showTy k ++ "]" ++ showTy v ++ "{" ++ " ".intercalate ents.toList ++ "}"

def handle (args : List Sexp) : String :=
  match args with
  | [v, t] =>
    (match decTV v, decTy t with
     | some tv, some ty => (match convert tv ty with
       | some w => "ok " ++ showTV w
       | none => "err")
     | _, _ => "bad-args")
  | _ => "bad-args"

end ConvDrv

def handleOps (cmd : String) (args : List Sexp) : String :=
  match cmd, args with
  | "conv", args => ConvDrv.handle args
  | "cont", args => ContDrv.handle args
  | "chanhist", args => handleChanHist args
  | "pipe", args => handlePipe args
  | "chanrange", args => handleChanRange args
  | "lex", [] => handleLex ""
  | "lex", [.atom h] => handleLex h
  | "prmin", [t] => (match decodePTree t with
      | some tr => " ".intercalate ((Pratt.pr PrecTable.genTbl 0 tr).map showTok)
      | none => "bad-args")
  | "tonumber", [.atom h] => (match Sexp.unhexBytes h.toList with
      | some bs => (match toNumberInt bs with | some i => "ok " ++ encodeVal (.int i) | none => "err")
      | none => "bad-args")
  | "range", args => handleRange args
  | "builtin", [.atom name, v] => (match decodeVal 1000 v with | some x => handleBuiltin name x | none => "bad-args")
  | "cli", args => handleCli args
  | "binop", [.atom op, a, b] =>
    (match decodeRV a, decodeRV b with
     | some x, some y => showOpRes (binop op x y)
     | _, _ => "bad-args")
  | "unop", [.atom op, a] =>
    (match decodeRV a with
     | some x => showOpRes (unop op x)
     | _ => "bad-args")
  | "in", [a, b] =>
    (match decodeRV a, decodeRV b with
     | some x, some y => showOpRes (inOp x y)
     | _, _ => "bad-args")
  | "switch", [a, b] =>
    (match decodeRV a, decodeRV b with
     | some x, some y => showOpRes (switchMatch x y)
     | _, _ => "bad-args")
  | _, _ => "bad-op"

/-- `(v RV) | (bin op T T) | (un op T)`: operands evaluated left to right, `&&`/`||` short-circuit. -/
partial def evalTree : Sexp → Option OpRes
  | .list [.atom "v", x] => (decodeRV x).map (fun r => OpRes.ok r.v) |>.map (fun r => r)
  | .list [.atom "un", .atom op, t] =>
    match evalTreeRV t with
    | some (.inl x) => some (unop op x)
    | some (.inr e) => some e
    | none => none
  | .list [.atom "bin", .atom op, a, b] =>
    match evalTreeRV a with
    | some (.inl x) =>
      if op == "&&" || op == "||" then
        match toBool x.unwrap.v with
        | none => some .unsupported
        | some lb =>
          if (op == "||" && lb) then some (.ok (.bool true))
          else if (op == "&&" && !lb) then some (.ok (.bool false))
          else match evalTreeRV b with
            | some (.inl y) => some (binop op x y)
            | some (.inr e) => some e
            | none => none
      else
        match evalTreeRV b with
        | some (.inl y) => some (binop op x y)
        | some (.inr e) => some e
        | none => none
    | some (.inr e) => some e
    | none => none
  | _ => none
where
  evalTreeRV (t : Sexp) : Option (Sum RV OpRes) :=
    match t with
    | .list [.atom "v", x] => (decodeRV x).map Sum.inl
    | t => match evalTree t with
      | some (.ok v) => some (.inl (RV.plain v))
      | some e => some (.inr e)
      | none => none

namespace EnvDrv
open Anko.EnvApi

def decV : Sexp → Option V
  | .list [.atom "i", .atom n] => n.toInt?.map V.int
  | .list [.atom "env", .atom n] => n.toNat?.map V.env
  | _ => none

def decOp : Sexp → Option Op
  | .list [.atom "newenv", .atom p] => p.toNat?.map Op.newEnv
  | .list [.atom "module", .atom p, .atom n] => p.toNat?.map (fun p => Op.newModule p n)
  | .list [.atom "define", .atom i, .atom n, v] => do pure (Op.define (← i.toNat?) n (← decV v))
  | .list [.atom "defglobal", .atom i, .atom n, v] => do pure (Op.defineGlobal (← i.toNat?) n (← decV v))
  | .list [.atom "set", .atom i, .atom n, v] => do pure (Op.set (← i.toNat?) n (← decV v))
  | .list [.atom "get", .atom i, .atom n] => do pure (Op.get (← i.toNat?) n)
  | .list [.atom "delete", .atom i, .atom n] => do pure (Op.delete (← i.toNat?) n)
  | .list [.atom "delglobal", .atom i, .atom n] => do pure (Op.deleteGlobal (← i.toNat?) n)
  | .list [.atom "deftype", .atom i, .atom n, .atom t] => do pure (Op.defineType (← i.toNat?) n (t.replace "_" " "))
  | .list [.atom "defglobaltype", .atom i, .atom n, .atom t] => do pure (Op.defineGlobalType (← i.toNat?) n (t.replace "_" " "))
  | .list [.atom "type", .atom i, .atom n] => do pure (Op.typeOf (← i.toNat?) n)
  | .list (.atom "path" :: .atom i :: ns) => do
    let names ← ns.mapM (fun x => match x with | .atom a => some a | _ => none)
    pure (Op.path (← i.toNat?) names)
  | .list [.atom "copy", .atom i] => i.toNat?.map Op.copy
  | .list [.atom "deepcopy", .atom i] => i.toNat?.map Op.deepCopy
  | .list [.atom "symbols", .atom i] => i.toNat?.map Op.valueSymbols
  | .list [.atom "typesymbols", .atom i] => i.toNat?.map Op.typeSymbols
  | .list [.atom "setext", .atom i, .atom b] => i.toNat?.map (fun i => Op.setExt i (b == "1"))
  | .list [.atom "addr", .atom i, .atom n] => do pure (Op.addr (← i.toNat?) n)
  | _ => none

def showV : V → String
  | .int n => s!"(i {n})"
  | .env id => s!"(env {id})"

def sortStrs (xs : List String) : List String := (xs.toArray.qsort (· < ·)).toList

def showRes : Res → String
  | .unit => "u"
  | .val v => showV v
  | .ty t => "t:" ++ t.replace " " "_"
  | .scope id => s!"#{id}"
  | .names ns => "[" ++ " ".intercalate (sortStrs ns) ++ "]"
  | .err m => "e:" ++ m.replace " " "_"

def showScope (s : EnvApi.Scope) : String :=
  let vs := sortStrs (s.values.map (fun p => p.1 ++ "=" ++ showV p.2))
  let ts := sortStrs (s.types.map (fun p => p.1 ++ "=" ++ p.2.replace " " "_"))
  "{" ++ (match s.parent with | some _ => "P" | none => "R") ++ " v[" ++ " ".intercalate vs ++ "] t[" ++ " ".intercalate ts ++ "]}"

def handle (ops : List Sexp) : String :=
  match ops.mapM decOp with
  | none => "bad-args"
  | some os =>
    let r := run init os
    " | ".intercalate (r.1.map showRes) ++ " || " ++ " ".intercalate (r.2.toList.map showScope)

end EnvDrv

/-- `(run fuel cancelAt prog)`: run a whole program on the model. -/
def handleRun (args : List Sexp) : String :=
  match args with
  | [.atom fuelS, .atom cancelS, prog] =>
    match fuelS.toNat?, decodeStmt prog with
    | some fuel, some p =>
      let cancelAt := cancelS.toNat?
      let s0 := St.init cancelAt
      -- the harness binds these Go stubs in the global scope
      let stubs := ["probe", "id", "probe2", "probe3", "vprobe", "fv", "typed", "typed2", "vtyped", "boom", "zero", "two"]
      let s1 := stubs.foldl (fun st n => st.define 0 n ⟨false, .gofn n⟩) s0
      let r := runProgram fuel p s1
      match r.unsup with
      | some w => "unsupported " ++ w
      | none =>
        let res := match r.err with
          | none => "ok " ++ encodeVal r.rv.v
          | some e => "err " ++ e.msg
        let tr := " ".intercalate (r.trace.toList.map encodeVal)
        let vars := (r.scopes[0]?).map (·.vars) |>.getD []
        let vs := (vars.filter (fun p => !stubs.contains p.1)).map (fun p => "(" ++ p.1 ++ " " ++ encodeVal p.2.v ++ ")")
        let vs := vs.toArray.qsort (· < ·)
        s!"res={res} trace=({tr}) polls={r.polls} vars=({" ".intercalate vs.toList})"
    | _, _ => "bad-args"
  | _ => "bad-args"

def handle (line : String) : String :=
  match Sexp.parse line with
  | none => "bad-sexp"
  | some (.list (.atom "walk" :: args)) => handleWalk args
  | some (.list (.atom "run" :: args)) => handleRun args
  | some (.list (.atom "envhist" :: ops)) => EnvDrv.handle ops
  | some (.list [.atom "tree", t]) => (match evalTree t with | some r => showOpRes r | none => "bad-args")
  | some (.list (.atom cmd :: args)) => handleOps cmd args
  | some _ => "bad-op"

partial def loop (h : IO.FS.Stream) (out : IO.FS.Stream) : IO Unit := do
  let line ← h.getLine
  if line.isEmpty then return ()
  out.putStrLn (handle line)
  loop h out

def main : IO Unit := do
  let out ← IO.getStdout
  loop (← IO.getStdin) out
  out.flush
