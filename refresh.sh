#!/bin/sh
# Re-run every quick check on the clean /repo tree so that evidence/*.json reflects the unchanged tree.
cd "$(dirname "$0")"
if [ -n "$(git -C /repo status --porcelain)" ]; then echo "refusing: /repo has local changes"; exit 2; fi
rc=0
for c in C01 C02 C03 C04 C05 C06 C07 C08 C09 C10 C11 C12 C13 C14 C15 C16 C17 C18 C19 C20; do
  ./check $c ${1:-quick} > /tmp/refresh-$c.log 2>&1 || { rc=1; echo "FAILED $c"; tail -3 /tmp/refresh-$c.log; }
  grep -h "^\[$c" /tmp/refresh-$c.log | tail -1
done
exit $rc
