#!/bin/sh
# Offline build of the verification framework: Go tools, regenerated Lean facts, Lean library + model driver.
set -e
cd "$(dirname "$0")"
export GOFLAGS=-mod=mod GOPROXY=off GOSUMDB=off GOTOOLCHAIN=local
mkdir -p bin run evidence replays
(cd tools/goyacc && go build -o ../../bin/goyacc golang.org/x/tools/cmd/goyacc)
(cd tools && go build -o ../bin/extract ./cmd/extract && go build -tags verif -o ../bin/harness ./cmd/harness)
VERIF_GOYACC="$PWD/bin/goyacc" ./bin/extract -repo "${VERIF_REPO:-/repo}" -out lean/Anko/Gen > run/extract.json || true
(cd lean && lake build Anko ankomodel && for c in 01 02 03 04 05 06 07 08 09 10 11 12 13 14 15 16 17 18 19 20; do lake build Anko.Props.C$c; done)
echo "setup done"
