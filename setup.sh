#!/bin/sh
# Offline build of the verification framework: Go tools, regenerated Lean facts, Lean library + model driver.
set -e
cd "$(dirname "$0")"
export GOFLAGS=-mod=mod GOPROXY=off GOSUMDB=off GOTOOLCHAIN=local
mkdir -p bin run evidence replays
(cd tools/goyacc && go build -o ../../bin/goyacc golang.org/x/tools/cmd/goyacc)
(cd tools && go build -o ../bin/extract ./cmd/extract && go build -tags verif -o ../bin/harness ./cmd/harness)
VERIF_GOYACC="$PWD/bin/goyacc" ./bin/extract -repo "${VERIF_REPO:-/repo}" -out lean/Anko/Gen > run/extract.json || true
(cd lean && lake build Anko ankomodel)
echo "setup done"
