module veriftools

go 1.23

require github.com/mattn/anko v0.0.0

replace github.com/mattn/anko => /repo
