#!/usr/bin/env python3
"""addfix.py <property> <key-regex> <commit> <what failed> : record a repaired defect in known_findings.json (suppresses nothing)"""
import json, sys
p='/verif/known_findings.json'; k=json.load(open(p))
prop,key,commit,what=sys.argv[1:5]
k['findings'].append({"property":prop,"status":"fixed","key":key,"commit":commit,"what":f"fixed: property={prop} {commit} {what}"})
json.dump(k,open(p,'w'),indent=1); print(len(k['findings']))
