module veriftools/goyacc

go 1.23

require golang.org/x/tools v0.29.0
