//go:build tools

// Package goyacc pins golang.org/x/tools so that cmd/goyacc can be built offline from the module cache
// (go build -o bin/goyacc golang.org/x/tools/cmd/goyacc, run in this directory).
package goyacc

import _ "golang.org/x/tools/cmd/goyacc"
