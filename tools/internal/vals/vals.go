// Package vals: script values for the operator / equality / provenance streams, their
// S-expression encoding (the Lean driver's codec) and spelling as anko source.
package vals

import (
	"encoding/hex"
	"fmt"
	"math"
	"reflect"
	"sort"
	"strings"
)

// Encode renders a Go value produced by the interpreter in the driver's value syntax.
func Encode(v interface{}) string {
	switch x := v.(type) {
	case nil:
		return "nil"
	case bool:
		if x {
			return "(b 1)"
		}
		return "(b 0)"
	case int64:
		return fmt.Sprintf("(i %d)", x)
	case float64:
		if math.IsNaN(x) {
			return "(f 9221120237041090560)" // canonical NaN: payloads are not compared
		}
		return fmt.Sprintf("(f %d)", math.Float64bits(x))
	case string:
		if x == "" {
			return "(s)"
		}
		return "(s " + hex.EncodeToString([]byte(x)) + ")"
	case []int64:
		var b strings.Builder
		b.WriteString("(l")
		for _, e := range x {
			fmt.Fprintf(&b, " (i %d)", e)
		}
		b.WriteByte(')')
		return b.String()
	case []interface{}:
		var b strings.Builder
		b.WriteString("(l")
		for _, e := range x {
			b.WriteByte(' ')
			b.WriteString(Encode(e))
		}
		b.WriteByte(')')
		return b.String()
	case map[interface{}]interface{}:
		ents := make([]string, 0, len(x))
		for k, e := range x {
			ents = append(ents, "("+Encode(k)+" "+Encode(e)+")")
		}
		sort.Strings(ents)
		return "(m" + func() string {
			if len(ents) == 0 {
				return ""
			}
			return " " + strings.Join(ents, " ")
		}() + ")"
	case error:
		if x.Error() == "" {
			return "(err)"
		}
		return "(err " + hex.EncodeToString([]byte(x.Error())) + ")"
	}
	rv := reflect.ValueOf(v)
	if rv.Kind() == reflect.Func {
		return "(fn 0)"
	}
	return fmt.Sprintf("(other %s)", strings.ReplaceAll(rv.Type().String(), " ", "_"))
}

// Ints is the boundary pool of int64 operands.
var Ints = []int64{0, 1, -1, 2, -2, 3, 7, 8, 9, 10, 16, -9, 63, 64, 65, -3, 4094, 4095, 4096, 4097, 1000000,
	1<<31 - 1, 1 << 31, -(1 << 31), -(1 << 31) - 1, 1<<53 - 1, 1 << 53, 1<<53 + 1, -(1<<53 + 1),
	math.MaxInt64, math.MaxInt64 - 1, math.MinInt64, math.MinInt64 + 1, 1 << 62, 4611686018427387905}

// Floats is the boundary pool of float64 operands.
var Floats = []float64{0, math.Copysign(0, -1), 1, -1, 0.5, 1.5, 2.5, -2.25, 3, 1000000, 4096, 0.1, 123456789,
	9007199254740992, 9007199254740994, 1e19, -1e19, 1e300, math.Inf(1), math.Inf(-1), math.NaN(), 4294967296, 0.125, 1048575.875}

// Strs is the pool of string operands.
var Strs = []string{"", "a", "abc", "0", "1", "1.5", "10", "1000000", "-1", "+5", "0x10", "0b11", "true", "false",
	"f", "T", "1e3", " 1", "9223372036854775807", "9223372036854775808", "é", "nil", "2.25", "1.0", "0.0", ".5", "1.", "9007199254740993", "inf", "NaN", "1_0", "010", "-011", "007", "08", "0o10", "0x10 ", "00", "+010", "0X10", "0b2", "1e1", "010.0"}

// Containers builds fresh container operands (fresh so that tests never alias).
func Containers() []interface{} {
	return []interface{}{
		[]interface{}{},
		[]interface{}{int64(1)},
		[]interface{}{int64(1), 2.5, "a"},
		[]interface{}{[]interface{}{int64(1)}, []interface{}{int64(2)}},
		[]interface{}{nil},
		[]interface{}{int64(1), float64(1)},
		[]interface{}{"1", true},
		map[interface{}]interface{}{},
		map[interface{}]interface{}{"a": int64(1)},
		map[interface{}]interface{}{"a": int64(1), "b": []interface{}{int64(1)}},
		map[interface{}]interface{}{int64(1): "x", 2.5: nil},
		map[interface{}]interface{}{"a": float64(1)},
		// same number of entries, different key sets, nil under the keys the other one lacks
		map[interface{}]interface{}{"a": nil},
		map[interface{}]interface{}{"b": nil},
		map[interface{}]interface{}{"a": nil, "b": int64(2)},
		map[interface{}]interface{}{"b": int64(2), "c": nil},
		[]interface{}{map[interface{}]interface{}{"a": nil}},
		[]interface{}{map[interface{}]interface{}{"b": nil}},
		map[interface{}]interface{}{"k": map[interface{}]interface{}{"x": nil}},
		map[interface{}]interface{}{"k": map[interface{}]interface{}{"y": nil}},
	}
}

// Scalars returns the scalar pool (nil, bools, ints, floats, strings).
func Scalars() []interface{} {
	out := []interface{}{nil, true, false}
	for _, i := range Ints {
		out = append(out, i)
	}
	for _, f := range Floats {
		out = append(out, f)
	}
	for _, s := range Strs {
		out = append(out, s)
	}
	return out
}

// All = scalars + containers.
func All() []interface{} { return append(Scalars(), Containers()...) }

// Literal spells v as anko source when a literal form exists.
func Literal(v interface{}) (string, bool) {
	switch x := v.(type) {
	case nil:
		return "nil", true
	case bool:
		return fmt.Sprint(x), true
	case int64:
		if x == math.MinInt64 {
			return "-9223372036854775808", true
		}
		return fmt.Sprint(x), true
	case float64:
		if math.IsInf(x, 0) || math.IsNaN(x) || (x == 0 && math.Signbit(x)) {
			return "", false
		}
		s := fmt.Sprintf("%v", x)
		if !strings.ContainsAny(s, ".e") {
			s += ".0"
		}
		if strings.Contains(s, "e+") { // the scanner accepts e+NN
			return s, true
		}
		return s, true
	case string:
		for _, c := range []byte(x) {
			if c < 0x20 || c == '"' || c == '\\' || c >= 0x7f {
				return "", false
			}
		}
		return `"` + x + `"`, true
	}
	return "", false
}
