// Package gen holds the input generators of the correspondence harness.
// Every random choice derives from one *rand.Rand so a case replays from its seed.
package gen

import (
	"fmt"
	"math/rand"
	"strings"
)

// Syn generates source text over the full anko grammar (syntactically valid with
// high probability; not necessarily runnable). Used by the parse/walk/lex streams.
type Syn struct {
	R *rand.Rand
	// Hist counts the productions chosen (goes into the evidence).
	Hist map[string]int
}

func NewSyn(r *rand.Rand) *Syn { return &Syn{R: r, Hist: map[string]int{}} }

var idents = []string{"a", "b", "c", "x", "y", "f", "g", "m", "ch", "ok", "v", "é", "_t1"}
var typeNames = []string{"int64", "string", "float64", "bool", "interface", "int", "byte"}

func (g *Syn) pick(xs []string) string { return xs[g.R.Intn(len(xs))] }
func (g *Syn) note(k string)           { g.Hist[k]++ }

func (g *Syn) Ident() string { return g.pick(idents) }

func (g *Syn) Type(d int) string {
	if d <= 0 {
		return g.pick(typeNames)
	}
	switch g.R.Intn(8) {
	case 0:
		return "[]" + g.Type(d-1)
	case 1:
		return "*" + g.Type(d-1)
	case 2:
		return "map[" + g.Type(0) + "]" + g.Type(d-1)
	case 3:
		return "chan " + g.Type(d-1)
	case 4:
		return "struct{A " + g.Type(d-1) + ", B " + g.Type(0) + "}"
	case 5:
		return "[][]" + g.Type(0)
	case 6:
		return "m." + g.pick(typeNames)
	}
	return g.pick(typeNames)
}

func (g *Syn) Literal() string {
	switch g.R.Intn(12) {
	case 0:
		return fmt.Sprint(g.R.Intn(10))
	case 1:
		return fmt.Sprint(g.R.Int63())
	case 2:
		return fmt.Sprintf("0x%x", g.R.Intn(1<<20))
	case 3:
		return fmt.Sprintf("0b%b", g.R.Intn(64))
	case 4:
		return fmt.Sprintf("%d.%d", g.R.Intn(100), g.R.Intn(100))
	case 5:
		return fmt.Sprintf("%de%d", g.R.Intn(9)+1, g.R.Intn(5))
	case 6:
		return `"s` + g.pick([]string{"", "a", `\n`, `\"`, "é", "1", "0x1"}) + `"`
	case 7:
		return "'" + g.pick([]string{"", "q", `\t`, `\\`}) + "'"
	case 8:
		return "`raw" + g.pick([]string{"", "\n", `\n`, "\""}) + "`"
	case 9:
		return g.pick([]string{"true", "false"})
	case 10:
		return "nil"
	}
	return "-" + fmt.Sprint(g.R.Intn(100))
}

var binOps = []string{"+", "-", "*", "/", "%", "|", "&", "<<", ">>", "==", "!=", "<", "<=", ">", ">=", "&&", "||"}

func (g *Syn) Exprs(d, max int) string {
	n := g.R.Intn(max + 1)
	xs := make([]string, n)
	for i := range xs {
		xs[i] = g.Expr(d)
	}
	return strings.Join(xs, ", ")
}

func (g *Syn) Expr(d int) string {
	if d <= 0 {
		if g.R.Intn(2) == 0 {
			g.note("expr:ident")
			return g.Ident()
		}
		g.note("expr:literal")
		return g.Literal()
	}
	d--
	k := g.R.Intn(40)
	switch k {
	case 0, 1, 2, 3, 4, 5:
		g.note("expr:binary")
		return g.Expr(d) + " " + g.pick(binOps) + " " + g.Expr(d)
	case 6:
		g.note("expr:unary")
		return g.pick([]string{"-", "!", "^"}) + g.Expr(d)
	case 7:
		g.note("expr:addr")
		return "&" + g.Expr(d)
	case 8:
		g.note("expr:deref")
		return "*" + g.Expr(d)
	case 9:
		g.note("expr:ternary")
		return g.Expr(d) + " ? " + g.Expr(d) + " : " + g.Expr(d)
	case 10:
		g.note("expr:nilcoalesce")
		return g.Expr(d) + " ?? " + g.Expr(d)
	case 11:
		g.note("expr:paren")
		return "(" + g.Expr(d) + ")"
	case 12, 13:
		g.note("expr:call")
		va := ""
		args := g.Exprs(d, 3)
		if args != "" && g.R.Intn(4) == 0 {
			va = "..."
		}
		return g.Ident() + "(" + args + va + ")"
	case 14:
		g.note("expr:anoncall")
		va := ""
		args := g.Exprs(d, 2)
		if args != "" && g.R.Intn(4) == 0 {
			va = "..."
		}
		return "(" + g.Expr(d) + ")(" + args + va + ")"
	case 15:
		g.note("expr:member")
		return g.Expr(d) + "." + g.Ident()
	case 16, 17:
		g.note("expr:item")
		return g.Expr(d) + "[" + g.Expr(d) + "]"
	case 18:
		g.note("expr:slice")
		base := g.Expr(d)
		switch g.R.Intn(5) {
		case 0:
			return base + "[" + g.Expr(d) + ":" + g.Expr(d) + "]"
		case 1:
			return base + "[" + g.Expr(d) + ":]"
		case 2:
			return base + "[:" + g.Expr(d) + "]"
		case 3:
			return base + "[:" + g.Expr(d) + ":" + g.Expr(d) + "]"
		}
		return base + "[" + g.Expr(d) + ":" + g.Expr(d) + ":" + g.Expr(d) + "]"
	case 19:
		g.note("expr:func")
		name := ""
		if g.R.Intn(2) == 0 {
			name = " " + g.Ident()
		}
		np := g.R.Intn(6)
		ps := make([]string, np)
		for i := range ps {
			ps[i] = fmt.Sprintf("p%d", i)
		}
		va := ""
		if np > 0 && g.R.Intn(4) == 0 {
			va = "..."
		}
		return "func" + name + "(" + strings.Join(ps, ", ") + va + ") {" + g.Block(d) + "}"
	case 20:
		g.note("expr:array")
		return "[" + g.Exprs(d, 3) + "]"
	case 21:
		g.note("expr:typedarray")
		return "[]" + g.Type(1) + "{" + g.Exprs(d, 3) + "}"
	case 22:
		g.note("expr:map")
		n := g.R.Intn(3)
		kv := make([]string, n)
		for i := range kv {
			kv[i] = g.Expr(d) + ": " + g.Expr(d)
		}
		pre := g.pick([]string{"", "map", "map[string]" + g.Type(0)})
		return pre + "{" + strings.Join(kv, ", ") + "}"
	case 23:
		g.note("expr:len")
		return "len(" + g.Expr(d) + ")"
	case 24:
		g.note("expr:import")
		return "import(" + g.pick([]string{`"strings"`, `"sort"`, "x"}) + ")"
	case 25:
		g.note("expr:new")
		return "new(" + g.Type(1) + ")"
	case 26:
		g.note("expr:make")
		switch g.R.Intn(4) {
		case 0:
			return "make(" + g.Type(1) + ")"
		case 1:
			return "make([]" + g.Type(0) + ", " + g.Expr(d) + ")"
		case 2:
			return "make([]" + g.Type(0) + ", " + g.Expr(d) + ", " + g.Expr(d) + ")"
		}
		return "make(chan " + g.Type(0) + ", " + g.Expr(d) + ")"
	case 27:
		g.note("expr:maketype")
		return "make(type " + g.Ident() + ", " + g.Expr(d) + ")"
	case 28:
		g.note("expr:in")
		return g.Expr(d) + " in " + g.Expr(d)
	case 29:
		g.note("expr:chansend")
		return g.Expr(d) + " <- " + g.Expr(d)
	case 30:
		g.note("expr:chanrecv")
		return "<- " + g.Expr(d)
	case 31:
		g.note("expr:incdec")
		return g.Expr(d) + g.pick([]string{"++", "--"})
	case 32:
		g.note("expr:opassign")
		return g.Expr(d) + " " + g.pick([]string{"+=", "-=", "*=", "/=", "&=", "|="}) + " " + g.Expr(d)
	}
	return g.Expr(0)
}

func (g *Syn) Block(d int) string {
	n := g.R.Intn(3)
	if d <= 0 {
		n = g.R.Intn(2)
	}
	var b strings.Builder
	if g.R.Intn(8) == 0 {
		// blocks made of separators only: their statement list must be empty, whatever was parsed before
		g.note("block:separators-only")
		return g.pick([]string{"", " ", ";", " ; ", "\n;\n", ";;", "\n\n"})
	}
	b.WriteString("\n")
	for i := 0; i < n; i++ {
		b.WriteString(g.Stmt(d))
		b.WriteString(g.pick([]string{"\n", "\n", ";", ";\n", "\n\n"}))
	}
	return b.String()
}

func (g *Syn) lhs(d int) string {
	switch g.R.Intn(5) {
	case 0:
		return g.Ident() + "[" + g.Expr(d) + "]"
	case 1:
		return g.Ident() + "." + g.Ident()
	case 2:
		return "*" + g.Ident()
	}
	return g.Ident()
}

func (g *Syn) Stmt(d int) string {
	if d <= 0 {
		g.note("stmt:expr")
		return g.Expr(0)
	}
	d--
	switch g.R.Intn(34) {
	case 0, 1, 2:
		g.note("stmt:expr")
		return g.Expr(d)
	case 3, 4:
		g.note("stmt:let")
		return g.lhs(d) + " = " + g.Expr(d)
	case 5:
		g.note("stmt:lets")
		// any number of targets against any number of values (the lists need not balance)
		nl, nr := 1+g.R.Intn(3), 1+g.R.Intn(3)
		ls, rs := make([]string, nl), make([]string, nr)
		for i := range ls {
			ls[i] = g.lhs(d)
		}
		for i := range rs {
			rs[i] = g.Expr(d)
		}
		return strings.Join(ls, ", ") + " = " + strings.Join(rs, ", ")
	case 6:
		g.note("stmt:letmapitem")
		return g.Ident() + ", " + g.Ident() + " = " + g.Ident() + "[" + g.Expr(d) + "]"
	case 7:
		g.note("stmt:var")
		if g.R.Intn(2) == 0 {
			return "var " + g.Ident() + " = " + g.Expr(d)
		}
		if g.R.Intn(2) == 0 {
			return "var " + g.Ident() + ", " + g.Ident() + ", " + g.Ident() + " = " + g.Expr(d)
		}
		return "var " + g.Ident() + ", " + g.Ident() + " = " + g.Expr(d) + ", " + g.Expr(d)
	case 8, 9:
		g.note("stmt:if")
		s := "if " + g.Expr(d) + " {" + g.Block(d) + "}"
		for i := g.R.Intn(3); i > 0; i-- {
			s += " else if " + g.Expr(d) + " {" + g.Block(d) + "}"
		}
		if g.R.Intn(2) == 0 {
			s += " else {" + g.Block(d) + "}"
		}
		return s
	case 10:
		g.note("stmt:try")
		s := "try {" + g.Block(d) + "} catch "
		if g.R.Intn(2) == 0 {
			s += g.Ident() + " "
		}
		s += "{" + g.Block(d) + "}"
		if g.R.Intn(2) == 0 {
			s += " finally {" + g.Block(d) + "}"
		}
		return s
	case 11:
		g.note("stmt:loop")
		if g.R.Intn(2) == 0 {
			return "for {" + g.Block(d) + "}"
		}
		return "for " + g.Expr(d) + " {" + g.Block(d) + "}"
	case 12:
		g.note("stmt:forin")
		if g.R.Intn(2) == 0 {
			return "for " + g.Ident() + " in " + g.Expr(d) + " {" + g.Block(d) + "}"
		}
		return "for " + g.Ident() + ", " + g.Ident() + " in " + g.Expr(d) + " {" + g.Block(d) + "}"
	case 13, 14:
		g.note("stmt:cfor")
		init, cond, post := "", "", ""
		if g.R.Intn(2) == 0 {
			if g.R.Intn(2) == 0 {
				init = g.Ident() + " = " + g.Expr(d)
			} else {
				init = "var " + g.Ident() + " = " + g.Expr(d)
			}
		}
		if g.R.Intn(2) == 0 {
			cond = " " + g.Expr(d)
		}
		if g.R.Intn(2) == 0 {
			post = " " + g.Expr(d)
		}
		return "for " + init + ";" + cond + ";" + post + " {" + g.Block(d) + "}"
	case 15:
		g.note("stmt:break")
		return "break"
	case 16:
		g.note("stmt:continue")
		return "continue"
	case 17, 18:
		g.note("stmt:return")
		return "return " + g.Exprs(d, 3)
	case 19:
		g.note("stmt:throw")
		return "throw " + g.Expr(d)
	case 20:
		g.note("stmt:module")
		return "module " + g.Ident() + " {" + g.Block(d) + "}"
	case 21, 22:
		g.note("stmt:switch")
		s := "switch " + g.Expr(d) + " {\n"
		for i := g.R.Intn(3); i > 0; i-- {
			if g.R.Intn(3) == 0 {
				s += "case " + g.Expr(d) + ", " + g.Expr(d) + ":" + g.Block(d)
			} else {
				s += "case " + g.Expr(d) + ":" + g.Block(d)
			}
		}
		if g.R.Intn(2) == 0 {
			s += "default:" + g.Block(d)
		}
		return s + "}"
	case 23:
		g.note("stmt:go")
		va := ""
		args := g.Exprs(d, 2)
		if args != "" && g.R.Intn(4) == 0 {
			va = "..."
		}
		if g.R.Intn(2) == 0 {
			return "go " + g.Ident() + "(" + args + va + ")"
		}
		return "go func(){" + g.Block(d) + "}(" + args + va + ")"
	case 24:
		g.note("stmt:defer")
		va := ""
		args := g.Exprs(d, 2)
		if args != "" && g.R.Intn(4) == 0 {
			va = "..."
		}
		if g.R.Intn(2) == 0 {
			return "defer " + g.Ident() + "(" + args + va + ")"
		}
		return "defer func(){" + g.Block(d) + "}(" + args + va + ")"
	case 25:
		g.note("stmt:delete")
		if g.R.Intn(2) == 0 {
			return "delete(" + g.Expr(d) + ")"
		}
		return "delete(" + g.Expr(d) + ", " + g.Expr(d) + ")"
	case 26:
		g.note("stmt:close")
		return "close(" + g.Expr(d) + ")"
	case 27:
		g.note("stmt:chanstmt")
		if g.R.Intn(2) == 0 {
			return g.lhs(d) + " = <- " + g.Expr(d)
		}
		return g.lhs(d) + ", " + g.lhs(d) + " = <- " + g.Expr(d)
	}
	g.note("stmt:expr")
	return g.Expr(d)
}

// Program returns n statements separated by newlines / semicolons.
func (g *Syn) Program(n, depth int) string {
	var b strings.Builder
	for i := 0; i < n; i++ {
		b.WriteString(g.Stmt(depth))
		b.WriteString(g.pick([]string{"\n", "\n", ";", ";\n", "\n\n", " # c\n", " // c\n", " /* c */\n"}))
	}
	return b.String()
}
