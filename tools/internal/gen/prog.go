package gen

import (
	"fmt"
	"math/rand"
	"strings"
)

// Prog generates runnable programs over fragment F0 of the interpreter model: every leaf
// can be a side-effecting probe call, loops are bounded by private counters, functions are
// defined before use. Used by the vm / cancel / scope / order / control / errors streams.
type Prog struct {
	R     *rand.Rand
	Hist  map[string]int
	loops int
	funcs []fn
	// context flags
	inFunc int
	inLoop int
	probeN int
}

type fn struct {
	name    string
	params  int
	vararg  bool
	defined bool
}

func NewProg(r *rand.Rand) *Prog { return &Prog{R: r, Hist: map[string]int{}} }

var progVars = []string{"x", "y", "z", "w"}

func (g *Prog) note(k string) { g.Hist[k]++ }
func (g *Prog) pick(xs []string) string {
	return xs[g.R.Intn(len(xs))]
}

func (g *Prog) lit() string {
	switch g.R.Intn(14) {
	case 0, 1, 2, 3:
		return fmt.Sprint(g.R.Intn(6))
	case 4:
		return fmt.Sprint(g.R.Intn(5000) - 10)
	case 5:
		return g.pick([]string{"0.5", "1.5", "2.0", "0.25"})
	case 6, 7:
		return g.pick([]string{`"a"`, `"b"`, `""`, `"1"`, `"ab"`})
	case 8:
		return g.pick([]string{"true", "false"})
	case 9:
		return "nil"
	case 10:
		return "[" + g.lit() + ", " + g.lit() + "]"
	case 11:
		return "[]"
	case 12:
		return `{"k": ` + g.lit() + `}`
	}
	return fmt.Sprint(g.R.Intn(3))
}

// probe wraps an expression in a numbered probe so evaluation order is observable.
func (g *Prog) probe(e string) string {
	g.probeN++
	g.note("probe")
	return "probe(" + e + ")"
}

var arithOps = []string{"+", "-", "*", "%", "|", "&", "<<", "==", "!=", "<", "<=", ">", ">=", "&&", "||"}

func (g *Prog) args(d, n int) string {
	xs := make([]string, n)
	for i := range xs {
		xs[i] = g.Expr(d)
	}
	return strings.Join(xs, ", ")
}

func (g *Prog) Expr(d int) string {
	if d <= 0 {
		switch g.R.Intn(5) {
		case 0, 1:
			g.note("e:var")
			return g.pick(progVars)
		case 2:
			return g.probe(g.lit())
		}
		g.note("e:lit")
		return g.lit()
	}
	d--
	switch g.R.Intn(30) {
	case 0, 1, 2, 3:
		g.note("e:binary")
		return "(" + g.Expr(d) + " " + g.pick(arithOps) + " " + g.Expr(d) + ")"
	case 4:
		g.note("e:unary")
		return g.pick([]string{"-", "!", "^"}) + "(" + g.Expr(d) + ")"
	case 5:
		g.note("e:ternary")
		return "(" + g.Expr(d) + " ? " + g.Expr(d) + " : " + g.Expr(d) + ")"
	case 6:
		g.note("e:nilco")
		return "(" + g.Expr(d) + " ?? " + g.Expr(d) + ")"
	case 7, 8:
		return g.probe(g.Expr(d))
	case 9:
		g.note("e:id")
		return "id(" + g.Expr(d) + ")"
	case 10:
		g.note("e:array")
		return "[" + g.args(d, g.R.Intn(4)) + "]"
	case 11:
		g.note("e:map")
		if g.R.Intn(2) == 0 {
			return "{" + g.Expr(d) + ": " + g.Expr(d) + "}"
		}
		return `{"a": ` + g.Expr(d) + `, "b": ` + g.Expr(d) + "}"
	case 12:
		g.note("e:item")
		return "[" + g.args(d, 1+g.R.Intn(3)) + "][" + g.Expr(d) + "]"
	case 13:
		g.note("e:item-var")
		return g.pick(progVars) + "[" + g.Expr(d) + "]"
	case 14:
		g.note("e:slice")
		base := "[" + g.args(d, 3) + "]"
		if g.R.Intn(3) == 0 {
			base = `"hello"`
		}
		switch g.R.Intn(3) {
		case 0:
			return base + "[" + g.Expr(d) + ":" + g.Expr(d) + "]"
		case 1:
			return base + "[" + g.Expr(d) + ":]"
		}
		return base + "[:" + g.Expr(d) + "]"
	case 15:
		g.note("e:len")
		return "len(" + g.Expr(d) + ")"
	case 16:
		g.note("e:in")
		return "(" + g.Expr(d) + " in [" + g.args(d, 2) + "])"
	case 17:
		g.note("e:incdec")
		return g.pick(progVars) + g.pick([]string{"++", "--"})
	case 18:
		g.note("e:opassign")
		return g.pick(progVars) + " " + g.pick([]string{"+=", "-=", "*=", "|=", "&="}) + " " + g.Expr(d)
	case 19, 20, 21:
		return g.call(d)
	case 22:
		g.note("e:gocall")
		switch g.R.Intn(7) {
		case 0:
			return "vprobe(" + g.args(d, g.R.Intn(4)) + ")"
		case 1:
			return "fv(" + g.args(d, 1+g.R.Intn(3)) + ")"
		case 2:
			return "typed(" + g.Expr(d) + ")"
		case 3:
			return "probe2(" + g.args(d, g.R.Intn(4)) + ")"
		case 4:
			return "boom()"
		case 5:
			return "vprobe([" + g.args(d, g.R.Intn(3)) + "]...)"
		}
		return "probe2([" + g.args(d, g.R.Intn(4)) + "]...)"
	case 23:
		g.note("e:anonfunc")
		np := g.R.Intn(3)
		ps := make([]string, np)
		for i := range ps {
			ps[i] = g.pick(progVars)
		}
		g.inFunc++
		saveLoop := g.inLoop
		g.inLoop = 0
		body := g.Block(d, 2)
		g.inLoop = saveLoop
		g.inFunc--
		return "func(" + strings.Join(ps, ", ") + ") {" + body + "}(" + g.args(d, np) + ")"
	case 24:
		g.note("e:member")
		return "m." + g.pick(progVars)
	}
	return g.Expr(0)
}

func (g *Prog) call(d int) string {
	var defined []fn
	for _, f := range g.funcs {
		if f.defined {
			defined = append(defined, f)
		}
	}
	if len(defined) == 0 {
		return g.probe(g.Expr(d))
	}
	f := defined[g.R.Intn(len(defined))]
	n := f.params
	switch g.R.Intn(8) {
	case 0:
		n++ // wrong arity
		g.note("e:call-wrong-arity")
	case 1:
		if n > 0 {
			n--
		}
		g.note("e:call-wrong-arity")
	case 2:
		g.note("e:call-spread")
		return f.name + "([" + g.args(d, g.R.Intn(f.params+2)) + "]...)"
	case 3:
		if f.params > 1 {
			g.note("e:call-spread-tail")
			return f.name + "(" + g.args(d, 1) + ", [" + g.args(d, g.R.Intn(f.params+1)) + "]...)"
		}
	}
	g.note(fmt.Sprintf("e:call-%d", f.params))
	if f.vararg {
		n = f.params - 1 + g.R.Intn(3)
	}
	return f.name + "(" + g.args(d, n) + ")"
}

func (g *Prog) Block(d, max int) string {
	n := 1 + g.R.Intn(max)
	var b strings.Builder
	b.WriteString("\n")
	for i := 0; i < n; i++ {
		b.WriteString(g.Stmt(d))
		b.WriteString("\n")
	}
	return b.String()
}

func (g *Prog) Stmt(d int) string {
	if d <= 0 {
		switch g.R.Intn(4) {
		case 0:
			g.note("s:let")
			return g.pick(progVars) + " = " + g.Expr(1)
		case 1:
			g.note("s:var")
			return "var " + g.pick(progVars) + " = " + g.Expr(1)
		}
		g.note("s:expr")
		return g.Expr(1)
	}
	d--
	switch g.R.Intn(36) {
	case 0, 1, 2:
		g.note("s:expr")
		return g.Expr(d + 1)
	case 3, 4, 5:
		g.note("s:let")
		return g.pick(progVars) + " = " + g.Expr(d+1)
	case 6, 7:
		g.note("s:var")
		return "var " + g.pick(progVars) + " = " + g.Expr(d+1)
	case 8:
		g.note("s:multi")
		if g.R.Intn(2) == 0 {
			return g.pick(progVars) + ", " + g.pick(progVars) + " = " + g.Expr(d) + ", " + g.Expr(d)
		}
		return "var " + g.pick(progVars) + ", " + g.pick(progVars) + " = " + g.pick([]string{g.Expr(d) + ", " + g.Expr(d), "[" + g.args(d, 1+g.R.Intn(3)) + "]"})
	case 9, 10, 11:
		g.note("s:if")
		s := "if " + g.Expr(d) + " {" + g.Block(d, 2) + "}"
		for i := g.R.Intn(3); i > 0; i-- {
			s += " else if " + g.Expr(d) + " {" + g.Block(d, 2) + "}"
		}
		if g.R.Intn(2) == 0 {
			s += " else {" + g.Block(d, 2) + "}"
		}
		return s
	case 12, 13:
		g.note("s:try")
		s := "try {" + g.Block(d, 3) + "} catch "
		if g.R.Intn(2) == 0 {
			s += "e "
		}
		s += "{" + g.Block(d, 2) + "}"
		if g.R.Intn(2) == 0 {
			s += " finally {" + g.Block(d, 2) + "}"
		}
		return s
	case 14:
		g.note("s:loop-cond")
		g.loops++
		c := fmt.Sprintf("c%d", g.loops)
		g.inLoop++
		body := g.Block(d, 2)
		g.inLoop--
		return c + " = 0\nfor " + c + " < " + fmt.Sprint(1+g.R.Intn(3)) + " {\n" + c + "++" + body + "}"
	case 15:
		g.note("s:loop-forever")
		g.loops++
		c := fmt.Sprintf("c%d", g.loops)
		g.inLoop++
		body := g.Block(d, 2)
		g.inLoop--
		return c + " = 0\nfor {\n" + c + "++\nif " + c + " > " + fmt.Sprint(1+g.R.Intn(3)) + " { break }" + body + "}"
	case 16, 17:
		g.note("s:cfor")
		g.loops++
		c := fmt.Sprintf("c%d", g.loops)
		g.inLoop++
		body := g.Block(d, 2)
		g.inLoop--
		init := c + " = 0"
		if g.R.Intn(3) == 0 {
			init = "var " + c + " = 0"
		}
		return "for " + init + "; " + c + " < " + fmt.Sprint(1+g.R.Intn(3)) + "; " + c + "++ {" + body + "}"
	case 18, 19:
		g.note("s:forin")
		g.inLoop++
		body := g.Block(d, 2)
		g.inLoop--
		src := "[" + g.args(d, g.R.Intn(4)) + "]"
		switch g.R.Intn(6) {
		case 0:
			src = `{"k": ` + g.Expr(d) + "}"
			return "for " + g.pick(progVars) + ", " + g.pick(progVars) + " in " + src + " {" + body + "}"
		case 1:
			src = g.pick(progVars)
		}
		return "for " + g.pick(progVars) + " in " + src + " {" + body + "}"
	case 20:
		if g.inLoop > 0 {
			g.note("s:break")
			return "if " + g.Expr(d) + " { break }"
		}
		return g.Stmt(d)
	case 21:
		if g.inLoop > 0 {
			g.note("s:continue")
			return "if " + g.Expr(d) + " { continue }"
		}
		return g.Stmt(d)
	case 22, 23:
		if g.inFunc > 0 || g.R.Intn(6) == 0 {
			g.note("s:return")
			switch g.R.Intn(4) {
			case 0:
				return "return"
			case 1:
				return "return " + g.Expr(d) + ", " + g.Expr(d)
			}
			return "return " + g.Expr(d)
		}
		return g.Stmt(d)
	case 24:
		g.note("s:throw")
		return "throw " + g.Expr(d)
	case 25:
		g.note("s:module")
		return "module m {" + g.Block(d, 2) + "}"
	case 26, 27:
		g.note("s:switch")
		s := "switch " + g.Expr(d) + " {\n"
		for i := g.R.Intn(3); i > 0; i-- {
			if g.R.Intn(3) == 0 {
				s += "case " + g.Expr(d) + ", " + g.Expr(d) + ":" + g.Block(d, 2)
			} else {
				s += "case " + g.Expr(d) + ":" + g.Block(d, 2)
			}
		}
		if g.R.Intn(2) == 0 {
			s += "default:" + g.Block(d, 2)
		}
		return s + "}"
	case 28, 29:
		g.note("s:defer")
		switch g.R.Intn(4) {
		case 0:
			return "defer probe(" + g.Expr(d) + ")"
		case 1:
			return "defer func() {" + g.Block(d, 2) + "}()"
		case 2:
			return "defer vprobe(" + g.args(d, g.R.Intn(3)) + ")"
		}
		return "defer " + strings.TrimSuffix(g.call(d), "")
	case 30, 31, 32:
		return g.funcDef(d)
	}
	g.note("s:expr")
	return g.Expr(d + 1)
}

func (g *Prog) funcDef(d int) string {
	g.note("s:funcdef")
	name := fmt.Sprintf("f%d", len(g.funcs))
	np := g.R.Intn(7)
	va := np > 0 && g.R.Intn(4) == 0
	ps := make([]string, np)
	for i := range ps {
		if i < len(progVars) && g.R.Intn(2) == 0 {
			ps[i] = progVars[i]
		} else {
			ps[i] = fmt.Sprintf("p%d", i)
		}
	}
	idx := len(g.funcs)
	g.funcs = append(g.funcs, fn{name: name, params: np, vararg: va})
	g.inFunc++
	saveLoop := g.inLoop
	g.inLoop = 0
	body := g.Block(d, 3)
	g.inLoop = saveLoop
	g.inFunc--
	g.funcs[idx].defined = true
	vs := ""
	if va {
		vs = "..."
	}
	if np > 0 && g.R.Intn(2) == 0 {
		body += "return " + ps[g.R.Intn(np)] + "\n"
	}
	return "func " + name + "(" + strings.Join(ps, ", ") + vs + ") {" + body + "}"
}

// Program returns a program of n top-level statements; the variable pool is initialised first.
func (g *Prog) Program(n, depth int) string {
	var b strings.Builder
	b.WriteString("x = 1\ny = \"s\"\nz = [1, 2]\nw = nil\nmodule m { x = 10; y = 20; z = 30; w = 40 }\n")
	for i := 0; i < n; i++ {
		b.WriteString(g.Stmt(depth))
		b.WriteString("\n")
	}
	return b.String()
}
