package astser

import (
	"fmt"
	"reflect"
	"strings"

	"github.com/mattn/anko/ast"
)

var reflectValueT = reflect.TypeOf(reflect.Value{})

// Dump renders every field of an AST (names, operators, literals, flags, children) together with
// each node's position; lines > 0 are shifted by lineShift.  Two trees are equal for the purposes
// of the parser property iff their dumps are equal.
func Dump(x interface{}, lineShift int) string {
	var b strings.Builder
	dump(&b, reflect.ValueOf(x), lineShift, 0)
	return b.String()
}

// DumpStmts dumps the statements of a top-level *ast.StmtsStmt one per element.
func DumpStmts(s ast.Stmt, lineShift int) ([]string, bool) {
	if s == nil {
		return nil, true
	}
	ss, ok := s.(*ast.StmtsStmt)
	if !ok {
		return nil, false
	}
	out := make([]string, len(ss.Stmts))
	for i, st := range ss.Stmts {
		out[i] = Dump(st, lineShift)
	}
	return out, true
}

func dump(b *strings.Builder, v reflect.Value, shift, depth int) {
	if depth > 100000 {
		b.WriteString("<deep>")
		return
	}
	if !v.IsValid() {
		b.WriteString("<invalid>")
		return
	}
	if v.Type() == reflectValueT {
		rv := v.Interface().(reflect.Value)
		if !rv.IsValid() {
			b.WriteString("rv:<invalid>")
			return
		}
		fmt.Fprintf(b, "rv:%s:%#v", rv.Type(), safeIface(rv))
		return
	}
	switch v.Kind() {
	case reflect.Interface:
		if v.IsNil() {
			b.WriteString("nil")
			return
		}
		dump(b, v.Elem(), shift, depth+1)
	case reflect.Ptr:
		if v.IsNil() {
			b.WriteString("nil")
			return
		}
		if p, ok := v.Interface().(ast.Pos); ok {
			pos := p.Position()
			if pos.Line > 0 {
				pos.Line += shift
			}
			fmt.Fprintf(b, "@%d:%d", pos.Line, pos.Column)
		}
		dump(b, v.Elem(), shift, depth+1)
	case reflect.Struct:
		t := v.Type()
		b.WriteString("(" + t.Name())
		for i := 0; i < t.NumField(); i++ {
			f := t.Field(i)
			if f.Anonymous && (f.Name == "PosImpl" || f.Name == "ExprImpl" || f.Name == "StmtImpl") {
				continue
			}
			b.WriteString(" " + f.Name + "=")
			fv := v.Field(i)
			if !fv.CanInterface() {
				fmt.Fprintf(b, "<unexported %s>", f.Type)
				continue
			}
			dump(b, fv, shift, depth+1)
		}
		b.WriteString(")")
	case reflect.Slice, reflect.Array:
		if v.Kind() == reflect.Slice && v.IsNil() {
			b.WriteString("[nil]")
			return
		}
		b.WriteString("[")
		for i := 0; i < v.Len(); i++ {
			if i > 0 {
				b.WriteString(" ")
			}
			dump(b, v.Index(i), shift, depth+1)
		}
		b.WriteString("]")
	case reflect.String:
		fmt.Fprintf(b, "%q", v.String())
	case reflect.Bool, reflect.Int, reflect.Int8, reflect.Int16, reflect.Int32, reflect.Int64,
		reflect.Uint, reflect.Uint8, reflect.Uint16, reflect.Uint32, reflect.Uint64, reflect.Float32, reflect.Float64:
		fmt.Fprintf(b, "%v", v.Interface())
	case reflect.Map:
		fmt.Fprintf(b, "<map len %d>", v.Len())
	case reflect.Func:
		if v.IsNil() {
			b.WriteString("func:nil")
		} else {
			b.WriteString("func")
		}
	default:
		fmt.Fprintf(b, "<%s>", v.Kind())
	}
}

func safeIface(rv reflect.Value) interface{} {
	if rv.CanInterface() {
		return rv.Interface()
	}
	return "<unexported>"
}
