// Package astser serialises anko ASTs by reflection, independently of the walker
// and of the extractor: it relies only on Go's run-time type information.
package astser

import (
	"fmt"
	"reflect"
	"strings"

	"github.com/mattn/anko/ast"
)

var (
	exprT = reflect.TypeOf((*ast.Expr)(nil)).Elem()
	stmtT = reflect.TypeOf((*ast.Stmt)(nil)).Elem()
	opT   = reflect.TypeOf((*ast.Operator)(nil)).Elem()
)

// Node is one AST node in the generic forest.
type Node struct {
	Slot string
	Kind string
	Ptr  interface{} // the *ast.X pointer
	Path []int
	Kids []*Node
}

func isNodeIface(t reflect.Type) bool { return t == exprT || t == stmtT || t == opT }

// Build converts the node x (a pointer to an ast struct held in an interface) into a Node tree.
func Build(slot string, x interface{}, path []int) *Node {
	v := reflect.ValueOf(x)
	if !v.IsValid() || v.Kind() != reflect.Ptr || v.IsNil() {
		return nil
	}
	n := &Node{Slot: slot, Kind: v.Elem().Type().Name(), Ptr: x, Path: append([]int(nil), path...)}
	sv := v.Elem()
	st := sv.Type()
	for i := 0; i < st.NumField(); i++ {
		f := st.Field(i)
		if f.Anonymous {
			continue
		}
		fv := sv.Field(i)
		switch {
		case isNodeIface(f.Type):
			if fv.IsNil() {
				continue
			}
			if c := Build(f.Name, fv.Interface(), append(path, len(n.Kids))); c != nil {
				n.Kids = append(n.Kids, c)
			}
		case f.Type.Kind() == reflect.Slice && isNodeIface(f.Type.Elem()):
			for j := 0; j < fv.Len(); j++ {
				e := fv.Index(j)
				if e.IsNil() {
					continue
				}
				if c := Build(f.Name, e.Interface(), append(path, len(n.Kids))); c != nil {
					n.Kids = append(n.Kids, c)
				}
			}
		}
	}
	return n
}

// Sexp renders the node as `(slot Kind kid...)`.
func (n *Node) Sexp(b *strings.Builder) {
	fmt.Fprintf(b, "(%s %s", n.Slot, n.Kind)
	for _, k := range n.Kids {
		b.WriteByte(' ')
		k.Sexp(b)
	}
	b.WriteByte(')')
}

// All returns the nodes in pre-order.
func (n *Node) All() []*Node {
	out := []*Node{n}
	for _, k := range n.Kids {
		out = append(out, k.All()...)
	}
	return out
}

func PathString(p []int) string {
	s := make([]string, len(p))
	for i, x := range p {
		s[i] = fmt.Sprint(x)
	}
	return "(" + strings.Join(s, " ") + ")"
}
