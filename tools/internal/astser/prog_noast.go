//go:build noast

package astser

import (
	"fmt"
	"reflect"
	"strings"

	"github.com/mattn/anko/ast"
)

// Fallback serialiser (build tag noast): used when the serialiser for the Lean model (prog.go), which names every
// node type of the ast package, no longer compiles against the working tree. It renders a tree by reflection only -
// node kinds, fields and children, without positions - so that the implementation-side oracles (which compare trees
// for equality and never send them to the model) keep working. The output is NOT in the model's syntax.
func Prog(s ast.Stmt) string {
	var b strings.Builder
	generic(&b, reflect.ValueOf(s), 0)
	return b.String()
}

// SkipParens makes the serialiser drop ParenExpr nodes.
var SkipParens bool

// ProgNoParens renders the program without ParenExpr nodes.
func ProgNoParens(s ast.Stmt) string {
	SkipParens = true
	defer func() { SkipParens = false }()
	return Prog(s)
}

func generic(b *strings.Builder, v reflect.Value, depth int) {
	if depth > 100000 || !v.IsValid() {
		b.WriteString("_")
		return
	}
	if v.Type() == reflectValueT {
		rv := v.Interface().(reflect.Value)
		if !rv.IsValid() {
			b.WriteString("rv:_")
			return
		}
		fmt.Fprintf(b, "rv:%s:%#v", rv.Type(), safeIface(rv))
		return
	}
	switch v.Kind() {
	case reflect.Interface, reflect.Ptr:
		if v.IsNil() {
			b.WriteString("nil")
			return
		}
		generic(b, v.Elem(), depth+1)
	case reflect.Struct:
		t := v.Type()
		if SkipParens && t.Name() == "ParenExpr" {
			if f := v.FieldByName("SubExpr"); f.IsValid() {
				generic(b, f, depth+1)
				return
			}
		}
		b.WriteString("(" + t.Name())
		for i := 0; i < t.NumField(); i++ {
			if t.Field(i).Anonymous || t.Field(i).PkgPath != "" {
				continue // embedded position information, unexported fields
			}
			b.WriteString(" " + t.Field(i).Name + "=")
			generic(b, v.Field(i), depth+1)
		}
		b.WriteString(")")
	case reflect.Slice, reflect.Array:
		b.WriteString("[")
		for i := 0; i < v.Len(); i++ {
			if i > 0 {
				b.WriteString(" ")
			}
			generic(b, v.Index(i), depth+1)
		}
		b.WriteString("]")
	default:
		fmt.Fprintf(b, "%#v", v.Interface())
	}
}
