//go:build !noast

package astser

import (
	"fmt"
	"reflect"
	"strings"

	"github.com/mattn/anko/ast"

	"veriftools/internal/vals"
)

// Prog renders a parsed program in the S-expression syntax of the Lean model's decoder
// (lean/Anko/Model/Syntax.lean). Nodes outside the modelled fragment become (unsup Kind).
func Prog(s ast.Stmt) string {
	var b strings.Builder
	stmt(&b, s)
	return b.String()
}

// SkipParens makes the serialiser drop ParenExpr nodes (used to compare trees up to parentheses).
var SkipParens bool

// ProgNoParens renders the program without ParenExpr nodes.
func ProgNoParens(s ast.Stmt) string {
	SkipParens = true
	defer func() { SkipParens = false }()
	return Prog(s)
}

func name(n string) string {
	if n == "" {
		return "_"
	}
	return n
}

func b01(x bool) string {
	if x {
		return "1"
	}
	return "0"
}

func isNilNode(x interface{}) bool {
	if x == nil {
		return true
	}
	v := reflect.ValueOf(x)
	return v.Kind() == reflect.Ptr && v.IsNil()
}

func optExpr(b *strings.Builder, e ast.Expr) {
	if isNilNode(e) {
		b.WriteString("_")
		return
	}
	expr(b, e)
}

func exprs(b *strings.Builder, es []ast.Expr) {
	for i, e := range es {
		if i > 0 {
			b.WriteByte(' ')
		}
		expr(b, e)
	}
}

func names(b *strings.Builder, ns []string) {
	b.WriteByte('(')
	b.WriteString(strings.Join(ns, " "))
	b.WriteByte(')')
}

func stmt(b *strings.Builder, s ast.Stmt) {
	if isNilNode(s) {
		b.WriteString("_")
		return
	}
	switch x := s.(type) {
	case *ast.StmtsStmt:
		b.WriteString("(stmts")
		for _, c := range x.Stmts {
			b.WriteByte(' ')
			stmt(b, c)
		}
		b.WriteByte(')')
	case *ast.ExprStmt:
		b.WriteString("(expr ")
		expr(b, x.Expr)
		b.WriteByte(')')
	case *ast.VarStmt:
		b.WriteString("(var ")
		names(b, x.Names)
		b.WriteString(" (")
		exprs(b, x.Exprs)
		b.WriteString("))")
	case *ast.LetsStmt:
		b.WriteString("(lets (")
		exprs(b, x.LHSS)
		b.WriteString(") (")
		exprs(b, x.RHSS)
		b.WriteString("))")
	case *ast.IfStmt:
		b.WriteString("(if ")
		expr(b, x.If)
		b.WriteByte(' ')
		stmt(b, x.Then)
		b.WriteString(" (")
		for i, ei := range x.ElseIf {
			if i > 0 {
				b.WriteByte(' ')
			}
			is := ei.(*ast.IfStmt)
			b.WriteByte('(')
			expr(b, is.If)
			b.WriteByte(' ')
			stmt(b, is.Then)
			b.WriteByte(')')
		}
		b.WriteString(") ")
		stmt(b, x.Else)
		b.WriteByte(')')
	case *ast.TryStmt:
		b.WriteString("(try ")
		stmt(b, x.Try)
		b.WriteString(" " + name(x.Var) + " ")
		stmt(b, x.Catch)
		b.WriteByte(' ')
		stmt(b, x.Finally)
		b.WriteByte(')')
	case *ast.LoopStmt:
		b.WriteString("(loop ")
		optExpr(b, x.Expr)
		b.WriteByte(' ')
		stmt(b, x.Stmt)
		b.WriteByte(')')
	case *ast.ForStmt:
		b.WriteString("(forin ")
		names(b, x.Vars)
		b.WriteByte(' ')
		expr(b, x.Value)
		b.WriteByte(' ')
		stmt(b, x.Stmt)
		b.WriteByte(')')
	case *ast.CForStmt:
		b.WriteString("(cfor ")
		stmt(b, x.Stmt1)
		b.WriteByte(' ')
		optExpr(b, x.Expr2)
		b.WriteByte(' ')
		optExpr(b, x.Expr3)
		b.WriteByte(' ')
		stmt(b, x.Stmt)
		b.WriteByte(')')
	case *ast.BreakStmt:
		b.WriteString("(break)")
	case *ast.ContinueStmt:
		b.WriteString("(continue)")
	case *ast.ReturnStmt:
		b.WriteString("(ret")
		for _, e := range x.Exprs {
			b.WriteByte(' ')
			expr(b, e)
		}
		b.WriteByte(')')
	case *ast.ThrowStmt:
		b.WriteString("(throw ")
		expr(b, x.Expr)
		b.WriteByte(')')
	case *ast.ModuleStmt:
		b.WriteString("(module " + x.Name + " ")
		stmt(b, x.Stmt)
		b.WriteByte(')')
	case *ast.SwitchStmt:
		b.WriteString("(switch ")
		expr(b, x.Expr)
		b.WriteString(" (")
		for i, c := range x.Cases {
			if i > 0 {
				b.WriteByte(' ')
			}
			cs := c.(*ast.SwitchCaseStmt)
			b.WriteString("((")
			exprs(b, cs.Exprs)
			b.WriteString(") ")
			stmt(b, cs.Stmt)
			b.WriteByte(')')
		}
		b.WriteString(") ")
		stmt(b, x.Default)
		b.WriteByte(')')
	case *ast.DeferStmt:
		b.WriteString("(defer ")
		expr(b, x.Expr)
		b.WriteByte(')')
	default:
		fmt.Fprintf(b, "(unsup %s)", reflect.TypeOf(s).Elem().Name())
	}
}

func expr(b *strings.Builder, e ast.Expr) {
	switch x := e.(type) {
	case *ast.LiteralExpr:
		var v interface{}
		if x.Literal.IsValid() && x.Literal.CanInterface() {
			v = x.Literal.Interface()
		}
		enc := vals.Encode(v)
		if strings.HasPrefix(enc, "(other") {
			b.WriteString("(unsup LiteralOfOtherType)")
			return
		}
		b.WriteString("(lit " + enc + ")")
	case *ast.IdentExpr:
		b.WriteString("(id " + x.Lit + ")")
	case *ast.OpExpr:
		var o string
		var l, r ast.Expr
		switch op := x.Op.(type) {
		case *ast.BinaryOperator:
			o, l, r = op.Operator, op.LHS, op.RHS
		case *ast.ComparisonOperator:
			o, l, r = op.Operator, op.LHS, op.RHS
		case *ast.AddOperator:
			o, l, r = op.Operator, op.LHS, op.RHS
		case *ast.MultiplyOperator:
			o, l, r = op.Operator, op.LHS, op.RHS
		default:
			b.WriteString("(unsup Operator)")
			return
		}
		b.WriteString("(op " + o + " ")
		expr(b, l)
		b.WriteByte(' ')
		expr(b, r)
		b.WriteByte(')')
	case *ast.UnaryExpr:
		b.WriteString("(un " + x.Operator + " ")
		expr(b, x.Expr)
		b.WriteByte(')')
	case *ast.ParenExpr:
		if SkipParens {
			expr(b, x.SubExpr)
			return
		}
		b.WriteString("(paren ")
		expr(b, x.SubExpr)
		b.WriteByte(')')
	case *ast.TernaryOpExpr:
		b.WriteString("(tern ")
		expr(b, x.Expr)
		b.WriteByte(' ')
		expr(b, x.LHS)
		b.WriteByte(' ')
		expr(b, x.RHS)
		b.WriteByte(')')
	case *ast.NilCoalescingOpExpr:
		b.WriteString("(nilco ")
		expr(b, x.LHS)
		b.WriteByte(' ')
		expr(b, x.RHS)
		b.WriteByte(')')
	case *ast.ArrayExpr:
		if x.TypeData != nil {
			b.WriteString("(unsup TypedArrayExpr)")
			return
		}
		b.WriteString("(arr")
		for _, c := range x.Exprs {
			b.WriteByte(' ')
			expr(b, c)
		}
		b.WriteByte(')')
	case *ast.MapExpr:
		if x.TypeData != nil {
			b.WriteString("(unsup TypedMapExpr)")
			return
		}
		b.WriteString("(map")
		for i := range x.Keys {
			b.WriteString(" (")
			expr(b, x.Keys[i])
			b.WriteByte(' ')
			expr(b, x.Values[i])
			b.WriteByte(')')
		}
		b.WriteByte(')')
	case *ast.ItemExpr:
		b.WriteString("(item ")
		expr(b, x.Item)
		b.WriteByte(' ')
		expr(b, x.Index)
		b.WriteByte(')')
	case *ast.SliceExpr:
		b.WriteString("(slice ")
		expr(b, x.Item)
		b.WriteByte(' ')
		optExpr(b, x.Begin)
		b.WriteByte(' ')
		optExpr(b, x.End)
		b.WriteByte(' ')
		optExpr(b, x.Cap)
		b.WriteByte(')')
	case *ast.LenExpr:
		b.WriteString("(len ")
		expr(b, x.Expr)
		b.WriteByte(')')
	case *ast.IncludeExpr:
		b.WriteString("(in ")
		expr(b, x.ItemExpr)
		b.WriteByte(' ')
		expr(b, x.ListExpr)
		b.WriteByte(')')
	case *ast.LetsExpr:
		b.WriteString("(letsx (")
		exprs(b, x.LHSS)
		b.WriteString(") (")
		exprs(b, x.RHSS)
		b.WriteString("))")
	case *ast.FuncExpr:
		b.WriteString("(func " + name(x.Name) + " ")
		names(b, x.Params)
		b.WriteString(" " + b01(x.VarArg) + " ")
		stmt(b, x.Stmt)
		b.WriteByte(')')
	case *ast.CallExpr:
		if x.Func.IsValid() {
			b.WriteString("(unsup CallExprWithFunc)")
			return
		}
		b.WriteString("(call " + x.Name + " " + b01(x.VarArg) + " " + b01(x.Go))
		for _, c := range x.SubExprs {
			b.WriteByte(' ')
			expr(b, c)
		}
		b.WriteByte(')')
	case *ast.AnonCallExpr:
		b.WriteString("(acall ")
		expr(b, x.Expr)
		b.WriteString(" " + b01(x.VarArg) + " " + b01(x.Go))
		for _, c := range x.SubExprs {
			b.WriteByte(' ')
			expr(b, c)
		}
		b.WriteByte(')')
	case *ast.MemberExpr:
		b.WriteString("(member ")
		expr(b, x.Expr)
		b.WriteString(" " + x.Name + ")")
	default:
		if isNilNode(e) {
			b.WriteString("(unsup NilExpr)")
			return
		}
		fmt.Fprintf(b, "(unsup %s)", reflect.TypeOf(e).Elem().Name())
	}
}
