package main

import (
	"bytes"
	"fmt"
	"go/ast"
	"go/parser"
	"go/printer"
	"go/token"
	"path/filepath"
	"sort"
	"strings"
)

// guardedLeaves lists every leaf statement of a function body in source order, each prefixed by the conditions (if / else /
// switch clauses / loop headers) it stands under, as "g1 && g2 => statement". rename rewrites the printed text.
func guardedLeaves(fset *token.FileSet, body *ast.BlockStmt, rename func(string) string) []string {
	text := func(n ast.Node) string {
		var b bytes.Buffer
		_ = printer.Fprint(&b, fset, n)
		return rename(strings.Join(strings.Fields(b.String()), " "))
	}
	var out []string
	litCount := 0
	emit := func(guards []string, what string) {
		gs := make([]string, len(guards))
		for i, x := range guards {
			gs[i] = x
			if len(guards) > 1 && (strings.Contains(x, " || ") || strings.Contains(x, " && ")) && !strings.HasPrefix(x, "!(") {
				gs[i] = "(" + x + ")"
			}
		}
		g := strings.Join(gs, " && ")
		if g != "" {
			g += " => "
		}
		out = append(out, g+what)
	}
	with := func(guards []string, g string) []string { return append(append([]string{}, guards...), g) }
	var walk func(guards []string, stmts []ast.Stmt)
	walk = func(guards []string, stmts []ast.Stmt) {
		for _, s := range stmts {
			switch x := s.(type) {
			case *ast.IfStmt:
				if x.Init != nil {
					emit(guards, text(x.Init))
				}
				c := text(x.Cond)
				walk(with(guards, c), x.Body.List)
				switch e := x.Else.(type) {
				case nil:
				case *ast.BlockStmt:
					walk(with(guards, "!("+c+")"), e.List)
				default:
					walk(with(guards, "!("+c+")"), []ast.Stmt{e})
				}
			case *ast.SwitchStmt:
				tag := "true"
				if x.Tag != nil {
					tag = text(x.Tag)
				}
				if x.Init != nil {
					emit(guards, text(x.Init))
				}
				for _, c := range x.Body.List {
					cc := c.(*ast.CaseClause)
					g := tag + " default"
					if cc.List != nil {
						var vs []string
						for _, v := range cc.List {
							vs = append(vs, text(v))
						}
						g = tag + " in {" + strings.Join(vs, ", ") + "}"
					}
					if len(cc.Body) == 0 {
						emit(with(guards, g), "(nothing)")
					}
					walk(with(guards, g), cc.Body)
				}
			case *ast.ForStmt:
				h := "for"
				if x.Init != nil {
					h += " " + text(x.Init) + ";"
				}
				if x.Cond != nil {
					h += " " + text(x.Cond)
				}
				if x.Post != nil {
					h += "; " + text(x.Post)
				}
				walk(with(guards, h), x.Body.List)
			case *ast.RangeStmt:
				h := "for "
				if x.Key != nil {
					h += text(x.Key)
				}
				if x.Value != nil {
					h += ", " + text(x.Value)
				}
				h += " range " + text(x.X)
				walk(with(guards, h), x.Body.List)
			case *ast.TypeSwitchStmt:
				if x.Init != nil {
					emit(guards, text(x.Init))
				}
				tag := text(x.Assign)
				for _, c := range x.Body.List {
					cc := c.(*ast.CaseClause)
					g := tag + " default"
					if cc.List != nil {
						var vs []string
						for _, v := range cc.List {
							vs = append(vs, text(v))
						}
						g = tag + " in {" + strings.Join(vs, ", ") + "}"
					}
					if len(cc.Body) == 0 {
						emit(with(guards, g), "(nothing)")
					}
					walk(with(guards, g), cc.Body)
				}
			case *ast.SelectStmt:
				for _, c := range x.Body.List {
					cc := c.(*ast.CommClause)
					g := "select default"
					if cc.Comm != nil {
						g = "select " + text(cc.Comm)
					}
					if len(cc.Body) == 0 {
						emit(with(guards, g), "(nothing)")
					}
					walk(with(guards, g), cc.Body)
				}
			case *ast.LabeledStmt:
				emit(guards, "label "+x.Label.Name)
				walk(guards, []ast.Stmt{x.Stmt})
			case *ast.BlockStmt:
				walk(guards, x.List)
			default:
				// function literals inside the statement: the statement is written with their bodies elided, the bodies follow
				// leaf by leaf under the guard "in func literal <k> of <function head>"
				var lits []*ast.FuncLit
				ast.Inspect(s, func(n ast.Node) bool {
					if fl, ok := n.(*ast.FuncLit); ok {
						lits = append(lits, fl)
						return false
					}
					return true
				})
				if len(lits) == 0 {
					emit(guards, text(s))
					break
				}
				saved := make([]*ast.BlockStmt, len(lits))
				for i, fl := range lits {
					saved[i] = fl.Body
					fl.Body = &ast.BlockStmt{}
				}
				head := text(s)
				for i, fl := range lits {
					fl.Body = saved[i]
				}
				emit(guards, head)
				for i, fl := range lits {
					litCount++
					_ = i
					walk(with(guards, fmt.Sprintf("in func literal #%d", litCount)), fl.Body.List)
				}
			}
		}
	}
	walk(nil, body.List)
	return out
}

// genEqualFlow writes down the decision structure of the equality relation of vm/vm.go - equal, unwrapForEqual,
// numberFromString, isNum - leaf statement by leaf statement with the conditions each stands under, and every call site of
// equal in vm/ with its arguments (==, !=, in, switch all go through the one function, in which argument order).
func genEqualFlow() (string, error) {
	fset := token.NewFileSet()
	rename := func(s string) string {
		s = strings.ReplaceAll(s, "reflect.", "")
		s = strings.ReplaceAll(s, "lhsV", "L")
		s = strings.ReplaceAll(s, "rhsV", "R")
		return s
	}
	f, err := parser.ParseFile(fset, filepath.Join(repo, "vm", "vm.go"), nil, 0)
	if err != nil {
		return "", err
	}
	fns := []string{"equal", "unwrapForEqual", "numberFromString", "isNum"}
	bodies := map[string][]string{}
	for _, d := range f.Decls {
		fd, ok := d.(*ast.FuncDecl)
		if !ok || fd.Body == nil || fd.Recv != nil {
			continue
		}
		for _, n := range fns {
			if fd.Name.Name == n {
				bodies[n] = guardedLeaves(fset, fd.Body, rename)
			}
		}
	}
	for _, n := range fns {
		if bodies[n] == nil {
			return "", fmt.Errorf("function %s not found in vm/vm.go", n)
		}
	}
	// call sites of equal in vm/*.go (tests excluded)
	files, _ := filepath.Glob(filepath.Join(repo, "vm", "*.go"))
	sort.Strings(files)
	type site struct{ file, fn, call string }
	var sites []site
	for _, path := range files {
		if strings.HasSuffix(path, "_test.go") {
			continue
		}
		pf, err := parser.ParseFile(fset, path, nil, 0)
		if err != nil {
			return "", err
		}
		for _, d := range pf.Decls {
			fd, ok := d.(*ast.FuncDecl)
			if !ok || fd.Body == nil {
				continue
			}
			ast.Inspect(fd.Body, func(n ast.Node) bool {
				c, ok := n.(*ast.CallExpr)
				if !ok {
					return true
				}
				if id, ok := c.Fun.(*ast.Ident); ok && id.Name == "equal" {
					var b bytes.Buffer
					_ = printer.Fprint(&b, fset, c)
					sites = append(sites, site{filepath.Base(path), fd.Name.Name, strings.Join(strings.Fields(b.String()), " ")})
				}
				return true
			})
		}
	}
	var b strings.Builder
	b.WriteString("-- GENERATED by /verif/tools/cmd/extract from /repo/vm/vm.go and the call sites in /repo/vm/*.go. Do not edit.\n")
	b.WriteString("namespace Anko.Gen.EqualFlow\n\n")
	b.WriteString("/-- (function, \"conditions => statement\") for every leaf statement, in source order; L = lhsV, R = rhsV -/\n")
	b.WriteString("def leaves : List (String × String) := [\n")
	var rows []string
	for _, n := range fns {
		for _, l := range bodies[n] {
			rows = append(rows, fmt.Sprintf("  (%s, %s)", leanStr(n), leanStr(l)))
		}
	}
	b.WriteString(strings.Join(rows, ",\n"))
	b.WriteString("\n]\n\n/-- every call of equal in vm/: (file, enclosing function, the call) -/\n")
	b.WriteString("def callSites : List (String × String × String) := [\n")
	rows = rows[:0]
	for _, s := range sites {
		rows = append(rows, fmt.Sprintf("  (%s, %s, %s)", leanStr(s.file), leanStr(s.fn), leanStr(s.call)))
	}
	b.WriteString(strings.Join(rows, ",\n"))
	b.WriteString("\n]\n\nend Anko.Gen.EqualFlow\n")
	return b.String(), nil
}
